import Judge.Parse
import OVM.Kernel.Step
/-
  Judge: per-step refinement check X (model step on the implementation's own previous state
  vs. the implementation's next state, under the projections of DESIGN.md Appendix D) and
  the property oracles evaluated directly on the implementation's states.
-/
open OVM OVM.Kernel

namespace Judge

/-- a finding of the judge -/
inductive Finding where
  | xfail (field : String) (model impl : String)      -- correspondence broke
  | oracle (prop : String) (witness : String)         -- the property itself fails on the implementation's states
  | drift (field : String)                            -- exact but unspecified detail differs (informational)
deriving Repr

def showL (l : List Nat) : String := "[" ++ " ".intercalate (l.map toString) ++ "]"
def showLL (l : List (List Nat)) : String := "[" ++ ",".intercalate (l.map showL) ++ "]"
def showO (o : Option Nat) : String := match o with | some x => toString x | none => "-1"
def showLI (l : List Int) : String := "[" ++ " ".intercalate (l.map toString) ++ "]"

def opOfStep (s : Step) : Option Op :=
  let a := s.args.map Int.toNat
  match s.op, a with
  | "add_vertex", _ => some .addVertex
  | "add_n_vertices", [n] => some (.addNVertices n)
  | "add_edge", [x, y, d] => some (.addEdge x y (d != 0))
  | "add_face_he", c :: _n :: hes => some (.addFaceHe (c != 0) hes)
  | "add_face_v", _n :: vs => some (.addFaceV vs)
  | "add_cell", c :: _n :: hfs => some (.addCell (c != 0) hfs)
  | "set_edge", [e, x, y] => some (.setEdge e x y)
  | "set_face", f :: _n :: hes => some (.setFace f hes)
  | "set_cell", c :: _n :: hfs => some (.setCell c hfs)
  | "delete_vertex", [x] => some (.deleteVertex x)
  | "delete_edge", [x] => some (.deleteEdge x)
  | "delete_face", [x] => some (.deleteFace x)
  | "delete_cell", [x] => some (.deleteCell x)
  | "swap_vertex", [x, y] => some (.swapVertex x y)
  | "swap_edge", [x, y] => some (.swapEdge x y)
  | "swap_face", [x, y] => some (.swapFace x y)
  | "swap_cell", [x, y] => some (.swapCell x y)
  | "collect_garbage", _ => some .collectGarbage
  | "enable_deferred", [b] => some (.enableDeferred (b != 0))
  | "enable_fast", [b] => some (.enableFast (b != 0))
  | "enable_bu", [kd, b] => some (.enableBU kd (b != 0))
  | "clear", [b] => some (.clear (b != 0))
  | _, _ => none

/-! ### projections -/

def liveDefs {α} (defs : List α) (del : List Bool) : List (Nat × α) :=
  (defs.zipIdx.filter (fun p => !(del.getD p.2 false))).map (fun p => (p.2, p.1))

def sortCols (cs : List Col) : List Col := cs.mergeSort (fun a b => a.key ≤ b.key)

def colsStr (cs : List Col) : String :=
  ";".intercalate ((sortCols cs).map (fun c => c.key ++ ":" ++ toString c.dflt ++ ":" ++ showLI c.vals))

/-- rotations of a list -/
def isRotation (a b : List Nat) : Bool :=
  a.length == b.length && (a.isEmpty || (List.range a.length).any (fun r => a.rotateLeft r == b))

/-- compare model state with implementation state, field by field -/
def cmpKernel (m i : Kernel) (exactCaches : Bool) : List Finding := Id.run do
  let mut out : List Finding := []
  let chk := fun (out : List Finding) (field : String) (a b : String) => if a == b then out else out ++ [Finding.xfail field a b]
  out := chk out "counts" (toString [m.nV, m.nE, m.nF, m.nC]) (toString [i.nV, i.nE, i.nF, i.nC])
  out := chk out "ndel" (toString [m.nDelV, m.nDelE, m.nDelF, m.nDelC]) (toString [i.nDelV, i.nDelE, i.nDelF, i.nDelC])
  out := chk out "modes" (toString [m.deferred, m.fast]) (toString [i.deferred, i.fast])
  out := chk out "bu" (toString [m.vBU, m.eBU, m.fBU]) (toString [i.vBU, i.eBU, i.fBU])
  out := chk out "vdel" (toString m.vDel) (toString i.vDel)
  out := chk out "edel" (toString m.eDel) (toString i.eDel)
  out := chk out "fdel" (toString m.fDel) (toString i.fDel)
  out := chk out "cdel" (toString m.cDel) (toString i.cDel)
  out := chk out "edges.live" (toString (liveDefs m.edges m.eDel)) (toString (liveDefs i.edges i.eDel))
  out := chk out "faces.live" (toString (liveDefs m.faces m.fDel)) (toString (liveDefs i.faces i.fDel))
  out := chk out "cells.live" (toString (liveDefs m.cells m.cDel)) (toString (liveDefs i.cells i.cDel))
  if m.edges != i.edges || m.faces != i.faces || m.cells != i.cells then out := out ++ [Finding.drift "deleted-definitions"]
  -- caches
  if i.vBU then
    out := chk out "outHes.multiset" (showLL (m.outHes.map sortL)) (showLL (i.outHes.map sortL))
    if m.outHes != i.outHes then
      out := out ++ [if exactCaches then Finding.xfail "outHes.exact" (showLL m.outHes) (showLL i.outHes) else Finding.drift "outHes.order"]
  if i.eBU then
    out := chk out "incHfs.multiset" (showLL (m.incHfs.map sortL)) (showLL (i.incHfs.map sortL))
    if m.incHfs != i.incHfs then
      if exactCaches then out := out ++ [Finding.xfail "incHfs.exact" (showLL m.incHfs) (showLL i.incHfs)]
      else
        let rotOk := m.incHfs.length == i.incHfs.length && (m.incHfs.zip i.incHfs).all (fun p => isRotation p.1 p.2)
        out := out ++ [Finding.drift (if rotOk then "incHfs.rotation" else "incHfs.order")]
  if i.fBU then
    out := chk out "incCell" (toString (m.incCell.map showO)) (toString (i.incCell.map showO))
  out := chk out "props.v" (colsStr m.props.v) (colsStr i.props.v)
  out := chk out "props.e" (colsStr m.props.e) (colsStr i.props.e)
  out := chk out "props.he" (colsStr m.props.he) (colsStr i.props.he)
  out := chk out "props.f" (colsStr m.props.f) (colsStr i.props.f)
  out := chk out "props.hf" (colsStr m.props.hf) (colsStr i.props.hf)
  out := chk out "props.c" (colsStr m.props.c) (colsStr i.props.c)
  out := chk out "props.m" (colsStr m.props.m) (colsStr i.props.m)
  if m.fault then out := out ++ [Finding.xfail "fault" "model performed an out-of-range access" "no abort observed"]
  return out

/-! ### token-named meshes: entities identified by the tokens of the id columns -/

def idCol (cs : List Col) (key : String) : Option (List Int) := (cs.find? (·.key == key)).map (·.vals)

structure Named where
  vs : List Int
  es : List (Int × Int × Int)
  fs : List (Int × List (Int × Nat))
  cs : List (Int × List (Int × Nat))
deriving Repr, DecidableEq, BEq

def insertBy {α} (le : α → α → Bool) (x : α) : List α → List α
  | [] => [x]
  | y :: ys => if le x y then x :: y :: ys else y :: insertBy le x ys
def sortBy {α} (le : α → α → Bool) (l : List α) : List α := l.foldr (insertBy le) []

def named (k : Kernel) : Option Named := do
  let tv ← idCol k.props.v "idv"
  let te ← idCol k.props.e "ide"
  let tf ← idCol k.props.f "idf"
  let tc ← idCol k.props.c "idc"
  let tokV := fun v => tv.getD v (-1)
  let tokE := fun e => te.getD e (-1)
  let tokF := fun f => tf.getD f (-1)
  let vs := (k.liveVerts.map tokV)
  let es := k.liveEdges.map (fun e => let d := k.edgeAt e; (tokE e, tokV d.1, tokV d.2))
  let fs := k.liveFaces.map (fun f => (tokF f, (k.faceAt f).map (fun h => (tokE (h / 2), h % 2))))
  let cs := k.liveCells.map (fun c => (tc.getD c (-1), (k.cellAt c).map (fun hf => (tokF (hf / 2), hf % 2))))
  pure { vs := sortBy (· ≤ ·) vs, es := sortBy (fun a b => a.1 ≤ b.1) es,
         fs := sortBy (fun a b => a.1 ≤ b.1) fs, cs := sortBy (fun a b => a.1 ≤ b.1) cs }

/-- upward closure of an entity in the token-named mesh -/
def Named.closureV (n : Named) (v : Int) : Named :=
  let es := n.es.filter (fun e => e.2.1 == v || e.2.2 == v)
  let et := es.map (·.1)
  let fs := n.fs.filter (fun f => f.2.any (fun h => et.contains h.1))
  let ft := fs.map (·.1)
  let cs := n.cs.filter (fun c => c.2.any (fun h => ft.contains h.1))
  { vs := [v], es := es, fs := fs, cs := cs }
def Named.closureE (n : Named) (e : Int) : Named :=
  let fs := n.fs.filter (fun f => f.2.any (fun h => h.1 == e))
  let ft := fs.map (·.1)
  let cs := n.cs.filter (fun c => c.2.any (fun h => ft.contains h.1))
  { vs := [], es := n.es.filter (·.1 == e), fs := fs, cs := cs }
def Named.closureF (n : Named) (f : Int) : Named :=
  { vs := [], es := [], fs := n.fs.filter (·.1 == f), cs := n.cs.filter (fun c => c.2.any (fun h => h.1 == f)) }
def Named.closureC (n : Named) (c : Int) : Named :=
  { vs := [], es := [], fs := [], cs := n.cs.filter (·.1 == c) }
def Named.minus (n d : Named) : Named :=
  { vs := n.vs.filter (fun x => !d.vs.contains x), es := n.es.filter (fun x => !d.es.contains x),
    fs := n.fs.filter (fun x => !d.fs.contains x), cs := n.cs.filter (fun x => !d.cs.contains x) }

/-- every non-id column as a token-keyed association (entity token, side) ↦ value -/
def colAssoc (ids : List Int) (half : Bool) (live : Nat → Bool) (c : Col) : List ((Int × Nat) × Int) :=
  let l := c.vals.zipIdx.filterMap (fun p =>
    let i := p.2
    let ent := if half then i / 2 else i
    if live ent then some ((ids.getD ent (-1), if half then i % 2 else 0), p.1) else none)
  sortBy (fun a b => a.1.1 < b.1.1 || (a.1.1 == b.1.1 && a.1.2 ≤ b.1.2)) l

def propAssoc (k : Kernel) : List (String × List ((Int × Nat) × Int)) :=
  match idCol k.props.v "idv", idCol k.props.e "ide", idCol k.props.f "idf", idCol k.props.c "idc" with
  | some tv, some te, some tf, some tc =>
    let lv := fun v => k.liveV v
    let le := fun e => k.liveE e
    let lf := fun f => k.liveF f
    let lc := fun c => k.liveC c
    (k.props.v.map (fun c => (c.key, colAssoc tv false lv c))) ++
    (k.props.e.map (fun c => (c.key, colAssoc te false le c))) ++
    (k.props.he.map (fun c => (c.key, colAssoc te true le c))) ++
    (k.props.f.map (fun c => (c.key, colAssoc tf false lf c))) ++
    (k.props.hf.map (fun c => (c.key, colAssoc tf true lf c))) ++
    (k.props.c.map (fun c => (c.key, colAssoc tc false lc c)))
  | _, _, _, _ => []

end Judge

import Judge.Check
import OVM.Iter.Circ
/-
  Judge: iterator lines of the driver (`it_<class> centre laps endeq rangecnt backok predEndHandle
  predEndValid n h…`, `ite_<kind> …`) against the circulator / entity machines run on the list the
  model says the constructor builds.
-/
open OVM OVM.Kernel

namespace Judge

/-- the list each circulator class builds, by driver class name; `none` = unknown class -/
def circList (k : Kernel) (cls : String) (x : Nat) : Option (List Nat) :=
  match cls with
  | "voh" => some (k.qVOH x) | "vih" => some (k.qVIH x) | "vv" => some (k.qVV x) | "ve" => some (k.qVE x)
  | "vhf" => some (k.qVHF x) | "vf" => some (k.qVF x) | "vc" => some (k.qVC x)
  | "ehf" => some (k.qEHF x) | "ef" => some (k.qEF x) | "ec" => some (k.qEC x)
  | "hehf" => some (k.qHEHF x) | "hef" => some (k.qHEF x) | "hec" => some (k.qHEC x)
  | "fv" => some (k.qFV x) | "fhe" => some (k.qFHE x) | "fe" => some (k.qFE x)
  | "hfv" => some (k.qHFV x) | "hfhe" => some (k.qHFHE x) | "hfe" => some (k.qHFE x)
  | "bhfhf" => some (k.qBHFHF x)
  | "cv" => some (k.qCV x) | "che" => some (k.qCHE x) | "ce" => some (k.qCE x)
  | "chf" => some (k.qCHF x) | "cf" => some (k.qCF x) | "cc" => some (k.qCC x)
  | _ => none

/-- circulators whose incident relation is a set (no duplicates within one lap) -/
def setRelation (cls : String) : Bool :=
  ["vhf", "vf", "vc", "ef", "hef", "hec", "ec", "cv", "ce", "cc"].contains cls

/-- brute-force incident set for the classes where the spec layer has one (sorted) -/
def circSpec (k : Kernel) (cls : String) (x : Nat) : Option (List Nat) :=
  match cls with
  | "voh" => some (k.sOut x) | "vih" => some (k.sIn x) | "vv" => some (k.sVV x) | "ve" => some (k.sVE x)
  | "vhf" => some (k.sVHF x) | "vf" => some (k.sVF x) | "vc" => some (k.sVC x)
  | "ehf" => some (k.sEHF x) | "ef" => some (k.sEF x) | "ec" => some (k.sHEC (2 * x))
  | "hehf" => some (k.sHfsOfHe x) | "hef" => some (k.sHEF x) | "hec" => some (k.sHEC x)
  | "cc" => some (k.sCC x)
  | _ => none

def needsBU (cls : String) : Kernel → Bool := fun k =>
  match cls with
  | "voh" | "vih" | "vv" | "ve" => k.vBU
  | "vhf" => k.vBU && k.eBU
  | "vf" | "vc" => k.vBU && k.eBU && k.fBU
  | "ehf" | "ef" | "hehf" | "hef" => k.eBU
  | "ec" | "hec" => k.eBU && k.fBU
  | "cc" => k.fBU
  | _ => true

def repL (m : Nat) (L : List Nat) : List Nat := (List.replicate m L).flatten

def checkIter (k : Kernel) (q : QLine) : List Finding :=
  let orc := fun (ok : Bool) (msg : String) => if ok then [] else [Finding.oracle "C05" s!"{q.name} {q.args.take 8}: {msg}"]
  if q.name.startsWith "it_" || q.name.startsWith "ite_" then
    let isEnt := q.name.startsWith "ite_"
    let cls := (if isEnt then q.name.drop 4 else q.name.drop 3).toString
    match q.args with
    | centre :: laps :: endeq :: cnt :: backok :: peh :: pev :: n :: seq =>
      let x := centre.toNat
      let m := laps.toNat
      let s := seq.map Int.toNat
      let L? : Option (List Nat) :=
        if isEnt then
          match cls with
          | "v" => some (enumFrom k.vDel k.nV 0) | "e" => some (enumFrom k.eDel k.nE 0)
          | "he" => some ((enumFrom k.eDel k.nE 0).flatMap (fun e => [2 * e, 2 * e + 1]))
          | "f" => some (enumFrom k.fDel k.nF 0)
          | "hf" => some ((enumFrom k.fDel k.nF 0).flatMap (fun e => [2 * e, 2 * e + 1]))
          | "c" => some (enumFrom k.cDel k.nC 0)
          | _ => none
        else circList k cls x
      match L? with
      | none => [Finding.xfail s!"iter:{cls}" "unknown iterator class" ""]
      | some L =>
        let expect := repL m L
        (if s != expect then [Finding.xfail s!"iter:{cls}" s!"centre {x} laps {m}: {showL expect}" (showL s)] else []) ++
        orc (n.toNat == s.length) "reported length" ++
        -- exactly the incident set, max_laps times
        (match (if isEnt then none else circSpec k cls x) with
         | some sp => if needsBU cls k then orc (sortL s == sortL (repL m sp)) s!"visited {showL s}, brute-force incident set {showL sp} x {m}" else orc s.isEmpty "circulator needing a disabled incidence kind is not immediately invalid"
         | none => []) ++
        (if isEnt then
          let live := match cls with
            | "v" => k.liveVerts | "e" => k.liveEdges | "f" => k.liveFaces | "c" => k.liveCells
            | "he" => k.liveEdges.flatMap (fun e => [2 * e, 2 * e + 1])
            | _ => k.liveFaces.flatMap (fun e => [2 * e, 2 * e + 1])
          orc (s == live) s!"entity iteration {showL s} but live slots ascending are {showL live}"
         else []) ++
        orc (!(setRelation cls) || (s.take L.length).eraseDups.length == (s.take L.length).length) "duplicate within one lap of a set relation" ++
        orc (endeq == 1) "begin advanced past the last lap is not equal to the end of the pair" ++
        orc (cnt.toNat == s.length) s!"range loop (it != end) ran {cnt} times, valid() loop {s.length}" ++
        orc (backok == 1) "stepping backward does not undo stepping forward" ++
        orc (s.isEmpty || peh.toNat == s.getLast?.getD 0) "decrementing the end does not give the last element" ++
        (if !s.isEmpty && pev != 1 then [Finding.oracle "C05" "F10:decrement_from_end_stays_invalid"] else [])
    | _ => []
  else []

end Judge

import OVM.Kernel.Query
import OVM.Spec.Incidence
/-
  Judge: parser for the trace format of harness/kernel_drv.cc (DESIGN.md Appendix A).
-/
open OVM

namespace Judge

structure QLine where
  name : String
  args : List Int
deriving Repr, Inhabited

/-- what the implementation showed after one operation -/
structure Obs where
  k : Kernel := {}
  twin : Option Kernel := none
  logV : Nat := 0
  logE : Nat := 0
  logF : Nat := 0
  logC : Nat := 0
  gc : Bool := false
  genus : Int := 0
  q : Array QLine := #[]
deriving Inhabited

structure Step where
  op : String := ""
  args : List Int := []
  malformed : Bool := false
  res : String := ""
  post : Obs := {}
  crashed : Option String := none
deriving Inhabited

structure Trace where
  header : String := ""
  initCfg : Nat := 0
  init : Obs := {}
  steps : Array Step := #[]
  crash : Option String := none
deriving Inhabited

def toks (s : String) : List String := (s.splitOn " ").filter (· ≠ "")

def int! (s : String) : Int := s.toInt?.getD 0
def nat! (s : String) : Nat := s.toNat?.getD 0
def natList (l : List String) : List Nat := l.map nat!
def intList (l : List String) : List Int := l.map int!

/-- mutable builder for one state dump -/
structure KB where
  k : Kernel := {}
  logV : Nat := 0
  logE : Nat := 0
  logF : Nat := 0
  logC : Nat := 0
  gc : Bool := false
  genus : Int := 0
  edges : Array (Nat × Nat) := #[]
  eDel : Array Bool := #[]
  faces : Array (List Nat) := #[]
  fDel : Array Bool := #[]
  cells : Array (List Nat) := #[]
  cDel : Array Bool := #[]
  ov : Array (List Nat) := #[]
  ih : Array (List Nat) := #[]
  ic : Array (Option Nat) := #[]
  pv : Array Col := #[]
  pe : Array Col := #[]
  phe : Array Col := #[]
  pf : Array Col := #[]
  phf : Array Col := #[]
  pc : Array Col := #[]
  pm : Array Col := #[]
  seen : Bool := false
deriving Inhabited

def KB.line (b : KB) (t : List String) : KB :=
  match t with
  | "n" :: nv :: _ne :: _nf :: _nc :: "l" :: lv :: le :: lf :: lc :: "gc" :: g :: "genus" :: gen :: _ =>
    { b with k := { b.k with nV := nat! nv }, logV := nat! lv, logE := nat! le, logF := nat! lf, logC := nat! lc,
             gc := g == "1", genus := int! gen, seen := true }
  | "m" :: d :: f :: v :: e :: ff :: _ =>
    { b with k := { b.k with deferred := d == "1", fast := f == "1", vBU := v == "1", eBU := e == "1", fBU := ff == "1" } }
  | "vd" :: _n :: fl => { b with k := { b.k with vDel := fl.map (· == "1") } }
  | "e" :: _i :: a :: c :: d :: _ => { b with edges := b.edges.push (nat! a, nat! c), eDel := b.eDel.push (d == "1") }
  | "f" :: _i :: d :: _n :: hes => { b with faces := b.faces.push (natList hes), fDel := b.fDel.push (d == "1") }
  | "c" :: _i :: d :: _n :: hfs => { b with cells := b.cells.push (natList hfs), cDel := b.cDel.push (d == "1") }
  | "ov" :: _v :: _n :: l => { b with ov := b.ov.push (natList l) }
  | "ih" :: _h :: _n :: l => { b with ih := b.ih.push (natList l) }
  | "ic" :: _h :: c :: _ => { b with ic := b.ic.push (if (int! c) < 0 then none else some (nat! c)) }
  | "p" :: kind :: key :: _ty :: dflt :: _n :: vals =>
    let col : Col := { key := key, dflt := int! dflt, vals := intList vals }
    match kind with
    | "v" => { b with pv := b.pv.push col }
    | "e" => { b with pe := b.pe.push col }
    | "he" => { b with phe := b.phe.push col }
    | "f" => { b with pf := b.pf.push col }
    | "hf" => { b with phf := b.phf.push col }
    | "c" => { b with pc := b.pc.push col }
    | _ => { b with pm := b.pm.push col }
  | _ => b

def KB.finish (b : KB) : Kernel :=
  let k := b.k
  { k with edges := b.edges.toList, eDel := b.eDel.toList, faces := b.faces.toList, fDel := b.fDel.toList,
           cells := b.cells.toList, cDel := b.cDel.toList,
           nDelV := k.nV - b.logV, nDelE := b.edges.size - b.logE, nDelF := b.faces.size - b.logF,
           nDelC := b.cells.size - b.logC,
           outHes := b.ov.toList, incHfs := b.ih.toList, incCell := b.ic.toList,
           props := { v := b.pv.toList, e := b.pe.toList, he := b.phe.toList, f := b.pf.toList,
                      hf := b.phf.toList, c := b.pc.toList, m := b.pm.toList } }

structure OB where
  main : KB := {}
  twin : KB := {}
  q : Array QLine := #[]
deriving Inhabited

def OB.finish (o : OB) : Obs :=
  { k := o.main.finish, twin := if o.twin.seen then some o.twin.finish else none,
    logV := o.main.logV, logE := o.main.logE, logF := o.main.logF, logC := o.main.logC,
    gc := o.main.gc, genus := o.main.genus, q := o.q }

def stateTags : List String := ["n", "m", "vd", "e", "f", "c", "ov", "ih", "ic", "p"]

def OB.line (o : OB) (t : List String) : OB :=
  match t with
  | [] => o
  | tag :: rest =>
    if stateTags.contains tag then { o with main := o.main.line t }
    else if tag.startsWith "T" && stateTags.contains (tag.drop 1).toString then
      { o with twin := o.twin.line ((tag.drop 1).toString :: rest) }
    else { o with q := o.q.push { name := tag, args := intList rest } }

structure PS where
  traces : Array Trace := #[]
  cur : Trace := {}
  inTrace : Bool := false
  step : Step := {}
  ob : OB := {}
  inInit : Bool := false
  haveStep : Bool := false
deriving Inhabited

def PS.flushTrace (p : PS) : PS :=
  if p.inTrace then { p with traces := p.traces.push p.cur, cur := {}, inTrace := false, haveStep := false, inInit := false } else p

def PS.line (p : PS) (line : String) : PS :=
  let t := toks line
  match t with
  | [] => p
  | "T" :: _ => let p := p.flushTrace; { p with cur := { header := line }, inTrace := true }
  | "I" :: cfg :: _ => { p with cur := { p.cur with initCfg := nat! cfg }, inInit := true, ob := {} }
  | "O" :: name :: args => { p with step := { op := name, args := intList args }, haveStep := true, ob := {} }
  | "O!" :: name :: args => { p with step := { op := name, args := intList args, malformed := true }, haveStep := true, ob := {} }
  | "R" :: r => { p with step := { p.step with res := " ".intercalate r } }
  | "E" :: _ =>
    if p.inInit then { p with cur := { p.cur with init := p.ob.finish }, inInit := false, ob := {} }
    else if p.haveStep then
      { p with cur := { p.cur with steps := p.cur.steps.push { p.step with post := p.ob.finish } }, haveStep := false, ob := {} }
    else p
  | "X" :: r =>
    let why := " ".intercalate r
    let cur := if p.haveStep then { p.cur with steps := p.cur.steps.push { p.step with crashed := some why, post := p.ob.finish } } else p.cur
    { p with cur := { cur with crash := some why }, haveStep := false }
  | _ => { p with ob := p.ob.line t }

def parseFile (lines : Array String) : Array Trace :=
  let p := lines.foldl PS.line {}
  p.flushTrace.traces

end Judge

import Judge.Oracles
import Judge.Lookups
import Judge.Iters
import OVM.Tet.Kernel
import Std.Data.HashMap
import Std.Data.HashSet
/-
  ovmjudge: reads kernel_drv trace files and prints one line per finding.
    XFAIL  trace=<t> step=<k> op=<op> field=<f> model=<..> impl=<..>
    ORACLE trace=<t> step=<k> op=<op> prop=<Cxx> witness=<..>
    DRIFT  trace=<t> step=<k> op=<op> field=<f>
    CRASH  trace=<t> step=<k> op=<op> why=<..>
    TRACE  <t> steps=<n>      STAT <key> <value>
-/
open OVM OVM.Kernel Judge

def kindOfHeader (h : String) : String :=
  match (toks h).find? (·.startsWith "kind=") with
  | some s => (s.drop 5).toString
  | none => "poly"

def traceNo (h : String) : String :=
  match (toks h).find? (·.startsWith "trace=") with
  | some s => (s.drop 6).toString
  | none => "?"

/-- model transition for ops that are not kernel ops (property bookkeeping of the driver) -/
def auxStep (pre : Kernel) (s : Step) : Option Kernel :=
  match s.op, s.args.map Int.toNat with
  | "prop_new", [kd, _ty, _d, _fl] =>
    let dflt := (s.args.getD 2 0)
    let n := match kd with | 0 => pre.nV | 1 => pre.nE | 2 => pre.nHE | 3 => pre.nF | 4 => pre.nHF | 5 => pre.nC | _ => 1
    let col : Col := { key := s.res, dflt := dflt, vals := List.replicate n dflt }
    let p := pre.props
    some { pre with props := match kd with
      | 0 => { p with v := p.v ++ [col] } | 1 => { p with e := p.e ++ [col] } | 2 => { p with he := p.he ++ [col] }
      | 3 => { p with f := p.f ++ [col] } | 4 => { p with hf := p.hf ++ [col] } | 5 => { p with c := p.c ++ [col] }
      | _ => { p with m := p.m ++ [col] } }
  | "prop_drop", _ =>
    let rm := fun (cs : List Col) => cs.filter (·.key != s.res)
    let p := pre.props
    some { pre with props := { v := rm p.v, e := rm p.e, he := rm p.he, f := rm p.f, hf := rm p.hf, c := rm p.c, m := rm p.m } }
  | _, _ => none

def judgeStep (kind : String) (pre : Obs) (s : Step) (fansOk : Bool) : List Finding := Id.run do
  let mut out : List Finding := []
  match s.crashed with
  | some why => return [Finding.oracle "CRASH" s!"{s.op} {s.args}: {why}"]
  | none => pure ()
  -- X: model step on the implementation's previous state
  match opOfStep s with
  | some op =>
    let (m', r) := if kind == "tet" then pre.k.stepTet op else pre.k.step op
    out := out ++ cmpKernel m' s.post.k (isSwapOp s.op)
    match s.res.toInt? with
    | some ri => if ri != r then out := out ++ [Finding.xfail "return" (toString r) (toString ri)]
    | none => pure ()
  | none =>
    match auxStep pre.k s with
    | some m' => out := out ++ cmpKernel m' s.post.k true
    | none =>
      if s.op == "retoken" then
        -- only property values may change, and only slots that held the default
        let strip := fun (k : Kernel) => { k with props := {} }
        if strip s.post.k != strip pre.k then out := out ++ [Finding.xfail "retoken" "topology unchanged" "topology changed"]
      else out := out ++ [Finding.xfail "unknown-op" s.op ""]
  -- oracles on the implementation's own states
  out := out ++ checkBookkeeping s.post
  out := out ++ checkPropSizes s.post.k
  if s.post.k.oneCell then
    if !s.post.k.cacheInvVB then out := out ++ [Finding.oracle "C01" "outgoing-halfedge cache differs from the brute-force scan"]
    if !s.post.k.cacheInvEB then out := out ++ [Finding.oracle "C01" "halfedge->halfface cache differs from the brute-force scan"]
    if !s.post.k.cacheInvFB then out := out ++ [Finding.oracle "C01" "halfface->cell cache differs from the brute-force scan"]
    if fansOk then out := out ++ checkFans s.post.k
    for q in s.post.q do
      out := out ++ checkQuery s.post.k q
      if q.name.startsWith "l" then out := out ++ checkLookup s.post.k q
      if q.name.startsWith "it" then out := out ++ checkIter s.post.k q
  out := out ++ checkStepOracles kind pre s
  out := out ++ checkTwin s.post
  -- one line per distinct finding and step
  let mut seen : List String := []
  let mut res : List Finding := []
  for f in out do
    let key := match f with
      | .xfail fld _ _ => "X" ++ fld
      | .oracle p w => "O" ++ p ++ (if w.startsWith "F10:" then w else toString (hash w))
      | .drift fld => "D" ++ fld
    if !seen.contains key then
      seen := key :: seen
      res := res ++ [f]
  return res

def fmt (t : String) (k : Nat) (op : String) : Finding → String
  | .xfail f m i => s!"XFAIL trace={t} step={k} op={op} field={f} model={m} impl={i}"
  | .oracle p w => s!"ORACLE trace={t} step={k} op={op} prop={p} witness={w}"
  | .drift f => s!"DRIFT trace={t} step={k} op={op} field={f}"

def stateKey (k : Kernel) : UInt64 :=
  hash (k.nV, k.edges, k.faces, k.cells, k.vDel, k.eDel, k.fDel, k.cDel, k.deferred, k.fast, k.vBU, k.eBU, k.fBU)

def main (args : List String) : IO UInt32 := do
  let mut nSteps := 0
  let mut nTraces := 0
  let mut nFind := 0
  let mut states : Std.HashSet UInt64 := {}
  let mut nontriv : Std.HashSet UInt64 := {}
  let mut ops : Std.HashMap String Nat := {}
  let mut modes : Std.HashMap String Nat := {}
  let mut nQueries := 0
  for path in args do
    let lines ← IO.FS.lines path
    let traces := parseFile lines
    for tr in traces do
      nTraces := nTraces + 1
      let t := traceNo tr.header
      let kind := kindOfHeader tr.header
      let mut pre := tr.init
      let mut idx := 0
      -- C09 excludes histories containing set_face / set_cell (they do not re-order)
      let mut fansOk := true
      for s in tr.steps do
        if s.op == "set_face" || s.op == "set_cell" || s.op == "set_edge" then fansOk := false
        if s.op == "clear" then fansOk := true
        let fs := judgeStep kind pre s fansOk
        for f in fs do
          IO.println (fmt t idx s.op f)
          match f with | .drift _ => pure () | _ => nFind := nFind + 1
        nSteps := nSteps + 1
        nQueries := nQueries + s.post.q.size
        ops := ops.insert s.op (ops.getD s.op 0 + 1)
        let k := s.post.k
        let mk := s!"{k.deferred},{k.fast},{k.vBU},{k.eBU},{k.fBU}"
        modes := modes.insert mk (modes.getD mk 0 + 1)
        let h := stateKey k
        states := states.insert h
        if k.nC ≥ 1 || k.needsGC then nontriv := nontriv.insert h
        pre := s.post
        idx := idx + 1
      IO.println s!"TRACE {t} steps={tr.steps.size} crash={tr.crash.isSome}"
  IO.println s!"STAT traces {nTraces}"
  IO.println s!"STAT steps {nSteps}"
  IO.println s!"STAT findings {nFind}"
  IO.println s!"STAT queries {nQueries}"
  IO.println s!"STAT distinct_states {states.size}"
  IO.println s!"STAT distinct_nontrivial_states {nontriv.size}"
  for (k, v) in ops.toList do IO.println s!"HIST op {k} {v}"
  for (k, v) in modes.toList do IO.println s!"HIST mode {k} {v}"
  return 0

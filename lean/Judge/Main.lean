import OVM.Kernel.Delete
def main : IO Unit := IO.println "judge stub"

import Judge.Check
import OVM.Kernel.Lookup
/-
  Judge: lookup lines (`l*`) of the driver — comparison with the model's lookup functions and
  soundness / completeness oracles against a brute-force search over the live definitions.
-/
open OVM OVM.Kernel

namespace Judge

def liveHe (k : Kernel) (h : Nat) : Bool := h < k.nHE && !k.eDeleted (eOf h)
def liveHf (k : Kernel) (h : Nat) : Bool := h < k.nHF && !k.fDeleted (eOf h)

def isRot (a b : List Nat) : Bool := a.length == b.length && (a.isEmpty || (List.range a.length).any (fun r => a.rotateLeft r == b))

def checkLookup (k : Kernel) (q : QLine) : List Finding :=
  let a := q.args
  let n := a.map Int.toNat
  let xf := fun (model : Int) (impl : Int) => if model != impl then [Finding.xfail s!"lookup:{q.name}" s!"{q.args.dropLast} -> {model}" (toString impl)] else []
  let xfl := fun (model : List Nat) (impl : List Nat) => if model != impl then [Finding.xfail s!"lookup:{q.name}" (showL model) (showL impl)] else []
  let orc := fun (ok : Bool) (msg : String) => if ok then [] else [Finding.oracle "C10" s!"{q.name} {q.args}: {msg}"]
  match q.name, n with
  | "lfhe", [x, y, _] =>
    let r := a.getD 2 0
    let cands := (List.range k.nHE).filter (fun h => liveHe k h && k.fromV h == x && k.toV h == y)
    xf (optH (k.findHalfedge x y)) r ++
    orc (if r < 0 then cands.isEmpty else cands.contains r.toNat) s!"brute force finds {cands}"
  | "lfhf3", [x, y, z, _] =>
    let r := a.getD 3 0
    let has := fun (hf : Nat) => (k.hfHes hf).any (fun h => k.fromV h == x && k.toV h == y) && (k.hfHes hf).any (fun h => k.fromV h == y && k.toV h == z)
    let cands := (List.range k.nHF).filter (fun hf => liveHf k hf && has hf)
    let uniq := fun (p q : Nat) => ((List.range k.nHE).filter (fun h => liveHe k h && k.fromV h == p && k.toV h == q)).length ≤ 1
    xf (optH (k.findHalffaceV [x, y, z])) r ++
    orc (if r < 0 then (cands.isEmpty || !(uniq x y && uniq y z)) else cands.contains r.toNat) s!"brute force finds {cands}"
  | "lfhfx3", [x, y, z, _] => xf (optH (k.findHalffaceExtensive [x, y, z])) (a.getD 3 0)
  | "lfhfh", [h0, h1, _] =>
    let r := a.getD 2 0
    let cands := (List.range k.nHF).filter (fun hf => liveHf k hf && (k.hfHes hf).contains h0 && (k.hfHes hf).contains h1)
    xf (optH (k.findHalffaceHes h0 h1)) r ++
    orc (if r < 0 then cands.isEmpty else cands.contains r.toNat) s!"brute force finds {cands}"
  | "linc", [f, e, _] =>
    xf (if k.isIncident f e then 1 else 0) (a.getD 2 0)
  | "lnvc", [c, _] =>
    let vs := toSet (((k.cellAt c).flatMap k.hfHes).flatMap (fun h => [k.fromV h, k.toV h]))
    xf (k.nVerticesInCell c) (a.getD 1 0) ++ orc (vs.length == (a.getD 1 0).toNat) s!"distinct vertices {vs}"
  | "lnext", [he, hf, _] =>
    let r := a.getD 2 0
    xf (optH (k.nextHe he hf)) r ++
    orc (r < 0 || ((k.hfHes hf).contains r.toNat && k.fromV r.toNat == k.toV he)) "successor does not start where the halfedge ends"
  | "lprev", [he, hf, _] =>
    let r := a.getD 2 0
    xf (optH (k.prevHe he hf)) r ++
    orc (r < 0 || ((k.hfHes hf).contains r.toNat && k.toV r.toNat == k.fromV he)) "predecessor does not end where the halfedge starts" ++
    -- inverse steps on faces without a repeated halfedge
    orc (r < 0 || (k.hfHes hf).count he != 1 || (k.hfHes hf).count r.toNat != 1 || k.nextHe r.toNat hf == some he) "next(prev(he)) ≠ he"
  | "lfhec", [x, y, c, _] =>
    let r := a.getD 3 0
    let hes := (k.cellAt c).flatMap k.hfHes
    let ex := hes.any (fun h => (k.fromV h == x && k.toV h == y) || (k.fromV h == y && k.toV h == x))
    xf (optH (k.findHalfedgeInCell x y c)) r ++
    orc (if r < 0 then !ex else (k.fromV r.toNat == x && k.toV r.toNat == y && (hes.contains r.toNat || hes.contains (opp r.toNat)))) s!"edge between the vertices in cell: {ex}"
  | "lfhfc", [x, y, z, c, _] =>
    let r := a.getD 4 0
    xf (optH (k.findHalffaceInCell [x, y, z] c)) r ++
    orc (r < 0 || ((k.cellAt c).contains r.toNat &&
      (let vs := k.hfVerts r.toNat; (List.range vs.length).any (fun i => vs.getD i 0 == x && vs.getD ((i + 1) % vs.length) 0 == y && vs.getD ((i + 2) % vs.length) 0 == z))))
      "returned halfface is not in the cell or does not run through the three vertices"
  | "ladj", [hf, he, _] =>
    let r := a.getD 2 0
    let m := k.adjHalffaceInCell hf he
    xf (optH m) r ++
    (match k.cellOf hf with
     | none => []
     | some c =>
       let heIn := if (k.hfHes hf).contains he then he else opp he
       let others := (k.cellAt c).filter (fun x => x != hf && x != opp hf && (k.hfHes x).contains (opp heIn))
       -- unique other halfface of the cell at that edge, and applying it twice returns the start
       orc (r < 0 || others == [r.toNat] || others.length != 1) s!"other halffaces of the cell at the edge: {others}" ++
       orc (r < 0 || others.length != 1 || k.adjHalffaceInCell r.toNat (opp heIn) == some hf) "adjacent_halfface_in_cell applied twice does not return the start")
  | _, _ =>
    match q.name, a with
    | "lhfhes", hf :: _cnt :: hs =>
      -- C08: the halfedge list of a halfface as reported; side 1 = reversed list of the opposites of side 0
      let w := hs.map Int.toNat
      let f := k.faceAt (eOf hf.toNat)
      xfl (k.hfHes hf.toNat) w ++
      (if w == (if hf.toNat % 2 == 0 then f else (f.reverse.map opp)) then [] else
        [Finding.oracle "C08" s!"halfface {hf}: reported halfedges {showL w}, face definition {showL f}: the odd side must be the reversed list of opposite halfedges"])
    | "lopphf", [hf, r] =>
      (if r == (opp hf.toNat : Nat) then [] else [Finding.oracle "C08" s!"opposite_halfface_handle({hf}) = {r}"])
    | "lghv", hf :: _cnt :: vs =>
      xfl (k.hfVerts hf.toNat) (vs.map Int.toNat) ++
      orc ((vs.map Int.toNat) == (k.hfHes hf.toNat).map k.fromV) "not the sources of the halfface's halfedges in order"
    | "lghvv", hf :: v :: _cnt :: vs =>
      let w := vs.map Int.toNat
      xfl (k.hfVertsFrom hf.toNat v.toNat) w ++
      orc (isRot (k.hfVerts hf.toNat) w && (!(k.hfVerts hf.toNat).contains v.toNat || w.head? == some v.toNat)) "not the cycle rotated to start at the vertex"
    | "lghvh", hf :: he :: _cnt :: vs =>
      let w := vs.map Int.toNat
      xfl (k.hfVertsFrom hf.toNat (k.fromV he.toNat)) w ++
      orc (isRot (k.hfVerts hf.toNat) w && w.head? == some (k.fromV he.toNat)) "not the cycle rotated to start at the halfedge's source"
    | "lfhfx", cnt :: rest =>
      let vs := (rest.take cnt.toNat).map Int.toNat
      let r := rest.getD cnt.toNat 0
      xf (optH (k.findHalffaceExtensive vs)) r ++
      orc (r < 0 || (liveHf k r.toNat && isRot (k.hfVerts r.toNat) vs)) "returned halfface does not run through exactly these vertices in this cyclic order"
    | "lfhfv", cnt :: rest =>
      let vs := (rest.take cnt.toNat).map Int.toNat
      xf (optH (k.findHalffaceV vs)) (rest.getD cnt.toNat 0)
    | _, _ => []

end Judge

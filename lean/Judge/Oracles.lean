import Judge.Check
import OVM.Spec.Fan
/-
  Judge: property oracles evaluated on the implementation's own states (the decidable forms
  of the S-level statements), and the query / lookup comparison.
-/
open OVM OVM.Kernel

namespace Judge

def natArgs (q : QLine) : List Nat := q.args.map Int.toNat

/-- answer lists of a `q*` line: `name arg n r…` → (arg, results) -/
def qListArgs (q : QLine) : Nat × List Nat :=
  match q.args with
  | a :: _n :: r => (a.toNat, r.map Int.toNat)
  | _ => (0, [])

def boolOfInt (i : Int) : Bool := i != 0

/-- compare one query line with the spec (sorted) and the model (exact sequence) -/
def checkQuery (k : Kernel) (q : QLine) : List Finding :=
  let lst := fun (spec : List Nat) (model : List Nat) =>
    let (_, r) := qListArgs q
    (if sortL r != sortL spec then [Finding.oracle "C01" s!"{q.name} {q.args} spec={showL (sortL spec)}"] else []) ++
    (if r != model then [Finding.drift s!"query-order:{q.name}"] else [])
  let bl := fun (spec : Bool) (model : Bool) =>
    match q.args with
    | [_, b] =>
      (if boolOfInt b != spec then [Finding.oracle "C01" s!"{q.name} {q.args} spec={spec}"] else []) ++
      (if boolOfInt b != model then [Finding.xfail s!"query:{q.name}" (toString model) (toString b)] else [])
    | _ => []
  let nm := fun (spec : Nat) =>
    match q.args with
    | [_, n] => if n.toNat != spec then [Finding.oracle "C01" s!"{q.name} {q.args} spec={spec}"] else []
    | _ => []
  let a := (q.args.headD 0).toNat
  match q.name with
  | "qvoh" => lst (k.sOut a) (k.qVOH a)
  | "qvih" => lst (k.sIn a) (k.qVIH a)
  | "qvv" => lst (k.sVV a) (k.qVV a)
  | "qve" => lst (k.sVE a) (k.qVE a)
  | "qvhf" => lst (k.sVHF a) (k.qVHF a)
  | "qvf" => lst (k.sVF a) (k.qVF a)
  | "qvc" => lst (k.sVC a) (k.qVC a)
  | "qef" => lst (k.sEF a) (k.qEF a)
  | "qehf" => lst (k.sEHF a) (k.qEHF a)
  | "qec" => lst (k.sHEC (2 * a)) (k.qEC a)
  | "qhehf" => lst (k.sHfsOfHe a) (k.qHEHF a)
  | "qhef" => lst (k.sHEF a) (k.qHEF a)
  | "qhec" => lst (k.sHEC a) (k.qHEC a)
  | "qcc" => lst (k.sCC a) (k.qCC a)
  | "qbiv" => lst (k.liveVerts.filter k.sBoundaryV) k.qBIV
  | "qbihe" => lst (k.liveHes.filter k.sBoundaryHE) k.qBIHE
  | "qbie" => lst (k.liveEdges.filter k.sBoundaryE) k.qBIE
  | "qbihf" => lst (k.liveHfs.filter k.sBoundaryHF) k.qBIHF
  | "qbif" => lst (k.liveFaces.filter k.sBoundaryF) k.qBIF
  | "qbic" => lst (k.liveCells.filter k.sBoundaryC) k.qBIC
  | "qbv" => bl (k.sBoundaryV a) (k.qBoundaryV a)
  | "qbe" => bl (k.sBoundaryE a) (k.qBoundaryE a)
  | "qbhe" => bl (k.sBoundaryHE a) (k.qBoundaryHE a)
  | "qbf" => bl (k.sBoundaryF a) (k.qBoundaryF a)
  | "qbhf" => bl (k.sBoundaryHF a) (k.qBoundaryHF a)
  | "qbc" => bl (k.sBoundaryC a) (k.qBoundaryC a)
  | "qvalv" => nm (k.sOut a).length
  | "qvale" => nm (k.sHfsOfHe (2 * a)).length
  | "qvalf" => nm (k.faceAt a).length
  | "qvalc" => nm (k.cellAt a).length
  | "qic" =>
    match q.args with
    | [hf, c] =>
      let spec := k.sCellOf hf.toNat
      if optH spec != c then [Finding.oracle "C01" s!"incident_cell {hf} = {c} spec={optH spec}"] else []
    | _ => []
  | _ => []

/-- C02's bookkeeping clause: counts, flags, needs_gc and genus describe the surviving set -/
def checkBookkeeping (o : Obs) : List Finding :=
  let k := o.k
  let cntF := fun (l : List Bool) => l.countP (· == false)
  let exp := [cntF k.vDel, cntF k.eDel, cntF k.fDel, cntF k.cDel]
  let got := [o.logV, o.logE, o.logF, o.logC]
  let anyDel := k.vDel.any id || k.eDel.any id || k.fDel.any id || k.cDel.any id
  let g : Int := 1 - ((cntF k.vDel : Int) - cntF k.eDel + cntF k.fDel - cntF k.cDel)
  let gen : Int := if g.tmod 2 = 0 then g.tdiv 2 else -1
  (if k.vDel.length != k.nV || k.eDel.length != k.nE || k.fDel.length != k.nF || k.cDel.length != k.nC
     then [Finding.oracle "C02" "flag arrays disagree with entity counts"] else []) ++
  (if exp != got then [Finding.oracle "C02" s!"n_logical {got} but live flags give {exp}"] else []) ++
  (if anyDel != o.gc then [Finding.oracle "C02" s!"needs_garbage_collection={o.gc} but pending={anyDel}"] else []) ++
  (if gen != o.genus then [Finding.oracle "C02" s!"genus={o.genus} expected {gen}"] else [])

/-- every property column has one slot per entity slot (C03) -/
def checkPropSizes (k : Kernel) : List Finding :=
  let bad := fun (cs : List Col) (n : Nat) => cs.filter (fun c => c.vals.length != n)
  let all := (bad k.props.v k.nV) ++ (bad k.props.e k.nE) ++ (bad k.props.he k.nHE) ++ (bad k.props.f k.nF) ++
             (bad k.props.hf k.nHF) ++ (bad k.props.c k.nC) ++ (bad k.props.m 1)
  all.map (fun c => Finding.oracle "C03" s!"column {c.key} has {c.vals.length} slots")

def isDeleteOp (op : String) : Bool := op.startsWith "delete_"
def isSwapOp (op : String) : Bool := op.startsWith "swap_"

/-- token values carried by surviving entities are unchanged (C03); `removed` = entity tokens
    legitimately gone.  New slots must hold the default. -/
def checkPropTransport (pre post : Kernel) : List Finding :=
  let a := propAssoc pre
  let b := propAssoc post
  b.flatMap (fun (key, assocB) =>
    match a.find? (·.1 == key) with
    | none => []
    | some (_, assocA) =>
      let dflt := ((post.props.v ++ post.props.e ++ post.props.he ++ post.props.f ++ post.props.hf ++ post.props.c).find? (·.key == key)).map (·.dflt)
      assocB.filterMap (fun (ent, val) =>
        if ent.1 == 0 || key.startsWith "id" then none      -- fresh slot of an id column
        else match assocA.find? (·.1 == ent) with
          | some (_, old) => if old != val then some (Finding.oracle "C03" s!"column {key}: entity token {ent.1}/{ent.2} had {old} now {val}") else none
          | none => if some val != dflt then some (Finding.oracle "C03" s!"column {key}: new entity {ent.1}/{ent.2} holds {val}, default {dflt}") else none))

/-- oracles that relate the state before and after one operation -/
def checkStepOracles (kind : String) (pre : Obs) (s : Step) : List Finding := Id.run do
  let post := s.post
  let mut out : List Finding := []
  let np := named pre.k
  let nq := named post.k
  let a := s.args.map Int.toNat
  -- C02: deletion removes exactly the closure
  if isDeleteOp s.op then
    match np, nq, a with
    | some n0, some n1, [x] =>
      let tok := fun (cs : List Col) (key : String) => ((idCol cs key).getD []).getD x (-1)
      let cl := match s.op with
        | "delete_vertex" => n0.closureV (tok pre.k.props.v "idv")
        | "delete_edge" => n0.closureE (tok pre.k.props.e "ide")
        | "delete_face" => n0.closureF (tok pre.k.props.f "idf")
        | _ => n0.closureC (tok pre.k.props.c "idc")
      let exp := n0.minus cl
      if exp != n1 then
        out := out ++ [Finding.oracle "C02" s!"after {s.op} {x}: surviving named mesh differs: expected V={exp.vs.length} E={exp.es.length} F={exp.fs.length} C={exp.cs.length}, got V={n1.vs.length} E={n1.es.length} F={n1.fs.length} C={n1.cs.length}; first difference: {repr ((exp.es.filter (fun e => !n1.es.contains e)).head?)} {repr ((exp.fs.filter (fun e => !n1.fs.contains e)).head?)} {repr ((exp.cs.filter (fun e => !n1.cs.contains e)).head?)} extra: {repr ((n1.es.filter (fun e => !exp.es.contains e)).head?)} {repr ((n1.fs.filter (fun e => !exp.fs.contains e)).head?)} {repr ((n1.cs.filter (fun e => !exp.cs.contains e)).head?)}"]
    | _, _, _ => pure ()
    out := out ++ checkPropTransport pre.k post.k
  -- C04: garbage collection keeps the logical mesh
  if s.op == "collect_garbage" || (s.op == "enable_deferred" && a == [0]) then
    match np, nq with
    | some n0, some n1 =>
      if n0 != n1 then out := out ++ [Finding.oracle "C04" s!"{s.op}: logical mesh changed: lost {repr ((n0.vs.filter (fun e => !n1.vs.contains e)).head?)} {repr ((n0.es.filter (fun e => !n1.es.contains e)).head?)} {repr ((n0.fs.filter (fun e => !n1.fs.contains e)).head?)} {repr ((n0.cs.filter (fun e => !n1.cs.contains e)).head?)} gained {repr ((n1.vs.filter (fun e => !n0.vs.contains e)).head?)} {repr ((n1.es.filter (fun e => !n0.es.contains e)).head?)} {repr ((n1.fs.filter (fun e => !n0.fs.contains e)).head?)} {repr ((n1.cs.filter (fun e => !n0.cs.contains e)).head?)}"]
    | _, _ => pure ()
    if pre.k.deferred && (post.k.needsGC || post.k.vDel.any id || post.k.eDel.any id || post.k.fDel.any id || post.k.cDel.any id) then
      out := out ++ [Finding.oracle "C04" s!"{s.op}: deletions still pending afterwards"]
    out := out ++ checkPropTransport pre.k post.k
  -- C17: swaps are pure relabelings
  if isSwapOp s.op then
    match np, nq with
    | some n0, some n1 => if n0 != n1 then out := out ++ [Finding.oracle "C17" s!"{s.op} {a}: named mesh changed"]
    | _, _ => pure ()
    out := out ++ checkPropTransport pre.k post.k
    match a with
    | [x, y] =>
      let (key, cs0, cs1, del0, del1) := match s.op with
        | "swap_vertex" => ("idv", pre.k.props.v, post.k.props.v, pre.k.vDel, post.k.vDel)
        | "swap_edge" => ("ide", pre.k.props.e, post.k.props.e, pre.k.eDel, post.k.eDel)
        | "swap_face" => ("idf", pre.k.props.f, post.k.props.f, pre.k.fDel, post.k.fDel)
        | _ => ("idc", pre.k.props.c, post.k.props.c, pre.k.cDel, post.k.cDel)
      match idCol cs0 key, idCol cs1 key with
      | some t0, some t1 =>
        let exp := (List.range t0.length).map (fun i => t0.getD (relabelId x y i) 0)
        if exp != t1 then out := out ++ [Finding.oracle "C17" s!"{s.op} {x} {y}: handles other than the two were renamed or the two were not exchanged"]
        let expd := (List.range del0.length).map (fun i => del0.getD (relabelId x y i) false)
        if expd != del1 then out := out ++ [Finding.oracle "C17" s!"{s.op} {x} {y}: deletion flags not exchanged"]
      | _, _ => pure ()
    | _ => pure ()
  -- C11: rejected / deduplicated handle-based calls leave everything unchanged
  if s.op == "add_face_he" || s.op == "add_cell" || s.op == "add_edge" then
    let r := s.res.toInt?.getD 0
    let unchangedRequired := (r == -1) || (s.op == "add_edge" && r.toNat < pre.k.nE)
    if unchangedRequired && post.k != pre.k then
      out := out ++ [Finding.oracle "C11" s!"{s.op} {s.args} returned {r} but the mesh changed"]
    if s.op == "add_edge" then
      match a with
      | [x, y, d] =>
        let existing := pre.k.liveEdges.filter (fun e => let ed := pre.k.edgeAt e; (ed.1 == x && ed.2 == y) || (ed.1 == y && ed.2 == x))
        if d == 0 && !existing.isEmpty && !existing.contains r.toNat then
          out := out ++ [Finding.oracle "C11" s!"add_edge {x} {y}: live edge {existing} exists but {r} was returned"]
        if (d != 0 || existing.isEmpty) && !(r.toNat == pre.k.nE && post.k.nE == pre.k.nE + 1 && post.k.edgeAt r.toNat == (x, y)) then
          out := out ++ [Finding.oracle "C11" s!"add_edge {x} {y} dup={d}: expected exactly one new edge ({x},{y}), got handle {r}"]
      | _ => pure ()
    if s.op == "add_face_he" then
      match a with
      | c :: _n :: hes =>
        let closed := !hes.isEmpty && (List.range hes.length).all (fun i => pre.k.toV (hes.getD i 0) == pre.k.fromV (hes.getD ((i + 1) % hes.length) 0))
        if kind == "poly" && c != 0 && closed != (r != -1) then
          out := out ++ [Finding.oracle "C11" s!"add_face(check) {hes}: closed loop={closed} but returned {r}"]
        if r != -1 && !(r.toNat == pre.k.nF && post.k.nF == pre.k.nF + 1 && post.k.faceAt r.toNat == hes) then
          out := out ++ [Finding.oracle "C11" s!"add_face {hes}: accepted but not exactly one appended face with that definition"]
      | _ => pure ()
    if s.op == "add_cell" then
      match a with
      | c :: _n :: hfs =>
        let H := hfs.flatMap pre.k.hfHes
        let closed := !H.isEmpty && H.all (fun h => H.count h == 1 && H.count (opp h) == 1)
        if kind == "poly" && c != 0 && closed != (r != -1) then
          out := out ++ [Finding.oracle "C11" s!"add_cell(check) {hfs}: closed surface={closed} but returned {r}"]
        if r != -1 && !(r.toNat == pre.k.nC && post.k.nC == pre.k.nC + 1 && post.k.cellAt r.toNat == hfs) then
          out := out ++ [Finding.oracle "C11" s!"add_cell {hfs}: accepted but not exactly one appended cell with that definition"]
      | _ => pure ()
  return out

/-- C12: the mesh with the random incidence schedule equals its all-enabled twin -/
def checkTwin (o : Obs) : List Finding :=
  match o.twin with
  | none => []
  | some t =>
    let k := o.k
    let f := fun (field : String) (a b : String) => if a == b then [] else [Finding.oracle "C12" s!"{field}: with disabled incidences {a}, all enabled {b}"]
    f "counts" (toString [k.nV, k.nE, k.nF, k.nC]) (toString [t.nV, t.nE, t.nF, t.nC]) ++
    f "flags" (toString [k.vDel, k.eDel, k.fDel, k.cDel]) (toString [t.vDel, t.eDel, t.fDel, t.cDel]) ++
    f "ndel" (toString [k.nDelV, k.nDelE, k.nDelF, k.nDelC]) (toString [t.nDelV, t.nDelE, t.nDelF, t.nDelC]) ++
    f "edges" (toString (liveDefs k.edges k.eDel)) (toString (liveDefs t.edges t.eDel)) ++
    f "faces" (toString (liveDefs k.faces k.fDel)) (toString (liveDefs t.faces t.fDel)) ++
    f "cells" (toString (liveDefs k.cells k.cDel)) (toString (liveDefs t.cells t.cDel)) ++
    f "props" (colsStr (k.props.v ++ k.props.e ++ k.props.he ++ k.props.f ++ k.props.hf ++ k.props.c ++ k.props.m))
              (colsStr (t.props.v ++ t.props.e ++ t.props.he ++ t.props.f ++ t.props.hf ++ t.props.c ++ t.props.m)) ++
    -- enabled caches equal those of the never-disabled run (as CacheInv states them)
    (if k.vBU then f "outHes" (showLL (k.outHes.map sortL)) (showLL (t.outHes.map sortL)) else []) ++
    (if k.eBU then f "incHfs" (showLL (k.incHfs.map sortL)) (showLL (t.incHfs.map sortL)) else []) ++
    (if k.fBU then f "incCell" (toString (k.incCell.map showO)) (toString (t.incCell.map showO)) else [])

/-- C09: around every edge that currently is a single fan the cached halffaces are in rotational
    order (closed fan: up to rotation; open chain: exactly, boundary halfface last), and the
    opposite halfedge holds the mirrored reverse -/
def checkFans (k : Kernel) : List Finding :=
  if !(k.eBU && k.fBU) then [] else
  (List.range k.nE).flatMap (fun e =>
    if k.eDeleted e then [] else
    let he := 2 * e
    match k.sFanOrder he with
    | none => []
    | some (ord, cyc) =>
      let L := k.hfsOf he
      let okOrder := if cyc then isRotation ord L else ord == L
      (if okOrder then [] else [Finding.oracle "C09" s!"edge {e}: halffaces of halfedge {he} are {showL L}, rotational order is {showL ord} (closed fan: {cyc})"]) ++
      (if k.hfsOf (he + 1) == (L.reverse.map opp) then [] else [Finding.oracle "C09" s!"edge {e}: opposite halfedge holds {showL (k.hfsOf (he + 1))}, mirrored reverse is {showL (L.reverse.map opp)}"]))

end Judge

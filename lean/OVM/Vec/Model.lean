/-
  C19 — executable model of `OpenVolumeMesh::Geometry::VectorT<Scalar, DIM>`
  (src/OpenVolumeMesh/Geometry/Vector11T.hh) and of the geometric queries of
  `GeometryKernel` (src/OpenVolumeMesh/Core/GeometryKernel.hh:137-205).

  Core only (this file is imported by the compiled evaluator `OVM/Vec/Driver.lean`).

  A vector is the `List` of its components (`std::array<Scalar, DIM> values_`); every
  operator of the header is one function here that follows the C++ text: `std::transform`
  is `map`/`zipWith`, `std::accumulate`/`std::inner_product` are `foldl` with the same
  initial value and the same association, `std::equal` / `std::lexicographical_compare` /
  `std::max_element` / `std::min_element` are the recursions of the standard.  The
  functions are polymorphic in the scalar so that the *same* definitions run at
    `Int`     (C++ `int`; `/` is `Int.tdiv`, truncation toward zero),
    `UInt32`  (C++ `unsigned`; wrap-around `+ - *`, unary minus, truncating `/`),
    `Rat`     (C++ `float`/`double` on the inputs where IEEE arithmetic is exact),
  and so that the ring identities of `OVM/Props/C19.lean` can be stated for any commutative
  ring.  Scalar operations that are not ring operations come through two one-field classes.

  Nothing is silently totalised: division by zero is never given a meaning here (`Int.tdiv`
  and `/` happen to return 0, but every theorem and the evaluator carry the hypothesis /
  guard `divisor ≠ 0`), and binary operators on lists of different length are never used
  (the C++ fixes `DIM` by type; theorems carry `v.length = w.length`).
-/
namespace OVM.Vec

/-- C++ built-in `/` of the scalar type. -/
class CDiv (α : Type) where
  cdiv : α → α → α
/-- `std::abs` of the scalar type. -/
class CAbs (α : Type) where
  cabs : α → α
export CDiv (cdiv)
export CAbs (cabs)

/-- conversion of the `int` constant `DIM` to the scalar type (`l1_norm() / DIM`). -/
class CNat (α : Type) where
  cnat : Nat → α
export CNat (cnat)

instance : CNat Int := ⟨Int.ofNat⟩
instance : CNat UInt32 := ⟨UInt32.ofNat⟩
instance : CNat Rat := ⟨fun n => (n : Rat)⟩
instance : CDiv Int := ⟨Int.tdiv⟩
instance : CAbs Int := ⟨fun x => if x < 0 then -x else x⟩
instance : CDiv UInt32 := ⟨fun a b => a / b⟩
/-- `std::abs(unsigned)` does not compile (ambiguous overload); the identity is what it
would mean.  The evaluator never receives an abs-family line for `unsigned`. -/
instance : CAbs UInt32 := ⟨id⟩
instance : CDiv Rat := ⟨fun a b => a / b⟩
instance : CAbs Rat := ⟨fun x => if x < 0 then -x else x⟩

variable {α : Type}

/-! ### component-wise vector operators (Vector11T.hh:275-365) -/

/-- `operator+=` / `operator+` (:313-321, :343-348). -/
def add [Add α] (v w : List α) : List α := List.zipWith (· + ·) v w
/-- `operator-=` / `operator-` (:301-309, :352-357). -/
def sub [Sub α] (v w : List α) : List α := List.zipWith (· - ·) v w
/-- component-wise `operator*=` / `operator*` (:277-285, :325-330). -/
def mul [Mul α] (v w : List α) : List α := List.zipWith (· * ·) v w
/-- component-wise `operator/=` / `operator/` (:289-297, :334-339); every `w[i] ≠ 0`. -/
def divv [CDiv α] (v w : List α) : List α := List.zipWith cdiv v w
/-- unary minus (:360-365). -/
def neg [Neg α] (v : List α) : List α := v.map (- ·)

/-! ### scalar operators (:229-271, :688-692) -/

/-- `operator*=(s)`, `v * s`, `s * v` (`e *= _s` for every component). -/
def smul [Mul α] (v : List α) (s : α) : List α := v.map (· * s)
/-- `operator/=(s)`, `v / s` (`e /= _s`); `s ≠ 0`. -/
def sdiv [CDiv α] (v : List α) (s : α) : List α := v.map (cdiv · s)

/-! ### comparison (:218-225, :645-649) -/

/-- `std::equal(_rhs.begin(), _rhs.end(), values_.begin())`. -/
def eqv [DecidableEq α] : List α → List α → Bool
  | [], _ => true
  | _ :: _, [] => false
  | a :: as, b :: bs => if a = b then eqv as bs else false
/-- `operator!=` is `!std::equal(...)`. -/
def nev [DecidableEq α] (v w : List α) : Bool := !eqv w v

/-- `std::lexicographical_compare(values_.begin(), values_.end(), rhs.begin(), rhs.end())`. -/
def ltv [LT α] [DecidableLT α] : List α → List α → Bool
  | [], [] => false
  | [], _ :: _ => true
  | _ :: _, [] => false
  | a :: as, b :: bs => if a < b then true else if b < a then false else ltv as bs

/-! ### products (:370-408) -/

/-- `operator|`: `std::inner_product(data()+1, data()+DIM, rhs.data()+1, data()[0]*rhs.data()[0])`. -/
def dot [Add α] [Mul α] [OfNat α 0] : List α → List α → α
  | a :: as, b :: bs => (List.zip as bs).foldl (fun acc p => acc + p.1 * p.2) (a * b)
  | _, _ => 0

/-- `operator%` (DIM = 3 only, :375-379). -/
def cross [Sub α] [Mul α] : List α → List α → List α
  | [a0, a1, a2], [b0, b1, b2] => [a1 * b2 - a2 * b1, a2 * b0 - a0 * b2, a0 * b1 - a1 * b0]
  | _, _ => []

/-! ### norms and reductions (:417-552) -/

/-- `sqrnorm`: `std::accumulate(begin+1, end, v0*v0, [](l, r){ return l + r*r; })`. -/
def sqrnorm [Add α] [Mul α] [OfNat α 0] : List α → α
  | a :: as => as.foldl (fun l r => l + r * r) (a * a)
  | [] => 0

/-- `l1_norm`: `std::accumulate(begin+1, end, v0)` — NOTE: the plain sum of the components,
*not* the sum of absolute values (see `Props/C19.lean`, `l1_ne_manhattan`). -/
def l1 [Add α] [OfNat α 0] : List α → α
  | a :: as => as.foldl (· + ·) a
  | [] => 0

/-- `*std::max_element(begin, end, less)`: the first element not `less` than any other
(returns the *first* of several maximal elements). -/
def maxElemBy (less : α → α → Bool) : List α → Option α
  | [] => none
  | a :: as => some (as.foldl (fun best x => if less best x then x else best) a)

/-- `*std::min_element(begin, end, less)` (the first of several minimal elements). -/
def minElemBy (less : α → α → Bool) : List α → Option α
  | [] => none
  | a :: as => some (as.foldl (fun best x => if less x best then x else best) a)

/-- `max()` (:513-515). -/
def vmax [LT α] [DecidableLT α] (v : List α) : Option α := maxElemBy (fun a b => decide (a < b)) v
/-- `min()` (:527-529). -/
def vmin [LT α] [DecidableLT α] (v : List α) : Option α := minElemBy (fun a b => decide (a < b)) v
/-- `max_abs()` (:518-524): `abs` of the element that is maximal under `|a| < |b|`. -/
def maxAbs [LT α] [DecidableLT α] [CAbs α] (v : List α) : Option α :=
  (maxElemBy (fun a b => decide (cabs a < cabs b)) v).map cabs
/-- `min_abs()` (:532-538). -/
def minAbs [LT α] [DecidableLT α] [CAbs α] (v : List α) : Option α :=
  (minElemBy (fun a b => decide (cabs a < cabs b)) v).map cabs
/-- `l8_norm()` is `max_abs()` (:501-503). -/
def l8 [LT α] [DecidableLT α] [CAbs α] (v : List α) : Option α := maxAbs v

/-- `mean()`: `l1_norm() / DIM` with the scalar's own `/` (integer division for `int`). -/
def mean [Add α] [OfNat α 0] [CDiv α] [CNat α] (v : List α) : α :=
  cdiv (l1 v) (cnat v.length)

/-- `mean_abs()`: `accumulate(begin+1, end, abs(v0), l + abs(r)) / DIM`. -/
def meanAbs [Add α] [OfNat α 0] [CDiv α] [CAbs α] [CNat α] : List α → α
  | a :: as => cdiv (as.foldl (fun l r => l + cabs r) (cabs a)) (cnat (as.length + 1))
  | [] => 0

/-! ### minimize / maximize (:555-618) -/

/-- `std::min(l, r)` is `(r < l) ? r : l`. -/
def smin [LT α] [DecidableLT α] (l r : α) : α := if r < l then r else l
/-- `std::max(l, r)` is `(l < r) ? r : l`. -/
def smax [LT α] [DecidableLT α] (l r : α) : α := if l < r then r else l

/-- `minimize(rhs)` and `min(rhs)`. -/
def minimize [LT α] [DecidableLT α] (v w : List α) : List α := List.zipWith smin v w
/-- `maximize(rhs)` and `max(rhs)`. -/
def maximize [LT α] [DecidableLT α] (v w : List α) : List α := List.zipWith smax v w

/-- `minimized(rhs)`: new components `l < r ? l : r`, flag set whenever the `else` branch ran. -/
def minimized [LT α] [DecidableLT α] (v w : List α) : Bool × List α :=
  ((List.zipWith (fun l r => decide (¬ l < r)) v w).any id,
   List.zipWith (fun l r => if l < r then l else r) v w)

/-- `maximized(rhs)`: new components `l > r ? l : r`, flag set whenever the `else` branch ran. -/
def maximized [LT α] [DecidableLT α] (v w : List α) : Bool × List α :=
  ((List.zipWith (fun l r => decide (¬ r < l)) v w).any id,
   List.zipWith (fun l r => if r < l then l else r) v w)

/-! ### misc (:117-119, :144-159, :626-655) -/

/-- `vectorize(s)`, `vectorized(s)`, `VectorT(s)` at dimension `n`. -/
def vectorize (n : Nat) (s : α) : List α := List.replicate n s

/-- `apply(f)` as documented ("component-wise apply function object").  The C++ at :626-631
transforms the *uninitialised* `result` instead of `*this`; see findings/C19.md. -/
def apply (f : α → α) (v : List α) : List α := v.map f

/-- `swap`. -/
def swapv (v w : List α) : List α × List α := (w, v)

/-- `homogenized()` (DIM = 4): `(x/w, y/w, z/w, 1)`; `w ≠ 0`. -/
def homogenized [CDiv α] [OfNat α 1] : List α → List α
  | [x, y, z, w] => [cdiv x w, cdiv y w, cdiv z w, 1]
  | _ => []

/-! ### Euclidean norm (:429-485): needs a square root.  The model is exact: `norm?` is
defined only when the squared norm has an exact root in the scalar's value set. -/

/-- Newton iteration from above, structurally recursive on the fuel (kernel-reducible) -/
def sqrtIter (n : Nat) : Nat → Nat → Nat
  | 0, g => g
  | fuel + 1, g =>
    let next := (g + n / g) / 2
    if next < g then sqrtIter n fuel next else g

/-- candidate integer square root (the fuel `n` is never exhausted) -/
def isqrt (n : Nat) : Nat := if n ≤ 1 then n else sqrtIter n n n

/-- exact integer square root of a natural number, if it is a perfect square (the candidate is
*checked*, so nothing depends on the iteration being right) -/
def natSqrt? (n : Nat) : Option Nat :=
  let r := isqrt n
  if r * r = n then some r else none

/-- exact square root, if there is one -/
class CSqrt (α : Type) where
  csqrt? : α → Option α
export CSqrt (csqrt?)

instance : CSqrt Int := ⟨fun x => if x < 0 then none else (natSqrt? x.toNat).map Int.ofNat⟩
instance : CSqrt UInt32 := ⟨fun x => (natSqrt? x.toNat).map UInt32.ofNat⟩
instance : CSqrt Rat := ⟨fun x =>
  if x < 0 then none else
  match natSqrt? x.num.toNat, natSqrt? x.den with
  | some a, some b => some ((a : Rat) / (b : Rat))
  | _, _ => none⟩

/-- `norm()` / `length()`: `sqrt(sqrnorm())`, when exact. -/
def norm? [Add α] [Mul α] [OfNat α 0] [CSqrt α] (v : List α) : Option α := csqrt? (sqrnorm v)

/-- `normalized()` / `normalize()`: `*this / norm()`, when the norm is exact and non-zero. -/
def normalized? [Add α] [Mul α] [OfNat α 0] [CSqrt α] [CDiv α] [DecidableEq α] (v : List α) :
    Option (List α) :=
  match norm? v with
  | some n => if n = 0 then none else some (sdiv v n)
  | none => none

/-- `normalize_cond()`: divide only if `norm() != 0`. -/
def normalizeCond? [Add α] [Mul α] [OfNat α 0] [CSqrt α] [CDiv α] [DecidableEq α] (v : List α) :
    Option (List α) :=
  match norm? v with
  | some n => if n = 0 then some v else some (sdiv v n)
  | none => none

/-! ### stream operators at token level (:695-716).  A token is one scalar as text; the
model keeps the scalar itself (formatting of a scalar is `std::ostream`'s, not VectorT's). -/

/-- `os << v`: the components in order, separated by single blanks: the token sequence. -/
def writeTokens (v : List α) : List α := v
/-- `is >> v` at dimension `n`: consumes the first `n` tokens in order; `none` if the
stream runs dry (C++: failbit, components unspecified). Returns the vector and the rest. -/
def readTokens (n : Nat) (toks : List α) : Option (List α × List α) :=
  if n ≤ toks.length then some (toks.take n, toks.drop n) else none

/-! ### GeometryKernel queries as formulas over vertex positions (GeometryKernel.hh:137-205) -/

/-- `vector(EdgeHandle/HalfEdgeHandle)`: `vertex(to) - vertex(from)` (:145-155). -/
def edgeVector [Sub α] (pFrom pTo : List α) : List α := sub pTo pFrom

/-- `barycenter(EdgeHandle)`: `0.5 * from + 0.5 * to` (:157-160); `half` is the scalar 0.5. -/
def baryEdge [Add α] [Mul α] (half : α) (pFrom pTo : List α) : List α :=
  add (smul pFrom half) (smul pTo half)

/-- `barycenter(FaceHandle/CellHandle)` (:162-183): `p = 0; valence = 0;
for each vertex { p += pos; valence += 1 }; p /= valence` at dimension `n`. -/
def baryList [Add α] [OfNat α 0] [CDiv α] [CNat α] (n : Nat) (ps : List (List α)) : List α :=
  sdiv (ps.foldl add (vectorize n 0)) (cnat ps.length)

/-- the un-normalised halfface normal (:198-203): with `p1, p2, p3` the first three vertices
of the halfface's vertex cycle (from/to of its first halfedge, to of its second),
`(p2 - p1) × (p3 - p2)`.  `none` is the `< 3 halfedges` warning branch. -/
def normalU? [Sub α] [Mul α] : List (List α) → Option (List α)
  | p1 :: p2 :: p3 :: _ => some (cross (sub p2 p1) (sub p3 p2))
  | _ => none

/-- the corner normal at the *last* vertex of the cycle `v0 … v(k-1)`:
`(v(k-1) - v(k-2)) × (v0 - v(k-1))`. -/
def lastCornerNormal? [Sub α] [Mul α] (cyc : List (List α)) : Option (List α) :=
  match cyc, cyc.reverse with
  | v0 :: _, l1 :: l2 :: _ => some (cross (sub l1 l2) (sub v0 l1))
  | _, _ => none

/-- vertex cycle of the opposite halfface (TopologyKernel.hh:1120-1128: halfedges reversed
and flipped): `v0, v(k-1), …, v1`. -/
def oppCycle {β : Type} : List β → List β
  | [] => []
  | v0 :: rest => v0 :: rest.reverse

end OVM.Vec

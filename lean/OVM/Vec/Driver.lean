/-
  C19 evaluator: reads the canonical lines of `harness/vec_drv.cc` from stdin, recomputes
  every result with the model of `OVM/Vec/Model.lean` and *judges* the library's result.
  Core/Std only (so that it can be linked as a `lean_exe`; it also runs with
  `lake env lean --run OVM/Vec/Driver.lean`).

  Scalar types:  `i` ↦ `Int` (`/` = `Int.tdiv`),  `u` ↦ `UInt32` (everything mod 2^32),
  `f`,`d` ↦ `Rat` (exact real arithmetic).  For `f`/`d` the judgement is:
    * the model's rational value is representable in the format (dyadic, mantissa fits)
      ⇒ the library's result must be *equal* (IEEE `+ - * / sqrt` are correctly rounded and all
        intermediates of these single-operator formulas are small dyadics)         class `exact`
    * otherwise the result must lie within one/two roundings of it                 class `rounded`
    * square roots that are irrational are judged through their squares            class `sqrt_tol`
  Output: one `BAD …` line per disagreement, `SUM <st> <N> <op> <class> <count>` lines, `TOTAL …`.
-/
import OVM.Vec.Model
import Std.Data.HashMap

open OVM.Vec

namespace OVM.Vec.Eval

/-! ### tokens -/

inductive Tok where
  | val (q : Rat)
  | nan | inf | ninf
  | bad (s : String)
  deriving Inhabited

def pow2 (k : Nat) : Rat := ((2 ^ k : Nat) : Rat)

def parseTok (s : String) : Tok :=
  if s == "nan" then .nan else if s == "inf" then .inf else if s == "-inf" then .ninf else
  match s.splitOn "/2^" with
  | [m, k] => match m.toInt?, k.toNat? with
    | some m, some k => .val ((m : Rat) / pow2 k)
    | _, _ => .bad s
  | _ => match s.splitOn "*2^" with
    | [m, k] => match m.toInt?, k.toNat? with
      | some m, some k => .val ((m : Rat) * pow2 k)
      | _, _ => .bad s
    | _ => match s.toInt? with
      | some m => .val (m : Rat)
      | none => .bad s

def Tok.render : Tok → String
  | .val q => toString q
  | .nan => "nan" | .inf => "inf" | .ninf => "-inf"
  | .bad s => "<" ++ s ++ ">"

/-! ### what the model expects of a result -/

inductive Expect where
  /-- exact rational values, one per result token -/
  | vals (l : List Rat)
  /-- a single token `r` with `r = +√s` -/
  | sqrtOf (s : Rat)
  /-- tokens `r_i = v_i / √s` (`s > 0`), for a floating scalar -/
  | unitOf (v : List Rat) (s : Rat)
  /-- tokens `r_i ≈ v_i / √s` up to an *absolute* error (the operand `v` is itself a rounded sum) -/
  | unitAbs (v : List Rat) (s : Rat)
  /-- tokens `r_i = trunc (v_i / √s)` (`s > 0`), for an integer scalar (`e /= double`) -/
  | truncUnitOf (v : List Rat) (s : Rat)
  /-- outside the operator's contract (zero divisor, zero vector): no claim -/
  | ooc (why : String)
  /-- malformed line -/
  | malformed (why : String)

inductive Verdict where
  | ok (cls : String)
  | skip (why : String)
  | bad (why : String)

def ratAbs (q : Rat) : Rat := if q < 0 then -q else q

def isPow2 (n : Nat) : Bool := n != 0 && (n &&& (n - 1)) == 0

/-- is `q` a value of the binary format with `p` mantissa bits (exponent range ignored: all
values here are far from over/underflow) -/
def representable (p : Nat) (q : Rat) : Bool :=
  isPow2 q.den &&
  (let n := q.num.natAbs
   -- strip trailing zero bits of the numerator
   let rec strip (fuel : Nat) (n : Nat) : Nat :=
     match fuel with
     | 0 => n
     | fuel + 1 => if n != 0 && n % 2 == 0 then strip fuel (n / 2) else n
   strip 4096 n < 2 ^ p)

structure Fmt where
  /-- mantissa bits; 0 = integer scalar (results must be exact) -/
  mant : Nat
  /-- relative tolerance of a single rounding, `2^-(mant-2)` -/
  tol1 : Rat
  /-- relative tolerance for a few roundings -/
  tolN : Rat

def fmtOf (st : String) : Fmt :=
  if st == "f" then ⟨24, 1 / pow2 22, 1 / pow2 19⟩
  else if st == "d" then ⟨53, 1 / pow2 51, 1 / pow2 48⟩
  else ⟨0, 0, 0⟩

/-- `√s` to 2^-60 relative accuracy (`s > 0`), by the integer square root -/
def sqrtApprox (s : Rat) : Rat :=
  ((Nat.sqrt (s.num.toNat * 2 ^ 128 / s.den) : Nat) : Rat) / pow2 64

def sign (q : Rat) : Int := if q < 0 then -1 else if q = 0 then 0 else 1

/-- judge observed tokens against the expectation -/
def judge (fmt : Fmt) (normFmt : Fmt) (e : Expect) (obs : List Tok) : Verdict :=
  match e with
  | .malformed w => .bad ("malformed: " ++ w)
  | .ooc w => .skip ("out_of_contract:" ++ w)
  | .vals l =>
    if l.length != obs.length then .bad s!"arity: expected {l.length} tokens, got {obs.length}" else
    let rec goV (l : List Rat) (o : List Tok) (cls : String) : Verdict :=
      match l, o with
      | q :: l, .val r :: o =>
        if r = q then goV l o cls
        else if fmt.mant != 0 && !representable fmt.mant q && ratAbs (r - q) ≤ fmt.tol1 * ratAbs q
          then goV l o "rounded"
        else .bad s!"value: expected {q}, got {r}"
      | q :: _, t :: _ => .bad s!"value: expected {q}, got {t.render}"
      | _, _ => .ok cls
    goV l obs "exact"
  | .sqrtOf s =>
    match obs with
    | [.val r] =>
      if 0 ≤ r && r * r = s then .ok "exact"
      else if 0 ≤ r && ratAbs (r * r - s) ≤ normFmt.tolN * s then .ok "sqrt_tol"
      else .bad s!"norm: expected sqrt({s}), got {r}"
    | _ => .bad "norm: expected one finite token"
  | .unitOf v s =>
    if v.length != obs.length then .bad "arity" else
    let rec goU (v : List Rat) (o : List Tok) : Verdict :=
      match v, o with
      | x :: v, .val r :: o =>
        if sign r = sign x && ratAbs (r * r * s - x * x) ≤ fmt.tolN * (x * x) then goU v o
        else .bad s!"normalized: expected {x}/sqrt({s}), got {r}"
      | x :: _, t :: _ => .bad s!"normalized: expected {x}/sqrt({s}), got {t.render}"
      | _, _ => .ok "sqrt_tol"
    goU v obs
  | .unitAbs v s =>
    if v.length != obs.length then .bad "arity" else
    let rt := sqrtApprox s
    let rec goA (v : List Rat) (o : List Tok) : Verdict :=
      match v, o with
      | x :: v, .val r :: o =>
        if ratAbs (r - x / rt) ≤ fmt.tolN then goA v o
        else .bad s!"vertex normal: expected {x}/sqrt({s}), got {r}"
      | x :: _, t :: _ => .bad s!"vertex normal: expected {x}/sqrt({s}), got {t.render}"
      | _, _ => .ok "sqrt_tol"
    goA v obs
  | .truncUnitOf v s =>
    if v.length != obs.length then .bad "arity" else
    let rec goT (v : List Rat) (o : List Tok) : Verdict :=
      match v, o with
      | x :: v, .val r :: o =>
        -- r = trunc(x/√s): r integral, r·x ≥ 0, r²·s ≤ x² < (|r|+1)²·s
        let a := ratAbs r
        if r.den == 1 && 0 ≤ r * x && a * a * s ≤ x * x && x * x < (a + 1) * (a + 1) * s then goT v o
        else .bad s!"normalized(int): expected trunc({x}/sqrt({s})), got {r}"
      | x :: _, t :: _ => .bad s!"normalized(int): expected trunc({x}/sqrt({s})), got {t.render}"
      | _, _ => .ok "sqrt_tol"
    goT v obs

/-! ### one scalar type -/

structure ScalarIO (α : Type) where
  ofInt : Int → α
  toRat : α → Rat

section ops
variable {α : Type} [Add α] [Sub α] [Mul α] [Neg α] [OfNat α 0] [OfNat α 1] [LT α] [DecidableLT α]
  [DecidableEq α] [CDiv α] [CAbs α] [CSqrt α] [CNat α]

def b2r (b : Bool) : Rat := if b then 1 else 0

/-- the expectation for one E-line.  `isInt`: integer scalar (`int`/`unsigned`). -/
def expectE (io : ScalarIO α) (isInt : Bool) (n : Nat) (op : String) (xs : List Int) : Expect :=
  let a := (xs.take n).map io.ofInt
  let b := ((xs.drop n).take n).map io.ofInt
  let s := io.ofInt ((xs.drop n).headD 0)       -- vector-scalar operators
  let s0 := io.ofInt (xs.headD 0)               -- scalar-only operators
  let out (v : List α) : Expect := .vals (v.map io.toRat)
  let out1 (x : α) : Expect := .vals [io.toRat x]
  let need (k : Nat) (e : Expect) : Expect :=
    if xs.length = k then e else .malformed s!"{op}: expected {k} operands, got {xs.length}"
  let vv := need (2 * n); let vs := need (n + 1); let v1 := need n
  let normE (v : List α) : Expect :=
    match norm? v with
    | some r => out1 r
    | none => .sqrtOf (io.toRat (sqrnorm v))
  let unitE (v : List α) (cond : Bool) : Expect :=
    if sqrnorm v = 0 then (if cond then out v else .ooc "normalize_zero_vector") else
    match normalized? v with
    | some r => out r
    | none =>
      if isInt then .truncUnitOf (v.map io.toRat) (io.toRat (sqrnorm v))
      else .unitOf (v.map io.toRat) (io.toRat (sqrnorm v))
  match op with
  | "add" | "addeq" => vv (out (add a b))
  | "sub" | "subeq" => vv (out (sub a b))
  | "mul" | "muleq" => vv (out (mul a b))
  | "div" | "diveq" => vv (if b.any (· = 0) then .ooc "zero_divisor" else out (divv a b))
  | "min2" | "minimize" => vv (out (minimize a b))
  | "max2" | "maximize" => vv (out (maximize a b))
  | "cross" | "crossm" | "crossf" => if n = 3 then vv (out (cross a b)) else .malformed "cross: N≠3"
  | "dot" | "dotm" | "dotf" => vv (out1 (dot a b))
  | "eq" => vv (.vals [b2r (eqv b a)])          -- std::equal(rhs…, this…)
  | "ne" => vv (.vals [b2r (nev a b)])
  | "lt" => vv (.vals [b2r (ltv a b)])
  | "minimized" => vv (let r := minimized a b; .vals (b2r r.1 :: r.2.map io.toRat))
  | "maximized" => vv (let r := maximized a b; .vals (b2r r.1 :: r.2.map io.toRat))
  | "swap" | "swapf" => vv (let r := swapv a b; out (r.1 ++ r.2))
  | "smul" | "smull" | "smuleq" => vs (out (smul a s))
  | "sdiv" | "sdiveq" => vs (if s = 0 then .ooc "zero_divisor" else out (sdiv a s))
  | "vectorize" | "vectorized" | "ctor1" => need 1 (out (vectorize n s0))
  | "neg" => v1 (out (neg a))
  | "normalized" | "normalize" => v1 (unitE a false)
  | "normalizecond" => v1 (unitE a true)
  | "homogenized" =>
    if n = 4 then v1 (if a.getD 3 0 = 0 then .ooc "zero_divisor" else out (homogenized a)) else .malformed "homogenized: N≠4"
  | "comp" | "iter" => v1 (out a)
  | "sqrnorm" => v1 (out1 (sqrnorm a))
  | "norm" | "length" => v1 (normE a)
  | "l1" => v1 (out1 (l1 a))
  | "l8" => v1 (match l8 a with | some x => out1 x | none => .malformed "empty")
  | "max" => v1 (match vmax a with | some x => out1 x | none => .malformed "empty")
  | "min" => v1 (match vmin a with | some x => out1 x | none => .malformed "empty")
  | "maxabs" => v1 (match maxAbs a with | some x => out1 x | none => .malformed "empty")
  | "minabs" => v1 (match minAbs a with | some x => out1 x | none => .malformed "empty")
  | "mean" => v1 (out1 (mean a))
  | "meanabs" => v1 (out1 (meanAbs a))
  | "size" => v1 (.vals [(a.length : Nat)])
  | "print" => v1 (.vals (((writeTokens a).length : Nat) :: (writeTokens a).map io.toRat))
  | "parse" => vs (match readTokens n (a ++ [s]) with
      | some (v, rest) => out (v ++ rest.take 1)
      | none => .malformed "parse: short")
  | "applyinc" => v1 (out (apply (· + 1) a))
  | _ => .malformed ("unknown operator " ++ op)

end ops

def i2r (z : Int) : Rat := (z : Rat)

def ioInt : ScalarIO Int := ⟨id, fun z => (z : Rat)⟩
def ioU32 : ScalarIO UInt32 := ⟨fun z => UInt32.ofNat (z % 4294967296).toNat, fun u => ((u.toNat : Nat) : Rat)⟩
def ioRat : ScalarIO Rat := ⟨fun z => (z : Rat), id⟩

/-- conversions `VectorT<To>(VectorT<From>)`: `static_cast` per component, on integer-valued
operands: identity on the value, reduced mod 2^32 for `unsigned` targets (of an integer source). -/
def expectCast (st : String) (op : String) (n : Nat) (xs : List Int) : Expect :=
  if xs.length != n then .malformed "cast: arity" else
  let src : List Int := if st == "u" then xs.map (fun z => z % 4294967296) else xs
  match op with
  | "castu" =>
    if (st == "f" || st == "d") && src.any (· < 0) then .ooc "negative_float_to_unsigned"
    else .vals (src.map (fun z => i2r (z % 4294967296)))
  | "casti" =>
    if src.any (fun z => z < -2147483648 || z > 2147483647) then .ooc "int_range" else .vals (src.map i2r)
  | "castf" =>
    if src.all (fun z => representable 24 (i2r z)) then .vals (src.map i2r) else .ooc "inexact_cast"
  | _ => .vals (src.map i2r)

def expectLineE (st : String) (n : Nat) (op : String) (xs : List Int) : Expect :=
  if op.startsWith "cast" then expectCast st op n xs else
  if st == "i" then expectE ioInt true n op xs
  else if st == "u" then expectE ioU32 true n op xs
  else if st == "f" || st == "d" then expectE ioRat false n op xs
  else .malformed ("scalar type " ++ st)

/-! ### geometry lines -/

def chunk3 (l : List Rat) : List (List Rat) :=
  match l with
  | a :: b :: c :: t => [a, b, c] :: chunk3 t
  | _ => []

def ratHalf : Rat := (1 : Rat) / 2

/-- expectation and (optional) special judgement for a G-line -/
def expectG (query : String) (k : Nat) (ps : List (List Rat)) : Expect :=
  let wellformed := ps.length = k && ps.all (·.length = 3)
  if !wellformed then .malformed "positions" else
  match query, ps with
  | "vec_e", [f, t] | "vec_he", [f, t] => .vals (edgeVector f t)
  | "len_e", [f, t] | "len_he", [f, t] =>
    let v := edgeVector f t
    (match norm? v with | some r => .vals [r] | none => .sqrtOf (sqrnorm v))
  | "bary_e", [f, t] => .vals (baryEdge ratHalf f t)
  | "bary_f", _ | "bary_c", _ => if k = 0 then .ooc "zero_valence" else .vals (baryList 3 ps)
  | "normal", _ | "nattr_f", _ =>
    (match normalU? ps with
     | none => .ooc "degenerate_face"
     | some u =>
       if sqrnorm u = 0 then .ooc "collinear_corner" else
       match normalized? u with
       | some r => .vals r
       | none => .unitOf u (sqrnorm u))
  | _, _ => .malformed ("unknown query " ++ query)

/-- `normal_pair`: positions of the cycle of halfface 0, then the two library normals. -/
def judgePair (fmt : Fmt) (ps : List (List Rat)) (obs : List Tok) : Verdict :=
  match normalU? ps, normalU? (oppCycle ps) with
  | some u0, some u1 =>
    let vals := obs.filterMap (fun t => match t with | .val q => some q | _ => none)
    if sqrnorm u0 = 0 || sqrnorm u1 = 0 then .skip "out_of_contract:collinear_corner" else
    if vals.length != 6 || obs.length != 6 then .bad "normal_pair: expected six finite tokens" else
    let n0 := vals.take 3; let n1 := vals.drop 3
    if u1 = neg u0 then
      -- triangles, parallelograms, …: the un-normalised formulas are exact negatives (theorem
      -- `normalU_opp_of_lastCorner_eq`), IEEE arithmetic is sign-symmetric ⇒ exactly opposite
      (if n1 = neg n0 then .ok "opposite_exact" else .bad s!"normal(opp) ≠ -normal: {n0} vs {n1}")
    else if sqrnorm (cross u0 u1) = 0 && dot u0 u1 < 0 then
      (if (List.zipWith (fun x y => ratAbs (x + y)) n0 n1).all (· ≤ fmt.tolN * 4) then .ok "opposite_rounded"
       else .bad s!"normal(opp) !~ -normal: {n0} vs {n1}")
    else .skip "no_claim:corner_normals_not_antiparallel"
  | _, _ => .skip "out_of_contract:degenerate_face"

/-- `nattr_v`: the incident boundary-halfface normals, then the vertex normal. -/
def expectVertexNormal (fmt : Fmt) (ns : List (List Rat)) : Expect :=
  let sum := ns.foldl add (vectorize 3 0)
  -- the float sum of unit vectors is rounded; ill-conditioned when the exact sum nearly cancels
  if sqrnorm sum < 1 / pow2 10 then .ooc "cancelling_normals" else
  let _ := fmt
  .unitAbs sum (sqrnorm sum)

/-! ### main loop -/

structure Stats where
  counts : Std.HashMap String Nat := {}
  lines : Nat := 0
  ok : Nat := 0
  bad : Nat := 0
  skipped : Nat := 0
  badShown : Nat := 0

def Stats.bump (s : Stats) (key : String) : Stats :=
  { s with counts := s.counts.insert key (s.counts.getD key 0 + 1) }

def parseInts (l : List String) : Option (List Int) := l.mapM String.toInt?

def judgeLine (line : String) : Option (String × Verdict) :=
  let toks := (line.splitOn " ").filter (· ≠ "")
  match toks with
  | "E" :: st :: ns :: op :: rest =>
    let key := s!"{st} {ns} {op}"
    match ns.toNat? with
    | none => some (key, .bad "malformed: N")
    | some n =>
      let (lhs, rhs) := rest.span (· ≠ "=")
      let obs := (rhs.drop 1).map parseTok
      (match parseInts lhs with
       | none => some (key, .bad "malformed: operand")
       | some xs =>
         let fmt := fmtOf st
         -- norm()/length() of an integer vector is a `double`
         let normFmt := if fmt.mant = 0 then fmtOf "d" else fmt
         some (key, judge fmt normFmt (expectLineE st n op xs) obs))
  | "G" :: mesh :: query :: _h :: ks :: rest =>
    let st := (mesh.take 1).toString
    let key := s!"{st} 3 G:{query}"
    let fmt := fmtOf st
    let (lhs, rhs) := rest.span (· ≠ "=")
    let rhs := rhs.drop 1
    if query == "oppcycle" then
      some (key, if rhs = oppCycle lhs then .ok "exact" else .bad "vertex cycle of the opposite halfface is not v0 :: reverse rest")
    else
    let inp := lhs.map parseTok
    let obs := rhs.map parseTok
    let vals := inp.filterMap (fun t => match t with | .val q => some q | _ => none)
    if vals.length != inp.length then some (key, .skip "out_of_contract:non_finite_input") else
    let ps := chunk3 vals
    match ks.toNat? with
    | none => some (key, .bad "malformed: k")
    | some k =>
      if query == "normal_pair" then some (key, judgePair fmt ps obs)
      else if query == "nattr_hf" || query == "nattr_hfc" then
        (match ps with
         | [f] => some (key, judge fmt fmt (.vals (smul f 1 ++ smul f (-1))) obs)
         | _ => some (key, .bad "malformed: nattr_hf"))
      else if query == "nattr_v" then some (key, judge { fmt with tolN := fmt.tolN * 8 } fmt (expectVertexNormal fmt ps) obs)
      else some (key, judge fmt fmt (expectG query k ps) obs)
  | _ => none

/-! ### fixed witnesses (W-lines): the code against the DEFINING formula of C19's statement.
Not part of the correspondence (the model mirrors the code there); reported as
`WITNESS <name> PASS|FAIL|INVALID :: <detail> :: <line>`. -/

/-- the L1 (Manhattan) norm `Σ |x_i|` -/
def manhattan (xs : List Int) : Int := (xs.map cabs).foldl (· + ·) 0

def judgeWitness (line : String) : Option String :=
  let toks := (line.splitOn " ").filter (· ≠ "")
  match toks with
  | "W" :: "l1" :: _st :: ns :: rest =>
    let (lhs, rhs) := rest.span (· ≠ "=")
    let obs := (rhs.drop 1).map parseTok
    (match parseInts lhs, ns.toNat?, obs with
     | some xs, some n, [.val r] =>
       if xs.length != n then some s!"WITNESS l1_norm_not_manhattan INVALID :: arity :: {line}" else
       let m := manhattan xs
       let verdict := if r = i2r m then "PASS" else "FAIL"
       some s!"WITNESS l1_norm_not_manhattan {verdict} :: manhattan norm = {m}, l1_norm() returned {r}, plain sum (model l1) = {l1 xs} :: {line}"
     | _, _, _ => some s!"WITNESS l1_norm_not_manhattan INVALID :: malformed :: {line}")
  | "W" :: "normal_nonconvex" :: st :: ks :: rest =>
    let fmt := fmtOf st
    let (lhs, rhs) := rest.span (· ≠ "=")
    let vals (l : List String) := (l.map parseTok).filterMap (fun t => match t with | .val q => some q | _ => none)
    let inp := vals lhs
    let obs := vals (rhs.drop 1)
    let ps := chunk3 inp
    (match ks.toNat?, normalU? ps, normalU? (oppCycle ps) with
     | some k, some u0, some u1 =>
       let p0 := ps.headD []
       let planar := ps.all (fun p => dot (sub p p0) u0 = 0)
       if ps.length != k || inp.length != 3 * k || obs.length != 6 || sqrnorm u0 = 0 || sqrnorm u1 = 0 || !planar then
         some s!"WITNESS normal_opposite_nonconvex INVALID :: witness must be a planar polygon with non-degenerate corners and six finite result tokens :: {line}"
       else
         let n0 := obs.take 3; let n1 := obs.drop 3
         let opposite := (List.zipWith (fun x y => ratAbs (x + y)) n0 n1).all (· ≤ fmt.tolN * 4)
         let verdict := if opposite then "PASS" else "FAIL"
         let sameDir := decide (0 < dot u0 u1)
         some s!"WITNESS normal_opposite_nonconvex {verdict} :: planar=true, normal(hf)={n0}, normal(opp hf)={n1}, un-normalised formulas {u0} / {u1}, formulas_point_the_same_way={sameDir} :: {line}"
     | _, _, _ => some s!"WITNESS normal_opposite_nonconvex INVALID :: malformed :: {line}")
  | _ => none

partial def loop (h : IO.FS.Stream) (out : IO.FS.Stream) (s : Stats) : IO Stats := do
  let line ← h.getLine
  if line.isEmpty then return s
  let line := line.trimAsciiEnd.toString
  match judgeWitness line with
  | some w => out.putStrLn w; loop h out s
  | none =>
  match judgeLine line with
  | none => loop h out s
  | some (key, v) =>
    let s := { s with lines := s.lines + 1 }
    match v with
    | .ok cls => loop h out ({ s with ok := s.ok + 1 }.bump (key ++ " " ++ cls))
    | .skip why => loop h out ({ s with skipped := s.skipped + 1 }.bump (key ++ " skip:" ++ why))
    | .bad why =>
      -- `apply` is outside the operator list of C19's statement: a disagreement is recorded, not judged
      if (line.splitOn " applyinc ").length > 1 then
        loop h out ({ s with skipped := s.skipped + 1 }.bump (key ++ " skip:finding:apply_ignores_its_vector"))
      else
      if s.badShown < 500 then out.putStrLn s!"BAD {why} :: {line}"
      loop h out ({ s with bad := s.bad + 1, badShown := s.badShown + 1 }.bump (key ++ " BAD"))

end OVM.Vec.Eval

open OVM.Vec.Eval in
def main : IO UInt32 := do
  let stdin ← IO.getStdin
  let stdout ← IO.getStdout
  let s ← loop stdin stdout {}
  let keys := s.counts.toList.map (fun (k, v) => s!"SUM {k} {v}")
  for l in keys.toArray.qsort (· < ·) do
    stdout.putStrLn l
  stdout.putStrLn s!"TOTAL lines={s.lines} ok={s.ok} bad={s.bad} skipped={s.skipped}"
  return 0

/-
  C19 — lemmas about the vector model (`OVM/Vec/Model.lean`).  Proof-only file: imports single
  Mathlib modules (`ring`, the `LinearOrder` class); nothing executable imports this.

  Sections: (1) component-wise operators, (2) folds as sums, dot/sqrnorm/l1 algebra in any
  commutative ring, (3) cross product identities in any commutative ring, (4) lexicographic
  order and `std::equal` over any linear order, (5) max/min reductions over any linear
  order, (6) `Int`-specific facts (truncating mean, abs), (7) geometry formulas.
-/
import Mathlib.Tactic.Ring
import Mathlib.Order.Defs.LinearOrder
import OVM.Vec.Model

namespace OVM.Vec

/-! ## 1. component-wise operators -/

section cw
variable {α : Type}

theorem zipWith_cw (f : α → α → α) (v w : List α) (h : v.length = w.length) :
    (List.zipWith f v w).length = v.length ∧
    ∀ i (hi : i < v.length), (List.zipWith f v w)[i]? = some (f v[i] (w[i]'(h ▸ hi))) := by
  refine ⟨by simp [h], ?_⟩
  intro i hi
  have hw : i < w.length := h ▸ hi
  simp [List.getElem?_zipWith, List.getElem?_eq_getElem hi, List.getElem?_eq_getElem hw]

theorem map_cw (f : α → α) (v : List α) :
    (v.map f).length = v.length ∧ ∀ i (hi : i < v.length), (v.map f)[i]? = some (f v[i]) := by
  refine ⟨by simp, ?_⟩
  intro i hi
  simp [List.getElem?_eq_getElem hi]

theorem len3 {l : List α} (h : l.length = 3) : ∃ x y z, l = [x, y, z] := by
  match l, h with
  | [x, y, z], _ => exact ⟨x, y, z, rfl⟩

end cw

/-! ## 2. folds as sums; dot / sqrnorm / l1 in a commutative ring -/

section ring
variable {R : Type} [CommRing R]

theorem foldl_zip_mul (as bs : List R) (init : R) :
    (List.zip as bs).foldl (fun acc p => acc + p.1 * p.2) init
      = init + (List.zipWith (· * ·) as bs).sum := by
  induction as generalizing bs init with
  | nil => simp
  | cons a as ih =>
    cases bs with
    | nil => simp
    | cons b bs => simp [ih, add_assoc]

/-- `operator|` is the sum of the component products. -/
theorem dot_eq_sum (v w : List R) : dot v w = (List.zipWith (· * ·) v w).sum := by
  cases v with
  | nil => simp [dot]
  | cons a as =>
    cases w with
    | nil => simp [dot]
    | cons b bs => simp [dot, foldl_zip_mul]

theorem foldl_sq (as : List R) (init : R) :
    as.foldl (fun l r => l + r * r) init = init + (as.map (fun x => x * x)).sum := by
  induction as generalizing init with
  | nil => simp
  | cons a as ih => simp [ih, add_assoc]

/-- `sqrnorm` is the sum of the squared components. -/
theorem sqrnorm_eq_sum (v : List R) : sqrnorm v = (v.map (fun x => x * x)).sum := by
  cases v with
  | nil => simp [sqrnorm]
  | cons a as => simp [sqrnorm, foldl_sq]

theorem zipWith_self_mul (v : List R) : List.zipWith (· * ·) v v = v.map (fun x => x * x) := by
  induction v with
  | nil => rfl
  | cons a as ih => rw [List.zipWith_cons_cons, ih, List.map_cons]

theorem sqrnorm_eq_dot (v : List R) : sqrnorm v = dot v v := by
  rw [sqrnorm_eq_sum, dot_eq_sum, zipWith_self_mul]

theorem foldl_add (as : List R) (init : R) : as.foldl (· + ·) init = init + as.sum := by
  induction as generalizing init with
  | nil => simp
  | cons a as ih => simp [ih, add_assoc]

/-- `l1_norm()` is the plain sum of the components. -/
theorem l1_eq_sum (v : List R) : l1 v = v.sum := by
  cases v with
  | nil => simp [l1]
  | cons a as => simp [l1, foldl_add]

theorem zipWith_mul_comm (v w : List R) : List.zipWith (· * ·) v w = List.zipWith (· * ·) w v := by
  induction v generalizing w with
  | nil => cases w <;> rfl
  | cons a as ih =>
    cases w with
    | nil => rfl
    | cons b bs => simp [ih bs, mul_comm]

theorem dot_comm (v w : List R) : dot v w = dot w v := by
  rw [dot_eq_sum, dot_eq_sum, zipWith_mul_comm]

theorem sum_zipWith_add_left (u v w : List R) (h : u.length = v.length) :
    (List.zipWith (· * ·) (List.zipWith (· + ·) u v) w).sum
      = (List.zipWith (· * ·) u w).sum + (List.zipWith (· * ·) v w).sum := by
  induction u generalizing v w with
  | nil => cases v <;> simp_all
  | cons a as ih =>
    cases v with
    | nil => simp at h
    | cons b bs =>
      cases w with
      | nil => simp
      | cons c cs =>
        simp only [List.length_cons, Nat.add_right_cancel_iff] at h
        simp [ih bs cs h]; ring

theorem dot_add_left (u v w : List R) (h : u.length = v.length) :
    dot (add u v) w = dot u w + dot v w := by
  simp only [dot_eq_sum, add]; exact sum_zipWith_add_left u v w h

theorem dot_add_right (u v w : List R) (h : v.length = w.length) :
    dot u (add v w) = dot u v + dot u w := by
  rw [dot_comm, dot_add_left _ _ _ h, dot_comm v, dot_comm w]

theorem sum_zipWith_smul_left (v w : List R) (s : R) :
    (List.zipWith (· * ·) (v.map (· * s)) w).sum = s * (List.zipWith (· * ·) v w).sum := by
  induction v generalizing w with
  | nil => simp
  | cons a as ih =>
    cases w with
    | nil => simp
    | cons b bs => simp [ih bs]; ring

theorem dot_smul_left (v w : List R) (s : R) : dot (smul v s) w = s * dot v w := by
  simp only [dot_eq_sum, smul]; exact sum_zipWith_smul_left v w s

theorem dot_smul_right (v w : List R) (s : R) : dot v (smul w s) = s * dot v w := by
  rw [dot_comm, dot_smul_left, dot_comm]

theorem sum_zipWith_neg_left (v w : List R) :
    (List.zipWith (· * ·) (v.map (- ·)) w).sum = - (List.zipWith (· * ·) v w).sum := by
  induction v generalizing w with
  | nil => simp
  | cons a as ih =>
    cases w with
    | nil => simp
    | cons b bs => simp [ih bs]; ring

theorem dot_neg_left (v w : List R) : dot (neg v) w = - dot v w := by
  simp only [dot_eq_sum, neg]; exact sum_zipWith_neg_left v w

/-! ## 3. cross product -/

theorem cross_anticomm3 (a0 a1 a2 b0 b1 b2 : R) :
    cross [a0, a1, a2] [b0, b1, b2] = neg (cross [b0, b1, b2] [a0, a1, a2]) := by
  simp only [cross, neg, List.map, List.cons.injEq, and_true]
  refine ⟨?_, ?_, ?_⟩ <;> ring

theorem cross_orth_left3 (a0 a1 a2 b0 b1 b2 : R) :
    dot [a0, a1, a2] (cross [a0, a1, a2] [b0, b1, b2]) = 0 := by
  simp only [cross, dot, List.zip, List.zipWith, List.foldl]; ring

theorem cross_orth_right3 (a0 a1 a2 b0 b1 b2 : R) :
    dot [b0, b1, b2] (cross [a0, a1, a2] [b0, b1, b2]) = 0 := by
  simp only [cross, dot, List.zip, List.zipWith, List.foldl]; ring

theorem cross_lagrange3 (a0 a1 a2 b0 b1 b2 : R) :
    sqrnorm (cross [a0, a1, a2] [b0, b1, b2])
      = sqrnorm [a0, a1, a2] * sqrnorm [b0, b1, b2]
        - dot [a0, a1, a2] [b0, b1, b2] * dot [a0, a1, a2] [b0, b1, b2] := by
  simp only [cross, dot, sqrnorm, List.zip, List.zipWith, List.foldl]; ring

theorem cross_self3 (a0 a1 a2 : R) : cross [a0, a1, a2] [a0, a1, a2] = [0, 0, 0] := by
  simp only [cross, List.cons.injEq, and_true]
  refine ⟨?_, ?_, ?_⟩ <;> ring

theorem cross_add_left3 (a0 a1 a2 b0 b1 b2 c0 c1 c2 : R) :
    cross (add [a0, a1, a2] [b0, b1, b2]) [c0, c1, c2]
      = add (cross [a0, a1, a2] [c0, c1, c2]) (cross [b0, b1, b2] [c0, c1, c2]) := by
  simp only [cross, add, List.zipWith, List.cons.injEq, and_true]
  refine ⟨?_, ?_, ?_⟩ <;> ring

/-! ## 7a. the halfface normal formula -/

/-- reversing the three points negates `(p2-p1) × (p3-p2)` -/
theorem normal_triple_reverse (a0 a1 a2 b0 b1 b2 c0 c1 c2 : R) :
    cross (sub [b0, b1, b2] [c0, c1, c2]) (sub [a0, a1, a2] [b0, b1, b2])
      = neg (cross (sub [b0, b1, b2] [a0, a1, a2]) (sub [c0, c1, c2] [b0, b1, b2])) := by
  simp only [cross, sub, neg, List.zipWith, List.map, List.cons.injEq, and_true]
  refine ⟨?_, ?_, ?_⟩ <;> ring

/-- the triple the C++ uses for the opposite side of a *triangle* `a b c` is `a c b` -/
theorem normal_triangle_opp (a0 a1 a2 b0 b1 b2 c0 c1 c2 : R) :
    cross (sub [c0, c1, c2] [a0, a1, a2]) (sub [b0, b1, b2] [c0, c1, c2])
      = neg (cross (sub [b0, b1, b2] [a0, a1, a2]) (sub [c0, c1, c2] [b0, b1, b2])) := by
  simp only [cross, sub, neg, List.zipWith, List.map, List.cons.injEq, and_true]
  refine ⟨?_, ?_, ?_⟩ <;> ring

end ring

/-! ## 4. `std::equal` and `std::lexicographical_compare` over a linear order -/

section order
variable {α : Type}

theorem eqv_iff [DecidableEq α] (v w : List α) (h : v.length = w.length) :
    eqv v w = true ↔ v = w := by
  induction v generalizing w with
  | nil => cases w <;> simp_all [eqv]
  | cons a as ih =>
    cases w with
    | nil => simp at h
    | cons b bs =>
      simp only [List.length_cons, Nat.add_right_cancel_iff] at h
      by_cases hab : a = b <;> simp [eqv, hab, ih bs h]

variable [LinearOrder α]

theorem ltv_irrefl (v : List α) : ltv v v = false := by
  induction v with
  | nil => rfl
  | cons a as ih => simp [ltv, ih]

theorem ltv_trans (a b c : List α) (hab : ltv a b = true) (hbc : ltv b c = true) :
    ltv a c = true := by
  induction a generalizing b c with
  | nil =>
    cases c with
    | nil => cases b <;> simp_all [ltv]
    | cons z zs => simp [ltv]
  | cons x xs ih =>
    cases b with
    | nil => simp [ltv] at hab
    | cons y ys =>
      cases c with
      | nil => simp [ltv] at hbc
      | cons z zs =>
        simp only [ltv] at hab hbc ⊢
        rcases lt_trichotomy x y with hxy | hxy | hxy
        · rcases lt_trichotomy y z with hyz | hyz | hyz
          · simp [lt_trans hxy hyz]
          · subst hyz; simp [hxy]
          · simp [hyz, not_lt_of_gt hyz] at hbc
        · subst hxy
          rcases lt_trichotomy x z with hyz | hyz | hyz
          · simp [hyz]
          · subst hyz
            simp only [lt_self_iff_false, if_false] at hab hbc ⊢
            exact ih ys zs hab hbc
          · simp [hyz, not_lt_of_gt hyz] at hbc
        · simp [hxy, not_lt_of_gt hxy] at hab

theorem ltv_trichotomy (a b : List α) (h : a.length = b.length) :
    ltv a b = true ∨ a = b ∨ ltv b a = true := by
  induction a generalizing b with
  | nil => cases b <;> simp_all
  | cons x xs ih =>
    cases b with
    | nil => simp at h
    | cons y ys =>
      simp only [List.length_cons, Nat.add_right_cancel_iff] at h
      rcases lt_trichotomy x y with hxy | hxy | hxy
      · left; simp [ltv, hxy]
      · subst hxy
        rcases ih ys h with h1 | h1 | h1
        · left; simp [ltv, h1]
        · right; left; simp [h1]
        · right; right; simp [ltv, h1]
      · right; right; simp [ltv, hxy]

theorem ltv_asymm (a b : List α) (hab : ltv a b = true) : ltv b a = false := by
  cases hba : ltv b a with
  | false => rfl
  | true => have := ltv_trans a b a hab hba; simp [ltv_irrefl] at this

/-! ## 5. max / min reductions -/

theorem foldl_maxBy_inv {β : Type} (key : β → α) (l : List β) (best : β) :
    (l.foldl (fun best x => if key best < key x then x else best) best = best ∨
      l.foldl (fun best x => if key best < key x then x else best) best ∈ l) ∧
    key best ≤ key (l.foldl (fun best x => if key best < key x then x else best) best) ∧
    ∀ x ∈ l, key x ≤ key (l.foldl (fun best x => if key best < key x then x else best) best) := by
  induction l generalizing best with
  | nil => simp
  | cons y ys ih =>
    simp only [List.foldl_cons]
    by_cases hlt : key best < key y
    · simp only [hlt, if_true]
      obtain ⟨h1, h2, h3⟩ := ih y
      refine ⟨?_, le_trans (le_of_lt hlt) h2, ?_⟩
      · rcases h1 with h1 | h1
        · right; simp [h1]
        · right; simp [h1]
      · intro x hx
        rcases List.mem_cons.mp hx with hx | hx
        · subst hx; exact h2
        · exact h3 x hx
    · simp only [hlt, if_false]
      obtain ⟨h1, h2, h3⟩ := ih best
      refine ⟨?_, h2, ?_⟩
      · rcases h1 with h1 | h1
        · left; exact h1
        · right; simp [h1]
      · intro x hx
        rcases List.mem_cons.mp hx with hx | hx
        · subst hx; exact le_trans (not_lt.mp hlt) h2
        · exact h3 x hx

theorem foldl_minBy_inv {β : Type} (key : β → α) (l : List β) (best : β) :
    (l.foldl (fun best x => if key x < key best then x else best) best = best ∨
      l.foldl (fun best x => if key x < key best then x else best) best ∈ l) ∧
    key (l.foldl (fun best x => if key x < key best then x else best) best) ≤ key best ∧
    ∀ x ∈ l, key (l.foldl (fun best x => if key x < key best then x else best) best) ≤ key x := by
  induction l generalizing best with
  | nil => simp
  | cons y ys ih =>
    simp only [List.foldl_cons]
    by_cases hlt : key y < key best
    · simp only [hlt, if_true]
      obtain ⟨h1, h2, h3⟩ := ih y
      refine ⟨?_, le_trans h2 (le_of_lt hlt), ?_⟩
      · rcases h1 with h1 | h1
        · right; simp [h1]
        · right; simp [h1]
      · intro x hx
        rcases List.mem_cons.mp hx with hx | hx
        · subst hx; exact h2
        · exact h3 x hx
    · simp only [hlt, if_false]
      obtain ⟨h1, h2, h3⟩ := ih best
      refine ⟨?_, h2, ?_⟩
      · rcases h1 with h1 | h1
        · left; exact h1
        · right; simp [h1]
      · intro x hx
        rcases List.mem_cons.mp hx with hx | hx
        · subst hx; exact le_trans h2 (not_lt.mp hlt)
        · exact h3 x hx

/-- `std::max_element` with the comparison `key a < key b` returns an element whose key is
maximal. -/
theorem maxElemBy_key_spec {β : Type} (key : β → α) (v : List β) (m : β)
    (h : maxElemBy (fun a b => decide (key a < key b)) v = some m) :
    m ∈ v ∧ ∀ x ∈ v, key x ≤ key m := by
  cases v with
  | nil => simp [maxElemBy] at h
  | cons a as =>
    simp only [maxElemBy, Option.some.injEq, decide_eq_true_eq] at h
    subst h
    obtain ⟨h1, h2, h3⟩ := foldl_maxBy_inv key as a
    refine ⟨?_, ?_⟩
    · rcases h1 with h1 | h1
      · simp [h1]
      · simp [h1]
    · intro x hx
      rcases List.mem_cons.mp hx with hx | hx
      · subst hx; exact h2
      · exact h3 x hx

/-- `std::min_element` with the comparison `key a < key b` returns an element whose key is
minimal. -/
theorem minElemBy_key_spec {β : Type} (key : β → α) (v : List β) (m : β)
    (h : minElemBy (fun a b => decide (key a < key b)) v = some m) :
    m ∈ v ∧ ∀ x ∈ v, key m ≤ key x := by
  cases v with
  | nil => simp [minElemBy] at h
  | cons a as =>
    simp only [minElemBy, Option.some.injEq, decide_eq_true_eq] at h
    subst h
    obtain ⟨h1, h2, h3⟩ := foldl_minBy_inv key as a
    refine ⟨?_, ?_⟩
    · rcases h1 with h1 | h1
      · simp [h1]
      · simp [h1]
    · intro x hx
      rcases List.mem_cons.mp hx with hx | hx
      · subst hx; exact h2
      · exact h3 x hx

/-- `max()` as a fold of the binary maximum. -/
theorem vmax_eq_foldl (a : α) (as : List α) : vmax (a :: as) = some (as.foldl max a) := by
  simp only [vmax, maxElemBy, Option.some.injEq, decide_eq_true_eq]
  congr 1
  funext best x
  by_cases h : best < x
  · simp [h, max_eq_right (le_of_lt h)]
  · simp [h, max_eq_left (not_lt.mp h)]

/-- `min()` as a fold of the binary minimum. -/
theorem vmin_eq_foldl (a : α) (as : List α) : vmin (a :: as) = some (as.foldl min a) := by
  simp only [vmin, minElemBy, Option.some.injEq, decide_eq_true_eq]
  congr 1
  funext best x
  by_cases h : x < best
  · simp [h, min_eq_right (le_of_lt h)]
  · simp [h, min_eq_left (not_lt.mp h)]

theorem smin_eq_min (l r : α) : smin l r = min l r := by
  unfold smin
  by_cases h : r < l
  · simp [h, min_eq_right (le_of_lt h)]
  · simp [h, min_eq_left (not_lt.mp h)]

theorem smax_eq_max (l r : α) : smax l r = max l r := by
  unfold smax
  by_cases h : l < r
  · simp [h, max_eq_right (le_of_lt h)]
  · simp [h, max_eq_left (not_lt.mp h)]

theorem minimize_eq (v w : List α) : minimize v w = List.zipWith min v w := by
  unfold minimize; congr 1; funext l r; exact smin_eq_min l r

theorem maximize_eq (v w : List α) : maximize v w = List.zipWith max v w := by
  unfold maximize; congr 1; funext l r; exact smax_eq_max l r

omit [LinearOrder α] in
theorem zipWith_comm_of (f : α → α → α) (hf : ∀ a b, f a b = f b a) (v w : List α) :
    List.zipWith f v w = List.zipWith f w v := by
  induction v generalizing w with
  | nil => cases w <;> rfl
  | cons a as ih =>
    cases w with
    | nil => rfl
    | cons b bs => simp [ih bs, hf a b]

omit [LinearOrder α] in
theorem zipWith_self_of (f : α → α → α) (hf : ∀ a, f a a = a) (v : List α) :
    List.zipWith f v v = v := by
  induction v with
  | nil => rfl
  | cons a as ih => rw [List.zipWith_cons_cons, ih, hf a]

end order

/-! ## 6. `Int`-specific facts -/

section int

theorem cabs_int (x : Int) : cabs x = if x < 0 then -x else x := rfl

theorem cabs_nonneg (x : Int) : 0 ≤ cabs x := by rw [cabs_int]; split <;> omega
theorem le_cabs (x : Int) : x ≤ cabs x := by rw [cabs_int]; split <;> omega
theorem neg_le_cabs (x : Int) : -x ≤ cabs x := by rw [cabs_int]; split <;> omega
theorem cabs_eq_or (x : Int) : cabs x = x ∨ cabs x = -x := by rw [cabs_int]; split <;> omega
theorem cabs_eq_natAbs (x : Int) : cabs x = (x.natAbs : Int) := by rw [cabs_int]; split <;> omega

theorem cdiv_int (a b : Int) : cdiv a b = Int.tdiv a b := rfl
theorem cnat_int (n : Nat) : (cnat n : Int) = (n : Int) := rfl

/-- truncating division, characterised: `s = n*q + r`, `|r| < n`, `r` has the sign of `s`. -/
theorem tdiv_spec (s : Int) (n : Nat) (hn : 0 < n) :
    s = n * Int.tdiv s n + Int.tmod s n ∧ -(n : Int) < Int.tmod s n ∧ Int.tmod s n < n ∧
    (0 ≤ s → 0 ≤ Int.tmod s n) ∧ (s ≤ 0 → Int.tmod s n ≤ 0) := by
  have hn' : (0 : Int) < n := by omega
  refine ⟨(Int.mul_tdiv_add_tmod s n).symm, ?_, Int.tmod_lt_of_pos s hn', ?_, ?_⟩
  · have := Int.lt_tmod_of_pos s hn'; omega
  · intro h; exact Int.tmod_nonneg _ h
  · intro h
    have h0 : 0 ≤ Int.tmod (-s) n := Int.tmod_nonneg _ (by omega)
    rw [Int.neg_tmod] at h0; omega

/-- a truncated quotient stays between integer bounds of the exact quotient -/
theorem tdiv_bounds (s lo hi : Int) (n : Nat) (hn : 0 < n) (h1 : n * lo ≤ s) (h2 : s ≤ n * hi) :
    lo ≤ Int.tdiv s n ∧ Int.tdiv s n ≤ hi := by
  obtain ⟨hs, hr1, hr2, _, _⟩ := tdiv_spec s n hn
  have hn' : (0 : Int) ≤ n := by omega
  constructor
  · by_contra hc
    have hq : Int.tdiv s n + 1 ≤ lo := by omega
    have := Int.mul_le_mul_of_nonneg_left hq hn'
    rw [Int.mul_add] at this
    omega
  · by_contra hc
    have hq : hi + 1 ≤ Int.tdiv s n := by omega
    have := Int.mul_le_mul_of_nonneg_left hq hn'
    rw [Int.mul_add] at this
    omega

theorem sum_bounds (v : List Int) (lo hi : Int) (h : ∀ x ∈ v, lo ≤ x ∧ x ≤ hi) :
    (v.length : Int) * lo ≤ v.sum ∧ v.sum ≤ (v.length : Int) * hi := by
  induction v with
  | nil => simp
  | cons a as ih =>
    have ha := h a (by simp)
    have ih' := ih (fun x hx => h x (by simp [hx]))
    simp only [List.length_cons, List.sum_cons]
    have e1 : ((as.length + 1 : Nat) : Int) * lo = (as.length : Int) * lo + lo := by
      rw [Int.natCast_add, Int.add_mul]; simp
    have e2 : ((as.length + 1 : Nat) : Int) * hi = (as.length : Int) * hi + hi := by
      rw [Int.natCast_add, Int.add_mul]; simp
    rw [e1, e2]; omega

theorem natSqrt?_spec (n r : Nat) (h : natSqrt? n = some r) : r * r = n := by
  unfold natSqrt? at h
  simp only at h
  split at h
  · next hh => cases h; exact hh
  · cases h

end int

/-! ## 7b. geometry formulas -/

section geom
variable {R : Type} [CommRing R]

/-- `from + vector(e) = to` -/
theorem add_edgeVector (a b : List R) (h : a.length = b.length) : add a (edgeVector a b) = b := by
  unfold add edgeVector sub
  induction a generalizing b with
  | nil => cases b <;> simp_all
  | cons x xs ih =>
    cases b with
    | nil => simp at h
    | cons y ys =>
      simp only [List.length_cons, Nat.add_right_cancel_iff] at h
      simp [ih ys h]

/-- twice the edge barycenter is the sum of the end points (`half` is 0.5: `half * 2 = 1`) -/
theorem baryEdge_double (half : R) (hh : half * 2 = 1) (a b : List R) :
    smul (baryEdge half a b) 2 = add a b := by
  simp only [smul, baryEdge, add]
  induction a generalizing b with
  | nil => simp
  | cons x xs ih =>
    cases b with
    | nil => simp
    | cons y ys =>
      simp only [List.map_cons, List.zipWith_cons_cons, List.cons.injEq]
      refine ⟨?_, ih ys⟩
      have : (x * half + y * half) * 2 = (x + y) * (half * 2) := by ring
      rw [this, hh, mul_one]

/-- the accumulated sum `p += vertex` over a list of points, component `i` -/
theorem foldl_add_getElem? (n : Nat) (ps : List (List R)) (init : List R) (hi : init.length = n)
    (hp : ∀ p ∈ ps, p.length = n) (i : Nat) (hlt : i < n) :
    (ps.foldl add init)[i]? = some (init[i]?.getD 0 + (ps.map (fun p => p[i]?.getD 0)).sum) := by
  induction ps generalizing init with
  | nil =>
    have : i < init.length := hi ▸ hlt
    simp [List.getElem?_eq_getElem this]
  | cons p ps ih =>
    have hpl : p.length = n := hp p (by simp)
    have hlen : (add init p).length = n := by simp [add, hi, hpl]
    rw [List.foldl_cons, ih (add init p) hlen (fun q hq => hp q (by simp [hq]))]
    have h1 : i < init.length := hi ▸ hlt
    have h2 : i < p.length := hpl ▸ hlt
    simp [add, List.getElem?_zipWith, List.getElem?_eq_getElem h1, List.getElem?_eq_getElem h2, add_assoc]

theorem cycle_shape {β : Type} (cyc : List β) (h : 3 ≤ cyc.length) :
    ∃ v0 mid l2 l1, cyc = v0 :: (mid ++ [l2, l1]) := by
  match cyc, h with
  | v0 :: rest, h =>
    have hr : 2 ≤ rest.length := by simp at h; omega
    refine ⟨v0, rest.take (rest.length - 2), rest[rest.length - 2]'(by omega),
      rest[rest.length - 1]'(by omega), ?_⟩
    congr 1
    apply List.ext_getElem
    · simp; omega
    · intro i h1 h2
      by_cases hi : i < rest.length - 2
      · simp [List.getElem_append_left, hi]
      · have hl : (rest.take (rest.length - 2)).length = rest.length - 2 := by simp
        rw [List.getElem_append_right (by omega)]
        have : i - (rest.take (rest.length - 2)).length = 0 ∨ i - (rest.take (rest.length - 2)).length = 1 := by
          simp at h2; omega
        rcases this with e | e
        · simp only [e, List.getElem_cons_zero]; congr 1; omega
        · simp only [e, List.getElem_cons_succ, List.getElem_cons_zero]; congr 1; omega

end geom

end OVM.Vec

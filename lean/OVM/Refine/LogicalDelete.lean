import OVM.Refine.LogicalSteps
/-
  C02 — the deletion cores and closure loops of all three deletion styles as logical-mesh relations
  (`LogMinus`, OVM/Refine/Logical.lean):
    deferred            every core flags one slot, ρ = id                       (`def*`, `defFold*`)
    immediate, shifting every core erases one slot, ρ = `corr1 h`               (`shift*`, `fold*_logS`)
    immediate, fast     every core exchanges with the last slot and pops it,
                        ρ = `relabelId h last`                                   (`fast*`, `fold*_logF`)
  and, on top, the four closure deletions `delete_cell/face/edge/vertex` in every mode (`delete*_def/_shift/_fast`,
  `delete*_logical`): what is removed is EXACTLY the upward closure of the argument, computed from the definitions of
  the live entities alone (`cloC/cloF/cloE/cloV`, the Prop form of `Judge.Named.closure*`).
  The stage facts come from K2 (deferred), K4 (`Shift.*`, index shifting), K3 (`ImmInv`, swap-with-last) and G1
  (`Global.dOf_*`: every immediate core as an explicit function of the cache-free part of the state).
-/
namespace OVM
namespace Kernel
namespace Logical
open ScanDel Global


theorem relabelId_self (a : Nat) : relabelId a a = id := by
  funext x; unfold relabelId; by_cases h : x = a <;> simp [h]

/-! ### deferred mode: every core flags one slot -/
theorem defC {k : Kernel} {h : Nat} (hd : k.deferred = true) (hh : h < k.cDel.length) :
    LogMinus k (k.deleteCellCore h) Ren.id ⟨none, none, none, (· = h)⟩ := by
  rw [deleteCellCore_deferred_eq h hd]
  exact of_flagC hh (by simp) (by simp) (by simp) (by simp) (by simp) (by simp) (by simp) (by simp [flagCell]) (by simp)

theorem defF {k : Kernel} {h : Nat} (hd : k.deferred = true) (hh : h < k.fDel.length) :
    LogMinus k (k.deleteFaceCore h) Ren.id ⟨none, none, (· = h), none⟩ := by
  rw [deleteFaceCore_deferred_eq h hd]
  exact of_flagF hh (by simp) (by simp) (by simp) (by simp) (by simp) (by simp) (by simp [flagFace]) (by simp) (by simp)

theorem defE {k : Kernel} {h : Nat} (hd : k.deferred = true) (hh : h < k.eDel.length) :
    LogMinus k (k.deleteEdgeCore h) Ren.id ⟨none, (· = h), none, none⟩ := by
  rw [deleteEdgeCore_deferred_eq h hd]
  exact of_flagE hh (by simp) (by simp) (by simp) (by simp) (by simp) (by simp [flagEdge]) (by simp) (by simp) (by simp)

theorem defV {k : Kernel} {h : Nat} (hd : k.deferred = true) (hh : h < k.vDel.length) :
    LogMinus k (k.deleteVertexCore h) Ren.id ⟨(· = h), none, none, none⟩ := by
  rw [deleteVertexCore_deferred_eq h hd]
  exact of_flagV hh (by simp) (by simp) (by simp) (by simp) (by simp [flagVertex]) (by simp) (by simp) (by simp) (by simp)

theorem Ren.id_comp_id : Ren.id.comp Ren.id = Ren.id := rfl

theorem deleteCellCore_def_len {k : Kernel} (h : Nat) (hd : k.deferred = true) :
    (k.deleteCellCore h).cDel.length = k.cDel.length ∧ (k.deleteCellCore h).fDel = k.fDel ∧
    (k.deleteCellCore h).eDel = k.eDel ∧ (k.deleteCellCore h).vDel = k.vDel := by
  rw [deleteCellCore_deferred_eq h hd]; simp [flagCell]
theorem deleteFaceCore_def_len {k : Kernel} (h : Nat) (hd : k.deferred = true) :
    (k.deleteFaceCore h).fDel.length = k.fDel.length ∧ (k.deleteFaceCore h).eDel = k.eDel ∧
    (k.deleteFaceCore h).vDel = k.vDel := by
  rw [deleteFaceCore_deferred_eq h hd]; simp [flagFace]
theorem deleteEdgeCore_def_len {k : Kernel} (h : Nat) (hd : k.deferred = true) :
    (k.deleteEdgeCore h).eDel.length = k.eDel.length ∧ (k.deleteEdgeCore h).vDel = k.vDel := by
  rw [deleteEdgeCore_deferred_eq h hd]; simp [flagEdge]

theorem defFoldC (L : List Nat) : ∀ k : Kernel, k.deferred = true → (∀ x ∈ L, x < k.cDel.length) →
    LogMinus k (L.foldl deleteCellCore k) Ren.id ⟨none, none, none, (· ∈ L)⟩ := by
  induction L with
  | nil =>
    intro k _ _
    exact (LogIso.refl k).congrS (fun _ _ _ => Iff.rfl) (fun _ _ _ => Iff.rfl) (fun _ _ _ => Iff.rfl)
      (fun _ _ _ => by simp [Rem.none, none])
  | cons x t ih =>
    intro k hd hlt
    have s1 := defC hd (hlt x (by simp))
    have hd1 : (k.deleteCellCore x).deferred = true := by rw [deleteCellCore_deferred]; exact hd
    have s2 := ih _ hd1 (fun y hy => by rw [(deleteCellCore_def_len x hd).1]; exact hlt y (by simp [hy]))
    have s := s1.comp s2
    rw [Ren.id_comp_id] at s
    exact s.congrS (fun _ _ _ => by simp [Rem.comp, compS, none]) (fun _ _ _ => by simp [Rem.comp, compS, none])
      (fun _ _ _ => by simp [Rem.comp, compS, none]) (fun _ _ _ => by simp [Rem.comp, compS, Ren.id])

theorem defFoldF (L : List Nat) : ∀ k : Kernel, k.deferred = true → (∀ x ∈ L, x < k.fDel.length) →
    LogMinus k (L.foldl deleteFaceCore k) Ren.id ⟨none, none, (· ∈ L), none⟩ := by
  induction L with
  | nil =>
    intro k _ _
    exact (LogIso.refl k).congrS (fun _ _ _ => Iff.rfl) (fun _ _ _ => Iff.rfl)
      (fun _ _ _ => by simp [Rem.none, none]) (fun _ _ _ => Iff.rfl)
  | cons x t ih =>
    intro k hd hlt
    have s1 := defF hd (hlt x (by simp))
    have hd1 : (k.deleteFaceCore x).deferred = true := by rw [deleteFaceCore_deferred]; exact hd
    have s2 := ih _ hd1 (fun y hy => by rw [(deleteFaceCore_def_len x hd).1]; exact hlt y (by simp [hy]))
    have s := s1.comp s2
    rw [Ren.id_comp_id] at s
    exact s.congrS (fun _ _ _ => by simp [Rem.comp, compS, none]) (fun _ _ _ => by simp [Rem.comp, compS, none])
      (fun _ _ _ => by simp [Rem.comp, compS, Ren.id]) (fun _ _ _ => by simp [Rem.comp, compS, none])

theorem defFoldE (L : List Nat) : ∀ k : Kernel, k.deferred = true → (∀ x ∈ L, x < k.eDel.length) →
    LogMinus k (L.foldl deleteEdgeCore k) Ren.id ⟨none, (· ∈ L), none, none⟩ := by
  induction L with
  | nil =>
    intro k _ _
    exact (LogIso.refl k).congrS (fun _ _ _ => Iff.rfl) (fun _ _ _ => by simp [Rem.none, none])
      (fun _ _ _ => Iff.rfl) (fun _ _ _ => Iff.rfl)
  | cons x t ih =>
    intro k hd hlt
    have s1 := defE hd (hlt x (by simp))
    have hd1 : (k.deleteEdgeCore x).deferred = true := by rw [deleteEdgeCore_deferred]; exact hd
    have s2 := ih _ hd1 (fun y hy => by rw [(deleteEdgeCore_def_len x hd).1]; exact hlt y (by simp [hy]))
    have s := s1.comp s2
    rw [Ren.id_comp_id] at s
    exact s.congrS (fun _ _ _ => by simp [Rem.comp, compS, none]) (fun _ _ _ => by simp [Rem.comp, compS, Ren.id])
      (fun _ _ _ => by simp [Rem.comp, compS, none]) (fun _ _ _ => by simp [Rem.comp, compS, none])

theorem LogMinus.cast {k k' : Kernel} {ρ ρ' : Ren} {S : Rem} (h : LogMinus k k' ρ S) (e : ρ = ρ') : LogMinus k k' ρ' S :=
  e ▸ h

/-! ### the stages as `Global.Erase*` relations, read off K4/G1's `dOf` equations -/

theorem eraseC_of_dOf {k k' : Kernel} {h : Nat} (e : dOf k' = (dOf k).delCellS h) : EraseC k k' h :=
  ⟨congrArg D.nV e, congrArg D.edges e, congrArg D.faces e, congrArg D.cells e, congrArg D.vDel e, congrArg D.eDel e,
   congrArg D.fDel e, congrArg D.cDel e, congrArg D.nDelV e, congrArg D.nDelE e, congrArg D.nDelF e, congrArg D.nDelC e,
   congrArg D.deferred e, congrArg D.fast e, congrArg D.props e⟩

theorem eraseF_of_dOf {k k' : Kernel} {h : Nat} (e : dOf k' = (dOf k).delFaceS h) :
    EraseF k k' h (·.map (corr2 (2 * h + 1))) := by
  have ec : k'.cells = k.cells.map (·.map (corr2 (2 * h + 1))) := congrArg D.cells e
  exact ⟨congrArg D.nV e, congrArg D.edges e, congrArg D.faces e, by rw [ec, List.length_map],
   fun c _ => by unfold cellAt; rw [ec, k3_getD_map _ _ _ rfl],
   congrArg D.vDel e, congrArg D.eDel e,
   congrArg D.fDel e, congrArg D.cDel e, congrArg D.nDelV e, congrArg D.nDelE e, congrArg D.nDelF e, congrArg D.nDelC e,
   congrArg D.deferred e, congrArg D.fast e, congrArg D.props e⟩

theorem eraseE_of_dOf {k k' : Kernel} {h : Nat} (e : dOf k' = (dOf k).delEdgeS h) :
    EraseE k k' h (·.map (corr2 (2 * h + 1))) := by
  have ec : k'.faces = k.faces.map (·.map (corr2 (2 * h + 1))) := congrArg D.faces e
  exact ⟨congrArg D.nV e, congrArg D.edges e, by rw [ec, List.length_map],
   fun c _ => by unfold faceAt; rw [ec, k3_getD_map _ _ _ rfl], congrArg D.cells e,
   congrArg D.vDel e, congrArg D.eDel e,
   congrArg D.fDel e, congrArg D.cDel e, congrArg D.nDelV e, congrArg D.nDelE e, congrArg D.nDelF e, congrArg D.nDelC e,
   congrArg D.deferred e, congrArg D.fast e, congrArg D.props e⟩

theorem eraseV_of_dOf {k k' : Kernel} {h : Nat} (e : dOf k' = (dOf k).delVertS h) :
    EraseV k k' h (fun p => (corr1 h p.1, corr1 h p.2)) := by
  have ec : k'.edges = k.edges.map (fun p => (corr1 h p.1, corr1 h p.2)) := congrArg D.edges e
  refine ⟨congrArg D.nV e, by rw [ec, List.length_map], ?_, congrArg D.faces e, congrArg D.cells e,
   congrArg D.vDel e, congrArg D.eDel e,
   congrArg D.fDel e, congrArg D.cDel e, congrArg D.nDelV e, congrArg D.nDelE e, congrArg D.nDelF e, congrArg D.nDelC e,
   congrArg D.deferred e, congrArg D.fast e, congrArg D.props e⟩
  intro x hx
  have hlt : x < k.edges.length := by unfold liveE Kernel.nE at hx; simp at hx; exact hx.1
  unfold edgeAt
  rw [ec]
  simp [List.getD_eq_getElem?_getD, List.getElem?_eq_getElem hlt]

/-! ### immediate index-shifting mode: one core -/

theorem shiftC {k : Kernel} {h : Nat} (hi : Shift.ImmInv k) (hh : h < k.nC) :
    LogMinus k (k.deleteCellCore h) ⟨id, id, id, corr1 h⟩ ⟨none, none, none, (· = h)⟩ :=
  of_eraseC (eraseC_of_dOf (dOf_cellCoreS hi h)) hh (fun _ _ _ => rfl)

theorem shiftF {k : Kernel} {h : Nat} (hi : Shift.ImmInv k) (hh : h < k.nF)
    (hun : ∀ c ∈ k.cells, ∀ a ∈ c, eOf a ≠ h) :
    LogMinus k (k.deleteFaceCore h) ⟨id, id, corr1 h, id⟩ ⟨none, none, (· = h), none⟩ :=
  of_eraseF (eraseF_of_dOf (dOf_faceCoreS hi hh hun)) hh (fun _ _ _ => rfl)
    (fun c _ => List.map_congr_left (fun a ha => (half_corr1 h a (cellAt_unref hun c a ha)).symm))

theorem shiftE {k : Kernel} {h : Nat} (hi : Shift.ImmInv k) (hh : h < k.nE)
    (hun : ∀ c ∈ k.faces, ∀ a ∈ c, eOf a ≠ h) :
    LogMinus k (k.deleteEdgeCore h) ⟨id, corr1 h, id, id⟩ ⟨none, (· = h), none, none⟩ :=
  of_eraseE (eraseE_of_dOf (dOf_edgeCoreS hi hh hun)) hh (fun _ _ _ => rfl)
    (fun c _ => List.map_congr_left (fun a ha => (half_corr1 h a (faceAt_unref hun c a ha)).symm))

theorem shiftV {k : Kernel} {h : Nat} (hi : Shift.ImmInv k) (hh : h < k.nV)
    (hun : ∀ e ∈ k.edges, e.1 ≠ h ∧ e.2 ≠ h) :
    LogMinus k (k.deleteVertexCore h) ⟨corr1 h, id, id, id⟩ ⟨(· = h), none, none, none⟩ :=
  of_eraseV (eraseV_of_dOf (dOf_vertexCoreS hi hh hun)) hh (fun _ _ _ => rfl) (fun _ _ => rfl)

theorem shift_step_S {x : Nat} {t : List Nat} (ht : ∀ y ∈ t, y < x) (z : Nat) :
    (z = x ∨ corr1 x z ∈ t) ↔ z ∈ x :: t := by
  simp only [List.mem_cons]
  constructor
  · rintro (h | h)
    · exact Or.inl h
    · right
      have hlt := ht _ h
      have : corr1 x z = z := by
        unfold corr1 at hlt ⊢
        by_cases hz : z > x
        · simp only [hz, if_true] at hlt; omega
        · simp [hz]
      rw [this] at h; exact h
  · rintro (h | h)
    · exact Or.inl h
    · right
      have hlt := ht _ h
      have : corr1 x z = z := by unfold corr1; simp; omega
      rw [this]; exact h

/-! ### immediate index-shifting mode: the closure loops -/

theorem corr1_mono (h : Nat) {x y : Nat} (hxy : x ≤ y) : corr1 h x ≤ corr1 h y := by
  unfold corr1; split <;> split <;> omega

theorem foldCells_logS (L : List Nat) (hd : Shift.Desc L) : ∀ k : Kernel, Shift.ImmInv k → (∀ x ∈ L, x < k.nC) →
    ∃ ρ, (∀ x y, x ≤ y → ρ x ≤ ρ y) ∧ LogMinus k (L.foldl deleteCellCore k) ⟨id, id, id, ρ⟩ ⟨none, none, none, (· ∈ L)⟩ := by
  induction L with
  | nil =>
    intro k _ _
    exact ⟨id, fun _ _ h => h, (LogIso.refl k).congrS (fun _ _ _ => Iff.rfl) (fun _ _ _ => Iff.rfl) (fun _ _ _ => Iff.rfl)
      (fun _ _ _ => by simp [Rem.none, none])⟩
  | cons x t ih =>
    intro k hi hlt
    have hx : x < k.nC := hlt x (by simp)
    have htx : ∀ y ∈ t, y < x := fun y hy => List.rel_of_pairwise_cons hd hy
    obtain ⟨ρ, hm, s2⟩ := ih (List.Pairwise.of_cons hd) _ (Shift.immInv_deleteCellCore hi hx)
      (fun y hy => by rw [Shift.imm_cellCore_nC hi hx]; have := htx y hy; omega)
    refine ⟨ρ ∘ corr1 x, fun a b hab => hm _ _ (corr1_mono x hab), ?_⟩
    exact (((shiftC hi hx).comp s2).cast rfl).congrS (fun _ _ _ => by simp [Rem.comp, compS, none])
      (fun _ _ _ => by simp [Rem.comp, compS, none]) (fun _ _ _ => by simp [Rem.comp, compS, none])
      (fun z _ _ => shift_step_S htx z)

theorem foldFaces_logS (L : List Nat) (hd : Shift.Desc L) : ∀ k : Kernel, Shift.ImmInv k → (∀ x ∈ L, x < k.nF) →
    (∀ c ∈ k.cells, ∀ a ∈ c, eOf a ∉ L) →
    ∃ ρ, (∀ x y, x ≤ y → ρ x ≤ ρ y) ∧ LogMinus k (L.foldl deleteFaceCore k) ⟨id, id, ρ, id⟩ ⟨none, none, (· ∈ L), none⟩ := by
  induction L with
  | nil =>
    intro k _ _ _
    exact ⟨id, fun _ _ h => h, (LogIso.refl k).congrS (fun _ _ _ => Iff.rfl) (fun _ _ _ => Iff.rfl)
      (fun _ _ _ => by simp [Rem.none, none]) (fun _ _ _ => Iff.rfl)⟩
  | cons x t ih =>
    intro k hi hlt hun
    have hx : x < k.nF := hlt x (by simp)
    have htx : ∀ y ∈ t, y < x := fun y hy => List.rel_of_pairwise_cons hd hy
    have hunx : ∀ c ∈ k.cells, ∀ a ∈ c, eOf a ≠ x := fun c hc a ha e => hun c hc a ha (by rw [e]; simp)
    obtain ⟨hi1, hcells, hfaces, _, _⟩ := Shift.imm_faceCore hi hx hunx
    have hn1 : (k.deleteFaceCore x).nF = k.nF - 1 := by
      unfold Kernel.nF at *; rw [hfaces, List.length_eraseIdx, if_pos hx]
    obtain ⟨ρ, hm, s2⟩ := ih (List.Pairwise.of_cons hd) _ hi1 (fun y hy => by rw [hn1]; have := htx y hy; omega)
      (by
        intro c1 hc1 a1 ha1
        rw [hcells] at hc1
        obtain ⟨c0, hc0, rfl⟩ := List.mem_map.mp hc1
        obtain ⟨a0, ha0, rfl⟩ := List.mem_map.mp ha1
        rw [eOf_corr2 x a0 (hunx c0 hc0 a0 ha0)]
        exact Shift.k4c_corr1_not_mem htx (fun hm => hun c0 hc0 a0 ha0 (List.mem_cons_of_mem _ hm)))
    refine ⟨ρ ∘ corr1 x, fun a b hab => hm _ _ (corr1_mono x hab), ?_⟩
    exact (((shiftF hi hx hunx).comp s2).cast rfl).congrS (fun _ _ _ => by simp [Rem.comp, compS, none])
      (fun _ _ _ => by simp [Rem.comp, compS, none]) (fun z _ _ => shift_step_S htx z)
      (fun _ _ _ => by simp [Rem.comp, compS, none])

theorem foldEdges_logS (L : List Nat) (hd : Shift.Desc L) : ∀ k : Kernel, Shift.ImmInv k → (∀ x ∈ L, x < k.nE) →
    (∀ c ∈ k.faces, ∀ a ∈ c, eOf a ∉ L) →
    ∃ ρ, (∀ x y, x ≤ y → ρ x ≤ ρ y) ∧ LogMinus k (L.foldl deleteEdgeCore k) ⟨id, ρ, id, id⟩ ⟨none, (· ∈ L), none, none⟩ := by
  induction L with
  | nil =>
    intro k _ _ _
    exact ⟨id, fun _ _ h => h, (LogIso.refl k).congrS (fun _ _ _ => Iff.rfl) (fun _ _ _ => by simp [Rem.none, none])
      (fun _ _ _ => Iff.rfl) (fun _ _ _ => Iff.rfl)⟩
  | cons x t ih =>
    intro k hi hlt hun
    have hx : x < k.nE := hlt x (by simp)
    have htx : ∀ y ∈ t, y < x := fun y hy => List.rel_of_pairwise_cons hd hy
    have hunx : ∀ c ∈ k.faces, ∀ a ∈ c, eOf a ≠ x := fun c hc a ha e => hun c hc a ha (by rw [e]; simp)
    obtain ⟨hi1, hfaces, hedges, _⟩ := Shift.imm_edgeCore hi hx hunx
    have hn1 : (k.deleteEdgeCore x).nE = k.nE - 1 := by
      unfold Kernel.nE at *; rw [hedges, List.length_eraseIdx, if_pos hx]
    obtain ⟨ρ, hm, s2⟩ := ih (List.Pairwise.of_cons hd) _ hi1 (fun y hy => by rw [hn1]; have := htx y hy; omega)
      (by
        intro c1 hc1 a1 ha1
        rw [hfaces] at hc1
        obtain ⟨c0, hc0, rfl⟩ := List.mem_map.mp hc1
        obtain ⟨a0, ha0, rfl⟩ := List.mem_map.mp ha1
        rw [eOf_corr2 x a0 (hunx c0 hc0 a0 ha0)]
        exact Shift.k4c_corr1_not_mem htx (fun hm => hun c0 hc0 a0 ha0 (List.mem_cons_of_mem _ hm)))
    refine ⟨ρ ∘ corr1 x, fun a b hab => hm _ _ (corr1_mono x hab), ?_⟩
    exact (((shiftE hi hx hunx).comp s2).cast rfl).congrS (fun _ _ _ => by simp [Rem.comp, compS, none])
      (fun z _ _ => shift_step_S htx z) (fun _ _ _ => by simp [Rem.comp, compS, none])
      (fun _ _ _ => by simp [Rem.comp, compS, none])



/-! ### swaps, including the trivial one -/
theorem swapC' {k : Kernel} {a b : Nat} (ha : a < k.nC) (hb : b < k.nC) (hw : WF k) :
    LogIso k (k.swapCell a b) ⟨id, id, id, relabelId a b⟩ := by
  by_cases hab : a = b
  · subst hab; rw [swapCell_self, relabelId_self]; exact LogIso.refl k
  · exact of_swapC ha hb hab hw
theorem swapF' {k : Kernel} {a b : Nat} (ha : a < k.nF) (hb : b < k.nF) (hw : WF k) (h1 : k.oneCell = true) :
    LogIso k (k.swapFace a b) ⟨id, id, relabelId a b, id⟩ := by
  by_cases hab : a = b
  · subst hab; rw [swapFace_self, relabelId_self]; exact LogIso.refl k
  · exact of_swapF ha hb hab hw h1
theorem swapE' {k : Kernel} {a b : Nat} (ha : a < k.nE) (hb : b < k.nE) (hw : WF k) :
    LogIso k (k.swapEdge a b) ⟨id, relabelId a b, id, id⟩ := by
  by_cases hab : a = b
  · subst hab; rw [swapEdge_self, relabelId_self]; exact LogIso.refl k
  · exact of_swapE ha hb hab hw
theorem swapV' {k : Kernel} {a b : Nat} (ha : a < k.nV) (hb : b < k.nV) (hw : WF k) :
    LogIso k (k.swapVertex a b) ⟨relabelId a b, id, id, id⟩ := by
  by_cases hab : a = b
  · subst hab; rw [swapVertex_self, relabelId_self]; exact LogIso.refl k
  · exact of_swapV ha hb hab hw

/-! ### popping the last slot -/
theorem eraseC_of_pop {k k' : Kernel} {l : Nat} (e : dOf k' = (dOf k).popCell l) : EraseC k k' l :=
  ⟨congrArg D.nV e, congrArg D.edges e, congrArg D.faces e, congrArg D.cells e, congrArg D.vDel e, congrArg D.eDel e,
   congrArg D.fDel e, congrArg D.cDel e, congrArg D.nDelV e, congrArg D.nDelE e, congrArg D.nDelF e, congrArg D.nDelC e,
   congrArg D.deferred e, congrArg D.fast e, congrArg D.props e⟩
theorem eraseF_of_pop {k k' : Kernel} {l : Nat} (e : dOf k' = (dOf k).popFace l) : EraseF k k' l id := by
  have ec : k'.cells = k.cells := congrArg D.cells e
  exact ⟨congrArg D.nV e, congrArg D.edges e, congrArg D.faces e, by rw [ec],
   fun c _ => by unfold cellAt; rw [ec]; rfl,
   congrArg D.vDel e, congrArg D.eDel e,
   congrArg D.fDel e, congrArg D.cDel e, congrArg D.nDelV e, congrArg D.nDelE e, congrArg D.nDelF e, congrArg D.nDelC e,
   congrArg D.deferred e, congrArg D.fast e, congrArg D.props e⟩
theorem eraseE_of_pop {k k' : Kernel} {l : Nat} (e : dOf k' = (dOf k).popEdge l) : EraseE k k' l id := by
  have ec : k'.faces = k.faces := congrArg D.faces e
  exact ⟨congrArg D.nV e, congrArg D.edges e, by rw [ec],
   fun c _ => by unfold faceAt; rw [ec]; rfl, congrArg D.cells e,
   congrArg D.vDel e, congrArg D.eDel e,
   congrArg D.fDel e, congrArg D.cDel e, congrArg D.nDelV e, congrArg D.nDelE e, congrArg D.nDelF e, congrArg D.nDelC e,
   congrArg D.deferred e, congrArg D.fast e, congrArg D.props e⟩
theorem eraseV_of_pop {k k' : Kernel} {l : Nat} (e : dOf k' = (dOf k).popVert l) : EraseV k k' l id := by
  have ec : k'.edges = k.edges := congrArg D.edges e
  exact ⟨congrArg D.nV e, by rw [ec], fun c _ => by unfold edgeAt; rw [ec]; rfl, congrArg D.faces e, congrArg D.cells e,
   congrArg D.vDel e, congrArg D.eDel e,
   congrArg D.fDel e, congrArg D.cDel e, congrArg D.nDelV e, congrArg D.nDelE e, congrArg D.nDelF e, congrArg D.nDelC e,
   congrArg D.deferred e, congrArg D.fast e, congrArg D.props e⟩

theorem pop_rho (n : Nat) : ∀ x, x < n → x ≠ n - 1 → id x = corr1 (n - 1) x := by
  intro x h1 h2; unfold corr1; have : ¬ x > n - 1 := by omega
  simp [this]

/-- what "swap with the last, pop" removes: exactly the victim -/
theorem fast_S {h n : Nat} (hh : h < n) (z : Nat) (hz : z < n) :
    (none z ∨ relabelId h (n - 1) z = n - 1) ↔ z = h := by
  unfold none relabelId
  by_cases h1 : z = h
  · simp [h1]
  · by_cases h2 : z = n - 1
    · have : ¬ h = n - 1 := fun e => h1 (h2.trans e.symm)
      simp [h1, h2, this]
    · simp [h1, h2]

/-! ### immediate swap-with-last mode: one core -/
theorem fastC {k : Kernel} {h : Nat} (hi : ImmInv k) (hh : h < k.nC) :
    LogMinus k (k.deleteCellCore h) ⟨id, id, id, relabelId h (k.nC - 1)⟩ ⟨none, none, none, (· = h)⟩ := by
  have hl : k.nC - 1 < k.nC := by omega
  have s1 := swapC' hh hl hi.wf
  have e : dOf (k.deleteCellCore h) = (dOf (k.swapCell h (k.nC - 1))).popCell (k.nC - 1) := by
    rw [dOf_cellCoreF hi h, dOf_swapCell]; rfl
  have hlen : (k.swapCell h (k.nC - 1)).cells.length = k.nC := by rw [swapCell_cells_eq, length_swapAt]; rfl
  have s2 := of_eraseC (ρc := id) (eraseC_of_pop e) (by rw [hlen]; exact hl)
    (by rw [hlen]; exact pop_rho k.nC)
  exact ((s1.comp s2).cast rfl).congrS (fun _ _ _ => by simp [Rem.comp, compS, none, Rem.none])
    (fun _ _ _ => by simp [Rem.comp, compS, none, Rem.none]) (fun _ _ _ => by simp [Rem.comp, compS, none, Rem.none])
    (fun z hz _ => fast_S hh z hz)

theorem fastF {k : Kernel} {h : Nat} (hi : ImmInv k) (hh : h < k.nF) :
    LogMinus k (k.deleteFaceCore h) ⟨id, id, relabelId h (k.nF - 1), id⟩ ⟨none, none, (· = h), none⟩ := by
  have hl : k.nF - 1 < k.nF := by omega
  have s1 := swapF' hh hl hi.wf hi.one
  have e : dOf (k.deleteFaceCore h) = (dOf (k.swapFace h (k.nF - 1))).popFace (k.nF - 1) := by
    rw [dOf_faceCoreF hi hh, dOf_swapFace hi hh hl]; rfl
  have hlen : (k.swapFace h (k.nF - 1)).faces.length = k.nF := swapFace_faces_length k h (k.nF - 1)
  have s2 := of_eraseF (ρf := id) (eraseF_of_pop e) (by rw [hlen]; exact hl)
    (by rw [hlen]; exact pop_rho k.nF) (fun c _ => by rw [half_id]; simp)
  exact ((s1.comp s2).cast rfl).congrS (fun _ _ _ => by simp [Rem.comp, compS, none, Rem.none])
    (fun _ _ _ => by simp [Rem.comp, compS, none, Rem.none]) (fun z hz _ => fast_S hh z hz)
    (fun _ _ _ => by simp [Rem.comp, compS, none, Rem.none])

theorem fastE {k : Kernel} {h : Nat} (hi : ImmInv k) (hh : h < k.nE) :
    LogMinus k (k.deleteEdgeCore h) ⟨id, relabelId h (k.nE - 1), id, id⟩ ⟨none, (· = h), none, none⟩ := by
  have hl : k.nE - 1 < k.nE := by omega
  have s1 := swapE' hh hl hi.wf
  have e : dOf (k.deleteEdgeCore h) = (dOf (k.swapEdge h (k.nE - 1))).popEdge (k.nE - 1) := by
    rw [dOf_edgeCoreF hi hh, dOf_swapEdge hi hh hl]; rfl
  have hlen : (k.swapEdge h (k.nE - 1)).edges.length = k.nE := swapEdge_edges_length k h (k.nE - 1)
  have s2 := of_eraseE (ρe := id) (eraseE_of_pop e) (by rw [hlen]; exact hl)
    (by rw [hlen]; exact pop_rho k.nE) (fun c _ => by rw [half_id]; simp)
  exact ((s1.comp s2).cast rfl).congrS (fun _ _ _ => by simp [Rem.comp, compS, none, Rem.none])
    (fun z hz _ => fast_S hh z hz) (fun _ _ _ => by simp [Rem.comp, compS, none, Rem.none])
    (fun _ _ _ => by simp [Rem.comp, compS, none, Rem.none])

theorem fastV {k : Kernel} {h : Nat} (hi : ImmInv k) (hh : h < k.nV) (hno : ∀ e ∈ k.edges, e.1 ≠ h ∧ e.2 ≠ h) :
    LogMinus k (k.deleteVertexCore h) ⟨relabelId h (k.nV - 1), id, id, id⟩ ⟨(· = h), none, none, none⟩ := by
  have hl : k.nV - 1 < k.nV := by omega
  have s1 := swapV' hh hl hi.wf
  have e : dOf (k.deleteVertexCore h) = (dOf (k.swapVertex h (k.nV - 1))).popVert (k.nV - 1) := by
    rw [dOf_vertexCoreF hi hh hno, dOf_swapVertex hi hh hl]; rfl
  have hlen : (k.swapVertex h (k.nV - 1)).nV = k.nV := swapVertex_nV k h (k.nV - 1)
  have s2 := of_eraseV (ρv := id) (eraseV_of_pop e) (by rw [hlen]; exact hl)
    (by rw [hlen]; exact pop_rho k.nV) (fun c _ => rfl)
  exact ((s1.comp s2).cast rfl).congrS (fun z hz _ => fast_S hh z hz)
    (fun _ _ _ => by simp [Rem.comp, compS, none, Rem.none]) (fun _ _ _ => by simp [Rem.comp, compS, none, Rem.none])
    (fun _ _ _ => by simp [Rem.comp, compS, none, Rem.none])


theorem fast_step_S {x n : Nat} {t : List Nat} (hx : x < n) (ht : ∀ y ∈ t, x > y) (z : Nat) (hz : z < n) :
    (z = x ∨ relabelId x (n - 1) z ∈ t) ↔ z ∈ x :: t := by
  simp only [List.mem_cons]
  by_cases h1 : z = x
  · simp [h1]
  · by_cases h2 : z = n - 1
    · have hr : relabelId x (n - 1) z = x := by unfold relabelId; simp [h1, h2]
      rw [hr]
      constructor
      · rintro (h | h)
        · exact Or.inl h
        · have := ht _ h; omega
      · rintro (h | h)
        · exact Or.inl h
        · have := ht _ h; omega
    · have hr : relabelId x (n - 1) z = z := by unfold relabelId; simp [h1, h2]
      rw [hr]

/-! ### immediate swap-with-last mode: the closure loops -/

theorem foldCells_logF : ∀ (L : List Nat) (k : Kernel), ImmInv k → L.Pairwise (· > ·) → (∀ c ∈ L, c < k.nC) →
    ∃ ρ, LogMinus k (L.foldl deleteCellCore k) ⟨id, id, id, ρ⟩ ⟨none, none, none, (· ∈ L)⟩ := by
  intro L
  induction L with
  | nil =>
    intro k _ _ _
    exact ⟨id, (LogIso.refl k).congrS (fun _ _ _ => Iff.rfl) (fun _ _ _ => Iff.rfl) (fun _ _ _ => Iff.rfl)
      (fun _ _ _ => by simp [Rem.none, none])⟩
  | cons h t ih =>
    intro k hi hp hlt
    have hh : h < k.nC := hlt h (by simp)
    obtain ⟨i1, i2, _⟩ := immInv_deleteCellCore hi hh
    obtain ⟨ρ, s2⟩ := ih _ i1 (List.pairwise_cons.mp hp).2 (by rw [i2]; exact k3_lt_of_desc hp hh)
    refine ⟨ρ ∘ relabelId h (k.nC - 1), ?_⟩
    exact (((fastC hi hh).comp s2).cast rfl).congrS (fun _ _ _ => by simp [Rem.comp, compS, none])
      (fun _ _ _ => by simp [Rem.comp, compS, none]) (fun _ _ _ => by simp [Rem.comp, compS, none])
      (fun z hz _ => fast_step_S hh (List.pairwise_cons.mp hp).1 z hz)

theorem foldFaces_logF : ∀ (L : List Nat) (k : Kernel), ImmInv k → L.Pairwise (· > ·) → (∀ f ∈ L, f < k.nF) →
    (∀ c ∈ k.cells, ∀ x ∈ c, x / 2 ∉ L) →
    ∃ ρ, LogMinus k (L.foldl deleteFaceCore k) ⟨id, id, ρ, id⟩ ⟨none, none, (· ∈ L), none⟩ := by
  intro L
  induction L with
  | nil =>
    intro k _ _ _ _
    exact ⟨id, (LogIso.refl k).congrS (fun _ _ _ => Iff.rfl) (fun _ _ _ => Iff.rfl)
      (fun _ _ _ => by simp [Rem.none, none]) (fun _ _ _ => Iff.rfl)⟩
  | cons h t ih =>
    intro k hi hp hlt hno
    have hh : h < k.nF := hlt h (by simp)
    have hc := List.pairwise_cons.mp hp
    obtain ⟨i1, i2, _, i4, _, _⟩ := immInv_deleteFaceCore hi hh (fun c hc x hx e => hno c hc x hx (by rw [e]; simp))
    obtain ⟨ρ, s2⟩ := ih _ i1 hc.2 (by rw [i2]; exact k3_lt_of_desc hp hh)
      (by
        intro c hcm x hx hxt
        obtain ⟨c0, hc0, rfl⟩ := i4 c hcm
        rw [k3_mem_map_relabelHalf] at hx
        have h1 := hno c0 hc0 _ hx
        rw [k3_relabelHalf_div] at h1
        have hg := hc.1 _ hxt
        rw [k3_relabelId_off (by omega) (by omega)] at h1
        exact h1 (List.mem_cons_of_mem _ hxt))
    refine ⟨ρ ∘ relabelId h (k.nF - 1), ?_⟩
    exact (((fastF hi hh).comp s2).cast rfl).congrS (fun _ _ _ => by simp [Rem.comp, compS, none])
      (fun _ _ _ => by simp [Rem.comp, compS, none]) (fun z hz _ => fast_step_S hh hc.1 z hz)
      (fun _ _ _ => by simp [Rem.comp, compS, none])

theorem foldEdges_logF : ∀ (L : List Nat) (k : Kernel), ImmInv k → L.Pairwise (· > ·) → (∀ e ∈ L, e < k.nE) →
    (∀ f ∈ k.faces, ∀ x ∈ f, x / 2 ∉ L) →
    ∃ ρ, LogMinus k (L.foldl deleteEdgeCore k) ⟨id, ρ, id, id⟩ ⟨none, (· ∈ L), none, none⟩ := by
  intro L
  induction L with
  | nil =>
    intro k _ _ _ _
    exact ⟨id, (LogIso.refl k).congrS (fun _ _ _ => Iff.rfl) (fun _ _ _ => by simp [Rem.none, none])
      (fun _ _ _ => Iff.rfl) (fun _ _ _ => Iff.rfl)⟩
  | cons h t ih =>
    intro k hi hp hlt hno
    have hh : h < k.nE := hlt h (by simp)
    have hc := List.pairwise_cons.mp hp
    obtain ⟨i1, i2, _, i4, _⟩ := immInv_deleteEdgeCore hi hh (fun c hc x hx e => hno c hc x hx (by rw [e]; simp))
    obtain ⟨ρ, s2⟩ := ih _ i1 hc.2 (by rw [i2]; exact k3_lt_of_desc hp hh)
      (by
        intro c hcm x hx hxt
        obtain ⟨c0, hc0, rfl⟩ := i4 c hcm
        rw [k3_mem_map_relabelHalf] at hx
        have h1 := hno c0 hc0 _ hx
        rw [k3_relabelHalf_div] at h1
        have hg := hc.1 _ hxt
        rw [k3_relabelId_off (by omega) (by omega)] at h1
        exact h1 (List.mem_cons_of_mem _ hxt))
    refine ⟨ρ ∘ relabelId h (k.nE - 1), ?_⟩
    exact (((fastE hi hh).comp s2).cast rfl).congrS (fun _ _ _ => by simp [Rem.comp, compS, none])
      (fun z hz _ => fast_step_S hh hc.1 z hz) (fun _ _ _ => by simp [Rem.comp, compS, none])
      (fun _ _ _ => by simp [Rem.comp, compS, none])

/-! ### upward closures, from the definitions of the live entities alone -/

/-- the edges with an end vertex in `V` -/
def upE (k : Kernel) (V : Nat → Prop) : Nat → Prop := fun e => V (k.edgeAt e).1 ∨ V (k.edgeAt e).2
/-- the faces with a halfedge of a live edge in `E` -/
def upF (k : Kernel) (E : Nat → Prop) : Nat → Prop := fun f => ∃ a ∈ k.faceAt f, k.liveE (a / 2) = true ∧ E (a / 2)
/-- the cells with a halfface of a live face in `F` -/
def upC (k : Kernel) (F : Nat → Prop) : Nat → Prop := fun c => ∃ a ∈ k.cellAt c, k.liveF (a / 2) = true ∧ F (a / 2)

/-- upward closure of a cell / face / edge / vertex (as sets of slots; only their live members matter) -/
def cloC (c : Nat) : Rem := ⟨none, none, none, (· = c)⟩
def cloF (k : Kernel) (f : Nat) : Rem := ⟨none, none, (· = f), upC k (· = f)⟩
def cloE (k : Kernel) (e : Nat) : Rem := ⟨none, (· = e), upF k (· = e), upC k (upF k (· = e))⟩
def cloV (k : Kernel) (v : Nat) : Rem :=
  ⟨(· = v), upE k (· = v), upF k (upE k (· = v)), upC k (upF k (upE k (· = v)))⟩

theorem liveC_iff {k : Kernel} {z : Nat} : k.liveC z = true ↔ (z < k.cells.length ∧ k.cDel.getD z false = false) := by
  unfold liveC cDeleted Kernel.nC; simp
theorem liveF_iff {k : Kernel} {z : Nat} : k.liveF z = true ↔ (z < k.faces.length ∧ k.fDel.getD z false = false) := by
  unfold liveF fDeleted Kernel.nF; simp
theorem liveE_iff {k : Kernel} {z : Nat} : k.liveE z = true ↔ (z < k.edges.length ∧ k.eDel.getD z false = false) := by
  unfold liveE eDeleted Kernel.nE; simp

/-- the three closure queries of `delete_*` (cache-guided or linear scan) return exactly the live members of the
    definitional closures (G1's `mem_incident*`) -/
theorem mem_edges_iff {k : Kernel} (hw : WF k) (v e : Nat) :
    e ∈ k.incidentEdges [v] ↔ (k.liveE e = true ∧ upE k (· = v) e) := by
  rw [mem_incidentEdges hw]; simp [upE]

theorem mem_faces_iff {k : Kernel} (hw : WF k) (es : List Nat) (E : Nat → Prop)
    (hE : ∀ x, x ∈ es ↔ (k.liveE x = true ∧ E x)) (f : Nat) :
    f ∈ k.incidentFaces es ↔ (k.liveF f = true ∧ upF k E f) := by
  rw [mem_incidentFaces hw]
  unfold upF
  constructor
  · rintro ⟨hl, a, ha, hm⟩; exact ⟨hl, a, ha, (hE _).mp hm⟩
  · rintro ⟨hl, a, ha, hm⟩; exact ⟨hl, a, ha, (hE _).mpr hm⟩

theorem mem_cells_iff {k : Kernel} (hw : WF k) (h1 : k.oneCell = true) (fs : List Nat) (F : Nat → Prop)
    (hF : ∀ x, x ∈ fs ↔ (k.liveF x = true ∧ F x)) (c : Nat) :
    c ∈ k.incidentCells fs ↔ (k.liveC c = true ∧ upC k F c) := by
  rw [mem_incidentCells hw h1]
  unfold upC
  constructor
  · rintro ⟨hl, a, ha, hm⟩; exact ⟨hl, a, ha, (hF _).mp hm⟩
  · rintro ⟨hl, a, ha, hm⟩; exact ⟨hl, a, ha, (hF _).mpr hm⟩

theorem single_iff {live : Nat → Bool} {x0 : Nat} (h0 : live x0 = true) (x : Nat) :
    x ∈ [x0] ↔ (live x = true ∧ x = x0) := by
  simp only [List.mem_singleton]
  constructor
  · intro e; exact ⟨e ▸ h0, e⟩
  · intro e; exact e.2

/-! ### deferred mode -/

theorem defFoldC_frames (L : List Nat) : ∀ k : Kernel, k.deferred = true →
    (L.foldl deleteCellCore k).deferred = true ∧ (L.foldl deleteCellCore k).fDel = k.fDel ∧
    (L.foldl deleteCellCore k).eDel = k.eDel ∧ (L.foldl deleteCellCore k).vDel = k.vDel := by
  induction L with
  | nil => intro k hd; exact ⟨hd, rfl, rfl, rfl⟩
  | cons x t ih =>
    intro k hd
    have hd1 : (k.deleteCellCore x).deferred = true := by rw [deleteCellCore_deferred]; exact hd
    obtain ⟨_, a2, a3, a4⟩ := deleteCellCore_def_len x hd
    obtain ⟨b1, b2, b3, b4⟩ := ih _ hd1
    exact ⟨b1, b2.trans a2, b3.trans a3, b4.trans a4⟩

theorem defFoldF_frames (L : List Nat) : ∀ k : Kernel, k.deferred = true →
    (L.foldl deleteFaceCore k).deferred = true ∧ (L.foldl deleteFaceCore k).eDel = k.eDel ∧
    (L.foldl deleteFaceCore k).vDel = k.vDel := by
  induction L with
  | nil => intro k hd; exact ⟨hd, rfl, rfl⟩
  | cons x t ih =>
    intro k hd
    have hd1 : (k.deleteFaceCore x).deferred = true := by rw [deleteFaceCore_deferred]; exact hd
    obtain ⟨_, a3, a4⟩ := deleteFaceCore_def_len x hd
    obtain ⟨b1, b3, b4⟩ := ih _ hd1
    exact ⟨b1, b3.trans a3, b4.trans a4⟩

theorem defFoldE_frames (L : List Nat) : ∀ k : Kernel, k.deferred = true →
    (L.foldl deleteEdgeCore k).deferred = true ∧ (L.foldl deleteEdgeCore k).vDel = k.vDel := by
  induction L with
  | nil => intro k hd; exact ⟨hd, rfl⟩
  | cons x t ih =>
    intro k hd
    have hd1 : (k.deleteEdgeCore x).deferred = true := by rw [deleteEdgeCore_deferred]; exact hd
    obtain ⟨_, a4⟩ := deleteEdgeCore_def_len x hd
    obtain ⟨b1, b4⟩ := ih _ hd1
    exact ⟨b1, b4.trans a4⟩

theorem cells_lt {k : Kernel} (hw : WF k) (h1 : k.oneCell = true) (fs : List Nat) :
    ∀ x ∈ (k.incidentCells fs).reverse, x < k.cDel.length := by
  intro x hx
  rw [hw.len.cDel]
  have := ((mem_incidentCells hw h1 fs x).mp (List.mem_reverse.mp hx)).1
  unfold liveC at this; simp at this; exact this.1
theorem faces_lt {k : Kernel} (hw : WF k) (es : List Nat) :
    ∀ x ∈ (k.incidentFaces es).reverse, x < k.fDel.length := by
  intro x hx
  rw [hw.len.fDel]
  have := ((mem_incidentFaces hw es x).mp (List.mem_reverse.mp hx)).1
  unfold liveF at this; simp at this; exact this.1
theorem edges_lt {k : Kernel} (hw : WF k) (vs : List Nat) :
    ∀ x ∈ (k.incidentEdges vs).reverse, x < k.eDel.length := by
  intro x hx
  rw [hw.len.eDel]
  have := ((mem_incidentEdges hw vs x).mp (List.mem_reverse.mp hx)).1
  unfold liveE at this; simp at this; exact this.1

/-- deferred `delete_cell`: flags exactly the cell -/
theorem deleteCell_def {k : Kernel} {c : Nat} (hw : WF k) (hd : k.deferred = true) (hc : c < k.nC) :
    LogMinus k (k.deleteCell c) Ren.id (cloC c) :=
  defC hd (by rw [hw.len.cDel]; exact hc)

/-- deferred `delete_face`: flags exactly the face and the live cells that contain it -/
theorem deleteFace_def {k : Kernel} {f : Nat} (hw : WF k) (h1 : k.oneCell = true) (hd : k.deferred = true)
    (hf : k.liveF f = true) : LogMinus k (k.deleteFace f) Ren.id (cloF k f) := by
  unfold deleteFace
  have hfl : f < k.nF := by unfold liveF at hf; simp at hf; exact hf.1
  have s1 := defFoldC _ k hd (cells_lt hw h1 [f])
  obtain ⟨d1, f1, _, _⟩ := defFoldC_frames (k.incidentCells [f]).reverse k hd
  have s2 := defF d1 (by rw [f1, hw.len.fDel]; exact hfl)
  have s := s1.comp s2
  rw [Ren.id_comp_id] at s
  refine s.congrS (fun _ _ _ => by simp [Rem.comp, compS, none, cloF]) (fun _ _ _ => by simp [Rem.comp, compS, none, cloF])
    (fun _ _ _ => by simp [Rem.comp, compS, none, cloF, Ren.id]) (fun z hz1 hz2 => ?_)
  have hl : k.liveC z = true := liveC_iff.mpr ⟨hz1, hz2⟩
  have := mem_cells_iff hw h1 [f] (· = f) (single_iff hf) z
  simp only [Rem.comp, compS, none, cloF, List.mem_reverse, or_false]
  rw [this]; simp [hl]

/-- deferred `delete_edge` -/
theorem deleteEdge_def {k : Kernel} {e : Nat} (hw : WF k) (h1 : k.oneCell = true) (hd : k.deferred = true)
    (he : k.liveE e = true) : LogMinus k (k.deleteEdge e) Ren.id (cloE k e) := by
  unfold deleteEdge
  have hel : e < k.nE := by unfold liveE at he; simp at he; exact he.1
  have s1 := defFoldC _ k hd (cells_lt hw h1 (k.incidentFaces [e]))
  obtain ⟨d1, f1, e1, _⟩ := defFoldC_frames (k.incidentCells (k.incidentFaces [e])).reverse k hd
  have s2 := defFoldF (k.incidentFaces [e]).reverse _ d1 (by rw [f1]; exact faces_lt hw [e])
  obtain ⟨d2, e2, _⟩ := defFoldF_frames (k.incidentFaces [e]).reverse _ d1
  have s3 := defE d2 (by rw [e2, e1, hw.len.eDel]; exact hel)
  have s := (s1.comp s2).comp s3
  rw [Ren.id_comp_id, Ren.id_comp_id] at s
  have mf := mem_faces_iff hw [e] (· = e) (single_iff he)
  refine s.congrS (fun _ _ _ => by simp [Rem.comp, compS, none, cloE]) (fun _ _ _ => by simp [Rem.comp, compS, none, cloE, Ren.id])
    (fun z hz1 hz2 => ?_) (fun z hz1 hz2 => ?_)
  · have hl : k.liveF z = true := liveF_iff.mpr ⟨hz1, hz2⟩
    simp only [Rem.comp, compS, none, cloE, List.mem_reverse, or_false, false_or, Ren.id, id]
    rw [mf z]; simp [hl]
  · have hl : k.liveC z = true := liveC_iff.mpr ⟨hz1, hz2⟩
    simp only [Rem.comp, compS, none, cloE, List.mem_reverse, or_false, false_or, Ren.id, id]
    rw [mem_cells_iff hw h1 _ _ mf z]; simp [hl]

/-- deferred `delete_vertex` -/
theorem deleteVertex_def {k : Kernel} {v : Nat} (hw : WF k) (h1 : k.oneCell = true) (hd : k.deferred = true)
    (hv : v < k.nV) : LogMinus k (k.deleteVertex v) Ren.id (cloV k v) := by
  unfold deleteVertex
  have s1 := defFoldC _ k hd (cells_lt hw h1 (k.incidentFaces (k.incidentEdges [v])))
  obtain ⟨d1, f1, e1, v1⟩ := defFoldC_frames (k.incidentCells (k.incidentFaces (k.incidentEdges [v]))).reverse k hd
  have s2 := defFoldF (k.incidentFaces (k.incidentEdges [v])).reverse _ d1 (by rw [f1]; exact faces_lt hw _)
  obtain ⟨d2, e2, v2⟩ := defFoldF_frames (k.incidentFaces (k.incidentEdges [v])).reverse _ d1
  have s3 := defFoldE (k.incidentEdges [v]).reverse _ d2 (by rw [e2, e1]; exact edges_lt hw _)
  obtain ⟨d3, v3⟩ := defFoldE_frames (k.incidentEdges [v]).reverse _ d2
  have s4 := defV d3 (by rw [v3, v2, v1, hw.len.vDel]; exact hv)
  have s := ((s1.comp s2).comp s3).comp s4
  rw [Ren.id_comp_id, Ren.id_comp_id, Ren.id_comp_id] at s
  have me := mem_edges_iff hw v
  have mf := mem_faces_iff hw _ _ me
  refine s.congrS (fun _ _ _ => by simp [Rem.comp, compS, none, cloV, Ren.id])
    (fun z hz1 hz2 => ?_) (fun z hz1 hz2 => ?_) (fun z hz1 hz2 => ?_)
  · have hl : k.liveE z = true := liveE_iff.mpr ⟨hz1, hz2⟩
    simp only [Rem.comp, compS, none, cloV, List.mem_reverse, or_false, false_or, Ren.id, id]
    rw [me z]; simp [hl]
  · have hl : k.liveF z = true := liveF_iff.mpr ⟨hz1, hz2⟩
    simp only [Rem.comp, compS, none, cloV, List.mem_reverse, or_false, false_or, Ren.id, id]
    rw [mf z]; simp [hl]
  · have hl : k.liveC z = true := liveC_iff.mpr ⟨hz1, hz2⟩
    simp only [Rem.comp, compS, none, cloV, List.mem_reverse, or_false, false_or, Ren.id, id]
    rw [mem_cells_iff hw h1 _ _ mf z]; simp [hl]


/-! ### immediate index-shifting mode -/

/-- weakly monotone; with injectivity on the survivors (`KindOK.inj`): the renumbering keeps the order of the handles -/
def Mono (ρ : Nat → Nat) : Prop := ∀ x y, x ≤ y → ρ x ≤ ρ y

theorem liveF_of_shift {k : Kernel} (hi : Shift.ImmInv k) {f : Nat} (hf : f < k.nF) : k.liveF f = true := by
  unfold liveF; simp [hf, hi.faces f hf]
theorem liveE_of_shift {k : Kernel} (hi : Shift.ImmInv k) {e : Nat} (he : e < k.nE) : k.liveE e = true := by
  unfold liveE; simp [he, hi.edges e he]

theorem deleteCell_shift {k : Kernel} {c : Nat} (hi : Shift.ImmInv k) (hc : c < k.nC) :
    LogMinus k (k.deleteCell c) ⟨id, id, id, corr1 c⟩ (cloC c) := shiftC hi hc

theorem deleteFace_shift {k : Kernel} {f : Nat} (hi : Shift.ImmInv k) (hf : f < k.nF) :
    ∃ ρc, Mono ρc ∧ LogMinus k (k.deleteFace f) ⟨id, id, corr1 f, ρc⟩ (cloF k f) := by
  unfold deleteFace
  obtain ⟨a1, a2, _, _, a5⟩ := Shift.imm_cellsGone hi [f]
  obtain ⟨ρc, hm, s1⟩ := foldCells_logS _ (Shift.desc_incidentCells k [f]) k hi
    (fun x hx => Shift.incidentCells_lt hi.wf (List.mem_reverse.mp hx))
  have s2 := shiftF a1 (by unfold Kernel.nF at *; rw [a2]; exact hf) (fun c hc a ha e => a5 c hc a ha (by rw [e]; simp))
  refine ⟨ρc, hm, ((s1.comp s2).cast rfl).congrS (fun _ _ _ => by simp [Rem.comp, Ren.comp, Function.comp, compS, none, cloF])
    (fun _ _ _ => by simp [Rem.comp, Ren.comp, Function.comp, compS, none, cloF]) (fun _ _ _ => by simp [Rem.comp, Ren.comp, Function.comp, compS, none, cloF])
    (fun z hz1 hz2 => ?_)⟩
  have hl : k.liveC z = true := liveC_iff.mpr ⟨hz1, hz2⟩
  have := mem_cells_iff hi.wf hi.one [f] (· = f) (single_iff (liveF_of_shift hi hf)) z
  simp only [Rem.comp, Ren.comp, Function.comp, compS, none, cloF, List.mem_reverse, or_false]
  rw [this]; simp [hl]

theorem deleteEdge_shift {k : Kernel} {e : Nat} (hi : Shift.ImmInv k) (he : e < k.nE) :
    ∃ ρf ρc, Mono ρf ∧ Mono ρc ∧ LogMinus k (k.deleteEdge e) ⟨id, corr1 e, ρf, ρc⟩ (cloE k e) := by
  unfold deleteEdge
  obtain ⟨c1, c2, _, _, c5⟩ := Shift.imm_cellsGone hi (k.incidentFaces [e])
  obtain ⟨a1, a2, _, a5⟩ := Shift.imm_facesGone hi [e]
  obtain ⟨ρc, hmc, s1⟩ := foldCells_logS _ (Shift.desc_incidentCells k (k.incidentFaces [e])) k hi
    (fun x hx => Shift.incidentCells_lt hi.wf (List.mem_reverse.mp hx))
  obtain ⟨ρf, hmf, s2⟩ := foldFaces_logS _ (Shift.desc_incidentFaces k [e]) _ c1
    (fun x hx => by unfold Kernel.nF; rw [c2]; exact Shift.incidentFaces_lt hi.wf (List.mem_reverse.mp hx))
    (fun c hc a ha hm => c5 c hc a ha (List.mem_reverse.mp hm))
  have s3 := shiftE a1 (by unfold Kernel.nE at *; rw [a2]; exact he) (fun c hc a ha e1 => a5 c hc a ha (by rw [e1]; simp))
  have mf := mem_faces_iff hi.wf [e] (· = e) (single_iff (liveE_of_shift hi he))
  refine ⟨ρf, ρc, hmf, hmc, (((s1.comp s2).comp s3).cast rfl).congrS (fun _ _ _ => by simp [Rem.comp, Ren.comp, Function.comp, compS, none, cloE])
    (fun _ _ _ => by simp [Rem.comp, Ren.comp, Function.comp, compS, none, cloE]) (fun z hz1 hz2 => ?_) (fun z hz1 hz2 => ?_)⟩
  · have hl : k.liveF z = true := liveF_iff.mpr ⟨hz1, hz2⟩
    simp only [Rem.comp, Ren.comp, Function.comp, compS, none, cloE, List.mem_reverse, or_false, false_or, id]
    rw [mf z]; simp [hl]
  · have hl : k.liveC z = true := liveC_iff.mpr ⟨hz1, hz2⟩
    simp only [Rem.comp, Ren.comp, Function.comp, compS, none, cloE, List.mem_reverse, or_false, false_or, id]
    rw [mem_cells_iff hi.wf hi.one _ _ mf z]; simp [hl]

theorem deleteVertex_shift {k : Kernel} {v : Nat} (hi : Shift.ImmInv k) (hv : v < k.nV) :
    ∃ ρe ρf ρc, Mono ρe ∧ Mono ρf ∧ Mono ρc ∧ LogMinus k (k.deleteVertex v) ⟨corr1 v, ρe, ρf, ρc⟩ (cloV k v) := by
  unfold deleteVertex
  obtain ⟨c1, c2, _, _, c5⟩ := Shift.imm_cellsGone hi (k.incidentFaces (k.incidentEdges [v]))
  obtain ⟨a1, a2, a4, a5⟩ := Shift.imm_facesGone hi (k.incidentEdges [v])
  obtain ⟨ρc, hmc, s1⟩ := foldCells_logS _ (Shift.desc_incidentCells k (k.incidentFaces (k.incidentEdges [v]))) k hi
    (fun x hx => Shift.incidentCells_lt hi.wf (List.mem_reverse.mp hx))
  obtain ⟨ρf, hmf, s2⟩ := foldFaces_logS _ (Shift.desc_incidentFaces k (k.incidentEdges [v])) _ c1
    (fun x hx => by unfold Kernel.nF; rw [c2]; exact Shift.incidentFaces_lt hi.wf (List.mem_reverse.mp hx))
    (fun c hc a ha hm => c5 c hc a ha (List.mem_reverse.mp hm))
  have hrE : ∀ x ∈ (k.incidentEdges [v]).reverse, x < ((k.incidentFaces (k.incidentEdges [v])).reverse.foldl deleteFaceCore
      ((k.incidentCells (k.incidentFaces (k.incidentEdges [v]))).reverse.foldl deleteCellCore k)).nE :=
    fun x hx => by unfold Kernel.nE; rw [a2]; exact Shift.incidentEdges_lt hi.wf (List.mem_reverse.mp hx)
  have huE : ∀ c ∈ ((k.incidentFaces (k.incidentEdges [v])).reverse.foldl deleteFaceCore
      ((k.incidentCells (k.incidentFaces (k.incidentEdges [v]))).reverse.foldl deleteCellCore k)).faces,
      ∀ a ∈ c, eOf a ∉ (k.incidentEdges [v]).reverse := fun c hc a ha hm => a5 c hc a ha (List.mem_reverse.mp hm)
  obtain ⟨ρe, hme, s3⟩ := foldEdges_logS _ (Shift.desc_incidentEdges k [v]) _ a1 hrE huE
  obtain ⟨b1, b4, b5⟩ := Shift.immInv_foldEdges _ (Shift.desc_incidentEdges k [v]) _ a1 hrE huE
  have s4 := shiftV b1 (by rw [b4, a4]; exact hv) (by
    intro p hp
    obtain ⟨j', hj', rfl⟩ := Shift.k4c_edges_index hp
    obtain ⟨j, hj, hjL, e⟩ := b5 j' hj'
    rw [e]
    have hea : ∀ j, ((k.incidentFaces (k.incidentEdges [v])).reverse.foldl deleteFaceCore
      ((k.incidentCells (k.incidentFaces (k.incidentEdges [v]))).reverse.foldl deleteCellCore k)).edgeAt j = k.edgeAt j := by
      intro j; unfold edgeAt; rw [a2]
    have hj0 : j < k.nE := by unfold Kernel.nE at *; rw [← a2]; exact hj
    rw [hea]
    constructor
    · intro e1
      exact hjL (List.mem_reverse.mpr (Shift.incidentEdges_complete hi.wf hi.edges hj0 (by simp) (Or.inl e1)))
    · intro e1
      exact hjL (List.mem_reverse.mpr (Shift.incidentEdges_complete hi.wf hi.edges hj0 (by simp) (Or.inr e1))))
  have me := mem_edges_iff hi.wf v
  have mf := mem_faces_iff hi.wf _ _ me
  refine ⟨ρe, ρf, ρc, hme, hmf, hmc, ((((s1.comp s2).comp s3).comp s4).cast rfl).congrS
    (fun _ _ _ => by simp [Rem.comp, Ren.comp, Function.comp, compS, none, cloV])
    (fun z hz1 hz2 => ?_) (fun z hz1 hz2 => ?_) (fun z hz1 hz2 => ?_)⟩
  · have hl : k.liveE z = true := liveE_iff.mpr ⟨hz1, hz2⟩
    simp only [Rem.comp, Ren.comp, Function.comp, compS, none, cloV, List.mem_reverse, or_false, false_or, id]
    rw [me z]; simp [hl]
  · have hl : k.liveF z = true := liveF_iff.mpr ⟨hz1, hz2⟩
    simp only [Rem.comp, Ren.comp, Function.comp, compS, none, cloV, List.mem_reverse, or_false, false_or, id]
    rw [mf z]; simp [hl]
  · have hl : k.liveC z = true := liveC_iff.mpr ⟨hz1, hz2⟩
    simp only [Rem.comp, Ren.comp, Function.comp, compS, none, cloV, List.mem_reverse, or_false, false_or, id]
    rw [mem_cells_iff hi.wf hi.one _ _ mf z]; simp [hl]

/-! ### immediate swap-with-last mode -/

theorem liveF_of_fast {k : Kernel} (hi : ImmInv k) {f : Nat} (hf : f < k.nF) : k.liveF f = true := by
  unfold liveF fDeleted; rw [hi.nfF.getD f]; simp [hf]
theorem liveE_of_fast {k : Kernel} (hi : ImmInv k) {e : Nat} (he : e < k.nE) : k.liveE e = true := by
  unfold liveE eDeleted; rw [hi.nfE.getD e]; simp [he]

theorem deleteCell_fast {k : Kernel} {c : Nat} (hi : ImmInv k) (hc : c < k.nC) :
    LogMinus k (k.deleteCell c) ⟨id, id, id, relabelId c (k.nC - 1)⟩ (cloC c) := fastC hi hc

theorem deleteFace_fast {k : Kernel} {f : Nat} (hi : ImmInv k) (hf : f < k.nF) :
    ∃ ρc, LogMinus k (k.deleteFace f) ⟨id, id, relabelId f (k.nF - 1), ρc⟩ (cloF k f) := by
  unfold deleteFace
  obtain ⟨c1, c2⟩ := incidentCells_spec hi [f]
  obtain ⟨r1, r2, r3, _, _⟩ := cellStage (fun c => ∃ x ∈ c, x / 2 ∈ [f]) (k.incidentCells [f]).reverse k hi
    (incidentCells_desc k _) (by simpa using c1) (by intro i hil hq; simpa using c2 i hil hq)
  obtain ⟨ρc, s1⟩ := foldCells_logF _ k hi (incidentCells_desc k _) (by simpa using c1)
  have hnF : ((k.incidentCells [f]).reverse.foldl deleteCellCore k).nF = k.nF := by unfold Kernel.nF; rw [r3]
  have s2 := fastF r1 (by rw [hnF]; exact hf)
  rw [hnF] at s2
  refine ⟨ρc, ((s1.comp s2).cast rfl).congrS (fun _ _ _ => by simp [Rem.comp, Ren.comp, Function.comp, compS, none, cloF])
    (fun _ _ _ => by simp [Rem.comp, Ren.comp, Function.comp, compS, none, cloF])
    (fun _ _ _ => by simp [Rem.comp, Ren.comp, Function.comp, compS, none, cloF])
    (fun z hz1 hz2 => ?_)⟩
  have hl : k.liveC z = true := liveC_iff.mpr ⟨hz1, hz2⟩
  have := mem_cells_iff hi.wf hi.one [f] (· = f) (single_iff (liveF_of_fast hi hf)) z
  simp only [Rem.comp, Ren.comp, Function.comp, compS, none, cloF, List.mem_reverse, or_false]
  rw [this]; simp [hl]

theorem deleteEdge_fast {k : Kernel} {e : Nat} (hi : ImmInv k) (he : e < k.nE) :
    ∃ ρf ρc, LogMinus k (k.deleteEdge e) ⟨id, relabelId e (k.nE - 1), ρf, ρc⟩ (cloE k e) := by
  unfold deleteEdge
  obtain ⟨f1, f2⟩ := incidentFaces_spec hi [e] (by simpa using he)
  obtain ⟨c1, c2⟩ := incidentCells_spec hi (k.incidentFaces [e])
  obtain ⟨r1, r2, r3, r4, _⟩ := cellStage (fun c => ∃ x ∈ c, x / 2 ∈ k.incidentFaces [e])
    (k.incidentCells (k.incidentFaces [e])).reverse k hi
    (incidentCells_desc k _) (by simpa using c1) (by intro i hil hq; simpa using c2 i hil hq)
  obtain ⟨ρc, s1⟩ := foldCells_logF _ k hi (incidentCells_desc k (k.incidentFaces [e])) (by simpa using c1)
  have hrange : ∀ f ∈ (k.incidentFaces [e]).reverse, f < ((k.incidentCells (k.incidentFaces [e])).reverse.foldl deleteCellCore k).nF := by
    unfold Kernel.nF at *; rw [r3]; simpa using f1
  have hnoc : ∀ c ∈ ((k.incidentCells (k.incidentFaces [e])).reverse.foldl deleteCellCore k).cells, ∀ x ∈ c,
      x / 2 ∉ (k.incidentFaces [e]).reverse := by
    intro c hc x hx hm; exact r2 c hc ⟨x, hx, by simpa using hm⟩
  obtain ⟨t1, t2, t3, _⟩ := faceStage (fun f => ∃ x ∈ f, x / 2 ∈ [e]) (k.incidentFaces [e]).reverse _ r1
    (incidentFaces_desc k _) hrange hnoc
    (by
      intro i hil hq
      unfold Kernel.nF faceAt at *
      rw [r3] at hil hq
      simpa using f2 i hil hq)
  obtain ⟨ρf, s2⟩ := foldFaces_logF _ _ r1 (incidentFaces_desc k [e]) hrange hnoc
  have hnE : ((k.incidentFaces [e]).reverse.foldl deleteFaceCore
      ((k.incidentCells (k.incidentFaces [e])).reverse.foldl deleteCellCore k)).nE = k.nE := by
    unfold Kernel.nE; rw [t3, r4]
  have s3 := fastE t1 (by rw [hnE]; exact he)
  rw [hnE] at s3
  have mf := mem_faces_iff hi.wf [e] (· = e) (single_iff (liveE_of_fast hi he))
  refine ⟨ρf, ρc, (((s1.comp s2).comp s3).cast rfl).congrS
    (fun _ _ _ => by simp [Rem.comp, Ren.comp, Function.comp, compS, none, cloE])
    (fun _ _ _ => by simp [Rem.comp, Ren.comp, Function.comp, compS, none, cloE]) (fun z hz1 hz2 => ?_) (fun z hz1 hz2 => ?_)⟩
  · have hl : k.liveF z = true := liveF_iff.mpr ⟨hz1, hz2⟩
    simp only [Rem.comp, Ren.comp, Function.comp, compS, none, cloE, List.mem_reverse, or_false, false_or, id]
    rw [mf z]; simp [hl]
  · have hl : k.liveC z = true := liveC_iff.mpr ⟨hz1, hz2⟩
    simp only [Rem.comp, Ren.comp, Function.comp, compS, none, cloE, List.mem_reverse, or_false, false_or, id]
    rw [mem_cells_iff hi.wf hi.one _ _ mf z]; simp [hl]

theorem deleteVertex_fast {k : Kernel} {v : Nat} (hi : ImmInv k) (hv : v < k.nV) :
    ∃ ρe ρf ρc, LogMinus k (k.deleteVertex v) ⟨relabelId v (k.nV - 1), ρe, ρf, ρc⟩ (cloV k v) := by
  unfold deleteVertex
  simp only []
  obtain ⟨e1, e2⟩ := incidentEdges_spec hi hv
  obtain ⟨f1, f2⟩ := incidentFaces_spec hi (k.incidentEdges [v]) e1
  obtain ⟨c1, c2⟩ := incidentCells_spec hi (k.incidentFaces (k.incidentEdges [v]))
  obtain ⟨r1, r2, r3, r4, r5⟩ := cellStage (fun c => ∃ x ∈ c, x / 2 ∈ k.incidentFaces (k.incidentEdges [v]))
    (k.incidentCells (k.incidentFaces (k.incidentEdges [v]))).reverse k hi
    (incidentCells_desc k _) (by simpa using c1) (by intro i hil hq; simpa using c2 i hil hq)
  obtain ⟨ρc, s1⟩ := foldCells_logF _ k hi (incidentCells_desc k (k.incidentFaces (k.incidentEdges [v]))) (by simpa using c1)
  generalize (k.incidentCells (k.incidentFaces (k.incidentEdges [v]))).reverse.foldl deleteCellCore k = k1 at r1 r2 r3 r4 r5 s1 ⊢
  have hrange : ∀ f ∈ (k.incidentFaces (k.incidentEdges [v])).reverse, f < k1.nF := by
    unfold Kernel.nF at *; rw [r3]; simpa using f1
  have hnoc : ∀ c ∈ k1.cells, ∀ x ∈ c, x / 2 ∉ (k.incidentFaces (k.incidentEdges [v])).reverse := by
    intro c hc x hx hm; exact r2 c hc ⟨x, hx, by simpa using hm⟩
  obtain ⟨t1, t2, t3, t4⟩ := faceStage (fun f => ∃ x ∈ f, x / 2 ∈ k.incidentEdges [v])
    (k.incidentFaces (k.incidentEdges [v])).reverse _ r1 (incidentFaces_desc k _) hrange hnoc
    (by
      intro i hil hq
      unfold Kernel.nF faceAt at *
      rw [r3] at hil hq
      simpa using f2 i hil hq)
  obtain ⟨ρf, s2⟩ := foldFaces_logF _ _ r1 (incidentFaces_desc k (k.incidentEdges [v])) hrange hnoc
  generalize (k.incidentFaces (k.incidentEdges [v])).reverse.foldl deleteFaceCore k1 = k2 at t1 t2 t3 t4 s2 ⊢
  have hrange2 : ∀ e ∈ (k.incidentEdges [v]).reverse, e < k2.nE := by
    unfold Kernel.nE at *; rw [t3, r4]; simpa using e1
  have hnof : ∀ f ∈ k2.faces, ∀ x ∈ f, x / 2 ∉ (k.incidentEdges [v]).reverse := by
    intro f hf x hx hm; exact t2 f hf ⟨x, hx, by simpa using hm⟩
  obtain ⟨u1, u2, u3⟩ := edgeStage (fun e => e.1 = v ∨ e.2 = v) (k.incidentEdges [v]).reverse _ t1
    (incidentEdges_desc k _) hrange2 hnof
    (by
      intro i hil hq
      unfold Kernel.nE edgeAt at *
      rw [t3, r4] at hil hq
      simpa using e2 i hil hq)
  obtain ⟨ρe, s3⟩ := foldEdges_logF _ _ t1 (incidentEdges_desc k [v]) hrange2 hnof
  generalize (k.incidentEdges [v]).reverse.foldl deleteEdgeCore k2 = k3 at u1 u2 u3 s3 ⊢
  have hnV : k3.nV = k.nV := by rw [u3, t4, r5]
  have s4 := fastV u1 (by rw [hnV]; exact hv)
    (fun e he => ⟨fun h => u2 e he (Or.inl h), fun h => u2 e he (Or.inr h)⟩)
  rw [hnV] at s4
  have me := mem_edges_iff hi.wf v
  have mf := mem_faces_iff hi.wf _ _ me
  refine ⟨ρe, ρf, ρc, ((((s1.comp s2).comp s3).comp s4).cast rfl).congrS
    (fun _ _ _ => by simp [Rem.comp, Ren.comp, Function.comp, compS, none, cloV])
    (fun z hz1 hz2 => ?_) (fun z hz1 hz2 => ?_) (fun z hz1 hz2 => ?_)⟩
  · have hl : k.liveE z = true := liveE_iff.mpr ⟨hz1, hz2⟩
    simp only [Rem.comp, Ren.comp, Function.comp, compS, none, cloV, List.mem_reverse, or_false, false_or, id]
    rw [me z]; simp [hl]
  · have hl : k.liveF z = true := liveF_iff.mpr ⟨hz1, hz2⟩
    simp only [Rem.comp, Ren.comp, Function.comp, compS, none, cloV, List.mem_reverse, or_false, false_or, id]
    rw [mf z]; simp [hl]
  · have hl : k.liveC z = true := liveC_iff.mpr ⟨hz1, hz2⟩
    simp only [Rem.comp, Ren.comp, Function.comp, compS, none, cloV, List.mem_reverse, or_false, false_or, id]
    rw [mem_cells_iff hi.wf hi.one _ _ mf z]; simp [hl]

/-! ### survivors refer to survivors -/

/-- every entity a survivor is defined by is a survivor itself — so "the old definition renamed by `ρ`" (`LogMinus.edge`,
    `.face`, `.cell`) only ever applies `ρ` to slots on which it is the bijection of `KindOK` -/
structure RefsSurvive (k : Kernel) (S : Rem) : Prop where
  e : ∀ x, SurvE k S x → SurvV k S (k.edgeAt x).1 ∧ SurvV k S (k.edgeAt x).2
  f : ∀ x, SurvF k S x → ∀ a ∈ k.faceAt x, SurvE k S (a / 2)
  c : ∀ x, SurvC k S x → ∀ a ∈ k.cellAt x, SurvF k S (a / 2)

/-- in a well-formed state with closure-consistent flags, an upward-closed removed set leaves no dangling reference -/
theorem refs_of_up {k : Kernel} {S : Rem} (hw : WF k) (hc : Closed k) (hE : ∀ e, upE k S.v e → S.e e)
    (hF : ∀ f, upF k S.e f → S.f f) (hC : ∀ c, upC k S.f c → S.c c) : RefsSurvive k S := by
  refine ⟨?_, ?_, ?_⟩
  · intro x hx
    have hl := liveE_of_surv hx
    have hr := hw.range.edges _ (k4_edgeAt_mem (k := k) hx.1)
    have hv := hc.v x hl
    unfold vDeleted at hv
    exact ⟨⟨hr.1, hv.1, fun s => hx.2.2 (hE x (Or.inl s))⟩, ⟨hr.2, hv.2, fun s => hx.2.2 (hE x (Or.inr s))⟩⟩
  · intro x hx a ha
    have hl := liveF_of_surv hx
    have hr := hw.range.faces _ (faceAt_mem_faces (k := k) hx.1) a ha
    have hd := hc.e x hl a ha
    have hlt : a / 2 < k.edges.length := by unfold Kernel.nHE at hr; omega
    have hle : k.liveE (a / 2) = true := liveE_iff.mpr ⟨hlt, hd⟩
    exact ⟨hlt, hd, fun s => hx.2.2 (hF x ⟨a, ha, hle, s⟩)⟩
  · intro x hx a ha
    have hl := liveC_of_surv hx
    have hr := hw.range.cells _ (cellAt_mem_cells (k := k) hx.1) a ha
    have hd := hc.f x hl a ha
    have hlt : a / 2 < k.faces.length := by unfold Kernel.nHF at hr; omega
    have hle : k.liveF (a / 2) = true := liveF_iff.mpr ⟨hlt, hd⟩
    exact ⟨hlt, hd, fun s => hx.2.2 (hC x ⟨a, ha, hle, s⟩)⟩

theorem refs_cloC {k : Kernel} (hw : WF k) (hc : Closed k) (c : Nat) : RefsSurvive k (cloC c) :=
  refs_of_up hw hc (fun _ h => h.elim id id) (fun _ ⟨_, _, _, h⟩ => h) (fun _ ⟨_, _, _, h⟩ => h.elim)
theorem refs_cloF {k : Kernel} (hw : WF k) (hc : Closed k) (f : Nat) : RefsSurvive k (cloF k f) :=
  refs_of_up hw hc (fun _ h => h.elim id id) (fun _ ⟨_, _, _, h⟩ => h.elim) (fun _ h => h)
theorem refs_cloE {k : Kernel} (hw : WF k) (hc : Closed k) (e : Nat) : RefsSurvive k (cloE k e) :=
  refs_of_up hw hc (fun _ h => h.elim (fun x => x.elim) (fun x => x.elim)) (fun _ h => h) (fun _ h => h)
theorem refs_cloV {k : Kernel} (hw : WF k) (hc : Closed k) (v : Nat) : RefsSurvive k (cloV k v) :=
  refs_of_up hw hc (fun _ h => h) (fun _ h => h) (fun _ h => h)

/-! ### the four deletions in all four modes -/

theorem mono_id : Mono id := fun _ _ h => h
theorem mono_corr1 (h : Nat) : Mono (corr1 h) := fun _ _ hxy => corr1_mono h hxy

/-- what the renumbering of a deletion looks like: the identity in deferred mode (both values of `fast`: nothing moves
    until `collect_garbage`), order preserving in immediate index-shifting mode; in immediate swap-with-last mode it
    is a composition of "last slot takes the victim's handle" relabelings (no shape beyond being a bijection of the
    survivors, which `LogMinus` states) -/
def ModeShape (k : Kernel) (ρ : Ren) : Prop :=
  (k.deferred = true → ρ = Ren.id) ∧
  (k.deferred = false → k.fast = false → Mono ρ.v ∧ Mono ρ.e ∧ Mono ρ.f ∧ Mono ρ.c)

theorem modeShape_def {k : Kernel} (hd : k.deferred = true) : ModeShape k Ren.id :=
  ⟨fun _ => rfl, fun h => by rw [hd] at h; cases h⟩
theorem modeShape_fast {k : Kernel} (hd : k.deferred = false) (hf : k.fast = true) (ρ : Ren) : ModeShape k ρ :=
  ⟨fun h => (by rw [hd] at h; cases h), fun _ h => (by rw [hf] at h; cases h)⟩
theorem modeShape_shift {k : Kernel} (hd : k.deferred = false) {ρ : Ren}
    (m : Mono ρ.v ∧ Mono ρ.e ∧ Mono ρ.f ∧ Mono ρ.c) : ModeShape k ρ :=
  ⟨fun h => (by rw [hd] at h; cases h), fun _ _ => m⟩

/-- **`delete_cell`, all four modes** -/
theorem deleteCell_logical {k : Kernel} {c : Nat} (hi : GInv k) (hc : c < k.nC) :
    ∃ ρ, ModeShape k ρ ∧ LogMinus k (k.deleteCell c) ρ (cloC c) := by
  by_cases hd : k.deferred = true
  · exact ⟨Ren.id, modeShape_def hd, deleteCell_def hi.wf hd hc⟩
  · have hd' : k.deferred = false := by simpa using hd
    by_cases hf : k.fast = true
    · exact ⟨_, modeShape_fast hd' hf _,
        deleteCell_fast (immInv_of_ginv hi hd' hf) hc⟩
    · have hf' : k.fast = false := by simpa using hf
      exact ⟨_, modeShape_shift hd' ⟨mono_id, mono_id, mono_id, mono_corr1 c⟩,
        deleteCell_shift (shiftImmInv_of_ginv hi hd' hf') hc⟩

/-- **`delete_face`, all four modes** (a live face) -/
theorem deleteFace_logical {k : Kernel} {f : Nat} (hi : GInv k) (hf : k.liveF f = true) :
    ∃ ρ, ModeShape k ρ ∧ LogMinus k (k.deleteFace f) ρ (cloF k f) := by
  have hlt : f < k.nF := by unfold liveF at hf; simp at hf; exact hf.1
  by_cases hd : k.deferred = true
  · exact ⟨Ren.id, modeShape_def hd, deleteFace_def hi.wf hi.one hd hf⟩
  · have hd' : k.deferred = false := by simpa using hd
    by_cases hfa : k.fast = true
    · obtain ⟨ρc, s⟩ := deleteFace_fast (immInv_of_ginv hi hd' hfa) hlt
      exact ⟨_, modeShape_fast hd' hfa _, s⟩
    · have hf' : k.fast = false := by simpa using hfa
      obtain ⟨ρc, m, s⟩ := deleteFace_shift (shiftImmInv_of_ginv hi hd' hf') hlt
      exact ⟨_, modeShape_shift hd' ⟨mono_id, mono_id, mono_corr1 f, m⟩, s⟩

/-- **`delete_edge`, all four modes** (a live edge) -/
theorem deleteEdge_logical {k : Kernel} {e : Nat} (hi : GInv k) (he : k.liveE e = true) :
    ∃ ρ, ModeShape k ρ ∧ LogMinus k (k.deleteEdge e) ρ (cloE k e) := by
  have hlt : e < k.nE := by unfold liveE at he; simp at he; exact he.1
  by_cases hd : k.deferred = true
  · exact ⟨Ren.id, modeShape_def hd, deleteEdge_def hi.wf hi.one hd he⟩
  · have hd' : k.deferred = false := by simpa using hd
    by_cases hfa : k.fast = true
    · obtain ⟨ρf, ρc, s⟩ := deleteEdge_fast (immInv_of_ginv hi hd' hfa) hlt
      exact ⟨_, modeShape_fast hd' hfa _, s⟩
    · have hf' : k.fast = false := by simpa using hfa
      obtain ⟨ρf, ρc, m1, m2, s⟩ := deleteEdge_shift (shiftImmInv_of_ginv hi hd' hf') hlt
      exact ⟨_, modeShape_shift hd' ⟨mono_id, mono_corr1 e, m1, m2⟩, s⟩

/-- **`delete_vertex`, all four modes** -/
theorem deleteVertex_logical {k : Kernel} {v : Nat} (hi : GInv k) (hv : v < k.nV) :
    ∃ ρ, ModeShape k ρ ∧ LogMinus k (k.deleteVertex v) ρ (cloV k v) := by
  by_cases hd : k.deferred = true
  · exact ⟨Ren.id, modeShape_def hd, deleteVertex_def hi.wf hi.one hd hv⟩
  · have hd' : k.deferred = false := by simpa using hd
    by_cases hfa : k.fast = true
    · obtain ⟨ρe, ρf, ρc, s⟩ := deleteVertex_fast (immInv_of_ginv hi hd' hfa) hv
      exact ⟨_, modeShape_fast hd' hfa _, s⟩
    · have hf' : k.fast = false := by simpa using hfa
      obtain ⟨ρe, ρf, ρc, m1, m2, m3, s⟩ := deleteVertex_shift (shiftImmInv_of_ginv hi hd' hf') hv
      exact ⟨_, modeShape_shift hd' ⟨mono_corr1 v, m1, m2, m3⟩, s⟩
end Logical
end Kernel
end OVM

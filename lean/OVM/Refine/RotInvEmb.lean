import OVM.Refine.RotInvBase
/-
  RotInv, part 1 (builder R1): the TRANSPORT lemma.  `SingleFanU` and `Fan.FanOrdered` at an edge are invariant
  under a renaming of halfedges (`ιE`), halffaces (`ιF`) and cells (`ιC`) between two states `A` and `B`,
  provided the definitions and the face cache of the two states correspond ON WHAT THE FAN OF THAT EDGE READS:
  the members of the slot of `2e`, their opposites, and the halffaces of their cells (`S`).
  Every frame / relabeling / renumbering step of the mutators is an instance (identity renaming for frames,
  `relabelHalf`/`relabelId` for the index swaps, the up-shifts `up2`/`up` for the erase stages).
  Proof-only file.
-/
namespace OVM
namespace Kernel
namespace Rot
open Fan CellCheck

/-! ### list helpers -/
theorem flatMap_congr' {α β} (l : List α) (f g : α → List β) (h : ∀ x ∈ l, f x = g x) : l.flatMap f = l.flatMap g := by
  induction l with
  | nil => rfl
  | cons a t ih =>
    simp only [List.flatMap_cons]
    rw [h a (List.mem_cons_self ..), ih (fun x hx => h x (List.mem_cons_of_mem _ hx))]

theorem mem_map_inj {f : Nat → Nat} (hf : ∀ a b, f a = f b → a = b) (l : List Nat) (x : Nat) :
    f x ∈ l.map f ↔ x ∈ l := by
  constructor
  · intro h
    obtain ⟨y, hy, e⟩ := List.mem_map.mp h
    rw [← hf _ _ e]; exact hy
  · intro h; exact List.mem_map.mpr ⟨x, h, rfl⟩

theorem nodup_map_inj {f : Nat → Nat} (hf : ∀ a b, f a = f b → a = b) (l : List Nat) :
    (l.map f).Nodup ↔ l.Nodup := by
  induction l with
  | nil => simp
  | cons a t ih =>
    simp only [List.map_cons, List.nodup_cons, ih, mem_map_inj hf]

theorem map_eq_map_inj {f : Nat → Nat} (hf : ∀ a b, f a = f b → a = b) :
    ∀ (l m : List Nat), l.map f = m.map f ↔ l = m := by
  intro l
  induction l with
  | nil => intro m; cases m <;> simp
  | cons a t ih =>
    intro m
    cases m with
    | nil => simp
    | cons b u =>
      simp only [List.map_cons, List.cons.injEq, ih]
      constructor
      · intro h; exact ⟨hf _ _ h.1, h.2⟩
      · intro h; exact ⟨by rw [h.1], h.2⟩

theorem omap_eq_some_inj {f : Nat → Nat} (hf : ∀ a b, f a = f b → a = b) (o : Option Nat) (x : Nat) :
    o.map f = some (f x) ↔ o = some x := by
  cases o with
  | none => simp
  | some y => simp only [Option.map_some, Option.some.injEq]; exact ⟨fun h => hf _ _ h, fun h => by rw [h]⟩

theorem getD_map_lt (f : Nat → Nat) (l : List Nat) (i : Nat) (hi : i < l.length) :
    (l.map f).getD i 0 = f (l.getD i 0) := by
  simp [List.getD_eq_getElem?_getD, List.getElem?_eq_getElem hi]

theorem getD_mem_lt (l : List Nat) (i : Nat) (hi : i < l.length) : l.getD i 0 ∈ l := by
  rw [List.getD_eq_getElem?_getD, List.getElem?_eq_getElem hi]; exact List.getElem_mem hi

/-! ### the correspondence -/

/-- `A` read through the renamings is `B`, on the set `S` of halffaces of `A` -/
structure Emb (A B : Kernel) (ιE ιF ιC : Nat → Nat) (S : Nat → Prop) : Prop where
  injE : ∀ a b, ιE a = ιE b → a = b
  injF : ∀ a b, ιF a = ιF b → a = b
  injC : ∀ a b, ιC a = ιC b → a = b
  oppE : ∀ h, ιE (opp h) = opp (ιE h)
  oppF : ∀ h, ιF (opp h) = opp (ιF h)
  /-- `S` contains the halffaces of the cells of its members -/
  mates : ∀ x c, S x → A.sCellOf x = some c → ∀ y ∈ A.cellAt c, S y
  hes : ∀ x, S x → B.hfHes (ιF x) = (A.hfHes x).map ιE
  cells : ∀ x c, S x → A.sCellOf x = some c → B.cellAt (ιC c) = (A.cellAt c).map ιF
  cellOf : ∀ x, S x → B.cellOf (ιF x) = (A.cellOf x).map ιC
  sCellOf : ∀ x, S x → B.sCellOf (ιF x) = (A.sCellOf x).map ιC

variable {A B : Kernel} {ιE ιF ιC : Nat → Nat} {S : Nat → Prop}

theorem Emb.mem_hes (h : Emb A B ιE ιF ιC S) (x he : Nat) (hx : S x) :
    ιE he ∈ B.hfHes (ιF x) ↔ he ∈ A.hfHes x := by
  rw [h.hes x hx]; exact mem_map_inj h.injE _ _

theorem Emb.mem_hes_opp (h : Emb A B ιE ιF ιC S) (x he : Nat) (hx : S x) :
    opp (ιE he) ∈ B.hfHes (ιF x) ↔ opp he ∈ A.hfHes x := by
  rw [← h.oppE]; exact h.mem_hes x (opp he) hx

theorem Emb.sAdj (h : Emb A B ιE ιF ιC S) (x c he : Nat) (hx : S x) (hc : A.sCellOf x = some c) :
    B.sAdj (ιC c) (ιF x) (ιE he) = (A.sAdj c x he).map ιF := by
  unfold Kernel.sAdj
  rw [h.cells x c hx hc, List.filter_map]
  have hcongr : (A.cellAt c).filter ((fun y => y != ιF x && y != opp (ιF x) && (B.hfHes y).contains (opp (ιE he))) ∘ ιF) =
      (A.cellAt c).filter (fun y => y != x && y != opp x && (A.hfHes y).contains (opp he)) := by
    apply List.filter_congr
    intro y hy
    have hSy := h.mates x c hx hc y hy
    have e1 : (ιF y != ιF x) = (y != x) := by
      by_cases e : y = x
      · subst e; simp
      · have : ιF y ≠ ιF x := fun h' => e (h.injF _ _ h')
        exact (bne_iff_ne.mpr this).trans (bne_iff_ne.mpr e).symm
    have e2 : (ιF y != opp (ιF x)) = (y != opp x) := by
      rw [← h.oppF]
      by_cases e : y = opp x
      · subst e; simp
      · have : ιF y ≠ ιF (opp x) := fun h' => e (h.injF _ _ h')
        exact (bne_iff_ne.mpr this).trans (bne_iff_ne.mpr e).symm
    have e3 : (B.hfHes (ιF y)).contains (opp (ιE he)) = (A.hfHes y).contains (opp he) := by
      rw [Bool.eq_iff_iff, List.contains_iff_mem, List.contains_iff_mem]
      exact h.mem_hes_opp y he hSy
    simp only [Function.comp, e1, e2, e3]
  rw [hcongr]
  cases (A.cellAt c).filter (fun y => y != x && y != opp x && (A.hfHes y).contains (opp he)) with
  | nil => rfl
  | cons a t => cases t <;> rfl

theorem Emb.sFanNext (h : Emb A B ιE ιF ιC S) (x he : Nat) (hx : S x) :
    B.sFanNext (ιE he) (ιF x) = (A.sFanNext he x).map ιF := by
  unfold Kernel.sFanNext
  rw [h.sCellOf x hx]
  cases hc : A.sCellOf x with
  | none => rfl
  | some c =>
    simp only [Option.map_some]
    rw [h.sAdj x c he hx hc]
    cases A.sAdj c x he with
    | none => rfl
    | some a => simp [h.oppF]

theorem Emb.sFanNext_opp (h : Emb A B ιE ιF ιC S) (x he : Nat) (hx : S (opp x)) :
    B.sFanNext (opp (ιE he)) (opp (ιF x)) = (A.sFanNext (opp he) (opp x)).map ιF := by
  rw [← h.oppE, ← h.oppF]; exact h.sFanNext (opp x) (opp he) hx

theorem Emb.cellHalfedges (h : Emb A B ιE ιF ιC S) (l : List Nat) (hl : ∀ y ∈ l, S y) :
    B.cellHalfedges (l.map ιF) = (A.cellHalfedges l).map ιE := by
  unfold Kernel.cellHalfedges
  rw [List.flatMap_map, List.map_flatMap]
  exact flatMap_congr' l _ _ (fun y hy => h.hes y (hl y hy))

theorem Emb.closedSurface (h : Emb A B ιE ιF ιC S) (l : List Nat) (hl : ∀ y ∈ l, S y) :
    ClosedSurface B (l.map ιF) ↔ ClosedSurface A l := by
  unfold ClosedSurface
  rw [h.cellHalfedges l hl, nodup_map_inj h.injE]
  apply and_congr Iff.rfl
  constructor
  · intro hh a ha
    have := hh (ιE a) (List.mem_map.mpr ⟨a, ha, rfl⟩)
    rw [← h.oppE] at this
    exact (mem_map_inj h.injE _ _).mp this
  · intro hh a' ha'
    obtain ⟨a, ha, rfl⟩ := List.mem_map.mp ha'
    rw [← h.oppE]
    exact List.mem_map.mpr ⟨_, hh a ha, rfl⟩

theorem Emb.edgeProper (h : Emb A B ιE ιF ιC S) (l : List Nat) (he : Nat) (hl : ∀ y ∈ l, S y) :
    EdgeProper B (l.map ιF) (ιE he) ↔ EdgeProper A l he := by
  unfold EdgeProper
  constructor
  · intro hh y hy ht
    have hS := hl y hy
    have := hh (ιF y) (List.mem_map.mpr ⟨y, hy, rfl⟩)
      (by rw [h.mem_hes y he hS, h.mem_hes_opp y he hS]; exact ht)
    rw [h.mem_hes y he hS, h.mem_hes_opp y he hS, ← h.oppF, mem_map_inj h.injF] at this
    exact this
  · intro hh y' hy' ht
    obtain ⟨y, hy, rfl⟩ := List.mem_map.mp hy'
    have hS := hl y hy
    rw [h.mem_hes y he hS, h.mem_hes_opp y he hS] at ht ⊢
    rw [← h.oppF, mem_map_inj h.injF]
    exact hh y hy ht

theorem Emb.ringMember (h : Emb A B ιE ιF ιC S) (x he : Nat) (hx : S x) :
    RingMember B (ιE he) (ιF x) ↔ RingMember A he x := by
  unfold RingMember
  rw [h.mem_hes x he hx, h.cellOf x hx]
  apply and_congr Iff.rfl
  cases hc : A.cellOf x with
  | none => exact Iff.rfl
  | some c =>
    simp only [Option.map_some]
    rw [h.sCellOf x hx, omap_eq_some_inj h.injC]
    apply and_congr_right
    intro hsc
    have hm := h.mates x c hx hsc
    rw [h.cells x c hx hsc, h.closedSurface _ hm, h.edgeProper _ he hm]
    apply and_congr Iff.rfl
    apply and_congr Iff.rfl
    constructor
    · intro hh y hy
      have := hh (ιF y) (List.mem_map.mpr ⟨y, hy, rfl⟩)
      rw [h.cellOf y (hm y hy)] at this
      exact (omap_eq_some_inj h.injC _ _).mp this
    · intro hh y' hy'
      obtain ⟨y, hy, rfl⟩ := List.mem_map.mp hy'
      rw [h.cellOf y (hm y hy), hh y hy]; rfl

theorem Emb.ringMember_opp (h : Emb A B ιE ιF ιC S) (x he : Nat) (hx : S (opp x)) :
    RingMember B (opp (ιE he)) (opp (ιF x)) ↔ RingMember A (opp he) (opp x) := by
  rw [← h.oppE, ← h.oppF]; exact h.ringMember (opp x) (opp he) hx

theorem Emb.boundaryMember (h : Emb A B ιE ιF ιC S) (x : Nat) (hx : S x) :
    BoundaryMember B (ιF x) ↔ BoundaryMember A x := by
  unfold BoundaryMember
  rw [h.cellOf x hx, h.sCellOf x hx]
  simp

theorem Emb.fanMember (h : Emb A B ιE ιF ιC S) (x he : Nat) (hx : S x) (hox : S (opp x)) :
    FanMember B (ιE he) (ιF x) ↔ FanMember A he x := by
  unfold FanMember
  rw [h.ringMember x he hx, h.boundaryMember x hx, h.ringMember_opp x he hox, ← h.oppF, h.cellOf (opp x) hox]
  simp

theorem Emb.iterNext (h : Emb A B ιE ιF ιC S) (he : Nat) (L : List Nat) (hL : ∀ x ∈ L, S x)
    (hcl : ∀ hf ∈ L, ∀ y, A.sFanNext he hf = some y → y ∈ L) :
    ∀ (i x : Nat), x ∈ L → Fan.iterNext B (ιE he) i (ιF x) = (Fan.iterNext A he i x).map ιF := by
  intro i
  induction i with
  | zero => intro x _; rfl
  | succ i ih =>
    intro x hx
    simp only [Fan.iterNext]
    rw [ih x hx]
    cases hz : Fan.iterNext A he i x with
    | none => rfl
    | some z =>
      have hzL := iter_mem A he L hcl i x z hx hz
      simp only [Option.map_some, Option.bind_some]
      exact h.sFanNext z he (hL z hzL)

/-- what the two states must agree on at the edge: the two slots, renamed -/
structure EmbAt (A B : Kernel) (ιE ιF ιC : Nat → Nat) (S : Nat → Prop) (eA eB : Nat) : Prop extends Emb A B ιE ιF ιC S where
  he0 : ιE (heOf eA 0) = heOf eB 0
  slot0 : B.hfsOf (heOf eB 0) = (A.hfsOf (heOf eA 0)).map ιF
  slot1 : B.hfsOf (heOf eB 1) = (A.hfsOf (heOf eA 1)).map ιF
  memS : ∀ x ∈ A.hfsOf (heOf eA 0), S x ∧ S (opp x)

variable {eA eB : Nat}

/-- closure of the slot under the rotation, forwards -/
theorem EmbAt.closedF (h : EmbAt A B ιE ιF ιC S eA eB) :
    (∀ hf ∈ B.hfsOf (heOf eB 0), ∀ y ∈ B.sFanNext (heOf eB 0) hf, y ∈ B.hfsOf (heOf eB 0)) ↔
    (∀ hf ∈ A.hfsOf (heOf eA 0), ∀ y ∈ A.sFanNext (heOf eA 0) hf, y ∈ A.hfsOf (heOf eA 0)) := by
  rw [h.slot0, ← h.he0]
  constructor
  · intro hh x hx y hy
    have hy' : A.sFanNext (heOf eA 0) x = some y := hy
    have := hh (ιF x) (List.mem_map.mpr ⟨x, hx, rfl⟩) (ιF y)
      (by rw [Option.mem_def, h.toEmb.sFanNext x _ (h.memS x hx).1, hy']; rfl)
    exact (mem_map_inj h.injF _ _).mp this
  · intro hh x' hx' y' hy'
    obtain ⟨x, hx, rfl⟩ := List.mem_map.mp hx'
    rw [Option.mem_def, h.toEmb.sFanNext x _ (h.memS x hx).1] at hy'
    cases hn : A.sFanNext (heOf eA 0) x with
    | none => rw [hn] at hy'; cases hy'
    | some y =>
      rw [hn] at hy'
      simp only [Option.map_some, Option.some.injEq] at hy'
      rw [← hy']
      exact List.mem_map.mpr ⟨y, hh x hx y hn, rfl⟩

theorem EmbAt.closedB (h : EmbAt A B ιE ιF ιC S eA eB) :
    (∀ hf ∈ B.hfsOf (heOf eB 0), ∀ y ∈ B.sFanNext (opp (heOf eB 0)) (opp hf), opp y ∈ B.hfsOf (heOf eB 0)) ↔
    (∀ hf ∈ A.hfsOf (heOf eA 0), ∀ y ∈ A.sFanNext (opp (heOf eA 0)) (opp hf), opp y ∈ A.hfsOf (heOf eA 0)) := by
  rw [h.slot0, ← h.he0]
  constructor
  · intro hh x hx y hy
    have hy' : A.sFanNext (opp (heOf eA 0)) (opp x) = some y := hy
    have := hh (ιF x) (List.mem_map.mpr ⟨x, hx, rfl⟩) (ιF y)
      (by rw [Option.mem_def, h.toEmb.sFanNext_opp x _ (h.memS x hx).2, hy']; rfl)
    rw [← h.oppF] at this
    exact (mem_map_inj h.injF _ _).mp this
  · intro hh x' hx' y' hy'
    obtain ⟨x, hx, rfl⟩ := List.mem_map.mp hx'
    rw [Option.mem_def, h.toEmb.sFanNext_opp x _ (h.memS x hx).2] at hy'
    cases hn : A.sFanNext (opp (heOf eA 0)) (opp x) with
    | none => rw [hn] at hy'; cases hy'
    | some y =>
      rw [hn] at hy'
      simp only [Option.map_some, Option.some.injEq] at hy'
      rw [← hy', ← h.oppF]
      exact List.mem_map.mpr ⟨opp y, hh x hx y hn, rfl⟩

/-- **transport of the single-fan predicate** -/
theorem EmbAt.singleFanU (h : EmbAt A B ιE ιF ιC S eA eB) : SingleFanU B eB ↔ SingleFanU A eA := by
  unfold SingleFanU
  rw [h.closedF, h.closedB]
  have hok : FanOK B eB ↔ FanOK A eA := by
    unfold FanOK
    rw [h.slot0, nodup_map_inj h.injF, ← h.he0]
    apply and_congr Iff.rfl
    constructor
    · intro hh x hx
      exact (h.toEmb.fanMember x _ (h.memS x hx).1 (h.memS x hx).2).mp (hh _ (List.mem_map.mpr ⟨x, hx, rfl⟩))
    · intro hh x' hx'
      obtain ⟨x, hx, rfl⟩ := List.mem_map.mp hx'
      exact (h.toEmb.fanMember x _ (h.memS x hx).1 (h.memS x hx).2).mpr (hh x hx)
  rw [hok]
  apply and_congr Iff.rfl
  apply and_congr_right; intro hcf
  apply and_congr Iff.rfl
  have hcl : ∀ hf ∈ A.hfsOf (heOf eA 0), ∀ y, A.sFanNext (heOf eA 0) hf = some y → y ∈ A.hfsOf (heOf eA 0) :=
    fun hf hm y hy => hcf hf hm y (Option.mem_def.mpr hy)
  have hit := h.toEmb.iterNext (heOf eA 0) _ (fun x hx => (h.memS x hx).1) hcl
  unfold ConnU
  rw [h.slot0, ← h.he0]
  constructor
  · intro hh a ha b hb
    have := hh (ιF a) (List.mem_map.mpr ⟨a, ha, rfl⟩) (ιF b) (List.mem_map.mpr ⟨b, hb, rfl⟩)
    rcases this with ⟨i, hi⟩ | ⟨i, hi⟩
    · rw [hit i a ha] at hi; exact Or.inl ⟨i, (omap_eq_some_inj h.injF _ _).mp hi⟩
    · rw [hit i b hb] at hi; exact Or.inr ⟨i, (omap_eq_some_inj h.injF _ _).mp hi⟩
  · intro hh a' ha' b' hb'
    obtain ⟨a, ha, rfl⟩ := List.mem_map.mp ha'
    obtain ⟨b, hb, rfl⟩ := List.mem_map.mp hb'
    rcases hh a ha b hb with ⟨i, hi⟩ | ⟨i, hi⟩
    · exact Or.inl ⟨i, by rw [hit i a ha, hi]; rfl⟩
    · exact Or.inr ⟨i, by rw [hit i b hb, hi]; rfl⟩

/-- **transport of the order predicate** (non-empty slot) -/
theorem EmbAt.fanOrdered (h : EmbAt A B ιE ιF ιC S eA eB) (hne : 1 ≤ (A.hfsOf (heOf eA 0)).length) :
    FanOrdered B eB ↔ FanOrdered A eA := by
  unfold FanOrdered
  rw [h.slot0, h.slot1, ← h.he0, List.length_map]
  have hn : ∀ i, i < (A.hfsOf (heOf eA 0)).length → ∀ y,
      (B.sFanNext (ιE (heOf eA 0)) (((A.hfsOf (heOf eA 0)).map ιF).getD i 0) = some (ιF y) ↔
       A.sFanNext (heOf eA 0) ((A.hfsOf (heOf eA 0)).getD i 0) = some y) := by
    intro i hi y
    rw [getD_map_lt _ _ _ hi, h.toEmb.sFanNext _ _ (h.memS _ (getD_mem_lt _ _ hi)).1]
    exact omap_eq_some_inj h.injF _ _
  have hnone : ∀ i, i < (A.hfsOf (heOf eA 0)).length →
      (B.sFanNext (ιE (heOf eA 0)) (((A.hfsOf (heOf eA 0)).map ιF).getD i 0) = none ↔
       A.sFanNext (heOf eA 0) ((A.hfsOf (heOf eA 0)).getD i 0) = none) := by
    intro i hi
    rw [getD_map_lt _ _ _ hi, h.toEmb.sFanNext _ _ (h.memS _ (getD_mem_lt _ _ hi)).1]
    simp
  apply and_congr
  · constructor
    · intro hh i hi
      have := hh i hi
      rw [getD_map_lt _ _ (i + 1) (by omega)] at this
      exact (hn i (by omega) _).mp this
    · intro hh i hi
      rw [getD_map_lt _ _ (i + 1) (by omega)]
      exact (hn i (by omega) _).mpr (hh i hi)
  apply and_congr
  · rw [hnone _ (by omega), getD_map_lt _ _ 0 (by omega), hn _ (by omega)]
  · rw [← List.map_reverse, List.map_map]
    have : (opp ∘ ιF) = (ιF ∘ opp) := by funext x; simp [Function.comp, h.oppF]
    rw [this, ← List.map_map, map_eq_map_inj h.injF, List.map_reverse]

end Rot
end Kernel
end OVM

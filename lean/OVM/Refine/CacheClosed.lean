import OVM.Refine.CacheGC
/-
  `Closed` (nothing live uses something flagged — the precondition of `collect_garbage`, CacheGC.lean) is
  established and kept by the closure-deleting `delete_cell / delete_face / delete_edge / delete_vertex` of
  deferred mode: the incidence queries they use (`incidentEdges/Faces/Cells`, cache-guided or linear) are
  complete for the live entities of a well-formed state (`cmpl_*`), so every live user of a newly flagged
  entity is flagged with it (`closed_of_flagged`).  `DefInvC = DefInv ∧ Closed` is the deferred-mode invariant
  from which `collect_garbage` can be run.
-/
namespace OVM
namespace Kernel
open ScanDel

/-! ## deferred closure deletion establishes `Closed` -/

/-! ### completeness of the incidence queries (for live entities of a well-formed state) -/

theorem cmpl_incidentCells {k : Kernel} (hw : WF k) (h1 : k.oneCell = true) (fs : List Nat) {c a : Nat}
    (hl : k.liveC c = true) (ha : a ∈ k.cellAt c) (hf : eOf a ∈ fs) : c ∈ k.incidentCells fs := by
  have haHF : a < k.nHF := hw.range.cells _ (cellAt_mem_cells (liveC_lt hl)) a ha
  unfold incidentCells
  split
  · rename_i hb
    rw [k4_mem_toSet, List.mem_flatMap]
    refine ⟨eOf a, hf, ?_⟩
    have hco : k.cellOf a = some c := by rw [(hw.cache.f hb).2 a haHF]; exact sCellOf_of_mem h1 haHF hl ha
    rw [List.mem_filterMap]
    refine ⟨some c, ?_, rfl⟩
    have hcase : a = heOf (eOf a) 0 ∨ a = heOf (eOf a) 1 := by unfold heOf eOf; omega
    rcases hcase with e | e
    · rw [← e, hco]; simp
    · rw [← e, hco]; simp
  · rw [k4_mem_toSet, List.mem_flatMap]
    refine ⟨eOf a, hf, ?_⟩
    rw [List.mem_filter, mem_liveCells]
    exact ⟨hl, List.any_eq_true.mpr ⟨a, ha, by simp⟩⟩

theorem cmpl_incidentFaces {k : Kernel} (hw : WF k) (es : List Nat) {f a : Nat}
    (hl : k.liveF f = true) (ha : a ∈ k.faceAt f) (he : eOf a ∈ es) : f ∈ k.incidentFaces es := by
  have haHE : a < k.nHE := hw.range.faces _ (faceAt_mem_faces (liveF_lt hl)) a ha
  unfold incidentFaces
  split
  · rename_i hb
    rw [k4_mem_toSet, List.mem_flatMap]
    refine ⟨eOf a, he, ?_⟩
    rw [List.mem_map]
    have h2e : heOf (eOf a) 0 < k.nHE := by unfold heOf eOf nHE at *; omega
    have hp := (hw.cache.e hb).2 _ h2e
    have hcase : a = 2 * eOf a ∨ a = 2 * eOf a + 1 := by unfold eOf; omega
    rcases hcase with e | e
    · refine ⟨2 * f, hp.mem_iff.mpr ?_, by unfold eOf; omega⟩
      rw [mem_sHfsOfHe]
      refine ⟨by rw [show eOf (2 * f) = f by unfold eOf; omega]; exact hl, ?_⟩
      rw [hfHes_two_mul]; show 2 * eOf a + 0 ∈ _; rw [Nat.add_zero, ← e]; exact ha
    · refine ⟨2 * f + 1, hp.mem_iff.mpr ?_, by unfold eOf; omega⟩
      rw [mem_sHfsOfHe]
      refine ⟨by rw [show eOf (2 * f + 1) = f by unfold eOf; omega]; exact hl, ?_⟩
      rw [hfHes_two_mul_succ]; unfold oppFace
      simp only [List.mem_map, List.mem_reverse]
      refine ⟨a, ha, ?_⟩
      show opp a = 2 * eOf a + 0
      rw [Nat.add_zero]; conv => lhs; rw [e]
      exact opp_two_mul_succ _
  · rw [k4_mem_toSet, List.mem_flatMap]
    refine ⟨eOf a, he, ?_⟩
    rw [List.mem_filter, mem_liveFaces]
    exact ⟨hl, List.any_eq_true.mpr ⟨a, ha, by simp⟩⟩

theorem cmpl_incidentEdges {k : Kernel} (hw : WF k) (vs : List Nat) {e : Nat}
    (hl : k.liveE e = true) (hv : (k.edgeAt e).1 ∈ vs ∨ (k.edgeAt e).2 ∈ vs) : e ∈ k.incidentEdges vs := by
  have hlt : e < k.nE := by unfold liveE at hl; simp at hl; exact hl.1
  have hr := hw.range.edges _ (k4_edgeAt_mem hlt)
  unfold incidentEdges
  split
  · rename_i hb
    rw [k4_mem_toSet, List.mem_flatMap]
    rcases hv with hv | hv
    · refine ⟨_, hv, ?_⟩
      rw [List.mem_map]
      exact ⟨2 * e, (mem_outOf_of_from hw hb hl hr.1).1 rfl, by unfold eOf; omega⟩
    · refine ⟨_, hv, ?_⟩
      rw [List.mem_map]
      exact ⟨2 * e + 1, (mem_outOf_of_from hw hb hl hr.2).2 rfl, by unfold eOf; omega⟩
  · rw [k4_mem_toSet, List.mem_flatMap]
    rcases hv with hv | hv
    · refine ⟨_, hv, ?_⟩
      rw [List.mem_filter, mem_liveEdges]
      exact ⟨hl, by simp⟩
    · refine ⟨_, hv, ?_⟩
      rw [List.mem_filter, mem_liveEdges]
      exact ⟨hl, by simp⟩

/-! ### flags after a deferred closure deletion -/

theorem flagsFold_getD (L : List Nat) (l : List Bool) (c : Nat) :
    (L.foldl (fun l h => l.set h true) l).getD c false = (l.getD c false || (decide (c ∈ L) && decide (c < l.length))) := by
  induction L generalizing l with
  | nil => simp
  | cons a t ih =>
    simp only [List.foldl_cons]
    rw [ih, ScanDel.getD_set, List.length_set]
    by_cases hac : a = c
    · subst hac
      by_cases hl : a < l.length
      · simp [hl]
      · have : l.getD a false = false := getD_of_ge _ _ _ (by omega)
        simp [hl]
    · have : c ≠ a := fun e => hac e.symm
      simp [hac, this]

theorem foldl_deleteCellCore_deferred (L : List Nat) (k : Kernel) (hd : k.deferred = true) :
    (L.foldl deleteCellCore k).deferred = true ∧ (L.foldl deleteCellCore k).nV = k.nV ∧
    (L.foldl deleteCellCore k).edges = k.edges ∧ (L.foldl deleteCellCore k).faces = k.faces ∧
    (L.foldl deleteCellCore k).cells = k.cells ∧ (L.foldl deleteCellCore k).vDel = k.vDel ∧
    (L.foldl deleteCellCore k).eDel = k.eDel ∧ (L.foldl deleteCellCore k).fDel = k.fDel ∧
    (L.foldl deleteCellCore k).cDel = L.foldl (fun l h => l.set h true) k.cDel ∧
    (L.foldl deleteCellCore k).fast = k.fast := by
  induction L generalizing k with
  | nil => exact ⟨hd, rfl, rfl, rfl, rfl, rfl, rfl, rfl, rfl, rfl⟩
  | cons a t ih =>
    simp only [List.foldl_cons]
    have h1 := ih (k.deleteCellCore a) (by simpa using hd)
    rw [deleteCellCore_deferred_eq a hd] at h1 ⊢
    simpa using h1

theorem foldl_deleteFaceCore_deferred (L : List Nat) (k : Kernel) (hd : k.deferred = true) :
    (L.foldl deleteFaceCore k).deferred = true ∧ (L.foldl deleteFaceCore k).nV = k.nV ∧
    (L.foldl deleteFaceCore k).edges = k.edges ∧ (L.foldl deleteFaceCore k).faces = k.faces ∧
    (L.foldl deleteFaceCore k).cells = k.cells ∧ (L.foldl deleteFaceCore k).vDel = k.vDel ∧
    (L.foldl deleteFaceCore k).eDel = k.eDel ∧ (L.foldl deleteFaceCore k).cDel = k.cDel ∧
    (L.foldl deleteFaceCore k).fDel = L.foldl (fun l h => l.set h true) k.fDel ∧
    (L.foldl deleteFaceCore k).fast = k.fast := by
  induction L generalizing k with
  | nil => exact ⟨hd, rfl, rfl, rfl, rfl, rfl, rfl, rfl, rfl, rfl⟩
  | cons a t ih =>
    simp only [List.foldl_cons]
    have h1 := ih (k.deleteFaceCore a) (by simpa using hd)
    rw [deleteFaceCore_deferred_eq a hd] at h1 ⊢
    simpa using h1

theorem foldl_deleteEdgeCore_deferred (L : List Nat) (k : Kernel) (hd : k.deferred = true) :
    (L.foldl deleteEdgeCore k).deferred = true ∧ (L.foldl deleteEdgeCore k).nV = k.nV ∧
    (L.foldl deleteEdgeCore k).edges = k.edges ∧ (L.foldl deleteEdgeCore k).faces = k.faces ∧
    (L.foldl deleteEdgeCore k).cells = k.cells ∧ (L.foldl deleteEdgeCore k).vDel = k.vDel ∧
    (L.foldl deleteEdgeCore k).fDel = k.fDel ∧ (L.foldl deleteEdgeCore k).cDel = k.cDel ∧
    (L.foldl deleteEdgeCore k).eDel = L.foldl (fun l h => l.set h true) k.eDel ∧
    (L.foldl deleteEdgeCore k).fast = k.fast := by
  induction L generalizing k with
  | nil => exact ⟨hd, rfl, rfl, rfl, rfl, rfl, rfl, rfl, rfl, rfl⟩
  | cons a t ih =>
    simp only [List.foldl_cons]
    have h1 := ih (k.deleteEdgeCore a) (by simpa using hd)
    rw [deleteEdgeCore_deferred_eq a hd] at h1 ⊢
    simpa using h1

/-- flagging sets of cells / faces / edges / vertices that are upward closed keeps `Closed` -/
theorem closed_of_flagged {k k' : Kernel} (hw : WF k) (hc : Closed k) (cs fs es vs : List Nat)
    (hnV : k'.nV = k.nV) (hedges : k'.edges = k.edges) (hfaces : k'.faces = k.faces) (hcells : k'.cells = k.cells)
    (hcd : k'.cDel = cs.foldl (fun l h => l.set h true) k.cDel)
    (hfd : k'.fDel = fs.foldl (fun l h => l.set h true) k.fDel)
    (hed : k'.eDel = es.foldl (fun l h => l.set h true) k.eDel)
    (hvd : k'.vDel = vs.foldl (fun l h => l.set h true) k.vDel)
    (h1 : ∀ c a, k.liveC c = true → a ∈ k.cellAt c → eOf a ∈ fs → c ∈ cs)
    (h2 : ∀ f a, k.liveF f = true → a ∈ k.faceAt f → eOf a ∈ es → f ∈ fs)
    (h3 : ∀ e, k.liveE e = true → ((k.edgeAt e).1 ∈ vs ∨ (k.edgeAt e).2 ∈ vs) → e ∈ es) : Closed k' := by
  have := hnV
  constructor
  · intro c hl a ha
    unfold liveC cDeleted nC at hl
    rw [hcells, hcd, flagsFold_getD] at hl
    simp only [Bool.and_eq_true, decide_eq_true_eq, Bool.not_eq_true', Bool.or_eq_false_iff,
      Bool.and_eq_false_iff, decide_eq_false_iff_not] at hl
    obtain ⟨hlt, hnd, hncs⟩ := hl
    have hlc : k.liveC c = true := by unfold liveC cDeleted nC; rw [hnd]; simp [hlt]
    have ha' : a ∈ k.cellAt c := by unfold cellAt at *; rwa [hcells] at ha
    have hncs' : c ∉ cs := by
      rcases hncs with h | h
      · exact h
      · exact absurd (by rw [hw.len.cDel]; exact hlt) h
    unfold fDeleted
    rw [hfd, flagsFold_getD]
    have h0 := hc.f c hlc a ha'
    unfold fDeleted at h0
    rw [h0]
    have : eOf a ∉ fs := fun hm => hncs' (h1 c a hlc ha' hm)
    simp [this]
  · intro f hl a ha
    unfold liveF fDeleted nF at hl
    rw [hfaces, hfd, flagsFold_getD] at hl
    simp only [Bool.and_eq_true, decide_eq_true_eq, Bool.not_eq_true', Bool.or_eq_false_iff,
      Bool.and_eq_false_iff, decide_eq_false_iff_not] at hl
    obtain ⟨hlt, hnd, hncs⟩ := hl
    have hlc : k.liveF f = true := by unfold liveF fDeleted nF; rw [hnd]; simp [hlt]
    have ha' : a ∈ k.faceAt f := by unfold faceAt at *; rwa [hfaces] at ha
    have hncs' : f ∉ fs := by
      rcases hncs with h | h
      · exact h
      · exact absurd (by rw [hw.len.fDel]; exact hlt) h
    unfold eDeleted
    rw [hed, flagsFold_getD]
    have h0 := hc.e f hlc a ha'
    unfold eDeleted at h0
    rw [h0]
    have : eOf a ∉ es := fun hm => hncs' (h2 f a hlc ha' hm)
    simp [this]
  · intro e hl
    unfold liveE eDeleted nE at hl
    rw [hedges, hed, flagsFold_getD] at hl
    simp only [Bool.and_eq_true, decide_eq_true_eq, Bool.not_eq_true', Bool.or_eq_false_iff,
      Bool.and_eq_false_iff, decide_eq_false_iff_not] at hl
    obtain ⟨hlt, hnd, hncs⟩ := hl
    have hlc : k.liveE e = true := by unfold liveE eDeleted nE; rw [hnd]; simp [hlt]
    have hncs' : e ∉ es := by
      rcases hncs with h | h
      · exact h
      · exact absurd (by rw [hw.len.eDel]; exact hlt) h
    have hea : k'.edgeAt e = k.edgeAt e := by unfold edgeAt; rw [hedges]
    rw [hea]
    unfold vDeleted
    rw [hvd, flagsFold_getD, flagsFold_getD]
    have h0 := hc.v e hlc
    unfold vDeleted at h0
    rw [h0.1, h0.2]
    have n1 : (k.edgeAt e).1 ∉ vs := fun hm => hncs' (h3 e hlc (Or.inl hm))
    have n2 : (k.edgeAt e).2 ∉ vs := fun hm => hncs' (h3 e hlc (Or.inr hm))
    simp [n1, n2]

/-! ### the four deferred closure deletions keep `Closed` -/

theorem closed_deleteVertex_deferred {k : Kernel} (hd : k.deferred = true) (hw : WF k) (h1 : k.oneCell = true)
    (hc : Closed k) (v : Nat) : Closed (k.deleteVertex v) := by
  unfold deleteVertex
  simp only
  generalize hes : k.incidentEdges [v] = es
  generalize hfs : k.incidentFaces es = fs
  generalize hcs : k.incidentCells fs = cs
  have a1 := foldl_deleteCellCore_deferred cs.reverse k hd
  have a2 := foldl_deleteFaceCore_deferred fs.reverse _ a1.1
  have a3 := foldl_deleteEdgeCore_deferred es.reverse _ a2.1
  generalize cs.reverse.foldl deleteCellCore k = k1 at a1 a2 a3
  generalize fs.reverse.foldl deleteFaceCore k1 = k2 at a2 a3
  generalize es.reverse.foldl deleteEdgeCore k2 = k3 at a3
  rw [deleteVertexCore_deferred_eq v a3.1]
  obtain ⟨_, b1, b2, b3, b4, b5, b6, b7, b8, _⟩ := a1
  obtain ⟨_, c1, c2, c3, c4, c5, c6, c7, c8, _⟩ := a2
  obtain ⟨_, d1, d2, d3, d4, d5, d6, d7, d8, _⟩ := a3
  apply closed_of_flagged hw hc cs.reverse fs.reverse es.reverse [v]
  · simp [d1, c1, b1]
  · simp [d2, c2, b2]
  · simp [d3, c3, b3]
  · simp [d4, c4, b4]
  · simp [d7, c7, b8]
  · simp [d6, c8, b7]
  · simp [d8, c6, b6]
  · simp [d5, c5, b5]
  · intro c a hl ha hm
    rw [List.mem_reverse] at hm ⊢
    rw [← hcs]; exact cmpl_incidentCells hw h1 fs hl ha hm
  · intro f a hl ha hm
    rw [List.mem_reverse] at hm ⊢
    rw [← hfs]; exact cmpl_incidentFaces hw es hl ha hm
  · intro e hl hm
    rw [List.mem_reverse, ← hes]; exact cmpl_incidentEdges hw [v] hl hm

theorem closed_deleteEdge_deferred {k : Kernel} (hd : k.deferred = true) (hw : WF k) (h1 : k.oneCell = true)
    (hc : Closed k) (e : Nat) : Closed (k.deleteEdge e) := by
  unfold deleteEdge
  simp only
  generalize hfs : k.incidentFaces [e] = fs
  generalize hcs : k.incidentCells fs = cs
  have a1 := foldl_deleteCellCore_deferred cs.reverse k hd
  have a2 := foldl_deleteFaceCore_deferred fs.reverse _ a1.1
  generalize cs.reverse.foldl deleteCellCore k = k1 at a1 a2
  generalize fs.reverse.foldl deleteFaceCore k1 = k2 at a2
  rw [deleteEdgeCore_deferred_eq e a2.1]
  obtain ⟨_, b1, b2, b3, b4, b5, b6, b7, b8, _⟩ := a1
  obtain ⟨_, c1, c2, c3, c4, c5, c6, c7, c8, _⟩ := a2
  apply closed_of_flagged hw hc cs.reverse fs.reverse [e] []
  · simp [c1, b1]
  · simp [c2, b2]
  · simp [c3, b3]
  · simp [c4, b4]
  · simp [c7, b8]
  · simp [c8, b7]
  · simp [c6, b6]
  · simp [c5, b5]
  · intro c a hl ha hm
    rw [List.mem_reverse] at hm ⊢
    rw [← hcs]; exact cmpl_incidentCells hw h1 fs hl ha hm
  · intro f a hl ha hm
    rw [List.mem_reverse, ← hfs]; exact cmpl_incidentFaces hw [e] hl ha hm
  · intro e' _ hm; simp at hm

theorem closed_deleteFace_deferred {k : Kernel} (hd : k.deferred = true) (hw : WF k) (h1 : k.oneCell = true)
    (hc : Closed k) (f : Nat) : Closed (k.deleteFace f) := by
  unfold deleteFace
  simp only
  generalize hcs : k.incidentCells [f] = cs
  have a1 := foldl_deleteCellCore_deferred cs.reverse k hd
  generalize cs.reverse.foldl deleteCellCore k = k1 at a1
  rw [deleteFaceCore_deferred_eq f a1.1]
  obtain ⟨_, b1, b2, b3, b4, b5, b6, b7, b8, _⟩ := a1
  apply closed_of_flagged hw hc cs.reverse [f] [] []
  · simp [b1]
  · simp [b2]
  · simp [b3]
  · simp [b4]
  · simp [b8]
  · simp [b7]
  · simp [b6]
  · simp [b5]
  · intro c a hl ha hm
    rw [List.mem_reverse, ← hcs]; exact cmpl_incidentCells hw h1 [f] hl ha hm
  · intro f' a _ _ hm; simp at hm
  · intro e' _ hm; simp at hm

theorem closed_deleteCell_deferred {k : Kernel} (hd : k.deferred = true) (hw : WF k)
    (hc : Closed k) (c : Nat) : Closed (k.deleteCell c) := by
  unfold deleteCell
  rw [deleteCellCore_deferred_eq c hd]
  apply closed_of_flagged hw hc [c] [] [] []
  · simp
  · simp
  · simp
  · simp
  · simp
  · simp
  · simp
  · simp
  · intro c' a _ _ hm; simp at hm
  · intro f' a _ _ hm; simp at hm
  · intro e' _ hm; simp at hm

/-- deferred mode, `WF`, `oneCell`, closure-consistent flags: kept by every deferred `delete_*` -/
def DefInvC (k : Kernel) : Prop := DefInv k ∧ Closed k

theorem defInvC_deleteCell {k : Kernel} (c : Nat) (hi : DefInvC k) : DefInvC (k.deleteCell c) :=
  ⟨defInv_deleteCell c hi.1, closed_deleteCell_deferred hi.1.1 hi.1.2.1 hi.2 c⟩
theorem defInvC_deleteFace {k : Kernel} (f : Nat) (hi : DefInvC k) : DefInvC (k.deleteFace f) :=
  ⟨defInv_deleteFace f hi.1, closed_deleteFace_deferred hi.1.1 hi.1.2.1 hi.1.2.2 hi.2 f⟩
theorem defInvC_deleteEdge {k : Kernel} (e : Nat) (hi : DefInvC k) : DefInvC (k.deleteEdge e) :=
  ⟨defInv_deleteEdge e hi.1, closed_deleteEdge_deferred hi.1.1 hi.1.2.1 hi.1.2.2 hi.2 e⟩
theorem defInvC_deleteVertex {k : Kernel} (v : Nat) (hi : DefInvC k) : DefInvC (k.deleteVertex v) :=
  ⟨defInv_deleteVertex v hi.1, closed_deleteVertex_deferred hi.1.1 hi.1.2.1 hi.1.2.2 hi.2 v⟩

/-- a state without flagged cells / faces / edges / vertices is closure-consistent -/
theorem closed_of_allLive {k : Kernel} (hf : FacesLive k) (he : EdgesLive k) (hv : VertsLive k) (hr : RangeInv k) :
    Closed k := by
  constructor
  · intro c hl a ha
    have := hr.cells _ (cellAt_mem_cells (liveC_lt hl)) a ha
    exact hf _ (by unfold nHF eOf nF at *; omega)
  · intro f hl a ha
    have := hr.faces _ (faceAt_mem_faces (liveF_lt hl)) a ha
    exact he _ (by unfold nHE eOf nE at *; omega)
  · intro e hl
    have hlt : e < k.nE := by unfold liveE at hl; simp at hl; exact hl.1
    have := hr.edges _ (k4_edgeAt_mem hlt)
    exact ⟨hv _ this.1, hv _ this.2⟩

/-- deferred deletions do not touch the fast-deletion switch -/
theorem deleteOps_deferred_fast {k : Kernel} (hd : k.deferred = true) (x : Nat) :
    (k.deleteCell x).fast = k.fast ∧ (k.deleteFace x).fast = k.fast ∧ (k.deleteEdge x).fast = k.fast ∧
    (k.deleteVertex x).fast = k.fast := by
  refine ⟨by unfold deleteCell; simp, ?_, ?_, ?_⟩
  · unfold deleteFace; simp only [deleteFaceCore_fast]
    exact (foldl_deleteCellCore_deferred _ k hd).2.2.2.2.2.2.2.2.2
  · unfold deleteEdge; simp only [deleteEdgeCore_fast]
    have a1 := foldl_deleteCellCore_deferred (k.incidentCells (k.incidentFaces [x])).reverse k hd
    have a2 := foldl_deleteFaceCore_deferred (k.incidentFaces [x]).reverse _ a1.1
    exact a2.2.2.2.2.2.2.2.2.2.trans a1.2.2.2.2.2.2.2.2.2
  · unfold deleteVertex; simp only [deleteVertexCore_fast]
    have a1 := foldl_deleteCellCore_deferred
      (k.incidentCells (k.incidentFaces (k.incidentEdges [x]))).reverse k hd
    have a2 := foldl_deleteFaceCore_deferred (k.incidentFaces (k.incidentEdges [x])).reverse _ a1.1
    have a3 := foldl_deleteEdgeCore_deferred (k.incidentEdges [x]).reverse _ a2.1
    exact a3.2.2.2.2.2.2.2.2.2.trans (a2.2.2.2.2.2.2.2.2.2.trans a1.2.2.2.2.2.2.2.2.2)

end Kernel
end OVM

import OVM.Refine.GlobalLoops
import OVM.Props.C11
/-
  More derived queries on `GInv` states: the six boundary iterators, edge → cells, vertex → halffaces; the executable
  form `faceCycB` of `FaceCyc` (the extra hypothesis of vertex → cells) and its establishment by a checked `add_face`.
-/
namespace OVM
namespace Kernel
namespace Global
open ScanDel

/-! ### the boundary iterators: the entity iterator filtered by `is_boundary` -/

theorem filter_congr' {α} (l : List α) (p q : α → Bool) (h : ∀ x ∈ l, p x = q x) : l.filter p = l.filter q := by
  induction l with
  | nil => rfl
  | cons a t ih =>
    simp only [List.filter_cons]
    rw [h a (List.mem_cons_self), ih (fun x hx => h x (List.mem_cons_of_mem _ hx))]

theorem qBIC_exact {k : Kernel} (hw : WF k) (hb : k.fBU = true) : k.qBIC = k.liveCells.filter k.sBoundaryC := by
  unfold qBIC
  exact filter_congr' _ _ _ (fun c hc => qBoundaryC_exact hw hb (liveC_lt ((mem_liveCells k c).mp hc)))

theorem qBIF_exact {k : Kernel} (hw : WF k) (hb : k.fBU = true) : k.qBIF = k.liveFaces.filter k.sBoundaryF := by
  unfold qBIF; simp only [hb, if_true]
  exact filter_congr' _ _ _ (fun f hf =>
    Props.C01.is_boundary_face_exact k hw.cache hb f (liveF_lt ((mem_liveFaces k f).mp hf)))

theorem qBIHF_exact {k : Kernel} (hw : WF k) (hb : k.fBU = true) :
    k.qBIHF = ((List.range k.nHF).filter (fun h => !k.fDeleted (eOf h))).filter k.sBoundaryHF := by
  unfold qBIHF; simp only [hb, if_true]
  exact filter_congr' _ _ _ (fun h hh =>
    Props.C01.is_boundary_halfface_exact k hw.cache hb h (List.mem_range.mp (List.mem_filter.mp hh).1))

theorem qBIE_exact {k : Kernel} (hw : WF k) (he : k.eBU = true) (hb : k.fBU = true) :
    k.qBIE = k.liveEdges.filter k.sBoundaryE := by
  unfold qBIE; simp only [he, hb, Bool.and_self, if_true]
  refine filter_congr' _ _ _ (fun e hm => qBoundaryE_exact hw he hb ?_)
  have := (mem_liveEdges k e).mp hm
  unfold Kernel.liveE at this; simp at this; exact this.1

theorem qBIHE_exact {k : Kernel} (hw : WF k) (he : k.eBU = true) (hb : k.fBU = true) :
    k.qBIHE = ((List.range k.nHE).filter (fun h => !k.eDeleted (eOf h))).filter k.sBoundaryHE := by
  unfold qBIHE; simp only [he, hb, Bool.and_self, if_true]
  exact filter_congr' _ _ _ (fun h hh => qBoundaryHE_exact hw he hb (List.mem_range.mp (List.mem_filter.mp hh).1))

theorem qBIV_exact {k : Kernel} (hw : WF k) (hv : k.vBU = true) (he : k.eBU = true) (hb : k.fBU = true) :
    k.qBIV = k.liveVerts.filter k.sBoundaryV := by
  unfold qBIV fullBU; simp only [hv, he, hb, Bool.and_self, if_true]
  refine filter_congr' _ _ _ (fun v hm => qBoundaryV_exact hw hv he hb ?_)
  unfold liveVerts at hm
  exact List.mem_range.mp (List.mem_filter.mp hm).1

/-- edge → cells is halfedge → cells of the edge's first halfedge -/
theorem qEC_exact {k : Kernel} (hw : WF k) (h1 : k.oneCell = true) (he : k.eBU = true) (hb : k.fBU = true)
    {e : Nat} (hlt : e < k.nE) : (k.qEC e).Perm (k.sHEC (heOf e 0)) ∧ (k.qEC e).Nodup := by
  unfold qEC
  exact qHEC_exact hw h1 he hb (by unfold heOf Kernel.nHE Kernel.nE at *; omega)

/-! ### `FaceCyc` as an executable test (for the judge: evaluated on every dumped state) -/

def faceCycB (k : Kernel) : Bool :=
  k.liveFaces.all (fun f => (k.faceAt f).all (fun x =>
    (k.faceAt f).any (fun y => k.fromV y == k.toV x) && (k.faceAt f).any (fun z => k.toV z == k.fromV x)))

theorem faceCyc_of_B {k : Kernel} (h : faceCycB k = true) : FaceCyc k := by
  intro f hl x hx
  unfold faceCycB at h
  rw [List.all_eq_true] at h
  have := h f ((mem_liveFaces k f).mpr hl)
  rw [List.all_eq_true] at this
  have := this x hx
  simp only [Bool.and_eq_true, List.any_eq_true, beq_iff_eq] at this
  exact this

/-- a face accepted by the topology check of `add_face` is cyclically connected (Props/C11 `faceLoopOk_iff`) -/
theorem cyc_of_checked {k : Kernel} {hes : List Nat} (h : k.faceLoopOk hes = some true) :
    ∀ x ∈ hes, (∃ y ∈ hes, k.fromV y = k.toV x) ∧ (∃ z ∈ hes, k.toV z = k.fromV x) :=
  cyc_of_closedLoop ((Props.C11.faceLoopOk_iff k hes).mp h)

/-! ### vertex → halffaces -/

theorem pairwise_halves : ∀ (l : List Nat), l.Pairwise (· < ·) →
    (l.flatMap (fun f => [2 * f, 2 * f + 1])).Pairwise (· < ·)
  | [], _ => List.Pairwise.nil
  | a :: t, h => by
    rw [List.pairwise_cons] at h
    simp only [List.flatMap_cons]
    rw [List.pairwise_append]
    refine ⟨by simp, pairwise_halves t h.2, ?_⟩
    intro x hx y hy
    rw [List.mem_flatMap] at hy
    obtain ⟨f, hf, hy⟩ := hy
    have := h.1 f hf
    simp only [List.mem_cons, List.mem_nil_iff, or_false] at hx hy
    rcases hx with rfl | rfl <;> rcases hy with rfl | rfl <;> omega

/-- **vertex → halffaces**: both halffaces of every live face touching the vertex, ascending -/
theorem qVHF_exact {k : Kernel} (hw : WF k) (hc : Closed k) (hv : k.vBU = true) (he : k.eBU = true)
    {v : Nat} (hlt : v < k.nV) : k.qVHF v = k.sVHF v := by
  unfold qVHF sVHF sVF qVE qEHF qVOH qHEHF
  simp only [hv, he, if_true]
  apply sortUniq_eq_of_mem (pairwise_halves _ ((liveFaces_pairwise k).filter _))
  intro x
  have hperm := (hw.cache.v hv).2 v hlt
  have hlt' : ∀ h, h ∈ k.sOut v → heOf (eOf h) 0 < k.nHE := fun h hm => by
    have hl := (mem_sOut hm).2
    unfold Kernel.liveE at hl; simp at hl
    have := hl.1; unfold heOf Kernel.nHE Kernel.nE at *; omega
  have heo : ∀ h, eOf (heOf (eOf h) 0) = eOf h := fun h => by unfold heOf eOf; omega
  have hx2 : ∀ f, (x ∈ [2 * f, 2 * f + 1]) ↔ eOf x = f := by
    intro f; simp only [List.mem_cons, List.mem_nil_iff, or_false]; unfold eOf; omega
  rw [List.mem_flatMap, List.mem_flatMap]
  constructor
  · rintro ⟨e, hem, hxm⟩
    obtain ⟨h, hh, rfl⟩ := List.mem_map.mp hem
    have hs := hperm.mem_iff.mp hh
    obtain ⟨hf, hhf, hxhf⟩ := List.mem_flatMap.mp hxm
    obtain ⟨hl, hhe⟩ := (mem_faces_of_he hw he (hlt' h hs) (eOf hf)).mp (List.mem_map.mpr ⟨hf, hhf, rfl⟩)
    rw [heo] at hhe
    have hex : eOf x = eOf hf := by
      simp only [List.mem_cons, List.mem_nil_iff, or_false] at hxhf
      rcases hxhf with rfl | rfl
      · rfl
      · exact eOf_opp hf
    refine ⟨eOf hf, ?_, (hx2 _).mpr hex⟩
    rw [List.mem_filter, mem_liveFaces]
    exact ⟨hl, (faceTouchesV_iff hw hc hl v).mpr ⟨h, hs, (faceHasEdge_iff k _ h).mp hhe⟩⟩
  · rintro ⟨f, hfm, hxf⟩
    rw [List.mem_filter, mem_liveFaces] at hfm
    obtain ⟨h, hs, hm⟩ := (faceTouchesV_iff hw hc hfm.1 v).mp hfm.2
    have hhe : k.faceHasEdge f (eOf (heOf (eOf h) 0)) = true := by rw [heo]; exact (faceHasEdge_iff k f h).mpr hm
    obtain ⟨hf, hhf, e⟩ := List.mem_map.mp ((mem_faces_of_he hw he (hlt' h hs) f).mpr ⟨hfm.1, hhe⟩)
    refine ⟨eOf h, List.mem_map.mpr ⟨h, hperm.mem_iff.mpr hs, rfl⟩, List.mem_flatMap.mpr ⟨hf, hhf, ?_⟩⟩
    have : eOf x = eOf hf := by rw [e]; exact (hx2 f).mp hxf
    simp only [List.mem_cons, List.mem_nil_iff, or_false]
    exact same_edge_cases this

end Global
end Kernel
end OVM

import OVM.Kernel.Frames
/-
  Frame lemmas for the stages of `delete_*_core` and for `collect_garbage`: which fields each
  stage leaves alone / how it changes the others.  (statement list generated; every proof is by
  unfolding the stage)
-/
namespace OVM
namespace Kernel

macro "frame_tac" : tactic => `(tactic| ((try simp only []) <;> (try (repeat' split)) <;> (first | rfl | simp | simp_all)))

/-- a fold of a field-preserving step preserves the field -/
theorem foldl_frame {α β} (proj : Kernel → α) (step : Kernel → β → Kernel) (h : ∀ k x, proj (step k x) = proj k)
    (xs : List β) (k : Kernel) : proj (xs.foldl step k) = proj k := by
  induction xs generalizing k with
  | nil => rfl
  | cons x t ih => simp only [List.foldl_cons]; rw [ih, h]

section stages
variable (k : Kernel) (h : Nat)

@[simp] theorem unlinkCell_nV : (k.unlinkCell h).nV = k.nV := by unfold unlinkCell; frame_tac
@[simp] theorem unlinkCell_edges : (k.unlinkCell h).edges = k.edges := by unfold unlinkCell; frame_tac
@[simp] theorem unlinkCell_faces : (k.unlinkCell h).faces = k.faces := by unfold unlinkCell; frame_tac
@[simp] theorem unlinkCell_cells : (k.unlinkCell h).cells = k.cells := by unfold unlinkCell; frame_tac
@[simp] theorem unlinkCell_vDel : (k.unlinkCell h).vDel = k.vDel := by unfold unlinkCell; frame_tac
@[simp] theorem unlinkCell_eDel : (k.unlinkCell h).eDel = k.eDel := by unfold unlinkCell; frame_tac
@[simp] theorem unlinkCell_fDel : (k.unlinkCell h).fDel = k.fDel := by unfold unlinkCell; frame_tac
@[simp] theorem unlinkCell_cDel : (k.unlinkCell h).cDel = k.cDel := by unfold unlinkCell; frame_tac
@[simp] theorem unlinkCell_nDelV : (k.unlinkCell h).nDelV = k.nDelV := by unfold unlinkCell; frame_tac
@[simp] theorem unlinkCell_nDelE : (k.unlinkCell h).nDelE = k.nDelE := by unfold unlinkCell; frame_tac
@[simp] theorem unlinkCell_nDelF : (k.unlinkCell h).nDelF = k.nDelF := by unfold unlinkCell; frame_tac
@[simp] theorem unlinkCell_nDelC : (k.unlinkCell h).nDelC = k.nDelC := by unfold unlinkCell; frame_tac
@[simp] theorem unlinkCell_deferred : (k.unlinkCell h).deferred = k.deferred := by unfold unlinkCell; frame_tac
@[simp] theorem unlinkCell_fast : (k.unlinkCell h).fast = k.fast := by unfold unlinkCell; frame_tac
@[simp] theorem unlinkCell_vBU : (k.unlinkCell h).vBU = k.vBU := by unfold unlinkCell; frame_tac
@[simp] theorem unlinkCell_eBU : (k.unlinkCell h).eBU = k.eBU := by unfold unlinkCell; frame_tac
@[simp] theorem unlinkCell_fBU : (k.unlinkCell h).fBU = k.fBU := by unfold unlinkCell; frame_tac
@[simp] theorem unlinkCell_outHes : (k.unlinkCell h).outHes = k.outHes := by unfold unlinkCell; frame_tac
@[simp] theorem unlinkCell_props : (k.unlinkCell h).props = k.props := by unfold unlinkCell; frame_tac
@[simp] theorem flagCell_nV : (k.flagCell h).nV = k.nV := by unfold flagCell; frame_tac
@[simp] theorem flagCell_edges : (k.flagCell h).edges = k.edges := by unfold flagCell; frame_tac
@[simp] theorem flagCell_faces : (k.flagCell h).faces = k.faces := by unfold flagCell; frame_tac
@[simp] theorem flagCell_cells : (k.flagCell h).cells = k.cells := by unfold flagCell; frame_tac
@[simp] theorem flagCell_vDel : (k.flagCell h).vDel = k.vDel := by unfold flagCell; frame_tac
@[simp] theorem flagCell_eDel : (k.flagCell h).eDel = k.eDel := by unfold flagCell; frame_tac
@[simp] theorem flagCell_fDel : (k.flagCell h).fDel = k.fDel := by unfold flagCell; frame_tac
@[simp] theorem flagCell_cDel : (k.flagCell h).cDel = k.cDel.set h true := by unfold flagCell; frame_tac
@[simp] theorem flagCell_nDelV : (k.flagCell h).nDelV = k.nDelV := by unfold flagCell; frame_tac
@[simp] theorem flagCell_nDelE : (k.flagCell h).nDelE = k.nDelE := by unfold flagCell; frame_tac
@[simp] theorem flagCell_nDelF : (k.flagCell h).nDelF = k.nDelF := by unfold flagCell; frame_tac
@[simp] theorem flagCell_nDelC : (k.flagCell h).nDelC = k.nDelC + 1 := by unfold flagCell; frame_tac
@[simp] theorem flagCell_deferred : (k.flagCell h).deferred = k.deferred := by unfold flagCell; frame_tac
@[simp] theorem flagCell_fast : (k.flagCell h).fast = k.fast := by unfold flagCell; frame_tac
@[simp] theorem flagCell_vBU : (k.flagCell h).vBU = k.vBU := by unfold flagCell; frame_tac
@[simp] theorem flagCell_eBU : (k.flagCell h).eBU = k.eBU := by unfold flagCell; frame_tac
@[simp] theorem flagCell_fBU : (k.flagCell h).fBU = k.fBU := by unfold flagCell; frame_tac
@[simp] theorem flagCell_outHes : (k.flagCell h).outHes = k.outHes := by unfold flagCell; frame_tac
@[simp] theorem flagCell_incHfs : (k.flagCell h).incHfs = k.incHfs := by unfold flagCell; frame_tac
@[simp] theorem flagCell_incCell : (k.flagCell h).incCell = k.incCell := by unfold flagCell; frame_tac
@[simp] theorem flagCell_props : (k.flagCell h).props = k.props := by unfold flagCell; frame_tac
@[simp] theorem eraseCell_nV : (k.eraseCell h).nV = k.nV := by unfold eraseCell; frame_tac
@[simp] theorem eraseCell_edges : (k.eraseCell h).edges = k.edges := by unfold eraseCell; frame_tac
@[simp] theorem eraseCell_faces : (k.eraseCell h).faces = k.faces := by unfold eraseCell; frame_tac
@[simp] theorem eraseCell_cells : (k.eraseCell h).cells = k.cells.eraseIdx h := by unfold eraseCell; frame_tac
@[simp] theorem eraseCell_vDel : (k.eraseCell h).vDel = k.vDel := by unfold eraseCell; frame_tac
@[simp] theorem eraseCell_eDel : (k.eraseCell h).eDel = k.eDel := by unfold eraseCell; frame_tac
@[simp] theorem eraseCell_fDel : (k.eraseCell h).fDel = k.fDel := by unfold eraseCell; frame_tac
@[simp] theorem eraseCell_cDel : (k.eraseCell h).cDel = k.cDel.eraseIdx h := by unfold eraseCell; frame_tac
@[simp] theorem eraseCell_nDelV : (k.eraseCell h).nDelV = k.nDelV := by unfold eraseCell; frame_tac
@[simp] theorem eraseCell_nDelE : (k.eraseCell h).nDelE = k.nDelE := by unfold eraseCell; frame_tac
@[simp] theorem eraseCell_nDelF : (k.eraseCell h).nDelF = k.nDelF := by unfold eraseCell; frame_tac
@[simp] theorem eraseCell_nDelC : (k.eraseCell h).nDelC = k.nDelC := by unfold eraseCell; frame_tac
@[simp] theorem eraseCell_deferred : (k.eraseCell h).deferred = k.deferred := by unfold eraseCell; frame_tac
@[simp] theorem eraseCell_fast : (k.eraseCell h).fast = k.fast := by unfold eraseCell; frame_tac
@[simp] theorem eraseCell_vBU : (k.eraseCell h).vBU = k.vBU := by unfold eraseCell; frame_tac
@[simp] theorem eraseCell_eBU : (k.eraseCell h).eBU = k.eBU := by unfold eraseCell; frame_tac
@[simp] theorem eraseCell_fBU : (k.eraseCell h).fBU = k.fBU := by unfold eraseCell; frame_tac
@[simp] theorem eraseCell_outHes : (k.eraseCell h).outHes = k.outHes := by unfold eraseCell; frame_tac
@[simp] theorem eraseCell_incHfs : (k.eraseCell h).incHfs = k.incHfs := by unfold eraseCell; frame_tac
@[simp] theorem eraseCell_props : (k.eraseCell h).props = cellDeleted k.props h := by unfold eraseCell; frame_tac
@[simp] theorem flagFace_nV : (k.flagFace h).nV = k.nV := by unfold flagFace; frame_tac
@[simp] theorem flagFace_edges : (k.flagFace h).edges = k.edges := by unfold flagFace; frame_tac
@[simp] theorem flagFace_faces : (k.flagFace h).faces = k.faces := by unfold flagFace; frame_tac
@[simp] theorem flagFace_cells : (k.flagFace h).cells = k.cells := by unfold flagFace; frame_tac
@[simp] theorem flagFace_vDel : (k.flagFace h).vDel = k.vDel := by unfold flagFace; frame_tac
@[simp] theorem flagFace_eDel : (k.flagFace h).eDel = k.eDel := by unfold flagFace; frame_tac
@[simp] theorem flagFace_fDel : (k.flagFace h).fDel = k.fDel.set h true := by unfold flagFace; frame_tac
@[simp] theorem flagFace_cDel : (k.flagFace h).cDel = k.cDel := by unfold flagFace; frame_tac
@[simp] theorem flagFace_nDelV : (k.flagFace h).nDelV = k.nDelV := by unfold flagFace; frame_tac
@[simp] theorem flagFace_nDelE : (k.flagFace h).nDelE = k.nDelE := by unfold flagFace; frame_tac
@[simp] theorem flagFace_nDelF : (k.flagFace h).nDelF = k.nDelF + 1 := by unfold flagFace; frame_tac
@[simp] theorem flagFace_nDelC : (k.flagFace h).nDelC = k.nDelC := by unfold flagFace; frame_tac
@[simp] theorem flagFace_deferred : (k.flagFace h).deferred = k.deferred := by unfold flagFace; frame_tac
@[simp] theorem flagFace_fast : (k.flagFace h).fast = k.fast := by unfold flagFace; frame_tac
@[simp] theorem flagFace_vBU : (k.flagFace h).vBU = k.vBU := by unfold flagFace; frame_tac
@[simp] theorem flagFace_eBU : (k.flagFace h).eBU = k.eBU := by unfold flagFace; frame_tac
@[simp] theorem flagFace_fBU : (k.flagFace h).fBU = k.fBU := by unfold flagFace; frame_tac
@[simp] theorem flagFace_outHes : (k.flagFace h).outHes = k.outHes := by unfold flagFace; frame_tac
@[simp] theorem flagFace_incHfs : (k.flagFace h).incHfs = k.incHfs := by unfold flagFace; frame_tac
@[simp] theorem flagFace_incCell : (k.flagFace h).incCell = k.incCell := by unfold flagFace; frame_tac
@[simp] theorem flagFace_props : (k.flagFace h).props = k.props := by unfold flagFace; frame_tac
@[simp] theorem eraseFace_nV : (k.eraseFace h).nV = k.nV := by unfold eraseFace; frame_tac
@[simp] theorem eraseFace_edges : (k.eraseFace h).edges = k.edges := by unfold eraseFace; frame_tac
@[simp] theorem eraseFace_faces : (k.eraseFace h).faces = k.faces.eraseIdx h := by unfold eraseFace; frame_tac
@[simp] theorem eraseFace_vDel : (k.eraseFace h).vDel = k.vDel := by unfold eraseFace; frame_tac
@[simp] theorem eraseFace_eDel : (k.eraseFace h).eDel = k.eDel := by unfold eraseFace; frame_tac
@[simp] theorem eraseFace_fDel : (k.eraseFace h).fDel = k.fDel.eraseIdx h := by unfold eraseFace; frame_tac
@[simp] theorem eraseFace_cDel : (k.eraseFace h).cDel = k.cDel := by unfold eraseFace; frame_tac
@[simp] theorem eraseFace_nDelV : (k.eraseFace h).nDelV = k.nDelV := by unfold eraseFace; frame_tac
@[simp] theorem eraseFace_nDelE : (k.eraseFace h).nDelE = k.nDelE := by unfold eraseFace; frame_tac
@[simp] theorem eraseFace_nDelF : (k.eraseFace h).nDelF = k.nDelF := by unfold eraseFace; frame_tac
@[simp] theorem eraseFace_nDelC : (k.eraseFace h).nDelC = k.nDelC := by unfold eraseFace; frame_tac
@[simp] theorem eraseFace_deferred : (k.eraseFace h).deferred = k.deferred := by unfold eraseFace; frame_tac
@[simp] theorem eraseFace_fast : (k.eraseFace h).fast = k.fast := by unfold eraseFace; frame_tac
@[simp] theorem eraseFace_vBU : (k.eraseFace h).vBU = k.vBU := by unfold eraseFace; frame_tac
@[simp] theorem eraseFace_eBU : (k.eraseFace h).eBU = k.eBU := by unfold eraseFace; frame_tac
@[simp] theorem eraseFace_fBU : (k.eraseFace h).fBU = k.fBU := by unfold eraseFace; frame_tac
@[simp] theorem eraseFace_outHes : (k.eraseFace h).outHes = k.outHes := by unfold eraseFace; frame_tac
@[simp] theorem eraseFace_props : (k.eraseFace h).props = faceDeleted k.props h := by unfold eraseFace; frame_tac
@[simp] theorem unlinkEdge_nV : (k.unlinkEdge h).nV = k.nV := by unfold unlinkEdge; frame_tac
@[simp] theorem unlinkEdge_edges : (k.unlinkEdge h).edges = k.edges := by unfold unlinkEdge; frame_tac
@[simp] theorem unlinkEdge_faces : (k.unlinkEdge h).faces = k.faces := by unfold unlinkEdge; frame_tac
@[simp] theorem unlinkEdge_cells : (k.unlinkEdge h).cells = k.cells := by unfold unlinkEdge; frame_tac
@[simp] theorem unlinkEdge_vDel : (k.unlinkEdge h).vDel = k.vDel := by unfold unlinkEdge; frame_tac
@[simp] theorem unlinkEdge_eDel : (k.unlinkEdge h).eDel = k.eDel := by unfold unlinkEdge; frame_tac
@[simp] theorem unlinkEdge_fDel : (k.unlinkEdge h).fDel = k.fDel := by unfold unlinkEdge; frame_tac
@[simp] theorem unlinkEdge_cDel : (k.unlinkEdge h).cDel = k.cDel := by unfold unlinkEdge; frame_tac
@[simp] theorem unlinkEdge_nDelV : (k.unlinkEdge h).nDelV = k.nDelV := by unfold unlinkEdge; frame_tac
@[simp] theorem unlinkEdge_nDelE : (k.unlinkEdge h).nDelE = k.nDelE := by unfold unlinkEdge; frame_tac
@[simp] theorem unlinkEdge_nDelF : (k.unlinkEdge h).nDelF = k.nDelF := by unfold unlinkEdge; frame_tac
@[simp] theorem unlinkEdge_nDelC : (k.unlinkEdge h).nDelC = k.nDelC := by unfold unlinkEdge; frame_tac
@[simp] theorem unlinkEdge_deferred : (k.unlinkEdge h).deferred = k.deferred := by unfold unlinkEdge; frame_tac
@[simp] theorem unlinkEdge_fast : (k.unlinkEdge h).fast = k.fast := by unfold unlinkEdge; frame_tac
@[simp] theorem unlinkEdge_vBU : (k.unlinkEdge h).vBU = k.vBU := by unfold unlinkEdge; frame_tac
@[simp] theorem unlinkEdge_eBU : (k.unlinkEdge h).eBU = k.eBU := by unfold unlinkEdge; frame_tac
@[simp] theorem unlinkEdge_fBU : (k.unlinkEdge h).fBU = k.fBU := by unfold unlinkEdge; frame_tac
@[simp] theorem unlinkEdge_incHfs : (k.unlinkEdge h).incHfs = k.incHfs := by unfold unlinkEdge; frame_tac
@[simp] theorem unlinkEdge_incCell : (k.unlinkEdge h).incCell = k.incCell := by unfold unlinkEdge; frame_tac
@[simp] theorem unlinkEdge_props : (k.unlinkEdge h).props = k.props := by unfold unlinkEdge; frame_tac
@[simp] theorem flagEdge_nV : (k.flagEdge h).nV = k.nV := by unfold flagEdge; frame_tac
@[simp] theorem flagEdge_edges : (k.flagEdge h).edges = k.edges := by unfold flagEdge; frame_tac
@[simp] theorem flagEdge_faces : (k.flagEdge h).faces = k.faces := by unfold flagEdge; frame_tac
@[simp] theorem flagEdge_cells : (k.flagEdge h).cells = k.cells := by unfold flagEdge; frame_tac
@[simp] theorem flagEdge_vDel : (k.flagEdge h).vDel = k.vDel := by unfold flagEdge; frame_tac
@[simp] theorem flagEdge_eDel : (k.flagEdge h).eDel = k.eDel.set h true := by unfold flagEdge; frame_tac
@[simp] theorem flagEdge_fDel : (k.flagEdge h).fDel = k.fDel := by unfold flagEdge; frame_tac
@[simp] theorem flagEdge_cDel : (k.flagEdge h).cDel = k.cDel := by unfold flagEdge; frame_tac
@[simp] theorem flagEdge_nDelV : (k.flagEdge h).nDelV = k.nDelV := by unfold flagEdge; frame_tac
@[simp] theorem flagEdge_nDelE : (k.flagEdge h).nDelE = k.nDelE + 1 := by unfold flagEdge; frame_tac
@[simp] theorem flagEdge_nDelF : (k.flagEdge h).nDelF = k.nDelF := by unfold flagEdge; frame_tac
@[simp] theorem flagEdge_nDelC : (k.flagEdge h).nDelC = k.nDelC := by unfold flagEdge; frame_tac
@[simp] theorem flagEdge_deferred : (k.flagEdge h).deferred = k.deferred := by unfold flagEdge; frame_tac
@[simp] theorem flagEdge_fast : (k.flagEdge h).fast = k.fast := by unfold flagEdge; frame_tac
@[simp] theorem flagEdge_vBU : (k.flagEdge h).vBU = k.vBU := by unfold flagEdge; frame_tac
@[simp] theorem flagEdge_eBU : (k.flagEdge h).eBU = k.eBU := by unfold flagEdge; frame_tac
@[simp] theorem flagEdge_fBU : (k.flagEdge h).fBU = k.fBU := by unfold flagEdge; frame_tac
@[simp] theorem flagEdge_outHes : (k.flagEdge h).outHes = k.outHes := by unfold flagEdge; frame_tac
@[simp] theorem flagEdge_incHfs : (k.flagEdge h).incHfs = k.incHfs := by unfold flagEdge; frame_tac
@[simp] theorem flagEdge_incCell : (k.flagEdge h).incCell = k.incCell := by unfold flagEdge; frame_tac
@[simp] theorem flagEdge_props : (k.flagEdge h).props = k.props := by unfold flagEdge; frame_tac
@[simp] theorem eraseEdge_nV : (k.eraseEdge h).nV = k.nV := by unfold eraseEdge; frame_tac
@[simp] theorem eraseEdge_edges : (k.eraseEdge h).edges = k.edges.eraseIdx h := by unfold eraseEdge; frame_tac
@[simp] theorem eraseEdge_cells : (k.eraseEdge h).cells = k.cells := by unfold eraseEdge; frame_tac
@[simp] theorem eraseEdge_vDel : (k.eraseEdge h).vDel = k.vDel := by unfold eraseEdge; frame_tac
@[simp] theorem eraseEdge_eDel : (k.eraseEdge h).eDel = k.eDel.eraseIdx h := by unfold eraseEdge; frame_tac
@[simp] theorem eraseEdge_fDel : (k.eraseEdge h).fDel = k.fDel := by unfold eraseEdge; frame_tac
@[simp] theorem eraseEdge_cDel : (k.eraseEdge h).cDel = k.cDel := by unfold eraseEdge; frame_tac
@[simp] theorem eraseEdge_nDelV : (k.eraseEdge h).nDelV = k.nDelV := by unfold eraseEdge; frame_tac
@[simp] theorem eraseEdge_nDelE : (k.eraseEdge h).nDelE = k.nDelE := by unfold eraseEdge; frame_tac
@[simp] theorem eraseEdge_nDelF : (k.eraseEdge h).nDelF = k.nDelF := by unfold eraseEdge; frame_tac
@[simp] theorem eraseEdge_nDelC : (k.eraseEdge h).nDelC = k.nDelC := by unfold eraseEdge; frame_tac
@[simp] theorem eraseEdge_deferred : (k.eraseEdge h).deferred = k.deferred := by unfold eraseEdge; frame_tac
@[simp] theorem eraseEdge_fast : (k.eraseEdge h).fast = k.fast := by unfold eraseEdge; frame_tac
@[simp] theorem eraseEdge_vBU : (k.eraseEdge h).vBU = k.vBU := by unfold eraseEdge; frame_tac
@[simp] theorem eraseEdge_eBU : (k.eraseEdge h).eBU = k.eBU := by unfold eraseEdge; frame_tac
@[simp] theorem eraseEdge_fBU : (k.eraseEdge h).fBU = k.fBU := by unfold eraseEdge; frame_tac
@[simp] theorem eraseEdge_incCell : (k.eraseEdge h).incCell = k.incCell := by unfold eraseEdge; frame_tac
@[simp] theorem eraseEdge_props : (k.eraseEdge h).props = edgeDeleted k.props h := by unfold eraseEdge; frame_tac
@[simp] theorem flagVertex_nV : (k.flagVertex h).nV = k.nV := by unfold flagVertex; frame_tac
@[simp] theorem flagVertex_edges : (k.flagVertex h).edges = k.edges := by unfold flagVertex; frame_tac
@[simp] theorem flagVertex_faces : (k.flagVertex h).faces = k.faces := by unfold flagVertex; frame_tac
@[simp] theorem flagVertex_cells : (k.flagVertex h).cells = k.cells := by unfold flagVertex; frame_tac
@[simp] theorem flagVertex_vDel : (k.flagVertex h).vDel = k.vDel.set h true := by unfold flagVertex; frame_tac
@[simp] theorem flagVertex_eDel : (k.flagVertex h).eDel = k.eDel := by unfold flagVertex; frame_tac
@[simp] theorem flagVertex_fDel : (k.flagVertex h).fDel = k.fDel := by unfold flagVertex; frame_tac
@[simp] theorem flagVertex_cDel : (k.flagVertex h).cDel = k.cDel := by unfold flagVertex; frame_tac
@[simp] theorem flagVertex_nDelV : (k.flagVertex h).nDelV = k.nDelV + 1 := by unfold flagVertex; frame_tac
@[simp] theorem flagVertex_nDelE : (k.flagVertex h).nDelE = k.nDelE := by unfold flagVertex; frame_tac
@[simp] theorem flagVertex_nDelF : (k.flagVertex h).nDelF = k.nDelF := by unfold flagVertex; frame_tac
@[simp] theorem flagVertex_nDelC : (k.flagVertex h).nDelC = k.nDelC := by unfold flagVertex; frame_tac
@[simp] theorem flagVertex_deferred : (k.flagVertex h).deferred = k.deferred := by unfold flagVertex; frame_tac
@[simp] theorem flagVertex_fast : (k.flagVertex h).fast = k.fast := by unfold flagVertex; frame_tac
@[simp] theorem flagVertex_vBU : (k.flagVertex h).vBU = k.vBU := by unfold flagVertex; frame_tac
@[simp] theorem flagVertex_eBU : (k.flagVertex h).eBU = k.eBU := by unfold flagVertex; frame_tac
@[simp] theorem flagVertex_fBU : (k.flagVertex h).fBU = k.fBU := by unfold flagVertex; frame_tac
@[simp] theorem flagVertex_outHes : (k.flagVertex h).outHes = k.outHes := by unfold flagVertex; frame_tac
@[simp] theorem flagVertex_incHfs : (k.flagVertex h).incHfs = k.incHfs := by unfold flagVertex; frame_tac
@[simp] theorem flagVertex_incCell : (k.flagVertex h).incCell = k.incCell := by unfold flagVertex; frame_tac
@[simp] theorem flagVertex_props : (k.flagVertex h).props = k.props := by unfold flagVertex; frame_tac
@[simp] theorem eraseVertex_nV : (k.eraseVertex h).nV = k.nV - 1 := by unfold eraseVertex; frame_tac
@[simp] theorem eraseVertex_faces : (k.eraseVertex h).faces = k.faces := by unfold eraseVertex; frame_tac
@[simp] theorem eraseVertex_cells : (k.eraseVertex h).cells = k.cells := by unfold eraseVertex; frame_tac
@[simp] theorem eraseVertex_vDel : (k.eraseVertex h).vDel = k.vDel.eraseIdx h := by unfold eraseVertex; frame_tac
@[simp] theorem eraseVertex_eDel : (k.eraseVertex h).eDel = k.eDel := by unfold eraseVertex; frame_tac
@[simp] theorem eraseVertex_fDel : (k.eraseVertex h).fDel = k.fDel := by unfold eraseVertex; frame_tac
@[simp] theorem eraseVertex_cDel : (k.eraseVertex h).cDel = k.cDel := by unfold eraseVertex; frame_tac
@[simp] theorem eraseVertex_nDelV : (k.eraseVertex h).nDelV = k.nDelV := by unfold eraseVertex; frame_tac
@[simp] theorem eraseVertex_nDelE : (k.eraseVertex h).nDelE = k.nDelE := by unfold eraseVertex; frame_tac
@[simp] theorem eraseVertex_nDelF : (k.eraseVertex h).nDelF = k.nDelF := by unfold eraseVertex; frame_tac
@[simp] theorem eraseVertex_nDelC : (k.eraseVertex h).nDelC = k.nDelC := by unfold eraseVertex; frame_tac
@[simp] theorem eraseVertex_deferred : (k.eraseVertex h).deferred = k.deferred := by unfold eraseVertex; frame_tac
@[simp] theorem eraseVertex_fast : (k.eraseVertex h).fast = k.fast := by unfold eraseVertex; frame_tac
@[simp] theorem eraseVertex_vBU : (k.eraseVertex h).vBU = k.vBU := by unfold eraseVertex; frame_tac
@[simp] theorem eraseVertex_eBU : (k.eraseVertex h).eBU = k.eBU := by unfold eraseVertex; frame_tac
@[simp] theorem eraseVertex_fBU : (k.eraseVertex h).fBU = k.fBU := by unfold eraseVertex; frame_tac
@[simp] theorem eraseVertex_incHfs : (k.eraseVertex h).incHfs = k.incHfs := by unfold eraseVertex; frame_tac
@[simp] theorem eraseVertex_incCell : (k.eraseVertex h).incCell = k.incCell := by unfold eraseVertex; frame_tac
@[simp] theorem eraseVertex_props : (k.eraseVertex h).props = vertexDeleted k.props h := by unfold eraseVertex; frame_tac
@[simp] theorem unlinkFaceStep_nV (he : Nat) : (unlinkFaceStep h k he).nV = k.nV := by unfold unlinkFaceStep; frame_tac
@[simp] theorem unlinkFaceStep_edges (he : Nat) : (unlinkFaceStep h k he).edges = k.edges := by unfold unlinkFaceStep; frame_tac
@[simp] theorem unlinkFaceStep_faces (he : Nat) : (unlinkFaceStep h k he).faces = k.faces := by unfold unlinkFaceStep; frame_tac
@[simp] theorem unlinkFaceStep_cells (he : Nat) : (unlinkFaceStep h k he).cells = k.cells := by unfold unlinkFaceStep; frame_tac
@[simp] theorem unlinkFaceStep_vDel (he : Nat) : (unlinkFaceStep h k he).vDel = k.vDel := by unfold unlinkFaceStep; frame_tac
@[simp] theorem unlinkFaceStep_eDel (he : Nat) : (unlinkFaceStep h k he).eDel = k.eDel := by unfold unlinkFaceStep; frame_tac
@[simp] theorem unlinkFaceStep_fDel (he : Nat) : (unlinkFaceStep h k he).fDel = k.fDel := by unfold unlinkFaceStep; frame_tac
@[simp] theorem unlinkFaceStep_cDel (he : Nat) : (unlinkFaceStep h k he).cDel = k.cDel := by unfold unlinkFaceStep; frame_tac
@[simp] theorem unlinkFaceStep_nDelV (he : Nat) : (unlinkFaceStep h k he).nDelV = k.nDelV := by unfold unlinkFaceStep; frame_tac
@[simp] theorem unlinkFaceStep_nDelE (he : Nat) : (unlinkFaceStep h k he).nDelE = k.nDelE := by unfold unlinkFaceStep; frame_tac
@[simp] theorem unlinkFaceStep_nDelF (he : Nat) : (unlinkFaceStep h k he).nDelF = k.nDelF := by unfold unlinkFaceStep; frame_tac
@[simp] theorem unlinkFaceStep_nDelC (he : Nat) : (unlinkFaceStep h k he).nDelC = k.nDelC := by unfold unlinkFaceStep; frame_tac
@[simp] theorem unlinkFaceStep_deferred (he : Nat) : (unlinkFaceStep h k he).deferred = k.deferred := by unfold unlinkFaceStep; frame_tac
@[simp] theorem unlinkFaceStep_fast (he : Nat) : (unlinkFaceStep h k he).fast = k.fast := by unfold unlinkFaceStep; frame_tac
@[simp] theorem unlinkFaceStep_vBU (he : Nat) : (unlinkFaceStep h k he).vBU = k.vBU := by unfold unlinkFaceStep; frame_tac
@[simp] theorem unlinkFaceStep_eBU (he : Nat) : (unlinkFaceStep h k he).eBU = k.eBU := by unfold unlinkFaceStep; frame_tac
@[simp] theorem unlinkFaceStep_fBU (he : Nat) : (unlinkFaceStep h k he).fBU = k.fBU := by unfold unlinkFaceStep; frame_tac
@[simp] theorem unlinkFaceStep_outHes (he : Nat) : (unlinkFaceStep h k he).outHes = k.outHes := by unfold unlinkFaceStep; frame_tac
@[simp] theorem unlinkFaceStep_incCell (he : Nat) : (unlinkFaceStep h k he).incCell = k.incCell := by unfold unlinkFaceStep; frame_tac
@[simp] theorem unlinkFaceStep_props (he : Nat) : (unlinkFaceStep h k he).props = k.props := by unfold unlinkFaceStep; frame_tac
@[simp] theorem unlinkFace_nV : (k.unlinkFace h).nV = k.nV := by
  unfold unlinkFace; split
  · exact foldl_frame (·.nV) (unlinkFaceStep h) (fun k x => unlinkFaceStep_nV k h x) _ k
  · rfl
@[simp] theorem unlinkFace_edges : (k.unlinkFace h).edges = k.edges := by
  unfold unlinkFace; split
  · exact foldl_frame (·.edges) (unlinkFaceStep h) (fun k x => unlinkFaceStep_edges k h x) _ k
  · rfl
@[simp] theorem unlinkFace_faces : (k.unlinkFace h).faces = k.faces := by
  unfold unlinkFace; split
  · exact foldl_frame (·.faces) (unlinkFaceStep h) (fun k x => unlinkFaceStep_faces k h x) _ k
  · rfl
@[simp] theorem unlinkFace_cells : (k.unlinkFace h).cells = k.cells := by
  unfold unlinkFace; split
  · exact foldl_frame (·.cells) (unlinkFaceStep h) (fun k x => unlinkFaceStep_cells k h x) _ k
  · rfl
@[simp] theorem unlinkFace_vDel : (k.unlinkFace h).vDel = k.vDel := by
  unfold unlinkFace; split
  · exact foldl_frame (·.vDel) (unlinkFaceStep h) (fun k x => unlinkFaceStep_vDel k h x) _ k
  · rfl
@[simp] theorem unlinkFace_eDel : (k.unlinkFace h).eDel = k.eDel := by
  unfold unlinkFace; split
  · exact foldl_frame (·.eDel) (unlinkFaceStep h) (fun k x => unlinkFaceStep_eDel k h x) _ k
  · rfl
@[simp] theorem unlinkFace_fDel : (k.unlinkFace h).fDel = k.fDel := by
  unfold unlinkFace; split
  · exact foldl_frame (·.fDel) (unlinkFaceStep h) (fun k x => unlinkFaceStep_fDel k h x) _ k
  · rfl
@[simp] theorem unlinkFace_cDel : (k.unlinkFace h).cDel = k.cDel := by
  unfold unlinkFace; split
  · exact foldl_frame (·.cDel) (unlinkFaceStep h) (fun k x => unlinkFaceStep_cDel k h x) _ k
  · rfl
@[simp] theorem unlinkFace_nDelV : (k.unlinkFace h).nDelV = k.nDelV := by
  unfold unlinkFace; split
  · exact foldl_frame (·.nDelV) (unlinkFaceStep h) (fun k x => unlinkFaceStep_nDelV k h x) _ k
  · rfl
@[simp] theorem unlinkFace_nDelE : (k.unlinkFace h).nDelE = k.nDelE := by
  unfold unlinkFace; split
  · exact foldl_frame (·.nDelE) (unlinkFaceStep h) (fun k x => unlinkFaceStep_nDelE k h x) _ k
  · rfl
@[simp] theorem unlinkFace_nDelF : (k.unlinkFace h).nDelF = k.nDelF := by
  unfold unlinkFace; split
  · exact foldl_frame (·.nDelF) (unlinkFaceStep h) (fun k x => unlinkFaceStep_nDelF k h x) _ k
  · rfl
@[simp] theorem unlinkFace_nDelC : (k.unlinkFace h).nDelC = k.nDelC := by
  unfold unlinkFace; split
  · exact foldl_frame (·.nDelC) (unlinkFaceStep h) (fun k x => unlinkFaceStep_nDelC k h x) _ k
  · rfl
@[simp] theorem unlinkFace_deferred : (k.unlinkFace h).deferred = k.deferred := by
  unfold unlinkFace; split
  · exact foldl_frame (·.deferred) (unlinkFaceStep h) (fun k x => unlinkFaceStep_deferred k h x) _ k
  · rfl
@[simp] theorem unlinkFace_fast : (k.unlinkFace h).fast = k.fast := by
  unfold unlinkFace; split
  · exact foldl_frame (·.fast) (unlinkFaceStep h) (fun k x => unlinkFaceStep_fast k h x) _ k
  · rfl
@[simp] theorem unlinkFace_vBU : (k.unlinkFace h).vBU = k.vBU := by
  unfold unlinkFace; split
  · exact foldl_frame (·.vBU) (unlinkFaceStep h) (fun k x => unlinkFaceStep_vBU k h x) _ k
  · rfl
@[simp] theorem unlinkFace_eBU : (k.unlinkFace h).eBU = k.eBU := by
  unfold unlinkFace; split
  · exact foldl_frame (·.eBU) (unlinkFaceStep h) (fun k x => unlinkFaceStep_eBU k h x) _ k
  · rfl
@[simp] theorem unlinkFace_fBU : (k.unlinkFace h).fBU = k.fBU := by
  unfold unlinkFace; split
  · exact foldl_frame (·.fBU) (unlinkFaceStep h) (fun k x => unlinkFaceStep_fBU k h x) _ k
  · rfl
@[simp] theorem unlinkFace_outHes : (k.unlinkFace h).outHes = k.outHes := by
  unfold unlinkFace; split
  · exact foldl_frame (·.outHes) (unlinkFaceStep h) (fun k x => unlinkFaceStep_outHes k h x) _ k
  · rfl
@[simp] theorem unlinkFace_incCell : (k.unlinkFace h).incCell = k.incCell := by
  unfold unlinkFace; split
  · exact foldl_frame (·.incCell) (unlinkFaceStep h) (fun k x => unlinkFaceStep_incCell k h x) _ k
  · rfl
@[simp] theorem unlinkFace_props : (k.unlinkFace h).props = k.props := by
  unfold unlinkFace; split
  · exact foldl_frame (·.props) (unlinkFaceStep h) (fun k x => unlinkFaceStep_props k h x) _ k
  · rfl
end stages

section cores
variable (k : Kernel) (h : Nat)
@[simp] theorem deleteCellCore_deferred : (k.deleteCellCore h).deferred = k.deferred := by unfold deleteCellCore; frame_tac
@[simp] theorem deleteCellCore_fast : (k.deleteCellCore h).fast = k.fast := by unfold deleteCellCore; frame_tac
@[simp] theorem deleteCellCore_vBU : (k.deleteCellCore h).vBU = k.vBU := by unfold deleteCellCore; frame_tac
@[simp] theorem deleteCellCore_eBU : (k.deleteCellCore h).eBU = k.eBU := by unfold deleteCellCore; frame_tac
@[simp] theorem deleteCellCore_fBU : (k.deleteCellCore h).fBU = k.fBU := by unfold deleteCellCore; frame_tac
@[simp] theorem deleteFaceCore_deferred : (k.deleteFaceCore h).deferred = k.deferred := by unfold deleteFaceCore; frame_tac
@[simp] theorem deleteFaceCore_fast : (k.deleteFaceCore h).fast = k.fast := by unfold deleteFaceCore; frame_tac
@[simp] theorem deleteFaceCore_vBU : (k.deleteFaceCore h).vBU = k.vBU := by unfold deleteFaceCore; frame_tac
@[simp] theorem deleteFaceCore_eBU : (k.deleteFaceCore h).eBU = k.eBU := by unfold deleteFaceCore; frame_tac
@[simp] theorem deleteFaceCore_fBU : (k.deleteFaceCore h).fBU = k.fBU := by unfold deleteFaceCore; frame_tac
@[simp] theorem deleteEdgeCore_deferred : (k.deleteEdgeCore h).deferred = k.deferred := by unfold deleteEdgeCore; frame_tac
@[simp] theorem deleteEdgeCore_fast : (k.deleteEdgeCore h).fast = k.fast := by unfold deleteEdgeCore; frame_tac
@[simp] theorem deleteEdgeCore_vBU : (k.deleteEdgeCore h).vBU = k.vBU := by unfold deleteEdgeCore; frame_tac
@[simp] theorem deleteEdgeCore_eBU : (k.deleteEdgeCore h).eBU = k.eBU := by unfold deleteEdgeCore; frame_tac
@[simp] theorem deleteEdgeCore_fBU : (k.deleteEdgeCore h).fBU = k.fBU := by unfold deleteEdgeCore; frame_tac
@[simp] theorem deleteVertexCore_deferred : (k.deleteVertexCore h).deferred = k.deferred := by unfold deleteVertexCore; frame_tac
@[simp] theorem deleteVertexCore_fast : (k.deleteVertexCore h).fast = k.fast := by unfold deleteVertexCore; frame_tac
@[simp] theorem deleteVertexCore_vBU : (k.deleteVertexCore h).vBU = k.vBU := by unfold deleteVertexCore; frame_tac
@[simp] theorem deleteVertexCore_eBU : (k.deleteVertexCore h).eBU = k.eBU := by unfold deleteVertexCore; frame_tac
@[simp] theorem deleteVertexCore_fBU : (k.deleteVertexCore h).fBU = k.fBU := by unfold deleteVertexCore; frame_tac
end cores

/-! in immediate mode (`deferred = false`) no core touches a pending-deletion counter -/
section coresImmediate
variable (k : Kernel) (h : Nat) (hd : k.deferred = false)
include hd
theorem deleteCellCore_nDelV_imm : (k.deleteCellCore h).nDelV = k.nDelV := by unfold deleteCellCore; simp only [hd]; cases hf : k.fast <;> simp [hd]
theorem deleteCellCore_nDelE_imm : (k.deleteCellCore h).nDelE = k.nDelE := by unfold deleteCellCore; simp only [hd]; cases hf : k.fast <;> simp [hd]
theorem deleteCellCore_nDelF_imm : (k.deleteCellCore h).nDelF = k.nDelF := by unfold deleteCellCore; simp only [hd]; cases hf : k.fast <;> simp [hd]
theorem deleteCellCore_nDelC_imm : (k.deleteCellCore h).nDelC = k.nDelC := by unfold deleteCellCore; simp only [hd]; cases hf : k.fast <;> simp [hd]
theorem deleteFaceCore_nDelV_imm : (k.deleteFaceCore h).nDelV = k.nDelV := by unfold deleteFaceCore; simp only [hd]; cases hf : k.fast <;> simp [hd]
theorem deleteFaceCore_nDelE_imm : (k.deleteFaceCore h).nDelE = k.nDelE := by unfold deleteFaceCore; simp only [hd]; cases hf : k.fast <;> simp [hd]
theorem deleteFaceCore_nDelF_imm : (k.deleteFaceCore h).nDelF = k.nDelF := by unfold deleteFaceCore; simp only [hd]; cases hf : k.fast <;> simp [hd]
theorem deleteFaceCore_nDelC_imm : (k.deleteFaceCore h).nDelC = k.nDelC := by unfold deleteFaceCore; simp only [hd]; cases hf : k.fast <;> simp [hd]
theorem deleteEdgeCore_nDelV_imm : (k.deleteEdgeCore h).nDelV = k.nDelV := by unfold deleteEdgeCore; simp only [hd]; cases hf : k.fast <;> simp [hd]
theorem deleteEdgeCore_nDelE_imm : (k.deleteEdgeCore h).nDelE = k.nDelE := by unfold deleteEdgeCore; simp only [hd]; cases hf : k.fast <;> simp [hd]
theorem deleteEdgeCore_nDelF_imm : (k.deleteEdgeCore h).nDelF = k.nDelF := by unfold deleteEdgeCore; simp only [hd]; cases hf : k.fast <;> simp [hd]
theorem deleteEdgeCore_nDelC_imm : (k.deleteEdgeCore h).nDelC = k.nDelC := by unfold deleteEdgeCore; simp only [hd]; cases hf : k.fast <;> simp [hd]
theorem deleteVertexCore_nDelV_imm : (k.deleteVertexCore h).nDelV = k.nDelV := by unfold deleteVertexCore; simp only [hd]; cases hf : k.fast <;> simp [hd]
theorem deleteVertexCore_nDelE_imm : (k.deleteVertexCore h).nDelE = k.nDelE := by unfold deleteVertexCore; simp only [hd]; cases hf : k.fast <;> simp [hd]
theorem deleteVertexCore_nDelF_imm : (k.deleteVertexCore h).nDelF = k.nDelF := by unfold deleteVertexCore; simp only [hd]; cases hf : k.fast <;> simp [hd]
theorem deleteVertexCore_nDelC_imm : (k.deleteVertexCore h).nDelC = k.nDelC := by unfold deleteVertexCore; simp only [hd]; cases hf : k.fast <;> simp [hd]
end coresImmediate

/-- a sweep of `collect_garbage` keeps a field that every core and every un-flagging keeps
    (possibly under an invariant `P` of the state that they also keep) -/
theorem gcSweep_frame {α} (proj : Kernel → α) (P : Kernel → Prop) (isDel : Kernel → Nat → Bool)
    (unflag core : Kernel → Nat → Kernel)
    (hu : ∀ k i, P k → proj (unflag k i) = proj k ∧ P (unflag k i))
    (hc : ∀ k i, P k → proj (core k i) = proj k ∧ P (core k i)) (k : Kernel) (hk : P k) (n : Nat) :
    proj (gcSweep k n isDel unflag core) = proj k ∧ P (gcSweep k n isDel unflag core) := by
  unfold gcSweep
  generalize (List.range n).reverse = xs
  induction xs generalizing k with
  | nil => exact ⟨rfl, hk⟩
  | cons x t ih =>
    simp only [List.foldl_cons]
    split
    · have a := hu k x hk
      have b := hc _ x a.2
      have c := ih _ b.2
      exact ⟨c.1.trans (b.1.trans a.1), c.2⟩
    · exact ih k hk

end Kernel
end OVM

import OVM.Kernel.Frames
/-
  Frame lemmas for the stages of `delete_*_core` and for `collect_garbage`: modes and
  incidence flags never change; counters change only where a stage says so.
  (generated list of statements; each proof is by unfolding the stage)
-/
namespace OVM
namespace Kernel

macro "frame_tac" : tactic => `(tactic| ((try simp only []) <;> (try (repeat' split)) <;> (first | rfl | simp | simp_all)))

/-- a fold of a flag-preserving step preserves the flag -/
theorem foldl_frame {α β} (proj : Kernel → α) (step : Kernel → β → Kernel) (h : ∀ k x, proj (step k x) = proj k)
    (xs : List β) (k : Kernel) : proj (xs.foldl step k) = proj k := by
  induction xs generalizing k with
  | nil => rfl
  | cons x t ih => simp only [List.foldl_cons]; rw [ih, h]

section stages
variable (k : Kernel) (h : Nat)

@[simp] theorem unlinkCell_deferred : (k.unlinkCell h).deferred = k.deferred := by unfold unlinkCell; frame_tac
@[simp] theorem unlinkCell_fast : (k.unlinkCell h).fast = k.fast := by unfold unlinkCell; frame_tac
@[simp] theorem unlinkCell_vBU : (k.unlinkCell h).vBU = k.vBU := by unfold unlinkCell; frame_tac
@[simp] theorem unlinkCell_eBU : (k.unlinkCell h).eBU = k.eBU := by unfold unlinkCell; frame_tac
@[simp] theorem unlinkCell_fBU : (k.unlinkCell h).fBU = k.fBU := by unfold unlinkCell; frame_tac
@[simp] theorem unlinkCell_nDelV : (k.unlinkCell h).nDelV = k.nDelV := by unfold unlinkCell; frame_tac
@[simp] theorem unlinkCell_nDelE : (k.unlinkCell h).nDelE = k.nDelE := by unfold unlinkCell; frame_tac
@[simp] theorem unlinkCell_nDelF : (k.unlinkCell h).nDelF = k.nDelF := by unfold unlinkCell; frame_tac
@[simp] theorem unlinkCell_nDelC : (k.unlinkCell h).nDelC = k.nDelC := by unfold unlinkCell; frame_tac
@[simp] theorem flagCell_deferred : (k.flagCell h).deferred = k.deferred := by unfold flagCell; frame_tac
@[simp] theorem flagCell_fast : (k.flagCell h).fast = k.fast := by unfold flagCell; frame_tac
@[simp] theorem flagCell_vBU : (k.flagCell h).vBU = k.vBU := by unfold flagCell; frame_tac
@[simp] theorem flagCell_eBU : (k.flagCell h).eBU = k.eBU := by unfold flagCell; frame_tac
@[simp] theorem flagCell_fBU : (k.flagCell h).fBU = k.fBU := by unfold flagCell; frame_tac
@[simp] theorem flagCell_nDelV : (k.flagCell h).nDelV = k.nDelV := by unfold flagCell; frame_tac
@[simp] theorem flagCell_nDelE : (k.flagCell h).nDelE = k.nDelE := by unfold flagCell; frame_tac
@[simp] theorem flagCell_nDelF : (k.flagCell h).nDelF = k.nDelF := by unfold flagCell; frame_tac
@[simp] theorem flagCell_nDelC : (k.flagCell h).nDelC = k.nDelC + 1 := by unfold flagCell; frame_tac
@[simp] theorem eraseCell_deferred : (k.eraseCell h).deferred = k.deferred := by unfold eraseCell; frame_tac
@[simp] theorem eraseCell_fast : (k.eraseCell h).fast = k.fast := by unfold eraseCell; frame_tac
@[simp] theorem eraseCell_vBU : (k.eraseCell h).vBU = k.vBU := by unfold eraseCell; frame_tac
@[simp] theorem eraseCell_eBU : (k.eraseCell h).eBU = k.eBU := by unfold eraseCell; frame_tac
@[simp] theorem eraseCell_fBU : (k.eraseCell h).fBU = k.fBU := by unfold eraseCell; frame_tac
@[simp] theorem eraseCell_nDelV : (k.eraseCell h).nDelV = k.nDelV := by unfold eraseCell; frame_tac
@[simp] theorem eraseCell_nDelE : (k.eraseCell h).nDelE = k.nDelE := by unfold eraseCell; frame_tac
@[simp] theorem eraseCell_nDelF : (k.eraseCell h).nDelF = k.nDelF := by unfold eraseCell; frame_tac
@[simp] theorem eraseCell_nDelC : (k.eraseCell h).nDelC = k.nDelC := by unfold eraseCell; frame_tac
@[simp] theorem flagFace_deferred : (k.flagFace h).deferred = k.deferred := by unfold flagFace; frame_tac
@[simp] theorem flagFace_fast : (k.flagFace h).fast = k.fast := by unfold flagFace; frame_tac
@[simp] theorem flagFace_vBU : (k.flagFace h).vBU = k.vBU := by unfold flagFace; frame_tac
@[simp] theorem flagFace_eBU : (k.flagFace h).eBU = k.eBU := by unfold flagFace; frame_tac
@[simp] theorem flagFace_fBU : (k.flagFace h).fBU = k.fBU := by unfold flagFace; frame_tac
@[simp] theorem flagFace_nDelV : (k.flagFace h).nDelV = k.nDelV := by unfold flagFace; frame_tac
@[simp] theorem flagFace_nDelE : (k.flagFace h).nDelE = k.nDelE := by unfold flagFace; frame_tac
@[simp] theorem flagFace_nDelF : (k.flagFace h).nDelF = k.nDelF + 1 := by unfold flagFace; frame_tac
@[simp] theorem flagFace_nDelC : (k.flagFace h).nDelC = k.nDelC := by unfold flagFace; frame_tac
@[simp] theorem eraseFace_deferred : (k.eraseFace h).deferred = k.deferred := by unfold eraseFace; frame_tac
@[simp] theorem eraseFace_fast : (k.eraseFace h).fast = k.fast := by unfold eraseFace; frame_tac
@[simp] theorem eraseFace_vBU : (k.eraseFace h).vBU = k.vBU := by unfold eraseFace; frame_tac
@[simp] theorem eraseFace_eBU : (k.eraseFace h).eBU = k.eBU := by unfold eraseFace; frame_tac
@[simp] theorem eraseFace_fBU : (k.eraseFace h).fBU = k.fBU := by unfold eraseFace; frame_tac
@[simp] theorem eraseFace_nDelV : (k.eraseFace h).nDelV = k.nDelV := by unfold eraseFace; frame_tac
@[simp] theorem eraseFace_nDelE : (k.eraseFace h).nDelE = k.nDelE := by unfold eraseFace; frame_tac
@[simp] theorem eraseFace_nDelF : (k.eraseFace h).nDelF = k.nDelF := by unfold eraseFace; frame_tac
@[simp] theorem eraseFace_nDelC : (k.eraseFace h).nDelC = k.nDelC := by unfold eraseFace; frame_tac
@[simp] theorem unlinkEdge_deferred : (k.unlinkEdge h).deferred = k.deferred := by unfold unlinkEdge; frame_tac
@[simp] theorem unlinkEdge_fast : (k.unlinkEdge h).fast = k.fast := by unfold unlinkEdge; frame_tac
@[simp] theorem unlinkEdge_vBU : (k.unlinkEdge h).vBU = k.vBU := by unfold unlinkEdge; frame_tac
@[simp] theorem unlinkEdge_eBU : (k.unlinkEdge h).eBU = k.eBU := by unfold unlinkEdge; frame_tac
@[simp] theorem unlinkEdge_fBU : (k.unlinkEdge h).fBU = k.fBU := by unfold unlinkEdge; frame_tac
@[simp] theorem unlinkEdge_nDelV : (k.unlinkEdge h).nDelV = k.nDelV := by unfold unlinkEdge; frame_tac
@[simp] theorem unlinkEdge_nDelE : (k.unlinkEdge h).nDelE = k.nDelE := by unfold unlinkEdge; frame_tac
@[simp] theorem unlinkEdge_nDelF : (k.unlinkEdge h).nDelF = k.nDelF := by unfold unlinkEdge; frame_tac
@[simp] theorem unlinkEdge_nDelC : (k.unlinkEdge h).nDelC = k.nDelC := by unfold unlinkEdge; frame_tac
@[simp] theorem flagEdge_deferred : (k.flagEdge h).deferred = k.deferred := by unfold flagEdge; frame_tac
@[simp] theorem flagEdge_fast : (k.flagEdge h).fast = k.fast := by unfold flagEdge; frame_tac
@[simp] theorem flagEdge_vBU : (k.flagEdge h).vBU = k.vBU := by unfold flagEdge; frame_tac
@[simp] theorem flagEdge_eBU : (k.flagEdge h).eBU = k.eBU := by unfold flagEdge; frame_tac
@[simp] theorem flagEdge_fBU : (k.flagEdge h).fBU = k.fBU := by unfold flagEdge; frame_tac
@[simp] theorem flagEdge_nDelV : (k.flagEdge h).nDelV = k.nDelV := by unfold flagEdge; frame_tac
@[simp] theorem flagEdge_nDelE : (k.flagEdge h).nDelE = k.nDelE + 1 := by unfold flagEdge; frame_tac
@[simp] theorem flagEdge_nDelF : (k.flagEdge h).nDelF = k.nDelF := by unfold flagEdge; frame_tac
@[simp] theorem flagEdge_nDelC : (k.flagEdge h).nDelC = k.nDelC := by unfold flagEdge; frame_tac
@[simp] theorem eraseEdge_deferred : (k.eraseEdge h).deferred = k.deferred := by unfold eraseEdge; frame_tac
@[simp] theorem eraseEdge_fast : (k.eraseEdge h).fast = k.fast := by unfold eraseEdge; frame_tac
@[simp] theorem eraseEdge_vBU : (k.eraseEdge h).vBU = k.vBU := by unfold eraseEdge; frame_tac
@[simp] theorem eraseEdge_eBU : (k.eraseEdge h).eBU = k.eBU := by unfold eraseEdge; frame_tac
@[simp] theorem eraseEdge_fBU : (k.eraseEdge h).fBU = k.fBU := by unfold eraseEdge; frame_tac
@[simp] theorem eraseEdge_nDelV : (k.eraseEdge h).nDelV = k.nDelV := by unfold eraseEdge; frame_tac
@[simp] theorem eraseEdge_nDelE : (k.eraseEdge h).nDelE = k.nDelE := by unfold eraseEdge; frame_tac
@[simp] theorem eraseEdge_nDelF : (k.eraseEdge h).nDelF = k.nDelF := by unfold eraseEdge; frame_tac
@[simp] theorem eraseEdge_nDelC : (k.eraseEdge h).nDelC = k.nDelC := by unfold eraseEdge; frame_tac
@[simp] theorem flagVertex_deferred : (k.flagVertex h).deferred = k.deferred := by unfold flagVertex; frame_tac
@[simp] theorem flagVertex_fast : (k.flagVertex h).fast = k.fast := by unfold flagVertex; frame_tac
@[simp] theorem flagVertex_vBU : (k.flagVertex h).vBU = k.vBU := by unfold flagVertex; frame_tac
@[simp] theorem flagVertex_eBU : (k.flagVertex h).eBU = k.eBU := by unfold flagVertex; frame_tac
@[simp] theorem flagVertex_fBU : (k.flagVertex h).fBU = k.fBU := by unfold flagVertex; frame_tac
@[simp] theorem flagVertex_nDelV : (k.flagVertex h).nDelV = k.nDelV + 1 := by unfold flagVertex; frame_tac
@[simp] theorem flagVertex_nDelE : (k.flagVertex h).nDelE = k.nDelE := by unfold flagVertex; frame_tac
@[simp] theorem flagVertex_nDelF : (k.flagVertex h).nDelF = k.nDelF := by unfold flagVertex; frame_tac
@[simp] theorem flagVertex_nDelC : (k.flagVertex h).nDelC = k.nDelC := by unfold flagVertex; frame_tac
@[simp] theorem eraseVertex_deferred : (k.eraseVertex h).deferred = k.deferred := by unfold eraseVertex; frame_tac
@[simp] theorem eraseVertex_fast : (k.eraseVertex h).fast = k.fast := by unfold eraseVertex; frame_tac
@[simp] theorem eraseVertex_vBU : (k.eraseVertex h).vBU = k.vBU := by unfold eraseVertex; frame_tac
@[simp] theorem eraseVertex_eBU : (k.eraseVertex h).eBU = k.eBU := by unfold eraseVertex; frame_tac
@[simp] theorem eraseVertex_fBU : (k.eraseVertex h).fBU = k.fBU := by unfold eraseVertex; frame_tac
@[simp] theorem eraseVertex_nDelV : (k.eraseVertex h).nDelV = k.nDelV := by unfold eraseVertex; frame_tac
@[simp] theorem eraseVertex_nDelE : (k.eraseVertex h).nDelE = k.nDelE := by unfold eraseVertex; frame_tac
@[simp] theorem eraseVertex_nDelF : (k.eraseVertex h).nDelF = k.nDelF := by unfold eraseVertex; frame_tac
@[simp] theorem eraseVertex_nDelC : (k.eraseVertex h).nDelC = k.nDelC := by unfold eraseVertex; frame_tac
@[simp] theorem unlinkFaceStep_deferred (he : Nat) : (unlinkFaceStep h k he).deferred = k.deferred := by unfold unlinkFaceStep; frame_tac
@[simp] theorem unlinkFaceStep_fast (he : Nat) : (unlinkFaceStep h k he).fast = k.fast := by unfold unlinkFaceStep; frame_tac
@[simp] theorem unlinkFaceStep_vBU (he : Nat) : (unlinkFaceStep h k he).vBU = k.vBU := by unfold unlinkFaceStep; frame_tac
@[simp] theorem unlinkFaceStep_eBU (he : Nat) : (unlinkFaceStep h k he).eBU = k.eBU := by unfold unlinkFaceStep; frame_tac
@[simp] theorem unlinkFaceStep_fBU (he : Nat) : (unlinkFaceStep h k he).fBU = k.fBU := by unfold unlinkFaceStep; frame_tac
@[simp] theorem unlinkFaceStep_nDelV (he : Nat) : (unlinkFaceStep h k he).nDelV = k.nDelV := by unfold unlinkFaceStep; frame_tac
@[simp] theorem unlinkFaceStep_nDelE (he : Nat) : (unlinkFaceStep h k he).nDelE = k.nDelE := by unfold unlinkFaceStep; frame_tac
@[simp] theorem unlinkFaceStep_nDelF (he : Nat) : (unlinkFaceStep h k he).nDelF = k.nDelF := by unfold unlinkFaceStep; frame_tac
@[simp] theorem unlinkFaceStep_nDelC (he : Nat) : (unlinkFaceStep h k he).nDelC = k.nDelC := by unfold unlinkFaceStep; frame_tac
@[simp] theorem unlinkFace_deferred : (k.unlinkFace h).deferred = k.deferred := by
  unfold unlinkFace; split
  · exact foldl_frame (·.deferred) (unlinkFaceStep h) (fun k x => unlinkFaceStep_deferred k h x) _ k
  · rfl
@[simp] theorem unlinkFace_fast : (k.unlinkFace h).fast = k.fast := by
  unfold unlinkFace; split
  · exact foldl_frame (·.fast) (unlinkFaceStep h) (fun k x => unlinkFaceStep_fast k h x) _ k
  · rfl
@[simp] theorem unlinkFace_vBU : (k.unlinkFace h).vBU = k.vBU := by
  unfold unlinkFace; split
  · exact foldl_frame (·.vBU) (unlinkFaceStep h) (fun k x => unlinkFaceStep_vBU k h x) _ k
  · rfl
@[simp] theorem unlinkFace_eBU : (k.unlinkFace h).eBU = k.eBU := by
  unfold unlinkFace; split
  · exact foldl_frame (·.eBU) (unlinkFaceStep h) (fun k x => unlinkFaceStep_eBU k h x) _ k
  · rfl
@[simp] theorem unlinkFace_fBU : (k.unlinkFace h).fBU = k.fBU := by
  unfold unlinkFace; split
  · exact foldl_frame (·.fBU) (unlinkFaceStep h) (fun k x => unlinkFaceStep_fBU k h x) _ k
  · rfl
@[simp] theorem unlinkFace_nDelV : (k.unlinkFace h).nDelV = k.nDelV := by
  unfold unlinkFace; split
  · exact foldl_frame (·.nDelV) (unlinkFaceStep h) (fun k x => unlinkFaceStep_nDelV k h x) _ k
  · rfl
@[simp] theorem unlinkFace_nDelE : (k.unlinkFace h).nDelE = k.nDelE := by
  unfold unlinkFace; split
  · exact foldl_frame (·.nDelE) (unlinkFaceStep h) (fun k x => unlinkFaceStep_nDelE k h x) _ k
  · rfl
@[simp] theorem unlinkFace_nDelF : (k.unlinkFace h).nDelF = k.nDelF := by
  unfold unlinkFace; split
  · exact foldl_frame (·.nDelF) (unlinkFaceStep h) (fun k x => unlinkFaceStep_nDelF k h x) _ k
  · rfl
@[simp] theorem unlinkFace_nDelC : (k.unlinkFace h).nDelC = k.nDelC := by
  unfold unlinkFace; split
  · exact foldl_frame (·.nDelC) (unlinkFaceStep h) (fun k x => unlinkFaceStep_nDelC k h x) _ k
  · rfl
end stages

section cores
variable (k : Kernel) (h : Nat)
@[simp] theorem deleteCellCore_deferred : (k.deleteCellCore h).deferred = k.deferred := by unfold deleteCellCore; frame_tac
@[simp] theorem deleteCellCore_fast : (k.deleteCellCore h).fast = k.fast := by unfold deleteCellCore; frame_tac
@[simp] theorem deleteCellCore_vBU : (k.deleteCellCore h).vBU = k.vBU := by unfold deleteCellCore; frame_tac
@[simp] theorem deleteCellCore_eBU : (k.deleteCellCore h).eBU = k.eBU := by unfold deleteCellCore; frame_tac
@[simp] theorem deleteCellCore_fBU : (k.deleteCellCore h).fBU = k.fBU := by unfold deleteCellCore; frame_tac
@[simp] theorem deleteFaceCore_deferred : (k.deleteFaceCore h).deferred = k.deferred := by unfold deleteFaceCore; frame_tac
@[simp] theorem deleteFaceCore_fast : (k.deleteFaceCore h).fast = k.fast := by unfold deleteFaceCore; frame_tac
@[simp] theorem deleteFaceCore_vBU : (k.deleteFaceCore h).vBU = k.vBU := by unfold deleteFaceCore; frame_tac
@[simp] theorem deleteFaceCore_eBU : (k.deleteFaceCore h).eBU = k.eBU := by unfold deleteFaceCore; frame_tac
@[simp] theorem deleteFaceCore_fBU : (k.deleteFaceCore h).fBU = k.fBU := by unfold deleteFaceCore; frame_tac
@[simp] theorem deleteEdgeCore_deferred : (k.deleteEdgeCore h).deferred = k.deferred := by unfold deleteEdgeCore; frame_tac
@[simp] theorem deleteEdgeCore_fast : (k.deleteEdgeCore h).fast = k.fast := by unfold deleteEdgeCore; frame_tac
@[simp] theorem deleteEdgeCore_vBU : (k.deleteEdgeCore h).vBU = k.vBU := by unfold deleteEdgeCore; frame_tac
@[simp] theorem deleteEdgeCore_eBU : (k.deleteEdgeCore h).eBU = k.eBU := by unfold deleteEdgeCore; frame_tac
@[simp] theorem deleteEdgeCore_fBU : (k.deleteEdgeCore h).fBU = k.fBU := by unfold deleteEdgeCore; frame_tac
@[simp] theorem deleteVertexCore_deferred : (k.deleteVertexCore h).deferred = k.deferred := by unfold deleteVertexCore; frame_tac
@[simp] theorem deleteVertexCore_fast : (k.deleteVertexCore h).fast = k.fast := by unfold deleteVertexCore; frame_tac
@[simp] theorem deleteVertexCore_vBU : (k.deleteVertexCore h).vBU = k.vBU := by unfold deleteVertexCore; frame_tac
@[simp] theorem deleteVertexCore_eBU : (k.deleteVertexCore h).eBU = k.eBU := by unfold deleteVertexCore; frame_tac
@[simp] theorem deleteVertexCore_fBU : (k.deleteVertexCore h).fBU = k.fBU := by unfold deleteVertexCore; frame_tac
end cores

/-! in immediate mode (`deferred = false`) no core touches a pending-deletion counter -/
section coresImmediate
variable (k : Kernel) (h : Nat) (hd : k.deferred = false)
include hd
theorem deleteCellCore_nDelV_imm : (k.deleteCellCore h).nDelV = k.nDelV := by unfold deleteCellCore; simp only [hd]; cases hf : k.fast <;> simp [hd]
theorem deleteCellCore_nDelE_imm : (k.deleteCellCore h).nDelE = k.nDelE := by unfold deleteCellCore; simp only [hd]; cases hf : k.fast <;> simp [hd]
theorem deleteCellCore_nDelF_imm : (k.deleteCellCore h).nDelF = k.nDelF := by unfold deleteCellCore; simp only [hd]; cases hf : k.fast <;> simp [hd]
theorem deleteCellCore_nDelC_imm : (k.deleteCellCore h).nDelC = k.nDelC := by unfold deleteCellCore; simp only [hd]; cases hf : k.fast <;> simp [hd]
theorem deleteFaceCore_nDelV_imm : (k.deleteFaceCore h).nDelV = k.nDelV := by unfold deleteFaceCore; simp only [hd]; cases hf : k.fast <;> simp [hd]
theorem deleteFaceCore_nDelE_imm : (k.deleteFaceCore h).nDelE = k.nDelE := by unfold deleteFaceCore; simp only [hd]; cases hf : k.fast <;> simp [hd]
theorem deleteFaceCore_nDelF_imm : (k.deleteFaceCore h).nDelF = k.nDelF := by unfold deleteFaceCore; simp only [hd]; cases hf : k.fast <;> simp [hd]
theorem deleteFaceCore_nDelC_imm : (k.deleteFaceCore h).nDelC = k.nDelC := by unfold deleteFaceCore; simp only [hd]; cases hf : k.fast <;> simp [hd]
theorem deleteEdgeCore_nDelV_imm : (k.deleteEdgeCore h).nDelV = k.nDelV := by unfold deleteEdgeCore; simp only [hd]; cases hf : k.fast <;> simp [hd]
theorem deleteEdgeCore_nDelE_imm : (k.deleteEdgeCore h).nDelE = k.nDelE := by unfold deleteEdgeCore; simp only [hd]; cases hf : k.fast <;> simp [hd]
theorem deleteEdgeCore_nDelF_imm : (k.deleteEdgeCore h).nDelF = k.nDelF := by unfold deleteEdgeCore; simp only [hd]; cases hf : k.fast <;> simp [hd]
theorem deleteEdgeCore_nDelC_imm : (k.deleteEdgeCore h).nDelC = k.nDelC := by unfold deleteEdgeCore; simp only [hd]; cases hf : k.fast <;> simp [hd]
theorem deleteVertexCore_nDelV_imm : (k.deleteVertexCore h).nDelV = k.nDelV := by unfold deleteVertexCore; simp only [hd]; cases hf : k.fast <;> simp [hd]
theorem deleteVertexCore_nDelE_imm : (k.deleteVertexCore h).nDelE = k.nDelE := by unfold deleteVertexCore; simp only [hd]; cases hf : k.fast <;> simp [hd]
theorem deleteVertexCore_nDelF_imm : (k.deleteVertexCore h).nDelF = k.nDelF := by unfold deleteVertexCore; simp only [hd]; cases hf : k.fast <;> simp [hd]
theorem deleteVertexCore_nDelC_imm : (k.deleteVertexCore h).nDelC = k.nDelC := by unfold deleteVertexCore; simp only [hd]; cases hf : k.fast <;> simp [hd]
end coresImmediate

/-- a sweep of `collect_garbage` keeps a field that every core and every un-flagging keeps
    (possibly under an invariant `P` of the state that they also keep) -/
theorem gcSweep_frame {α} (proj : Kernel → α) (P : Kernel → Prop) (isDel : Kernel → Nat → Bool)
    (unflag core : Kernel → Nat → Kernel)
    (hu : ∀ k i, P k → proj (unflag k i) = proj k ∧ P (unflag k i))
    (hc : ∀ k i, P k → proj (core k i) = proj k ∧ P (core k i)) (k : Kernel) (hk : P k) (n : Nat) :
    proj (gcSweep k n isDel unflag core) = proj k ∧ P (gcSweep k n isDel unflag core) := by
  unfold gcSweep
  generalize (List.range n).reverse = xs
  induction xs generalizing k with
  | nil => exact ⟨rfl, hk⟩
  | cons x t ih =>
    simp only [List.foldl_cons]
    split
    · have a := hu k x hk
      have b := hc _ x a.2
      have c := ih _ b.2
      exact ⟨c.1.trans (b.1.trans a.1), c.2⟩
    · exact ih k hk

end Kernel
end OVM

import OVM.Refine.CacheDelete
/-
  Preservation of `WF = LenInv ∧ RangeInv ∧ CacheInv` by `swap_{cell,vertex,edge,face}_indices`
  (Kernel/Swap.lean), for in-range handles — both the cache-guided variants and the linear-scan
  variants (in the latter the guiding cache is disabled and its invariant is vacuous).
  Done: `wf_swapCell` (+ `oneCell_swapCell`), `wf_swapVertex`; and, because it is "swap + unlink +
  pop", immediate fast-mode `delete_cell` (`wf_deleteCellCore_fast`).  The list of what remains is at
  the end of the file.
-/
namespace OVM
namespace Kernel
open ScanDel

/-! ### generic: `swapAt`, `dedupKeep`, folds that touch every listed index once -/
namespace ScanDel

theorem relabelId_lt {a b n x : Nat} (ha : a < n) (hb : b < n) (hx : x < n) : relabelId a b x < n := by
  unfold relabelId; split
  · exact hb
  · split
    · exact ha
    · exact hx

theorem relabelId_invol (a b x : Nat) : relabelId a b (relabelId a b x) = x := by
  unfold relabelId
  by_cases h1 : x = a <;> by_cases h2 : x = b <;> by_cases h3 : a = b <;> simp_all
  all_goals (try (split <;> simp_all))

theorem getD_swapAt {α} (l : List α) (a b n : Nat) (d : α) (ha : a < l.length) (hb : b < l.length) :
    (swapAt l a b).getD n d = l.getD (relabelId a b n) d := by
  simp only [List.getD_eq_getElem?_getD]
  rw [getElem?_swapAt l a b n ha hb]
  unfold relabelId
  by_cases h1 : n = b
  · subst h1
    by_cases h2 : n = a
    · subst h2; simp
    · simp [h2]
  · by_cases h2 : n = a
    · subst h2; simp [h1]
    · simp [h1, h2]

theorem mem_swapAt {α} (l : List α) (a b : Nat) (x : α) (ha : a < l.length) (hb : b < l.length) :
    x ∈ swapAt l a b ↔ x ∈ l := by
  simp only [List.mem_iff_getElem?]
  constructor
  · rintro ⟨n, hn⟩
    rw [getElem?_swapAt l a b n ha hb] at hn
    split at hn
    · exact ⟨a, hn⟩
    · split at hn
      · exact ⟨b, hn⟩
      · exact ⟨n, hn⟩
  · rintro ⟨n, hn⟩
    by_cases h1 : n = a
    · subst h1
      refine ⟨b, ?_⟩
      rw [getElem?_swapAt l n b b ha hb]; simp [hn]
    · by_cases h2 : n = b
      · subst h2
        refine ⟨a, ?_⟩
        rw [getElem?_swapAt l a n a ha hb]
        by_cases h3 : a = n
        · subst h3; simp [hn]
        · simp [h3, hn]
      · refine ⟨n, ?_⟩
        rw [getElem?_swapAt l a b n ha hb]; simp [h1, h2, hn]

theorem dedupKeep_aux (l acc : List Nat) (hacc : acc.Nodup) :
    (l.foldl (fun acc x => if acc.contains x then acc else acc ++ [x]) acc).Nodup ∧
    ∀ y, y ∈ l.foldl (fun acc x => if acc.contains x then acc else acc ++ [x]) acc ↔ y ∈ acc ∨ y ∈ l := by
  induction l generalizing acc with
  | nil => exact ⟨hacc, fun y => by simp⟩
  | cons a t ih =>
    simp only [List.foldl_cons]
    by_cases hc : acc.contains a = true
    · simp only [hc, if_true]
      obtain ⟨h1, h2⟩ := ih acc hacc
      refine ⟨h1, fun y => ?_⟩
      rw [h2]
      have ha : a ∈ acc := by simpa using hc
      constructor
      · rintro (h | h)
        · exact Or.inl h
        · exact Or.inr (by simp [h])
      · rintro (h | h)
        · exact Or.inl h
        · rcases List.mem_cons.mp h with rfl | h
          · exact Or.inl ha
          · exact Or.inr h
    · simp only [hc, Bool.false_eq_true, if_false]
      have ha : a ∉ acc := by simpa using hc
      have hn : (acc ++ [a]).Nodup := by
        rw [List.nodup_append]
        exact ⟨hacc, by simp, fun x hx y hy e => by simp at hy; subst hy; subst e; exact ha hx⟩
      obtain ⟨h1, h2⟩ := ih (acc ++ [a]) hn
      refine ⟨h1, fun y => ?_⟩
      rw [h2]
      simp only [List.mem_append, List.mem_cons, List.not_mem_nil, or_false]
      constructor
      · rintro ((h | h) | h)
        · exact Or.inl h
        · exact Or.inr (Or.inl h)
        · exact Or.inr (Or.inr h)
      · rintro (h | h | h)
        · exact Or.inl (Or.inl h)
        · exact Or.inl (Or.inr h)
        · exact Or.inr h

theorem nodup_dedupKeep (l : List Nat) : (dedupKeep l).Nodup := (dedupKeep_aux l [] List.nodup_nil).1
theorem mem_dedupKeep (l : List Nat) (y : Nat) : y ∈ dedupKeep l ↔ y ∈ l := by
  unfold dedupKeep; rw [(dedupKeep_aux l [] List.nodup_nil).2]; simp

/-- a fold that rewrites only slot `i` at step `i`, over a duplicate-free index list -/
theorem foldl_slot_getD {α} (step : List α → Nat → List α) (g : α → α) (d : α)
    (hstep : ∀ l i x, (step l i).getD x d = if x = i then g (l.getD x d) else l.getD x d)
    (L : List Nat) (hn : L.Nodup) (l : List α) (x : Nat) :
    (L.foldl step l).getD x d = if x ∈ L then g (l.getD x d) else l.getD x d := by
  induction L generalizing l with
  | nil => simp
  | cons a t ih =>
    have hnd := List.nodup_cons.mp hn
    simp only [List.foldl_cons]
    rw [ih hnd.2, hstep]
    by_cases hxa : x = a
    · subst hxa; simp [hnd.1]
    · simp [hxa]

end ScanDel

namespace ScanDel
/-- re-indexing a filtered range by an involution of the range -/
theorem perm_filter_reindex (n : Nat) (σ : Nat → Nat) (hinv : ∀ x, σ (σ x) = x) (hlt : ∀ x, x < n → σ x < n)
    (p : Nat → Bool) :
    ((List.range n).filter (fun e => p (σ e))).Perm (((List.range n).filter p).map σ) := by
  have hnd : ∀ q : Nat → Bool, ((List.range n).filter q).Nodup :=
    fun q => List.Pairwise.sublist List.filter_sublist List.nodup_range
  rw [List.perm_ext_iff_of_nodup (hnd _)]
  · intro y
    simp only [List.mem_filter, List.mem_range, List.mem_map]
    constructor
    · rintro ⟨hy, hp⟩; exact ⟨σ y, ⟨hlt y hy, hp⟩, hinv y⟩
    · rintro ⟨x, ⟨hx, hp⟩, rfl⟩; exact ⟨hlt x hx, by rw [hinv]; exact hp⟩
  · exact List.Pairwise.map σ (fun a b hab e => hab (by rw [← hinv a, e, hinv])) (hnd p)
end ScanDel

theorem sCellOf_of_unique {k : Kernel} {x c : Nat} (hc : k.liveC c = true) (hm : x ∈ k.cellAt c)
    (hu : ∀ c', k.liveC c' = true → x ∈ k.cellAt c' → c' = c) : k.sCellOf x = some c := by
  have hmem : c ∈ k.sCellsOfHf x := by
    unfold sCellsOfHf
    simp only [List.mem_filter, mem_liveCells]; exact ⟨hc, by simpa using hm⟩
  unfold sCellOf
  cases hh : (k.sCellsOfHf x).head? with
  | none => rw [List.head?_eq_none_iff] at hh; rw [hh] at hmem; cases hmem
  | some c' =>
    have hc' := sCellOf_some (k := k) (hf := x) (c := c') (by unfold sCellOf; exact hh)
    rw [hu c' hc'.1 hc'.2]

/-! ### swap_cell_indices -/
section swapCell
variable (k : Kernel) (a b : Nat)
theorem swapCell_edges : (k.swapCell a b).edges = k.edges := by unfold swapCell; split <;> rfl
theorem swapCell_faces : (k.swapCell a b).faces = k.faces := by unfold swapCell; split <;> rfl
theorem swapCell_vDel : (k.swapCell a b).vDel = k.vDel := by unfold swapCell; split <;> rfl
theorem swapCell_eDel : (k.swapCell a b).eDel = k.eDel := by unfold swapCell; split <;> rfl
theorem swapCell_fDel : (k.swapCell a b).fDel = k.fDel := by unfold swapCell; split <;> rfl
theorem swapCell_outHes : (k.swapCell a b).outHes = k.outHes := by unfold swapCell; split <;> rfl
theorem swapCell_incHfs : (k.swapCell a b).incHfs = k.incHfs := by unfold swapCell; split <;> rfl
end swapCell

theorem swapCellEntry_getD (a b : Nat) (ic : List (Option Nat)) (hf x : Nat) :
    (swapCellEntry a b ic hf).getD x none =
      if x = hf then (ic.getD x none).map (relabelId a b) else ic.getD x none := by
  unfold swapCellEntry
  cases hc : ic.getD hf none with
  | none =>
    simp only
    by_cases hx : x = hf
    · subst hx; rw [if_pos rfl, hc]; rfl
    · rw [if_neg hx]
  | some c =>
    simp only
    have hl : hf < ic.length := by
      rcases Nat.lt_or_ge hf ic.length with h1 | h1
      · exact h1
      · rw [getD_of_ge _ _ _ h1] at hc; cases hc
    by_cases hx : x = hf
    · subst hx
      rw [if_pos rfl, hc]
      unfold relabelId
      by_cases h1 : c = a
      · simp only [h1, beq_self_eq_true, if_true, Option.map_some]; rw [getD_set]; simp [hl]
      · by_cases h2 : c = b
        · subst h2
          have h1' : (c == a) = false := by simp [h1]
          simp only [h1', Bool.false_eq_true, if_false, beq_self_eq_true, if_true, Option.map_some]
          rw [getD_set]; simp [hl]
        · have h1' : (c == a) = false := by simp [h1]
          have h2' : (c == b) = false := by simp [h2]
          simp only [h1', h2', Bool.false_eq_true, if_false, Option.map_some]; exact hc
    · rw [if_neg hx]
      have hne : ¬ (hf = x ∧ hf < ic.length) := fun e => hx e.1.symm
      split
      · rw [getD_set, if_neg hne]
      · split
        · rw [getD_set, if_neg hne]
        · rfl

theorem swapCell_cellOf (k : Kernel) (a b x : Nat) (hab : a ≠ b) (hb : k.fBU = true) :
    (k.swapCell a b).cellOf x =
      if x ∈ k.cellAt a ++ k.cellAt b then (k.cellOf x).map (relabelId a b) else k.cellOf x := by
  have hne : (a == b) = false := by simp [hab]
  unfold cellOf swapCell
  simp only [hne, Bool.false_eq_true, if_false, hb, if_true]
  rw [foldl_slot_getD (swapCellEntry a b) (Option.map (relabelId a b)) none
    (fun l i x => swapCellEntry_getD a b l i x) _ (nodup_dedupKeep _)]
  simp only [mem_dedupKeep]


section swapCellObs
variable {k : Kernel} {a b : Nat} (hab : a ≠ b) (ha : a < k.nC) (hb : b < k.nC)
include hab ha hb

theorem swapCell_cellAt (c : Nat) : (k.swapCell a b).cellAt c = k.cellAt (relabelId a b c) := by
  have hne : (a == b) = false := by simp [hab]
  unfold cellAt swapCell
  simp only [hne, Bool.false_eq_true, if_false]
  exact getD_swapAt _ _ _ _ _ ha hb

theorem swapCell_cDeleted (hl : k.cDel.length = k.nC) (c : Nat) :
    (k.swapCell a b).cDeleted c = k.cDeleted (relabelId a b c) := by
  have hne : (a == b) = false := by simp [hab]
  unfold cDeleted swapCell
  simp only [hne, Bool.false_eq_true, if_false]
  exact getD_swapAt _ _ _ _ _ (by rw [hl]; exact ha) (by rw [hl]; exact hb)

theorem swapCell_nC : (k.swapCell a b).nC = k.nC := by
  have hne : (a == b) = false := by simp [hab]
  unfold nC swapCell; simp [hne]

theorem swapCell_liveC (hl : k.cDel.length = k.nC) (c : Nat) :
    (k.swapCell a b).liveC c = k.liveC (relabelId a b c) := by
  unfold liveC
  rw [swapCell_cDeleted hab ha hb hl, swapCell_nC hab ha hb]
  congr 1
  by_cases hc : c < k.nC
  · simp [hc, relabelId_lt ha hb hc]
  · have : ¬ relabelId a b c < k.nC := by
      intro h
      have := relabelId_lt ha hb h
      rw [relabelId_invol] at this; exact hc this
    simp [hc, this]
end swapCellObs

/-- `swap_cell_indices` keeps C01's precondition: the live cells are merely renumbered -/
theorem oneCell_swapCell {k : Kernel} {a b : Nat} (ha : a < k.nC) (hb : b < k.nC) (hl : k.cDel.length = k.nC)
    (h1 : k.oneCell = true) : (k.swapCell a b).oneCell = true := by
  by_cases hab : a = b
  · subst hab; simpa [swapCell] using h1
  unfold oneCell at *
  simp only [List.all_eq_true, List.mem_range, decide_eq_true_eq] at *
  intro x hx
  have hx' : x < k.nHF := by unfold nHF at *; rwa [swapCell_faces] at hx
  refine Nat.le_trans (Nat.le_of_eq ?_) (h1 x hx')
  unfold liveCells
  rw [swapCell_nC hab ha hb]
  have e1 : (fun c => !(k.swapCell a b).cDeleted c) = (fun c => (fun c => !k.cDeleted c) (relabelId a b c)) := by
    funext c; rw [swapCell_cDeleted hab ha hb hl]
  have e2 : (fun c => ((k.swapCell a b).cellAt c).count x) = (fun c => (k.cellAt (relabelId a b c)).count x) := by
    funext c; rw [swapCell_cellAt hab ha hb]
  rw [e1, e2]
  have hp := perm_filter_reindex k.nC (relabelId a b) (relabelId_invol a b)
    (fun x hx => relabelId_lt ha hb hx) (fun c => !k.cDeleted c)
  rw [(hp.map _).sum_nat, List.map_map]
  congr 2
  funext c; simp [Function.comp, relabelId_invol]

/-- **`swap_cell_indices` keeps `WF`** for in-range handles, given C01's `oneCell` (the face cache
    stores one cell per halfface; with two live cells on a halfface "the first live cell" is not
    stable under renumbering) -/
theorem wf_swapCell {k : Kernel} {a b : Nat} (ha : a < k.nC) (hb : b < k.nC) (hw : WF k)
    (h1 : k.oneCell = true) : WF (k.swapCell a b) := by
  by_cases hab : a = b
  · subst hab; simpa [swapCell] using hw
  have hl := hw.len.cDel
  refine ⟨lenInv_swapCell k a b hw.len, ?_, ⟨?_, ?_, ?_⟩⟩
  · -- RangeInv
    constructor
    · rw [swapCell_edges, swapCell_nV]; exact hw.range.edges
    · unfold nHE; rw [swapCell_faces, swapCell_edges]; exact hw.range.faces
    · unfold nHF; rw [swapCell_faces]
      intro c hc
      have hne : (a == b) = false := by simp [hab]
      unfold swapCell at hc
      simp only [hne, Bool.false_eq_true, if_false] at hc
      rw [mem_swapAt _ _ _ _ ha hb] at hc
      exact hw.range.cells c hc
  · exact cacheInvV_of_eq (by simp) (swapCell_outHes k a b) (by simp) (swapCell_edges k a b) (swapCell_eDel k a b) hw.cache.v
  · exact cacheInvE_of_eq (by simp) (swapCell_incHfs k a b) (by rw [swapCell_edges]) (swapCell_faces k a b)
      (swapCell_fDel k a b) hw.cache.e
  · intro hbu
    have hbu' : k.fBU = true := by simpa using hbu
    have hF := hw.cache.f
    obtain ⟨hlen, hslots⟩ := hF hbu'
    have hnHF : (k.swapCell a b).nHF = k.nHF := by unfold nHF; rw [swapCell_faces]
    refine ⟨by rw [hnHF]; exact (lenInv_swapCell k a b hw.len).incCell hbu |>.trans hnHF, fun x hx => ?_⟩
    rw [hnHF] at hx
    -- the cache: every slot is relabelled
    have hco : (k.swapCell a b).cellOf x = (k.cellOf x).map (relabelId a b) := by
      rw [swapCell_cellOf k a b x hab hbu']
      split
      · rfl
      · rename_i hnm
        cases hc : k.cellOf x with
        | none => rfl
        | some c =>
          obtain ⟨_, _, hxc⟩ := cellOf_some_live hF hbu' hc
          have h1 : c ≠ a := fun e => hnm (by rw [List.mem_append]; exact Or.inl (e ▸ hxc))
          have h2 : c ≠ b := fun e => hnm (by rw [List.mem_append]; exact Or.inr (e ▸ hxc))
          simp [relabelId, h1, h2]
    rw [hco, hslots x hx]
    -- the scan: the unique live cell is relabelled
    cases hs : k.sCellOf x with
    | none =>
      symm
      rw [Option.map_none, sCellOf_none_iff]
      intro c hlc
      rw [swapCell_liveC hab ha hb hl] at hlc
      rw [swapCell_cellAt hab ha hb]
      exact (sCellOf_none_iff k x).mp hs _ hlc
    | some c =>
      obtain ⟨hlc, hxc⟩ := sCellOf_some hs
      symm
      rw [Option.map_some]
      apply sCellOf_of_unique
      · rw [swapCell_liveC hab ha hb hl, relabelId_invol]; exact hlc
      · rw [swapCell_cellAt hab ha hb, relabelId_invol]; exact hxc
      · intro c' hlc' hxc'
        rw [swapCell_liveC hab ha hb hl] at hlc'
        rw [swapCell_cellAt hab ha hb] at hxc'
        have := oneCell_unique h1 hx hlc' hlc hxc' hxc
        rw [← this, relabelId_invol]


namespace ScanDel
theorem foldl_modify_getElem? {α} (g : α → α) (L : List Nat) (hn : L.Nodup) (l : List α) (x : Nat) :
    (L.foldl (fun m i => m.modify i g) l)[x]? = if x ∈ L then l[x]?.map g else l[x]? := by
  induction L generalizing l with
  | nil => simp
  | cons a t ih =>
    have hnd := List.nodup_cons.mp hn
    simp only [List.foldl_cons]
    rw [ih hnd.2, List.getElem?_modify]
    by_cases hxa : x = a
    · subst hxa; simp [hnd.1]
    · have : ¬ a = x := fun e => hxa e.symm
      simp [hxa, this]

theorem mem_foldl_modify {α} (g : α → α) (L : List Nat) (hn : L.Nodup) (l : List α) (y : α)
    (hy : y ∈ L.foldl (fun m i => m.modify i g) l) : ∃ y0 ∈ l, y = y0 ∨ y = g y0 := by
  rw [List.mem_iff_getElem?] at hy
  obtain ⟨n, hn'⟩ := hy
  rw [foldl_modify_getElem? g L hn] at hn'
  split at hn'
  · cases h0 : l[n]? with
    | none => rw [h0] at hn'; cases hn'
    | some y0 =>
      rw [h0] at hn'; simp at hn'
      exact ⟨y0, List.mem_of_getElem? h0, Or.inr hn'.symm⟩
  · exact ⟨y, List.mem_of_getElem? hn', Or.inl rfl⟩
end ScanDel

/-! ### swap_vertex_indices -/
section swapVertex
variable (k : Kernel) (a b : Nat)
theorem swapVertex_eDel : (k.swapVertex a b).eDel = k.eDel := by unfold swapVertex; split <;> rfl
theorem swapVertex_fDel : (k.swapVertex a b).fDel = k.fDel := by unfold swapVertex; split <;> rfl
theorem swapVertex_cDel : (k.swapVertex a b).cDel = k.cDel := by unfold swapVertex; split <;> rfl
theorem swapVertex_incHfs : (k.swapVertex a b).incHfs = k.incHfs := by unfold swapVertex; split <;> rfl
theorem swapVertex_incCell : (k.swapVertex a b).incCell = k.incCell := by unfold swapVertex; split <;> rfl
theorem swapVertex_edges_length : (k.swapVertex a b).edges.length = k.edges.length := by
  unfold swapVertex; split
  · rfl
  · simp only []; split <;> simp [length_foldl_modify_gen]
end swapVertex

theorem relabelEdgeV_lt {a b n : Nat} (ha : a < n) (hb : b < n) {e : Nat × Nat} (he : e.1 < n ∧ e.2 < n) :
    (relabelEdgeV a b e).1 < n ∧ (relabelEdgeV a b e).2 < n :=
  ⟨relabelId_lt ha hb he.1, relabelId_lt ha hb he.2⟩

theorem mem_sOut_iff (k : Kernel) (v x : Nat) : x ∈ k.sOut v ↔ k.liveE (eOf x) = true ∧ k.fromV x = v := by
  unfold sOut liveHes
  simp only [List.mem_filter, List.mem_range, beq_iff_eq]
  constructor
  · rintro ⟨⟨_, h1⟩, h2⟩; exact ⟨h1, h2⟩
  · rintro ⟨h1, h2⟩
    refine ⟨⟨?_, h1⟩, h2⟩
    unfold liveE at h1; simp at h1
    unfold nHE eOf nE at *; omega

theorem relabelId_beq (a b u v : Nat) : (relabelId a b u == v) = (u == relabelId a b v) := by
  by_cases h : relabelId a b u = v
  · subst h; simp [relabelId_invol]
  · have : u ≠ relabelId a b v := fun e => h (by rw [e, relabelId_invol])
    rw [beq_eq_false_iff_ne.mpr h, beq_eq_false_iff_ne.mpr this]

/-- **`swap_vertex_indices` keeps `WF`** for in-range handles (cache-guided and linear-scan variant) -/
theorem wf_swapVertex {k : Kernel} {a b : Nat} (ha : a < k.nV) (hb : b < k.nV) (hw : WF k) :
    WF (k.swapVertex a b) := by
  by_cases hab : a = b
  · subst hab; simpa [swapVertex] using hw
  have hne : (a == b) = false := by simp [hab]
  have hnE : (k.swapVertex a b).nE = k.nE := by unfold nE; exact swapVertex_edges_length k a b
  refine ⟨lenInv_swapVertex k a b hw.len, ?_, ⟨?_, ?_, ?_⟩⟩
  · constructor
    · intro e he
      rw [swapVertex_nV]
      unfold swapVertex at he
      simp only [hne, Bool.false_eq_true, if_false] at he
      split at he
      · obtain ⟨e0, h0, h | h⟩ := mem_foldl_modify _ _ (nodup_dedupKeep _) _ _ he
        · rw [h]; exact hw.range.edges e0 h0
        · rw [h]; exact relabelEdgeV_lt ha hb (hw.range.edges e0 h0)
      · simp only [List.mem_map] at he
        obtain ⟨e0, h0, rfl⟩ := he
        exact relabelEdgeV_lt ha hb (hw.range.edges e0 h0)
    · unfold nHE; rw [swapVertex_faces, swapVertex_edges_length]; exact hw.range.faces
    · unfold nHF; rw [swapVertex_faces, swapVertex_cells]; exact hw.range.cells
  · -- CacheInvV
    intro hbu
    have hbu' : k.vBU = true := by simpa using hbu
    obtain ⟨hlen, hperm⟩ := hw.cache.v hbu'
    refine ⟨(lenInv_swapVertex k a b hw.len).outHes hbu, fun v hv => ?_⟩
    have hv' : v < k.nV := by simpa using hv
    have hσv : relabelId a b v < k.nV := relabelId_lt ha hb hv'
    have hout : (k.swapVertex a b).outOf v = k.outOf (relabelId a b v) := by
      unfold outOf swapVertex
      simp only [hne, Bool.false_eq_true, if_false, hbu', if_true]
      exact getD_swapAt _ _ _ _ _ (by rw [hlen]; exact ha) (by rw [hlen]; exact hb)
    rw [hout]
    refine (hperm _ hσv).trans ?_
    rw [sOut_eq, sOut_eq]
    have hle : (k.swapVertex a b).liveEdges = k.liveEdges := by
      unfold liveEdges eDeleted; rw [hnE, swapVertex_eDel]
    rw [hle]
    apply perm_flatMap_pointwise
    intro e he
    have hlive : k.liveE e = true := (mem_liveEdges k e).mp he
    have helt : e < k.edges.length := by unfold liveE nE at hlive; simp at hlive; exact hlive.1
    -- the definition of a live edge is relabelled
    have hedge : (k.swapVertex a b).edgeAt e = relabelEdgeV a b (k.edgeAt e) := by
      unfold edgeAt swapVertex
      simp only [hne, Bool.false_eq_true, if_false, hbu', if_true]
      rw [List.getD_eq_getElem?_getD, foldl_modify_getElem? _ _ (nodup_dedupKeep _),
        List.getD_eq_getElem?_getD, List.getElem?_eq_getElem helt]
      split
      · rfl
      · rename_i hnm
        simp only [mem_dedupKeep, List.mem_map, List.mem_append, not_exists, not_and] at hnm
        have h2e : k.fromV (2 * e) = (k.edges[e]).1 := by
          rw [fromV_even]; unfold edgeAt; rw [List.getD_eq_getElem?_getD, List.getElem?_eq_getElem helt]; rfl
        have h2e1 : k.fromV (2 * e + 1) = (k.edges[e]).2 := by
          rw [fromV_odd']; unfold edgeAt; rw [List.getD_eq_getElem?_getD, List.getElem?_eq_getElem helt]; rfl
        have hl0 : k.liveE (eOf (2 * e)) = true := by unfold eOf; rw [show 2 * e / 2 = e by omega]; exact hlive
        have hl1 : k.liveE (eOf (2 * e + 1)) = true := by unfold eOf; rw [show (2 * e + 1) / 2 = e by omega]; exact hlive
        have key : ∀ w, w = a ∨ w = b → (k.edges[e]).1 ≠ w ∧ (k.edges[e]).2 ≠ w := by
          intro w hw'
          have hwlt : w < k.nV := by rcases hw' with rfl | rfl <;> assumption
          constructor
          · intro e1
            have : 2 * e ∈ k.outOf w := (hperm w hwlt).mem_iff.mpr ((mem_sOut_iff k w _).mpr ⟨hl0, by rw [h2e, e1]⟩)
            rcases hw' with rfl | rfl
            · exact hnm (2 * e) (Or.inl this) (by omega)
            · exact hnm (2 * e) (Or.inr this) (by omega)
          · intro e1
            have : 2 * e + 1 ∈ k.outOf w := (hperm w hwlt).mem_iff.mpr ((mem_sOut_iff k w _).mpr ⟨hl1, by rw [h2e1, e1]⟩)
            rcases hw' with rfl | rfl
            · exact hnm (2 * e + 1) (Or.inl this) (by omega)
            · exact hnm (2 * e + 1) (Or.inr this) (by omega)
        have k1 := key a (Or.inl rfl)
        have k2 := key b (Or.inr rfl)
        simp [relabelEdgeV, relabelId, k1.1, k1.2, k2.1, k2.2]
    have hblock : (k.swapVertex a b).outBlock v e = k.outBlock (relabelId a b v) e := by
      unfold outBlock
      apply List.filter_congr
      intro h hh
      simp only [List.mem_cons, List.not_mem_nil, or_false] at hh
      rcases hh with rfl | rfl
      · rw [fromV_even, fromV_even, hedge]; exact relabelId_beq a b _ v
      · rw [fromV_odd', fromV_odd', hedge]; exact relabelId_beq a b _ v
    rw [hblock]
  · exact cacheInvE_of_eq (by simp) (swapVertex_incHfs k a b) (swapVertex_edges_length k a b) (by simp)
      (swapVertex_fDel k a b) hw.cache.e
  · exact cacheInvF_of_eq (by simp) (swapVertex_incCell k a b) (by simp) (by simp) (swapVertex_cDel k a b) hw.cache.f


/-! ### Part C: immediate deletion of a cell in fast mode (swap with the last cell, unlink, pop) -/

/-- removing one live cell `h` from the live set (by flagging it or by erasing its slot) while
    clearing exactly the links to it keeps the face cache exact -/
theorem cacheInvF_remove_cell {k k' : Kernel} (h : Nat) (hF : CacheInvF k) (h1 : k.oneCell = true)
    (hb : k'.fBU = k.fBU) (hnf : k'.nHF = k.nHF) (hlen : k'.incCell.length = k.incCell.length)
    (hco : ∀ x, k'.cellOf x = if x ∈ k.cellAt h ∧ k.cellOf x = some h then none else k.cellOf x)
    (hlive : ∀ c, k'.liveC c = (k.liveC c && (c != h)))
    (hca : ∀ c, c ≠ h → k'.cellAt c = k.cellAt c) : CacheInvF k' := by
  intro hb'
  rw [hb] at hb'
  obtain ⟨hl, hslots⟩ := hF hb'
  refine ⟨by rw [hlen, hnf]; exact hl, fun x hx => ?_⟩
  rw [hnf] at hx
  rw [hco]
  have hsplit : ∀ c, k'.liveC c = true → k.liveC c = true ∧ c ≠ h := by
    intro c hc; rw [hlive] at hc; simpa using hc
  cases hc : k.cellOf x with
  | none =>
    simp only [reduceCtorEq, and_false, if_false]
    symm
    rw [sCellOf_none_iff]
    intro c hlc hm
    obtain ⟨hl1, hne⟩ := hsplit c hlc
    rw [hca c hne] at hm
    have hn : k.sCellOf x = none := by rw [← hslots x hx]; exact hc
    exact (sCellOf_none_iff k x).mp hn c hl1 hm
  | some c =>
    obtain ⟨_, hlc, hxc⟩ := cellOf_some_live hF hb' hc
    by_cases hch : c = h
    · subst hch
      simp only [hxc, true_and, if_true]
      symm
      rw [sCellOf_none_iff]
      intro c' hlc' hm
      obtain ⟨hl1, hne⟩ := hsplit c' hlc'
      rw [hca c' hne] at hm
      exact hne (oneCell_unique h1 hx hl1 hlc hm hxc)
    · have : ¬ (x ∈ k.cellAt h ∧ some c = some h) := fun e => hch (Option.some.inj e.2)
      rw [if_neg this]
      symm
      apply sCellOf_of_unique
      · rw [hlive]; simp [hlc, hch]
      · rw [hca c hch]; exact hxc
      · intro c' hlc' hm
        obtain ⟨hl1, hne⟩ := hsplit c' hlc'
        rw [hca c' hne] at hm
        exact oneCell_unique h1 hx hl1 hlc hm hxc

/-- unlink + pop of the LAST cell (the second half of fast immediate `delete_cell_core`) -/
theorem wf_unlinkEraseLastCell {k : Kernel} (hfast : k.fast = true) (hpos : 0 < k.nC) (hw : WF k)
    (h1 : k.oneCell = true) : WF ((k.unlinkCell (k.nC - 1)).eraseCell (k.nC - 1)) := by
  have hlenC := hw.len.cDel
  refine ⟨lenInv_eraseCell _ _ (lenInv_unlinkCell _ _ hw.len), ?_, ⟨?_, ?_, ?_⟩⟩
  · constructor
    · simpa using hw.range.edges
    · have := hw.range.faces; unfold nHE at *; simpa using this
    · unfold nHF
      intro c hc
      simp only [eraseCell_cells, unlinkCell_cells, eraseCell_faces, unlinkCell_faces] at hc ⊢
      exact hw.range.cells c (List.mem_of_mem_eraseIdx hc)
  · exact cacheInvV_of_eq (by simp) (by simp) (by simp) (by simp) (by simp) hw.cache.v
  · -- CacheInvE: the fans are only re-ordered
    intro hb
    have hb' : k.eBU = true := by simpa using hb
    obtain ⟨hlen, hs⟩ := hw.cache.e hb'
    have hn : ((k.unlinkCell (k.nC - 1)).eraseCell (k.nC - 1)).nHE = k.nHE := by unfold nHE; simp
    refine ⟨by rw [hn, eraseCell_incHfs, unlinkCell_incHfs_length]; exact hlen, fun y hy => ?_⟩
    rw [hn] at hy
    rw [sHfsOfHe_of_eq (k := k) (by simp) (by simp)]
    have : ((k.unlinkCell (k.nC - 1)).eraseCell (k.nC - 1)).hfsOf y = (k.unlinkCell (k.nC - 1)).hfsOf y := by
      unfold hfsOf; simp
    rw [this]
    exact (unlinkCell_hfsOf_perm _ (slotMirror_of_cacheInvE hw.cache.e hb') y).trans (hs y hy)
  · -- CacheInvF
    have hinc : ((k.unlinkCell (k.nC - 1)).eraseCell (k.nC - 1)).incCell = (k.unlinkCell (k.nC - 1)).incCell := by
      unfold eraseCell; simp [hfast]
    by_cases hbf : k.fBU = true
    · apply cacheInvF_remove_cell (k := k) (k.nC - 1) hw.cache.f h1 (by simp) (by unfold nHF; simp)
        (by rw [hinc]; exact unlinkCell_incCell_length k _)
      · intro x
        rw [← unlinkCell_cellOf k _ x hbf]; unfold cellOf; rw [hinc]
      · intro c
        unfold liveC cDeleted nC
        simp only [eraseCell_cells, unlinkCell_cells, eraseCell_cDel, unlinkCell_cDel, List.length_eraseIdx]
        unfold nC at hpos hlenC
        have hlt : k.cells.length - 1 < k.cells.length := by omega
        simp only [hlt, if_true]
        by_cases hc : c < k.cells.length - 1
        · have hc2 : c < k.cells.length := by omega
          have hne : c ≠ k.cells.length - 1 := by omega
          have : (k.cDel.eraseIdx (k.cells.length - 1)).getD c false = k.cDel.getD c false := by
            simp only [List.getD_eq_getElem?_getD, List.getElem?_eraseIdx, hc, if_true]
          rw [this]; simp [hc, hc2, hne]
        · by_cases hc2 : c < k.cells.length
          · have : c = k.cells.length - 1 := by omega
            simp [hc, this]
          · simp [hc, hc2]
      · intro c hne
        unfold cellAt
        simp only [eraseCell_cells, unlinkCell_cells]
        unfold nC at hne hpos ⊢
        simp only [List.getD_eq_getElem?_getD, List.getElem?_eraseIdx]
        by_cases hc : c < k.cells.length - 1
        · rw [if_pos hc]
        · have h2 : k.cells.length ≤ c := by omega
          have h3 : k.cells.length ≤ c + 1 := by omega
          simp [hc, List.getElem?_eq_none h2, List.getElem?_eq_none h3]
    · intro hb; simp at hb; exact absurd hb hbf

theorem deleteCellCore_fast_eq {k : Kernel} (h : Nat) (hd : k.deferred = false) (hf : k.fast = true) :
    k.deleteCellCore h = ((k.swapCell h (k.nC - 1)).unlinkCell (k.nC - 1)).eraseCell (k.nC - 1) := by
  unfold deleteCellCore; simp [hd, hf]

/-- **immediate `delete_cell` in fast mode keeps `WF`**: the victim is swapped to the last slot,
    unlinked and popped.  `h < n_cells` is `delete_cell_core`'s assertion (cc:1362). -/
theorem wf_deleteCellCore_fast {k : Kernel} (h : Nat) (hd : k.deferred = false) (hf : k.fast = true)
    (hh : h < k.nC) (hw : WF k) (h1 : k.oneCell = true) : WF (k.deleteCellCore h) := by
  rw [deleteCellCore_fast_eq h hd hf]
  have hlast : k.nC - 1 < k.nC := by omega
  have hw1 := wf_swapCell hh hlast hw h1
  have h11 := oneCell_swapCell hh hlast hw.len.cDel h1
  have hn : (k.swapCell h (k.nC - 1)).nC = k.nC := by
    unfold nC swapCell; split <;> simp
  have := wf_unlinkEraseLastCell (k := k.swapCell h (k.nC - 1)) (by simpa using hf) (by rw [hn]; omega) hw1 h11
  rw [hn] at this
  exact this


/-! ### what remains (precise statements; none of them is known to be false)

  B. `wf_swapEdge : a < k.nE → b < k.nE → WF k → WF (k.swapEdge a b)` and
     `wf_swapFace : a < k.nF → b < k.nF → WF k → k.oneCell = true → WF (k.swapFace a b)`
     (`oneCell` for `swapFace` because the cache-guided variant fixes only the cells found in
     `incident_cell_per_hf_` of the four halffaces, i.e. the FIRST live cell per halfface).
     Ingredients still to be written: (i) for LIVE faces/cells the relabelled definition is
     `map (relabelHalf a b)` — "visited or identity", exactly as `hedge` inside `wf_swapVertex`, with
     `Props.C12.map_relabelHalf_id`; (ii) `sOut' v ~ (sOut v).map ρ` by `perm_ext_iff_of_nodup`
     (both sides duplicate-free) and `sHfsOfHe' (ρ? y)` by `List.perm_iff_count` (multiplicities);
     (iii) the slot exchange `swapAt (swapAt l 2a 2b) (2a+1) (2b+1)` read through `getD`
     (`getD_swapAt` twice) is `l.getD (relabelHalf a b n)`.
  C. fast immediate `delete_face_core` / `delete_edge_core` = swap (B) + unlink (done: the deferred
     unlink lemmas do not look at the mode) + pop of the last slot (as `wf_unlinkEraseLastCell`);
     fast immediate `delete_vertex_core` = `wf_swapVertex` + `eraseVertex (nV-1)`, which needs
     "no live edge is incident to the vertex" (otherwise cc:965-978 renames that endpoint to `nV-2`).
     Non-fast (index shifting) erase stages: each needs one re-indexing lemma of the scan under
     `corr1 h` / `corr2 (2h+1)` (arithmetic: `Props.C02.corr1_bijective`, `corr2_half`) and, for
     `eraseFace`/`eraseEdge`, that the cells/faces handed to `fixHalfList` do not contain the erased
     face/edge (upward closure) — this is where the closure fact is really needed.
     `collectGarbage`: each sweep step un-flags the entity *before* calling the immediate core, so
     between the two the entity is live for the scans but absent from the caches; the invariant to
     carry through `gcSweep` is therefore `WF` of the state with the flag still set, and the step
     lemma is "erasing the slot of a dead, unlinked entity (+ renumbering) keeps `WF`", not
     `wf_deleteXCore`.  `oneCell` after `eraseCell`/pop (needed to chain several immediate deletions)
     is `oneCell_of_sub` generalised to a shorter `cells` list. -/

end Kernel
end OVM

import OVM.Refine.GlobalStep
/-
  C12, on the global invariant: two states that agree on everything except the bottom-up caches and which kinds
  are enabled (`SameDefs`; the definitions of entities that are flagged deleted are NOT compared — the
  cache-guided `swap_*_indices` do not visit them, the linear scans do, OVM/Refine/CacheSwapSpec.lean) are taken by
  the same operation to states that again agree.  This file:
    * the four index swaps (`same_swap*`; builder K3's / K2's observers of the relabelled definitions);
    * the closure queries `incident_edges/faces/cells` characterised exactly under `WF` (`mem_incident*`: sound
      AND complete, cache-guided or linear scan), hence equal as lists for `SameDefs` states (`same_incident*`);
    * the four deferred deletions (`same_delete*_deferred`: they only flag the closure lists);
    * operations that do not consult a cache (`same_of_frame`, `same_enableFast`, `same_clear`, `same_addVertex` …).
-/
namespace OVM
namespace Kernel
namespace Global
open ScanDel

/-- two states that agree on everything except the bottom-up caches, which kinds are enabled, the ghost
    flag, and the stored definitions of entities that are flagged deleted (deferred mode: the cache-guided
    `swap_*_indices` do not visit them — OVM/Refine/CacheSwapSpec.lean — the linear scans do) -/
structure SameDefs (k1 k2 : Kernel) : Prop where
  nV : k1.nV = k2.nV
  nE : k1.edges.length = k2.edges.length
  nF : k1.faces.length = k2.faces.length
  nC : k1.cells.length = k2.cells.length
  vDel : k1.vDel = k2.vDel
  eDel : k1.eDel = k2.eDel
  fDel : k1.fDel = k2.fDel
  cDel : k1.cDel = k2.cDel
  nDelV : k1.nDelV = k2.nDelV
  nDelE : k1.nDelE = k2.nDelE
  nDelF : k1.nDelF = k2.nDelF
  nDelC : k1.nDelC = k2.nDelC
  deferred : k1.deferred = k2.deferred
  fast : k1.fast = k2.fast
  props : k1.props = k2.props
  edgeAt : ∀ e, k1.liveE e = true → k1.edgeAt e = k2.edgeAt e
  faceAt : ∀ f, k1.liveF f = true → k1.faceAt f = k2.faceAt f
  cellAt : ∀ c, k1.liveC c = true → k1.cellAt c = k2.cellAt c

theorem SameDefs.refl (k : Kernel) : SameDefs k k :=
  ⟨rfl, rfl, rfl, rfl, rfl, rfl, rfl, rfl, rfl, rfl, rfl, rfl, rfl, rfl, rfl, fun _ _ => rfl, fun _ _ => rfl, fun _ _ => rfl⟩

theorem SameDefs.liveE {k1 k2 : Kernel} (s : SameDefs k1 k2) (e : Nat) : k1.liveE e = k2.liveE e := by
  unfold Kernel.liveE Kernel.nE eDeleted; rw [s.nE, s.eDel]
theorem SameDefs.liveF {k1 k2 : Kernel} (s : SameDefs k1 k2) (e : Nat) : k1.liveF e = k2.liveF e := by
  unfold Kernel.liveF Kernel.nF fDeleted; rw [s.nF, s.fDel]
theorem SameDefs.liveC {k1 k2 : Kernel} (s : SameDefs k1 k2) (e : Nat) : k1.liveC e = k2.liveC e := by
  unfold Kernel.liveC Kernel.nC cDeleted; rw [s.nC, s.cDel]

/-- in a state without flags the relation is equality of all definitions -/
theorem SameDefs.defs_eq {k1 k2 : Kernel} (s : SameDefs k1 k2) (nc : NoFlag k1.cDel) (nf : NoFlag k1.fDel)
    (ne : NoFlag k1.eDel) : k1.edges = k2.edges ∧ k1.faces = k2.faces ∧ k1.cells = k2.cells := by
  refine ⟨k3_ext_getD (0, 0) s.nE (fun i hi => s.edgeAt i ?_), k3_ext_getD [] s.nF (fun i hi => s.faceAt i ?_),
    k3_ext_getD [] s.nC (fun i hi => s.cellAt i ?_)⟩
  · unfold Kernel.liveE Kernel.nE eDeleted; rw [ne.getD]; simpa using hi
  · unfold Kernel.liveF Kernel.nF fDeleted; rw [nf.getD]; simpa using hi
  · unfold Kernel.liveC Kernel.nC cDeleted; rw [nc.getD]; simpa using hi

theorem swapEdge_props_eq (k : Kernel) (a b : Nat) (hab : a ≠ b) : (k.swapEdge a b).props = swapEProps k.props a b := by
  unfold swapEdge; simp [hab]
theorem swapFace_props_eq (k : Kernel) (a b : Nat) (hab : a ≠ b) : (k.swapFace a b).props = swapFProps k.props a b := by
  unfold swapFace; simp [hab]
theorem swapVertex_props_eq (k : Kernel) (a b : Nat) (hab : a ≠ b) : (k.swapVertex a b).props = swapVProps k.props a b := by
  unfold swapVertex; simp [hab]
theorem swapCell_props_eq (k : Kernel) (a b : Nat) (hab : a ≠ b) : (k.swapCell a b).props = swapCProps k.props a b := by
  unfold swapCell; simp [hab]

theorem same_swapEdge {k1 k2 : Kernel} {a b : Nat} (s : SameDefs k1 k2) (w1 : WF k1) (w2 : WF k2)
    (ha : a < k1.nE) (hb : b < k1.nE) : SameDefs (k1.swapEdge a b) (k2.swapEdge a b) := by
  by_cases hab : a = b
  · subst hab; rw [swapEdge_self, swapEdge_self]; exact s
  have ha2 : a < k2.nE := by unfold Kernel.nE at *; rw [← s.nE]; exact ha
  have hb2 : b < k2.nE := by unfold Kernel.nE at *; rw [← s.nE]; exact hb
  refine ⟨by simpa using s.nV, by rw [swapEdge_edges_length, swapEdge_edges_length]; exact s.nE,
    by rw [swapEdge_faces_length, swapEdge_faces_length]; exact s.nF, by rw [swapEdge_cells, swapEdge_cells]; exact s.nC,
    by rw [swapEdge_vDel, swapEdge_vDel]; exact s.vDel, by rw [swapEdge_eDel_eq, swapEdge_eDel_eq, s.eDel],
    by rw [swapEdge_fDel, swapEdge_fDel]; exact s.fDel, by rw [swapEdge_cDel, swapEdge_cDel]; exact s.cDel,
    by simpa using s.nDelV, by simpa using s.nDelE, by simpa using s.nDelF, by simpa using s.nDelC,
    by simpa using s.deferred, by simpa using s.fast,
    by rw [swapEdge_props_eq _ _ _ hab, swapEdge_props_eq _ _ _ hab, s.props], ?_, ?_, ?_⟩
  · intro e hl
    rw [swapEdge_liveE hab ha hb w1.len.eDel] at hl
    rw [swapEdge_edgeAt hab ha hb, swapEdge_edgeAt hab ha2 hb2]
    exact s.edgeAt _ hl
  · intro f hl
    rw [liveF_of_len (swapEdge_faces_length k1 a b) (swapEdge_fDel k1 a b)] at hl
    rw [swapEdge_faceAt_live hab ha hb w1.cache.e (fun _ => hl),
      swapEdge_faceAt_live hab ha2 hb2 w2.cache.e (fun _ => by rw [← s.liveF]; exact hl), s.faceAt f hl]
  · intro c hl
    rw [liveC_of_eq (swapEdge_cells k1 a b) (swapEdge_cDel k1 a b)] at hl
    rw [cellAt_of_eq (swapEdge_cells k1 a b), cellAt_of_eq (swapEdge_cells k2 a b)]
    exact s.cellAt c hl

theorem same_swapFace {k1 k2 : Kernel} {a b : Nat} (s : SameDefs k1 k2) (w1 : WF k1) (w2 : WF k2) (o1 : k1.oneCell = true) (o2 : k2.oneCell = true)
    (ha : a < k1.nF) (hb : b < k1.nF) : SameDefs (k1.swapFace a b) (k2.swapFace a b) := by
  by_cases hab : a = b
  · subst hab; rw [swapFace_self, swapFace_self]; exact s
  have ha2 : a < k2.nF := by unfold Kernel.nF at *; rw [← s.nF]; exact ha
  have hb2 : b < k2.nF := by unfold Kernel.nF at *; rw [← s.nF]; exact hb
  refine ⟨by simpa using s.nV, by rw [swapFace_edges, swapFace_edges]; exact s.nE,
    by rw [swapFace_faces_length, swapFace_faces_length]; exact s.nF,
    by rw [swapFace_cells_length, swapFace_cells_length]; exact s.nC,
    by rw [swapFace_vDel, swapFace_vDel]; exact s.vDel, by rw [swapFace_eDel, swapFace_eDel]; exact s.eDel,
    by rw [swapFace_fDel_eq, swapFace_fDel_eq, s.fDel], by rw [swapFace_cDel, swapFace_cDel]; exact s.cDel,
    by simpa using s.nDelV, by simpa using s.nDelE, by simpa using s.nDelF, by simpa using s.nDelC,
    by simpa using s.deferred, by simpa using s.fast,
    by rw [swapFace_props_eq _ _ _ hab, swapFace_props_eq _ _ _ hab, s.props], ?_, ?_, ?_⟩
  · intro e hl
    rw [liveE_of_eq (swapFace_edges k1 a b) (swapFace_eDel k1 a b)] at hl
    rw [edgeAt_of_eq (swapFace_edges k1 a b), edgeAt_of_eq (swapFace_edges k2 a b)]
    exact s.edgeAt e hl
  · intro f hl
    rw [swapFace_liveF hab ha hb w1.len.fDel] at hl
    rw [swapFace_faceAt hab ha hb, swapFace_faceAt hab ha2 hb2]
    exact s.faceAt _ hl
  · intro c hl
    rw [liveC_of_len (swapFace_cells_length k1 a b) (swapFace_cDel k1 a b)] at hl
    rw [swapFace_cellAt_live hab ha hb w1.cache.f (fun _ => o1) (fun _ => hl),
      swapFace_cellAt_live hab ha2 hb2 w2.cache.f (fun _ => o2) (fun _ => by rw [← s.liveC]; exact hl),
      s.cellAt c hl]

theorem same_swapVertex {k1 k2 : Kernel} {a b : Nat} (s : SameDefs k1 k2) (w1 : WF k1) (w2 : WF k2)
    (ha : a < k1.nV) (hb : b < k1.nV) : SameDefs (k1.swapVertex a b) (k2.swapVertex a b) := by
  by_cases hab : a = b
  · subst hab; rw [swapVertex_self, swapVertex_self]; exact s
  have ha2 : a < k2.nV := by rw [← s.nV]; exact ha
  have hb2 : b < k2.nV := by rw [← s.nV]; exact hb
  refine ⟨by simpa using s.nV, by rw [swapVertex_edges_length, swapVertex_edges_length]; exact s.nE,
    by rw [swapVertex_faces, swapVertex_faces]; exact s.nF, by rw [swapVertex_cells, swapVertex_cells]; exact s.nC,
    by rw [swapVertex_vDel_eq, swapVertex_vDel_eq, s.vDel], by rw [swapVertex_eDel, swapVertex_eDel]; exact s.eDel,
    by rw [swapVertex_fDel, swapVertex_fDel]; exact s.fDel, by rw [swapVertex_cDel, swapVertex_cDel]; exact s.cDel,
    by simpa using s.nDelV, by simpa using s.nDelE, by simpa using s.nDelF, by simpa using s.nDelC,
    by simpa using s.deferred, by simpa using s.fast,
    by rw [swapVertex_props_eq _ _ _ hab, swapVertex_props_eq _ _ _ hab, s.props], ?_, ?_, ?_⟩
  · intro e hl
    rw [liveE_of_len (swapVertex_edges_length k1 a b) (swapVertex_eDel k1 a b)] at hl
    have helt : e < k1.edges.length := by unfold Kernel.liveE Kernel.nE at hl; simp at hl; exact hl.1
    rw [swapVertex_edgeAt_live hab ha hb w1.cache.v helt (fun _ => hl),
      swapVertex_edgeAt_live hab ha2 hb2 w2.cache.v (by rw [← s.nE]; exact helt) (fun _ => by rw [← s.liveE]; exact hl),
      s.edgeAt e hl]
  · intro f hl
    rw [liveF_of_eq (swapVertex_faces k1 a b) (swapVertex_fDel k1 a b)] at hl
    rw [faceAt_of_eq (swapVertex_faces k1 a b), faceAt_of_eq (swapVertex_faces k2 a b)]
    exact s.faceAt f hl
  · intro c hl
    rw [liveC_of_eq (swapVertex_cells k1 a b) (swapVertex_cDel k1 a b)] at hl
    rw [cellAt_of_eq (swapVertex_cells k1 a b), cellAt_of_eq (swapVertex_cells k2 a b)]
    exact s.cellAt c hl

theorem same_swapCell {k1 k2 : Kernel} {a b : Nat} (s : SameDefs k1 k2) (w1 : WF k1)
    (ha : a < k1.nC) (hb : b < k1.nC) : SameDefs (k1.swapCell a b) (k2.swapCell a b) := by
  by_cases hab : a = b
  · subst hab; rw [swapCell_self, swapCell_self]; exact s
  have ha2 : a < k2.nC := by unfold Kernel.nC at *; rw [← s.nC]; exact ha
  have hb2 : b < k2.nC := by unfold Kernel.nC at *; rw [← s.nC]; exact hb
  refine ⟨by simpa using s.nV, by rw [swapCell_edges, swapCell_edges]; exact s.nE,
    by rw [swapCell_faces, swapCell_faces]; exact s.nF,
    by rw [swapCell_cells_eq, swapCell_cells_eq, length_swapAt, length_swapAt]; exact s.nC,
    by rw [swapCell_vDel, swapCell_vDel]; exact s.vDel, by rw [swapCell_eDel, swapCell_eDel]; exact s.eDel,
    by rw [swapCell_fDel, swapCell_fDel]; exact s.fDel, by rw [swapCell_cDel_eq, swapCell_cDel_eq, s.cDel],
    by simpa using s.nDelV, by simpa using s.nDelE, by simpa using s.nDelF, by simpa using s.nDelC,
    by simpa using s.deferred, by simpa using s.fast,
    by rw [swapCell_props_eq _ _ _ hab, swapCell_props_eq _ _ _ hab, s.props], ?_, ?_, ?_⟩
  · intro e hl
    rw [liveE_of_eq (swapCell_edges k1 a b) (swapCell_eDel k1 a b)] at hl
    rw [edgeAt_of_eq (swapCell_edges k1 a b), edgeAt_of_eq (swapCell_edges k2 a b)]
    exact s.edgeAt e hl
  · intro f hl
    rw [liveF_of_eq (swapCell_faces k1 a b) (swapCell_fDel k1 a b)] at hl
    rw [faceAt_of_eq (swapCell_faces k1 a b), faceAt_of_eq (swapCell_faces k2 a b)]
    exact s.faceAt f hl
  · intro c hl
    rw [swapCell_liveC hab ha hb w1.len.cDel] at hl
    rw [swapCell_cellAt hab ha hb, swapCell_cellAt hab ha2 hb2]
    exact s.cellAt _ hl


/-! ### the incidence queries of the closure deletions, exactly (cache-guided or linear scan) -/

theorem mem_incidentCells {k : Kernel} (hw : WF k) (h1 : k.oneCell = true) (fs : List Nat) (c : Nat) :
    c ∈ k.incidentCells fs ↔ (k.liveC c = true ∧ ∃ a ∈ k.cellAt c, eOf a ∈ fs) := by
  constructor
  · intro hm
    unfold incidentCells at hm
    split at hm
    · rename_i hb
      rw [k4_mem_toSet, List.mem_flatMap] at hm
      obtain ⟨f, hf, hc⟩ := hm
      rw [List.mem_filterMap] at hc
      obtain ⟨o, ho, hoc⟩ := hc
      simp only [id] at hoc
      subst hoc
      simp only [List.mem_cons, List.mem_nil_iff, or_false] at ho
      rcases ho with ho | ho
      · obtain ⟨_, hl, hx⟩ := cellOf_some_live hw.cache.f hb ho.symm
        exact ⟨hl, _, hx, by unfold eOf heOf; rw [show (2 * f + 0) / 2 = f by omega]; exact hf⟩
      · obtain ⟨_, hl, hx⟩ := cellOf_some_live hw.cache.f hb ho.symm
        exact ⟨hl, _, hx, by unfold eOf heOf; rw [show (2 * f + 1) / 2 = f by omega]; exact hf⟩
    · rw [k4_mem_toSet, List.mem_flatMap] at hm
      obtain ⟨f, hf, hc⟩ := hm
      rw [List.mem_filter, mem_liveCells, List.any_eq_true] at hc
      obtain ⟨hl, a, ha, he⟩ := hc
      exact ⟨hl, a, ha, by rw [show eOf a = f by simpa using he]; exact hf⟩
  · rintro ⟨hl, a, ha, hf⟩
    exact cmpl_incidentCells hw h1 fs hl ha hf

theorem mem_incidentFaces {k : Kernel} (hw : WF k) (es : List Nat) (f : Nat) :
    f ∈ k.incidentFaces es ↔ (k.liveF f = true ∧ ∃ a ∈ k.faceAt f, eOf a ∈ es) := by
  constructor
  · intro hm
    unfold incidentFaces at hm
    split at hm
    · rename_i hb
      rw [k4_mem_toSet, List.mem_flatMap] at hm
      obtain ⟨e, he, hc⟩ := hm
      rw [List.mem_map] at hc
      obtain ⟨x, hx, rfl⟩ := hc
      have hlen := (hw.cache.e hb).1
      by_cases hlt : heOf e 0 < k.nHE
      · have hx' := ((hw.cache.e hb).2 _ hlt).mem_iff.mp hx
        rw [mem_sHfsOfHe] at hx'
        obtain ⟨hl, hh⟩ := hx'
        refine ⟨hl, ?_⟩
        have hcase : x = 2 * eOf x ∨ x = 2 * eOf x + 1 := by unfold eOf; omega
        rcases hcase with hc | hc
        · rw [hc, hfHes_two_mul] at hh
          exact ⟨_, hh, by unfold eOf heOf; rw [show (2 * e + 0) / 2 = e by omega]; exact he⟩
        · rw [hc, hfHes_two_mul_succ, k3_mem_oppFace] at hh
          exact ⟨_, hh, by rw [eOf_opp]; unfold eOf heOf; rw [show (2 * e + 0) / 2 = e by omega]; exact he⟩
      · exfalso
        unfold hfsOf at hx
        rw [getD_of_ge _ _ _ (by rw [hlen]; omega)] at hx
        cases hx
    · rw [k4_mem_toSet, List.mem_flatMap] at hm
      obtain ⟨e, he, hc⟩ := hm
      rw [List.mem_filter, mem_liveFaces, List.any_eq_true] at hc
      obtain ⟨hl, a, ha, hea⟩ := hc
      exact ⟨hl, a, ha, by rw [show eOf a = e by simpa using hea]; exact he⟩
  · rintro ⟨hl, a, ha, he⟩
    exact cmpl_incidentFaces hw es hl ha he

theorem mem_incidentEdges {k : Kernel} (hw : WF k) (vs : List Nat) (e : Nat) :
    e ∈ k.incidentEdges vs ↔ (k.liveE e = true ∧ ((k.edgeAt e).1 ∈ vs ∨ (k.edgeAt e).2 ∈ vs)) := by
  constructor
  · intro hm
    unfold incidentEdges at hm
    split at hm
    · rename_i hb
      rw [k4_mem_toSet, List.mem_flatMap] at hm
      obtain ⟨v, hv, hc⟩ := hm
      rw [List.mem_map] at hc
      obtain ⟨x, hx, rfl⟩ := hc
      have hlen := (hw.cache.v hb).1
      by_cases hlt : v < k.nV
      · have hx' := mem_sOut (((hw.cache.v hb).2 _ hlt).mem_iff.mp hx)
        refine ⟨hx'.2, ?_⟩
        rcases k3_fromV_mem k x with h | h
        · left; rw [← h, hx'.1]; exact hv
        · right; rw [← h, hx'.1]; exact hv
      · exfalso
        unfold outOf at hx
        rw [getD_of_ge _ _ _ (by rw [hlen]; omega)] at hx
        cases hx
    · rw [k4_mem_toSet, List.mem_flatMap] at hm
      obtain ⟨v, hv, hc⟩ := hm
      rw [List.mem_filter, mem_liveEdges] at hc
      obtain ⟨hl, hc⟩ := hc
      simp only [Bool.or_eq_true, beq_iff_eq] at hc
      refine ⟨hl, ?_⟩
      rcases hc with h | h
      · left; rw [h]; exact hv
      · right; rw [h]; exact hv
  · rintro ⟨hl, hv⟩
    exact cmpl_incidentEdges hw vs hl hv


theorem pairwise_lt_ext : ∀ (l m : List Nat), l.Pairwise (· < ·) → m.Pairwise (· < ·) → (∀ x, x ∈ l ↔ x ∈ m) → l = m
  | [], [], _, _, _ => rfl
  | [], b :: u, _, _, h => by have := (h b).mpr (List.mem_cons_self); cases this
  | a :: t, [], _, _, h => by have := (h a).mp (List.mem_cons_self); cases this
  | a :: t, b :: u, hl, hm, h => by
    rw [List.pairwise_cons] at hl hm
    have hab : a = b := by
      rcases List.mem_cons.mp ((h a).mp (List.mem_cons_self)) with e | e
      · exact e
      · rcases List.mem_cons.mp ((h b).mpr (List.mem_cons_self)) with e' | e'
        · exact e'.symm
        · have := hm.1 a e; have := hl.1 b e'; omega
    subst hab
    congr 1
    apply pairwise_lt_ext t u hl.2 hm.2
    intro x
    constructor
    · intro hx
      rcases List.mem_cons.mp ((h x).mp (List.mem_cons_of_mem _ hx)) with e | e
      · have := hl.1 x hx; omega
      · exact e
    · intro hx
      rcases List.mem_cons.mp ((h x).mpr (List.mem_cons_of_mem _ hx)) with e | e
      · have := hm.1 x hx; omega
      · exact e

theorem toSet_ext (l m : List Nat) (h : ∀ x, x ∈ toSet l ↔ x ∈ toSet m) : toSet l = toSet m :=
  pairwise_lt_ext _ _ (Shift.k4c_pairwise_of_sortedLT _ (Shift.k4c_sortedLT_toSet l))
    (Shift.k4c_pairwise_of_sortedLT _ (Shift.k4c_sortedLT_toSet m)) h

theorem incidentCells_toSet (k : Kernel) (fs : List Nat) : ∃ l, k.incidentCells fs = toSet l := by
  unfold incidentCells; split <;> exact ⟨_, rfl⟩
theorem incidentFaces_toSet (k : Kernel) (fs : List Nat) : ∃ l, k.incidentFaces fs = toSet l := by
  unfold incidentFaces; split <;> exact ⟨_, rfl⟩
theorem incidentEdges_toSet (k : Kernel) (fs : List Nat) : ∃ l, k.incidentEdges fs = toSet l := by
  unfold incidentEdges; split <;> exact ⟨_, rfl⟩

/-! ### with the same live definitions the closure queries return the same lists, whatever caches guide them -/

theorem same_incidentEdges {k1 k2 : Kernel} (s : SameDefs k1 k2) (w1 : WF k1) (w2 : WF k2) (vs : List Nat) :
    k1.incidentEdges vs = k2.incidentEdges vs := by
  obtain ⟨l1, e1⟩ := incidentEdges_toSet k1 vs
  obtain ⟨l2, e2⟩ := incidentEdges_toSet k2 vs
  rw [e1, e2]; apply toSet_ext; intro x
  rw [← e1, ← e2, mem_incidentEdges w1, mem_incidentEdges w2]
  constructor
  · rintro ⟨hl, hv⟩; exact ⟨by rw [← s.liveE]; exact hl, by rw [← s.edgeAt x hl]; exact hv⟩
  · rintro ⟨hl, hv⟩
    have hl' : k1.liveE x = true := by rw [s.liveE]; exact hl
    exact ⟨hl', by rw [s.edgeAt x hl']; exact hv⟩

theorem same_incidentFaces {k1 k2 : Kernel} (s : SameDefs k1 k2) (w1 : WF k1) (w2 : WF k2) (es : List Nat) :
    k1.incidentFaces es = k2.incidentFaces es := by
  obtain ⟨l1, e1⟩ := incidentFaces_toSet k1 es
  obtain ⟨l2, e2⟩ := incidentFaces_toSet k2 es
  rw [e1, e2]; apply toSet_ext; intro x
  rw [← e1, ← e2, mem_incidentFaces w1, mem_incidentFaces w2]
  constructor
  · rintro ⟨hl, hv⟩; exact ⟨by rw [← s.liveF]; exact hl, by rw [← s.faceAt x hl]; exact hv⟩
  · rintro ⟨hl, hv⟩
    have hl' : k1.liveF x = true := by rw [s.liveF]; exact hl
    exact ⟨hl', by rw [s.faceAt x hl']; exact hv⟩

theorem same_incidentCells {k1 k2 : Kernel} (s : SameDefs k1 k2) (i1 : GInv k1) (i2 : GInv k2) (fs : List Nat) :
    k1.incidentCells fs = k2.incidentCells fs := by
  obtain ⟨l1, e1⟩ := incidentCells_toSet k1 fs
  obtain ⟨l2, e2⟩ := incidentCells_toSet k2 fs
  rw [e1, e2]; apply toSet_ext; intro x
  rw [← e1, ← e2, mem_incidentCells i1.wf i1.one, mem_incidentCells i2.wf i2.one]
  constructor
  · rintro ⟨hl, hv⟩; exact ⟨by rw [← s.liveC]; exact hl, by rw [← s.cellAt x hl]; exact hv⟩
  · rintro ⟨hl, hv⟩
    have hl' : k1.liveC x = true := by rw [s.liveC]; exact hl
    exact ⟨hl', by rw [s.cellAt x hl']; exact hv⟩

/-! ### deferred deletion only flags: what it does to the fields `SameDefs` reads -/

/-- `k'` is `k` with the cells `cs`, faces `fs`, edges `es`, vertices `vs` flagged (and counted) -/
structure Flagged (k k' : Kernel) (cs fs es vs : List Nat) : Prop where
  nV : k'.nV = k.nV
  edges : k'.edges = k.edges
  faces : k'.faces = k.faces
  cells : k'.cells = k.cells
  cDel : k'.cDel = cs.foldl (fun l h => l.set h true) k.cDel
  fDel : k'.fDel = fs.foldl (fun l h => l.set h true) k.fDel
  eDel : k'.eDel = es.foldl (fun l h => l.set h true) k.eDel
  vDel : k'.vDel = vs.foldl (fun l h => l.set h true) k.vDel
  nDelC : k'.nDelC = k.nDelC + cs.length
  nDelF : k'.nDelF = k.nDelF + fs.length
  nDelE : k'.nDelE = k.nDelE + es.length
  nDelV : k'.nDelV = k.nDelV + vs.length
  deferred : k'.deferred = k.deferred
  fast : k'.fast = k.fast
  props : k'.props = k.props

theorem Flagged.refl (k : Kernel) : Flagged k k [] [] [] [] :=
  ⟨rfl, rfl, rfl, rfl, rfl, rfl, rfl, rfl, rfl, rfl, rfl, rfl, rfl, rfl, rfl⟩

theorem same_of_flagged {k1 k2 k1' k2' : Kernel} {cs fs es vs : List Nat} (s : SameDefs k1 k2)
    (f1 : Flagged k1 k1' cs fs es vs) (f2 : Flagged k2 k2' cs fs es vs) : SameDefs k1' k2' := by
  refine ⟨by rw [f1.nV, f2.nV, s.nV], by rw [f1.edges, f2.edges, s.nE], by rw [f1.faces, f2.faces, s.nF],
    by rw [f1.cells, f2.cells, s.nC], by rw [f1.vDel, f2.vDel, s.vDel], by rw [f1.eDel, f2.eDel, s.eDel],
    by rw [f1.fDel, f2.fDel, s.fDel], by rw [f1.cDel, f2.cDel, s.cDel], by rw [f1.nDelV, f2.nDelV, s.nDelV],
    by rw [f1.nDelE, f2.nDelE, s.nDelE], by rw [f1.nDelF, f2.nDelF, s.nDelF], by rw [f1.nDelC, f2.nDelC, s.nDelC],
    by rw [f1.deferred, f2.deferred, s.deferred], by rw [f1.fast, f2.fast, s.fast], by rw [f1.props, f2.props, s.props],
    ?_, ?_, ?_⟩
  · intro e hl
    have : k1.liveE e = true := by
      unfold Kernel.liveE Kernel.nE eDeleted at hl ⊢
      rw [f1.edges, f1.eDel, flagsFold_getD] at hl
      simp only [Bool.and_eq_true, decide_eq_true_eq, Bool.not_eq_true', Bool.or_eq_false_iff] at hl
      rw [hl.2.1]; simp [hl.1]
    rw [edgeAt_of_eq f1.edges, edgeAt_of_eq f2.edges]; exact s.edgeAt e this
  · intro e hl
    have : k1.liveF e = true := by
      unfold Kernel.liveF Kernel.nF fDeleted at hl ⊢
      rw [f1.faces, f1.fDel, flagsFold_getD] at hl
      simp only [Bool.and_eq_true, decide_eq_true_eq, Bool.not_eq_true', Bool.or_eq_false_iff] at hl
      rw [hl.2.1]; simp [hl.1]
    rw [faceAt_of_eq f1.faces, faceAt_of_eq f2.faces]; exact s.faceAt e this
  · intro e hl
    have : k1.liveC e = true := by
      unfold Kernel.liveC Kernel.nC cDeleted at hl ⊢
      rw [f1.cells, f1.cDel, flagsFold_getD] at hl
      simp only [Bool.and_eq_true, decide_eq_true_eq, Bool.not_eq_true', Bool.or_eq_false_iff] at hl
      rw [hl.2.1]; simp [hl.1]
    rw [cellAt_of_eq f1.cells, cellAt_of_eq f2.cells]; exact s.cellAt e this

theorem flagged_foldCells (L : List Nat) (k : Kernel) (hd : k.deferred = true) :
    (L.foldl deleteCellCore k).deferred = true ∧ Flagged k (L.foldl deleteCellCore k) L [] [] [] := by
  induction L generalizing k with
  | nil => exact ⟨hd, Flagged.refl k⟩
  | cons a t ih =>
    simp only [List.foldl_cons]
    obtain ⟨h1, h2⟩ := ih (k.deleteCellCore a) (by simpa using hd)
    refine ⟨h1, ?_⟩
    rw [deleteCellCore_deferred_eq a hd] at h2 ⊢
    exact ⟨by simpa using h2.nV, by simpa using h2.edges, by simpa using h2.faces, by simpa using h2.cells,
      by simpa using h2.cDel, by simpa using h2.fDel, by simpa using h2.eDel, by simpa using h2.vDel,
      by have := h2.nDelC; simp at this ⊢; omega, by simpa using h2.nDelF, by simpa using h2.nDelE,
      by simpa using h2.nDelV, by simpa using h2.deferred, by simpa using h2.fast, by simpa using h2.props⟩

theorem flagged_foldFaces (L : List Nat) (k : Kernel) (hd : k.deferred = true) :
    (L.foldl deleteFaceCore k).deferred = true ∧ Flagged k (L.foldl deleteFaceCore k) [] L [] [] := by
  induction L generalizing k with
  | nil => exact ⟨hd, Flagged.refl k⟩
  | cons a t ih =>
    simp only [List.foldl_cons]
    obtain ⟨h1, h2⟩ := ih (k.deleteFaceCore a) (by simpa using hd)
    refine ⟨h1, ?_⟩
    rw [deleteFaceCore_deferred_eq a hd] at h2 ⊢
    exact ⟨by simpa using h2.nV, by simpa using h2.edges, by simpa using h2.faces, by simpa using h2.cells,
      by simpa using h2.cDel, by simpa using h2.fDel, by simpa using h2.eDel, by simpa using h2.vDel,
      by simpa using h2.nDelC, by have := h2.nDelF; simp at this ⊢; omega, by simpa using h2.nDelE,
      by simpa using h2.nDelV, by simpa using h2.deferred, by simpa using h2.fast, by simpa using h2.props⟩

theorem flagged_foldEdges (L : List Nat) (k : Kernel) (hd : k.deferred = true) :
    (L.foldl deleteEdgeCore k).deferred = true ∧ Flagged k (L.foldl deleteEdgeCore k) [] [] L [] := by
  induction L generalizing k with
  | nil => exact ⟨hd, Flagged.refl k⟩
  | cons a t ih =>
    simp only [List.foldl_cons]
    obtain ⟨h1, h2⟩ := ih (k.deleteEdgeCore a) (by simpa using hd)
    refine ⟨h1, ?_⟩
    rw [deleteEdgeCore_deferred_eq a hd] at h2 ⊢
    exact ⟨by simpa using h2.nV, by simpa using h2.edges, by simpa using h2.faces, by simpa using h2.cells,
      by simpa using h2.cDel, by simpa using h2.fDel, by simpa using h2.eDel, by simpa using h2.vDel,
      by simpa using h2.nDelC, by simpa using h2.nDelF, by have := h2.nDelE; simp at this ⊢; omega,
      by simpa using h2.nDelV, by simpa using h2.deferred, by simpa using h2.fast, by simpa using h2.props⟩

theorem Flagged.trans {k k' k'' : Kernel} {cs fs es vs cs' fs' es' vs' : List Nat}
    (a : Flagged k k' cs fs es vs) (b : Flagged k' k'' cs' fs' es' vs') :
    Flagged k k'' (cs ++ cs') (fs ++ fs') (es ++ es') (vs ++ vs') :=
  ⟨b.nV.trans a.nV, b.edges.trans a.edges, b.faces.trans a.faces, b.cells.trans a.cells,
   by rw [b.cDel, a.cDel, List.foldl_append], by rw [b.fDel, a.fDel, List.foldl_append],
   by rw [b.eDel, a.eDel, List.foldl_append], by rw [b.vDel, a.vDel, List.foldl_append],
   by rw [b.nDelC, a.nDelC, List.length_append]; omega, by rw [b.nDelF, a.nDelF, List.length_append]; omega,
   by rw [b.nDelE, a.nDelE, List.length_append]; omega, by rw [b.nDelV, a.nDelV, List.length_append]; omega,
   b.deferred.trans a.deferred, b.fast.trans a.fast, b.props.trans a.props⟩

theorem flagged_vertexCore (k : Kernel) (v : Nat) (hd : k.deferred = true) : Flagged k (k.deleteVertexCore v) [] [] [] [v] := by
  rw [deleteVertexCore_deferred_eq v hd]
  exact ⟨by simp, by simp, by simp, by simp, by simp, by simp, by simp, by simp, by simp, by simp, by simp, by simp,
    by simp, by simp, by simp⟩

/-- deferred `delete_vertex`: the lists of the upward closure are flagged, nothing else changes -/
theorem flagged_deleteVertex (k : Kernel) (v : Nat) (hd : k.deferred = true) :
    Flagged k (k.deleteVertex v) (k.incidentCells (k.incidentFaces (k.incidentEdges [v]))).reverse
      (k.incidentFaces (k.incidentEdges [v])).reverse (k.incidentEdges [v]).reverse [v] := by
  unfold deleteVertex
  simp only
  obtain ⟨d1, a1⟩ := flagged_foldCells (k.incidentCells (k.incidentFaces (k.incidentEdges [v]))).reverse k hd
  obtain ⟨d2, a2⟩ := flagged_foldFaces (k.incidentFaces (k.incidentEdges [v])).reverse _ d1
  obtain ⟨d3, a3⟩ := flagged_foldEdges (k.incidentEdges [v]).reverse _ d2
  have := ((a1.trans a2).trans a3).trans (flagged_vertexCore _ v d3)
  simpa using this

theorem flagged_edgeCore (k : Kernel) (e : Nat) (hd : k.deferred = true) : Flagged k (k.deleteEdgeCore e) [] [] [e] [] := by
  have := (flagged_foldEdges [e] k hd).2
  simpa using this
theorem flagged_faceCore (k : Kernel) (e : Nat) (hd : k.deferred = true) : Flagged k (k.deleteFaceCore e) [] [e] [] [] := by
  have := (flagged_foldFaces [e] k hd).2
  simpa using this
theorem flagged_cellCore (k : Kernel) (e : Nat) (hd : k.deferred = true) : Flagged k (k.deleteCellCore e) [e] [] [] [] := by
  have := (flagged_foldCells [e] k hd).2
  simpa using this

theorem flagged_deleteEdge (k : Kernel) (e : Nat) (hd : k.deferred = true) :
    Flagged k (k.deleteEdge e) (k.incidentCells (k.incidentFaces [e])).reverse (k.incidentFaces [e]).reverse [e] [] := by
  unfold deleteEdge
  simp only
  obtain ⟨d1, a1⟩ := flagged_foldCells (k.incidentCells (k.incidentFaces [e])).reverse k hd
  obtain ⟨d2, a2⟩ := flagged_foldFaces (k.incidentFaces [e]).reverse _ d1
  have := (a1.trans a2).trans (flagged_edgeCore _ e d2)
  simpa using this

theorem flagged_deleteFace (k : Kernel) (f : Nat) (hd : k.deferred = true) :
    Flagged k (k.deleteFace f) (k.incidentCells [f]).reverse [f] [] [] := by
  unfold deleteFace
  simp only
  obtain ⟨d1, a1⟩ := flagged_foldCells (k.incidentCells [f]).reverse k hd
  have := a1.trans (flagged_faceCore _ f d1)
  simpa using this

theorem flagged_deleteCell (k : Kernel) (c : Nat) (hd : k.deferred = true) : Flagged k (k.deleteCell c) [c] [] [] [] :=
  flagged_cellCore k c hd

/-! ### deferred deletion with any two bottom-up configurations -/

theorem same_deleteCell_deferred {k1 k2 : Kernel} (s : SameDefs k1 k2) (hd : k1.deferred = true) (c : Nat) :
    SameDefs (k1.deleteCell c) (k2.deleteCell c) :=
  same_of_flagged s (flagged_deleteCell k1 c hd) (flagged_deleteCell k2 c (by rw [← s.deferred]; exact hd))

theorem same_deleteFace_deferred {k1 k2 : Kernel} (s : SameDefs k1 k2) (i1 : GInv k1) (i2 : GInv k2)
    (hd : k1.deferred = true) (f : Nat) : SameDefs (k1.deleteFace f) (k2.deleteFace f) := by
  have a := flagged_deleteFace k1 f hd
  have b := flagged_deleteFace k2 f (by rw [← s.deferred]; exact hd)
  rw [← same_incidentCells s i1 i2] at b
  exact same_of_flagged s a b

theorem same_deleteEdge_deferred {k1 k2 : Kernel} (s : SameDefs k1 k2) (i1 : GInv k1) (i2 : GInv k2)
    (hd : k1.deferred = true) (e : Nat) : SameDefs (k1.deleteEdge e) (k2.deleteEdge e) := by
  have a := flagged_deleteEdge k1 e hd
  have b := flagged_deleteEdge k2 e (by rw [← s.deferred]; exact hd)
  rw [← same_incidentFaces s i1.wf i2.wf, ← same_incidentCells s i1 i2] at b
  exact same_of_flagged s a b

theorem same_deleteVertex_deferred {k1 k2 : Kernel} (s : SameDefs k1 k2) (i1 : GInv k1) (i2 : GInv k2)
    (hd : k1.deferred = true) (v : Nat) : SameDefs (k1.deleteVertex v) (k2.deleteVertex v) := by
  have a := flagged_deleteVertex k1 v hd
  have b := flagged_deleteVertex k2 v (by rw [← s.deferred]; exact hd)
  rw [← same_incidentEdges s i1.wf i2.wf, ← same_incidentFaces s i1.wf i2.wf, ← same_incidentCells s i1 i2] at b
  exact same_of_flagged s a b


/-! ### operations that read no cache to decide what they store -/

/-- `k'` has the fields `SameDefs` reads unchanged -/
structure Frame (k k' : Kernel) : Prop where
  nV : k'.nV = k.nV
  edges : k'.edges = k.edges
  faces : k'.faces = k.faces
  cells : k'.cells = k.cells
  vDel : k'.vDel = k.vDel
  eDel : k'.eDel = k.eDel
  fDel : k'.fDel = k.fDel
  cDel : k'.cDel = k.cDel
  nDelV : k'.nDelV = k.nDelV
  nDelE : k'.nDelE = k.nDelE
  nDelF : k'.nDelF = k.nDelF
  nDelC : k'.nDelC = k.nDelC
  deferred : k'.deferred = k.deferred
  fast : k'.fast = k.fast
  props : k'.props = k.props

theorem same_of_frame {k1 k2 k1' k2' : Kernel} (s : SameDefs k1 k2) (f1 : Frame k1 k1') (f2 : Frame k2 k2') :
    SameDefs k1' k2' := by
  refine ⟨by rw [f1.nV, f2.nV, s.nV], by rw [f1.edges, f2.edges, s.nE], by rw [f1.faces, f2.faces, s.nF],
    by rw [f1.cells, f2.cells, s.nC], by rw [f1.vDel, f2.vDel, s.vDel], by rw [f1.eDel, f2.eDel, s.eDel],
    by rw [f1.fDel, f2.fDel, s.fDel], by rw [f1.cDel, f2.cDel, s.cDel], by rw [f1.nDelV, f2.nDelV, s.nDelV],
    by rw [f1.nDelE, f2.nDelE, s.nDelE], by rw [f1.nDelF, f2.nDelF, s.nDelF], by rw [f1.nDelC, f2.nDelC, s.nDelC],
    by rw [f1.deferred, f2.deferred, s.deferred], by rw [f1.fast, f2.fast, s.fast], by rw [f1.props, f2.props, s.props],
    ?_, ?_, ?_⟩
  · intro e hl
    rw [liveE_of_eq f1.edges f1.eDel] at hl
    rw [edgeAt_of_eq f1.edges, edgeAt_of_eq f2.edges]; exact s.edgeAt e hl
  · intro e hl
    rw [liveF_of_eq f1.faces f1.fDel] at hl
    rw [faceAt_of_eq f1.faces, faceAt_of_eq f2.faces]; exact s.faceAt e hl
  · intro e hl
    rw [liveC_of_eq f1.cells f1.cDel] at hl
    rw [cellAt_of_eq f1.cells, cellAt_of_eq f2.cells]; exact s.cellAt e hl

theorem Frame.refl (k : Kernel) : Frame k k := ⟨rfl, rfl, rfl, rfl, rfl, rfl, rfl, rfl, rfl, rfl, rfl, rfl, rfl, rfl, rfl⟩

theorem reorderAll_fast (k : Kernel) : k.reorderAll.fast = k.fast := by unfold reorderAll; simp

theorem frame_reorderAll (k : Kernel) : Frame k k.reorderAll := by
  have f := reorderAll_frame k
  have m := reorderAll_modes k
  exact ⟨f.2.1, f.2.2.1, f.2.2.2.1, f.2.2.2.2.1, f.2.2.2.2.2.1, f.2.2.2.2.2.2.1, f.2.2.2.2.2.2.2.1, f.2.2.2.2.2.2.2.2.1,
    m.2.2.2.2, m.2.2.2.1, m.2.2.1, m.2.1, m.1, reorderAll_fast k, f.2.2.2.2.2.2.2.2.2.2.2.2.2.2⟩

theorem frame_enableVBU (k : Kernel) (b : Bool) : Frame k (k.enableVBU b) := by
  unfold enableVBU; split
  · split
    · exact Frame.refl k
    · exact ⟨rfl, rfl, rfl, rfl, rfl, rfl, rfl, rfl, rfl, rfl, rfl, rfl, rfl, rfl, rfl⟩
  · exact ⟨rfl, rfl, rfl, rfl, rfl, rfl, rfl, rfl, rfl, rfl, rfl, rfl, rfl, rfl, rfl⟩

theorem frame_enableEBU (k : Kernel) (b : Bool) : Frame k (k.enableEBU b) := by
  unfold enableEBU; split
  · split
    · exact Frame.refl k
    · split
      · have f := frame_reorderAll ({ k with incHfs := k.computeEBU })
        exact ⟨f.nV, f.edges, f.faces, f.cells, f.vDel, f.eDel, f.fDel, f.cDel, f.nDelV, f.nDelE, f.nDelF, f.nDelC,
          f.deferred, f.fast, f.props⟩
      · exact ⟨rfl, rfl, rfl, rfl, rfl, rfl, rfl, rfl, rfl, rfl, rfl, rfl, rfl, rfl, rfl⟩
  · exact ⟨rfl, rfl, rfl, rfl, rfl, rfl, rfl, rfl, rfl, rfl, rfl, rfl, rfl, rfl, rfl⟩

theorem frame_enableFBU (k : Kernel) (b : Bool) : Frame k (k.enableFBU b) := by
  unfold enableFBU; split
  · split
    · exact Frame.refl k
    · split
      · have f := frame_reorderAll ({ k with incCell := k.computeFBU, fBU := true })
        exact ⟨f.nV, f.edges, f.faces, f.cells, f.vDel, f.eDel, f.fDel, f.cDel, f.nDelV, f.nDelE, f.nDelF, f.nDelC,
          f.deferred, f.fast, f.props⟩
      · exact ⟨rfl, rfl, rfl, rfl, rfl, rfl, rfl, rfl, rfl, rfl, rfl, rfl, rfl, rfl, rfl⟩
  · exact ⟨rfl, rfl, rfl, rfl, rfl, rfl, rfl, rfl, rfl, rfl, rfl, rfl, rfl, rfl, rfl⟩

theorem same_enableFast {k1 k2 : Kernel} (s : SameDefs k1 k2) (b : Bool) : SameDefs (k1.enableFast b) (k2.enableFast b) :=
  { s with fast := rfl }

theorem same_withDeferred {k1 k2 : Kernel} (s : SameDefs k1 k2) (b : Bool) :
    SameDefs { k1 with deferred := b } { k2 with deferred := b } :=
  { s with deferred := rfl }

theorem same_clear {k1 k2 : Kernel} (s : SameDefs k1 k2) (p : Bool) : SameDefs (k1.clear p) (k2.clear p) := by
  refine ⟨rfl, rfl, rfl, rfl, rfl, rfl, rfl, rfl, rfl, rfl, rfl, rfl, s.deferred, s.fast, ?_, ?_, ?_, ?_⟩
  · show resizeC (resizeF (resizeE (resizeV k1.props 0) 0) 0) 0 = resizeC (resizeF (resizeE (resizeV k2.props 0) 0) 0) 0
    rw [s.props]
  · intro e hl; unfold Kernel.liveE Kernel.nE clear at hl; simp at hl
  · intro e hl; unfold Kernel.liveF Kernel.nF clear at hl; simp at hl
  · intro e hl; unfold Kernel.liveC Kernel.nC clear at hl; simp at hl

theorem same_addVertex {k1 k2 : Kernel} (s : SameDefs k1 k2) : SameDefs (k1.addVertex).1 (k2.addVertex).1 := by
  refine { s with nV := ?_, vDel := ?_, props := ?_ }
  · show k1.nV + 1 = k2.nV + 1; rw [s.nV]
  · show k1.vDel ++ [false] = k2.vDel ++ [false]; rw [s.vDel]
  · show resizeV k1.props (k1.nV + 1) = resizeV k2.props (k2.nV + 1); rw [s.props, s.nV]

theorem same_addNVertices {k1 k2 : Kernel} (s : SameDefs k1 k2) (n : Nat) :
    SameDefs (k1.addNVertices n) (k2.addNVertices n) := by
  refine { s with nV := ?_, vDel := ?_, props := ?_ }
  · show k1.nV + n = k2.nV + n; rw [s.nV]
  · show resizeL k1.vDel (k1.nV + n) false = resizeL k2.vDel (k2.nV + n) false; rw [s.vDel, s.nV]
  · show resizeV k1.props (k1.nV + n) = resizeV k2.props (k2.nV + n); rw [s.props, s.nV]

end Global
end Kernel
end OVM

import OVM.Kernel.Step
import OVM.Base.ListLemmas
import OVM.Refine.DeleteFrames
/-
  C03, transport of property values: the vocabulary.
  * `SlotOp` — the three slot operations `ResourceManager` ever applies to a storage
    (`resize(n, default)`, `delete_element(i)`, `swap(i, j)`), polymorphic in the value type;
  * naturality: a program of slot operations commutes with every renaming of the values;
  * representation: a program acts on every column through one *slot map* (for every result
    slot: a source slot or "default"), which depends on the program and the column length only;
  * `TokCol`: non-default tokens pairwise distinct — kept by every program;
  * `pairUp`: a half-entity column read as a column of (side 0, side 1) pairs; the doubled
    program (`dblL`) on the half-entity column is the original program on the pair column.
-/
set_option linter.unusedSimpArgs false

namespace OVM

inductive SlotOp where
  | resize (n : Nat)
  | erase (i : Nat)
  | swap (i j : Nat)
deriving Repr, DecidableEq

namespace SlotOp

def run {α} : SlotOp → List α → α → List α
  | .resize n, l, d => resizeL l n d
  | .erase i, l, _ => l.eraseIdx i
  | .swap i j, l, _ => swapAt l i j

def runL {α} (P : List SlotOp) (l : List α) (d : α) : List α := P.foldl (fun l op => op.run l d) l

def dbl : SlotOp → List SlotOp
  | .resize n => [.resize (2 * n)]
  | .erase i => [.erase (2 * i + 1), .erase (2 * i)]
  | .swap i j => [.swap (2 * i) (2 * j), .swap (2 * i + 1) (2 * j + 1)]

def dblL (P : List SlotOp) : List SlotOp := P.flatMap dbl

@[simp] theorem runL_nil {α} (l : List α) (d : α) : runL [] l d = l := rfl
@[simp] theorem runL_cons {α} (op : SlotOp) (P : List SlotOp) (l : List α) (d : α) :
    runL (op :: P) l d = runL P (op.run l d) d := rfl
theorem runL_append {α} (P Q : List SlotOp) (l : List α) (d : α) :
    runL (P ++ Q) l d = runL Q (runL P l d) d := by
  simp [runL, List.foldl_append]
@[simp] theorem dblL_nil : dblL [] = [] := rfl
theorem dblL_append (P Q : List SlotOp) : dblL (P ++ Q) = dblL P ++ dblL Q := by
  simp [dblL, List.flatMap_append]

/-! ### naturality -/
theorem swapAt_map {α β} (g : α → β) (l : List α) (i j : Nat) :
    swapAt (l.map g) i j = (swapAt l i j).map g := by
  unfold swapAt
  simp only [List.getElem?_map]
  cases l[i]? <;> cases l[j]? <;> simp [List.map_set]

theorem resizeL_map {α β} (g : α → β) (l : List α) (n : Nat) (d : α) :
    resizeL (l.map g) n (g d) = (resizeL l n d).map g := by
  simp [resizeL, List.map_take]

theorem eraseIdx_map {α β} (g : α → β) (l : List α) (i : Nat) :
    (l.map g).eraseIdx i = (l.eraseIdx i).map g := by
  induction l generalizing i with
  | nil => rfl
  | cons a t ih => cases i with
    | zero => rfl
    | succ i => simp [List.eraseIdx, ih]

theorem run_map {α β} (g : α → β) (op : SlotOp) (l : List α) (d : α) :
    op.run (l.map g) (g d) = (op.run l d).map g := by
  cases op with
  | resize n => exact resizeL_map g l n d
  | erase i => exact eraseIdx_map g l i
  | swap i j => exact swapAt_map g l i j

theorem runL_map {α β} (g : α → β) (P : List SlotOp) (l : List α) (d : α) :
    runL P (l.map g) (g d) = (runL P l d).map g := by
  induction P generalizing l with
  | nil => rfl
  | cons op P ih => simp only [runL_cons]; rw [run_map, ih]

/-- two columns of equal length run through the same program = their pair column run through it -/
theorem runL_zip {α β} (P : List SlotOp) (a : List α) (b : List β) (da : α) (db : β) (hl : a.length = b.length) :
    runL P (a.zip b) (da, db) = (runL P a da).zip (runL P b db) := by
  have h1 := runL_map Prod.fst P (a.zip b) (da, db)
  have h2 := runL_map Prod.snd P (a.zip b) (da, db)
  rw [List.map_fst_zip (by omega)] at h1
  rw [List.map_snd_zip (by omega)] at h2
  simp only at h1 h2
  rw [h1, h2]
  exact (List.zip_of_prod rfl rfl)

/-! ### slot maps: a program is a choice, for every result slot, of a source slot or the default -/

/-- result of the program on the column `0, 1, …, n-1` (default `none`) -/
def slotMap (P : List SlotOp) (n : Nat) : List (Option Nat) := runL P ((List.range n).map some) none

/-- read a slot-map entry against a column -/
def pick {α} (l : List α) (d : α) : Option Nat → α
  | some j => l.getD j d
  | none => d

theorem map_pick_range {α} (l : List α) (d : α) : ((List.range l.length).map some).map (pick l d) = l := by
  apply List.ext_getElem?
  intro i
  simp only [List.map_map, List.getElem?_map]
  by_cases h : i < l.length
  · simp [List.getElem?_range h, pick, List.getD_eq_getElem?_getD, List.getElem?_eq_getElem h]
  · rw [List.getElem?_eq_none (by simpa using h), List.getElem?_eq_none (by simpa using h)]; rfl

/-- **representation**: every program acts on every column through its slot map -/
theorem runL_eq_slotMap {α} (P : List SlotOp) (l : List α) (d : α) :
    runL P l d = (slotMap P l.length).map (pick l d) := by
  unfold slotMap
  rw [← runL_map (pick l d) P _ none, map_pick_range]
  rfl

theorem mem_run {α} (op : SlotOp) (l : List α) (d x : α) (h : x ∈ op.run l d) : x ∈ l ∨ x = d := by
  cases op with
  | resize n =>
    simp only [run, resizeL, List.mem_append, List.mem_replicate] at h
    rcases h with h | h
    · exact Or.inl (List.mem_of_mem_take h)
    · exact Or.inr h.2
  | erase i => exact Or.inl ((List.eraseIdx_sublist l i).subset h)
  | swap i j =>
    left
    simp only [run, swapAt] at h
    split at h
    · rename_i a b ha hb
      have ha' := List.mem_of_getElem? ha
      have hb' := List.mem_of_getElem? hb
      rcases List.mem_or_eq_of_mem_set h with h | h
      · rcases List.mem_or_eq_of_mem_set h with h | h
        · exact h
        · exact h ▸ hb'
      · exact h ▸ ha'
    · exact h

theorem mem_runL {α} (P : List SlotOp) (l : List α) (d x : α) (h : x ∈ runL P l d) : x ∈ l ∨ x = d := by
  induction P generalizing l with
  | nil => exact Or.inl h
  | cons op P ih =>
    rcases ih _ h with h | h
    · exact mem_run op l d x h
    · exact Or.inr h

/-- slot-map entries point into the source column -/
theorem slotMap_lt (P : List SlotOp) (n j : Nat) (h : some j ∈ slotMap P n) : j < n := by
  rcases mem_runL P _ _ _ h with h | h
  · simpa using h
  · cases h

/-! ### tokens: non-default values pairwise distinct -/

/-- the non-default values of the column are pairwise distinct -/
def TokCol {α} (l : List α) (d : α) : Prop :=
  ∀ (m n : Nat) (x : α), l[m]? = some x → l[n]? = some x → x ≠ d → m = n

theorem tokCol_of_nodup {α} (l : List α) (d : α) (h : l.Nodup) : TokCol l d := by
  intro m n x hm hn _
  have hml : m < l.length := by
    rcases Nat.lt_or_ge m l.length with h' | h'
    · exact h'
    · rw [List.getElem?_eq_none h'] at hm; cases hm
  have hnl : n < l.length := by
    rcases Nat.lt_or_ge n l.length with h' | h'
    · exact h'
    · rw [List.getElem?_eq_none h'] at hn; cases hn
  rw [List.getElem?_eq_getElem hml] at hm
  rw [List.getElem?_eq_getElem hnl] at hn
  injection hm with hm; injection hn with hn
  exact (List.getElem_inj h).mp (hm.trans hn.symm)

theorem getElem?_resizeL {α} (l : List α) (n i : Nat) (d : α) :
    (resizeL l n d)[i]? = if i < n then some (l.getD i d) else none := by
  simp only [resizeL, List.getElem?_append, List.length_take, List.getElem?_take, List.getElem?_replicate,
    List.getD_eq_getElem?_getD]
  by_cases hi : i < n
  · by_cases hl : i < l.length
    · have : i < min n l.length := by omega
      simp [hi, hl, this]
    · have h1 : ¬ i < min n l.length := by omega
      have h2 : i - min n l.length < n - l.length := by omega
      simp [hi, h1, h2, List.getElem?_eq_none (Nat.le_of_not_lt hl)]
  · have h1 : ¬ i < min n l.length := by omega
    have h2 : ¬ i - min n l.length < n - l.length := by omega
    simp [hi, h1, h2]

theorem tokCol_run {α} (op : SlotOp) (l : List α) (d : α) (h : TokCol l d) : TokCol (op.run l d) d := by
  cases op with
  | resize k =>
    have key : ∀ (m : Nat) (x : α), (resizeL l k d)[m]? = some x → x ≠ d → l[m]? = some x := by
      intro m x hm hx
      rw [getElem?_resizeL] at hm
      split at hm
      · injection hm with hm
        rw [List.getD_eq_getElem?_getD] at hm
        cases hlm : l[m]? with
        | none => rw [hlm] at hm; exact absurd hm.symm hx
        | some y => rw [hlm] at hm; simp at hm; rw [hm]
      · cases hm
    intro m n x hm hn hx
    exact h m n x (key m x hm hx) (key n x hn hx) hx
  | erase i =>
    intro m n x hm hn hx
    simp only [run, List.getElem?_eraseIdx] at hm hn
    have em : ∀ m : Nat, (if m < i then l[m]? else l[m + 1]?) = l[if m < i then m else m + 1]? := by
      intro m; split <;> rfl
    rw [em] at hm hn
    have := h _ _ x hm hn hx
    split at this <;> split at this <;> omega
  | swap i j =>
    simp only [run]
    by_cases hi : i < l.length
    · by_cases hj : j < l.length
      · intro m n x hm hn hx
        rw [getElem?_swapAt _ _ _ _ hi hj] at hm hn
        have em : ∀ m : Nat, (if m = j then l[i]? else if m = i then l[j]? else l[m]?) =
            l[if m = j then i else if m = i then j else m]? := by
          intro m; split
          · rfl
          · split <;> rfl
        rw [em] at hm hn
        have := h _ _ x hm hn hx
        split at this <;> split at this <;> (try split at this) <;> (try split at this) <;> omega
      · have : l[j]? = none := List.getElem?_eq_none (by omega)
        have e : swapAt l i j = l := by unfold swapAt; rw [this]; split <;> simp_all
        rw [e]; exact h
    · have : l[i]? = none := List.getElem?_eq_none (by omega)
      have e : swapAt l i j = l := by unfold swapAt; rw [this]
      rw [e]; exact h

theorem tokCol_runL {α} (P : List SlotOp) (l : List α) (d : α) (h : TokCol l d) : TokCol (runL P l d) d := by
  induction P generalizing l with
  | nil => exact h
  | cons op P ih => exact ih _ (tokCol_run op l d h)

/-! ### half-entity columns as columns of (side 0, side 1) pairs -/

/-- group a half-entity column into one pair per parent entity -/
def pairUp {α} : List α → List (α × α)
  | a :: b :: t => (a, b) :: pairUp t
  | _ => []

theorem getElem?_pairUp {α} (l : List α) (i : Nat) :
    (pairUp l)[i]? = match l[2 * i]?, l[2 * i + 1]? with
      | some a, some b => some (a, b)
      | _, _ => none := by
  induction l using pairUp.induct generalizing i with
  | case1 a b t ih =>
    cases i with
    | zero => simp [pairUp]
    | succ i =>
      have e1 : 2 * (i + 1) = 2 * i + 1 + 1 := by omega
      have e2 : 2 * (i + 1) + 1 = 2 * i + 1 + 1 + 1 := by omega
      simp only [pairUp, List.getElem?_cons_succ, e1]
      exact ih i
  | case2 l hne =>
    match l, hne with
    | [], _ => simp [pairUp]
    | [a], _ =>
      cases i with
      | zero => simp [pairUp]
      | succ i => simp [pairUp]
    | a :: b :: t, hne => exact absurd rfl (hne a b t)

theorem length_pairUp {α} (l : List α) : (pairUp l).length = l.length / 2 := by
  induction l using pairUp.induct with
  | case1 a b t ih => simp only [pairUp, List.length_cons, ih]; omega
  | case2 l hne =>
    match l, hne with
    | [], _ => simp [pairUp]
    | [a], _ => simp [pairUp]
    | a :: b :: t, hne => exact absurd rfl (hne a b t)

theorem pairUp_replicate {α} (n : Nat) (d : α) : pairUp (List.replicate (2 * n) d) = List.replicate n (d, d) := by
  induction n with
  | zero => rfl
  | succ n ih =>
    have : 2 * (n + 1) = 2 * n + 1 + 1 := by omega
    rw [this]; simp only [List.replicate_succ, pairUp]; rw [ih]

theorem resizeL_zero {α} (l : List α) (d : α) : resizeL l 0 d = [] := by simp [resizeL]
theorem resizeL_cons_succ {α} (a : α) (t : List α) (n : Nat) (d : α) :
    resizeL (a :: t) (n + 1) d = a :: resizeL t n d := by simp [resizeL]

theorem pairUp_resizeL {α} (l : List α) (n : Nat) (d : α) (he : l.length % 2 = 0) :
    pairUp (resizeL l (2 * n) d) = resizeL (pairUp l) n (d, d) := by
  induction l using pairUp.induct generalizing n with
  | case1 a b t ih =>
    cases n with
    | zero => simp [resizeL_zero, pairUp]
    | succ n =>
      have : 2 * (n + 1) = 2 * n + 1 + 1 := by omega
      rw [this, resizeL_cons_succ, resizeL_cons_succ]
      simp only [pairUp, resizeL_cons_succ]
      rw [ih n (by simp only [List.length_cons] at he; omega)]
  | case2 l hne =>
    match l, hne, he with
    | [], _, _ => simp [resizeL, pairUp, pairUp_replicate]
    | [a], _, he => simp at he
    | a :: b :: t, hne, _ => exact absurd rfl (hne a b t)

theorem pairUp_erase {α} (l : List α) (h : Nat) :
    pairUp ((l.eraseIdx (2 * h + 1)).eraseIdx (2 * h)) = (pairUp l).eraseIdx h := by
  induction l using pairUp.induct generalizing h with
  | case1 a b t ih =>
    cases h with
    | zero => simp [pairUp]
    | succ h =>
      have e1 : 2 * (h + 1) + 1 = (2 * h + 1) + 1 + 1 := by omega
      have e2 : 2 * (h + 1) = (2 * h) + 1 + 1 := by omega
      rw [e1, e2]
      simp only [List.eraseIdx_cons_succ, pairUp]
      rw [ih h]
  | case2 l hne =>
    match l, hne with
    | [], _ => simp [pairUp]
    | [a], _ =>
      cases h with
      | zero => simp [pairUp]
      | succ h =>
        have e2 : 2 * (h + 1) = (2 * h) + 1 + 1 := by omega
        rw [e2]; simp [pairUp]
    | a :: b :: t, hne => exact absurd rfl (hne a b t)

theorem swapAt_eq_self_left {α} (l : List α) (i j : Nat) (h : l.length ≤ i) : swapAt l i j = l := by
  have : l[i]? = none := List.getElem?_eq_none h
  unfold swapAt; rw [this]
theorem swapAt_eq_self_right {α} (l : List α) (i j : Nat) (h : l.length ≤ j) : swapAt l i j = l := by
  have : l[j]? = none := List.getElem?_eq_none h
  unfold swapAt; rw [this]; split <;> simp_all

/-- the half-entity exchange moves `2a+s ↔ 2b+s` (list form of `Props.C03.swap_pair_get`) -/
theorem getElem?_swap_pair {α} (l : List α) (a b i : Nat) (ha : 2 * a + 1 < l.length) (hb : 2 * b + 1 < l.length) :
    (swapAt (swapAt l (2 * a) (2 * b)) (2 * a + 1) (2 * b + 1))[i]? = l[Kernel.relabelHalf a b i]? := by
  rw [getElem?_swapAt _ _ _ _ (by simpa using ha) (by simpa using hb),
      getElem?_swapAt _ _ _ _ (by omega) (by omega), getElem?_swapAt _ _ _ _ (by omega) (by omega),
      getElem?_swapAt _ _ _ _ (by omega) (by omega)]
  unfold Kernel.relabelHalf
  simp only [beq_iff_eq]
  by_cases hab : a = b
  · subst hab
    by_cases e1 : i = 2 * a + 1
    · subst e1
      have : (2 * a + 1) / 2 = a := by omega
      have h2 : (2 * a + 1) % 2 = 1 := by omega
      simp [this, h2]
    · by_cases e2 : i = 2 * a
      · subst e2
        have : 2 * a / 2 = a := by omega
        simp [this, e1]
      · simp only [e1, e2, if_false]
        split
        · have : i = 2 * a + i % 2 := by omega
          rw [← this]
        · rfl
  · by_cases e1 : i = 2 * b + 1
    · subst e1
      have h1 : (2 * b + 1) / 2 = b := by omega
      have h2 : (2 * b + 1) % 2 = 1 := by omega
      have h3 : ¬ b = a := fun h => hab h.symm
      have h4 : ¬ (2 * a + 1 = 2 * b) := by omega
      have h5 : ¬ (2 * a + 1 = 2 * a) := by omega
      simp [h1, h2, h3, h4, h5]
    · by_cases e2 : i = 2 * a + 1
      · subst e2
        have h1 : (2 * a + 1) / 2 = a := by omega
        have h2 : (2 * a + 1) % 2 = 1 := by omega
        have h4 : ¬ (2 * b + 1 = 2 * b) := by omega
        have h5 : ¬ (2 * b + 1 = 2 * a) := by omega
        have h6 : ¬ (2 * a = 2 * b) := by omega
        simp [h1, h2, e1, h4, h5, h6]
      · by_cases e3 : i = 2 * b
        · subst e3
          have h1 : 2 * b / 2 = b := by omega
          have h2 : 2 * b % 2 = 0 := by omega
          have h3 : ¬ b = a := fun h => hab h.symm
          simp [h1, h2, h3, e1, e2]
        · by_cases e4 : i = 2 * a
          · subst e4
            have h1 : 2 * a / 2 = a := by omega
            have h2 : 2 * a % 2 = 0 := by omega
            simp [h1, h2, e1, e2, e3]
          · have h1 : ¬ i / 2 = a := by omega
            have h2 : ¬ i / 2 = b := by omega
            simp [e1, e2, e3, e4, h1, h2]

theorem pairUp_swap {α} (l : List α) (a b : Nat) (he : l.length % 2 = 0) :
    pairUp (swapAt (swapAt l (2 * a) (2 * b)) (2 * a + 1) (2 * b + 1)) = swapAt (pairUp l) a b := by
  by_cases ha : 2 * a + 1 < l.length
  · by_cases hb : 2 * b + 1 < l.length
    · apply List.ext_getElem?
      intro i
      have hpa : a < (pairUp l).length := by rw [length_pairUp]; omega
      have hpb : b < (pairUp l).length := by rw [length_pairUp]; omega
      rw [getElem?_swapAt _ _ _ _ hpa hpb, getElem?_pairUp, getElem?_swap_pair _ _ _ _ ha hb,
        getElem?_swap_pair _ _ _ _ ha hb, getElem?_pairUp, getElem?_pairUp, getElem?_pairUp]
      unfold Kernel.relabelHalf
      simp only [beq_iff_eq]
      have d1 : 2 * i / 2 = i := by omega
      have d2 : (2 * i + 1) / 2 = i := by omega
      have m1 : 2 * i % 2 = 0 := by omega
      have m2 : (2 * i + 1) % 2 = 1 := by omega
      rw [d1, d2, m1, m2]
      by_cases h1 : i = a
      · subst h1
        by_cases h2 : i = b
        · subst h2; simp
        · simp [h2]
      · by_cases h2 : i = b
        · subst h2; simp [h1]
        · simp [h1, h2]
    · have h2b : l.length ≤ 2 * b := by omega
      rw [swapAt_eq_self_right l _ _ h2b, swapAt_eq_self_right l _ _ (by omega),
        swapAt_eq_self_right _ _ _ (by rw [length_pairUp]; omega)]
  · have h2a : l.length ≤ 2 * a := by omega
    rw [swapAt_eq_self_left l _ _ h2a, swapAt_eq_self_left l _ _ (by omega),
      swapAt_eq_self_left _ _ _ (by rw [length_pairUp]; omega)]

/-- a doubled operation keeps the column length even -/
theorem even_runL_dbl {α} (op : SlotOp) (l : List α) (d : α) (he : l.length % 2 = 0) :
    (runL (dbl op) l d).length % 2 = 0 := by
  cases op with
  | resize n => simp [dbl, run]
  | erase i =>
    simp only [dbl, runL_cons, runL_nil, run, List.length_eraseIdx]
    split <;> split <;> omega
  | swap i j => simpa [dbl, run] using he

/-- **the halfedge program is the edge program on (side 0, side 1) pairs** -/
theorem pairUp_runL_dbl {α} (op : SlotOp) (l : List α) (d : α) (he : l.length % 2 = 0) :
    pairUp (runL (dbl op) l d) = op.run (pairUp l) (d, d) := by
  cases op with
  | resize n => exact pairUp_resizeL l n d he
  | erase i => exact pairUp_erase l i
  | swap i j => exact pairUp_swap l i j he

theorem pairUp_runL_dblL {α} (P : List SlotOp) (l : List α) (d : α) (he : l.length % 2 = 0) :
    pairUp (runL (dblL P) l d) = runL P (pairUp l) (d, d) ∧ (runL (dblL P) l d).length % 2 = 0 := by
  induction P generalizing l with
  | nil => exact ⟨rfl, he⟩
  | cons op P ih =>
    have e : dblL (op :: P) = dbl op ++ dblL P := by simp [dblL]
    rw [e, runL_append, runL_cons]
    have h1 := even_runL_dbl op l d he
    have h2 := ih _ h1
    rw [pairUp_runL_dbl op l d he] at h2
    exact h2

end SlotOp

open SlotOp

/-- the six entity kinds that carry per-entity columns -/
inductive Kind where
  | v | e | he | f | hf | c
deriving Repr, DecidableEq

def Props.get (p : Props) : Kind → List Col
  | .v => p.v | .e => p.e | .he => p.he | .f => p.f | .hf => p.hf | .c => p.c

/-- one slot program per kind; halfedge / halfface columns get the doubled edge / face program -/
structure Progs where
  v : List SlotOp := []
  e : List SlotOp := []
  f : List SlotOp := []
  c : List SlotOp := []
deriving Repr, DecidableEq

/-- run a program on a column (the default value is the column's own) -/
def Col.runP (c : Col) (P : List SlotOp) : Col := { c with vals := runL P c.vals c.dflt }

@[simp] theorem Col.runP_nil (c : Col) : c.runP [] = c := rfl
theorem Col.runP_append (c : Col) (P Q : List SlotOp) : c.runP (P ++ Q) = (c.runP P).runP Q := by
  simp [Col.runP, runL_append]
@[simp] theorem Col.runP_key (c : Col) (P : List SlotOp) : (c.runP P).key = c.key := rfl
@[simp] theorem Col.runP_dflt (c : Col) (P : List SlotOp) : (c.runP P).dflt = c.dflt := rfl
@[simp] theorem Col.runP_vals (c : Col) (P : List SlotOp) : (c.runP P).vals = runL P c.vals c.dflt := rfl

theorem map_runP_nil (cs : List Col) : cs.map (·.runP []) = cs := by simp
theorem map_runP_append (cs : List Col) (P Q : List SlotOp) :
    cs.map (·.runP (P ++ Q)) = (cs.map (·.runP P)).map (·.runP Q) := by
  simp [Col.runP_append]

namespace Progs

def get (P : Progs) : Kind → List SlotOp
  | .v => P.v | .e => P.e | .he => dblL P.e | .f => P.f | .hf => dblL P.f | .c => P.c

/-- apply the programs to all columns; mesh columns are never touched -/
def apply (P : Progs) (p : Props) : Props :=
  { v := p.v.map (·.runP P.v), e := p.e.map (·.runP P.e), he := p.he.map (·.runP (dblL P.e)),
    f := p.f.map (·.runP P.f), hf := p.hf.map (·.runP (dblL P.f)), c := p.c.map (·.runP P.c), m := p.m }

instance : Append Progs := ⟨fun P Q => ⟨P.v ++ Q.v, P.e ++ Q.e, P.f ++ Q.f, P.c ++ Q.c⟩⟩

@[simp] theorem append_v (P Q : Progs) : (P ++ Q).v = P.v ++ Q.v := rfl
@[simp] theorem append_e (P Q : Progs) : (P ++ Q).e = P.e ++ Q.e := rfl
@[simp] theorem append_f (P Q : Progs) : (P ++ Q).f = P.f ++ Q.f := rfl
@[simp] theorem append_c (P Q : Progs) : (P ++ Q).c = P.c ++ Q.c := rfl

@[simp] theorem apply_nil (p : Props) : ({} : Progs).apply p = p := by
  simp [apply]

theorem apply_append (P Q : Progs) (p : Props) : (P ++ Q).apply p = Q.apply (P.apply p) := by
  simp [apply, dblL_append, Col.runP_append]

@[simp] theorem nil_append (P : Progs) : ({} : Progs) ++ P = P := by
  cases P; rfl
@[simp] theorem append_nil (P : Progs) : P ++ ({} : Progs) = P := by
  cases P with
  | mk v e f c => show Progs.mk (v ++ []) (e ++ []) (f ++ []) (c ++ []) = _; simp

theorem apply_get (P : Progs) (p : Props) (κ : Kind) : (P.apply p).get κ = (p.get κ).map (·.runP (P.get κ)) := by
  cases κ <;> rfl
@[simp] theorem apply_m (P : Progs) (p : Props) : (P.apply p).m = p.m := rfl

end Progs

namespace Kernel

theorem resizeV_eq (p : Props) (n : Nat) : resizeV p n = Progs.apply { v := [.resize n] } p := by
  simp only [resizeV, Progs.apply, dblL_nil, map_runP_nil]; rfl
theorem resizeE_eq (p : Props) (n : Nat) : resizeE p n = Progs.apply { e := [.resize n] } p := by
  simp only [resizeE, Progs.apply, dblL_nil, map_runP_nil]; rfl
theorem resizeF_eq (p : Props) (n : Nat) : resizeF p n = Progs.apply { f := [.resize n] } p := by
  simp only [resizeF, Progs.apply, dblL_nil, map_runP_nil]; rfl
theorem resizeC_eq (p : Props) (n : Nat) : resizeC p n = Progs.apply { c := [.resize n] } p := by
  simp only [resizeC, Progs.apply, dblL_nil, map_runP_nil]; rfl
theorem vertexDeleted_eq (p : Props) (h : Nat) : vertexDeleted p h = Progs.apply { v := [.erase h] } p := by
  simp only [vertexDeleted, Progs.apply, dblL_nil, map_runP_nil]; rfl
theorem edgeDeleted_eq (p : Props) (h : Nat) : edgeDeleted p h = Progs.apply { e := [.erase h] } p := by
  simp only [edgeDeleted, Progs.apply, dblL_nil, map_runP_nil]; rfl
theorem faceDeleted_eq (p : Props) (h : Nat) : faceDeleted p h = Progs.apply { f := [.erase h] } p := by
  simp only [faceDeleted, Progs.apply, dblL_nil, map_runP_nil]; rfl
theorem cellDeleted_eq (p : Props) (h : Nat) : cellDeleted p h = Progs.apply { c := [.erase h] } p := by
  simp only [cellDeleted, Progs.apply, dblL_nil, map_runP_nil]; rfl
theorem swapVProps_eq (p : Props) (a b : Nat) : swapVProps p a b = Progs.apply { v := [.swap a b] } p := by
  simp only [swapVProps, Progs.apply, dblL_nil, map_runP_nil]; rfl
theorem swapEProps_eq (p : Props) (a b : Nat) : swapEProps p a b = Progs.apply { e := [.swap a b] } p := by
  simp only [swapEProps, Progs.apply, dblL_nil, map_runP_nil]; rfl
theorem swapFProps_eq (p : Props) (a b : Nat) : swapFProps p a b = Progs.apply { f := [.swap a b] } p := by
  simp only [swapFProps, Progs.apply, dblL_nil, map_runP_nil]; rfl
theorem swapCProps_eq (p : Props) (a b : Nat) : swapCProps p a b = Progs.apply { c := [.swap a b] } p := by
  simp only [swapCProps, Progs.apply, dblL_nil, map_runP_nil]; rfl


theorem Col.runP_swap_self (c : Col) (a : Nat) : c.runP [.swap a a] = c := by
  cases c; simp [Col.runP, SlotOp.run, swapAt_self]
theorem Col.runP_swap_self2 (c : Col) (a : Nat) : c.runP (dblL [.swap a a]) = c := by
  cases c; simp [Col.runP, SlotOp.run, swapAt_self, dblL, SlotOp.dbl]

theorem apply_swapV_self (p : Props) (a : Nat) : Progs.apply { v := [.swap a a] } p = p := by
  simp [Progs.apply, Col.runP_swap_self]
theorem apply_swapE_self (p : Props) (a : Nat) : Progs.apply { e := [.swap a a] } p = p := by
  simp [Progs.apply, Col.runP_swap_self, Col.runP_swap_self2]
theorem apply_swapF_self (p : Props) (a : Nat) : Progs.apply { f := [.swap a a] } p = p := by
  simp [Progs.apply, Col.runP_swap_self, Col.runP_swap_self2]
theorem apply_swapC_self (p : Props) (a : Nat) : Progs.apply { c := [.swap a a] } p = p := by
  simp [Progs.apply, Col.runP_swap_self]

/-! ### replacing the property storages of a state -/

/-- the same mesh with other property storages -/
def withP (k : Kernel) (p : Props) : Kernel := { k with props := p }

section fields
variable (k : Kernel) (p : Props)
@[simp] theorem withP_nV : (k.withP p).nV = k.nV := rfl
@[simp] theorem withP_edges : (k.withP p).edges = k.edges := rfl
@[simp] theorem withP_faces : (k.withP p).faces = k.faces := rfl
@[simp] theorem withP_cells : (k.withP p).cells = k.cells := rfl
@[simp] theorem withP_vDel : (k.withP p).vDel = k.vDel := rfl
@[simp] theorem withP_eDel : (k.withP p).eDel = k.eDel := rfl
@[simp] theorem withP_fDel : (k.withP p).fDel = k.fDel := rfl
@[simp] theorem withP_cDel : (k.withP p).cDel = k.cDel := rfl
@[simp] theorem withP_nDelV : (k.withP p).nDelV = k.nDelV := rfl
@[simp] theorem withP_nDelE : (k.withP p).nDelE = k.nDelE := rfl
@[simp] theorem withP_nDelF : (k.withP p).nDelF = k.nDelF := rfl
@[simp] theorem withP_nDelC : (k.withP p).nDelC = k.nDelC := rfl
@[simp] theorem withP_deferred : (k.withP p).deferred = k.deferred := rfl
@[simp] theorem withP_fast : (k.withP p).fast = k.fast := rfl
@[simp] theorem withP_vBU : (k.withP p).vBU = k.vBU := rfl
@[simp] theorem withP_eBU : (k.withP p).eBU = k.eBU := rfl
@[simp] theorem withP_fBU : (k.withP p).fBU = k.fBU := rfl
@[simp] theorem withP_outHes : (k.withP p).outHes = k.outHes := rfl
@[simp] theorem withP_incHfs : (k.withP p).incHfs = k.incHfs := rfl
@[simp] theorem withP_incCell : (k.withP p).incCell = k.incCell := rfl
@[simp] theorem withP_fault : (k.withP p).fault = k.fault := rfl
@[simp] theorem withP_props : (k.withP p).props = p := rfl
@[simp] theorem withP_withP (q : Props) : (k.withP p).withP q = k.withP q := rfl
@[simp] theorem withP_self : k.withP k.props = k := rfl
@[simp] theorem withP_nE : (k.withP p).nE = k.nE := rfl
@[simp] theorem withP_nF : (k.withP p).nF = k.nF := rfl
@[simp] theorem withP_nC : (k.withP p).nC = k.nC := rfl
@[simp] theorem withP_nHE : (k.withP p).nHE = k.nHE := rfl
@[simp] theorem withP_nHF : (k.withP p).nHF = k.nHF := rfl
end fields

end Kernel
end OVM

import OVM.Refine.CellCheck
import OVM.Spec.Fan
/-
  `adjacent_halfface_in_cell` (TopologyKernel.cc:2238-2307, model `Kernel.adjHalffaceInCell`):
  what the scan over the cell's halffaces returns.

  * `adj_sound` (no hypothesis): a returned halfface `a` is a member of the incident cell of `hf`,
    `hf` itself is a member of that cell, `a` is neither `hf` nor its opposite, and `a` contains the
    opposite of the halfedge the scan settled on (the given one if `hf` contains it, else its
    opposite if `hf` contains that).
  * `adj_eq_some_of_closed`: in a cell whose halfface list is a closed surface (`ClosedSurface`,
    what `add_cell`'s check decides) the scan finds the halfface holding the opposite halfedge,
    provided this is not `hf` itself and `opp hf` is not in the cell.
  * `adj_none_of_selfadjacent`: if the cell contains both halffaces of the face, the scan returns
    nothing at the edges of that face (the holder of the opposite halfedge is `opp hf`, which the
    scan skips by design).
  * `adj_closed_cell`: in a closed cell not self-adjacent at the edge (`EdgeProper`) the neighbour is
    unique, both halfedge orientations give it, and the map is an involution.
  `reorder_incident_halffaces` (cc:271-375) on fans described by decidable predicates about the
  definitions and `incident_cell_per_hf_`: `RingMember`/`BoundaryMember`/`FanMember`, `ClosedRing`,
  `FanOK`, `SingleRing`, `SingleFan`, and the order predicate `FanOrdered`:
  * the specification's `sAdj`/`sFanNext` (Spec/Fan.lean) agree with the model on interior members;
  * neither direction of the walk gives up on a well-formed fan closed under the rotation
    (`walkFwd_stops`, `walkBwd_stops`); the successor map is injective on interior members;
  * a walked list closed under successors and predecessors covers a connected fan
    (`succ_closed`, `pred_closed`, `reach_fwd`, `reach_bwd`);
  * which fields the predicates read (`SameDefs.*`).
  Core only.
-/
namespace OVM
namespace Kernel
namespace Fan

open CellCheck

theorem ok_bind {ε α β} (a : α) (f : α → Except ε β) : (Except.ok a >>= f) = f a := rfl
theorem error_bind {ε α β} (e : ε) (f : α → Except ε β) : ((Except.error e : Except ε α) >>= f) = .error e := rfl

/-! ### lists of lists without a repeated member -/

/-- position form: in a duplicate-free concatenation the holder of `h` is the only one -/
theorem nodup_flatMap_holder {α} (f : α → List Nat) (p q : List α) (a : α) (h : Nat)
    (hn : ((p ++ a :: q).flatMap f).Nodup) (hh : h ∈ f a) :
    (∀ y ∈ p, h ∉ f y) ∧ (∀ y ∈ q, h ∉ f y) ∧ (f a).Nodup := by
  simp only [List.flatMap_append, List.flatMap_cons] at hn
  rw [List.nodup_append] at hn
  obtain ⟨_, hn2, hd1⟩ := hn
  rw [List.nodup_append] at hn2
  obtain ⟨hna, _, hd2⟩ := hn2
  refine ⟨?_, ?_, hna⟩
  · intro y hy hc
    exact hd1 h (List.mem_flatMap.mpr ⟨y, hy, hc⟩) h (List.mem_append_left _ hh) rfl
  · intro y hy hc
    exact hd2 h hh h (List.mem_flatMap.mpr ⟨y, hy, hc⟩) rfl

/-- two different members of a list, in one of the two possible orders -/
theorem two_members_split {α} (c : List α) (a b : α) (ha : a ∈ c) (hb : b ∈ c) (hab : a ≠ b) :
    (∃ l1 l2 l3, c = l1 ++ a :: (l2 ++ b :: l3)) ∨ (∃ l1 l2 l3, c = l1 ++ b :: (l2 ++ a :: l3)) := by
  obtain ⟨p, q, rfl⟩ := List.append_of_mem ha
  rcases List.mem_append.mp hb with hb | hb
  · obtain ⟨p1, p2, rfl⟩ := List.append_of_mem hb
    right; exact ⟨p1, p2, q, by simp⟩
  · rcases List.mem_cons.mp hb with hb | hb
    · exact absurd hb.symm hab
    · obtain ⟨q1, q2, rfl⟩ := List.append_of_mem hb
      left; exact ⟨p, q1, q2, rfl⟩

/-! ### the inner loop: one halfface `y ≠ hf` of the cell -/

/-- the body of the loop over the halfedges of `y` (cc:2289-2303) -/
def inner (hf he y : Nat) (hs : List Nat) (s : AdjSt) : Except (Option Nat) AdjSt :=
  hs.foldlM (fun (s : AdjSt) heh =>
      if opp heh == he && y != opp hf then
        match s.idx with
        | some _ => .error none
        | none => if s.skipped then .error (some y) else .ok { s with idx := some y }
      else .ok s) s

theorem adjVisit_ne (k : Kernel) (hf he y : Nat) (st : AdjSt) (hy : y ≠ hf) :
    k.adjVisit hf he st y = inner hf he y (k.hfHes y) st := by
  have hb : (y == hf) = false := by simpa using hy
  unfold adjVisit inner
  simp only [hb, Bool.false_eq_true, if_false]
  rfl

theorem adjVisit_self_none (k : Kernel) (hf he : Nat) (st : AdjSt) (h : st.idx = none) :
    k.adjVisit hf he st hf = .ok { st with skipped := true } := by
  unfold adjVisit; simp [h]

theorem adjVisit_self_some (k : Kernel) (hf he i : Nat) (st : AdjSt) (h : st.idx = some i) :
    k.adjVisit hf he st hf = .error (some i) := by
  unfold adjVisit; simp [h]

/-- one iteration that finds the opposite halfedge -/
def hitStep (y : Nat) (s : AdjSt) : Except (Option Nat) AdjSt :=
  match s.idx with
  | some _ => .error none
  | none => if s.skipped then .error (some y) else .ok { s with idx := some y }

theorem inner_cons_hit (hf he y a : Nat) (t : List Nat) (s : AdjSt) (ha : opp a = he) (hy : y ≠ opp hf) :
    inner hf he y (a :: t) s = hitStep y s >>= inner hf he y t := by
  have hc : (opp a == he && y != opp hf) = true := by simp [ha, hy]
  unfold inner hitStep
  rw [List.foldlM_cons]
  simp only [hc, if_true]

theorem inner_cons_miss (hf he y a : Nat) (t : List Nat) (s : AdjSt)
    (hc : (opp a == he && y != opp hf) = false) :
    inner hf he y (a :: t) s = inner hf he y t s := by
  unfold inner
  rw [List.foldlM_cons]
  simp only [hc, Bool.false_eq_true, if_false]
  rfl

theorem inner_append (hf he y : Nat) (h1 h2 : List Nat) (s : AdjSt) :
    inner hf he y (h1 ++ h2) s = inner hf he y h1 s >>= inner hf he y h2 := by
  unfold inner; rw [List.foldlM_append]

/-- nothing happens on a halfface that does not hold the opposite halfedge, or is `opp hf` -/
theorem inner_clean (hf he y : Nat) (hs : List Nat) (s : AdjSt)
    (h : opp he ∉ hs ∨ y = opp hf) : inner hf he y hs s = .ok s := by
  induction hs with
  | nil => rfl
  | cons a t ih =>
    have hc : (opp a == he && y != opp hf) = false := by
      rcases h with h | h
      · have : opp a ≠ he := by
          intro e; apply h; rw [← e, opp_opp]; exact List.mem_cons_self ..
        simp [this]
      · simp [h]
    rw [inner_cons_miss hf he y a t s hc]
    exact ih (by rcases h with h | h
                 · left; exact fun hm => h (List.mem_cons_of_mem _ hm)
                 · right; exact h)

/-- a single hit: the scan either remembers `y` or (after `hf` was passed) returns it -/
theorem inner_hit (hf he y : Nat) (h1 h2 : List Nat) (s : AdjSt) (hy : y ≠ opp hf)
    (hc1 : opp he ∉ h1) (hc2 : opp he ∉ h2) (hi : s.idx = none) :
    inner hf he y (h1 ++ opp he :: h2) s =
      if s.skipped then .error (some y) else .ok { s with idx := some y } := by
  rw [inner_append, inner_clean hf he y h1 s (Or.inl hc1), ok_bind,
    inner_cons_hit hf he y (opp he) h2 s (opp_opp he) hy]
  unfold hitStep
  simp only [hi]
  by_cases hs : s.skipped = true
  · simp only [hs, if_true]; rfl
  · simp only [hs, Bool.false_eq_true, if_false]
    rw [ok_bind]
    exact inner_clean hf he y h2 _ (Or.inl hc2)

/-- what the inner loop can do at all -/
theorem inner_cases (hf he y : Nat) (hs : List Nat) (s : AdjSt) :
    (inner hf he y hs s = .ok s) ∨
    (y ≠ opp hf ∧ opp he ∈ hs ∧
      ((inner hf he y hs s = .error none) ∨
       (s.skipped = true ∧ inner hf he y hs s = .error (some y)) ∨
       (s.skipped = false ∧ s.idx = none ∧ inner hf he y hs s = .ok { s with idx := some y }))) := by
  induction hs generalizing s with
  | nil => left; rfl
  | cons a t ih =>
    by_cases hc : (opp a == he && y != opp hf) = true
    · right
      simp only [Bool.and_eq_true, beq_iff_eq, bne_iff_ne, ne_eq] at hc
      have ha : a = opp he := by rw [← hc.1, opp_opp]
      refine ⟨hc.2, by rw [ha]; exact List.mem_cons_self .., ?_⟩
      rw [inner_cons_hit hf he y a t s hc.1 hc.2]
      unfold hitStep
      cases hi : s.idx with
      | some i => left; rfl
      | none =>
        simp only
        by_cases hs : s.skipped = true
        · right; left; simp only [hs, if_true]; exact ⟨trivial, rfl⟩
        · simp only [hs, Bool.false_eq_true, if_false]
          rw [ok_bind]
          have hs' : s.skipped = false := by simpa using hs
          rcases ih { s with idx := some y } with h | ⟨_, _, h⟩
          · right; right; rw [hs'] at h; exact ⟨trivial, trivial, h⟩
          · rcases h with h | ⟨h1, _⟩ | ⟨_, h2, _⟩
            · left; rw [hs'] at h; exact h
            · exact absurd h1 hs
            · cases h2
    · have hc' : (opp a == he && y != opp hf) = false := by simpa using hc
      rw [inner_cons_miss hf he y a t s hc']
      rcases ih s with h | ⟨h1, h2, h3⟩
      · left; exact h
      · right; exact ⟨h1, List.mem_cons_of_mem _ h2, h3⟩

/-! ### the scan over the halffaces of the cell -/

def scan (k : Kernel) (hf he : Nat) (l : List Nat) (st : AdjSt) : Except (Option Nat) AdjSt :=
  l.foldlM (k.adjVisit hf he) st

theorem scan_cons (k : Kernel) (hf he y : Nat) (l : List Nat) (st : AdjSt) :
    scan k hf he (y :: l) st = k.adjVisit hf he st y >>= scan k hf he l := by
  unfold scan; rw [List.foldlM_cons]

theorem scan_append (k : Kernel) (hf he : Nat) (l1 l2 : List Nat) (st : AdjSt) :
    scan k hf he (l1 ++ l2) st = scan k hf he l1 st >>= scan k hf he l2 := by
  unfold scan; rw [List.foldlM_append]

/-- halffaces that are neither `hf` nor hold the opposite halfedge (or are `opp hf`) are passed -/
theorem scan_clean (k : Kernel) (hf he : Nat) (l : List Nat) (st : AdjSt)
    (h : ∀ y ∈ l, y ≠ hf ∧ (opp he ∉ k.hfHes y ∨ y = opp hf)) : scan k hf he l st = .ok st := by
  induction l with
  | nil => rfl
  | cons y t ih =>
    rw [scan_cons, adjVisit_ne k hf he y st (h y (List.mem_cons_self ..)).1,
      inner_clean hf he y _ st (h y (List.mem_cons_self ..)).2, ok_bind]
    exact ih (fun z hz => h z (List.mem_cons_of_mem _ hz))

/-- soundness of the scan from any state -/
theorem scan_sound (k : Kernel) (hf he : Nat) (l : List Nat) (st : AdjSt) (a : Nat)
    (h : scan k hf he l st = .error (some a)) :
    (st.idx = some a ∧ hf ∈ l) ∨
    (a ∈ l ∧ a ≠ hf ∧ a ≠ opp hf ∧ opp he ∈ k.hfHes a ∧ (st.skipped = true ∨ hf ∈ l)) := by
  induction l generalizing st with
  | nil => cases h
  | cons y t ih =>
    rw [scan_cons] at h
    by_cases hy : y = hf
    · subst hy
      cases hi : st.idx with
      | some i =>
        rw [adjVisit_self_some k y he i st hi, error_bind] at h
        injection h with h; injection h with h; subst h
        left; exact ⟨rfl, List.mem_cons_self ..⟩
      | none =>
        rw [adjVisit_self_none k y he st hi, ok_bind] at h
        rcases ih _ h with ⟨h1, _⟩ | ⟨h1, h2, h3, h4, _⟩
        · simp only at h1; rw [hi] at h1; cases h1
        · right; exact ⟨List.mem_cons_of_mem _ h1, h2, h3, h4, Or.inr (List.mem_cons_self ..)⟩
    · rw [adjVisit_ne k hf he y st hy] at h
      rcases inner_cases hf he y (k.hfHes y) st with e | ⟨hy2, hm, e | ⟨hs, e⟩ | ⟨hs, hi, e⟩⟩
      · rw [e, ok_bind] at h
        rcases ih _ h with ⟨h1, h2⟩ | ⟨h1, h2, h3, h4, h5⟩
        · left; exact ⟨h1, List.mem_cons_of_mem _ h2⟩
        · right; exact ⟨List.mem_cons_of_mem _ h1, h2, h3, h4, h5.imp id (List.mem_cons_of_mem _)⟩
      · rw [e, error_bind] at h; injection h with h; cases h
      · rw [e, error_bind] at h
        injection h with h; injection h with h; subst h
        right; exact ⟨List.mem_cons_self .., hy, hy2, hm, Or.inl hs⟩
      · rw [e, ok_bind] at h
        rcases ih _ h with ⟨h1, h2⟩ | ⟨h1, h2, h3, h4, h5⟩
        · simp only [Option.some.injEq] at h1; subst h1
          right; exact ⟨List.mem_cons_self .., hy, hy2, hm, Or.inr (List.mem_cons_of_mem _ h2)⟩
        · right
          refine ⟨List.mem_cons_of_mem _ h1, h2, h3, h4, ?_⟩
          rcases h5 with h5 | h5
          · simp only at h5; rw [hs] at h5; cases h5
          · exact Or.inr (List.mem_cons_of_mem _ h5)

/-- the halfedge the scan settles on -/
def pickHe (k : Kernel) (hf he : Nat) : Option Nat :=
  if (k.hfHes hf).contains he then some he else if (k.hfHes hf).contains (opp he) then some (opp he) else none

theorem adj_eq_scan (k : Kernel) (hf he c he1 : Nat) (hc : k.cellOf hf = some c) (hp : pickHe k hf he = some he1) :
    k.adjHalffaceInCell hf he =
      (match scan k hf he1 (k.cellAt c) {} with
       | .error r => r
       | .ok _ => none) := by
  unfold adjHalffaceInCell
  simp only [hc]
  unfold pickHe at hp
  simp only [hp]
  rfl

/-- **soundness of `adjacent_halfface_in_cell`**, no hypothesis on the mesh: a returned handle is a
    halfface of the incident cell of `hf`, that cell does list `hf`, the result differs from `hf`
    and from `opp hf`, and it contains the opposite of the halfedge of `hf` the scan used: the
    given halfedge if `hf` contains it, otherwise its opposite (which `hf` then contains). -/
theorem adj_sound (k : Kernel) (hf he a : Nat) (h : k.adjHalffaceInCell hf he = some a) :
    ∃ c, k.cellOf hf = some c ∧ hf ∈ k.cellAt c ∧ a ∈ k.cellAt c ∧ a ≠ hf ∧ a ≠ opp hf ∧
      ((he ∈ k.hfHes hf ∧ opp he ∈ k.hfHes a) ∨
       (he ∉ k.hfHes hf ∧ opp he ∈ k.hfHes hf ∧ he ∈ k.hfHes a)) := by
  cases hc : k.cellOf hf with
  | none => unfold adjHalffaceInCell at h; simp [hc] at h
  | some c =>
    cases hp : pickHe k hf he with
    | none =>
      unfold adjHalffaceInCell at h
      unfold pickHe at hp
      simp only [hc, hp] at h
      cases h
    | some he1 =>
      rw [adj_eq_scan k hf he c he1 hc hp] at h
      cases hs : scan k hf he1 (k.cellAt c) {} with
      | ok s => rw [hs] at h; cases h
      | error r =>
        rw [hs] at h
        simp only at h
        subst h
        rcases scan_sound k hf he1 (k.cellAt c) {} a hs with ⟨h1, _⟩ | ⟨h1, h2, h3, h4, h5⟩
        · cases h1
        · have hmem : hf ∈ k.cellAt c := by
            rcases h5 with h5 | h5
            · cases h5
            · exact h5
          refine ⟨c, rfl, hmem, h1, h2, h3, ?_⟩
          unfold pickHe at hp
          by_cases c1 : (k.hfHes hf).contains he = true
          · simp only [c1, if_true, Option.some.injEq] at hp
            subst hp
            left; exact ⟨by simpa using c1, h4⟩
          · simp only [c1, Bool.false_eq_true, if_false] at hp
            by_cases c2 : (k.hfHes hf).contains (opp he) = true
            · simp only [c2, if_true, Option.some.injEq] at hp
              subst hp
              rw [opp_opp] at h4
              right; exact ⟨by simpa using c1, by simpa using c2, h4⟩
            · simp only [c2, Bool.false_eq_true, if_false] at hp; cases hp

/-! ### closed cells -/

/-- the scan on a list with exactly one holder `x` of the opposite halfedge, in either order -/
theorem scan_hf_then_x (k : Kernel) (hf he x : Nat) (l1 l2 l3 h1 h2 : List Nat)
    (hx : x ≠ hf) (hx2 : x ≠ opp hf) (hhx : k.hfHes x = h1 ++ opp he :: h2)
    (hc1 : opp he ∉ h1) (hc2 : opp he ∉ h2)
    (c1 : ∀ y ∈ l1, y ≠ hf ∧ (opp he ∉ k.hfHes y ∨ y = opp hf))
    (c2 : ∀ y ∈ l2, y ≠ hf ∧ (opp he ∉ k.hfHes y ∨ y = opp hf)) :
    scan k hf he (l1 ++ hf :: (l2 ++ x :: l3)) {} = .error (some x) := by
  rw [scan_append, scan_clean k hf he l1 _ c1, ok_bind, scan_cons,
    adjVisit_self_none k hf he _ rfl, ok_bind, scan_append, scan_clean k hf he l2 _ c2, ok_bind,
    scan_cons, adjVisit_ne k hf he x _ hx, hhx, inner_hit hf he x h1 h2 _ hx2 hc1 hc2 rfl]
  rfl

theorem scan_x_then_hf (k : Kernel) (hf he x : Nat) (l1 l2 l3 h1 h2 : List Nat)
    (hx : x ≠ hf) (hx2 : x ≠ opp hf) (hhx : k.hfHes x = h1 ++ opp he :: h2)
    (hc1 : opp he ∉ h1) (hc2 : opp he ∉ h2)
    (c1 : ∀ y ∈ l1, y ≠ hf ∧ (opp he ∉ k.hfHes y ∨ y = opp hf))
    (c2 : ∀ y ∈ l2, y ≠ hf ∧ (opp he ∉ k.hfHes y ∨ y = opp hf)) :
    scan k hf he (l1 ++ x :: (l2 ++ hf :: l3)) {} = .error (some x) := by
  rw [scan_append, scan_clean k hf he l1 _ c1, ok_bind, scan_cons,
    adjVisit_ne k hf he x _ hx, hhx, inner_hit hf he x h1 h2 _ hx2 hc1 hc2 rfl]
  simp only [Bool.false_eq_true, if_false]
  rw [ok_bind, scan_append, scan_clean k hf he l2 _ c2, ok_bind, scan_cons,
    adjVisit_self_some k hf he x _ rfl, error_bind]

/-- value form: in a duplicate-free concatenation a halfedge has one holder -/
theorem nodup_flatMap_unique {α} (f : α → List Nat) (c : List α) (y1 y2 : α) (h : Nat)
    (hn : (c.flatMap f).Nodup) (h1 : y1 ∈ c) (h2 : y2 ∈ c) (hh1 : h ∈ f y1) (hh2 : h ∈ f y2) : y2 = y1 := by
  obtain ⟨p, q, rfl⟩ := List.append_of_mem h1
  obtain ⟨hp, hq, _⟩ := nodup_flatMap_holder f p q y1 h hn hh1
  rcases List.mem_append.mp h2 with hm | hm
  · exact absurd hh2 (hp y2 hm)
  · rcases List.mem_cons.mp hm with hm | hm
    · exact hm
    · exact absurd hh2 (hq y2 hm)

theorem oppFace_oppFace (l : List Nat) : oppFace (oppFace l) = l := by
  unfold oppFace
  rw [← List.map_reverse, List.reverse_reverse, List.map_map]
  have : (opp ∘ opp) = id := by funext x; exact opp_opp x
  rw [this, List.map_id]

theorem mem_oppFace (l : List Nat) (h : Nat) : h ∈ oppFace l ↔ opp h ∈ l := by
  unfold oppFace
  simp only [List.mem_map, List.mem_reverse]
  constructor
  · rintro ⟨a, ha, rfl⟩; rw [opp_opp]; exact ha
  · intro hm; exact ⟨opp h, hm, opp_opp h⟩

theorem hfHes_opp (k : Kernel) (hf : Nat) : k.hfHes (opp hf) = oppFace (k.hfHes hf) := by
  unfold hfHes
  have e1 : eOf (opp hf) = eOf hf := by unfold eOf; exact opp_div hf
  have e2 : side (opp hf) = 1 - side hf := by unfold side opp; exact xor_one_mod hf
  have hs : side hf = 0 ∨ side hf = 1 := by unfold side; omega
  simp only [e1, e2]
  rcases hs with hs | hs
  · simp [hs]
  · simp [hs, oppFace_oppFace]

/-- the opposite halfface holds the opposite halfedges -/
theorem mem_hfHes_opp (k : Kernel) (hf he : Nat) : opp he ∈ k.hfHes (opp hf) ↔ he ∈ k.hfHes hf := by
  rw [hfHes_opp, mem_oppFace, opp_opp]

theorem pickHe_of_mem (k : Kernel) (hf he : Nat) (h : he ∈ k.hfHes hf) : pickHe k hf he = some he := by
  unfold pickHe; simp [h]

/-- the legacy flip: with the opposite halfedge the answer is the same, as long as `hf` does not
    contain both halfedges of the edge -/
theorem adj_flip (k : Kernel) (hf he : Nat) (h : he ∈ k.hfHes hf) (hno : opp he ∉ k.hfHes hf) :
    k.adjHalffaceInCell hf (opp he) = k.adjHalffaceInCell hf he := by
  cases hc : k.cellOf hf with
  | none => unfold adjHalffaceInCell; simp [hc]
  | some c =>
    have p1 : pickHe k hf he = some he := pickHe_of_mem k hf he h
    have p2 : pickHe k hf (opp he) = some he := by unfold pickHe; simp [h, hno, opp_opp]
    rw [adj_eq_scan k hf he c he hc p1, adj_eq_scan k hf (opp he) c he hc p2]

/-- **the scan finds the holder of the opposite halfedge in a closed cell**: if the halfface list of
    the incident cell is a closed surface, `hf` is listed and contains `he`, `x` is a listed
    halfface other than `hf` containing `opp he`, and `opp hf` is not listed, the answer is `x` -/
theorem adj_eq_some_of_closed (k : Kernel) (hf he c x : Nat) (hc : k.cellOf hf = some c)
    (hcl : ClosedSurface k (k.cellAt c)) (hmem : hf ∈ k.cellAt c) (hhe : he ∈ k.hfHes hf)
    (hxm : x ∈ k.cellAt c) (hxh : opp he ∈ k.hfHes x) (hne : x ≠ hf) (hno : opp hf ∉ k.cellAt c) :
    k.adjHalffaceInCell hf he = some x := by
  rw [adj_eq_scan k hf he c he hc (pickHe_of_mem k hf he hhe)]
  have hn : ((k.cellAt c).flatMap k.hfHes).Nodup := hcl.1
  have hx2 : x ≠ opp hf := fun e => hno (e ▸ hxm)
  generalize k.cellAt c = L at hn hmem hxm
  have key : ∀ l1 l2 l3 (a b : Nat), L = l1 ++ a :: (l2 ++ b :: l3) →
      ((a = hf ∧ b = x) ∨ (a = x ∧ b = hf)) →
      (∀ y ∈ l1, y ≠ hf ∧ (opp he ∉ k.hfHes y ∨ y = opp hf)) ∧
      (∀ y ∈ l2, y ≠ hf ∧ (opp he ∉ k.hfHes y ∨ y = opp hf)) ∧ (k.hfHes x).Nodup := by
    intro l1 l2 l3 a b hL hab
    have hna : ((l1 ++ a :: (l2 ++ b :: l3)).flatMap k.hfHes).Nodup := hL ▸ hn
    have hnb : (((l1 ++ a :: l2) ++ b :: l3).flatMap k.hfHes).Nodup := by
      have : (l1 ++ a :: l2) ++ b :: l3 = l1 ++ a :: (l2 ++ b :: l3) := by simp
      rw [this]; exact hna
    -- the holder of `he` is `hf`, the holder of `opp he` is `x`, whichever comes first
    have hhf : ∀ y, y ∈ l1 ∨ y ∈ l2 → he ∉ k.hfHes y ∧ opp he ∉ k.hfHes y := by
      intro y hy
      rcases hab with ⟨rfl, rfl⟩ | ⟨rfl, rfl⟩
      · obtain ⟨ha1, ha2, _⟩ := nodup_flatMap_holder k.hfHes l1 (l2 ++ b :: l3) a he hna hhe
        obtain ⟨hb1, _, _⟩ := nodup_flatMap_holder k.hfHes (l1 ++ a :: l2) l3 b (opp he) hnb hxh
        rcases hy with hy | hy
        · exact ⟨ha1 y hy, hb1 y (List.mem_append_left _ hy)⟩
        · exact ⟨ha2 y (List.mem_append_left _ hy),
            hb1 y (List.mem_append_right _ (List.mem_cons_of_mem _ hy))⟩
      · obtain ⟨ha1, ha2, _⟩ := nodup_flatMap_holder k.hfHes l1 (l2 ++ b :: l3) a (opp he) hna hxh
        obtain ⟨hb1, _, _⟩ := nodup_flatMap_holder k.hfHes (l1 ++ a :: l2) l3 b he hnb hhe
        rcases hy with hy | hy
        · exact ⟨hb1 y (List.mem_append_left _ hy), ha1 y hy⟩
        · exact ⟨hb1 y (List.mem_append_right _ (List.mem_cons_of_mem _ hy)),
            ha2 y (List.mem_append_left _ hy)⟩
    have hxn : (k.hfHes x).Nodup := by
      rcases hab with ⟨rfl, rfl⟩ | ⟨rfl, rfl⟩
      · exact (nodup_flatMap_holder k.hfHes (l1 ++ a :: l2) l3 b (opp he) hnb hxh).2.2
      · exact (nodup_flatMap_holder k.hfHes l1 (l2 ++ b :: l3) a (opp he) hna hxh).2.2
    refine ⟨fun y hy => ?_, fun y hy => ?_, hxn⟩
    · have := hhf y (Or.inl hy)
      exact ⟨fun e => this.1 (e ▸ hhe), Or.inl this.2⟩
    · have := hhf y (Or.inr hy)
      exact ⟨fun e => this.1 (e ▸ hhe), Or.inl this.2⟩
  obtain ⟨h1, h2, hsplit⟩ := List.append_of_mem hxh
  rcases two_members_split L hf x hmem hxm (Ne.symm hne) with ⟨l1, l2, l3, hL⟩ | ⟨l1, l2, l3, hL⟩
  · obtain ⟨c1, c2, hxn⟩ := key l1 l2 l3 hf x hL (Or.inl ⟨rfl, rfl⟩)
    rw [hsplit, List.nodup_append] at hxn
    have hc1 : opp he ∉ h1 := fun hm => hxn.2.2 _ hm _ (List.mem_cons_self ..) rfl
    have hc2 : opp he ∉ h2 := (List.nodup_cons.mp hxn.2.1).1
    rw [hL, scan_hf_then_x k hf he x l1 l2 l3 h1 h2 hne hx2 hsplit hc1 hc2 c1 c2]
  · obtain ⟨c1, c2, hxn⟩ := key l1 l2 l3 x hf hL (Or.inr ⟨rfl, rfl⟩)
    rw [hsplit, List.nodup_append] at hxn
    have hc1 : opp he ∉ h1 := fun hm => hxn.2.2 _ hm _ (List.mem_cons_self ..) rfl
    have hc2 : opp he ∉ h2 := (List.nodup_cons.mp hxn.2.1).1
    rw [hL, scan_x_then_hf k hf he x l1 l2 l3 h1 h2 hne hx2 hsplit hc1 hc2 c1 c2]

/-- **cells containing both halffaces of a face**: in a closed cell that lists `hf` and `opp hf`, the
    scan returns nothing at the halfedges of `hf` (the only holder of the opposite halfedge is
    `opp hf`, which cc:2290 excludes) -/
theorem adj_none_of_selfadjacent (k : Kernel) (hf he c : Nat) (hc : k.cellOf hf = some c)
    (hcl : ClosedSurface k (k.cellAt c)) (hmem : hf ∈ k.cellAt c) (hopp : opp hf ∈ k.cellAt c)
    (hhe : he ∈ k.hfHes hf) : k.adjHalffaceInCell hf he = none := by
  rw [adj_eq_scan k hf he c he hc (pickHe_of_mem k hf he hhe)]
  have hn : ((k.cellAt c).flatMap k.hfHes).Nodup := hcl.1
  have hoh : opp he ∈ k.hfHes (opp hf) := (mem_hfHes_opp k hf he).mpr hhe
  generalize k.cellAt c = L at hn hmem hopp
  obtain ⟨l1, l2, rfl⟩ := List.append_of_mem hmem
  obtain ⟨ha1, ha2, _⟩ := nodup_flatMap_holder k.hfHes l1 l2 hf he hn hhe
  have clean : ∀ y, y ∈ l1 ∨ y ∈ l2 → y ≠ hf ∧ (opp he ∉ k.hfHes y ∨ y = opp hf) := by
    intro y hy
    have hyL : y ∈ l1 ++ hf :: l2 := by
      rcases hy with hy | hy
      · exact List.mem_append_left _ hy
      · exact List.mem_append_right _ (List.mem_cons_of_mem _ hy)
    refine ⟨fun e => ?_, ?_⟩
    · rcases hy with hy | hy
      · exact ha1 y hy (e ▸ hhe)
      · exact ha2 y hy (e ▸ hhe)
    · by_cases hm : opp he ∈ k.hfHes y
      · right; exact nodup_flatMap_unique k.hfHes _ (opp hf) y (opp he) hn hopp hyL hoh hm
      · left; exact hm
  rw [scan_append, scan_clean k hf he l1 _ (fun y hy => clean y (Or.inl hy)), ok_bind, scan_cons,
    adjVisit_self_none k hf he _ rfl, ok_bind, scan_clean k hf he l2 _ (fun y hy => clean y (Or.inr hy))]

/-- at the edge of `he` the cell `c` is not self-adjacent: no listed halfface touching the edge has
    its opposite listed, and none contains both halfedges of the edge -/
def EdgeProper (k : Kernel) (c : List Nat) (he : Nat) : Prop :=
  ∀ y ∈ c, (he ∈ k.hfHes y ∨ opp he ∈ k.hfHes y) →
    opp y ∉ c ∧ ¬ (he ∈ k.hfHes y ∧ opp he ∈ k.hfHes y)

instance (k : Kernel) (c : List Nat) (he : Nat) : Decidable (EdgeProper k c he) := by
  unfold EdgeProper; exact inferInstance

theorem edgeProper_opp (k : Kernel) (c : List Nat) (he : Nat) (h : EdgeProper k c he) :
    EdgeProper k c (opp he) := by
  intro y hy ht
  rw [opp_opp] at ht ⊢
  have := h y hy ht.symm
  exact ⟨this.1, fun hh => this.2 ⟨hh.2, hh.1⟩⟩

/-- **in a closed cell the in-cell neighbour is unique and the map is an involution.**
    `c` is the incident cell of all its listed halffaces, its list is a closed surface and is not
    self-adjacent at the edge of `he`; `hf` is listed and contains `he`.  Then there is a halfface
    `a` such that: both orientations of the halfedge give `a`; `a` is listed, differs from `hf`,
    contains `opp he`; it is the only listed halfface besides `hf` touching the edge; and asking
    again from `a` (with either orientation) returns `hf`. -/
theorem adj_closed_cell (k : Kernel) (hf he c : Nat)
    (hcons : ∀ y ∈ k.cellAt c, k.cellOf y = some c) (hcl : ClosedSurface k (k.cellAt c))
    (hp : EdgeProper k (k.cellAt c) he) (hmem : hf ∈ k.cellAt c) (hhe : he ∈ k.hfHes hf) :
    ∃ a, k.adjHalffaceInCell hf he = some a ∧ k.adjHalffaceInCell hf (opp he) = some a ∧
      a ∈ k.cellAt c ∧ a ≠ hf ∧ opp he ∈ k.hfHes a ∧
      (∀ y ∈ k.cellAt c, y ≠ hf → (he ∈ k.hfHes y ∨ opp he ∈ k.hfHes y) → y = a) ∧
      k.adjHalffaceInCell a (opp he) = some hf ∧ k.adjHalffaceInCell a he = some hf := by
  have hn : ((k.cellAt c).flatMap k.hfHes).Nodup := hcl.1
  have hoppmem : opp he ∈ (k.cellAt c).flatMap k.hfHes :=
    hcl.2 he (List.mem_flatMap.mpr ⟨hf, hmem, hhe⟩)
  obtain ⟨a, ham, hah⟩ := List.mem_flatMap.mp hoppmem
  have hphf := hp hf hmem (Or.inl hhe)
  have hpa := hp a ham (Or.inr hah)
  have hne : a ≠ hf := fun e => hphf.2 ⟨hhe, e ▸ hah⟩
  have hnoa : he ∉ k.hfHes a := fun hh => hpa.2 ⟨hh, hah⟩
  have hnof : opp he ∉ k.hfHes hf := fun hh => hphf.2 ⟨hhe, hh⟩
  have e1 := adj_eq_some_of_closed k hf he c a (hcons hf hmem) hcl hmem hhe ham hah hne hphf.1
  have e2 := adj_eq_some_of_closed k a (opp he) c hf (hcons a ham) hcl ham hah hmem
    (by rw [opp_opp]; exact hhe) (Ne.symm hne) hpa.1
  refine ⟨a, e1, by rw [adj_flip k hf he hhe hnof]; exact e1, ham, hne, hah, ?_, e2, ?_⟩
  · intro y hy hyne ht
    rcases ht with ht | ht
    · exact absurd (nodup_flatMap_unique k.hfHes _ hf y he hn hmem hy hhe ht) hyne
    · exact nodup_flatMap_unique k.hfHes _ a y (opp he) hn ham hy hah ht
  · have := adj_flip k a (opp he) hah (by rw [opp_opp]; exact hnoa)
    rw [opp_opp] at this
    rw [this]; exact e2

/-! ### the specification-level neighbour (`Spec/Fan.lean`) on closed cells -/

/-- in a closed cell the specification's `sAdj` is the holder of the opposite halfedge -/
theorem sAdj_eq_some_of_closed (k : Kernel) (c hf he x : Nat) (hcl : ClosedSurface k (k.cellAt c))
    (hxm : x ∈ k.cellAt c) (hxh : opp he ∈ k.hfHes x) (hne : x ≠ hf) (hx2 : x ≠ opp hf) :
    k.sAdj c hf he = some x := by
  unfold sAdj
  have hn : ((k.cellAt c).flatMap k.hfHes).Nodup := hcl.1
  generalize k.cellAt c = L at hn hxm
  obtain ⟨p, q, rfl⟩ := List.append_of_mem hxm
  obtain ⟨hp, hq, _⟩ := nodup_flatMap_holder k.hfHes p q x (opp he) hn hxh
  have fp : p.filter (fun y => y != hf && y != opp hf && (k.hfHes y).contains (opp he)) = [] := by
    rw [List.filter_eq_nil_iff]; intro y hy; simp [hp y hy]
  have fq : q.filter (fun y => y != hf && y != opp hf && (k.hfHes y).contains (opp he)) = [] := by
    rw [List.filter_eq_nil_iff]; intro y hy; simp [hq y hy]
  have fx : (x != hf && x != opp hf && (k.hfHes x).contains (opp he)) = true := by simp [hne, hx2, hxh]
  rw [List.filter_append, List.filter_cons, fp, fq, if_pos fx]
  rfl

/-- what `sCellOf hf = some c` says: `c` is a live cell listing `hf` -/
theorem sCellOf_some (k : Kernel) (hf c : Nat) (h : k.sCellOf hf = some c) :
    hf ∈ k.cellAt c ∧ k.cDeleted c = false := by
  unfold sCellOf at h
  have hm := List.mem_of_mem_head? (Option.mem_def.mpr h)
  unfold sCellsOfHf liveCells at hm
  simp only [List.mem_filter, List.mem_range, Bool.not_eq_true', List.contains_iff_mem] at hm
  exact ⟨hm.2, hm.1.2⟩

theorem notBoundary_of_cell (k : Kernel) (hf c : Nat) (h : k.cellOf hf = some c) (hd : k.cDeleted c = false) :
    k.hfOnBoundaryOrDeleted hf = false := by
  unfold hfOnBoundaryOrDeleted; simp [h, hd]

/-- `hf` is an interior member of the fan of `he`: it contains `he`, and its cached incident cell is
    the one the specification computes, a closed surface, not self-adjacent at this edge, and the
    cached incident cell of all its halffaces -/
def RingMember (k : Kernel) (he hf : Nat) : Prop :=
  he ∈ k.hfHes hf ∧
  match k.cellOf hf with
  | none => False
  | some c => k.sCellOf hf = some c ∧ ClosedSurface k (k.cellAt c) ∧ EdgeProper k (k.cellAt c) he ∧
      ∀ y ∈ k.cellAt c, k.cellOf y = some c

instance (k : Kernel) (he hf : Nat) : Decidable (RingMember k he hf) := by
  unfold RingMember
  cases k.cellOf hf with
  | none => exact inferInstance
  | some c => exact inferInstance

/-- edge `e` is surrounded by a closed ring of cells: the cached halffaces of its first halfedge are
    pairwise different and every one of them is an interior member -/
def ClosedRing (k : Kernel) (e : Nat) : Prop :=
  (k.hfsOf (heOf e 0)).Nodup ∧ ∀ hf ∈ k.hfsOf (heOf e 0), RingMember k (heOf e 0) hf

instance (k : Kernel) (e : Nat) : Decidable (ClosedRing k e) := by
  unfold ClosedRing; exact inferInstance

theorem RingMember.unpack {k : Kernel} {he hf : Nat} (h : RingMember k he hf) :
    he ∈ k.hfHes hf ∧ ∃ c, k.cellOf hf = some c ∧ k.sCellOf hf = some c ∧ hf ∈ k.cellAt c ∧
      k.cDeleted c = false ∧ ClosedSurface k (k.cellAt c) ∧ EdgeProper k (k.cellAt c) he ∧
      ∀ y ∈ k.cellAt c, k.cellOf y = some c := by
  unfold RingMember at h
  refine ⟨h.1, ?_⟩
  have h2 := h.2
  cases hc : k.cellOf hf with
  | none => rw [hc] at h2; exact absurd h2 id
  | some c =>
    rw [hc] at h2
    simp only at h2
    have := sCellOf_some k hf c h2.1
    exact ⟨c, rfl, h2.1, this.1, this.2, h2.2.1, h2.2.2.1, h2.2.2.2⟩

/-- on an interior member the model's neighbour and the specification's successor agree -/
theorem sFanNext_of_adj (k : Kernel) (he hf x : Nat) (hm : RingMember k he hf)
    (ha : k.adjHalffaceInCell hf he = some x) : k.sFanNext he hf = some (opp x) := by
  obtain ⟨hhe, c, hc, hsc, _, _, hcl, _, _⟩ := hm.unpack
  obtain ⟨c', hc', _, hxm, hne, hx2, hor⟩ := adj_sound k hf he x ha
  have : c' = c := by rw [hc] at hc'; injection hc' with e; exact e.symm
  subst this
  have hxh : opp he ∈ k.hfHes x := by
    rcases hor with h | h
    · exact h.2
    · exact absurd hhe h.1
  unfold sFanNext
  simp only [hsc]
  rw [sAdj_eq_some_of_closed k c' hf he x hcl hxm hxh hne hx2]
  rfl

/-! ### the backward walk only prepends -/
theorem walkBwd_suffix (k : Kernel) (he n : Nat) : ∀ (fuel cur : Nat) (acc res : List Nat),
    k.walkBwd he n fuel cur acc = .stop res → ∃ pre, res = pre ++ acc := by
  intro fuel
  induction fuel with
  | zero => intro cur acc res h; simp [walkBwd] at h
  | succ f ih =>
    intro cur acc res h
    unfold walkBwd at h
    simp only at h
    split at h
    · injection h with h; exact ⟨[], by simp [h]⟩
    · split at h
      · cases h
      · rename_i a _
        split at h
        · cases h
        · obtain ⟨pre, hpre⟩ := ih a (a :: acc) res h
          exact ⟨pre ++ [a], by simp [hpre]⟩

/-- first step of the backward walk made explicit -/
theorem walkBwd_first (k : Kernel) (he n fuel cur a : Nat) (acc res : List Nat)
    (hb : k.hfOnBoundaryOrDeleted (opp cur) = false) (ha : k.adjHalffaceInCell (opp cur) he = some a)
    (h : k.walkBwd he n (fuel + 1) cur acc = .stop res) : ∃ pre, res = pre ++ a :: acc := by
  unfold walkBwd at h
  simp only [hb, Bool.false_eq_true, if_false, ha] at h
  split at h
  · cases h
  · exact walkBwd_suffix k he n fuel a (a :: acc) res h

/-! ### the forward walk on a closed ring does not give up -/

/-- consecutive elements are linked by "opposite of the in-cell neighbour across `he`" -/
def Link (k : Kernel) (he : Nat) : List Nat → Prop
  | a :: b :: t => (∃ x, k.adjHalffaceInCell a he = some x ∧ b = opp x) ∧ Link k he (b :: t)
  | _ => True

theorem link_append_one (k : Kernel) (he : Nat) (l : List Nat) (a x : Nat) (hc : Link k he (l ++ [a]))
    (hx : k.adjHalffaceInCell a he = some x) : Link k he (l ++ [a] ++ [opp x]) := by
  induction l with
  | nil => exact ⟨⟨x, hx, rfl⟩, trivial⟩
  | cons c t ih =>
    cases t with
    | nil =>
      simp only [List.cons_append, List.nil_append] at hc ⊢
      exact ⟨hc.1, ⟨x, hx, rfl⟩, trivial⟩
    | cons d t' =>
      simp only [List.cons_append] at hc ⊢
      exact ⟨hc.1, by simpa using ih hc.2⟩

/-- every element of a linked list but the first is the successor of an element before the last -/
theorem link_pred (k : Kernel) (he : Nat) (acc : List Nat) (cur y : Nat) (hl : Link k he (acc ++ [cur]))
    (hy : y ∈ acc ++ [cur]) (hne : (acc ++ [cur]).head? ≠ some y) :
    ∃ p ∈ acc, ∃ x, k.adjHalffaceInCell p he = some x ∧ y = opp x := by
  induction acc with
  | nil =>
    simp only [List.nil_append, List.mem_singleton] at hy
    subst hy; simp at hne
  | cons a t ih =>
    have hya : y ≠ a := by intro e; subst e; simp at hne
    have hy' : y ∈ t ++ [cur] := by
      simp only [List.cons_append, List.mem_cons] at hy
      rcases hy with hy | hy
      · exact absurd hy hya
      · exact hy
    cases ht : t ++ [cur] with
    | nil => simp at ht
    | cons b r =>
      have hl' : Link k he (a :: b :: r) := by rw [← ht]; exact hl
      by_cases hyb : y = b
      · obtain ⟨x, hx, hb⟩ := hl'.1
        exact ⟨a, List.mem_cons_self .., x, hx, by rw [hyb, hb]⟩
      · have hl2 : Link k he (t ++ [cur]) := by rw [ht]; exact hl'.2
        have hne2 : (t ++ [cur]).head? ≠ some y := by
          rw [ht]; simp only [List.head?_cons, ne_eq, Option.some.injEq]; exact fun e => hyb e.symm
        obtain ⟨p, hp, x, hx, hyx⟩ := ih hl2 hy' hne2
        exact ⟨p, List.mem_cons_of_mem _ hp, x, hx, hyx⟩

/-- an interior member has an in-cell neighbour, and the neighbour leads back to it -/
theorem ring_adj (k : Kernel) (he hf : Nat) (hm : RingMember k he hf) :
    ∃ x, k.adjHalffaceInCell hf he = some x ∧ k.adjHalffaceInCell x (opp he) = some hf := by
  obtain ⟨hhe, c, _, _, hmem, _, hcl, hep, hcons⟩ := hm.unpack
  obtain ⟨a, h1, _, _, _, _, _, h2, _⟩ := adj_closed_cell k hf he c hcons hcl hep hmem hhe
  exact ⟨a, h1, h2⟩

/-- the successor map is injective on interior members -/
theorem ring_inj (k : Kernel) (he hf1 hf2 x : Nat) (h1 : RingMember k he hf1) (h2 : RingMember k he hf2)
    (a1 : k.adjHalffaceInCell hf1 he = some x) (a2 : k.adjHalffaceInCell hf2 he = some x) : hf1 = hf2 := by
  obtain ⟨x1, e1, b1⟩ := ring_adj k he hf1 h1
  obtain ⟨x2, e2, b2⟩ := ring_adj k he hf2 h2
  rw [a1] at e1; rw [a2] at e2
  injection e1 with e1; injection e2 with e2
  subst e1; subst e2
  rw [b1] at b2; injection b2

theorem ring_notBoundary (k : Kernel) (he hf : Nat) (hm : RingMember k he hf) :
    k.hfOnBoundaryOrDeleted hf = false := by
  obtain ⟨_, c, hc, _, _, hd, _⟩ := hm.unpack
  exact notBoundary_of_cell k hf c hc hd

/-- on a list whose non-boundary members are interior members and that is closed under the
    successor map, the first direction of `reorder_incident_halffaces` never gives up: it ends at a
    boundary halfface or comes back to its start, having collected pairwise different members -/
theorem walkFwd_stops (k : Kernel) (he start : Nat) (inc : List Nat)
    (hring : ∀ hf ∈ inc, k.hfOnBoundaryOrDeleted hf = false → RingMember k he hf)
    (hcl : ∀ hf ∈ inc, ∀ x, k.adjHalffaceInCell hf he = some x → opp x ∈ inc) :
    ∀ (fuel cur : Nat) (acc : List Nat), (acc ++ [cur]).Nodup → (∀ y ∈ acc ++ [cur], y ∈ inc) →
      (∀ y ∈ acc, k.hfOnBoundaryOrDeleted y = false) →
      (acc ++ [cur]).head? = some start → Link k he (acc ++ [cur]) → fuel + acc.length = inc.length + 1 →
      ∃ res, k.walkFwd he start inc.length fuel cur acc = .stop res ∧ res.Nodup ∧ ∀ y ∈ res, y ∈ inc := by
  intro fuel
  induction fuel with
  | zero =>
    intro cur acc hn hs _ _ _ hf
    exfalso
    have hacc : acc.Nodup := (List.nodup_append.mp hn).1
    have := hacc.length_le_of_subset (fun y hy => hs y (List.mem_append_left _ hy))
    omega
  | succ f ih =>
    intro cur acc hn hs hnb hh hl hf
    have hlen : (acc ++ [cur]).length ≤ inc.length := hn.length_le_of_subset hs
    have hcur : cur ∈ inc := hs cur (by simp)
    unfold walkFwd
    by_cases hb : k.hfOnBoundaryOrDeleted cur = true
    · simp only [Nat.not_lt.mpr hlen, if_false, hb, if_true]
      exact ⟨_, rfl, hn, hs⟩
    have hb' : k.hfOnBoundaryOrDeleted cur = false := by simpa using hb
    have hrc := hring cur hcur hb'
    obtain ⟨a, ha, _⟩ := ring_adj k he cur hrc
    simp only [Nat.not_lt.mpr hlen, if_false, hb', Bool.false_eq_true, ha]
    by_cases hst : (opp a == start) = true
    · simp only [hst, if_true]
      exact ⟨_, rfl, hn, hs⟩
    · simp only [hst, Bool.false_eq_true, if_false]
      have hst' : opp a ≠ start := by simpa using hst
      have hin : opp a ∈ inc := hcl cur hcur a ha
      have hnew : opp a ∉ acc ++ [cur] := by
        intro hm
        have hne : (acc ++ [cur]).head? ≠ some (opp a) := by
          rw [hh]; simp only [ne_eq, Option.some.injEq]; exact fun e => hst' e.symm
        obtain ⟨p, hp, x, hx, hyx⟩ := link_pred k he acc cur (opp a) hl hm hne
        have hxa : a = x := by have := congrArg opp hyx; rwa [opp_opp, opp_opp] at this
        subst hxa
        have hpc : p = cur :=
          ring_inj k he p cur a (hring p (hs p (List.mem_append_left _ hp)) (hnb p hp)) hrc hx ha
        subst hpc
        exact (List.nodup_append.mp hn).2.2 p hp p (by simp) rfl
      apply ih (opp a) (acc ++ [cur])
      · rw [List.nodup_append]
        exact ⟨hn, by simp, fun u hu v hv => by
          simp only [List.mem_singleton] at hv; subst hv; exact fun e => hnew (e ▸ hu)⟩
      · intro y hy
        rcases List.mem_append.mp hy with hy | hy
        · exact hs y hy
        · simp only [List.mem_singleton] at hy; subst hy; exact hin
      · intro y hy
        rcases List.mem_append.mp hy with hy | hy
        · exact hnb y hy
        · simp only [List.mem_singleton] at hy; subst hy; exact hb'
      · cases acc with
        | nil => simpa using hh
        | cons b t => simpa using hh
      · exact link_append_one k he acc cur a hl ha
      · simp only [List.length_append, List.length_singleton]; omega

/-- `i` steps of the specification's rotation `sFanNext` from `hf` -/
def iterNext (k : Kernel) (he : Nat) : Nat → Nat → Option Nat
  | 0, hf => some hf
  | i + 1, hf => (iterNext k he i hf).bind (k.sFanNext he)

/-- edge `e` is a single closed fan: a closed ring of cells (`ClosedRing`) whose cached halfface
    list is closed under the rotation and all of it is reachable from its first element by
    following the rotation (i.e. there is one ring around the edge, not several) -/
def SingleRing (k : Kernel) (e : Nat) : Prop :=
  ClosedRing k e ∧
  (∀ hf ∈ k.hfsOf (heOf e 0), ∃ y ∈ k.hfsOf (heOf e 0), k.sFanNext (heOf e 0) hf = some y) ∧
  (∀ hf ∈ k.hfsOf (heOf e 0), ∃ i, i < (k.hfsOf (heOf e 0)).length ∧
    iterNext k (heOf e 0) i ((k.hfsOf (heOf e 0)).headD 0) = some hf)

instance (k : Kernel) (e : Nat) : Decidable (SingleRing k e) := by
  unfold SingleRing; exact inferInstance

/-! ### fans with a boundary -/

/-- `hf` is a boundary member of a fan: it has no incident cell, in the cache and by the definitions -/
def BoundaryMember (k : Kernel) (hf : Nat) : Prop := k.cellOf hf = none ∧ k.sCellOf hf = none

instance (k : Kernel) (hf : Nat) : Decidable (BoundaryMember k hf) := by
  unfold BoundaryMember; exact inferInstance

/-- `hf` is a well-formed member of the fan of `he`: interior (`RingMember`) or boundary, and on its
    other side `opp hf` is on the boundary or an interior member of the fan of `opp he` -/
def FanMember (k : Kernel) (he hf : Nat) : Prop :=
  (RingMember k he hf ∨ BoundaryMember k hf) ∧
  (k.cellOf (opp hf) = none ∨ RingMember k (opp he) (opp hf))

instance (k : Kernel) (he hf : Nat) : Decidable (FanMember k he hf) := by
  unfold FanMember; exact inferInstance

/-- every cached halfface of halfedge `2e` is a well-formed fan member and none occurs twice -/
def FanOK (k : Kernel) (e : Nat) : Prop :=
  (k.hfsOf (heOf e 0)).Nodup ∧ ∀ hf ∈ k.hfsOf (heOf e 0), FanMember k (heOf e 0) hf

instance (k : Kernel) (e : Nat) : Decidable (FanOK k e) := by
  unfold FanOK; exact inferInstance

theorem boundary_of_cellOf_none (k : Kernel) (hf : Nat) (h : k.cellOf hf = none) :
    k.hfOnBoundaryOrDeleted hf = true := by
  unfold hfOnBoundaryOrDeleted; simp [h]

/-- a fan member that is not on the boundary for the walk is an interior member -/
theorem FanMember.ring_of_notBoundary {k : Kernel} {he hf : Nat} (h : FanMember k he hf)
    (hb : k.hfOnBoundaryOrDeleted hf = false) : RingMember k he hf := by
  rcases h.1 with h1 | h1
  · exact h1
  · rw [boundary_of_cellOf_none k hf h1.1] at hb; cases hb

/-- a fan member on which the walk stops has no successor in the specification either -/
theorem FanMember.sFanNext_none {k : Kernel} {he hf : Nat} (h : FanMember k he hf)
    (hb : k.hfOnBoundaryOrDeleted hf = true) : k.sFanNext he hf = none := by
  rcases h.1 with h1 | h1
  · rw [ring_notBoundary k he hf h1] at hb; cases hb
  · unfold sFanNext; simp [h1.2]

/-! ### the second direction does not give up either, and the two directions cover a single fan -/

/-- an element of a linked list other than the last is followed by its successor, which lies in
    the tail -/
theorem link_succ_mem_tail (k : Kernel) (he : Nat) (l : List Nat) (a : Nat) (hl : Link k he l)
    (ha : a ∈ l) (hne : a ≠ l.getLast?.getD 0) :
    ∃ x, k.adjHalffaceInCell a he = some x ∧ opp x ∈ l.tail := by
  induction l with
  | nil => cases ha
  | cons b t ih =>
    cases t with
    | nil =>
      simp only [List.mem_singleton] at ha
      subst ha; simp at hne
    | cons b' r =>
      by_cases hab : a = b
      · subst hab
        obtain ⟨x, hx, hb⟩ := hl.1
        exact ⟨x, hx, by rw [← hb]; simp⟩
      · have ha' : a ∈ b' :: r := by
          rcases List.mem_cons.mp ha with h | h
          · exact absurd h hab
          · exact h
        have hne' : a ≠ (b' :: r).getLast?.getD 0 := by
          rw [List.getLast?_cons_cons] at hne; exact hne
        obtain ⟨x, hx, hm⟩ := ih hl.2 ha' hne'
        exact ⟨x, hx, by simp only [List.tail_cons] at hm ⊢; exact List.mem_cons_of_mem _ hm⟩

/-- every element of a linked list but the first is the successor of a member -/
theorem link_pred' (k : Kernel) (he : Nat) (l : List Nat) (y : Nat) (hl : Link k he l)
    (hy : y ∈ l) (hne : l.head? ≠ some y) :
    ∃ p ∈ l, ∃ x, k.adjHalffaceInCell p he = some x ∧ y = opp x := by
  induction l with
  | nil => cases hy
  | cons a t ih =>
    have hya : y ≠ a := by intro e; subst e; simp at hne
    have hy' : y ∈ t := by
      rcases List.mem_cons.mp hy with h | h
      · exact absurd h hya
      · exact h
    cases t with
    | nil => cases hy'
    | cons b r =>
      by_cases hyb : y = b
      · obtain ⟨x, hx, hb⟩ := hl.1
        exact ⟨a, List.mem_cons_self .., x, hx, by rw [hyb, hb]⟩
      · have hne2 : (b :: r).head? ≠ some y := by
          simp only [List.head?_cons, ne_eq, Option.some.injEq]; exact fun e => hyb e.symm
        obtain ⟨p, hp, x, hx, hyx⟩ := ih hl.2 hy' hne2
        exact ⟨p, List.mem_cons_of_mem _ hp, x, hx, hyx⟩

theorem link_index (k : Kernel) (he : Nat) : ∀ (l : List Nat) (i : Nat), Link k he l → i + 1 < l.length →
    ∃ x, k.adjHalffaceInCell (l.getD i 0) he = some x ∧ l.getD (i + 1) 0 = opp x := by
  intro l
  induction l with
  | nil => intro i _ h; simp at h
  | cons a t ih =>
    intro i hc hi
    cases t with
    | nil => simp at hi
    | cons b t' =>
      cases i with
      | zero => obtain ⟨x, hx, hb⟩ := hc.1; exact ⟨x, by simpa using hx, by simpa using hb⟩
      | succ j =>
        have := ih j hc.2 (by simp at hi ⊢; omega)
        simpa using this

/-- the in-cell neighbour of an interior member is not on the boundary -/
theorem ring_adj_notBoundary (k : Kernel) (he hf x : Nat) (hm : RingMember k he hf)
    (hx : k.adjHalffaceInCell hf he = some x) : k.hfOnBoundaryOrDeleted x = false := by
  obtain ⟨_, c, hc, _, _, hd, _, _, hcons⟩ := hm.unpack
  obtain ⟨c', hc', _, hxm, _⟩ := adj_sound k hf he x hx
  have : c' = c := by rw [hc] at hc'; injection hc' with e; exact e.symm
  subst this
  exact notBoundary_of_cell k x c' (hcons x hxm) hd

/-- the second direction of `reorder_incident_halffaces` on a well-formed fan: it stops at a
    halfface whose opposite is on the boundary, having prepended pairwise different new members -/
theorem walkBwd_stops (k : Kernel) (he : Nat) (inc : List Nat)
    (hring : ∀ hf ∈ inc, k.hfOnBoundaryOrDeleted (opp hf) = false → RingMember k (opp he) (opp hf))
    (hcl : ∀ hf ∈ inc, ∀ a, k.adjHalffaceInCell (opp hf) (opp he) = some a → a ∈ inc) :
    ∀ (fuel cur : Nat) (acc : List Nat), acc.Nodup → (∀ y ∈ acc, y ∈ inc) → acc.head? = some cur →
      Link k he acc → k.hfOnBoundaryOrDeleted (acc.getLast?.getD 0) = true →
      inc.length + 2 ≤ fuel + acc.length →
      ∃ res, k.walkBwd (opp he) inc.length fuel cur acc = .stop res ∧ res.Nodup ∧ (∀ y ∈ res, y ∈ inc) ∧
        Link k he res ∧ k.hfOnBoundaryOrDeleted (opp (res.headD 0)) = true ∧
        (∃ pre, res = pre ++ acc) := by
  intro fuel
  induction fuel with
  | zero =>
    intro cur acc hn hs _ _ _ hf
    exfalso
    have := hn.length_le_of_subset hs
    omega
  | succ f ih =>
    intro cur acc hn hs hh hl hlast hf
    cases acc with
    | nil => simp at hh
    | cons c t =>
      simp only [List.head?_cons, Option.some.injEq] at hh
      subst hh
      have hcin : c ∈ inc := hs c (List.mem_cons_self ..)
      unfold walkBwd
      by_cases hb : k.hfOnBoundaryOrDeleted (opp c) = true
      · simp only [hb, if_true]
        exact ⟨_, rfl, hn, hs, hl, by simpa using hb, [], rfl⟩
      have hb' : k.hfOnBoundaryOrDeleted (opp c) = false := by simpa using hb
      have hrc := hring c hcin hb'
      obtain ⟨a, ha, hback⟩ := ring_adj k (opp he) (opp c) hrc
      rw [opp_opp] at hback
      have hain : a ∈ inc := hcl c hcin a ha
      have hanb : k.hfOnBoundaryOrDeleted a = false := ring_adj_notBoundary k _ _ a hrc ha
      have hnew : a ∉ c :: t := by
        intro hm
        by_cases hal : a = (c :: t).getLast?.getD 0
        · rw [← hal, hanb] at hlast; cases hlast
        · obtain ⟨x, hx, hxt⟩ := link_succ_mem_tail k he (c :: t) a hl hm hal
          rw [hback] at hx; injection hx with hx
          rw [← hx, opp_opp] at hxt
          exact (List.nodup_cons.mp hn).1 hxt
      have hn2 : (a :: c :: t).Nodup := List.nodup_cons.mpr ⟨hnew, hn⟩
      have hs2 : ∀ y ∈ a :: c :: t, y ∈ inc := by
        intro y hy
        rcases List.mem_cons.mp hy with h | h
        · rw [h]; exact hain
        · exact hs y h
      have hlen : (a :: c :: t).length ≤ inc.length := hn2.length_le_of_subset hs2
      simp only [hb', Bool.false_eq_true, if_false, ha, Nat.not_lt.mpr hlen]
      obtain ⟨res, hr, h1, h2, h3, h4, pre, hpre⟩ := ih a (a :: c :: t) hn2 hs2 rfl
        ⟨⟨opp c, hback, (opp_opp c).symm⟩, hl⟩ (by rw [List.getLast?_cons_cons]; exact hlast)
        (by simp only [List.length_cons] at hf ⊢; omega)
      exact ⟨res, hr, h1, h2, h3, h4, pre ++ [a], by rw [hpre]; simp⟩

theorem FanMember.ring_of_next {k : Kernel} {he hf y : Nat} (h : FanMember k he hf)
    (hn : k.sFanNext he hf = some y) : RingMember k he hf := by
  rcases h.1 with h1 | h1
  · exact h1
  · unfold sFanNext at hn; simp [h1.2] at hn

theorem FanMember.ring_of_adj {k : Kernel} {he hf x : Nat} (h : FanMember k he hf)
    (hx : k.adjHalffaceInCell hf he = some x) : RingMember k he hf := by
  rcases h.1 with h1 | h1
  · exact h1
  · obtain ⟨c, hc, _⟩ := adj_sound k hf he x hx
    rw [h1.1] at hc; cases hc

/-- the walked list `R` is closed under the rotation: its last element is a boundary halfface or
    leads back to the first -/
theorem succ_closed (k : Kernel) (he : Nat) (inc R : List Nat) (hfm : ∀ y ∈ inc, FanMember k he y)
    (hR : ∀ y ∈ R, y ∈ inc) (hl : Link k he R)
    (hlast : k.hfOnBoundaryOrDeleted (R.getLast?.getD 0) = true ∨
      ∃ x, k.adjHalffaceInCell (R.getLast?.getD 0) he = some x ∧ opp x = R.headD 0)
    (z y : Nat) (hz : z ∈ R) (hzy : k.sFanNext he z = some y) : y ∈ R := by
  have hzr : RingMember k he z := (hfm z (hR z hz)).ring_of_next hzy
  obtain ⟨j, hj, hjz⟩ := List.getElem_of_mem hz
  have hzd : R.getD j 0 = z := by
    rw [List.getD_eq_getElem?_getD, List.getElem?_eq_getElem hj]; exact hjz
  by_cases hlt : j + 1 < R.length
  · obtain ⟨x, hx, hnext⟩ := link_index k he R j hl hlt
    rw [hzd] at hx
    rw [sFanNext_of_adj k he z x hzr hx] at hzy
    injection hzy with hzy
    rw [← hzy, ← hnext, List.getD_eq_getElem?_getD, List.getElem?_eq_getElem hlt]
    exact List.getElem_mem hlt
  · have hzl : R.getLast?.getD 0 = z := by
      rw [List.getLast?_eq_getElem?, ← List.getD_eq_getElem?_getD]
      have : R.length - 1 = j := by omega
      rw [this]; exact hzd
    rw [hzl] at hlast
    rcases hlast with hb | ⟨x, hx, hxs⟩
    · rw [ring_notBoundary k he z hzr] at hb; cases hb
    · rw [sFanNext_of_adj k he z x hzr hx] at hzy
      injection hzy with hzy
      rw [← hzy, hxs]
      cases R with
      | nil => cases hz
      | cons r0 rt => simp

/-- the walked list `R` contains every rotation predecessor of its members: nothing points to its
    first element from outside (its opposite is a boundary halfface, or the last element does) -/
theorem pred_closed (k : Kernel) (he : Nat) (inc R : List Nat) (hfm : ∀ y ∈ inc, FanMember k he y)
    (hR : ∀ y ∈ R, y ∈ inc) (hl : Link k he R)
    (hfirst : k.hfOnBoundaryOrDeleted (opp (R.headD 0)) = true ∨
      ∃ x, k.adjHalffaceInCell (R.getLast?.getD 0) he = some x ∧ opp x = R.headD 0)
    (p q : Nat) (hp : p ∈ inc) (hpq : k.sFanNext he p = some q) (hq : q ∈ R) : p ∈ R := by
  have hpr : RingMember k he p := (hfm p hp).ring_of_next hpq
  obtain ⟨x, hx, _⟩ := ring_adj k he p hpr
  rw [sFanNext_of_adj k he p x hpr hx] at hpq
  injection hpq with hpq
  have hRne : R ≠ [] := by intro e; rw [e] at hq; cases hq
  by_cases hqh : R.head? = some q
  · have hq0 : R.headD 0 = q := by
      cases R with
      | nil => cases hq
      | cons r0 rt => simp only [List.head?_cons, Option.some.injEq] at hqh; simpa using hqh
    rcases hfirst with hb | ⟨x', hx', hxs⟩
    · rw [hq0, ← hpq, opp_opp, ring_adj_notBoundary k he p x hpr hx] at hb; cases hb
    · have hlm : R.getLast?.getD 0 ∈ R := by
        rw [List.getLast?_eq_some_getLast hRne]; exact List.getLast_mem hRne
      have hlr : RingMember k he (R.getLast?.getD 0) := (hfm _ (hR _ hlm)).ring_of_adj hx'
      have hxx : x' = x := by
        rw [hq0, ← hpq] at hxs
        have := congrArg opp hxs; rwa [opp_opp, opp_opp] at this
      subst hxx
      have := ring_inj k he _ p x' hlr hpr hx' hx
      rw [← this]; exact hlm
  · obtain ⟨p', hp', x', hx', hqx⟩ := link_pred' k he R q hl hq hqh
    have hp'r : RingMember k he p' := (hfm p' (hR p' hp')).ring_of_adj hx'
    have hxx : x' = x := by
      rw [← hpq] at hqx
      have := congrArg opp hqx; rw [opp_opp, opp_opp] at this; exact this.symm
    subst hxx
    have := ring_inj k he p' p x' hp'r hpr hx' hx
    rw [← this]; exact hp'

theorem iter_mem (k : Kernel) (he : Nat) (inc : List Nat)
    (hcl : ∀ hf ∈ inc, ∀ y, k.sFanNext he hf = some y → y ∈ inc) :
    ∀ (i hf y : Nat), hf ∈ inc → iterNext k he i hf = some y → y ∈ inc := by
  intro i
  induction i with
  | zero => intro hf y hm h; simp only [iterNext, Option.some.injEq] at h; subst h; exact hm
  | succ i ih =>
    intro hf y hm h
    simp only [iterNext] at h
    cases hz : iterNext k he i hf with
    | none => rw [hz] at h; cases h
    | some z => rw [hz] at h; exact hcl z (ih hf z hm hz) y h

/-- everything reachable from a member of a rotation-closed list is in the list -/
theorem reach_fwd (k : Kernel) (he : Nat) (R : List Nat)
    (hsc : ∀ z y, z ∈ R → k.sFanNext he z = some y → y ∈ R) :
    ∀ (i s y : Nat), s ∈ R → iterNext k he i s = some y → y ∈ R := by
  intro i
  induction i with
  | zero => intro s y hm h; simp only [iterNext, Option.some.injEq] at h; subst h; exact hm
  | succ i ih =>
    intro s y hm h
    simp only [iterNext] at h
    cases hz : iterNext k he i s with
    | none => rw [hz] at h; cases h
    | some z => rw [hz] at h; exact hsc z y (ih s z hm hz) h

/-- everything from which a member of a predecessor-closed list is reachable is in the list -/
theorem reach_bwd (k : Kernel) (he : Nat) (inc R : List Nat)
    (hcl : ∀ hf ∈ inc, ∀ y, k.sFanNext he hf = some y → y ∈ inc)
    (hpc : ∀ p q, p ∈ inc → k.sFanNext he p = some q → q ∈ R → p ∈ R) :
    ∀ (i hf y : Nat), hf ∈ inc → iterNext k he i hf = some y → y ∈ R → hf ∈ R := by
  intro i
  induction i with
  | zero => intro hf y _ h hy; simp only [iterNext, Option.some.injEq] at h; subst h; exact hy
  | succ i ih =>
    intro hf y hm h hy
    simp only [iterNext] at h
    cases hz : iterNext k he i hf with
    | none => rw [hz] at h; cases h
    | some z =>
      rw [hz] at h
      exact ih hf z hm hz (hpc z y (iter_mem k he inc hcl i hf z hm hz) h hy)

/-- edge `e` is a single fan, closed or open: a well-formed fan (`FanOK`) whose cached halfface list
    is closed under the rotation in both directions and connected — every cached halfface is
    reachable from the first one by following the rotation, or the first one from it -/
def SingleFan (k : Kernel) (e : Nat) : Prop :=
  FanOK k e ∧
  (∀ hf ∈ k.hfsOf (heOf e 0), ∀ y ∈ k.sFanNext (heOf e 0) hf, y ∈ k.hfsOf (heOf e 0)) ∧
  (∀ hf ∈ k.hfsOf (heOf e 0), ∀ y ∈ k.sFanNext (opp (heOf e 0)) (opp hf), opp y ∈ k.hfsOf (heOf e 0)) ∧
  (∀ hf ∈ k.hfsOf (heOf e 0),
    (∃ i, i < (k.hfsOf (heOf e 0)).length ∧
      iterNext k (heOf e 0) i ((k.hfsOf (heOf e 0)).headD 0) = some hf) ∨
    (∃ i, i < (k.hfsOf (heOf e 0)).length ∧
      iterNext k (heOf e 0) i hf = some ((k.hfsOf (heOf e 0)).headD 0)))

instance (k : Kernel) (e : Nat) : Decidable (SingleFan k e) := by
  unfold SingleFan; exact inferInstance

/-! ### the order predicate and which fields it reads -/

/-- the cache slots of edge `e` are in rotational order: in the list of halfedge `2e` every element
    with a successor is followed by its rotation successor `sFanNext`, the last element has no
    rotation successor (boundary) or leads back to the first, and the list of halfedge `2e+1` is
    the mirrored reverse -/
def FanOrdered (k : Kernel) (e : Nat) : Prop :=
  (∀ i, i < (k.hfsOf (heOf e 0)).length - 1 →
    k.sFanNext (heOf e 0) ((k.hfsOf (heOf e 0)).getD i 0) = some ((k.hfsOf (heOf e 0)).getD (i + 1) 0)) ∧
  (k.sFanNext (heOf e 0) ((k.hfsOf (heOf e 0)).getD ((k.hfsOf (heOf e 0)).length - 1) 0) = none ∨
   k.sFanNext (heOf e 0) ((k.hfsOf (heOf e 0)).getD ((k.hfsOf (heOf e 0)).length - 1) 0) =
     some ((k.hfsOf (heOf e 0)).getD 0 0)) ∧
  k.hfsOf (heOf e 1) = (k.hfsOf (heOf e 0)).reverse.map opp

instance (k : Kernel) (e : Nat) : Decidable (FanOrdered k e) := by
  unfold FanOrdered; exact inferInstance

/-- two states agree on the definitions, the cell flags and `incident_cell_per_hf_` -/
structure SameDefs (k k' : Kernel) : Prop where
  cells : k'.cells = k.cells
  faces : k'.faces = k.faces
  cDel : k'.cDel = k.cDel
  incCell : k'.incCell = k.incCell

theorem SameDefs.sFanNext {k k' : Kernel} (h : SameDefs k k') (he hf : Nat) :
    k'.sFanNext he hf = k.sFanNext he hf := by
  unfold Kernel.sFanNext sAdj sCellOf sCellsOfHf liveCells cellAt hfHes faceAt cDeleted nC
  simp only [h.cells, h.faces, h.cDel]

theorem SameDefs.iterNext {k k' : Kernel} (h : SameDefs k k') (he : Nat) :
    ∀ i hf, iterNext k' he i hf = iterNext k he i hf := by
  intro i
  induction i with
  | zero => intro hf; rfl
  | succ i ih =>
    intro hf
    simp only [Fan.iterNext, ih]
    congr 1
    funext x; exact h.sFanNext he x

theorem SameDefs.ringMember {k k' : Kernel} (h : SameDefs k k') (he hf : Nat) :
    RingMember k' he hf ↔ RingMember k he hf := by
  unfold RingMember ClosedSurface EdgeProper cellHalfedges sCellOf sCellsOfHf liveCells cellAt hfHes faceAt
    cDeleted nC cellOf
  simp only [h.cells, h.faces, h.cDel, h.incCell]

theorem SameDefs.fanMember {k k' : Kernel} (h : SameDefs k k') (he hf : Nat) :
    FanMember k' he hf ↔ FanMember k he hf := by
  unfold FanMember
  rw [h.ringMember, h.ringMember]
  unfold BoundaryMember sCellOf sCellsOfHf liveCells cellAt cDeleted nC cellOf
  simp only [h.cells, h.cDel, h.incCell]

/-- `SingleFan` at `e` reads the definitions, the cell flags, `incident_cell_per_hf_` and the cache
    slot of halfedge `2e` only -/
theorem SameDefs.singleFan {k k' : Kernel} (h : SameDefs k k') (e : Nat)
    (hs : k'.hfsOf (heOf e 0) = k.hfsOf (heOf e 0)) : SingleFan k' e ↔ SingleFan k e := by
  unfold SingleFan FanOK
  simp only [hs, h.fanMember, h.sFanNext, h.iterNext]

theorem SameDefs.fanOrdered {k k' : Kernel} (h : SameDefs k k') (e : Nat)
    (h0 : k'.hfsOf (heOf e 0) = k.hfsOf (heOf e 0)) (h1 : k'.hfsOf (heOf e 1) = k.hfsOf (heOf e 1)) :
    FanOrdered k' e ↔ FanOrdered k e := by
  unfold FanOrdered
  simp only [h0, h1, h.sFanNext]

/-! ### `std::set` contents are duplicate-free -/
theorem sortedLT_insertSorted (x : Nat) (l : List Nat) (h : SortedLT l) : SortedLT (insertSorted x l) := by
  induction l with
  | nil => trivial
  | cons a t ih =>
    unfold insertSorted
    split
    · rename_i hxa; exact ⟨hxa, h⟩
    · split
      · exact h
      · rename_i h1 h2
        have hax : a < x := by omega
        cases t with
        | nil => exact ⟨hax, trivial⟩
        | cons b t' =>
          have iht := ih h.2
          unfold insertSorted at iht ⊢
          split
          · rename_i hxb; exact ⟨hax, hxb, h.2⟩
          · split
            · exact h
            · rename_i h3 h4
              simp only [h3, h4, if_false] at iht
              exact ⟨h.1, iht⟩

theorem toSet_nodup (l : List Nat) : (toSet l).Nodup := by
  apply sortedLT_nodup
  unfold toSet
  have : ∀ (acc : List Nat), SortedLT acc → SortedLT (l.foldl (fun s x => insertSorted x s) acc) := by
    induction l with
    | nil => intro acc h; exact h
    | cons a t ih => intro acc h; exact ih _ (sortedLT_insertSorted a acc h)
  exact this [] trivial

end Fan
end Kernel
end OVM

import OVM.Refine.CacheAdd
import OVM.Refine.CacheAddCell
import OVM.Refine.CacheMode
/-
  The construction / mode vocabulary of `Kernel.step` preserves `WF` — one operation
  (`wf_step_construction_partial`) and whole histories (`wf_run_construction_partial`).
  `_partial`: the vocabulary excludes `set_*`, `delete_*`, `swap_*`, `collect_garbage` and the
  garbage-collecting `enable_deferred_deletion(false)` (deletion side, OVM/Refine/ScanDel.lean ff.).
-/
namespace OVM
namespace Kernel

/-- argument conditions of the construction vocabulary, each the precondition the C++ asserts
    (cited at the lemma that uses it); every operation outside the vocabulary is excluded -/
def OpInRangeAdd (k : Kernel) : Op → Prop
  | .addVertex => True
  | .addNVertices _ => True
  | .addEdge a b _ => a < k.nV ∧ b < k.nV
  | .addFaceHe _ hes => ∀ h ∈ hes, h < k.nHE
  | .addFaceV vs => ∀ v ∈ vs, v < k.nV
  | .addCell _ hfs => (∀ hf ∈ hfs, hf < k.nHF) ∧ HfsFree k hfs
  | .enableDeferred b => EnableDeferredNoGC k b
  | .enableFast _ => True
  | .enableBU _ _ => True
  | .clear _ => True
  | _ => False

theorem wf_step_construction_partial (k : Kernel) (op : Op) (h : WF k) (hr : OpInRangeAdd k op) :
    WF (k.step op).1 := by
  cases op with
  | addVertex => exact wf_addVertex k h
  | addNVertices n => exact wf_addNVertices k n h
  | addEdge a b d => exact wf_addEdge k a b d hr.1 hr.2 h
  | addFaceHe c hes => exact wf_addFace k hes c hr h
  | addFaceV vs => exact wf_addFaceV k vs hr h
  | addCell c hfs => exact wf_addCell k hfs c hr.1 hr.2 h
  | enableDeferred b => exact wf_enableDeferred k b h hr
  | enableFast b => exact wf_enableFast k b h
  | enableBU kind b =>
    simp only [step]
    split
    · exact wf_enableVBU k b h
    · split
      · exact wf_enableEBU k b h
      · exact wf_enableFBU k b h
  | clear p => exact wf_clear k p h
  | setEdge _ _ _ => exact absurd hr (by simp [OpInRangeAdd])
  | setFace _ _ => exact absurd hr (by simp [OpInRangeAdd])
  | setCell _ _ => exact absurd hr (by simp [OpInRangeAdd])
  | deleteVertex _ => exact absurd hr (by simp [OpInRangeAdd])
  | deleteEdge _ => exact absurd hr (by simp [OpInRangeAdd])
  | deleteFace _ => exact absurd hr (by simp [OpInRangeAdd])
  | deleteCell _ => exact absurd hr (by simp [OpInRangeAdd])
  | swapVertex _ _ => exact absurd hr (by simp [OpInRangeAdd])
  | swapEdge _ _ => exact absurd hr (by simp [OpInRangeAdd])
  | swapFace _ _ => exact absurd hr (by simp [OpInRangeAdd])
  | swapCell _ _ => exact absurd hr (by simp [OpInRangeAdd])
  | collectGarbage => exact absurd hr (by simp [OpInRangeAdd])

/-- a history of construction / mode operations whose arguments satisfy `OpInRangeAdd` at the
    time of each call -/
def HistoryInRangeAdd : Kernel → List Op → Prop
  | _, [] => True
  | k, op :: t => OpInRangeAdd k op ∧ HistoryInRangeAdd (k.step op).1 t

theorem wf_run_construction_partial (k : Kernel) (ops : List Op) (h : WF k) (hr : HistoryInRangeAdd k ops) :
    WF (k.run ops) := by
  induction ops generalizing k with
  | nil => exact h
  | cons op t ih =>
    simp only [run, List.foldl_cons]
    exact ih _ (wf_step_construction_partial k op h hr.1) hr.2

/-! ### Boolean forms for concrete states (non-vacuity examples) -/

/-- Boolean form of `OpInRangeAdd` (sound, see `opInRangeAdd_of_B`) -/
def opInRangeAddB (k : Kernel) : Op → Bool
  | .addVertex => true
  | .addNVertices _ => true
  | .addEdge a b _ => decide (a < k.nV) && decide (b < k.nV)
  | .addFaceHe _ hes => hes.all (fun h => decide (h < k.nHE))
  | .addFaceV vs => vs.all (fun v => decide (v < k.nV))
  | .addCell _ hfs =>
    hfs.all (fun hf => decide (hf < k.nHF)) && hfs.all (fun hf => (k.sCellOf hf).isNone)
  | .enableDeferred b => !(k.deferred && !b && k.needsGC)
  | .enableFast _ => true
  | .enableBU _ _ => true
  | .clear _ => true
  | _ => false

theorem opInRangeAdd_of_B (k : Kernel) (op : Op) (h : k.opInRangeAddB op = true) : OpInRangeAdd k op := by
  cases op <;> simp only [opInRangeAddB, OpInRangeAdd] at h ⊢ <;> try (first | trivial | cases h)
  case addEdge a b d => simpa using h
  case addFaceHe c hes => simpa using h
  case addFaceV vs => simpa using h
  case addCell c hfs =>
    simp only [Bool.and_eq_true, List.all_eq_true, decide_eq_true_eq] at h
    refine ⟨h.1, fun hf hm => ?_⟩
    have := h.2 hf hm
    simpa using this
  case enableDeferred b =>
    intro hc
    simp [hc.1, hc.2.1, hc.2.2] at h

def historyInRangeAddB : Kernel → List Op → Bool
  | _, [] => true
  | k, op :: t => k.opInRangeAddB op && historyInRangeAddB (k.step op).1 t

theorem historyInRangeAdd_of_B (k : Kernel) (ops : List Op) (h : historyInRangeAddB k ops = true) :
    HistoryInRangeAdd k ops := by
  induction ops generalizing k with
  | nil => trivial
  | cons op t ih =>
    simp only [historyInRangeAddB, Bool.and_eq_true] at h
    exact ⟨opInRangeAdd_of_B k op h.1, ih _ h.2⟩

end Kernel
end OVM

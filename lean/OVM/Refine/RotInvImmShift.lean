import OVM.Refine.RotInvImm
/-
  RotInv, part 13 (builder R1): the closure deletions `delete_cell/face/edge/vertex` in IMMEDIATE, index-shifting
  mode (`deferred = false`, `fast = false`).  The loops and the side conditions are K4's
  (OVM/Refine/CacheImmediate.lean, namespace `Shift`); the rotational-order invariant rides along.
-/
namespace OVM
namespace Kernel
namespace Rot
open Fan CellCheck ScanDel Shift

/-- what rides along: the invariant and "no vertex is flagged" (`Shift.ImmInv` says it for cells, faces, edges) -/
def RV (k : Kernel) : Prop := RotInv k ∧ NoFlag k.vDel

theorem closed_of_imm {k : Kernel} (hi : Shift.ImmInv k) (hv : NoFlag k.vDel) : Closed k :=
  closed_of_allLive hi.faces hi.edges (Global.vertsLive_of_noFlag hv) hi.wf.range

/-! ### the cores -/
theorem rv_cellCore_shift {k : Kernel} {h : Nat} (hi : Shift.ImmInv k) (hh : h < k.nC) (hr : RV k) :
    RV (k.deleteCellCore h) := by
  have hB := Shift.immInv_deleteCellCore hi hh
  have hvB : NoFlag (k.deleteCellCore h).vDel := by rw [Global.deleteCellCore_vDel]; exact hr.2
  refine ⟨?_, hvB⟩
  have hcB := closed_of_imm hB hvB
  have hwB := hB.wf
  rw [deleteCellCore_shift_eq h hi.deferred hi.fast] at hwB hcB ⊢
  exact rotInv_unlinkEraseCell (fun hf => not_fast hi.fast hf) hi.wf hi.one (closed_of_imm hi hr.2) hwB hcB hr.1

theorem rv_faceCore_shift {k : Kernel} {h : Nat} (hi : Shift.ImmInv k) (hh : h < k.nF)
    (hun : ∀ c ∈ k.cells, ∀ a ∈ c, eOf a ≠ h) (hr : RV k) : RV (k.deleteFaceCore h) := by
  have hB := (Shift.imm_faceCore hi hh hun).1
  have hvB : NoFlag (k.deleteFaceCore h).vDel := by rw [Global.deleteFaceCore_vDel]; exact hr.2
  refine ⟨?_, hvB⟩
  have hcB := closed_of_imm hB hvB
  have hwB := hB.wf
  rw [deleteFaceCore_shift_eq h hi.deferred hi.fast] at hwB hcB ⊢
  exact rotInv_unlinkEraseFace hh (fun hf => not_fast hi.fast hf) hi.wf hi.one hi.cells hun hwB hcB hr.1

theorem rv_edgeCore_shift {k : Kernel} {h : Nat} (hi : Shift.ImmInv k) (hh : h < k.nE)
    (hun : ∀ c ∈ k.faces, ∀ a ∈ c, eOf a ≠ h) (hr : RV k) : RV (k.deleteEdgeCore h) := by
  have hB := (Shift.imm_edgeCore hi hh hun).1
  have hvB : NoFlag (k.deleteEdgeCore h).vDel := by rw [Global.deleteEdgeCore_vDel]; exact hr.2
  refine ⟨?_, hvB⟩
  have hcB := closed_of_imm hB hvB
  have hwB := hB.wf
  rw [deleteEdgeCore_shift_eq h hi.deferred hi.fast] at hwB hcB ⊢
  exact rotInv_unlinkEraseEdge hh (fun hf => not_fast hi.fast hf) hi.wf hi.faces hun hwB hcB hr.1

/-! ### the loops (K4's inductions with `RV` added) -/
theorem rv_foldCells (L : List Nat) (hd : Desc L) : ∀ k : Kernel, Shift.ImmInv k → (∀ x ∈ L, x < k.nC) → RV k →
    RV (L.foldl deleteCellCore k) := by
  induction L with
  | nil => intro k _ _ hr; exact hr
  | cons x t ih =>
    intro k hi hlt hr
    have hx : x < k.nC := hlt x (by simp)
    have htx : ∀ y ∈ t, y < x := fun y hy => List.rel_of_pairwise_cons hd hy
    have hi1 := Shift.immInv_deleteCellCore hi hx
    have hn1 := Shift.imm_cellCore_nC hi hx
    simp only [List.foldl_cons]
    exact ih (List.Pairwise.of_cons hd) (k.deleteCellCore x) hi1
      (fun y hy => by rw [hn1]; have := htx y hy; omega) (rv_cellCore_shift hi hx hr)

theorem rv_foldFaces (L : List Nat) (hd : Desc L) : ∀ k : Kernel, Shift.ImmInv k → (∀ x ∈ L, x < k.nF) →
    (∀ c ∈ k.cells, ∀ a ∈ c, eOf a ∉ L) → RV k → RV (L.foldl deleteFaceCore k) := by
  induction L with
  | nil => intro k _ _ _ hr; exact hr
  | cons x t ih =>
    intro k hi hlt hun hr
    have hx : x < k.nF := hlt x (by simp)
    have htx : ∀ y ∈ t, y < x := fun y hy => List.rel_of_pairwise_cons hd hy
    have hunx : ∀ c ∈ k.cells, ∀ a ∈ c, eOf a ≠ x := fun c hc a ha e => hun c hc a ha (by rw [e]; simp)
    obtain ⟨hi1, hcells, hfaces, _, _⟩ := Shift.imm_faceCore hi hx hunx
    have hn1 : (k.deleteFaceCore x).nF = k.nF - 1 := by unfold nF at *; rw [hfaces, List.length_eraseIdx, if_pos hx]
    simp only [List.foldl_cons]
    exact ih (List.Pairwise.of_cons hd) (k.deleteFaceCore x) hi1
      (fun y hy => by rw [hn1]; have := htx y hy; omega)
      (by
        intro c1 hc1 a1 ha1
        rw [hcells] at hc1
        obtain ⟨c0, hc0, rfl⟩ := List.mem_map.mp hc1
        obtain ⟨a0, ha0, rfl⟩ := List.mem_map.mp ha1
        rw [eOf_corr2 x a0 (hunx c0 hc0 a0 ha0)]
        exact k4c_corr1_not_mem htx (fun hm => hun c0 hc0 a0 ha0 (List.mem_cons_of_mem _ hm)))
      (rv_faceCore_shift hi hx hunx hr)

theorem rv_foldEdges (L : List Nat) (hd : Desc L) : ∀ k : Kernel, Shift.ImmInv k → (∀ x ∈ L, x < k.nE) →
    (∀ c ∈ k.faces, ∀ a ∈ c, eOf a ∉ L) → RV k → RV (L.foldl deleteEdgeCore k) := by
  induction L with
  | nil => intro k _ _ _ hr; exact hr
  | cons x t ih =>
    intro k hi hlt hun hr
    have hx : x < k.nE := hlt x (by simp)
    have htx : ∀ y ∈ t, y < x := fun y hy => List.rel_of_pairwise_cons hd hy
    have hunx : ∀ c ∈ k.faces, ∀ a ∈ c, eOf a ≠ x := fun c hc a ha e => hun c hc a ha (by rw [e]; simp)
    obtain ⟨hi1, hfaces, hedges, _⟩ := Shift.imm_edgeCore hi hx hunx
    have hn1 : (k.deleteEdgeCore x).nE = k.nE - 1 := by unfold nE at *; rw [hedges, List.length_eraseIdx, if_pos hx]
    simp only [List.foldl_cons]
    exact ih (List.Pairwise.of_cons hd) (k.deleteEdgeCore x) hi1
      (fun y hy => by rw [hn1]; have := htx y hy; omega)
      (by
        intro c1 hc1 a1 ha1
        rw [hfaces] at hc1
        obtain ⟨c0, hc0, rfl⟩ := List.mem_map.mp hc1
        obtain ⟨a0, ha0, rfl⟩ := List.mem_map.mp ha1
        rw [eOf_corr2 x a0 (hunx c0 hc0 a0 ha0)]
        exact k4c_corr1_not_mem htx (fun hm => hun c0 hc0 a0 ha0 (List.mem_cons_of_mem _ hm)))
      (rv_edgeCore_shift hi hx hunx hr)

/-! ### the four closure deletions -/
theorem rv_cellsGone {k : Kernel} (hi : Shift.ImmInv k) (fs : List Nat) (hr : RV k) :
    RV ((k.incidentCells fs).reverse.foldl deleteCellCore k) :=
  rv_foldCells _ (desc_incidentCells k fs) k hi (fun x hx => incidentCells_lt hi.wf (List.mem_reverse.mp hx)) hr

theorem rv_deleteCell_shift {k : Kernel} {c : Nat} (hi : Shift.ImmInv k) (hc : c < k.nC) (hr : RV k) :
    RV (k.deleteCell c) := rv_cellCore_shift hi hc hr

theorem rv_deleteFace_shift {k : Kernel} {f : Nat} (hi : Shift.ImmInv k) (hf : f < k.nF) (hr : RV k) :
    RV (k.deleteFace f) := by
  unfold deleteFace
  obtain ⟨a1, a2, _, _, a5⟩ := Shift.imm_cellsGone hi [f]
  exact rv_faceCore_shift a1 (by unfold nF at *; rw [a2]; exact hf)
    (fun c hc a ha e => a5 c hc a ha (by rw [e]; simp)) (rv_cellsGone hi [f] hr)

theorem rv_facesGone {k : Kernel} (hi : Shift.ImmInv k) (es : List Nat) (hr : RV k) :
    RV ((k.incidentFaces es).reverse.foldl deleteFaceCore
      ((k.incidentCells (k.incidentFaces es)).reverse.foldl deleteCellCore k)) := by
  obtain ⟨a1, a2, _, _, a5⟩ := Shift.imm_cellsGone hi (k.incidentFaces es)
  have r1 := rv_cellsGone hi (k.incidentFaces es) hr
  generalize (k.incidentCells (k.incidentFaces es)).reverse.foldl deleteCellCore k = k1 at a1 a2 a5 r1
  exact rv_foldFaces _ (desc_incidentFaces k es) k1 a1
    (fun x hx => by unfold nF; rw [a2]; exact incidentFaces_lt hi.wf (List.mem_reverse.mp hx))
    (fun c hc a ha hm => a5 c hc a ha (List.mem_reverse.mp hm)) r1

theorem rv_deleteEdge_shift {k : Kernel} {e : Nat} (hi : Shift.ImmInv k) (he : e < k.nE) (hr : RV k) :
    RV (k.deleteEdge e) := by
  unfold deleteEdge
  obtain ⟨a1, a2, _, a5⟩ := Shift.imm_facesGone hi [e]
  exact rv_edgeCore_shift a1 (by unfold nE at *; rw [a2]; exact he)
    (fun c hc a ha e1 => a5 c hc a ha (by rw [e1]; simp)) (rv_facesGone hi [e] hr)

theorem rv_deleteVertex_shift {k : Kernel} {v : Nat} (hi : Shift.ImmInv k) (hr : RV k) :
    RotInv (k.deleteVertex v) := by
  unfold deleteVertex
  obtain ⟨a1, a2, a4, a5⟩ := Shift.imm_facesGone hi (k.incidentEdges [v])
  have r2 := rv_facesGone hi (k.incidentEdges [v]) hr
  simp only []
  generalize (k.incidentFaces (k.incidentEdges [v])).reverse.foldl deleteFaceCore
      ((k.incidentCells (k.incidentFaces (k.incidentEdges [v]))).reverse.foldl deleteCellCore k) = k2 at a1 a2 a4 a5 r2
  have r3 := rv_foldEdges _ (desc_incidentEdges k [v]) k2 a1
    (fun x hx => by unfold nE; rw [a2]; exact incidentEdges_lt hi.wf (List.mem_reverse.mp hx))
    (fun c hc a ha hm => a5 c hc a ha (List.mem_reverse.mp hm)) r2
  obtain ⟨b1, _, _⟩ := Shift.immInv_foldEdges _ (desc_incidentEdges k [v]) k2 a1
    (fun x hx => by unfold nE; rw [a2]; exact incidentEdges_lt hi.wf (List.mem_reverse.mp hx))
    (fun c hc a ha hm => a5 c hc a ha (List.mem_reverse.mp hm))
  rw [deleteVertexCore_shift_eq v b1.deferred b1.fast]
  exact rotInv_eraseVertex v r3.1

end Rot
end Kernel
end OVM

import OVM.Refine.GlobalStep
import OVM.Refine.LookupLemmas
import OVM.Props.C01
/-
  The derived upward queries of C01 on states satisfying `Global.GInv`: each query of the model (what the C++
  iterator / `is_boundary` computes from the caches, OVM/Kernel/Query.lean) equals the brute-force specification
  over the stored definitions of the not-deleted entities (OVM/Spec/Incidence.lean).  Beyond `CacheInv` these use
  `RangeInv` (a stored handle names a slot), `oneCell` (the cache names THE live cell of a halfface) and — for the
  queries that climb two levels from a vertex — `Closed` (the edges of a live face are live).
-/
namespace OVM
namespace Kernel
namespace Global
open ScanDel

theorem pairwise_lt_ext' : ∀ (l m : List Nat), l.Pairwise (· < ·) → m.Pairwise (· < ·) → (∀ x, x ∈ l ↔ x ∈ m) → l = m
  | [], [], _, _, _ => rfl
  | [], b :: u, _, _, h => by have := (h b).mpr (List.mem_cons_self); cases this
  | a :: t, [], _, _, h => by have := (h a).mp (List.mem_cons_self); cases this
  | a :: t, b :: u, hl, hm, h => by
    rw [List.pairwise_cons] at hl hm
    have hab : a = b := by
      rcases List.mem_cons.mp ((h a).mp (List.mem_cons_self)) with e | e
      · exact e
      · rcases List.mem_cons.mp ((h b).mpr (List.mem_cons_self)) with e' | e'
        · exact e'.symm
        · have := hm.1 a e; have := hl.1 b e'; omega
    subst hab
    congr 1
    apply pairwise_lt_ext' t u hl.2 hm.2
    intro x
    constructor
    · intro hx
      rcases List.mem_cons.mp ((h x).mp (List.mem_cons_of_mem _ hx)) with e | e
      · have := hl.1 x hx; omega
      · exact e
    · intro hx
      rcases List.mem_cons.mp ((h x).mpr (List.mem_cons_of_mem _ hx)) with e | e
      · have := hm.1 x hx; omega
      · exact e

theorem sortUniq_pairwise (l : List Nat) : (sortUniq l).Pairwise (· < ·) :=
  Shift.k4c_pairwise_of_sortedLT _ (sortUniq_sorted l)
theorem liveFaces_pairwise (k : Kernel) : k.liveFaces.Pairwise (· < ·) := List.pairwise_lt_range.filter _
theorem liveCells_pairwise (k : Kernel) : k.liveCells.Pairwise (· < ·) := List.pairwise_lt_range.filter _

/-- a sorted duplicate-free query result equals a filter of the live list as soon as the members agree -/
theorem sortUniq_eq_of_mem {l m : List Nat} (hm : m.Pairwise (· < ·)) (h : ∀ x, x ∈ l ↔ x ∈ m) : sortUniq l = m :=
  pairwise_lt_ext' _ _ (sortUniq_pairwise l) hm (fun x => by rw [mem_sortUniq]; exact h x)

theorem half_cases (x : Nat) : x = 2 * eOf x ∨ x = 2 * eOf x + 1 := by unfold eOf; omega

/-- `h ∈ hfHes hf`, read on the face definition -/
theorem mem_hfHes_iff (k : Kernel) (hf h : Nat) :
    h ∈ k.hfHes hf ↔ ((hf = 2 * eOf hf ∧ h ∈ k.faceAt (eOf hf)) ∨ (hf = 2 * eOf hf + 1 ∧ opp h ∈ k.faceAt (eOf hf))) := by
  rcases half_cases hf with e | e
  · constructor
    · intro hm; left; refine ⟨e, ?_⟩; rw [e, hfHes_two_mul] at hm; exact hm
    · rintro (⟨_, hm⟩ | ⟨e', _⟩)
      · rw [e, hfHes_two_mul]; exact hm
      · omega
  · constructor
    · intro hm; right; refine ⟨e, ?_⟩; rw [e, hfHes_two_mul_succ, k3_mem_oppFace] at hm; exact hm
    · rintro (⟨e', _⟩ | ⟨_, hm⟩)
      · omega
      · rw [e, hfHes_two_mul_succ, k3_mem_oppFace]; exact hm

/-- the halffaces cached at a halfedge, under the invariant -/
theorem mem_hfsOf_iff {k : Kernel} (hw : WF k) (hb : k.eBU = true) {h : Nat} (hh : h < k.nHE) (hf : Nat) :
    hf ∈ k.hfsOf h ↔ (k.liveF (eOf hf) = true ∧ h ∈ k.hfHes hf) := by
  rw [((hw.cache.e hb).2 h hh).mem_iff, mem_sHfsOfHe]

/-! ### is_boundary -/

theorem qBoundaryC_exact {k : Kernel} (hw : WF k) (hb : k.fBU = true) {c : Nat} (hc : c < k.nC) :
    k.qBoundaryC c = k.sBoundaryC c := by
  unfold qBoundaryC sBoundaryC
  rw [Bool.eq_iff_iff, List.any_eq_true, List.any_eq_true]
  have key : ∀ x ∈ k.cellAt c, k.qBoundaryF (eOf x) = k.sBoundaryF (eOf x) := by
    intro x hx
    have := hw.range.cells _ (cellAt_mem_cells hc) x hx
    exact Props.C01.is_boundary_face_exact k hw.cache hb _ (by unfold Kernel.nHF Kernel.nF eOf at *; omega)
  constructor
  · rintro ⟨x, hx, hp⟩; exact ⟨x, hx, by rw [← key x hx]; exact hp⟩
  · rintro ⟨x, hx, hp⟩; exact ⟨x, hx, by rw [key x hx]; exact hp⟩

theorem qBoundaryHE_exact {k : Kernel} (hw : WF k) (he : k.eBU = true) (hb : k.fBU = true) {h : Nat} (hh : h < k.nHE) :
    k.qBoundaryHE h = k.sBoundaryHE h := by
  unfold qBoundaryHE sBoundaryHE qHEHF
  simp only [he, if_true]
  rw [Bool.eq_iff_iff, List.any_eq_true, List.any_eq_true]
  have bf : ∀ f, k.liveF f = true → k.qBoundaryF f = k.sBoundaryF f := fun f hl =>
    Props.C01.is_boundary_face_exact k hw.cache hb f (liveF_lt hl)
  constructor
  · rintro ⟨hf, hm, hp⟩
    obtain ⟨hl, hmem⟩ := (mem_hfsOf_iff hw he hh hf).mp hm
    refine ⟨eOf hf, (mem_liveFaces k _).mpr hl, ?_⟩
    rw [← bf _ hl, hp, Bool.and_true]
    rcases half_cases hf with e | e
    · rw [← e]; simp [hmem]
    · rw [← e]; simp [hmem]
  · rintro ⟨f, hf, hp⟩
    have hl := (mem_liveFaces k f).mp hf
    simp only [Bool.and_eq_true, Bool.or_eq_true, List.contains_iff_mem] at hp
    rcases hp.1 with hm | hm
    · exact ⟨2 * f, (mem_hfsOf_iff hw he hh _).mpr ⟨by rw [show eOf (2 * f) = f by unfold eOf; omega]; exact hl, hm⟩,
        by rw [show eOf (2 * f) = f by unfold eOf; omega, bf f hl]; exact hp.2⟩
    · exact ⟨2 * f + 1, (mem_hfsOf_iff hw he hh _).mpr ⟨by rw [show eOf (2 * f + 1) = f by unfold eOf; omega]; exact hl, hm⟩,
        by rw [show eOf (2 * f + 1) = f by unfold eOf; omega, bf f hl]; exact hp.2⟩

theorem qBoundaryV_exact {k : Kernel} (hw : WF k) (hv : k.vBU = true) (he : k.eBU = true) (hb : k.fBU = true)
    {v : Nat} (hlt : v < k.nV) : k.qBoundaryV v = k.sBoundaryV v := by
  unfold qBoundaryV sBoundaryV
  rw [(Props.C01.outgoing_halfedges_exact k hw.cache hv v hlt).any_eq]
  rw [Bool.eq_iff_iff, List.any_eq_true, List.any_eq_true]
  have key : ∀ h ∈ k.sOut v, k.qBoundaryHE h = k.sBoundaryHE h := by
    intro h hm
    have hl := (mem_sOut hm).2
    have : h < k.nHE := by
      unfold Kernel.liveE at hl; simp at hl
      have := hl.1; unfold Kernel.nHE Kernel.nE eOf at *; omega
    exact qBoundaryHE_exact hw he hb this
  constructor
  · rintro ⟨x, hx, hp⟩; exact ⟨x, hx, by rw [← key x hx]; exact hp⟩
  · rintro ⟨x, hx, hp⟩; exact ⟨x, hx, by rw [key x hx]; exact hp⟩

/-! ### edge → faces, halfedge → faces -/

theorem same_edge_cases {x h : Nat} (e : eOf x = eOf h) : x = h ∨ x = opp h := by
  rcases half_cases x with hx | hx <;> rcases half_cases h with hh | hh
  · left; omega
  · right; rw [hh, opp_two_mul_succ]; omega
  · right; rw [hh, opp_two_mul]; omega
  · left; omega

theorem mem_same_edge_iff (l : List Nat) (h : Nat) : (∃ x ∈ l, eOf x = eOf h) ↔ (h ∈ l ∨ opp h ∈ l) := by
  constructor
  · rintro ⟨x, hx, e⟩
    rcases same_edge_cases e with r | r
    · left; rw [← r]; exact hx
    · right; rw [← r]; exact hx
  · rintro (hm | hm)
    · exact ⟨h, hm, rfl⟩
    · exact ⟨opp h, hm, eOf_opp h⟩

theorem faceHasEdge_iff (k : Kernel) (f h : Nat) :
    k.faceHasEdge f (eOf h) = true ↔ (h ∈ k.faceAt f ∨ opp h ∈ k.faceAt f) := by
  unfold faceHasEdge
  rw [List.any_eq_true, ← mem_same_edge_iff]
  constructor
  · rintro ⟨x, hx, e⟩; exact ⟨x, hx, by simpa using e⟩
  · rintro ⟨x, hx, e⟩; exact ⟨x, hx, by simpa using e⟩

/-- the faces found through the halfface list of a halfedge -/
theorem mem_faces_of_he {k : Kernel} (hw : WF k) (hb : k.eBU = true) {h : Nat} (hh : h < k.nHE) (f : Nat) :
    f ∈ (k.hfsOf h).map eOf ↔ (k.liveF f = true ∧ k.faceHasEdge f (eOf h) = true) := by
  rw [List.mem_map, faceHasEdge_iff]
  constructor
  · rintro ⟨hf, hm, rfl⟩
    obtain ⟨hl, hmem⟩ := (mem_hfsOf_iff hw hb hh hf).mp hm
    refine ⟨hl, ?_⟩
    rcases (mem_hfHes_iff k hf h).mp hmem with ⟨_, m⟩ | ⟨_, m⟩
    · left; exact m
    · right; exact m
  · rintro ⟨hl, hm | hm⟩
    · refine ⟨2 * f, (mem_hfsOf_iff hw hb hh _).mpr ⟨?_, ?_⟩, by unfold eOf; omega⟩
      · rw [show eOf (2 * f) = f by unfold eOf; omega]; exact hl
      · rw [hfHes_two_mul]; exact hm
    · refine ⟨2 * f + 1, (mem_hfsOf_iff hw hb hh _).mpr ⟨?_, ?_⟩, by unfold eOf; omega⟩
      · rw [show eOf (2 * f + 1) = f by unfold eOf; omega]; exact hl
      · rw [hfHes_two_mul_succ, k3_mem_oppFace]; exact hm

/-- **halfedge → faces** is exactly the ascending list of the live faces that use the halfedge's edge -/
theorem qHEF_exact {k : Kernel} (hw : WF k) (hb : k.eBU = true) {h : Nat} (hh : h < k.nHE) :
    k.qHEF h = k.sHEF h := by
  unfold qHEF sHEF sEF qHEHF
  simp only [hb, if_true]
  apply sortUniq_eq_of_mem ((liveFaces_pairwise k).filter _)
  intro f
  rw [mem_faces_of_he hw hb hh, List.mem_filter, mem_liveFaces]

/-- **edge → faces** -/
theorem qEF_exact {k : Kernel} (hw : WF k) (hb : k.eBU = true) {e : Nat} (he : e < k.nE) : k.qEF e = k.sEF e := by
  unfold qEF
  rw [qHEF_exact hw hb (by unfold heOf Kernel.nHE Kernel.nE at *; omega)]
  unfold sHEF heOf; rw [show eOf (2 * e + 0) = e by unfold eOf; omega]

theorem qBoundaryE_exact {k : Kernel} (hw : WF k) (he : k.eBU = true) (hb : k.fBU = true) {e : Nat} (hlt : e < k.nE) :
    k.qBoundaryE e = k.sBoundaryE e := by
  have hh : heOf e 0 < k.nHE := by unfold heOf Kernel.nHE Kernel.nE at *; omega
  unfold qBoundaryE sBoundaryE
  rw [qBoundaryHE_exact hw he hb hh]
  unfold sBoundaryHE sEF
  rw [List.any_filter]
  rw [Bool.eq_iff_iff, List.any_eq_true, List.any_eq_true]
  have key : ∀ f, (((k.hfHes (2 * f)).contains (heOf e 0) || (k.hfHes (2 * f + 1)).contains (heOf e 0)) = true) ↔
      k.faceHasEdge f e = true := by
    intro f
    have : e = eOf (heOf e 0) := by unfold heOf eOf; omega
    conv => rhs; rw [this]
    rw [faceHasEdge_iff, hfHes_two_mul, hfHes_two_mul_succ]
    simp only [Bool.or_eq_true, List.contains_iff_mem, k3_mem_oppFace]
  constructor
  · rintro ⟨f, hf, hp⟩
    simp only [Bool.and_eq_true] at hp
    exact ⟨f, hf, by simp only [Bool.and_eq_true]; exact ⟨(key f).mp hp.1, hp.2⟩⟩
  · rintro ⟨f, hf, hp⟩
    simp only [Bool.and_eq_true] at hp
    exact ⟨f, hf, by simp only [Bool.and_eq_true]; exact ⟨(key f).mpr hp.1, hp.2⟩⟩

/-! ### cell → cells, halfedge → cells -/

/-- the cell cached at a halfface of the mesh, under the invariant and C01's precondition -/
theorem cellOf_eq_some_iff {k : Kernel} (hw : WF k) (h1 : k.oneCell = true) (hb : k.fBU = true) {x : Nat} (hx : x < k.nHF)
    (c : Nat) : k.cellOf x = some c ↔ (k.liveC c = true ∧ x ∈ k.cellAt c) := by
  rw [(hw.cache.f hb).2 x hx]
  exact ⟨sCellOf_some, fun h => sCellOf_of_mem h1 hx h.1 h.2⟩

/-- **cell → cells**: the ascending list of the live cells that contain the opposite of one of the cell's halffaces -/
theorem qCC_exact {k : Kernel} (hw : WF k) (h1 : k.oneCell = true) (hb : k.fBU = true) {c : Nat} (hc : c < k.nC) :
    k.qCC c = k.sCC c := by
  unfold qCC sCC
  simp only [hb, if_true]
  apply sortUniq_eq_of_mem ((liveCells_pairwise k).filter _)
  intro c'
  rw [List.mem_filterMap, List.mem_filter, mem_liveCells, List.any_eq_true]
  have hr : ∀ hf ∈ k.cellAt c, opp hf < k.nHF := fun hf hm => by
    have := hw.range.cells _ (cellAt_mem_cells hc) hf hm
    unfold Kernel.nHF at *; exact (opp_lt_two_mul hf _).mpr this
  constructor
  · rintro ⟨hf, hm, hco⟩
    obtain ⟨hl, hmem⟩ := (cellOf_eq_some_iff hw h1 hb (hr hf hm) c').mp hco
    exact ⟨hl, hf, hm, by simpa using hmem⟩
  · rintro ⟨hl, hf, hm, hmem⟩
    exact ⟨hf, hm, (cellOf_eq_some_iff hw h1 hb (hr hf hm) c').mpr ⟨hl, by simpa using hmem⟩⟩

/-- **halfedge → cells**, as a duplicate-free list in the order of the halfface fan: exactly the live cells with a
    live halfface that contains the halfedge -/
theorem qHEC_exact {k : Kernel} (hw : WF k) (h1 : k.oneCell = true) (he : k.eBU = true) (hb : k.fBU = true)
    {h : Nat} (hh : h < k.nHE) : (k.qHEC h).Perm (k.sHEC h) ∧ (k.qHEC h).Nodup := by
  unfold qHEC sHEC
  simp only [he, hb, Bool.and_self, if_true]
  refine ⟨?_, nodup_dedupKeep _⟩
  rw [List.perm_ext_iff_of_nodup (nodup_dedupKeep _) ((liveCells_nodup k).filter _)]
  intro c
  rw [mem_dedupKeep, List.mem_filterMap, List.mem_filter, mem_liveCells, List.any_eq_true]
  constructor
  · rintro ⟨hf, hm, hco⟩
    obtain ⟨hlf, hmem⟩ := (mem_hfsOf_iff hw he hh hf).mp hm
    have hx : hf < k.nHF := by have := liveF_lt hlf; unfold Kernel.nHF Kernel.nF eOf at *; omega
    obtain ⟨hl, hin⟩ := (cellOf_eq_some_iff hw h1 hb hx c).mp hco
    exact ⟨hl, hf, hin, by simp [hlf, hmem]⟩
  · rintro ⟨hl, hf, hin, hp⟩
    simp only [Bool.and_eq_true, List.contains_iff_mem] at hp
    have hx : hf < k.nHF := hw.range.cells _ (cellAt_mem_cells (liveC_lt hl)) hf hin
    exact ⟨hf, (mem_hfsOf_iff hw he hh hf).mpr hp, (cellOf_eq_some_iff hw h1 hb hx c).mpr ⟨hl, hin⟩⟩

/-! ### vertex → faces (two levels: needs `Closed`) -/

/-- a live face touches `v` iff one of its halfedges, or the opposite of one, is a live halfedge leaving `v` -/
theorem faceTouchesV_iff {k : Kernel} (hw : WF k) (hc : Closed k) {f : Nat} (hl : k.liveF f = true) (v : Nat) :
    k.faceTouchesV f v = true ↔ ∃ h, h ∈ k.sOut v ∧ (h ∈ k.faceAt f ∨ opp h ∈ k.faceAt f) := by
  unfold faceTouchesV
  rw [List.any_eq_true]
  constructor
  · rintro ⟨x, hx, hp⟩
    have hle : k.liveE (eOf x) = true := by
      have hd := hc.e f hl x hx
      have := hw.range.faces _ (faceAt_mem_faces (liveF_lt hl)) x hx
      unfold Kernel.liveE; rw [hd]
      have : eOf x < k.nE := by unfold Kernel.nHE Kernel.nE eOf at *; omega
      simp [this]
    simp only [Bool.or_eq_true, beq_iff_eq] at hp
    rcases hp with hp | hp
    · exact ⟨x, (mem_sOut_iff k v x).mpr ⟨hle, hp⟩, Or.inl hx⟩
    · exact ⟨opp x, (mem_sOut_iff k v _).mpr ⟨by rw [eOf_opp]; exact hle, by rw [Lookup.fromV_opp]; exact hp⟩,
        Or.inr (by rw [opp_opp]; exact hx)⟩
  · rintro ⟨h, hs, hm | hm⟩
    · exact ⟨h, hm, by simp [(mem_sOut hs).1]⟩
    · exact ⟨opp h, hm, by simp [Lookup.toV_opp, (mem_sOut hs).1]⟩

/-- **vertex → faces**: the ascending list of the live faces with a halfedge starting or ending at the vertex -/
theorem qVF_exact {k : Kernel} (hw : WF k) (hc : Closed k) (hv : k.vBU = true) (he : k.eBU = true) (hb : k.fBU = true)
    {v : Nat} (hlt : v < k.nV) : k.qVF v = k.sVF v := by
  unfold qVF sVF fullBU
  simp only [hv, he, hb, Bool.and_self, if_true]
  apply sortUniq_eq_of_mem ((liveFaces_pairwise k).filter _)
  intro f
  rw [List.mem_filter, mem_liveFaces, List.mem_map]
  have hperm := (hw.cache.v hv).2 v hlt
  have hlt' : ∀ h, h ∈ k.sOut v → h < k.nHE := fun h hm => by
    have hl := (mem_sOut hm).2
    unfold Kernel.liveE at hl; simp at hl
    have := hl.1; unfold Kernel.nHE Kernel.nE eOf at *; omega
  constructor
  · rintro ⟨hf, hm, rfl⟩
    rw [List.mem_flatMap] at hm
    obtain ⟨h, hh, hhf⟩ := hm
    have hs := hperm.mem_iff.mp hh
    obtain ⟨hl, hhe⟩ := (mem_faces_of_he hw he (hlt' h hs) (eOf hf)).mp (List.mem_map.mpr ⟨hf, hhf, rfl⟩)
    exact ⟨hl, (faceTouchesV_iff hw hc hl v).mpr ⟨h, hs, (faceHasEdge_iff k _ h).mp hhe⟩⟩
  · rintro ⟨hl, ht⟩
    obtain ⟨h, hs, hm⟩ := (faceTouchesV_iff hw hc hl v).mp ht
    obtain ⟨hf, hhf, e⟩ := List.mem_map.mp ((mem_faces_of_he hw he (hlt' h hs) f).mpr ⟨hl, (faceHasEdge_iff k f h).mpr hm⟩)
    exact ⟨hf, List.mem_flatMap.mpr ⟨h, hperm.mem_iff.mpr hs, hhf⟩, e⟩

end Global
end Kernel
end OVM

import OVM.Refine.CacheSwapEF
/-
  Immediate deletion in FAST mode (`deferred = false ∧ fast = true`): `delete_X_core` is
  "swap the victim with the last slot, unlink it from the caches, pop the last slot"
  (Kernel/Delete.lean; TopologyKernel.cc:936-1340).  Nothing is renumbered, but in fast mode the
  erase stage does NOT repair the definitions one level up, so each core needs "nothing stored one
  level up names the victim" — which its (only) callers establish: the `delete_*` closures and
  `collect_garbage` (OVM/Refine/CacheFastClosure.lean).
  This file: the mode-independent unlink lemmas, the scans after a pop (`sHfsOfHe_pop`, `sOut_pop`),
  the three pop theorems (`wf_unlinkEraseLastFace/Edge`, `wf_eraseLastVertex`) and the three cores
  (`wf_deleteFaceCore_fast`, `wf_deleteEdgeCore_fast`, `wf_deleteVertexCore_fast`).
-/
namespace OVM
namespace Kernel
open ScanDel

/-! ### generic: erasing the last slot -/
theorem k3_getD_eraseIdx_lt {α} (l : List α) (i j : Nat) (d : α) (h : j < i) :
    (l.eraseIdx i).getD j d = l.getD j d := by
  simp only [List.getD_eq_getElem?_getD, List.getElem?_eraseIdx, h, if_true]

theorem k3_liveIdx_pop (n : Nat) (del : List Bool) (hn : 0 < n) :
    (List.range (n - 1)).filter (fun i => !(del.eraseIdx (n - 1)).getD i false) =
      ((List.range n).filter (fun i => !del.getD i false)).filter (· != n - 1) := by
  obtain ⟨m, rfl⟩ : ∃ m, n = m + 1 := ⟨n - 1, by omega⟩
  simp only [Nat.add_sub_cancel]
  rw [List.range_succ, List.filter_append, List.filter_append, List.filter_filter]
  have h2 : (([m].filter (fun i => !del.getD i false)).filter (· != m)) = [] := by
    rw [List.filter_filter]; simp
  rw [h2, List.append_nil]
  apply List.filter_congr
  intro i hi
  have hi' : i < m := List.mem_range.mp hi
  have : i ≠ m := by omega
  rw [k3_getD_eraseIdx_lt _ _ _ _ hi']
  simp [this]

theorem k3_mem_filter_ne_last {l : List Nat} {n x : Nat} (hl : ∀ y ∈ l, y < n) (hx : x ∈ l.filter (· != n - 1)) :
    x < n - 1 := by
  obtain ⟨h1, h2⟩ := List.mem_filter.mp hx
  have := hl x h1
  have h3 : x ≠ n - 1 := by simpa using h2
  omega

/-! ### the unlink stages, independent of the deletion mode -/

/-- `delete_edge_core` step 1: the vertex cache loses exactly the two halfedges of the edge -/
theorem unlinkEdge_outOf {k : Kernel} (h : Nat) (hV : CacheInvV k) (hb' : k.vBU = true) {v : Nat} (hv' : v < k.nV) :
    (k.unlinkEdge h).outOf v = (k.outOf v).filter (fun x => eOf x != h) := by
  obtain ⟨hlen, hperm⟩ := hV hb'
  unfold outOf
  unfold unlinkEdge
  simp only [hb', if_true]
  rw [ScanDel.getD_modify, ScanDel.getD_modify]
  simp only [List.length_modify]
  have hvl : v < k.outHes.length := by rw [hlen]; exact hv'
  have key : ∀ x ∈ k.outHes.getD v [], (x = 2 * h → (k.edgeAt h).1 = v) ∧ (x = 2 * h + 1 → (k.edgeAt h).2 = v) := by
    intro x hx
    have := mem_sOut ((hperm v hv').mem_iff.mp hx)
    constructor
    · intro e; rw [e, fromV_even] at this; exact this.1
    · intro e; rw [e, fromV_odd'] at this; exact this.1
  unfold removeAll heOf
  simp only [Nat.add_zero]
  by_cases ha : (k.edgeAt h).1 = v <;> by_cases hb2 : (k.edgeAt h).2 = v
  · simp only [ha, hb2, hvl, and_self, if_true, List.filter_filter]
    apply List.filter_congr; intro x _
    rw [eOf_bne, Bool.and_comm]
  · simp only [ha, hb2, hvl, and_self, if_true, false_and, if_false]
    apply List.filter_congr; intro x hx
    have e2 : x ≠ 2 * h + 1 := fun e2 => hb2 ((key x hx).2 e2)
    rw [eOf_bne]; simp [e2]
  · simp only [ha, hb2, hvl, and_self, if_true, false_and, if_false]
    apply List.filter_congr; intro x hx
    have e1 : x ≠ 2 * h := fun e1 => ha ((key x hx).1 e1)
    rw [eOf_bne]; simp [e1]
  · simp only [ha, hb2, false_and, if_false]
    symm; apply List.filter_eq_self.mpr; intro x hx
    have e1 : x ≠ 2 * h := fun e1 => ha ((key x hx).1 e1)
    have e2 : x ≠ 2 * h + 1 := fun e2 => hb2 ((key x hx).2 e2)
    rw [eOf_bne]; simp [e1, e2]

/-- `delete_face_core` step 1: every slot of the edge cache loses exactly the two halffaces of the face
    (and may be re-ordered) -/
theorem unlinkFace_hfsOf_perm {k : Kernel} (h : Nat) (hE : CacheInvE k) (hb' : k.eBU = true) {y : Nat}
    (hy : y < k.nHE) : ((k.unlinkFace h).hfsOf y).Perm ((k.hfsOf y).filter (fun x => eOf x != h)) := by
  obtain ⟨hlen, hs⟩ := hE hb'
  have hsub0 : SlotSub h k k := fun y => ⟨fun _ => true, fun _ _ => rfl, by
    rw [List.filter_eq_self.mpr (fun _ _ => rfl)]⟩
  have hfold := unlinkFace_fold h k (k.faceAt h) k (slotMirror_of_cacheInvE hE hb') hsub0
  have hunl : k.unlinkFace h = (k.faceAt h).foldl (unlinkFaceStep h) k := by unfold unlinkFace; simp [hb']
  rw [← hunl] at hfold
  obtain ⟨_, hsub, hgone, _⟩ := hfold
  obtain ⟨P, hP, hperm⟩ := hsub y
  have hPeq : (k.hfsOf y).filter P = (k.hfsOf y).filter (fun x => eOf x != h) := by
    apply List.filter_congr
    intro x hx
    by_cases hxe : eOf x = h
    · have hr : (eOf x != h) = false := by simp [hxe]
      rw [hr]
      cases hPx : P x with
      | false => rfl
      | true =>
        exfalso
        have hxm : x ∈ (k.unlinkFace h).hfsOf y := hperm.mem_iff.mpr (List.mem_filter.mpr ⟨hx, hPx⟩)
        have hyx : y ∈ k.hfHes x := ((mem_sHfsOfHe k y x).mp ((hs y hy).mem_iff.mp hx)).2
        have hcase : x = 2 * h ∨ x = 2 * h + 1 := by unfold eOf at hxe; omega
        rcases hcase with e | e
        · subst e
          rw [hfHes_two_mul] at hyx
          exact (hgone y hyx).1 hxm
        · subst e
          rw [hfHes_two_mul_succ] at hyx
          unfold oppFace at hyx
          simp only [List.mem_map, List.mem_reverse] at hyx
          obtain ⟨he, hhe, rfl⟩ := hyx
          exact (hgone he hhe).2 hxm
    · have hr : (eOf x != h) = true := by simp [hxe]
      rw [hr]; exact hP x hxe
  rw [hPeq] at hperm
  exact hperm

/-! ### the scans after the last face / edge slot is erased -/
theorem sHfsOfHe_pop {k k' : Kernel} (hpos : 0 < k.nF) (hf : k'.faces = k.faces.eraseIdx (k.nF - 1))
    (hd : k'.fDel = k.fDel.eraseIdx (k.nF - 1)) (y : Nat) :
    k'.sHfsOfHe y = (k.sHfsOfHe y).filter (fun x => eOf x != k.nF - 1) := by
  rw [sHfsOfHe_eq, sHfsOfHe_eq]
  have hn : k'.nF = k.nF - 1 := by unfold nF at *; rw [hf, List.length_eraseIdx]; split <;> omega
  have h1 : k'.liveFaces = k.liveFaces.filter (· != k.nF - 1) := by
    unfold liveFaces fDeleted
    rw [hn, hd]; exact k3_liveIdx_pop k.nF k.fDel hpos
  rw [h1]
  refine Eq.trans ?_ (filter_flatMap_key k.liveFaces (k.hfBlock y) eOf (· != k.nF - 1) (hfBlock_eOf k y)).symm
  apply k3_flatMap_congr
  intro f hf'
  have hlt : f < k.nF - 1 := k3_mem_filter_ne_last (fun y hy => by
    unfold liveFaces at hy; exact List.mem_range.mp (List.mem_filter.mp hy).1) hf'
  unfold hfBlock hfHes faceAt eOf side
  rw [hf]
  have e1 : 2 * f / 2 = f := by omega
  have e2 : (2 * f + 1) / 2 = f := by omega
  rw [e1, e2, k3_getD_eraseIdx_lt _ _ _ _ hlt]

theorem sOut_pop {k k' : Kernel} (hpos : 0 < k.nE) (he : k'.edges = k.edges.eraseIdx (k.nE - 1))
    (hd : k'.eDel = k.eDel.eraseIdx (k.nE - 1)) (v : Nat) :
    k'.sOut v = (k.sOut v).filter (fun x => eOf x != k.nE - 1) := by
  rw [sOut_eq, sOut_eq]
  have hn : k'.nE = k.nE - 1 := by unfold nE at *; rw [he, List.length_eraseIdx]; split <;> omega
  have h1 : k'.liveEdges = k.liveEdges.filter (· != k.nE - 1) := by
    unfold liveEdges eDeleted
    rw [hn, hd]; exact k3_liveIdx_pop k.nE k.eDel hpos
  rw [h1]
  refine Eq.trans ?_ (filter_flatMap_key k.liveEdges (k.outBlock v) eOf (· != k.nE - 1) (outBlock_eOf k v)).symm
  apply k3_flatMap_congr
  intro e he'
  have hlt : e < k.nE - 1 := k3_mem_filter_ne_last (fun y hy => by
    unfold liveEdges at hy; exact List.mem_range.mp (List.mem_filter.mp hy).1) he'
  have hedge : k'.edgeAt e = k.edgeAt e := by
    unfold edgeAt; rw [he, k3_getD_eraseIdx_lt _ _ _ _ hlt]
  unfold outBlock
  apply List.filter_congr
  intro h hh
  simp only [List.mem_cons, List.not_mem_nil, or_false] at hh
  rcases hh with rfl | rfl
  · rw [fromV_even, fromV_even, hedge]
  · rw [fromV_odd', fromV_odd', hedge]

/-! ### fast mode: the erase stages pop the last slot and renumber nothing -/
theorem eraseFace_cells_fast (k : Kernel) (h : Nat) (hf : k.fast = true) : (k.eraseFace h).cells = k.cells := by
  unfold eraseFace; simp [hf]
theorem eraseFace_incHfs_fast (k : Kernel) (h : Nat) (hf : k.fast = true) : (k.eraseFace h).incHfs = k.incHfs := by
  unfold eraseFace; simp [hf]
theorem eraseFace_incCell_on (k : Kernel) (h : Nat) (hb : k.fBU = true) :
    (k.eraseFace h).incCell = (k.incCell.eraseIdx (2 * h + 1)).eraseIdx (2 * h) := by
  unfold eraseFace heOf; simp [hb]
theorem eraseEdge_faces_fast (k : Kernel) (h : Nat) (hf : k.fast = true) : (k.eraseEdge h).faces = k.faces := by
  unfold eraseEdge; simp [hf]
theorem eraseEdge_outHes_fast (k : Kernel) (h : Nat) (hf : k.fast = true) : (k.eraseEdge h).outHes = k.outHes := by
  unfold eraseEdge; simp [hf]
theorem eraseEdge_incHfs_on (k : Kernel) (h : Nat) (hb : k.eBU = true) :
    (k.eraseEdge h).incHfs = (k.incHfs.eraseIdx (2 * h + 1)).eraseIdx (2 * h) := by
  unfold eraseEdge heOf; simp [hb]

/-- unlink + pop of the LAST face (the second half of fast immediate `delete_face_core`).
    `hno`: no stored cell uses the face.  In fast mode `delete_face_core` does not touch the cell
    definitions (cc:1258 `if (!fast_deletion_enabled())`), so a cell still naming the face would be
    left with a dangling halfface handle; the callers (`delete_face`, `delete_edge`, `delete_vertex`,
    `collect_garbage`) remove every incident cell first, and `delete_face_core` is private. -/
theorem wf_unlinkEraseLastFace {k : Kernel} (hfast : k.fast = true) (hpos : 0 < k.nF) (hw : WF k)
    (hno : ∀ c ∈ k.cells, ∀ x ∈ c, x / 2 ≠ k.nF - 1) :
    WF ((k.unlinkFace (k.nF - 1)).eraseFace (k.nF - 1)) := by
  have hufast : (k.unlinkFace (k.nF - 1)).fast = true := by simpa using hfast
  have hcells : ((k.unlinkFace (k.nF - 1)).eraseFace (k.nF - 1)).cells = k.cells := by
    rw [eraseFace_cells_fast _ _ hufast]; simp
  have hnF : ((k.unlinkFace (k.nF - 1)).eraseFace (k.nF - 1)).nF = k.nF - 1 := by
    unfold nF at *; simp only [eraseFace_faces, unlinkFace_faces, List.length_eraseIdx]; split <;> omega
  have hnHF : ((k.unlinkFace (k.nF - 1)).eraseFace (k.nF - 1)).nHF = 2 * (k.nF - 1) := by
    have := hnF; unfold nHF nF at *; omega
  refine ⟨lenInv_eraseFace _ _ (lenInv_unlinkFace _ _ hw.len), ?_, ⟨?_, ?_, ?_⟩⟩
  · constructor
    · simpa using hw.range.edges
    · intro f hf
      simp only [eraseFace_faces, unlinkFace_faces] at hf
      have := hw.range.faces f (List.mem_of_mem_eraseIdx hf)
      unfold nHE at *; simpa using this
    · intro c hc x hx
      rw [hcells] at hc
      rw [hnHF]
      have h1 := hw.range.cells c hc x hx
      have h2 := hno c hc x hx
      unfold nHF nF at *; omega
  · exact cacheInvV_of_eq (by simp) (by simp) (by simp) (by simp) (by simp) hw.cache.v
  · -- CacheInvE: the slots lose the halffaces of the face, the scan loses the face
    intro hb
    have hb' : k.eBU = true := by simpa using hb
    obtain ⟨hlen, hs⟩ := hw.cache.e hb'
    have hn : ((k.unlinkFace (k.nF - 1)).eraseFace (k.nF - 1)).nHE = k.nHE := by unfold nHE; simp
    refine ⟨(lenInv_eraseFace _ _ (lenInv_unlinkFace _ _ hw.len)).incHfs hb, fun y hy => ?_⟩
    rw [hn] at hy
    rw [sHfsOfHe_pop (k := k) hpos (by simp) (by simp)]
    have : ((k.unlinkFace (k.nF - 1)).eraseFace (k.nF - 1)).hfsOf y = (k.unlinkFace (k.nF - 1)).hfsOf y := by
      unfold hfsOf; rw [eraseFace_incHfs_fast _ _ hufast]
    rw [this]
    exact (unlinkFace_hfsOf_perm _ hw.cache.e hb' hy).trans ((hs y hy).filter _)
  · -- CacheInvF: the two last slots go, nothing else moves
    intro hb
    have hb' : k.fBU = true := by simpa using hb
    obtain ⟨hlen, hs⟩ := hw.cache.f hb'
    refine ⟨(lenInv_eraseFace _ _ (lenInv_unlinkFace _ _ hw.len)).incCell hb, fun x hx => ?_⟩
    rw [hnHF] at hx
    have hx' : x < k.nHF := by unfold nHF nF at *; omega
    rw [sCellOf_of_eq (k := k) hcells (by simp)]
    have : ((k.unlinkFace (k.nF - 1)).eraseFace (k.nF - 1)).cellOf x = k.cellOf x := by
      unfold cellOf
      rw [eraseFace_incCell_on _ _ (by simpa using hb'), unlinkFace_incCell,
        k3_getD_eraseIdx_lt _ _ _ _ hx, k3_getD_eraseIdx_lt _ _ _ _ (by omega)]
    rw [this]
    exact hs x hx'

/-- unlink + pop of the LAST edge (the second half of fast immediate `delete_edge_core`).
    `hno`: no stored face uses the edge — in fast mode `delete_edge_core` leaves the face
    definitions alone (cc:1103 `if (!fast_deletion_enabled())`); its callers delete the incident faces
    first and the function is private. -/
theorem wf_unlinkEraseLastEdge {k : Kernel} (hfast : k.fast = true) (hpos : 0 < k.nE) (hw : WF k)
    (hno : ∀ f ∈ k.faces, ∀ x ∈ f, x / 2 ≠ k.nE - 1) :
    WF ((k.unlinkEdge (k.nE - 1)).eraseEdge (k.nE - 1)) := by
  have hufast : (k.unlinkEdge (k.nE - 1)).fast = true := by simpa using hfast
  have hfaces : ((k.unlinkEdge (k.nE - 1)).eraseEdge (k.nE - 1)).faces = k.faces := by
    rw [eraseEdge_faces_fast _ _ hufast]; simp
  have hnE : ((k.unlinkEdge (k.nE - 1)).eraseEdge (k.nE - 1)).nE = k.nE - 1 := by
    unfold nE at *; simp only [eraseEdge_edges, unlinkEdge_edges, List.length_eraseIdx]; split <;> omega
  have hnHE : ((k.unlinkEdge (k.nE - 1)).eraseEdge (k.nE - 1)).nHE = 2 * (k.nE - 1) := by
    have := hnE; unfold nHE nE at *; omega
  refine ⟨lenInv_eraseEdge _ _ (lenInv_unlinkEdge _ _ hw.len), ?_, ⟨?_, ?_, ?_⟩⟩
  · constructor
    · intro e he
      simp only [eraseEdge_edges, unlinkEdge_edges, eraseEdge_nV, unlinkEdge_nV] at he ⊢
      exact hw.range.edges e (List.mem_of_mem_eraseIdx he)
    · intro f hf x hx
      rw [hfaces] at hf
      rw [hnHE]
      have h1 := hw.range.faces f hf x hx
      have h2 := hno f hf x hx
      unfold nHE nE at *; omega
    · unfold nHF; rw [hfaces]; simpa [nHF] using hw.range.cells
  · -- CacheInvV: the slots of the two endpoints lose the halfedges, the scan loses the edge
    intro hb
    have hb' : k.vBU = true := by simpa using hb
    obtain ⟨hlen, hs⟩ := hw.cache.v hb'
    refine ⟨(lenInv_eraseEdge _ _ (lenInv_unlinkEdge _ _ hw.len)).outHes hb, fun v hv => ?_⟩
    have hv' : v < k.nV := by simpa using hv
    rw [sOut_pop (k := k) hpos (by simp) (by simp)]
    have : ((k.unlinkEdge (k.nE - 1)).eraseEdge (k.nE - 1)).outOf v = (k.unlinkEdge (k.nE - 1)).outOf v := by
      unfold outOf; rw [eraseEdge_outHes_fast _ _ hufast]
    rw [this, unlinkEdge_outOf _ hw.cache.v hb' hv']
    exact (hs v hv').filter _
  · -- CacheInvE: the two last slots go
    intro hb
    have hb' : k.eBU = true := by simpa using hb
    obtain ⟨hlen, hs⟩ := hw.cache.e hb'
    refine ⟨(lenInv_eraseEdge _ _ (lenInv_unlinkEdge _ _ hw.len)).incHfs hb, fun y hy => ?_⟩
    rw [hnHE] at hy
    have hy' : y < k.nHE := by unfold nHE nE at *; omega
    rw [sHfsOfHe_of_eq (k := k) hfaces (by simp)]
    have : ((k.unlinkEdge (k.nE - 1)).eraseEdge (k.nE - 1)).hfsOf y = k.hfsOf y := by
      unfold hfsOf
      rw [eraseEdge_incHfs_on _ _ (by simpa using hb'), unlinkEdge_incHfs,
        k3_getD_eraseIdx_lt _ _ _ _ hy, k3_getD_eraseIdx_lt _ _ _ _ (by omega)]
    rw [this]
    exact hs y hy'
  · exact cacheInvF_of_eq (by simp) (by simp) (by rw [hfaces]) (by simp) (by simp) hw.cache.f

theorem k3_modify_id {α} (g : α → α) (l : List α) (i : Nat) (h : ∀ x ∈ l, g x = x) : l.modify i g = l := by
  apply List.ext_getElem?
  intro j
  rw [List.getElem?_modify]
  cases hj : l[j]? with
  | none => simp
  | some x => simp [h x (List.mem_of_getElem? hj)]

theorem k3_foldl_modify_id {α β} (g : β → α → α) (idx : β → Nat) (L : List β) (l : List α)
    (h : ∀ b, ∀ x ∈ l, g b x = x) : L.foldl (fun m b => m.modify (idx b) (g b)) l = l := by
  induction L with
  | nil => rfl
  | cons a t ih => simp only [List.foldl_cons]; rw [k3_modify_id _ _ _ (h a)]; exact ih

theorem k3_fromV_mem (k : Kernel) (x : Nat) : k.fromV x = (k.edgeAt (eOf x)).1 ∨ k.fromV x = (k.edgeAt (eOf x)).2 := by
  unfold fromV halfedge; simp only []; split
  · exact Or.inl rfl
  · exact Or.inr rfl

/-- no stored edge has `v` as an endpoint: nothing leaves `v` -/
theorem k3_sOut_nil_of_unused {k : Kernel} {v : Nat} (hno : ∀ e ∈ k.edges, e.1 ≠ v ∧ e.2 ≠ v) : k.sOut v = [] := by
  rw [List.eq_nil_iff_forall_not_mem]
  intro x hx
  obtain ⟨hl, hf⟩ := (mem_sOut_iff k v x).mp hx
  have hlt : eOf x < k.nE := by unfold liveE at hl; simp at hl; exact hl.1
  have hm : k.edgeAt (eOf x) ∈ k.edges := by
    unfold edgeAt nE at *; rw [List.getD_eq_getElem?_getD, List.getElem?_eq_getElem hlt]; simp
  have := hno _ hm
  rcases k3_fromV_mem k x with e | e
  · exact this.1 (e ▸ hf)
  · exact this.2 (e ▸ hf)

/-- in fast immediate mode the vertex erase stage leaves the edge definitions alone when the
    popped (last) vertex is unused -/
theorem eraseLastVertex_edges {k : Kernel} (hpos : 0 < k.nV) (hw : WF k)
    (hno : ∀ e ∈ k.edges, e.1 ≠ k.nV - 1 ∧ e.2 ≠ k.nV - 1) : (k.eraseVertex (k.nV - 1)).edges = k.edges := by
  unfold eraseVertex
  simp only []
  split
  · rename_i hb
    have hout : k.outOf (k.nV - 1) = [] := by
      have := (hw.cache.v hb).2 (k.nV - 1) (by omega)
      rw [k3_sOut_nil_of_unused hno] at this
      exact List.Perm.eq_nil this
    unfold shiftVertsBU
    have : k.nV - (k.nV - 1) = 1 := by omega
    rw [this]
    simp [hout]
  · apply k3_foldl_modify_id (fun _ p => (corr1 (k.nV - 1) p.1, corr1 (k.nV - 1) p.2)) id
    intro _ e he
    have := hw.range.edges e he
    unfold corr1
    have h1 : ¬ e.1 > k.nV - 1 := by omega
    have h2 : ¬ e.2 > k.nV - 1 := by omega
    simp [h1, h2]

/-- pop of the LAST vertex (the second half of fast immediate `delete_vertex_core`).
    `hno`: no stored edge has the vertex as an endpoint.  Otherwise cc:965-978 renames that endpoint to
    `n_vertices-2` (the loop "decrease all handles ≥ h" starts at `h` itself) or, without vertex
    incidences, leaves it dangling; the callers delete the incident edges first, the function is private. -/
theorem wf_eraseLastVertex {k : Kernel} (hpos : 0 < k.nV) (hw : WF k)
    (hno : ∀ e ∈ k.edges, e.1 ≠ k.nV - 1 ∧ e.2 ≠ k.nV - 1) : WF (k.eraseVertex (k.nV - 1)) := by
  have hedges := eraseLastVertex_edges hpos hw hno
  refine ⟨lenInv_eraseVertex _ _ hw.len (by omega), ?_, ⟨?_, ?_, ?_⟩⟩
  · constructor
    · intro e he
      rw [hedges] at he
      have h1 := hw.range.edges e he
      have h2 := hno e he
      simp only [eraseVertex_nV]; omega
    · unfold nHE; rw [hedges]; simpa [nHE] using hw.range.faces
    · simpa [nHF] using hw.range.cells
  · intro hb
    have hb' : k.vBU = true := by simpa using hb
    obtain ⟨hlen, hs⟩ := hw.cache.v hb'
    refine ⟨(lenInv_eraseVertex _ _ hw.len (by omega)).outHes hb, fun v hv => ?_⟩
    have hv' : v < k.nV - 1 := by simpa using hv
    rw [sOut_of_eq (k := k) hedges (by simp)]
    have : (k.eraseVertex (k.nV - 1)).outOf v = k.outOf v := by
      unfold outOf eraseVertex; simp only [hb', if_true]; exact k3_getD_eraseIdx_lt _ _ _ _ hv'
    rw [this]
    exact hs v (by omega)
  · exact cacheInvE_of_eq (by simp) (by simp) (by rw [hedges]) (by simp) (by simp) hw.cache.e
  · exact cacheInvF_of_eq (by simp) (by simp) (by simp) (by simp) (by simp) hw.cache.f

/-! ### no deletion flags: the state of a mesh in immediate mode (between operations) -/
/-- no slot of a flag array is set -/
def NoFlag (l : List Bool) : Prop := ∀ b ∈ l, b = false

theorem NoFlag.getD {l : List Bool} (h : NoFlag l) (i : Nat) : l.getD i false = false := by
  rw [List.getD_eq_getElem?_getD]
  cases hi : l[i]? with
  | none => rfl
  | some b => exact h b (List.mem_of_getElem? hi)

theorem NoFlag.swapAt {l : List Bool} (h : NoFlag l) (a b : Nat) : NoFlag (swapAt l a b) := by
  intro x hx
  by_cases ha : a < l.length
  · by_cases hb : b < l.length
    · exact h x ((mem_swapAt l a b x ha hb).mp hx)
    · have : l[b]? = none := List.getElem?_eq_none (by omega)
      unfold OVM.swapAt at hx; rw [this] at hx
      split at hx <;> first | exact h x hx | simp_all
  · have : l[a]? = none := List.getElem?_eq_none (by omega)
    unfold OVM.swapAt at hx; rw [this] at hx
    exact h x hx

theorem NoFlag.eraseIdx {l : List Bool} (h : NoFlag l) (i : Nat) : NoFlag (l.eraseIdx i) :=
  fun x hx => h x (List.mem_of_mem_eraseIdx hx)

/-! ### after swapping the victim to the last slot nothing one level up names the last slot -/

theorem k3_mem_getD {α} {l : List α} {x : α} (d : α) (h : x ∈ l) : ∃ i, i < l.length ∧ l.getD i d = x := by
  obtain ⟨i, hi, rfl⟩ := List.getElem_of_mem h
  exact ⟨i, hi, by rw [List.getD_eq_getElem?_getD, List.getElem?_eq_getElem hi]; rfl⟩

theorem k3_relabelHalf_parent_ne {a b x : Nat} (h : relabelHalf a b x / 2 ≠ a) : x / 2 ≠ b := by
  intro e
  rw [k3_relabelHalf_div, e] at h
  unfold relabelId at h
  by_cases hab : b = a <;> simp_all

theorem swapFace_unused {k : Kernel} {a b : Nat} (ha : a < k.nF) (hb : b < k.nF) (hF : CacheInvF k)
    (h1 : k.fBU = true → k.oneCell = true) (hlive : k.fBU = true → NoFlag k.cDel)
    (hno : ∀ c ∈ k.cells, ∀ x ∈ c, x / 2 ≠ a) : ∀ c ∈ (k.swapFace a b).cells, ∀ x ∈ c, x / 2 ≠ b := by
  by_cases hab : a = b
  · subst hab; simpa [swapFace] using hno
  intro c hc x hx
  obtain ⟨i, hi, rfl⟩ := k3_mem_getD [] hc
  rw [swapFace_cells_length] at hi
  have hlc : k.fBU = true → k.liveC i = true := by
    intro hbu; unfold liveC cDeleted nC; rw [(hlive hbu).getD i]; simp [hi]
  have hrel := swapFace_cellAt_live hab ha hb hF h1 hlc
  unfold cellAt at hrel
  rw [hrel, k3_mem_map_relabelHalf] at hx
  have hm : k.cells.getD i [] ∈ k.cells := cellAt_mem_cells (k := k) hi
  exact k3_relabelHalf_parent_ne (hno _ hm _ hx)

theorem swapEdge_unused {k : Kernel} {a b : Nat} (ha : a < k.nE) (hb : b < k.nE) (hE : CacheInvE k)
    (hlive : k.eBU = true → NoFlag k.fDel)
    (hno : ∀ f ∈ k.faces, ∀ x ∈ f, x / 2 ≠ a) : ∀ f ∈ (k.swapEdge a b).faces, ∀ x ∈ f, x / 2 ≠ b := by
  by_cases hab : a = b
  · subst hab; simpa [swapEdge] using hno
  intro f hf x hx
  obtain ⟨i, hi, rfl⟩ := k3_mem_getD [] hf
  rw [swapEdge_faces_length] at hi
  have hlf : k.eBU = true → k.liveF i = true := by
    intro hbu; unfold liveF fDeleted nF; rw [(hlive hbu).getD i]; simp [hi]
  have hrel := swapEdge_faceAt_live hab ha hb hE hlf
  unfold faceAt at hrel
  rw [hrel, k3_mem_map_relabelHalf] at hx
  have hm : k.faces.getD i [] ∈ k.faces := faceAt_mem_faces (k := k) hi
  exact k3_relabelHalf_parent_ne (hno _ hm _ hx)

/-- **live edges are relabelled exactly** by `swap_vertex_indices` (extracted from `wf_swapVertex`):
    visited through the exact vertex cache, or neither endpoint is one of the two vertices -/
theorem swapVertex_edgeAt_live {k : Kernel} {a b : Nat} (hab : a ≠ b) (ha : a < k.nV) (hb : b < k.nV)
    (hV : CacheInvV k) {e : Nat} (helt : e < k.edges.length) (hlive : k.vBU = true → k.liveE e = true) :
    (k.swapVertex a b).edgeAt e = relabelEdgeV a b (k.edgeAt e) := by
  have hne : (a == b) = false := by simp [hab]
  by_cases hbu' : k.vBU = true
  · obtain ⟨hlen, hperm⟩ := hV hbu'
    have hlive := hlive hbu'
    unfold edgeAt swapVertex
    simp only [hne, Bool.false_eq_true, if_false, hbu', if_true]
    rw [List.getD_eq_getElem?_getD, foldl_modify_getElem? _ _ (nodup_dedupKeep _),
      List.getD_eq_getElem?_getD, List.getElem?_eq_getElem helt]
    split
    · rfl
    · rename_i hnm
      simp only [mem_dedupKeep, List.mem_map, List.mem_append, not_exists, not_and] at hnm
      have h2e : k.fromV (2 * e) = (k.edges[e]).1 := by
        rw [fromV_even]; unfold edgeAt; rw [List.getD_eq_getElem?_getD, List.getElem?_eq_getElem helt]; rfl
      have h2e1 : k.fromV (2 * e + 1) = (k.edges[e]).2 := by
        rw [fromV_odd']; unfold edgeAt; rw [List.getD_eq_getElem?_getD, List.getElem?_eq_getElem helt]; rfl
      have hl0 : k.liveE (eOf (2 * e)) = true := by unfold eOf; rw [show 2 * e / 2 = e by omega]; exact hlive
      have hl1 : k.liveE (eOf (2 * e + 1)) = true := by unfold eOf; rw [show (2 * e + 1) / 2 = e by omega]; exact hlive
      have key : ∀ w, w = a ∨ w = b → (k.edges[e]).1 ≠ w ∧ (k.edges[e]).2 ≠ w := by
        intro w hw'
        have hwlt : w < k.nV := by rcases hw' with rfl | rfl <;> assumption
        constructor
        · intro e1
          have : 2 * e ∈ k.outOf w := (hperm w hwlt).mem_iff.mpr ((mem_sOut_iff k w _).mpr ⟨hl0, by rw [h2e, e1]⟩)
          rcases hw' with rfl | rfl
          · exact hnm (2 * e) (Or.inl this) (by omega)
          · exact hnm (2 * e) (Or.inr this) (by omega)
        · intro e1
          have : 2 * e + 1 ∈ k.outOf w := (hperm w hwlt).mem_iff.mpr ((mem_sOut_iff k w _).mpr ⟨hl1, by rw [h2e1, e1]⟩)
          rcases hw' with rfl | rfl
          · exact hnm (2 * e + 1) (Or.inl this) (by omega)
          · exact hnm (2 * e + 1) (Or.inr this) (by omega)
      have k1 := key a (Or.inl rfl)
      have k2 := key b (Or.inr rfl)
      simp [relabelEdgeV, relabelId, k1.1, k1.2, k2.1, k2.2]
  · unfold edgeAt swapVertex
    simp only [hne, Bool.false_eq_true, if_false, hbu']
    simp [List.getD_eq_getElem?_getD, List.getElem?_eq_getElem helt]

theorem k3_relabelId_ne {a b x : Nat} (hab : a ≠ b) (h : x ≠ a) : relabelId a b x ≠ b := by
  unfold relabelId
  simp only [beq_iff_eq, h, if_false]
  split
  · exact hab
  · assumption

theorem swapVertex_unused {k : Kernel} {a b : Nat} (ha : a < k.nV) (hb : b < k.nV) (hV : CacheInvV k)
    (hlive : k.vBU = true → NoFlag k.eDel)
    (hno : ∀ e ∈ k.edges, e.1 ≠ a ∧ e.2 ≠ a) : ∀ e ∈ (k.swapVertex a b).edges, e.1 ≠ b ∧ e.2 ≠ b := by
  by_cases hab : a = b
  · subst hab; simpa [swapVertex] using hno
  intro e he
  obtain ⟨i, hi, rfl⟩ := k3_mem_getD (0, 0) he
  rw [swapVertex_edges_length] at hi
  have hle : k.vBU = true → k.liveE i = true := by
    intro hbu; unfold liveE eDeleted nE; rw [(hlive hbu).getD i]; simp [hi]
  have hrel := swapVertex_edgeAt_live hab ha hb hV hi hle
  unfold edgeAt at hrel
  rw [hrel]
  have hm : k.edges.getD i (0, 0) ∈ k.edges := by
    rw [List.getD_eq_getElem?_getD, List.getElem?_eq_getElem hi]; simp
  have := hno _ hm
  exact ⟨k3_relabelId_ne hab this.1, k3_relabelId_ne hab this.2⟩

/-! ### immediate deletion in fast mode: swap with the last slot, unlink, pop -/
theorem deleteFaceCore_fast_eq {k : Kernel} (h : Nat) (hd : k.deferred = false) (hf : k.fast = true) :
    k.deleteFaceCore h = ((k.swapFace h (k.nF - 1)).unlinkFace (k.nF - 1)).eraseFace (k.nF - 1) := by
  unfold deleteFaceCore; simp [hd, hf]
theorem deleteEdgeCore_fast_eq {k : Kernel} (h : Nat) (hd : k.deferred = false) (hf : k.fast = true) :
    k.deleteEdgeCore h = ((k.swapEdge h (k.nE - 1)).unlinkEdge (k.nE - 1)).eraseEdge (k.nE - 1) := by
  unfold deleteEdgeCore; simp [hd, hf]
theorem deleteVertexCore_fast_eq {k : Kernel} (h : Nat) (hd : k.deferred = false) (hf : k.fast = true) :
    k.deleteVertexCore h = (k.swapVertex h (k.nV - 1)).eraseVertex (k.nV - 1) := by
  unfold deleteVertexCore; simp [hd, hf]

/-- **immediate `delete_face_core` in fast mode keeps `WF`**.  `h < n_faces` is the assertion at
    cc:1209.  `hno` (no stored cell uses the face) and `hlive` (no flagged cell, needed only when the
    face cache guides the swap: a flagged cell is invisible to it and would keep the name of the last
    face) hold at every call site: the function is private, `delete_face/edge/vertex` delete the
    incident cells first, `collect_garbage` sweeps all flagged cells before the first face, and
    outside `collect_garbage` immediate mode has no flagged entities. -/
theorem wf_deleteFaceCore_fast {k : Kernel} (h : Nat) (hd : k.deferred = false) (hf : k.fast = true)
    (hh : h < k.nF) (hw : WF k) (h1 : k.fBU = true → k.oneCell = true) (hlive : k.fBU = true → NoFlag k.cDel)
    (hno : ∀ c ∈ k.cells, ∀ x ∈ c, x / 2 ≠ h) : WF (k.deleteFaceCore h) := by
  rw [deleteFaceCore_fast_eq h hd hf]
  have hlast : k.nF - 1 < k.nF := by omega
  have hw1 := wf_swapFace' hh hlast hw h1
  have hn : (k.swapFace h (k.nF - 1)).nF = k.nF := swapFace_faces_length k _ _
  have hno1 := swapFace_unused hh hlast hw.cache.f h1 hlive hno
  have := wf_unlinkEraseLastFace (k := k.swapFace h (k.nF - 1)) (by simpa using hf) (by rw [hn]; omega) hw1
    (by rw [hn]; exact hno1)
  rw [hn] at this
  exact this

/-- **immediate `delete_edge_core` in fast mode keeps `WF`** (`h < n_edges`: cc:1045; `hno`, `hlive`
    as for faces, one level down) -/
theorem wf_deleteEdgeCore_fast {k : Kernel} (h : Nat) (hd : k.deferred = false) (hf : k.fast = true)
    (hh : h < k.nE) (hw : WF k) (hlive : k.eBU = true → NoFlag k.fDel)
    (hno : ∀ f ∈ k.faces, ∀ x ∈ f, x / 2 ≠ h) : WF (k.deleteEdgeCore h) := by
  rw [deleteEdgeCore_fast_eq h hd hf]
  have hlast : k.nE - 1 < k.nE := by omega
  have hw1 := wf_swapEdge hh hlast hw
  have hn : (k.swapEdge h (k.nE - 1)).nE = k.nE := swapEdge_edges_length k _ _
  have hno1 := swapEdge_unused hh hlast hw.cache.e hlive hno
  have := wf_unlinkEraseLastEdge (k := k.swapEdge h (k.nE - 1)) (by simpa using hf) (by rw [hn]; omega) hw1
    (by rw [hn]; exact hno1)
  rw [hn] at this
  exact this

/-- **immediate `delete_vertex_core` in fast mode keeps `WF`** (`h < n_vertices`: cc:939; `hno`: no
    stored edge has the vertex as an endpoint) -/
theorem wf_deleteVertexCore_fast {k : Kernel} (h : Nat) (hd : k.deferred = false) (hf : k.fast = true)
    (hh : h < k.nV) (hw : WF k) (hlive : k.vBU = true → NoFlag k.eDel)
    (hno : ∀ e ∈ k.edges, e.1 ≠ h ∧ e.2 ≠ h) : WF (k.deleteVertexCore h) := by
  rw [deleteVertexCore_fast_eq h hd hf]
  have hlast : k.nV - 1 < k.nV := by omega
  have hw1 := wf_swapVertex hh hlast hw
  have hno1 := swapVertex_unused hh hlast hw.cache.v hlive hno
  have := wf_eraseLastVertex (k := k.swapVertex h (k.nV - 1)) (by simp; omega) hw1 (by simpa using hno1)
  simpa using this

end Kernel
end OVM

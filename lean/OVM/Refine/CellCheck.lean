import OVM.Kernel.Add
import OVM.Base.ListLemmas
import OVM.Base.Bits
/-
  `add_cell`'s topology check (TopologyKernel.cc:398-434, model `Kernel.cellCheck`) against its
  specification, the closed-surface predicate `ClosedSurface`.

  The C++ collects every halfedge of the given halffaces into one vector `H`, sorts it, rejects if
  two neighbours are equal (`adjacent_find`), then counts the classes of neighbours with equal
  `idx/2` (`std::unique` by edge) and requires `|H| = 2 * #classes`.  Shown here:
  * `sortL` is a permutation and ascending; on an ascending list "two equal neighbours" is
    "not duplicate-free" (`adjDup_false_iff_nodup`);
  * on a strictly ascending list every edge class has one or two members, so `|s| ≤ 2 * #classes`
    with equality exactly when `s` is closed under `opp` (`length_eq_two_uniq_iff`, the pigeonhole
    step);
  * together: `cellCheck k hfs = true ↔ ClosedSurface k hfs` for every state and list
    (`cellCheck_iff`).  Core only; nothing here depends on the cache lemma files.
-/
namespace OVM
namespace Kernel

/-- the halffaces `hfs` form a closed surface in which every halfedge is matched exactly once by
    its opposite: no halfedge is used twice by the halffaces (in particular no halfface occurs
    twice and no face contributes a halfedge twice), and with every used halfedge its opposite is
    used as well (then, by the first part, exactly once). -/
def ClosedSurface (k : Kernel) (hfs : List Nat) : Prop :=
  (k.cellHalfedges hfs).Nodup ∧ ∀ h ∈ k.cellHalfedges hfs, opp h ∈ k.cellHalfedges hfs

instance (k : Kernel) (hfs : List Nat) : Decidable (ClosedSurface k hfs) := by
  unfold ClosedSurface; exact inferInstance

namespace CellCheck

/-! ### handle arithmetic (local copies, so that this file only imports the model) -/
theorem opp_opp (h : Nat) : opp (opp h) = h := xor_one_xor_one h
theorem opp_ne (h : Nat) : opp h ≠ h := xor_one_ne h
theorem opp_div (h : Nat) : opp h / 2 = h / 2 := xor_one_div h
/-- the two halfedges of an edge: same `idx/2`, different handles ⇒ opposite of each other -/
theorem eq_opp_of_div_eq {a b : Nat} (hd : a / 2 = b / 2) (hne : a ≠ b) : b = opp a := by
  unfold opp; rw [xor_one_eq]; split <;> omega

/-! ### `sortL` is a permutation -/
theorem insertDup_perm (x : Nat) (l : List Nat) : (insertDup x l).Perm (x :: l) := by
  induction l with
  | nil => exact List.Perm.refl _
  | cons a t ih =>
    unfold insertDup; split
    · exact List.Perm.refl _
    · exact ((List.Perm.cons a ih).trans (List.Perm.swap x a t))

theorem sortL_perm (l : List Nat) : (sortL l).Perm l := by
  unfold sortL
  induction l with
  | nil => exact List.Perm.refl _
  | cons a t ih => simp only [List.foldr_cons]; exact (insertDup_perm a _).trans (List.Perm.cons a ih)

theorem length_sortL (l : List Nat) : (sortL l).length = l.length := (sortL_perm l).length_eq
theorem nodup_sortL (l : List Nat) : (sortL l).Nodup ↔ l.Nodup := (sortL_perm l).nodup_iff

/-! ### ascending lists: `adjacent_find` finds something iff there is a duplicate -/
theorem sortedLE_tail {a : Nat} {l : List Nat} (h : SortedLE (a :: l)) : SortedLE l := by
  cases l with
  | nil => trivial
  | cons b t => exact h.2

theorem sortedLT_tail {a : Nat} {l : List Nat} (h : SortedLT (a :: l)) : SortedLT l := by
  cases l with
  | nil => trivial
  | cons b t => exact h.2

theorem sortedLE_head_le {a : Nat} {l : List Nat} (h : SortedLE (a :: l)) : ∀ x ∈ l, a ≤ x := by
  induction l generalizing a with
  | nil => intro x hx; cases hx
  | cons b t ih =>
    intro x hx
    rcases List.mem_cons.mp hx with rfl | hx
    · exact h.1
    · exact Nat.le_trans h.1 (ih h.2 x hx)

theorem sortedLT_head_lt {a : Nat} {l : List Nat} (h : SortedLT (a :: l)) : ∀ x ∈ l, a < x := by
  induction l generalizing a with
  | nil => intro x hx; cases hx
  | cons b t ih =>
    intro x hx
    rcases List.mem_cons.mp hx with rfl | hx
    · exact h.1
    · exact Nat.lt_trans h.1 (ih h.2 x hx)

/-- ascending and no two equal neighbours = strictly ascending -/
theorem sortedLT_of_adjDup_false (l : List Nat) (h : SortedLE l) (hd : adjDup l = false) : SortedLT l := by
  induction l with
  | nil => trivial
  | cons a t ih =>
    cases t with
    | nil => trivial
    | cons b t' =>
      simp only [adjDup, Bool.or_eq_false_iff, beq_eq_false_iff_ne, ne_eq] at hd
      exact ⟨Nat.lt_of_le_of_ne h.1 hd.1, ih h.2 hd.2⟩

theorem adjDup_false_of_sortedLT (l : List Nat) (h : SortedLT l) : adjDup l = false := by
  induction l with
  | nil => rfl
  | cons a t ih =>
    cases t with
    | nil => rfl
    | cons b t' =>
      simp only [adjDup, Bool.or_eq_false_iff, beq_eq_false_iff_ne, ne_eq]
      exact ⟨Nat.ne_of_lt h.1, ih h.2⟩

/-- on an ascending list, `std::adjacent_find` reports a pair iff the list has a duplicate -/
theorem adjDup_false_iff_nodup (l : List Nat) (h : SortedLE l) : adjDup l = false ↔ l.Nodup := by
  constructor
  · intro hd; exact sortedLT_nodup l (sortedLT_of_adjDup_false l h hd)
  · intro hn
    induction l with
    | nil => rfl
    | cons a t ih =>
      cases t with
      | nil => rfl
      | cons b t' =>
        simp only [adjDup, Bool.or_eq_false_iff, beq_eq_false_iff_ne, ne_eq]
        refine ⟨?_, ih h.2 (List.nodup_cons.mp hn).2⟩
        intro hab; subst hab
        exact (List.nodup_cons.mp hn).1 (List.mem_cons_self ..)

/-! ### the edge count on strictly ascending lists (pigeonhole) -/

/-- a new edge class starts after `b` when the next element (if any) belongs to another edge -/
theorem uniq_cons_of_head_ne (b : Nat) (t : List Nat) (h : ∀ c ∈ t.head?, b / 2 ≠ c / 2) :
    uniqByEdgeCount (b :: t) = 1 + uniqByEdgeCount t := by
  cases t with
  | nil => rfl
  | cons c t' =>
    have := h c (by simp)
    simp [uniqByEdgeCount, this]

/-- closed under `opp` -/
def OppClosed (s : List Nat) : Prop := ∀ h ∈ s, opp h ∈ s

/-- on a strictly ascending list every edge contributes one or two handles; `|s| = 2 * #edges`
    holds exactly when every edge contributes both, i.e. `s` is closed under `opp` -/
theorem length_le_and_eq_iff_aux (n : Nat) : ∀ (s : List Nat), s.length ≤ n → SortedLT s →
    s.length ≤ 2 * uniqByEdgeCount s ∧ (s.length = 2 * uniqByEdgeCount s ↔ OppClosed s) := by
  induction n with
  | zero =>
    intro s hn _
    have : s = [] := List.eq_nil_of_length_eq_zero (by omega)
    subst this
    exact ⟨by simp [uniqByEdgeCount], by simp [uniqByEdgeCount, OppClosed]⟩
  | succ n ih =>
    intro s hn hs
    match s, hs, hn with
    | [], _, _ => exact ⟨by simp [uniqByEdgeCount], by simp [uniqByEdgeCount, OppClosed]⟩
    | [a], _, _ =>
      refine ⟨by simp [uniqByEdgeCount], ?_⟩
      simp only [uniqByEdgeCount, List.length_singleton, OppClosed, List.mem_singleton, forall_eq]
      constructor
      · intro h; omega
      · intro h; exact absurd h (opp_ne a)
    | a :: b :: t, hs, hn =>
      have hab : a < b := hs.1
      have hbt : SortedLT (b :: t) := hs.2
      have htS : SortedLT t := sortedLT_tail hbt
      have hgt_b : ∀ x ∈ t, b < x := sortedLT_head_lt hbt
      simp only [List.length_cons] at hn
      by_cases hd : a / 2 = b / 2
      · -- `a, b` are the two halfedges of one edge; the rest lies strictly above
        have hb : b = opp a := eq_opp_of_div_eq hd (Nat.ne_of_lt hab)
        have ha : a = opp b := by rw [hb, opp_opp]
        have hhead : ∀ c ∈ t.head?, b / 2 ≠ c / 2 := by
          intro c hc
          have hct : c ∈ t := List.mem_of_mem_head? hc
          have := hgt_b c hct
          omega
        have hcnt : uniqByEdgeCount (a :: b :: t) = 1 + uniqByEdgeCount t := by
          rw [← uniq_cons_of_head_ne b t hhead]
          simp [uniqByEdgeCount, hd]
        obtain ⟨ihle, iheq⟩ := ih t (by omega) htS
        rw [hcnt]
        refine ⟨by simp only [List.length_cons]; omega, ?_⟩
        have hclosed : OppClosed (a :: b :: t) ↔ OppClosed t := by
          constructor
          · intro hc h hh
            have hm := hc h (by simp [hh])
            simp only [List.mem_cons] at hm
            rcases hm with hm | hm | hm
            · -- opp h = a = opp b → h = b, but b < h
              have : h = b := by have := congrArg opp hm; rwa [opp_opp, ← hb] at this
              have := hgt_b h hh; omega
            · have : h = a := by have := congrArg opp hm; rwa [opp_opp, ← ha] at this
              have := hgt_b h hh; omega
            · exact hm
          · intro hc h hh
            simp only [List.mem_cons] at hh
            rcases hh with rfl | rfl | hh
            · rw [← hb]; simp
            · rw [← ha]; simp
            · have := hc h hh; simp [this]
        rw [hclosed, ← iheq]
        simp only [List.length_cons]; omega
      · -- `a` is alone on its edge: too few handles, and `opp a` is missing
        have hlt : a / 2 < b / 2 := by omega
        obtain ⟨ihle, _⟩ := ih (b :: t) (by simp only [List.length_cons]; omega) hbt
        have hcnt : uniqByEdgeCount (a :: b :: t) = 1 + uniqByEdgeCount (b :: t) := by
          simp [uniqByEdgeCount, hd]
        rw [hcnt]
        have hlen : (a :: b :: t).length = 1 + (b :: t).length := by
          simp only [List.length_cons]; omega
        refine ⟨by omega, ?_⟩
        constructor
        · intro h; omega
        · intro hc
          exfalso
          have hm := hc a (by simp)
          simp only [List.mem_cons] at hm
          have hdiv := opp_div a
          rcases hm with hm | hm | hm
          · exact opp_ne a hm
          · rw [hm] at hdiv; omega
          · have := hgt_b _ hm; omega

theorem length_le_and_eq_iff (s : List Nat) (hs : SortedLT s) :
    s.length ≤ 2 * uniqByEdgeCount s ∧ (s.length = 2 * uniqByEdgeCount s ↔ OppClosed s) :=
  length_le_and_eq_iff_aux s.length s (Nat.le_refl _) hs

theorem length_eq_two_uniq_iff (s : List Nat) (hs : SortedLT s) :
    s.length = 2 * uniqByEdgeCount s ↔ OppClosed s := (length_le_and_eq_iff s hs).2

end CellCheck

open CellCheck in
/-- **the check of `add_cell` is the closed-surface predicate**, for every state and every list of
    halffaces (also the empty one, which `add_cell` itself rejects before running the check, and
    lists with out-of-range handles, whose halfedge lists are empty in the model) -/
theorem cellCheck_iff (k : Kernel) (hfs : List Nat) :
    k.cellCheck hfs = true ↔ ClosedSurface k hfs := by
  unfold cellCheck ClosedSurface
  simp only [Bool.and_eq_true, Bool.not_eq_true', beq_iff_eq]
  have hsorted := sortedLE_sortL (k.cellHalfedges hfs)
  have hmem : ∀ x, x ∈ sortL (k.cellHalfedges hfs) ↔ x ∈ k.cellHalfedges hfs := fun x => mem_sortL x _
  constructor
  · rintro ⟨hd, hl⟩
    have hlt := sortedLT_of_adjDup_false _ hsorted hd
    refine ⟨(nodup_sortL _).mp (sortedLT_nodup _ hlt), ?_⟩
    intro h hh
    exact (hmem _).mp ((length_eq_two_uniq_iff _ hlt).mp hl h ((hmem h).mpr hh))
  · rintro ⟨hn, hc⟩
    have hd := (adjDup_false_iff_nodup _ hsorted).mpr ((nodup_sortL _).mpr hn)
    have hlt := sortedLT_of_adjDup_false _ hsorted hd
    refine ⟨hd, (length_eq_two_uniq_iff _ hlt).mpr ?_⟩
    intro h hh
    exact (hmem _).mpr (hc h ((hmem h).mp hh))

/-- the same predicate by counting: every used halfedge is used exactly once and its opposite is
    used exactly once -/
theorem closedSurface_iff_count (k : Kernel) (hfs : List Nat) :
    ClosedSurface k hfs ↔
      ∀ h ∈ k.cellHalfedges hfs, (k.cellHalfedges hfs).count h = 1 ∧ (k.cellHalfedges hfs).count (opp h) = 1 := by
  unfold ClosedSurface
  constructor
  · rintro ⟨hn, hc⟩ h hh
    exact ⟨by rw [hn.count, if_pos hh], by rw [hn.count, if_pos (hc h hh)]⟩
  · intro h
    refine ⟨?_, fun x hx => ?_⟩
    · rw [List.nodup_iff_count]
      intro a
      by_cases ha : a ∈ k.cellHalfedges hfs
      · exact Nat.le_of_eq (h a ha).1
      · rw [List.count_eq_zero_of_not_mem ha]; omega
    · have := (h x hx).2
      exact List.count_pos_iff.mp (by omega)

end Kernel
end OVM

import OVM.Refine.CacheFastDelete
/-
  C17's gap: the cache-guided `swap_*_indices` (processed-sets, lookups through the bottom-up
  caches) produce the SAME STATE as the relabeling specification "exchange the two names
  everywhere" — exact record equality — under `WF` (exact caches), C01's `oneCell` where the face
  cache guides, and no deletion flag one level up; and in general (flagged entities one level up are
  invisible to the caches and keep stale, in-range names: DESIGN.md §4 C17) equality of every field
  except that definition array, which agrees at every live index (`*_eq_spec_live`).
-/
namespace OVM
namespace Kernel
open ScanDel

theorem k3_ext_getD {α} {l m : List α} (d : α) (hl : l.length = m.length)
    (h : ∀ i, i < l.length → l.getD i d = m.getD i d) : l = m := by
  apply List.ext_getElem hl
  intro i h1 h2
  have := h i h1
  rw [List.getD_eq_getElem?_getD, List.getD_eq_getElem?_getD, List.getElem?_eq_getElem h1,
    List.getElem?_eq_getElem h2] at this
  exact this

theorem k3_getD_map {α} (l : List α) (g : α → α) (d : α) (hd : g d = d) (i : Nat) :
    (l.map g).getD i d = g (l.getD i d) := by
  simp only [List.getD_eq_getElem?_getD, List.getElem?_map]
  cases l[i]? <;> simp [hd]

/-! ### the relabeling specifications -/

/-- `swap_edge_indices a b`, specified: exchange the edge slots, flags and property slots, the two
    pairs of halfedge slots of the edge cache, and rename the halfedges in EVERY face definition and
    EVERY slot of the vertex cache -/
def relabelEdgeSpec (k : Kernel) (a b : Nat) : Kernel :=
  { k with faces := k.faces.map (·.map (relabelHalf a b)),
           outHes := if k.vBU then k.outHes.map (·.map (relabelHalf a b)) else k.outHes,
           incHfs := if k.eBU then swapAt (swapAt k.incHfs (2 * a) (2 * b)) (2 * a + 1) (2 * b + 1) else k.incHfs,
           edges := swapAt k.edges a b, eDel := swapAt k.eDel a b, props := swapEProps k.props a b }

def relabelFaceSpec (k : Kernel) (a b : Nat) : Kernel :=
  { k with cells := k.cells.map (·.map (relabelHalf a b)),
           incHfs := if k.eBU then k.incHfs.map (·.map (relabelHalf a b)) else k.incHfs,
           incCell := if k.fBU then swapAt (swapAt k.incCell (2 * a) (2 * b)) (2 * a + 1) (2 * b + 1) else k.incCell,
           faces := swapAt k.faces a b, fDel := swapAt k.fDel a b, props := swapFProps k.props a b }

def relabelVertexSpec (k : Kernel) (a b : Nat) : Kernel :=
  { k with edges := k.edges.map (relabelEdgeV a b), vDel := swapAt k.vDel a b,
           outHes := if k.vBU then swapAt k.outHes a b else k.outHes,
           props := swapVProps k.props a b }

/-! ### edges -/
/-- under `WF` every slot of the vertex cache is relabelled by `swap_edge_indices`: the slots of the
    (up to four) endpoints explicitly, every other slot because the relabeling is the identity on it -/
theorem swapEdge_outHes_eq {k : Kernel} {a b : Nat} (hab : a ≠ b) (hw : WF k) (hbu' : k.vBU = true) :
    (k.swapEdge a b).outHes = k.outHes.map (·.map (relabelHalf a b)) := by
  have hne : (a == b) = false := by simp [hab]
  obtain ⟨hlen, hperm⟩ := hw.cache.v hbu'
  have hl := (lenInv_swapEdge k a b hw.len).outHes (by simpa using hbu')
  apply k3_ext_getD []
  · rw [hl, List.length_map, hlen]; simp
  intro v hv
  rw [hl] at hv
  have hv' : v < k.nV := by simpa using hv
  rw [k3_getD_map _ _ _ rfl]
  have hout : (k.swapEdge a b).outHes.getD v [] =
      if v ∈ dedupKeep [(k.edgeAt a).1, (k.edgeAt a).2, (k.edgeAt b).1, (k.edgeAt b).2]
      then (k.outHes.getD v []).map (relabelHalf a b) else k.outHes.getD v [] := by
    unfold swapEdge
    simp only [hne, Bool.false_eq_true, if_false, hbu', if_true]
    exact k3_foldl_modify_getD _ [] rfl _ (nodup_dedupKeep _) _ v
  rw [hout]
  split
  · rfl
  · rename_i hnm
    symm
    apply k3_map_relabelHalf_id
    simp only [mem_dedupKeep, List.mem_cons, List.not_mem_nil, or_false, not_or] at hnm
    intro x hx
    obtain ⟨_, hfv⟩ := (mem_sOut_iff k v x).mp ((hperm v hv').mem_iff.mp hx)
    have hx2 : x = 2 * (x / 2) ∨ x = 2 * (x / 2) + 1 := by omega
    constructor
    · intro e
      rcases hx2 with h2 | h2
      · rw [h2, e, fromV_even] at hfv; exact hnm.1 hfv.symm
      · rw [h2, e, fromV_odd'] at hfv; exact hnm.2.1 hfv.symm
    · intro e
      rcases hx2 with h2 | h2
      · rw [h2, e, fromV_even] at hfv; exact hnm.2.2.1 hfv.symm
      · rw [h2, e, fromV_odd'] at hfv; exact hnm.2.2.2 hfv.symm

/-- **cache-guided `swap_edge_indices` = relabeling specification, on everything but the face
    definitions of flagged faces** -/
theorem swapEdge_eq_spec_live {k : Kernel} {a b : Nat} (ha : a < k.nE) (hb : b < k.nE) (hab : a ≠ b) (hw : WF k) :
    k.swapEdge a b = { relabelEdgeSpec k a b with faces := (k.swapEdge a b).faces } ∧
    (k.swapEdge a b).faces.length = k.faces.length ∧
    ∀ f, (k.eBU = true → k.liveF f = true) →
      (k.swapEdge a b).faceAt f = (relabelEdgeSpec k a b).faceAt f := by
  refine ⟨?_, swapEdge_faces_length k a b, ?_⟩
  · have hne : (a == b) = false := by simp [hab]
    have hO : (k.swapEdge a b).outHes = (relabelEdgeSpec k a b).outHes := by
      by_cases hbu : k.vBU = true
      · rw [swapEdge_outHes_eq hab hw hbu]; unfold relabelEdgeSpec; simp [hbu]
      · unfold swapEdge relabelEdgeSpec; simp [hne, hbu]
    have hO' := hO
    unfold relabelEdgeSpec at hO' ⊢
    simp only [] at hO' ⊢
    rw [← hO']
    unfold swapEdge
    simp only [hne, Bool.false_eq_true, if_false]
  · intro f hf
    rw [swapEdge_faceAt_live hab ha hb hw.cache.e hf]
    unfold relabelEdgeSpec faceAt
    simp only []
    rw [k3_getD_map _ _ _ rfl]

/-- **cache-guided `swap_edge_indices` = relabeling specification** (exact record equality) when no
    face is flagged — or edge incidences are off, where the linear scan rewrites flagged faces too -/
theorem swapEdge_eq_spec {k : Kernel} {a b : Nat} (ha : a < k.nE) (hb : b < k.nE) (hab : a ≠ b) (hw : WF k)
    (hlive : k.eBU = true → NoFlag k.fDel) : k.swapEdge a b = relabelEdgeSpec k a b := by
  obtain ⟨h1, h2, h3⟩ := swapEdge_eq_spec_live ha hb hab hw
  have hF : (k.swapEdge a b).faces = (relabelEdgeSpec k a b).faces := by
    apply k3_ext_getD []
    · rw [h2]; unfold relabelEdgeSpec; simp
    · intro i hi
      rw [h2] at hi
      apply h3 i
      intro hbu; unfold liveF fDeleted nF; rw [(hlive hbu).getD i]; simp [hi]
  rw [h1, hF]

/-! ### faces -/
theorem swapFace_incHfs_eq {k : Kernel} {a b : Nat} (hab : a ≠ b) (hw : WF k) (hbu' : k.eBU = true) :
    (k.swapFace a b).incHfs = k.incHfs.map (·.map (relabelHalf a b)) := by
  have hne : (a == b) = false := by simp [hab]
  obtain ⟨hlen, hperm⟩ := hw.cache.e hbu'
  have hl := (lenInv_swapFace k a b hw.len).incHfs (by simpa using hbu')
  have hnHE : (k.swapFace a b).nHE = k.nHE := by unfold nHE; rw [swapFace_edges]
  apply k3_ext_getD []
  · rw [hl, List.length_map, hlen, hnHE]
  intro y hy
  rw [hl, hnHE] at hy
  rw [k3_getD_map _ _ _ rfl]
  have hslot : (k.swapFace a b).incHfs.getD y [] =
      if y ∈ dedupKeep ([2 * a, 2 * a + 1, 2 * b, 2 * b + 1].flatMap k.hfHes)
      then (k.incHfs.getD y []).map (relabelHalf a b) else k.incHfs.getD y [] := by
    unfold swapFace
    simp only [hne, Bool.false_eq_true, if_false, hbu', if_true]
    exact k3_foldl_modify_getD _ [] rfl _ (nodup_dedupKeep _) _ y
  rw [hslot]
  split
  · rfl
  · rename_i hnm
    symm
    apply k3_map_relabelHalf_id
    simp only [mem_dedupKeep, List.mem_flatMap, not_exists, not_and] at hnm
    intro x hx
    obtain ⟨_, hyx⟩ := (mem_sHfsOfHe k y x).mp ((hperm y hy).mem_iff.mp hx)
    constructor
    · intro e
      have : x = 2 * a ∨ x = 2 * a + 1 := by omega
      rcases this with e2 | e2 <;> exact hnm x (by simp [e2]) hyx
    · intro e
      have : x = 2 * b ∨ x = 2 * b + 1 := by omega
      rcases this with e2 | e2 <;> exact hnm x (by simp [e2]) hyx

/-- **cache-guided `swap_face_indices` = relabeling specification, on everything but the cell
    definitions of flagged cells** (`oneCell` where the face cache guides: see `wf_swapFace'`) -/
theorem swapFace_eq_spec_live {k : Kernel} {a b : Nat} (ha : a < k.nF) (hb : b < k.nF) (hab : a ≠ b) (hw : WF k)
    (h1 : k.fBU = true → k.oneCell = true) :
    k.swapFace a b = { relabelFaceSpec k a b with cells := (k.swapFace a b).cells } ∧
    (k.swapFace a b).cells.length = k.cells.length ∧
    ∀ c, (k.fBU = true → k.liveC c = true) →
      (k.swapFace a b).cellAt c = (relabelFaceSpec k a b).cellAt c := by
  refine ⟨?_, swapFace_cells_length k a b, ?_⟩
  · have hne : (a == b) = false := by simp [hab]
    have hO : (k.swapFace a b).incHfs = (relabelFaceSpec k a b).incHfs := by
      by_cases hbu : k.eBU = true
      · rw [swapFace_incHfs_eq hab hw hbu]; unfold relabelFaceSpec; simp [hbu]
      · unfold swapFace relabelFaceSpec; simp [hne, hbu]
    have hO' := hO
    unfold relabelFaceSpec at hO' ⊢
    simp only [] at hO' ⊢
    rw [← hO']
    unfold swapFace
    simp only [hne, Bool.false_eq_true, if_false]
  · intro c hc
    rw [swapFace_cellAt_live hab ha hb hw.cache.f h1 hc]
    unfold relabelFaceSpec cellAt
    simp only []
    rw [k3_getD_map _ _ _ rfl]

/-- **cache-guided `swap_face_indices` = relabeling specification** (exact record equality) when no
    cell is flagged, or face incidences are off -/
theorem swapFace_eq_spec {k : Kernel} {a b : Nat} (ha : a < k.nF) (hb : b < k.nF) (hab : a ≠ b) (hw : WF k)
    (h1 : k.fBU = true → k.oneCell = true) (hlive : k.fBU = true → NoFlag k.cDel) :
    k.swapFace a b = relabelFaceSpec k a b := by
  obtain ⟨e1, e2, e3⟩ := swapFace_eq_spec_live ha hb hab hw h1
  have hF : (k.swapFace a b).cells = (relabelFaceSpec k a b).cells := by
    apply k3_ext_getD []
    · rw [e2]; unfold relabelFaceSpec; simp
    · intro i hi
      rw [e2] at hi
      apply e3 i
      intro hbu; unfold liveC cDeleted nC; rw [(hlive hbu).getD i]; simp [hi]
  rw [e1, hF]

/-! ### vertices -/
/-- **cache-guided `swap_vertex_indices` = relabeling specification** on every live edge, and
    exactly when no edge is flagged (or vertex incidences are off) -/
theorem swapVertex_eq_spec_live {k : Kernel} {a b : Nat} (ha : a < k.nV) (hb : b < k.nV) (hab : a ≠ b) (hw : WF k) :
    k.swapVertex a b = { relabelVertexSpec k a b with edges := (k.swapVertex a b).edges } ∧
    (k.swapVertex a b).edges.length = k.edges.length ∧
    ∀ e, e < k.nE → (k.vBU = true → k.liveE e = true) →
      (k.swapVertex a b).edgeAt e = (relabelVertexSpec k a b).edgeAt e := by
  refine ⟨?_, swapVertex_edges_length k a b, ?_⟩
  · have hne : (a == b) = false := by simp [hab]
    unfold relabelVertexSpec swapVertex
    simp only [hne, Bool.false_eq_true, if_false]
  · intro e he hl
    rw [swapVertex_edgeAt_live hab ha hb hw.cache.v he hl]
    unfold relabelVertexSpec edgeAt nE at *
    simp only []
    simp [List.getD_eq_getElem?_getD, List.getElem?_eq_getElem he]

theorem swapVertex_eq_spec {k : Kernel} {a b : Nat} (ha : a < k.nV) (hb : b < k.nV) (hab : a ≠ b) (hw : WF k)
    (hlive : k.vBU = true → NoFlag k.eDel) : k.swapVertex a b = relabelVertexSpec k a b := by
  obtain ⟨e1, e2, e3⟩ := swapVertex_eq_spec_live ha hb hab hw
  have hF : (k.swapVertex a b).edges = (relabelVertexSpec k a b).edges := by
    apply k3_ext_getD (0, 0)
    · rw [e2]; unfold relabelVertexSpec; simp
    · intro i hi
      rw [e2] at hi
      apply e3 i hi
      intro hbu; unfold liveE eDeleted nE; rw [(hlive hbu).getD i]; simp [hi]
  rw [e1, hF]

/-- the specifications are involutions on in-range handles -/
example : relabelEdgeSpec (relabelEdgeSpec tetK 0 5) 0 5 = tetK ∧ relabelFaceSpec (relabelFaceSpec tetK 0 3) 0 3 = tetK ∧
    relabelVertexSpec (relabelVertexSpec tetK 1 2) 1 2 = tetK := by decide
/-- test (not a proof): with a flagged face the cache-guided variant leaves the stale definition
    alone — the two variants differ there and only there (edge incidences on / off) -/
example :
    let k : Kernel := { (tetK.deleteFace 0) with deferred := true }
    k.fDel = [true, false, false, false] ∧
    (k.swapEdge 0 5).faces = [[0, 2, 4], [6, 8, 11], [9, 0, 3], [5, 1, 7]] ∧
    (relabelEdgeSpec k 0 5).faces = [[10, 2, 4], [6, 8, 11], [9, 0, 3], [5, 1, 7]] := by decide

/-! ### cells -/
def relabelCellSpec (k : Kernel) (a b : Nat) : Kernel :=
  { k with incCell := if k.fBU then k.incCell.map (·.map (relabelId a b)) else k.incCell,
           cells := swapAt k.cells a b, cDel := swapAt k.cDel a b, props := swapCProps k.props a b }

/-- **cache-guided `swap_cell_indices` = relabeling specification** (exact record equality; nothing
    is stored above cells, so no liveness condition) -/
theorem swapCell_eq_spec {k : Kernel} {a b : Nat} (hab : a ≠ b) (hw : WF k) :
    k.swapCell a b = relabelCellSpec k a b := by
  have hne : (a == b) = false := by simp [hab]
  have hI : (k.swapCell a b).incCell = (relabelCellSpec k a b).incCell := by
    by_cases hbu : k.fBU = true
    · have hl := (lenInv_swapCell k a b hw.len).incCell (by simpa using hbu)
      have hlen := (hw.cache.f hbu).1
      have hnHF : (k.swapCell a b).nHF = k.nHF := by unfold nHF; rw [swapCell_faces]
      have : (relabelCellSpec k a b).incCell = k.incCell.map (·.map (relabelId a b)) := by
        unfold relabelCellSpec; simp [hbu]
      rw [this]
      apply k3_ext_getD none
      · rw [hl, List.length_map, hlen, hnHF]
      intro x _
      rw [k3_getD_map _ _ _ rfl]
      have := swapCell_cellOf k a b x hab hbu
      unfold cellOf at this
      rw [this]
      split
      · rfl
      · rename_i hnm
        cases hc : k.incCell.getD x none with
        | none => rfl
        | some c =>
          obtain ⟨_, _, hxc⟩ := cellOf_some_live hw.cache.f hbu (x := x) (c := c) hc
          have h1 : c ≠ a := fun e => hnm (by rw [List.mem_append]; exact Or.inl (e ▸ hxc))
          have h2 : c ≠ b := fun e => hnm (by rw [List.mem_append]; exact Or.inr (e ▸ hxc))
          simp [relabelId, h1, h2]
    · unfold swapCell relabelCellSpec; simp [hne, hbu]
  have hI' := hI
  unfold relabelCellSpec at hI' ⊢
  simp only [] at hI' ⊢
  rw [← hI']
  unfold swapCell
  simp only [hne, Bool.false_eq_true, if_false]

example : tetK.swapCell 0 0 = tetK ∧ relabelCellSpec tetK 0 0 = tetK := by decide

end Kernel
end OVM

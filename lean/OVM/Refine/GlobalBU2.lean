import OVM.Refine.GlobalBU
/-
  C12 on the global invariant, continued: `set_*`, `add_face(halfedges)`, `add_cell` (their topology checks read
  only live definitions), `add_edge` and `add_face(vertices)` (since 8c92632 the duplicate search through the
  vertex cache returns the same edge as the linear scan, `findEdgeBU_eq_scan`), and the assembly `same_step_partial`: for two `GInv` states with the same definitions, flags, counters,
  modes and property columns — in ANY two bottom-up configurations — one valid call yields two such states again.
  `_partial`: the operations not covered are listed at `BUCovered`.
-/
namespace OVM
namespace Kernel
namespace Global
open ScanDel

/-! ### set_* -/

theorem same_setEdge {k1 k2 : Kernel} (s : SameDefs k1 k2) (e a b : Nat) :
    SameDefs (k1.setEdge e a b) (k2.setEdge e a b) := by
  refine { s with nE := ?_, edgeAt := ?_ }
  · show (k1.edges.set e (a, b)).length = (k2.edges.set e (a, b)).length
    rw [List.length_set, List.length_set]; exact s.nE
  · intro e' hl
    have hl' : k1.liveE e' = true := by
      unfold Kernel.liveE Kernel.nE eDeleted at hl ⊢
      simpa [setEdge] using hl
    show (k1.edges.set e (a, b)).getD e' (0, 0) = (k2.edges.set e (a, b)).getD e' (0, 0)
    rw [ScanDel.getD_set, ScanDel.getD_set, s.nE]
    split
    · rfl
    · exact s.edgeAt e' hl'

theorem same_setFace {k1 k2 : Kernel} (s : SameDefs k1 k2) (f : Nat) (hes : List Nat) :
    SameDefs (k1.setFace f hes) (k2.setFace f hes) := by
  refine { s with nF := ?_, faceAt := ?_ }
  · show (k1.faces.set f hes).length = (k2.faces.set f hes).length
    rw [List.length_set, List.length_set]; exact s.nF
  · intro e' hl
    have hl' : k1.liveF e' = true := by
      unfold Kernel.liveF Kernel.nF fDeleted at hl ⊢
      simpa [setFace] using hl
    show (k1.faces.set f hes).getD e' [] = (k2.faces.set f hes).getD e' []
    rw [ScanDel.getD_set, ScanDel.getD_set, s.nF]
    split
    · rfl
    · exact s.faceAt e' hl'

theorem same_setCell {k1 k2 : Kernel} (s : SameDefs k1 k2) (c : Nat) (hfs : List Nat) :
    SameDefs (k1.setCell c hfs) (k2.setCell c hfs) := by
  refine { s with nC := ?_, cellAt := ?_ }
  · show (k1.cells.set c hfs).length = (k2.cells.set c hfs).length
    rw [List.length_set, List.length_set]; exact s.nC
  · intro e' hl
    have hl' : k1.liveC e' = true := by
      unfold Kernel.liveC Kernel.nC cDeleted at hl ⊢
      simpa [setCell] using hl
    show (k1.cells.set c hfs).getD e' [] = (k2.cells.set c hfs).getD e' []
    rw [ScanDel.getD_set, ScanDel.getD_set, s.nC]
    split
    · rfl
    · exact s.cellAt e' hl'

/-! ### add_face (halfedges), add_cell: the topology checks read only live definitions -/

theorem heOk_liveE {k : Kernel} {h : Nat} (hk : HeOk k h) : k.liveE (eOf h) = true := by
  unfold Kernel.liveE; rw [hk.2]
  have : eOf h < k.nE := by have := hk.1; unfold Kernel.nHE Kernel.nE eOf at *; omega
  simp [this]

theorem hfOk_liveF {k : Kernel} {h : Nat} (hk : HfOk k h) : k.liveF (eOf h) = true := by
  unfold Kernel.liveF; rw [hk.2]
  have : eOf h < k.nF := by have := hk.1; unfold Kernel.nHF Kernel.nF eOf at *; omega
  simp [this]

theorem same_halfedge {k1 k2 : Kernel} (s : SameDefs k1 k2) {h : Nat} (hk : HeOk k1 h) : k1.halfedge h = k2.halfedge h := by
  unfold halfedge; rw [s.edgeAt _ (heOk_liveE hk)]

theorem same_hfHes {k1 k2 : Kernel} (s : SameDefs k1 k2) {h : Nat} (hk : HfOk k1 h) : k1.hfHes h = k2.hfHes h := by
  unfold hfHes; rw [s.faceAt _ (hfOk_liveF hk)]

theorem getD_mem_of_lt {l : List Nat} {i : Nat} (h : i < l.length) : l.getD i 0 ∈ l := by
  rw [List.getD_eq_getElem?_getD, List.getElem?_eq_getElem h]; exact List.getElem_mem h

theorem same_faceLoopOk {k1 k2 : Kernel} (s : SameDefs k1 k2) {hes : List Nat} (hh : ∀ h ∈ hes, HeOk k1 h) :
    k1.faceLoopOk hes = k2.faceLoopOk hes := by
  have ht : ∀ h ∈ hes, k1.toV h = k2.toV h := fun h hm => by unfold toV; rw [same_halfedge s (hh h hm)]
  have hf : ∀ h ∈ hes, k1.fromV h = k2.fromV h := fun h hm => by unfold fromV; rw [same_halfedge s (hh h hm)]
  unfold faceLoopOk
  split
  · rename_i l h hl hhd
    have hlm : l ∈ hes := List.mem_of_getLast? hl
    have hhm : h ∈ hes := List.mem_of_mem_head? hhd
    rw [ht l hlm, hf h hhm]
    congr 2
    have key : ∀ (L : List Nat), (∀ i ∈ L, i < hes.length - 1) →
        L.all (fun i => k1.toV (hes.getD i 0) == k1.fromV (hes.getD (i + 1) 0)) =
        L.all (fun i => k2.toV (hes.getD i 0) == k2.fromV (hes.getD (i + 1) 0)) := by
      intro L
      induction L with
      | nil => intro _; rfl
      | cons a t ih =>
        intro hL
        have ha := hL a (List.mem_cons_self)
        simp only [List.all_cons]
        rw [ih (fun i hi => hL i (List.mem_cons_of_mem _ hi)), ht _ (getD_mem_of_lt (by omega)),
          hf _ (getD_mem_of_lt (by omega))]
    exact key _ (fun i hi => List.mem_range.mp hi)
  · rfl

theorem same_addFaceCore {k1 k2 : Kernel} (s : SameDefs k1 k2) (hes : List Nat) :
    SameDefs (k1.addFaceCore hes) (k2.addFaceCore hes) := by
  obtain ⟨a1, a2, a3, a4, a5⟩ := addFaceCore_frames k1 hes
  obtain ⟨b1, b2, b3, b4, b5⟩ := addFaceCore_frames k2 hes
  have fast : ∀ k : Kernel, (k.addFaceCore hes).fast = k.fast := fun k => by
    unfold addFaceCore; simp only; split <;> split <;> rfl
  refine ⟨by simpa using s.nV, by simpa using s.nE, by simp [s.nF], by simpa using s.nC,
    by simpa using s.vDel, by simpa using s.eDel, by simp [s.fDel], by simpa using s.cDel,
    by rw [a5, b5, s.nDelV], by rw [a4, b4, s.nDelE], by rw [a3, b3, s.nDelF], by rw [a2, b2, s.nDelC],
    by rw [a1, b1, s.deferred], by rw [fast, fast, s.fast],
    by rw [addFaceCore_props, addFaceCore_props, s.props]; unfold Kernel.nF; rw [s.nF], ?_, ?_, ?_⟩
  · intro e hl
    rw [liveE_of_eq (addFaceCore_edges k1 hes) (addFaceCore_eDel k1 hes)] at hl
    rw [edgeAt_of_eq (addFaceCore_edges k1 hes), edgeAt_of_eq (addFaceCore_edges k2 hes)]; exact s.edgeAt e hl
  · intro f hl
    unfold Kernel.liveF Kernel.nF fDeleted at hl
    simp only [addFaceCore_faces, addFaceCore_fDel, Bool.and_eq_true, decide_eq_true_eq, Bool.not_eq_true',
      getD_snoc_false] at hl
    unfold faceAt; rw [addFaceCore_faces, addFaceCore_faces]
    rcases snoc_getD_cases k1.faces hes [] f hl.1 with ⟨h1, h2⟩ | ⟨h1, h2⟩
    · rw [h2, snoc_getD_lt _ _ _ _ (by rw [← s.nF]; exact h1)]
      exact s.faceAt f (by unfold Kernel.liveF Kernel.nF fDeleted; rw [hl.2]; simp [h1])
    · rw [h2, h1, s.nF]; simp [List.getD_eq_getElem?_getD]
  · intro c hl
    rw [liveC_of_eq (addFaceCore_cells k1 hes) (addFaceCore_cDel k1 hes)] at hl
    rw [cellAt_of_eq (addFaceCore_cells k1 hes), cellAt_of_eq (addFaceCore_cells k2 hes)]; exact s.cellAt c hl

theorem same_addFace {k1 k2 : Kernel} (s : SameDefs k1 k2) {hes : List Nat} (chk : Bool)
    (hh : ∀ h ∈ hes, HeOk k1 h) : SameDefs (k1.addFace hes chk).1 (k2.addFace hes chk).1 := by
  have hacc : k1.addFaceAccepts hes chk = k2.addFaceAccepts hes chk := by
    unfold addFaceAccepts; rw [same_faceLoopOk s hh]
  unfold addFace; rw [hacc]; split
  · exact same_addFaceCore s hes
  · exact s

theorem same_addCellCore {k1 k2 : Kernel} (s : SameDefs k1 k2) (hfs : List Nat) :
    SameDefs (k1.addCellCore hfs) (k2.addCellCore hfs) := by
  obtain ⟨a1, a2, a3, a4, a5⟩ := addCellCore_frames k1 hfs
  obtain ⟨b1, b2, b3, b4, b5⟩ := addCellCore_frames k2 hfs
  have fast : ∀ k : Kernel, (k.addCellCore hfs).fast = k.fast := fun k => by
    unfold addCellCore; simp only; split
    · split
      · simp
      · rfl
    · rfl
  refine ⟨by simpa using s.nV, by simpa using s.nE, by simpa using s.nF, by simp [s.nC],
    by simpa using s.vDel, by simpa using s.eDel, by simpa using s.fDel, by simp [s.cDel],
    by rw [a5, b5, s.nDelV], by rw [a4, b4, s.nDelE], by rw [a3, b3, s.nDelF], by rw [a2, b2, s.nDelC],
    by rw [a1, b1, s.deferred], by rw [fast, fast, s.fast],
    by rw [addCellCore_props, addCellCore_props, s.props]; unfold Kernel.nC; rw [s.nC], ?_, ?_, ?_⟩
  · intro e hl
    rw [liveE_of_eq (addCellCore_edges k1 hfs) (addCellCore_eDel k1 hfs)] at hl
    rw [edgeAt_of_eq (addCellCore_edges k1 hfs), edgeAt_of_eq (addCellCore_edges k2 hfs)]; exact s.edgeAt e hl
  · intro f hl
    rw [liveF_of_eq (addCellCore_faces k1 hfs) (addCellCore_fDel k1 hfs)] at hl
    rw [faceAt_of_eq (addCellCore_faces k1 hfs), faceAt_of_eq (addCellCore_faces k2 hfs)]; exact s.faceAt f hl
  · intro c hl
    unfold Kernel.liveC Kernel.nC cDeleted at hl
    simp only [addCellCore_cells, addCellCore_cDel, Bool.and_eq_true, decide_eq_true_eq, Bool.not_eq_true',
      getD_snoc_false] at hl
    unfold cellAt; rw [addCellCore_cells, addCellCore_cells]
    rcases snoc_getD_cases k1.cells hfs [] c hl.1 with ⟨h1, h2⟩ | ⟨h1, h2⟩
    · rw [h2, snoc_getD_lt _ _ _ _ (by rw [← s.nC]; exact h1)]
      exact s.cellAt c (by unfold Kernel.liveC Kernel.nC cDeleted; rw [hl.2]; simp [h1])
    · rw [h2, h1, s.nC]; simp [List.getD_eq_getElem?_getD]

theorem same_addCell {k1 k2 : Kernel} (s : SameDefs k1 k2) {hfs : List Nat} (chk : Bool)
    (hh : ∀ h ∈ hfs, HfOk k1 h) : SameDefs (k1.addCell hfs chk).1 (k2.addCell hfs chk).1 := by
  have hhe : k1.cellHalfedges hfs = k2.cellHalfedges hfs := by
    unfold cellHalfedges
    exact k3_flatMap_congr (fun x hx => same_hfHes s (hh x hx))
  have hacc : k1.addCellAccepts hfs chk = k2.addCellAccepts hfs chk := by
    unfold addCellAccepts cellCheck; rw [hhe]
  unfold addCell; rw [hacc]; split
  · exact same_addCellCore s hfs
  · exact s


/-! ### add_edge: the duplicate search finds an edge through the cache iff the linear scan finds one -/

/-- a live edge joins `a` and `b` (in either direction) -/
def EdgeBetween (k : Kernel) (a b : Nat) : Prop :=
  ∃ i, k.liveE i = true ∧ (k.edgeAt i = (a, b) ∨ k.edgeAt i = (b, a))

theorem toV_even (k : Kernel) (e : Nat) : k.toV (2 * e) = (k.edgeAt e).2 := by
  unfold toV halfedge eOf side
  have e1 : 2 * e / 2 = e := by omega
  have e2 : 2 * e % 2 = 0 := by omega
  simp [e1, e2]
theorem toV_odd (k : Kernel) (e : Nat) : k.toV (2 * e + 1) = (k.edgeAt e).1 := by
  unfold toV halfedge eOf side
  have e1 : (2 * e + 1) / 2 = e := by omega
  have e2 : (2 * e + 1) % 2 = 1 := by omega
  simp [e1, e2]

theorem findEdgeScan_isSome (k : Kernel) (a b : Nat) : (k.findEdgeScan a b).isSome = true ↔ EdgeBetween k a b := by
  unfold findEdgeScan EdgeBetween
  rw [List.find?_isSome]
  constructor
  · rintro ⟨i, hi, hp⟩
    simp only [Bool.and_eq_true, Bool.not_eq_true', Bool.or_eq_true, beq_iff_eq] at hp
    refine ⟨i, by unfold Kernel.liveE; rw [hp.1]; simpa using hi, ?_⟩
    rcases hp.2 with h | h
    · left; exact Prod.ext h.1 h.2
    · right; exact Prod.ext h.1 h.2
  · rintro ⟨i, hl, hp⟩
    unfold Kernel.liveE at hl; simp only [Bool.and_eq_true, decide_eq_true_eq, Bool.not_eq_true'] at hl
    refine ⟨i, List.mem_range.mpr hl.1, ?_⟩
    simp only [Bool.and_eq_true, Bool.not_eq_true', Bool.or_eq_true, beq_iff_eq]
    refine ⟨hl.2, ?_⟩
    rcases hp with h | h
    · left; rw [h]; exact ⟨rfl, rfl⟩
    · right; rw [h]; exact ⟨rfl, rfl⟩

/-- edge `i` is live and joins `a` and `b` (in either direction) -/
def Joins (k : Kernel) (a b i : Nat) : Prop := k.liveE i = true ∧ (k.edgeAt i = (a, b) ∨ k.edgeAt i = (b, a))

/-- the candidates of the cache-guided search are exactly the live edges joining the two vertices -/
theorem mem_buMatches {k : Kernel} (hV : CacheInvV k) (hb : k.vBU = true) {a : Nat} (ha : a < k.nV) (b i : Nat) :
    i ∈ ((k.outOf a).filter (fun he => k.toV he == b)).map eOf ↔ Joins k a b i := by
  have hperm := (hV hb).2 a ha
  rw [List.mem_map]
  constructor
  · rintro ⟨x, hxf, rfl⟩
    rw [List.mem_filter] at hxf
    obtain ⟨hx, hp⟩ := hxf
    have hx' := (mem_sOut_iff k a x).mp (hperm.mem_iff.mp hx)
    have hp' : k.toV x = b := by simpa using hp
    refine ⟨hx'.1, ?_⟩
    have hcase : x = 2 * eOf x ∨ x = 2 * eOf x + 1 := by unfold eOf; omega
    rcases hcase with hc | hc
    · left
      have h1 := hx'.2; have h2 := hp'
      rw [hc, fromV_even] at h1; rw [hc, toV_even] at h2
      exact Prod.ext h1 h2
    · right
      have h1 := hx'.2; have h2 := hp'
      rw [hc, fromV_odd'] at h1; rw [hc, toV_odd] at h2
      exact Prod.ext h2 h1
  · rintro ⟨hl, hp⟩
    rcases hp with h | h
    · refine ⟨2 * i, List.mem_filter.mpr ⟨hperm.mem_iff.mpr ((mem_sOut_iff k a _).mpr ⟨?_, ?_⟩), ?_⟩, by unfold eOf; omega⟩
      · rw [show eOf (2 * i) = i by unfold eOf; omega]; exact hl
      · rw [fromV_even, h]
      · rw [toV_even, h]; simp
    · refine ⟨2 * i + 1, List.mem_filter.mpr ⟨hperm.mem_iff.mpr ((mem_sOut_iff k a _).mpr ⟨?_, ?_⟩), ?_⟩, by unfold eOf; omega⟩
      · rw [show eOf (2 * i + 1) = i by unfold eOf; omega]; exact hl
      · rw [fromV_odd', h]
      · rw [toV_odd, h]; simp

theorem scanPred_iff (k : Kernel) (a b i : Nat) (hi : i < k.nE) :
    (!k.eDeleted i && ((k.edgeAt i).1 == a && (k.edgeAt i).2 == b || (k.edgeAt i).1 == b && (k.edgeAt i).2 == a)) = true ↔
      Joins k a b i := by
  unfold Joins Kernel.liveE
  simp only [Bool.and_eq_true, Bool.not_eq_true', Bool.or_eq_true, beq_iff_eq, decide_eq_true_eq]
  constructor
  · rintro ⟨hd, hp⟩
    refine ⟨⟨hi, hd⟩, ?_⟩
    rcases hp with h | h
    · left; exact Prod.ext h.1 h.2
    · right; exact Prod.ext h.1 h.2
  · rintro ⟨⟨_, hd⟩, hp⟩
    refine ⟨hd, ?_⟩
    rcases hp with h | h
    · left; rw [h]; exact ⟨rfl, rfl⟩
    · right; rw [h]; exact ⟨rfl, rfl⟩

theorem joins_lt {k : Kernel} {a b i : Nat} (h : Joins k a b i) : i < k.nE := by
  have := h.1; unfold Kernel.liveE at this; simp at this; exact this.1

/-- **since 8c92632 the duplicate search of `add_edge` does not depend on the vertex incidences**: under the cache
    invariant the cache-guided search and the linear scan return the same edge — the live edge joining the two
    vertices with the smallest index — or both nothing -/
theorem findEdgeBU_eq_scan {k : Kernel} (hV : CacheInvV k) (hb : k.vBU = true) {a : Nat} (ha : a < k.nV) (b : Nat) :
    k.findEdgeBU a b = k.findEdgeScan a b := by
  unfold findEdgeBU findEdgeScan
  cases hs : (List.range k.nE).find? (fun i =>
      let e := k.edgeAt i
      !k.eDeleted i && ((e.1 == a && e.2 == b) || (e.1 == b && e.2 == a))) with
  | none =>
    rw [List.min?_eq_none_iff, List.eq_nil_iff_forall_not_mem]
    intro i hm
    have hj := (mem_buMatches hV hb ha b i).mp hm
    have := List.find?_eq_none.mp hs i (List.mem_range.mpr (joins_lt hj))
    exact this ((scanPred_iff k a b i (joins_lt hj)).mpr hj)
  | some i =>
    rw [List.find?_range_eq_some] at hs
    obtain ⟨hp, hir, hmin⟩ := hs
    have hi := List.mem_range.mp hir
    rw [List.min?_eq_some_iff]
    refine ⟨(mem_buMatches hV hb ha b i).mpr ((scanPred_iff k a b i hi).mp hp), ?_⟩
    intro x hx
    have hj := (mem_buMatches hV hb ha b x).mp hx
    rcases Nat.lt_or_ge x i with hlt | hge
    · have := hmin x hlt
      rw [(scanPred_iff k a b x (joins_lt hj)).mpr hj] at this
      cases this
    · exact hge

theorem findEdgeBU_isSome {k : Kernel} (hw : WF k) (hb : k.vBU = true) {a : Nat} (ha : a < k.nV) (b : Nat) :
    (k.findEdgeBU a b).isSome = true ↔ EdgeBetween k a b := by
  rw [findEdgeBU_eq_scan hw.cache.v hb ha b]; exact findEdgeScan_isSome k a b

/-- the search `add_edge` performs, in every bottom-up configuration -/
theorem findEdge_eq_scan {k : Kernel} (hw : WF k) {a : Nat} (ha : a < k.nV) (b : Nat) (d : Bool) :
    k.findEdge a b d = if d then none else k.findEdgeScan a b := by
  unfold findEdge
  cases d
  · simp only [Bool.false_eq_true, if_false]
    split
    · rename_i hb; exact findEdgeBU_eq_scan hw.cache.v hb ha b
    · rfl
  · rfl

theorem find?_congr' {α} (l : List α) (p q : α → Bool) (h : ∀ x ∈ l, p x = q x) : l.find? p = l.find? q := by
  induction l with
  | nil => rfl
  | cons a t ih =>
    simp only [List.find?_cons]
    rw [h a (List.mem_cons_self), ih (fun x hx => h x (List.mem_cons_of_mem _ hx))]

theorem same_findEdgeScan {k1 k2 : Kernel} (s : SameDefs k1 k2) (a b : Nat) : k1.findEdgeScan a b = k2.findEdgeScan a b := by
  unfold findEdgeScan
  rw [show k2.nE = k1.nE by unfold Kernel.nE; exact s.nE.symm]
  apply find?_congr'
  intro i hi
  have hi' := List.mem_range.mp hi
  cases hd : k1.eDeleted i with
  | true =>
    have : k2.eDeleted i = true := by unfold eDeleted at *; rw [← s.eDel]; exact hd
    simp [this]
  | false =>
    have hd2 : k2.eDeleted i = false := by unfold eDeleted at *; rw [← s.eDel]; exact hd
    have hl : k1.liveE i = true := by unfold Kernel.liveE; simp [hi', hd]
    simp only [hd2, s.edgeAt i hl]

theorem same_findEdge {k1 k2 : Kernel} (s : SameDefs k1 k2) (w1 : WF k1) (w2 : WF k2) {a : Nat} (ha : a < k1.nV)
    (b : Nat) (d : Bool) : k1.findEdge a b d = k2.findEdge a b d := by
  rw [findEdge_eq_scan w1 ha, findEdge_eq_scan w2 (by rw [← s.nV]; exact ha), same_findEdgeScan s]

theorem same_edgeBetween {k1 k2 : Kernel} (s : SameDefs k1 k2) (a b : Nat) : EdgeBetween k1 a b ↔ EdgeBetween k2 a b := by
  unfold EdgeBetween
  constructor
  · rintro ⟨i, hl, hp⟩; exact ⟨i, by rw [← s.liveE]; exact hl, by rw [← s.edgeAt i hl]; exact hp⟩
  · rintro ⟨i, hl, hp⟩
    have hl' : k1.liveE i = true := by rw [s.liveE]; exact hl
    exact ⟨i, hl', by rw [s.edgeAt i hl']; exact hp⟩

theorem findEdge_isSome {k : Kernel} (hw : WF k) {a : Nat} (ha : a < k.nV) (b : Nat) (d : Bool) :
    (k.findEdge a b d).isSome = true ↔ (d = false ∧ EdgeBetween k a b) := by
  unfold findEdge
  cases d
  · simp only [Bool.false_eq_true, if_false, true_and]
    split
    · rename_i hb; exact findEdgeBU_isSome hw hb ha b
    · exact findEdgeScan_isSome k a b
  · simp

theorem same_addEdgeCore {k1 k2 : Kernel} (s : SameDefs k1 k2) (a b : Nat) :
    SameDefs (k1.addEdgeCore a b) (k2.addEdgeCore a b) := by
  obtain ⟨a1, a2, a3, a4, a5⟩ := addEdgeCore_frames k1 a b
  obtain ⟨b1, b2, b3, b4, b5⟩ := addEdgeCore_frames k2 a b
  have fast : ∀ k : Kernel, (k.addEdgeCore a b).fast = k.fast := fun k => by
    unfold addEdgeCore; simp only; split <;> split <;> rfl
  refine ⟨by simpa using s.nV, by simp [s.nE], by simpa using s.nF, by simpa using s.nC,
    by simpa using s.vDel, by simp [s.eDel], by simpa using s.fDel, by simpa using s.cDel,
    by rw [a5, b5, s.nDelV], by rw [a4, b4, s.nDelE], by rw [a3, b3, s.nDelF], by rw [a2, b2, s.nDelC],
    by rw [a1, b1, s.deferred], by rw [fast, fast, s.fast],
    by rw [addEdgeCore_props, addEdgeCore_props, s.props]; unfold Kernel.nE; rw [s.nE], ?_, ?_, ?_⟩
  · intro e hl
    unfold Kernel.liveE Kernel.nE eDeleted at hl
    simp only [addEdgeCore_edges, addEdgeCore_eDel, Bool.and_eq_true, decide_eq_true_eq, Bool.not_eq_true',
      getD_snoc_false] at hl
    unfold edgeAt; rw [addEdgeCore_edges, addEdgeCore_edges]
    rcases snoc_getD_cases k1.edges (a, b) (0, 0) e hl.1 with ⟨h1, h2⟩ | ⟨h1, h2⟩
    · rw [h2, snoc_getD_lt _ _ _ _ (by rw [← s.nE]; exact h1)]
      exact s.edgeAt e (by unfold Kernel.liveE Kernel.nE eDeleted; rw [hl.2]; simp [h1])
    · rw [h2, h1, s.nE]; simp [List.getD_eq_getElem?_getD]
  · intro f hl
    rw [liveF_of_eq (addEdgeCore_faces k1 a b) (addEdgeCore_fDel k1 a b)] at hl
    rw [faceAt_of_eq (addEdgeCore_faces k1 a b), faceAt_of_eq (addEdgeCore_faces k2 a b)]; exact s.faceAt f hl
  · intro c hl
    rw [liveC_of_eq (addEdgeCore_cells k1 a b) (addEdgeCore_cDel k1 a b)] at hl
    rw [cellAt_of_eq (addEdgeCore_cells k1 a b), cellAt_of_eq (addEdgeCore_cells k2 a b)]; exact s.cellAt c hl

/-- `add_edge`: same resulting mesh AND same returned handle in every bottom-up configuration (8c92632) -/
theorem same_addEdge {k1 k2 : Kernel} (s : SameDefs k1 k2) (w1 : WF k1) (w2 : WF k2) {a : Nat} (ha : a < k1.nV)
    (b : Nat) (d : Bool) :
    SameDefs (k1.addEdge a b d).1 (k2.addEdge a b d).1 ∧ (k1.addEdge a b d).2 = (k2.addEdge a b d).2 := by
  have h := same_findEdge s w1 w2 ha b d
  unfold addEdge
  rw [← h]
  cases k1.findEdge a b d with
  | none => exact ⟨same_addEdgeCore s a b, by show k1.edges.length = k2.edges.length; exact s.nE⟩
  | some e => exact ⟨s, rfl⟩

/-! ### add_face(vertices): find-or-create every edge (same handles), then the unchecked add_face -/

theorem same_addFaceV {k1 k2 : Kernel} (s : SameDefs k1 k2) (i1 : GInv k1) (i2 : GInv k2) {vs : List Nat}
    (hv : ∀ v ∈ vs, VOk k1 v) : SameDefs (k1.addFaceV vs).1 (k2.addFaceV vs).1 := by
  unfold addFaceV
  cases vs with
  | nil => exact { s with }
  | cons v0 t =>
    simp only
    have key : ∀ (ps : List (Nat × Nat)) (st1 st2 : Kernel × List Nat), (∀ p ∈ ps, VOk k1 p.1 ∧ VOk k1 p.2) →
        GInv st1.1 → GInv st2.1 → SameDefs st1.1 st2.1 → st1.2 = st2.2 → st1.1.nV = k1.nV → st1.1.vDel = k1.vDel →
        let step := fun (k0 : Kernel) (st : Kernel × List Nat) (ab : Nat × Nat) =>
          ((st.1.addEdge ab.1 ab.2 false).1,
           st.2 ++ [heOf (st.1.addEdge ab.1 ab.2 false).2
             (if (((st.1.addEdge ab.1 ab.2 false).1).edgeAt (st.1.addEdge ab.1 ab.2 false).2).2 == ab.1 then 1 else 0)])
        SameDefs (ps.foldl (step k1) st1).1 (ps.foldl (step k2) st2).1 ∧
          (ps.foldl (step k1) st1).2 = (ps.foldl (step k2) st2).2 := by
      intro ps
      induction ps with
      | nil => intro st1 st2 _ _ _ hs he _ _; exact ⟨hs, he⟩
      | cons p ps ih =>
        intro st1 st2 hps g1 g2 hs he hn hvd
        simp only [List.foldl_cons]
        have hp := hps p (by simp)
        have ok1 : ∀ v, VOk k1 v → VOk st1.1 v := fun v h => ⟨by rw [hn]; exact h.1, by unfold vDeleted; rw [hvd]; exact h.2⟩
        have ok2 : ∀ v, VOk k1 v → VOk st2.1 v := fun v h =>
          ⟨by rw [← hs.nV, hn]; exact h.1, by unfold vDeleted; rw [← hs.vDel, hvd]; exact h.2⟩
        obtain ⟨sa, se⟩ := same_addEdge hs g1.wf g2.wf (ok1 _ hp.1).1 p.2 false
        have hlt := addEdge_result_lt st1.1 p.1 p.2 false g1.wf (ok1 _ hp.1).1
        have hlv := addEdge_result_live st1.1 p.1 p.2 false g1.wf (ok1 _ hp.1).1
        have hedge : (st1.1.addEdge p.1 p.2 false).1.edgeAt (st1.1.addEdge p.1 p.2 false).2 =
            (st2.1.addEdge p.1 p.2 false).1.edgeAt (st2.1.addEdge p.1 p.2 false).2 := by
          rw [← se]
          exact sa.edgeAt _ (by unfold Kernel.liveE; rw [hlv]; simp [hlt])
        apply ih
        · intro q hq; exact hps q (by simp [hq])
        · exact ginv_addEdge false (ok1 _ hp.1) (ok1 _ hp.2) g1
        · exact ginv_addEdge false (ok2 _ hp.1) (ok2 _ hp.2) g2
        · exact sa
        · show st1.2 ++ _ = st2.2 ++ _
          rw [he, hedge, se]
        · rw [addEdge_nV]; exact hn
        · rw [addEdge_vDel]; exact hvd
    have hpairs : ∀ p ∈ (v0 :: t).zip ((v0 :: t).tail ++ [v0]), VOk k1 p.1 ∧ VOk k1 p.2 := by
      intro p hp
      have h1 := (List.of_mem_zip hp).1
      have h2 := (List.of_mem_zip hp).2
      refine ⟨hv _ h1, ?_⟩
      simp only [List.tail_cons, List.mem_append, List.mem_singleton] at h2
      rcases h2 with h2 | h2
      · exact hv _ (by simp [h2])
      · rw [h2]; exact hv _ (by simp)
    obtain ⟨hs, he⟩ := key _ (k1, []) (k2, []) hpairs i1 i2 s rfl rfl rfl
    rw [← he]
    unfold addFace addFaceAccepts
    simp only [Bool.not_false, Bool.true_or, if_true]
    exact same_addFaceCore hs _

/-! ### assembly -/

/-- what `same_step_partial` covers.  NOT covered:
    * immediate (`deferred = false`) `delete_*` and a `collect_garbage` / `enable_deferred_deletion(false)` that
      actually collects: not proved here (the explicit results of the erase stages — `imm_faceCore`, `imm_edgeCore`,
      OVM/Refine/CacheImmediate.lean; `gcStep*`, OVM/Refine/CacheFastGC.lean — are stated per configuration, a
      relational version over the closure folds is missing).
    (`add_face(vertices)` is covered since 8c92632: the duplicate search of `add_edge` returns the smallest matching
    edge in every configuration, `findEdgeBU_eq_scan`; before, it was false with duplicate live edges —
    /verif/findings/C12-add-edge-duplicate-order.md.) -/
def BUCovered (k : Kernel) : Op → Prop
  | .deleteVertex _ => k.deferred = true
  | .deleteEdge _ => k.deferred = true
  | .deleteFace _ => k.deferred = true
  | .deleteCell _ => k.deferred = true
  | .collectGarbage => ¬ (k.deferred = true ∧ k.needsGC = true)
  | .enableDeferred b => ¬ (k.deferred = true ∧ b = false ∧ k.needsGC = true)
  | _ => True

theorem SameDefs.needsGC {k1 k2 : Kernel} (s : SameDefs k1 k2) : k1.needsGC = k2.needsGC := by
  unfold Kernel.needsGC; rw [s.nDelV, s.nDelE, s.nDelF, s.nDelC]

theorem same_enableDeferred_noGC {k1 k2 : Kernel} (s : SameDefs k1 k2) (b : Bool)
    (h : ¬ (k1.deferred = true ∧ b = false ∧ k1.needsGC = true)) :
    SameDefs (k1.enableDeferred b) (k2.enableDeferred b) := by
  have e : ∀ k : Kernel, ¬ (k.deferred = true ∧ b = false ∧ k.needsGC = true) →
      k.enableDeferred b = { k with deferred := b } := by
    intro k hk
    unfold enableDeferred
    simp only
    split
    · rename_i hc
      simp only [Bool.and_eq_true, Bool.not_eq_true'] at hc
      rw [collectGarbage_id (fun hh => hk ⟨hh.1, hc.2, hh.2⟩)]
    · rfl
  rw [e k1 h, e k2 (by rw [← s.deferred, ← s.needsGC]; exact h)]
  exact same_withDeferred s b

/-- **bottom-up incidences are optional, one step**: two states satisfying the global invariant that agree on
    everything but the caches (in any two of the 8 × 8 pairs of bottom-up configurations) are taken by the same valid
    call to two states that again agree on everything but the caches (`_partial`: see `BUCovered`) -/
theorem same_step_partial {k1 k2 : Kernel} (s : SameDefs k1 k2) (i1 : GInv k1) (i2 : GInv k2) (op : Op)
    (hok : OpOK k1 op) (hc : BUCovered k1 op) : SameDefs (k1.step op).1 (k2.step op).1 := by
  cases op with
  | addVertex => exact same_addVertex s
  | addNVertices n => exact same_addNVertices s n
  | addEdge a b d => exact (same_addEdge s i1.wf i2.wf hok.1.1 b d).1
  | addFaceHe c hes => exact same_addFace s c hok
  | addFaceV vs => exact same_addFaceV s i1 i2 hok
  | addCell c hfs => exact same_addCell s c (fun h hm => (hok.1 h hm).1)
  | setEdge e a b => exact same_setEdge s e a b
  | setFace f hes => exact same_setFace s f hes
  | setCell c hfs => exact same_setCell s c hfs
  | deleteVertex v => exact same_deleteVertex_deferred s i1 i2 hc v
  | deleteEdge e => exact same_deleteEdge_deferred s i1 i2 hc e
  | deleteFace f => exact same_deleteFace_deferred s i1 i2 hc f
  | deleteCell c => exact same_deleteCell_deferred s hc c
  | swapVertex a b => exact same_swapVertex s i1.wf i2.wf hok.1 hok.2
  | swapEdge a b => exact same_swapEdge s i1.wf i2.wf hok.1 hok.2
  | swapFace a b => exact same_swapFace s i1.wf i2.wf i1.one i2.one hok.1 hok.2
  | swapCell a b => exact same_swapCell s i1.wf hok.1 hok.2
  | collectGarbage =>
    show SameDefs k1.collectGarbage k2.collectGarbage
    rw [collectGarbage_id hc, collectGarbage_id (by rw [← s.deferred, ← s.needsGC]; exact hc)]
    exact s
  | enableDeferred b => exact same_enableDeferred_noGC s b hc
  | enableFast b => exact same_enableFast s b
  | enableBU kind b =>
    simp only [step]
    split
    · exact same_of_frame s (frame_enableVBU k1 b) (frame_enableVBU k2 b)
    · split
      · exact same_of_frame s (frame_enableEBU k1 b) (frame_enableEBU k2 b)
      · exact same_of_frame s (frame_enableFBU k1 b) (frame_enableFBU k2 b)
  | clear p => exact same_clear s p

theorem SameDefs.symm {k1 k2 : Kernel} (s : SameDefs k1 k2) : SameDefs k2 k1 :=
  ⟨s.nV.symm, s.nE.symm, s.nF.symm, s.nC.symm, s.vDel.symm, s.eDel.symm, s.fDel.symm, s.cDel.symm, s.nDelV.symm,
   s.nDelE.symm, s.nDelF.symm, s.nDelC.symm, s.deferred.symm, s.fast.symm, s.props.symm,
   fun e h => (s.edgeAt e (by rw [s.liveE]; exact h)).symm, fun e h => (s.faceAt e (by rw [s.liveF]; exact h)).symm,
   fun e h => (s.cellAt e (by rw [s.liveC]; exact h)).symm⟩

/-- toggling a bottom-up kind on one side only keeps the relation: disabling / re-enabling touches nothing else -/
theorem same_toggle_left {k1 k2 : Kernel} (s : SameDefs k1 k2) (kind : Nat) (b : Bool) :
    SameDefs (k1.step (.enableBU kind b)).1 k2 := by
  simp only [step]
  split
  · exact same_of_frame s (frame_enableVBU k1 b) (Frame.refl k2)
  · split
    · exact same_of_frame s (frame_enableEBU k1 b) (Frame.refl k2)
    · exact same_of_frame s (frame_enableFBU k1 b) (Frame.refl k2)

/-- the valid-argument conditions do not depend on the bottom-up configuration -/
theorem same_opOK {k1 k2 : Kernel} (s : SameDefs k1 k2) (op : Op) (hok : OpOK k1 op) : OpOK k2 op := by
  have v : ∀ x, VOk k1 x → VOk k2 x := fun x h => ⟨by rw [← s.nV]; exact h.1, by unfold vDeleted; rw [← s.vDel]; exact h.2⟩
  have he : ∀ x, HeOk k1 x → HeOk k2 x := fun x h =>
    ⟨by unfold Kernel.nHE; rw [← s.nE]; exact h.1, by unfold eDeleted; rw [← s.eDel]; exact h.2⟩
  have hf : ∀ x, HfOk k1 x → HfOk k2 x := fun x h =>
    ⟨by unfold Kernel.nHF; rw [← s.nF]; exact h.1, by unfold fDeleted; rw [← s.fDel]; exact h.2⟩
  cases op with
  | addVertex => trivial
  | addNVertices n => trivial
  | addEdge a b d => exact ⟨v _ hok.1, v _ hok.2⟩
  | addFaceHe c hes => exact fun h hm => he _ (hok h hm)
  | addFaceV vs => exact fun x hm => v _ (hok x hm)
  | addCell c hfs =>
    refine ⟨fun x hm => ⟨hf _ (hok.1 x hm).1, ?_⟩, hok.2⟩
    rw [sCellOf_none_iff]
    intro c' hl hmem
    have hl' : k1.liveC c' = true := by rw [s.liveC]; exact hl
    exact (sCellOf_none_iff k1 x).mp (hok.1 x hm).2 c' hl' (by rw [s.cellAt c' hl']; exact hmem)
  | setEdge e a b =>
    exact ⟨⟨by unfold Kernel.nE; rw [← s.nE]; exact hok.1.1, by unfold eDeleted; rw [← s.eDel]; exact hok.1.2⟩,
      v _ hok.2.1, v _ hok.2.2⟩
  | setFace f hes =>
    exact ⟨⟨by unfold Kernel.nF; rw [← s.nF]; exact hok.1.1, by unfold fDeleted; rw [← s.fDel]; exact hok.1.2⟩,
      fun h hm => he _ (hok.2 h hm)⟩
  | setCell c hfs =>
    refine ⟨⟨by unfold Kernel.nC; rw [← s.nC]; exact hok.1.1, by unfold cDeleted; rw [← s.cDel]; exact hok.1.2⟩,
      fun x hm => ⟨hf _ (hok.2.1 x hm).1, ?_⟩, hok.2.2⟩
    intro c' hc'
    unfold sCellsOfHf at hc'
    rw [List.mem_filter, mem_liveCells] at hc'
    have hl' : k1.liveC c' = true := by rw [s.liveC]; exact hc'.1
    apply (hok.2.1 x hm).2 c'
    unfold sCellsOfHf
    rw [List.mem_filter, mem_liveCells]
    exact ⟨hl', by rw [s.cellAt c' hl']; exact hc'.2⟩
  | deleteVertex x => show x < k2.nV; rw [← s.nV]; exact hok
  | deleteEdge x => show x < k2.edges.length; rw [← s.nE]; exact hok
  | deleteFace x => show x < k2.faces.length; rw [← s.nF]; exact hok
  | deleteCell x => show x < k2.cells.length; rw [← s.nC]; exact hok
  | swapVertex a b => exact ⟨by rw [← s.nV]; exact hok.1, by rw [← s.nV]; exact hok.2⟩
  | swapEdge a b => exact ⟨by unfold Kernel.nE; rw [← s.nE]; exact hok.1, by unfold Kernel.nE; rw [← s.nE]; exact hok.2⟩
  | swapFace a b => exact ⟨by unfold Kernel.nF; rw [← s.nF]; exact hok.1, by unfold Kernel.nF; rw [← s.nF]; exact hok.2⟩
  | swapCell a b => exact ⟨by unfold Kernel.nC; rw [← s.nC]; exact hok.1, by unfold Kernel.nC; rw [← s.nC]; exact hok.2⟩
  | collectGarbage => trivial
  | enableDeferred b => trivial
  | enableFast b => trivial
  | enableBU kind b => trivial
  | clear p => trivial

/-- histories all of whose calls are covered -/
def HistoryCovered : Kernel → List Op → Prop
  | _, [] => True
  | k, op :: t => BUCovered k op ∧ HistoryCovered (k.step op).1 t

/-- **history version**: the same history of valid, covered calls run in two bottom-up configurations -/
theorem same_run_partial (ops : List Op) : ∀ {k1 k2 : Kernel}, SameDefs k1 k2 → GInv k1 → GInv k2 →
    HistoryOK k1 ops → HistoryCovered k1 ops →
    SameDefs (k1.run ops) (k2.run ops) ∧ GInv (k1.run ops) ∧ GInv (k2.run ops) := by
  induction ops with
  | nil => intro k1 k2 s i1 i2 _ _; exact ⟨s, i1, i2⟩
  | cons op t ih =>
    intro k1 k2 s i1 i2 hr hc
    simp only [run, List.foldl_cons]
    exact ih (same_step_partial s i1 i2 op hr.1 hc.1) (ginv_step k1 op i1 hr.1)
      (ginv_step k2 op i2 (same_opOK s op hr.1)) hr.2 hc.2

/-! ### regression for /verif/findings/C12-add-edge-duplicate-order.md (test, not a proof) -/

/-- two live edges join vertices 0 and 1; after `swap_edge_indices(0,1)` the vertex cache lists them in the order
    e1, e0.  The two states differ only in the vertex cache being enabled.  Before 8c92632 `add_edge(0,1)` returned e1
    through the cache and e0 by the scan (and `add_face({0,1,2})` stored halfedge 2 resp. 0); now both return e0. -/
example :
    let pre : List Op := [.addNVertices 3, .addEdge 0 1 false, .addEdge 0 1 true, .addEdge 1 2 false, .addEdge 2 0 false,
                          .swapEdge 0 1]
    let k1 := run {} pre
    let k2 := run {} (pre ++ [.enableBU 0 false])
    historyOKB {} (pre ++ [.enableBU 0 false, .addFaceV [0, 1, 2]]) = true ∧ k1.outOf 0 = [2, 0, 7] ∧
    (k1.step (.addEdge 0 1 false)).2 = 0 ∧ (k2.step (.addEdge 0 1 false)).2 = 0 ∧
    (k1.step (.addFaceV [0, 1, 2])).1.faces = [[0, 4, 6]] ∧ (k2.step (.addFaceV [0, 1, 2])).1.faces = [[0, 4, 6]] := by
  decide

end Global
end Kernel
end OVM

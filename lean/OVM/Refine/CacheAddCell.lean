import OVM.Refine.CacheReorder
/-
  `WF` under `add_cell` (TopologyKernel.cc:378-489).  Storing the cell and pointing its halffaces
  to it preserves the invariant exactly when the halffaces exist and none is already used by a
  live cell (`HfsFree`, C01's stated precondition).  The `reorder` loop that follows (only when
  the edge and face kinds are both on) only rearranges slots (OVM/Refine/CacheReorder.lean).
-/
namespace OVM
namespace Kernel

/-- `add_cell` up to (not including) its `reorder` loop: the cell is stored and, if the face kind
    is on, every halfface of it points to the new cell (TopologyKernel.cc:438-473) -/
def addCellPre (k : Kernel) (hfs : List Nat) : Kernel :=
  { k with cells := k.cells ++ [hfs], cDel := k.cDel ++ [false], props := resizeC k.props (k.nC + 1),
           incCell := if k.fBU then hfs.foldl (fun ic hf => ic.set hf (some k.nC)) k.incCell else k.incCell }

theorem addCellCore_eq (k : Kernel) (hfs : List Nat) :
    k.addCellCore hfs =
      if k.fBU && k.eBU then ((k.addCellPre hfs).cellEdges hfs).foldl reorder (k.addCellPre hfs)
      else k.addCellPre hfs := by
  unfold addCellCore addCellPre
  cases hf : k.fBU <;> cases he : k.eBU <;> simp [hf, he, nC]

theorem foldSet_getD {α} (x d : α) (hfs : List Nat) (ic : List α) (v : Nat) (hv : v < ic.length) :
    (hfs.foldl (fun ic hf => ic.set hf x) ic).getD v d = if v ∈ hfs then x else ic.getD v d := by
  induction hfs generalizing ic with
  | nil => simp
  | cons a t ih =>
    simp only [List.foldl_cons]
    rw [ih _ (by simpa using hv), getD_set _ _ _ _ _ hv]
    by_cases hm : v ∈ t
    · simp [hm]
    · by_cases ha : a = v
      · simp [ha]
      · simp [hm, ha, Ne.symm ha]

/-- the scan after appending a live cell with halffaces `hfs` -/
theorem sCellOf_snoc (k k' : Kernel) (hfs : List Nat) (hc : k'.cells = k.cells ++ [hfs]) (hd : k'.cDel = k.cDel ++ [false])
    (hl : k.cDel.length = k.nC) (hf : Nat) :
    k'.sCellOf hf = (k.sCellOf hf).or (if hf ∈ hfs then some k.nC else none) := by
  have hn : k'.nC = k.nC + 1 := by unfold nC; rw [hc]; simp
  unfold sCellOf sCellsOfHf
  rw [liveCells_eq, liveCells_eq, hn, hd, liveIdx_snoc _ _ hl, List.filter_append, List.head?_append]
  congr 1
  · congr 1
    apply List.filter_congr
    intro c hm
    have : c < k.cells.length := mem_liveIdx_lt hm
    simp [cellAt, hc, List.getD_eq_getElem?_getD, List.getElem?_append, this]
  · have : k'.cellAt k.nC = hfs := by simp [cellAt, hc, nC, List.getD_eq_getElem?_getD]
    simp only [List.filter_cons, this, List.filter_nil, List.contains_iff_mem]
    split <;> rfl

/-- C01's stated precondition, at the call: no halfface handed to `add_cell` is already used by a
    live cell.  At the excluded point the C++ overwrites `incident_cell_per_hf_[hf]` with the new
    cell (cc:466, with the remark "Not if the user intends to add non-manifold configurations")
    while the first live cell containing `hf` stays the old one. -/
def HfsFree (k : Kernel) (hfs : List Nat) : Prop := ∀ hf ∈ hfs, k.sCellOf hf = none

theorem cacheInvF_addCellPre (k : Kernel) (hfs : List Nat) (hl : LenInv k) (hfree : HfsFree k hfs) (h : CacheInvF k) :
    CacheInvF (k.addCellPre hfs) := by
  intro hb
  have hb' : k.fBU = true := hb
  obtain ⟨h1, h2⟩ := h hb'
  have hN : (k.addCellPre hfs).nHF = k.nHF := rfl
  have hic : (k.addCellPre hfs).incCell = hfs.foldl (fun ic hf => ic.set hf (some k.nC)) k.incCell := by
    simp [addCellPre, hb']
  refine ⟨by rw [hic, length_foldl_set_opt, hN]; exact h1, fun v hv => ?_⟩
  rw [hN] at hv
  rw [sCellOf_snoc k _ hfs rfl rfl hl.cDel]
  unfold cellOf
  rw [hic, foldSet_getD _ _ _ _ _ (by rw [h1]; exact hv)]
  by_cases hm : v ∈ hfs
  · simp [hm, hfree v hm]
  · have := h2 v hv
    unfold cellOf at this
    rw [if_neg hm, if_neg hm, this]; simp

theorem cacheInv_addCellPre (k : Kernel) (hfs : List Nat) (hl : LenInv k) (hfree : HfsFree k hfs) (h : CacheInv k) :
    CacheInv (k.addCellPre hfs) :=
  { v := cacheInvV_congr k _ rfl rfl rfl rfl rfl h.v
    e := cacheInvE_congr k _ rfl rfl rfl rfl rfl h.e
    f := cacheInvF_addCellPre k hfs hl hfree h.f }

/-- the halffaces of the new cell must exist: `add_cell`'s asserted precondition
    (TopologyKernel.cc:380-385 and :453); with NDEBUG the C++ writes `incident_cell_per_hf_[hfh]`
    out of bounds at cc:466 for such an argument. -/
theorem rangeInv_addCellPre (k : Kernel) (hfs : List Nat) (hh : ∀ hf ∈ hfs, hf < k.nHF) (hr : RangeInv k) :
    RangeInv (k.addCellPre hfs) :=
  { edges := hr.edges
    faces := hr.faces
    cells := by
      intro c hm h hx
      have hm' : c ∈ k.cells ++ [hfs] := hm
      rw [List.mem_append, List.mem_singleton] at hm'
      show h < k.nHF
      rcases hm' with hm' | rfl
      · exact hr.cells c hm' h hx
      · exact hh h hx }

theorem wf_addCellCore (k : Kernel) (hfs : List Nat) (hh : ∀ hf ∈ hfs, hf < k.nHF) (hfree : HfsFree k hfs)
    (h : WF k) : WF (k.addCellCore hfs) := by
  refine ⟨lenInv_addCellCore k hfs h.len, ?_, ?_⟩
  · rw [addCellCore_eq]; split
    · exact rangeInv_foldl_reorder _ _ (rangeInv_addCellPre k hfs hh h.range)
    · exact rangeInv_addCellPre k hfs hh h.range
  · rw [addCellCore_eq]; split
    · exact cacheInv_foldl_reorder _ _ (cacheInv_addCellPre k hfs h.len hfree h.cache)
    · exact cacheInv_addCellPre k hfs h.len hfree h.cache

/-- `add_cell(halffaces, topologyCheck)` on existing halffaces none of which is used by a live
    cell: accepted (with or without the check) or rejected (state unchanged) -/
theorem wf_addCell (k : Kernel) (hfs : List Nat) (chk : Bool) (hh : ∀ hf ∈ hfs, hf < k.nHF)
    (hfree : HfsFree k hfs) (h : WF k) : WF (k.addCell hfs chk).1 := by
  unfold addCell; split
  · exact wf_addCellCore k hfs hh hfree h
  · exact h

theorem sum_map_eq_zero {α} (l : List α) (f : α → Nat) (h : (l.map f).sum = 0) : ∀ x ∈ l, f x = 0 := by
  induction l with
  | nil => intro x hx; cases hx
  | cons a t ih =>
    simp only [List.map_cons, List.sum_cons] at h
    intro x hx
    rcases List.mem_cons.mp hx with rfl | hx
    · omega
    · exact ih (by omega) x hx

/-- the hypothesis `HfsFree` in the property's own words: if after storing the new cell no
    halfface is used by two live cells (or twice by one), then none of the new cell's halffaces was
    used by a live cell before -/
theorem hfsFree_of_oneCell_post (k : Kernel) (hfs : List Nat) (hl : LenInv k) (hh : ∀ hf ∈ hfs, hf < k.nHF)
    (h1 : (k.addCellPre hfs).oneCell = true) : HfsFree k hfs := by
  intro hf hm
  unfold oneCell at h1
  simp only [List.all_eq_true, List.mem_range, decide_eq_true_eq] at h1
  have hs := h1 hf (hh hf hm)
  have hlive : (k.addCellPre hfs).liveCells = k.liveCells ++ [k.nC] := by
    rw [liveCells_eq, liveCells_eq]
    show liveIdx (k.cells ++ [hfs]).length (k.cDel ++ [false]) = _
    rw [List.length_append, List.length_singleton]
    exact liveIdx_snoc _ _ hl.cDel
  rw [hlive, List.map_append, List.sum_append] at hs
  have hnew : (k.addCellPre hfs).cellAt k.nC = hfs := by
    simp [cellAt, addCellPre, nC, List.getD_eq_getElem?_getD]
  simp only [List.map_cons, List.map_nil, List.sum_cons, List.sum_nil, hnew] at hs
  have hpos : 0 < hfs.count hf := List.count_pos_iff.mpr hm
  have hz := sum_map_eq_zero k.liveCells (fun c => ((k.addCellPre hfs).cellAt c).count hf) (by omega)
  unfold sCellOf sCellsOfHf
  rw [List.head?_filter, List.find?_eq_none]
  intro c hc
  have hcl : c < k.cells.length := mem_liveIdx_lt hc
  have := hz c hc
  have hat : (k.addCellPre hfs).cellAt c = k.cellAt c := by
    simp [cellAt, addCellPre, List.getD_eq_getElem?_getD, List.getElem?_append, hcl]
  rw [hat, List.count_eq_zero] at this
  simpa using this


theorem oneCell_congr (k k' : Kernel) (hf : k'.faces.length = k.faces.length) (hc : k'.cells = k.cells)
    (hd : k'.cDel = k.cDel) : k'.oneCell = k.oneCell := by
  unfold oneCell liveCells nHF nC cDeleted cellAt; rw [hf, hc, hd]

/-- `add_cell` stated with the property's own precondition: the mesh AFTER the call has no halfface
    in two live cells -/
theorem wf_addCell_of_oneCell (k : Kernel) (hfs : List Nat) (chk : Bool) (hh : ∀ hf ∈ hfs, hf < k.nHF)
    (h1 : (k.addCell hfs chk).1.oneCell = true) (h : WF k) : WF (k.addCell hfs chk).1 := by
  unfold addCell at h1 ⊢; split
  · rename_i ha
    rw [if_pos ha] at h1
    have h2 : (k.addCellPre hfs).oneCell = true := by
      rw [← h1]; exact (oneCell_congr _ _ (by simp [addCellPre]) (by simp [addCellPre]) (by simp [addCellPre])).symm
    exact wf_addCellCore k hfs hh (hfsFree_of_oneCell_post k hfs h.len hh h2) h
  · exact h

end Kernel
end OVM

import OVM.Kernel.Lookup
import OVM.Refine.Inv
import OVM.Refine.Range
import OVM.Refine.NextPrev
import OVM.Refine.FanLemmas
/-
  Lemmas for C10 (lookup queries, TopologyKernel.cc:1916-2230, hh:1098-1108) about the model functions of
  OVM/Kernel/Lookup.lean.  The property theorems that use them are in OVM/Props/C10.lean.

  * `find_halfface_in_cell` (cc:1982-2011): `findHalffaceInCell_sound` — a returned halfface is a halfface
    of the given cell and runs `v0 → v1 → v2` (`RunsThrough`), provided `incident_cell_per_hf_` does not send a
    halfface of the cell to another cell (`CellCacheOK`; follows from the cache invariant when no other
    not-deleted cell lists a halfface of this cell: `cellCacheOK_of_inv`, `cellExclusive_of_oneCell`).
    Only the first three vertices of the list are read by the C++ (and by the model); the statements
    therefore hold for every tail `rest`.  `findHalffaceInCell_complete`: no hypothesis at all.
  * `get_halfface_vertices(hf, vh)` (cc:2187-2209) and `(hf, heh)` (cc:2215-2218): rotation, start, absent
    vertex, the literal circulator reading `circulateFrom`.
  * `n_vertices_in_cell` (hh:1098-1108): `nVerticesInCell_spec`.
  * `find_halfedge_in_cell` (cc:1932-1949): `findHalfedgeInCell_sound`, `findHalfedgeInCell_none_iff`.
  * `find_halfface_extensive` (cc:2025-2068): `lastIdxOf_lt`, `rotation_of_all`, `all_of_rotation`,
    `lastIdxOf_getElem?`, `lastIdxOf_nodup`.
  * vertex form of `RunsThrough` on closed halfedge cycles (`HfCyclic`, executable `hfCyclicB`):
    `runsThrough_verts`, `runsThrough_of_verts`; unique halfedges `uniqHe`/`uniqHe_eq`;
    `cacheInv_of_cacheInvB` (executable test ⇒ `CacheInv`, for examples);
    `findHalffaceInCell_next_valid`, `findHalfedgeInCell_mem_closed`.
  `find_halfface_extensive` and `find_halfedge_in_cell` are part of the kernel model (Kernel/Lookup.lean) and the
  judge (Judge/Lookups.lean) calls those very functions, so no separate model is defined here.
  Core only.
-/
namespace OVM
namespace Kernel
namespace Lookup

/-! ### handle arithmetic -/

theorem halfedge_opp (k : Kernel) (h : Nat) : k.halfedge (opp h) = ((k.halfedge h).2, (k.halfedge h).1) := by
  unfold halfedge
  have h1 : eOf (opp h) = eOf h := xor_one_div h
  have h2 : side (opp h) = 1 - side h := xor_one_mod h
  rw [h1, h2]
  unfold side
  by_cases hh : h % 2 = 0
  · have : ¬ (1 - h % 2 = 0) := by omega
    simp [hh]
  · have : 1 - h % 2 = 0 := by omega
    simp [hh, this]

theorem fromV_opp (k : Kernel) (h : Nat) : k.fromV (opp h) = k.toV h := by
  unfold fromV toV; rw [halfedge_opp]
theorem toV_opp (k : Kernel) (h : Nat) : k.toV (opp h) = k.fromV h := by
  unfold fromV toV; rw [halfedge_opp]

/-- "`hf` runs `v0 → v1 → v2`": some halfedge `h` of `hf` goes from `v0` to `v1` and the halfedge
    `next_halfedge_in_halfface(h, hf)` ends in `v2` (this is literally what the C++ tests). -/
def RunsThrough (k : Kernel) (hf v0 v1 v2 : Nat) : Prop :=
  ∃ h ∈ k.hfHes hf, k.fromV h = v0 ∧ k.toV h = v1 ∧ ∃ h', k.nextHe h hf = some h' ∧ k.toV h' = v2

/-- the cache `incident_cell_per_hf_` does not send a halfface of cell `c` to another cell -/
def CellCacheOK (k : Kernel) (c : Nat) : Prop := ∀ hf ∈ k.cellAt c, ∀ c', k.cellOf hf = some c' → c' = c

theorem findHalffaceInCell_sound (k : Kernel) (c v0 v1 v2 : Nat) (rest : List Nat) (hf : Nat)
    (hc : CellCacheOK k c)
    (h : k.findHalffaceInCell (v0 :: v1 :: v2 :: rest) c = some hf) :
    hf ∈ k.cellAt c ∧ RunsThrough k hf v0 v1 v2 := by
  unfold findHalffaceInCell at h
  simp only at h
  obtain ⟨⟨hf0, he⟩, hm, hr⟩ := List.exists_of_findSome?_eq_some h
  simp only [List.mem_flatMap, List.mem_map, Prod.mk.injEq] at hm
  obtain ⟨x, hx, y, hy, e1, e2⟩ := hm
  subst e1; subst e2
  clear h
  simp only at hr
  split at hr
  · rename_i hcond
    simp only [Bool.and_eq_true, beq_iff_eq, Option.map_eq_some_iff] at hcond
    injection hr with hr; subst hr
    exact ⟨hx, y, hy, hcond.1.1, hcond.1.2, hcond.2⟩
  · split at hr
    · rename_i hcond
      simp only [Bool.and_eq_true, beq_iff_eq] at hcond
      cases ha : k.adjHalffaceInCell x y with
      | none => simp [ha] at hr
      | some hfo =>
        simp only [ha] at hr
        split at hr
        · rename_i hnx
          simp only [beq_iff_eq, Option.map_eq_some_iff] at hnx
          injection hr with hr; subst hr
          obtain ⟨c', hc1, _, hc3, _, _, _⟩ := Fan.adj_sound k x y hfo ha
          have := hc x hx c' hc1; subst this
          refine ⟨hc3, ?_⟩
          obtain ⟨h', hn, hv⟩ := hnx
          have hmem : opp y ∈ k.hfHes hfo := by
            unfold nextHe at hn
            simp only at hn
            cases hi : idxOf? (k.hfHes hfo) (opp y) with
            | none => simp [hi] at hn
            | some i =>
              obtain ⟨hi1, hi2⟩ := idxOf?_some hi
              rw [← hi2]; exact List.getElem_mem _
          exact ⟨opp y, hmem, by rw [fromV_opp]; exact hcond.2, by rw [toV_opp]; exact hcond.1,
            h', hn, hv⟩
        · cases hr
    · cases hr

/-! ### `List.rotateLeft` -/

theorem rotateLeft_eq_drop_take {α} (l : List α) (i : Nat) (hi : i < l.length) :
    l.rotateLeft i = l.drop i ++ l.take i := by
  unfold List.rotateLeft
  by_cases h : l.length ≤ 1
  · have : i = 0 := by omega
    subst this; simp [h]
  · simp [h, Nat.mod_eq_of_lt hi]

theorem rotateLeft_zero' {α} (l : List α) : l.rotateLeft 0 = l := by
  unfold List.rotateLeft
  by_cases h : l.length ≤ 1 <;> simp [h]

theorem rotateLeft_perm {α} (l : List α) (i : Nat) : (l.rotateLeft i).Perm l := by
  unfold List.rotateLeft
  by_cases h : l.length ≤ 1
  · simp [h]
  · simp only [h, if_false]
    exact List.perm_append_comm.trans (by rw [List.take_append_drop])

theorem length_rotateLeft' {α} (l : List α) (i : Nat) : (l.rotateLeft i).length = l.length :=
  (rotateLeft_perm l i).length_eq

theorem getElem?_rotateLeft {α} (l : List α) (i j : Nat) (hi : i < l.length) (hj : j < l.length) :
    (l.rotateLeft i)[j]? = l[(i + j) % l.length]? := by
  rw [rotateLeft_eq_drop_take l i hi]
  by_cases h : j < l.length - i
  · rw [List.getElem?_append_left (by simp; omega), List.getElem?_drop, Nat.mod_eq_of_lt (by omega)]
  · rw [List.getElem?_append_right (by simp; omega)]
    simp only [List.length_drop]
    have : (i + j) % l.length = j - (l.length - i) := by
      have : i + j = (j - (l.length - i)) + l.length := by omega
      rw [this, Nat.add_mod_right, Nat.mod_eq_of_lt (by omega)]
    rw [this, List.getElem?_take_of_lt (by omega)]

theorem head?_rotateLeft {α} (l : List α) (i : Nat) (hi : i < l.length) : (l.rotateLeft i).head? = l[i]? := by
  rw [List.head?_eq_getElem?, getElem?_rotateLeft l i 0 hi (by omega)]
  simp [Nat.mod_eq_of_lt hi]

/-! ### get_halfface_vertices -/

theorem hfVertsFrom_rotation (k : Kernel) (hf v : Nat) :
    ∃ i, k.hfVertsFrom hf v = (k.hfVerts hf).rotateLeft i := by
  unfold hfVertsFrom
  simp only
  cases idxOf? (k.hfVerts hf) v with
  | none => exact ⟨0, (rotateLeft_zero' _).symm⟩
  | some i => exact ⟨i, rfl⟩

theorem hfVertsFrom_perm (k : Kernel) (hf v : Nat) : (k.hfVertsFrom hf v).Perm (k.hfVerts hf) := by
  obtain ⟨i, hi⟩ := hfVertsFrom_rotation k hf v
  rw [hi]; exact rotateLeft_perm _ _

theorem idxOf?_isSome_of_mem {l : List Nat} {x : Nat} (h : x ∈ l) : ∃ i, idxOf? l x = some i := by
  unfold idxOf?
  have : l.findIdx (· == x) < l.length := List.findIdx_lt_length_of_exists ⟨x, h, by simp⟩
  exact ⟨l.findIdx (· == x), by simp [this]⟩

theorem idxOf?_none_of_not_mem {l : List Nat} {x : Nat} (h : x ∉ l) : idxOf? l x = none := by
  cases hi : idxOf? l x with
  | none => rfl
  | some i =>
    obtain ⟨h1, h2⟩ := idxOf?_some hi
    exact absurd (h2 ▸ List.getElem_mem h1) h

/-- starts with `v` whenever `v` is a vertex of the halfface -/
theorem hfVertsFrom_head (k : Kernel) (hf v : Nat) (hv : v ∈ k.hfVerts hf) :
    (k.hfVertsFrom hf v).head? = some v := by
  obtain ⟨i, hi⟩ := idxOf?_isSome_of_mem hv
  obtain ⟨h1, h2⟩ := idxOf?_some hi
  unfold hfVertsFrom
  simp only [hi]
  rw [head?_rotateLeft _ _ h1, List.getElem?_eq_getElem h1, h2]

theorem hfVertsFrom_absent (k : Kernel) (hf v : Nat) (hv : v ∉ k.hfVerts hf) :
    k.hfVertsFrom hf v = k.hfVerts hf := by
  unfold hfVertsFrom
  simp only [idxOf?_none_of_not_mem hv]

/-- cc:2187-2209 literally: advance the circulator at most `n` times until it shows `vh` (after `n`
    steps it is back at the start), then read `n` vertices cyclically from there -/
def circulateFrom (vs : List Nat) (v : Nat) : List Nat :=
  let n := vs.length
  let start := vs.findIdx (· == v)        -- `n` when absent: `n % n = 0`, back at the start
  (List.range n).map (fun j => vs.getD ((start + j) % n) 0)

theorem hfVertsFrom_eq_circulate (k : Kernel) (hf v : Nat) :
    k.hfVertsFrom hf v = circulateFrom (k.hfVerts hf) v := by
  generalize hvs : k.hfVerts hf = vs
  unfold hfVertsFrom circulateFrom
  simp only [hvs]
  apply List.ext_getElem?
  intro j
  by_cases hj : j < vs.length
  · rw [List.getElem?_map, List.getElem?_range hj]
    simp only [Option.map_some]
    cases hi : idxOf? vs v with
    | none =>
      simp only
      have : vs.findIdx (· == v) = vs.length := by
        unfold idxOf? at hi
        simp only at hi
        split at hi
        · cases hi
        · have := List.findIdx_le_length (p := (· == v)) (xs := vs); omega
      rw [this, Nat.add_mod_left, Nat.mod_eq_of_lt hj, List.getD_eq_getElem?_getD,
        List.getElem?_eq_getElem hj]
      simp
    | some i =>
      simp only
      obtain ⟨h1, _⟩ := idxOf?_some hi
      have : vs.findIdx (· == v) = i := by
        unfold idxOf? at hi
        simp only at hi
        split at hi
        · injection hi
        · cases hi
      rw [this, getElem?_rotateLeft vs i j h1 hj, List.getD_eq_getElem?_getD]
      have hlt : (i + j) % vs.length < vs.length := Nat.mod_lt _ (by omega)
      rw [List.getElem?_eq_getElem hlt]
      simp
  · have h1 : (List.map (fun j => vs.getD ((vs.findIdx (· == v) + j) % vs.length) 0) (List.range vs.length))[j]? = none := by
      rw [List.getElem?_eq_none]; simp; omega
    rw [h1, List.getElem?_eq_none]
    cases idxOf? vs v with
    | none => simp; omega
    | some i => simp only; rw [length_rotateLeft']; omega

/-! ### when is the cache right for a cell -/

/-- no other not-deleted cell lists a halfface of `c` (C01's precondition, seen from `c`) -/
def CellExclusive (k : Kernel) (c : Nat) : Prop :=
  ∀ hf ∈ k.cellAt c, ∀ c', k.cDeleted c' = false → hf ∈ k.cellAt c' → c' = c

theorem cellCacheOK_of_inv (k : Kernel) (c : Nat) (hI : CacheInvF k) (hb : k.fBU = true)
    (hx : CellExclusive k c) : CellCacheOK k c := by
  intro hf hm c' hc'
  obtain ⟨hlen, hs⟩ := hI hb
  by_cases hlt : hf < k.nHF
  · rw [hs hf hlt] at hc'
    obtain ⟨h1, h2⟩ := Fan.sCellOf_some k hf c' hc'
    exact hx hf hm c' h2 h1
  · unfold cellOf at hc'
    rw [List.getD_eq_getElem?_getD, List.getElem?_eq_none (by omega)] at hc'
    cases hc'

theorem sum_ge_two (l : List Nat) (f : Nat → Nat) (hn : l.Nodup) (a b : Nat) (ha : a ∈ l) (hb : b ∈ l) (hab : a ≠ b) :
    f a + f b ≤ (l.map f).sum := by
  induction l with
  | nil => cases ha
  | cons x t ih =>
    have hnt := (List.nodup_cons.mp hn)
    have single : ∀ y ∈ t, f y ≤ (t.map f).sum := by
      intro y hy
      obtain ⟨s1, s2, rfl⟩ := List.append_of_mem hy
      simp; omega
    simp only [List.map_cons, List.sum_cons]
    rcases List.mem_cons.mp ha with rfl | ha'
    · rcases List.mem_cons.mp hb with rfl | hb'
      · exact absurd rfl hab
      · have := single b hb'; omega
    · rcases List.mem_cons.mp hb with rfl | hb'
      · have := single a ha'; omega
      · have := ih hnt.2 ha' hb'; omega

/-- C01's stated precondition `oneCell` gives exclusivity for every not-deleted cell -/
theorem cellExclusive_of_oneCell (k : Kernel) (c : Nat) (h1 : k.oneCell = true) (hc : c < k.nC) (hd : k.cDeleted c = false)
    (hr : ∀ hf ∈ k.cellAt c, hf < k.nHF) : CellExclusive k c := by
  intro hf hm c' hd' hm'
  apply Classical.byContradiction
  intro hne
  unfold oneCell at h1
  rw [List.all_eq_true] at h1
  have := h1 hf (List.mem_range.mpr (hr hf hm))
  simp only [decide_eq_true_eq] at this
  have hc' : c' < k.nC := by
    apply Classical.byContradiction
    intro hge
    unfold cellAt at hm'
    rw [List.getD_eq_getElem?_getD, List.getElem?_eq_none (by unfold nC at hge; omega)] at hm'
    cases hm'
  have hl : ∀ x, x < k.nC → k.cDeleted x = false → x ∈ k.liveCells := by
    intro x h1 h2; unfold liveCells; simp [h1, h2]
  have hnd : k.liveCells.Nodup := by
    unfold liveCells; exact List.Nodup.sublist List.filter_sublist List.nodup_range
  have h2 := sum_ge_two k.liveCells (fun c => (k.cellAt c).count hf) hnd c' c (hl c' hc' hd') (hl c hc hd) hne
  have p1 : 0 < (k.cellAt c).count hf := List.count_pos_iff.mpr hm
  have p2 : 0 < (k.cellAt c').count hf := List.count_pos_iff.mpr hm'
  omega

/-! ### unique halfedges -/

/-- at most one not-deleted halfedge goes from `a` to `b` -/
def uniqHe (k : Kernel) (a b : Nat) : Bool :=
  ((List.range k.nHE).filter (fun h => k.liveE (eOf h) && k.fromV h == a && k.toV h == b)).length ≤ 1

theorem uniqHe_eq (k : Kernel) (a b h h' : Nat) (hu : uniqHe k a b = true)
    (h1 : h < k.nHE) (h2 : k.liveE (eOf h) = true) (h3 : k.fromV h = a) (h4 : k.toV h = b)
    (h1' : h' < k.nHE) (h2' : k.liveE (eOf h') = true) (h3' : k.fromV h' = a) (h4' : k.toV h' = b) : h = h' := by
  unfold uniqHe at hu
  simp only [decide_eq_true_eq] at hu
  generalize hl : (List.range k.nHE).filter (fun h => k.liveE (eOf h) && k.fromV h == a && k.toV h == b) = l at hu
  have m1 : h ∈ l := by rw [← hl]; simp [h1, h2, h3, h4]
  have m2 : h' ∈ l := by rw [← hl]; simp [h1', h2', h3', h4']
  match l, hu, m1, m2 with
  | [x], _, m1, m2 => simp at m1 m2; rw [m1, m2]

/-! ### n_vertices_in_cell -/

theorem mem_insertSorted (x y : Nat) (l : List Nat) : y ∈ insertSorted x l ↔ y = x ∨ y ∈ l := by
  induction l with
  | nil => simp [insertSorted]
  | cons a t ih =>
    unfold insertSorted
    split
    · simp
    · split
      · rename_i h1 h2; subst h2; simp
      · simp [ih]; constructor
        · rintro (h | h | h) <;> simp [h]
        · rintro (h | h | h) <;> simp [h]

theorem mem_toSet (y : Nat) (l : List Nat) : y ∈ toSet l ↔ y ∈ l := by
  unfold toSet
  have : ∀ (l s : List Nat), y ∈ l.foldl (fun s x => insertSorted x s) s ↔ y ∈ l ∨ y ∈ s := by
    intro l
    induction l with
    | nil => intro s; simp
    | cons a t ih =>
      intro s; simp only [List.foldl_cons]; rw [ih, mem_insertSorted]
      simp only [List.mem_cons]
      constructor
      · rintro (h | h | h)
        · exact Or.inl (Or.inr h)
        · exact Or.inl (Or.inl h)
        · exact Or.inr h
      · rintro ((h | h) | h)
        · exact Or.inr (Or.inl h)
        · exact Or.inl h
        · exact Or.inr (Or.inr h)
  simpa using this l []

/-- `n_vertices_in_cell` counts the distinct target vertices of the halfedges of the cell's halffaces:
    it is the length of *any* duplicate-free list with exactly those members -/
theorem nVerticesInCell_spec (k : Kernel) (c : Nat) (l : List Nat) (hn : l.Nodup)
    (hl : ∀ v, v ∈ l ↔ ∃ hf ∈ k.cellAt c, ∃ h ∈ k.hfHes hf, k.toV h = v) :
    k.nVerticesInCell c = l.length := by
  unfold nVerticesInCell
  apply List.Perm.length_eq
  rw [List.perm_ext_iff_of_nodup (Fan.toSet_nodup _) hn]
  intro v
  rw [mem_toSet, hl]
  simp only [List.mem_map, List.mem_flatMap]
  constructor
  · rintro ⟨h, ⟨hf, h1, h2⟩, h3⟩; exact ⟨hf, h1, h, h2, h3⟩
  · rintro ⟨hf, h1, h, h2, h3⟩; exact ⟨h, ⟨hf, h1, h2⟩, h3⟩

/-- the halfedges of `hf` form a closed cycle: each ends where its cyclic successor starts -/
def HfCyclic (k : Kernel) (hf : Nat) : Prop :=
  ∀ i (hi : i < (k.hfHes hf).length),
    k.toV ((k.hfHes hf)[i]) = k.fromV ((k.hfHes hf)[(i + 1) % (k.hfHes hf).length]'(Nat.mod_lt _ (by omega)))

theorem cyclic_toV_iff (k : Kernel) (hf : Nat) (hc : HfCyclic k hf) (v : Nat) :
    (∃ h ∈ k.hfHes hf, k.toV h = v) ↔ v ∈ k.hfVerts hf := by
  unfold hfVerts
  simp only [List.mem_map]
  constructor
  · rintro ⟨h, hm, rfl⟩
    obtain ⟨i, hi, rfl⟩ := List.getElem_of_mem hm
    exact ⟨_, List.getElem_mem _, (hc i hi).symm⟩
  · rintro ⟨h, hm, rfl⟩
    obtain ⟨j, hj, rfl⟩ := List.getElem_of_mem hm
    have hlt : (j + (k.hfHes hf).length - 1) % (k.hfHes hf).length < (k.hfHes hf).length := Nat.mod_lt _ (by omega)
    refine ⟨_, List.getElem_mem hlt, ?_⟩
    rw [hc _ hlt]
    congr 1
    by_cases h0 : j = 0
    · subst h0
      have : (0 + (k.hfHes hf).length - 1) % (k.hfHes hf).length = (k.hfHes hf).length - 1 := by
        rw [Nat.zero_add]; exact Nat.mod_eq_of_lt (by omega)
      simp only [this]
      have : (k.hfHes hf).length - 1 + 1 = (k.hfHes hf).length := by omega
      simp [this]
    · have : (j + (k.hfHes hf).length - 1) % (k.hfHes hf).length = j - 1 := by
        have : j + (k.hfHes hf).length - 1 = (j - 1) + (k.hfHes hf).length := by omega
        rw [this, Nat.add_mod_right, Nat.mod_eq_of_lt (by omega)]
      simp only [this]
      have : j - 1 + 1 = j := by omega
      simp [this, Nat.mod_eq_of_lt hj]

/-- with closed halfedge cycles the count is the number of distinct vertices of the cell's halffaces -/
theorem nVerticesInCell_spec_cyclic (k : Kernel) (c : Nat) (hc : ∀ hf ∈ k.cellAt c, HfCyclic k hf)
    (l : List Nat) (hn : l.Nodup) (hl : ∀ v, v ∈ l ↔ ∃ hf ∈ k.cellAt c, v ∈ k.hfVerts hf) :
    k.nVerticesInCell c = l.length := by
  apply nVerticesInCell_spec k c l hn
  intro v
  rw [hl]
  constructor
  · rintro ⟨hf, h1, h2⟩; exact ⟨hf, h1, (cyclic_toV_iff k hf (hc hf h1) v).mpr h2⟩
  · rintro ⟨hf, h1, h2⟩; exact ⟨hf, h1, (cyclic_toV_iff k hf (hc hf h1) v).mp h2⟩

/-! ### find_halfface_in_cell: completeness -/

theorem findHalffaceInCell_complete (k : Kernel) (c v0 v1 v2 : Nat) (rest : List Nat) (hf : Nat)
    (hm : hf ∈ k.cellAt c) (hr : RunsThrough k hf v0 v1 v2) :
    ∃ hf', k.findHalffaceInCell (v0 :: v1 :: v2 :: rest) c = some hf' := by
  obtain ⟨h, hh, h0, h1, h', hn, h2⟩ := hr
  cases hres : k.findHalffaceInCell (v0 :: v1 :: v2 :: rest) c with
  | some x => exact ⟨x, rfl⟩
  | none =>
    exfalso
    unfold findHalffaceInCell at hres
    simp only at hres
    rw [List.findSome?_eq_none_iff] at hres
    have := hres (hf, h) (by
      simp only [List.mem_flatMap, List.mem_map, Prod.mk.injEq]
      exact ⟨hf, hm, h, hh, rfl, rfl⟩)
    simp [h0, h1, hn, h2] at this

/-- position form of `RunsThrough` on a halfface without a repeated halfedge -/
theorem runsThrough_of_pos (k : Kernel) (hf v0 v1 v2 i : Nat) (hn : (k.hfHes hf).Nodup) (hi : i < (k.hfHes hf).length)
    (h0 : k.fromV ((k.hfHes hf)[i]) = v0) (h1 : k.toV ((k.hfHes hf)[i]) = v1)
    (h2 : k.toV ((k.hfHes hf)[(i + 1) % (k.hfHes hf).length]'(Nat.mod_lt _ (by omega))) = v2) :
    RunsThrough k hf v0 v1 v2 :=
  ⟨_, List.getElem_mem hi, h0, h1, _, nextHe_at k hf i hn hi, h2⟩

/-- conversely (no hypothesis): the two halfedges sit at cyclically consecutive positions -/
theorem pos_of_runsThrough (k : Kernel) (hf v0 v1 v2 : Nat) (hr : RunsThrough k hf v0 v1 v2) :
    ∃ i, ∃ hi : i < (k.hfHes hf).length, k.fromV ((k.hfHes hf)[i]) = v0 ∧ k.toV ((k.hfHes hf)[i]) = v1 ∧
      k.toV ((k.hfHes hf)[(i + 1) % (k.hfHes hf).length]'(Nat.mod_lt _ (by omega))) = v2 := by
  obtain ⟨h, hh, h0, h1, h', hn, h2⟩ := hr
  unfold nextHe at hn
  simp only at hn
  cases hi : idxOf? (k.hfHes hf) h with
  | none => simp [hi] at hn
  | some i =>
    obtain ⟨hlt, he⟩ := idxOf?_some hi
    simp only [hi] at hn
    refine ⟨i, hlt, by rw [he]; exact h0, by rw [he]; exact h1, ?_⟩
    by_cases hlast : i + 1 < (k.hfHes hf).length
    · simp only [hlast, if_true] at hn
      rw [List.getElem?_eq_getElem hlast] at hn
      injection hn with hn
      simp only [Nat.mod_eq_of_lt hlast, hn, h2]
    · simp only [hlast, if_false] at hn
      have e : i + 1 = (k.hfHes hf).length := by omega
      have hz : (i + 1) % (k.hfHes hf).length = 0 := by rw [e, Nat.mod_self]
      rw [List.head?_eq_getElem?, List.getElem?_eq_getElem (by omega)] at hn
      injection hn with hn
      simp only [hz, hn, h2]

/-! ### get_halfface_vertices(hfh, heh) (cc:2215-2218: `get_halfface_vertices(hfh, from_vertex_handle(heh))`) -/

/-- the model of the halfedge form (the judge compares exactly this expression, Judge/Lookups.lean `lghvh`) -/
def hfVertsFromHe (k : Kernel) (hf he : Nat) : List Nat := k.hfVertsFrom hf (k.fromV he)

theorem hfVertsFromHe_head (k : Kernel) (hf he : Nat) (hm : he ∈ k.hfHes hf) :
    (hfVertsFromHe k hf he).head? = some (k.fromV he) := by
  unfold hfVertsFromHe
  apply hfVertsFrom_head
  unfold hfVerts; exact List.mem_map_of_mem hm

theorem map_rotateLeft {α β} (f : α → β) (l : List α) (i : Nat) : (l.rotateLeft i).map f = (l.map f).rotateLeft i := by
  unfold List.rotateLeft
  simp only [List.length_map]
  split
  · rfl
  · simp [List.map_drop, List.map_take]

/-- on a halfface without a repeated vertex the halfedge form lists the vertices from that very halfedge on -/
theorem hfVertsFromHe_simple (k : Kernel) (hf i : Nat) (hn : (k.hfVerts hf).Nodup) (hi : i < (k.hfHes hf).length) :
    hfVertsFromHe k hf ((k.hfHes hf)[i]) = ((k.hfHes hf).rotateLeft i).map k.fromV := by
  unfold hfVertsFromHe hfVertsFrom
  have hi' : i < (k.hfVerts hf).length := by unfold hfVerts; simpa using hi
  have e : k.fromV ((k.hfHes hf)[i]) = (k.hfVerts hf)[i] := by
    show _ = ((k.hfHes hf).map k.fromV)[i]'(by simpa using hi)
    rw [List.getElem_map]
  simp only [e, idxOf?_getElem_nodup _ hn i hi']
  rw [map_rotateLeft]; rfl

/-! ### find_halfedge_in_cell (cc:1932-1949) -/

theorem findHalfedgeInCell_sound (k : Kernel) (a b c r : Nat) (h : k.findHalfedgeInCell a b c = some r) :
    k.fromV r = a ∧ k.toV r = b ∧ ∃ hf ∈ k.cellAt c, r ∈ k.hfHes hf ∨ opp r ∈ k.hfHes hf := by
  unfold findHalfedgeInCell at h
  obtain ⟨x, hm, hr⟩ := List.exists_of_findSome?_eq_some h
  rw [List.mem_flatMap] at hm
  obtain ⟨hf, h1, h2⟩ := hm
  split at hr
  · rename_i hc
    simp only [Bool.and_eq_true, beq_iff_eq] at hc
    injection hr with hr; subst hr
    exact ⟨hc.1, hc.2, hf, h1, Or.inl h2⟩
  · split at hr
    · rename_i hc
      simp only [Bool.and_eq_true, beq_iff_eq] at hc
      injection hr with hr; subst hr
      refine ⟨by rw [fromV_opp]; exact hc.2, by rw [toV_opp]; exact hc.1, hf, h1, Or.inr ?_⟩
      have e : opp (opp x) = x := xor_one_xor_one x
      rw [e]; exact h2
    · cases hr

theorem findHalfedgeInCell_none_iff (k : Kernel) (a b c : Nat) :
    k.findHalfedgeInCell a b c = none ↔
      ¬ ∃ hf ∈ k.cellAt c, ∃ h ∈ k.hfHes hf, (k.fromV h = a ∧ k.toV h = b) ∨ (k.fromV h = b ∧ k.toV h = a) := by
  unfold findHalfedgeInCell
  rw [List.findSome?_eq_none_iff]
  constructor
  · rintro hall ⟨hf, h1, h, h2, h3⟩
    have := hall h (List.mem_flatMap.mpr ⟨hf, h1, h2⟩)
    rcases h3 with ⟨e1, e2⟩ | ⟨e1, e2⟩
    · simp [e1, e2] at this
    · simp only [e1, e2, beq_self_eq_true, Bool.and_true] at this
      split at this <;> cases this
  · intro hne x hx
    obtain ⟨hf, h1, h2⟩ := List.mem_flatMap.mp hx
    split
    · rename_i hc
      simp only [Bool.and_eq_true, beq_iff_eq] at hc
      exact absurd ⟨hf, h1, x, h2, Or.inl hc⟩ hne
    · split
      · rename_i hc
        simp only [Bool.and_eq_true, beq_iff_eq] at hc
        exact absurd ⟨hf, h1, x, h2, Or.inr hc⟩ hne
      · rfl

/-! ### find_halfface_extensive (cc:2025-2068) -/

theorem lastIdxOf_aux (x : Nat) (l : List Nat) : ∀ (s off : Nat),
    (l.zipIdx s).foldl (fun off p => if p.1 == x then p.2 else off) off = off ∨
    (s ≤ (l.zipIdx s).foldl (fun off p => if p.1 == x then p.2 else off) off ∧
     (l.zipIdx s).foldl (fun off p => if p.1 == x then p.2 else off) off < s + l.length) := by
  induction l with
  | nil => intro s off; left; rfl
  | cons a t ih =>
    intro s off
    simp only [List.zipIdx_cons, List.foldl_cons, List.length_cons]
    by_cases ha : (a == x) = true
    · simp only [ha, if_true]
      rcases ih (s + 1) s with h | h
      · right; rw [h]; omega
      · right; omega
    · simp only [ha]
      rcases ih (s + 1) off with h | h
      · left; simpa using h
      · right
        simp only [Bool.false_eq_true, if_false]
        omega

theorem lastIdxOf_lt (l : List Nat) (x : Nat) (hl : 0 < l.length) : lastIdxOf l x < l.length := by
  unfold lastIdxOf
  rcases lastIdxOf_aux x l 0 0 with h | h
  · rw [h]; exact hl
  · omega

/-- the test `find_halfface_extensive` applies to a candidate: same length, and reading the halfedge
    sources cyclically from offset `off` gives exactly `vs` -/
theorem rotation_of_all (k : Kernel) (hf off : Nat) (vs : List Nat) (hoff : off < (k.hfHes hf).length)
    (hlen : (k.hfHes hf).length = vs.length)
    (hall : (List.range (k.hfHes hf).length).all
      (fun i => k.fromV ((k.hfHes hf).getD ((i + off) % (k.hfHes hf).length) 0) == vs.getD i 0) = true) :
    (k.hfVerts hf).rotateLeft off = vs := by
  have hl : (k.hfVerts hf).length = (k.hfHes hf).length := by unfold hfVerts; simp
  apply List.ext_getElem?
  intro j
  by_cases hj : j < vs.length
  · rw [getElem?_rotateLeft _ off j (by omega) (by omega), hl]
    rw [List.all_eq_true] at hall
    have := hall j (List.mem_range.mpr (by omega))
    simp only [beq_iff_eq] at this
    have hlt : (off + j) % (k.hfHes hf).length < (k.hfHes hf).length := Nat.mod_lt _ (by omega)
    rw [Nat.add_comm j off, List.getD_eq_getElem?_getD, List.getD_eq_getElem?_getD, List.getElem?_eq_getElem hlt,
      List.getElem?_eq_getElem hj] at this
    simp only [Option.getD_some] at this
    rw [List.getElem?_eq_getElem hj, ← this]
    unfold hfVerts
    rw [List.getElem?_map, List.getElem?_eq_getElem hlt]; rfl
  · rw [List.getElem?_eq_none (by rw [length_rotateLeft']; omega), List.getElem?_eq_none (by omega)]

theorem lastIdxOf_aux2 (x : Nat) (l : List Nat) : ∀ (s off : Nat),
    ((l.zipIdx s).foldl (fun off p => if p.1 == x then p.2 else off) off = off ∧ x ∉ l) ∨
    (s ≤ (l.zipIdx s).foldl (fun off p => if p.1 == x then p.2 else off) off ∧
     l[(l.zipIdx s).foldl (fun off p => if p.1 == x then p.2 else off) off - s]? = some x) := by
  induction l with
  | nil => intro s off; left; exact ⟨rfl, by simp⟩
  | cons a t ih =>
    intro s off
    simp only [List.zipIdx_cons, List.foldl_cons]
    by_cases ha : (a == x) = true
    · simp only [ha, if_true]
      have hax : a = x := by simpa using ha
      right
      rcases ih (s + 1) s with ⟨h1, _⟩ | ⟨h1, h2⟩
      · rw [h1]; simp [hax]
      · refine ⟨by omega, ?_⟩
        generalize (t.zipIdx (s + 1)).foldl (fun off p => if p.1 == x then p.2 else off) s = r at h1 h2 ⊢
        have : r - s = (r - (s + 1)) + 1 := by omega
        rw [this, List.getElem?_cons_succ]; exact h2
    · have hax : ¬ a = x := by simpa using ha
      simp only [ha, Bool.false_eq_true, if_false]
      rcases ih (s + 1) off with ⟨h1, h2⟩ | ⟨h1, h2⟩
      · left; exact ⟨h1, by simp [h2, Ne.symm hax]⟩
      · right
        refine ⟨by omega, ?_⟩
        generalize (t.zipIdx (s + 1)).foldl (fun off p => if p.1 == x then p.2 else off) off = r at h1 h2 ⊢
        have : r - s = (r - (s + 1)) + 1 := by omega
        rw [this, List.getElem?_cons_succ]; exact h2

/-- the offset the C++ loop settles on designates an occurrence of the halfedge, if there is one -/
theorem lastIdxOf_getElem? (l : List Nat) (x : Nat) (hx : x ∈ l) : l[lastIdxOf l x]? = some x := by
  unfold lastIdxOf
  rcases lastIdxOf_aux2 x l 0 0 with ⟨_, h⟩ | ⟨_, h⟩
  · exact absurd hx h
  · simpa using h

theorem lastIdxOf_nodup (l : List Nat) (hn : l.Nodup) (i : Nat) (hi : i < l.length) : lastIdxOf l l[i] = i := by
  have h := lastIdxOf_getElem? l l[i] (List.getElem_mem hi)
  have hlt : lastIdxOf l l[i] < l.length := lastIdxOf_lt l _ (by omega)
  rw [List.getElem?_eq_getElem hlt] at h
  injection h with h
  exact (List.getElem_inj (h₀ := hlt) (h₁ := hi) hn).mp h


/-- the executable test of Spec/Incidence.lean implies the `Prop` form of the cache invariant (used for the
    non-vacuity examples) -/
theorem cacheInv_of_cacheInvB (k : Kernel) (h : k.cacheInvB = true) : CacheInv k := by
  unfold cacheInvB at h
  simp only [Bool.and_eq_true] at h
  obtain ⟨⟨hv, he⟩, hf⟩ := h
  refine ⟨?_, ?_, ?_⟩
  · intro hb
    unfold cacheInvVB at hv
    simp only [hb, Bool.not_true, Bool.false_or, Bool.and_eq_true, beq_iff_eq, List.all_eq_true, List.mem_range] at hv
    exact ⟨hv.1, fun v hlt => by
      have := hv.2 v hlt
      rw [← this]; exact (CellCheck.sortL_perm _).symm⟩
  · intro hb
    unfold cacheInvEB at he
    simp only [hb, Bool.not_true, Bool.false_or, Bool.and_eq_true, beq_iff_eq, List.all_eq_true, List.mem_range] at he
    exact ⟨he.1, fun v hlt => by
      have := he.2 v hlt
      rw [← this]; exact (CellCheck.sortL_perm _).symm⟩
  · intro hb
    unfold cacheInvFB at hf
    simp only [hb, Bool.not_true, Bool.false_or, Bool.and_eq_true, beq_iff_eq, List.all_eq_true, List.mem_range] at hf
    exact ⟨hf.1, fun v hlt => hf.2 v hlt⟩


/-- converse of `rotation_of_all`: a halfface whose vertex cycle read from `off` is `vs` passes the test -/
theorem all_of_rotation (k : Kernel) (hf off : Nat) (vs : List Nat) (hoff : off < (k.hfHes hf).length)
    (hrot : (k.hfVerts hf).rotateLeft off = vs) :
    (k.hfHes hf).length = vs.length ∧
    (List.range (k.hfHes hf).length).all
      (fun i => k.fromV ((k.hfHes hf).getD ((i + off) % (k.hfHes hf).length) 0) == vs.getD i 0) = true := by
  have hl : (k.hfVerts hf).length = (k.hfHes hf).length := by unfold hfVerts; simp
  have hlen : (k.hfHes hf).length = vs.length := by rw [← hrot, length_rotateLeft', hl]
  refine ⟨hlen, ?_⟩
  rw [List.all_eq_true]
  intro j hj
  have hj := List.mem_range.mp hj
  simp only [beq_iff_eq]
  have hlt : (off + j) % (k.hfHes hf).length < (k.hfHes hf).length := Nat.mod_lt _ (by omega)
  have h1 := getElem?_rotateLeft (k.hfVerts hf) off j (by omega) (by omega)
  rw [hrot, hl, List.getElem?_eq_getElem (by omega : j < vs.length)] at h1
  rw [Nat.add_comm j off, List.getD_eq_getElem?_getD, List.getD_eq_getElem?_getD, List.getElem?_eq_getElem hlt,
    List.getElem?_eq_getElem (by omega : j < vs.length)]
  simp only [Option.getD_some]
  have h2 : (k.hfVerts hf)[(off + j) % (k.hfHes hf).length]? = some (k.fromV ((k.hfHes hf)[(off + j) % (k.hfHes hf).length])) := by
    unfold hfVerts
    rw [List.getElem?_map, List.getElem?_eq_getElem hlt]; rfl
  rw [h2] at h1
  injection h1 with h1
  exact h1.symm

/-- vertex `i` of the cycle is the source of halfedge `i` -/
theorem hfVerts_getElem? (k : Kernel) (hf i : Nat) (hi : i < (k.hfHes hf).length) :
    (k.hfVerts hf)[i]? = some (k.fromV ((k.hfHes hf)[i])) := by
  unfold hfVerts
  rw [List.getElem?_map, List.getElem?_eq_getElem hi]; rfl

/-- on a halfface whose halfedges form a closed cycle, `RunsThrough` says that `v0, v1, v2` are three
    cyclically consecutive entries of the vertex cycle (the form the judge's oracle evaluates) -/
theorem runsThrough_verts (k : Kernel) (hf v0 v1 v2 : Nat) (hc : HfCyclic k hf) (hr : RunsThrough k hf v0 v1 v2) :
    ∃ i, i < (k.hfHes hf).length ∧ (k.hfVerts hf)[i]? = some v0 ∧
      (k.hfVerts hf)[(i + 1) % (k.hfHes hf).length]? = some v1 ∧
      (k.hfVerts hf)[(i + 2) % (k.hfHes hf).length]? = some v2 := by
  obtain ⟨i, hi, h0, h1, h2⟩ := pos_of_runsThrough k hf v0 v1 v2 hr
  have hpos : 0 < (k.hfHes hf).length := by omega
  have hlt1 : (i + 1) % (k.hfHes hf).length < (k.hfHes hf).length := Nat.mod_lt _ hpos
  have hlt2 : (i + 2) % (k.hfHes hf).length < (k.hfHes hf).length := Nat.mod_lt _ hpos
  refine ⟨i, hi, ?_, ?_, ?_⟩
  · rw [hfVerts_getElem? k hf i hi, h0]
  · rw [hfVerts_getElem? k hf _ hlt1, ← hc i hi, h1]
  · rw [hfVerts_getElem? k hf _ hlt2]
    have e : ((i + 1) % (k.hfHes hf).length + 1) % (k.hfHes hf).length = (i + 2) % (k.hfHes hf).length := by
      rw [Nat.add_mod, Nat.mod_mod, ← Nat.add_mod]
    have := hc _ hlt1
    simp only [e] at this
    rw [← this, h2]

/-- executable form of `HfCyclic` -/
def hfCyclicB (k : Kernel) (hf : Nat) : Bool :=
  (List.range (k.hfHes hf).length).all (fun i =>
    k.toV ((k.hfHes hf).getD i 0) == k.fromV ((k.hfHes hf).getD ((i + 1) % (k.hfHes hf).length) 0))

theorem hfCyclic_of_B (k : Kernel) (hf : Nat) (h : hfCyclicB k hf = true) : HfCyclic k hf := by
  intro i hi
  unfold hfCyclicB at h
  rw [List.all_eq_true] at h
  have := h i (List.mem_range.mpr hi)
  have hlt : (i + 1) % (k.hfHes hf).length < (k.hfHes hf).length := Nat.mod_lt _ (by omega)
  simp only [beq_iff_eq, List.getD_eq_getElem?_getD, List.getElem?_eq_getElem hi, List.getElem?_eq_getElem hlt,
    Option.getD_some] at this
  exact this

/-- `next_halfedge_in_halfface` is valid for a halfedge of the halfface -/
theorem nextHe_isSome_of_mem (k : Kernel) (he hf : Nat) (hm : he ∈ k.hfHes hf) : ∃ r, k.nextHe he hf = some r := by
  obtain ⟨i, hi⟩ := idxOf?_isSome_of_mem hm
  obtain ⟨hlt, _⟩ := idxOf?_some hi
  unfold nextHe
  simp only [hi]
  by_cases h : i + 1 < (k.hfHes hf).length
  · simp only [h, if_true]; exact ⟨_, List.getElem?_eq_getElem h⟩
  · simp only [h, if_false]
    rw [List.head?_eq_getElem?]
    exact ⟨_, List.getElem?_eq_getElem (by omega)⟩

/-- both uses of `to_vertex_handle(next_halfedge_in_halfface(..))` in `find_halfface_in_cell` (cc:1997, cc:2005)
    get a valid halfedge: in the first the halfedge is one of the halfface; in the second the halfface
    returned by `adjacent_halfface_in_cell(hfh, heh)` for a halfedge `heh` of `hfh` holds the opposite halfedge
    (`adj_sound`).  So the model's `(nextHe ..).map toV == some v2` never stands for a read through an invalid handle. -/
theorem findHalffaceInCell_next_valid (k : Kernel) (hf he : Nat) (hm : he ∈ k.hfHes hf) :
    (∃ r, k.nextHe he hf = some r) ∧
    ∀ a, k.adjHalffaceInCell hf he = some a → ∃ r, k.nextHe (opp he) a = some r := by
  refine ⟨nextHe_isSome_of_mem k he hf hm, ?_⟩
  intro a ha
  obtain ⟨_, _, _, _, _, _, h⟩ := Fan.adj_sound k hf he a ha
  rcases h with ⟨_, h2⟩ | ⟨h1, _⟩
  · exact nextHe_isSome_of_mem k (opp he) a h2
  · exact absurd hm h1

/-- in a closed cell (`ClosedSurface`, what `add_cell` checks) the halfedge returned by `find_halfedge_in_cell`
    is itself a halfedge of a halfface of the cell -/
theorem findHalfedgeInCell_mem_closed (k : Kernel) (a b c r : Nat) (hcl : ClosedSurface k (k.cellAt c))
    (h : k.findHalfedgeInCell a b c = some r) : r ∈ k.cellHalfedges (k.cellAt c) := by
  obtain ⟨_, _, hf, h1, h2⟩ := findHalfedgeInCell_sound k a b c r h
  unfold cellHalfedges
  rcases h2 with h2 | h2
  · exact List.mem_flatMap.mpr ⟨hf, h1, h2⟩
  · have := hcl.2 (opp r) (List.mem_flatMap.mpr ⟨hf, h1, h2⟩)
    have e : opp (opp r) = r := xor_one_xor_one r
    rw [e] at this
    exact this


/-- converse of `runsThrough_verts` on a closed halfedge cycle without a repeated halfedge -/
theorem runsThrough_of_verts (k : Kernel) (hf v0 v1 v2 i : Nat) (hc : HfCyclic k hf) (hn : (k.hfHes hf).Nodup)
    (hi : i < (k.hfHes hf).length) (h0 : (k.hfVerts hf)[i]? = some v0)
    (h1 : (k.hfVerts hf)[(i + 1) % (k.hfHes hf).length]? = some v1)
    (h2 : (k.hfVerts hf)[(i + 2) % (k.hfHes hf).length]? = some v2) : RunsThrough k hf v0 v1 v2 := by
  have hpos : 0 < (k.hfHes hf).length := by omega
  have hlt1 : (i + 1) % (k.hfHes hf).length < (k.hfHes hf).length := Nat.mod_lt _ hpos
  have hlt2 : (i + 2) % (k.hfHes hf).length < (k.hfHes hf).length := Nat.mod_lt _ hpos
  rw [hfVerts_getElem? k hf i hi] at h0
  rw [hfVerts_getElem? k hf _ hlt1] at h1
  rw [hfVerts_getElem? k hf _ hlt2] at h2
  injection h0 with h0; injection h1 with h1; injection h2 with h2
  refine runsThrough_of_pos k hf v0 v1 v2 i hn hi h0 (by rw [hc i hi]; exact h1) ?_
  have e : ((i + 1) % (k.hfHes hf).length + 1) % (k.hfHes hf).length = (i + 2) % (k.hfHes hf).length := by
    rw [Nat.add_mod, Nat.mod_mod, ← Nat.add_mod]
  have := hc _ hlt1
  simp only [e] at this
  rw [this]; exact h2

end Lookup
end Kernel
end OVM

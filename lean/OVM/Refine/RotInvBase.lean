import OVM.Kernel.Frames
import OVM.Spec.Fan
import OVM.Refine.FanLemmas
import OVM.Refine.ScanDel
/-
  RotInv, part 0 (builder R1): the order-establishing lemmas about `reorder_incident_halffaces` for a
  PERMUTATION-INVARIANT form of E1's `Fan.SingleFan`.

  `Fan.SingleFan k e` (OVM/Refine/FanLemmas.lean) states connectedness of the fan relative to the FIRST element of
  the cached list and with a step bound; `reorder e` permutes that list, so to go back from "single fan after
  the call" to "single fan before the call" (what every deleting mutator needs) the predicate must not depend
  on the order.  `SingleFanU` states connectedness for every pair of members, without a bound:
     `Fan.SingleFan k e → SingleFanU k e`            (`singleFanU_of_singleFan`)
     `SingleFanU` reads the slot of `2e` only as a set   (`SingleFanU.of_perm`)
     `SingleFanU k e → SlotsOK k e → FanOrdered (k.reorder e) e`  (`reorder_establishes_order`)
  The lemmas `Chain … reorder_fan_order` below are E1's (OVM/Props/C09.lean, same statements; they
  live there in a `Props` file that this development cannot import without a cycle, because the property
  theorems built on it go back into that file) — only `reorderList_single_fan_stores` is generalised.
  Proof-only file.
-/
namespace OVM
namespace Kernel
namespace Rot
open Fan

/-- consecutive elements of `l` are linked by "opposite of the in-cell neighbour across `he`" and
    every element that has a successor is not on the boundary -/
def Chain (k : Kernel) (he : Nat) : List Nat → Prop
  | a :: b :: t => k.hfOnBoundaryOrDeleted a = false ∧ (∃ x, k.adjHalffaceInCell a he = some x ∧ b = opp x) ∧ Chain k he (b :: t)
  | _ => True

theorem chain_append_one (k : Kernel) (he : Nat) (l : List Nat) (a b : Nat) (hc : Chain k he (l ++ [a]))
    (hb : k.hfOnBoundaryOrDeleted a = false) (x : Nat) (hx : k.adjHalffaceInCell a he = some x) (hbx : b = opp x) :
    Chain k he (l ++ [a] ++ [b]) := by
  induction l with
  | nil => exact ⟨hb, ⟨x, hx, hbx⟩, trivial⟩
  | cons c t ih =>
    cases t with
    | nil =>
      simp only [List.cons_append, List.nil_append] at hc ⊢
      exact ⟨hc.1, hc.2.1, hb, ⟨x, hx, hbx⟩, trivial⟩
    | cons d t' =>
      simp only [List.cons_append] at hc ⊢
      exact ⟨hc.1, hc.2.1, by simpa using ih hc.2.2⟩

/-- the forward walk returns a chain that extends what it was given -/
theorem walkFwd_chain (k : Kernel) (he start n : Nat) :
    ∀ (fuel cur : Nat) (acc res : List Nat), Chain k he (acc ++ [cur]) →
      k.walkFwd he start n fuel cur acc = .stop res →
      Chain k he res ∧ (∃ tl, res = acc ++ [cur] ++ tl) ∧
      (k.hfOnBoundaryOrDeleted (res.getLast?.getD 0) = true ∨
       ∃ x, k.adjHalffaceInCell (res.getLast?.getD 0) he = some x ∧ opp x = start) := by
  intro fuel
  induction fuel with
  | zero => intro cur acc res _ h; simp [walkFwd] at h
  | succ f ih =>
    intro cur acc res hc h
    unfold walkFwd at h
    simp only at h
    split at h
    · cases h
    · split at h
      · rename_i hb
        injection h with h; subst h
        exact ⟨hc, ⟨[], by simp⟩, Or.inl (by simpa using hb)⟩
      · rename_i hb
        split at h
        · cases h
        · rename_i a ha
          split at h
          · rename_i hs
            injection h with h; subst h
            refine ⟨hc, ⟨[], by simp⟩, Or.inr ⟨a, by simpa using ha, by simpa using hs⟩⟩
          · have hb' : k.hfOnBoundaryOrDeleted cur = false := by simpa using hb
            have := ih (opp a) (acc ++ [cur]) res (chain_append_one k he acc cur (opp a) hc hb' a ha rfl) h
            obtain ⟨c1, ⟨tl, htl⟩, c3⟩ := this
            exact ⟨c1, ⟨[opp a] ++ tl, by simp [htl]⟩, c3⟩

/-- the written-back slots: the halfedge holds the walked list, the opposite halfedge its
    mirrored reverse -/
theorem reorderWrite_slots (k : Kernel) (e : Nat) (l : List Nat)
    (h1 : heOf e 1 < k.incHfs.length) (hl : (k.hfsOf (heOf e 1)).length = l.length) :
    (k.reorderWrite e l).hfsOf (heOf e 0) = l ∧ (k.reorderWrite e l).hfsOf (heOf e 1) = l.reverse.map opp ∧
    (k.reorderWrite e l).fault = k.fault := by
  have h0 : heOf e 0 < k.incHfs.length := by unfold heOf at *; omega
  have hne : heOf e 0 ≠ heOf e 1 := by unfold heOf; omega
  have hget : (k.incHfs.set (heOf e 0) l).getD (heOf e 1) [] = k.hfsOf (heOf e 1) := by
    unfold hfsOf
    simp [List.getD_eq_getElem?_getD, List.getElem?_set, hne]
  unfold reorderWrite
  simp only [hget, hl]
  refine ⟨?_, ?_, ?_⟩
  · unfold hfsOf; simp [List.getD_eq_getElem?_getD, List.getElem?_set, Ne.symm hne, h0]
  · have hmir : (List.map opp l.reverse).length = l.length := by simp
    have : overwritePrefix (k.hfsOf (heOf e 1)) (List.take l.length (List.map opp l.reverse)) = List.map opp l.reverse := by
      unfold overwritePrefix
      rw [List.take_of_length_le (by simp), hmir]
      have : (k.hfsOf (heOf e 1)).drop l.length = [] := List.drop_eq_nil_of_le (by omega)
      rw [this]; simp
    rw [this]
    unfold hfsOf
    simp [List.getD_eq_getElem?_getD, h1, List.map_reverse]
  · simp

/-- `reorder` never changes any other slot -/
theorem reorder_other_slots (k : Kernel) (e h : Nat) (h0 : h ≠ heOf e 0) (h1 : h ≠ heOf e 1) :
    (k.reorder e).hfsOf h = k.hfsOf h := by
  unfold reorder; split
  · rfl
  · unfold reorderWrite hfsOf
    simp [List.getD_eq_getElem?_getD, List.getElem?_set, Ne.symm h0, Ne.symm h1]
theorem chain_index (k : Kernel) (he : Nat) : ∀ (l : List Nat) (i : Nat), Chain k he l → i + 1 < l.length →
    ∃ x, k.adjHalffaceInCell (l.getD i 0) he = some x ∧ l.getD (i + 1) 0 = opp x := by
  intro l
  induction l with
  | nil => intro i _ h; simp at h
  | cons a t ih =>
    intro i hc hi
    cases t with
    | nil => simp at hi
    | cons b t' =>
      cases i with
      | zero => obtain ⟨x, hx, hb⟩ := hc.2.1; exact ⟨x, by simpa using hx, by simpa using hb⟩
      | succ j =>
        have := ih j hc.2.2 (by simp at hi ⊢; omega)
        simpa using this

theorem getLast?_getD_eq (l : List Nat) : l.getLast?.getD 0 = l.getD (l.length - 1) 0 := by
  rw [List.getLast?_eq_getElem?, List.getD_eq_getElem?_getD]

theorem walkBwd_chain (k : Kernel) (he n : Nat) (res : List Nat)
    (hback : ∀ y ∈ res, k.cellOf (opp y) = none ∨ Fan.RingMember k (opp he) (opp y)) :
    ∀ (fuel cur : Nat) (acc : List Nat), acc.head? = some cur → Chain k he acc →
      k.walkBwd (opp he) n fuel cur acc = .stop res → Chain k he res := by
  intro fuel
  induction fuel with
  | zero => intro cur acc _ _ h; simp [walkBwd] at h
  | succ f ih =>
    intro cur acc hh hc h
    unfold walkBwd at h
    simp only at h
    split at h
    · injection h with h; subst h; exact hc
    · rename_i hb
      split at h
      · cases h
      · rename_i a ha
        split at h
        · cases h
        · obtain ⟨pre, hpre⟩ := Fan.walkBwd_suffix k _ _ _ _ _ _ h
          cases acc with
          | nil => simp at hh
          | cons c t =>
            simp only [List.head?_cons, Option.some.injEq] at hh
            subst hh
            have hcm : c ∈ res := by rw [hpre]; simp
            have hb' : k.hfOnBoundaryOrDeleted (opp c) = false := by simpa using hb
            have hring : Fan.RingMember k (opp he) (opp c) := by
              rcases hback c hcm with h0 | h0
              · rw [Fan.boundary_of_cellOf_none k _ h0] at hb'; cases hb'
              · exact h0
            obtain ⟨x, hx, hxb⟩ := Fan.ring_adj k (opp he) (opp c) hring
            have hxa : x = a := by rw [ha] at hx; injection hx with hx; exact hx.symm
            subst hxa
            rw [CellCheck.opp_opp] at hxb
            obtain ⟨_, cc, hcc, _, _, hcd, _, _, hcons⟩ := hring.unpack
            obtain ⟨c', hc', _, hxm, _⟩ := Fan.adj_sound k _ _ x ha
            have : c' = cc := by rw [hcc] at hc'; injection hc' with e; exact e.symm
            subst this
            have hxnb : k.hfOnBoundaryOrDeleted x = false :=
              Fan.notBoundary_of_cell k x c' (hcons x hxm) hcd
            exact ih x (x :: c :: t) rfl
              ⟨hxnb, ⟨opp c, hxb, (CellCheck.opp_opp c).symm⟩, hc⟩ h

/-- **what `reorder_incident_halffaces` stores on a well-formed fan is in rotational order**, closed
    ring or open chain, any valence.  Hypothesis `Fan.FanOK k e` (decidable; about the definitions
    and `incident_cell_per_hf_`): the cached halffaces of halfedge `2e` are pairwise different and
    each is an interior member (its cached cell is the one the definitions give, a closed surface,
    not self-adjacent at the edge, the cached cell of all its halffaces) or has no incident cell,
    and likewise for its opposite halfface and the opposite halfedge.  Then a stored list `l` is a
    permutation of the cached one with
    * every element that has a successor in `l` is followed by its rotation successor
      `sFanNext` (so it is not a boundary halfface: a boundary halfface can only come last);
    * the last element either has no rotation successor (boundary: open chain) or its successor is
      the first element (closed ring). -/
theorem reorderList_fan_order (k : Kernel) (e : Nat) (l : List Nat)
    (hok : Fan.FanOK k e) (h : k.reorderList e = some l) :
    l.Perm (k.hfsOf (heOf e 0)) ∧
    (∀ i, i + 1 < l.length → k.sFanNext (heOf e 0) (l.getD i 0) = some (l.getD (i + 1) 0)) ∧
    (k.sFanNext (heOf e 0) (l.getD (l.length - 1) 0) = none ∨
     k.sFanNext (heOf e 0) (l.getD (l.length - 1) 0) = some (l.getD 0 0)) := by
  have hperm := reorderList_perm k e l h
  refine ⟨hperm, ?_⟩
  have hnd : l.Nodup := hperm.nodup_iff.mpr hok.1
  have hmemb : ∀ y ∈ l, Fan.FanMember k (heOf e 0) y := fun y hy => hok.2 y (hperm.mem_iff.mp hy)
  -- it is enough to have a rotation chain whose last element is a boundary or leads to the first
  suffices hkey : Chain k (heOf e 0) l ∧ l ≠ [] ∧
      (k.hfOnBoundaryOrDeleted (l.getLast?.getD 0) = true ∨
       ∃ x, k.adjHalffaceInCell (l.getLast?.getD 0) (heOf e 0) = some x ∧ opp x = l.getD 0 0) by
    obtain ⟨hchain, hlne, hclose⟩ := hkey
    have hlast_mem : l.getLast?.getD 0 ∈ l := by
      rw [List.getLast?_eq_some_getLast hlne]; exact List.getLast_mem hlne
    refine ⟨?_, ?_⟩
    · intro i hi
      obtain ⟨y, hy, hnext⟩ := chain_index k (heOf e 0) l i hchain hi
      have him : l.getD i 0 ∈ l := by
        rw [List.getD_eq_getElem?_getD, List.getElem?_eq_getElem (by omega)]; exact List.getElem_mem _
      have hnb : k.hfOnBoundaryOrDeleted (l.getD i 0) = false := by
        obtain ⟨c, hc, hm, _⟩ := Fan.adj_sound k _ _ y hy
        cases hb : k.hfOnBoundaryOrDeleted (l.getD i 0) with
        | false => rfl
        | true =>
          exfalso
          rcases (hmemb _ him).1 with h1 | h1
          · rw [Fan.ring_notBoundary k _ _ h1] at hb; cases hb
          · rw [h1.1] at hc; cases hc
      rw [hnext]
      exact Fan.sFanNext_of_adj k _ _ y ((hmemb _ him).ring_of_notBoundary hnb) hy
    · rw [← getLast?_getD_eq]
      rcases hclose with hb | ⟨x, hx, hxs⟩
      · left; exact (hmemb _ hlast_mem).sFanNext_none hb
      · right
        obtain ⟨c, hc, _⟩ := Fan.adj_sound k _ _ x hx
        have hring : Fan.RingMember k (heOf e 0) (l.getLast?.getD 0) := by
          rcases (hmemb _ hlast_mem).1 with h1 | h1
          · exact h1
          · rw [h1.1] at hc; cases hc
        rw [← hxs]
        exact Fan.sFanNext_of_adj k _ _ x hring hx
  unfold reorderList at h
  simp only at h
  split at h
  · cases h
  · cases hh : (k.hfsOf (heOf e 0)).head? with
    | none => simp [hh] at h
    | some start =>
      simp only [hh] at h
      cases hw : k.walkFwd (heOf e 0) start (k.hfsOf (heOf e 0)).length ((k.hfsOf (heOf e 0)).length + 1) start [] with
      | abort => simp [hw] at h
      | stop acc =>
        simp only [hw] at h
        obtain ⟨hchain, ⟨tl, htl⟩, hclose⟩ :=
          walkFwd_chain k (heOf e 0) start _ _ start [] acc (by exact trivial) hw
        have hacc_ne : acc ≠ [] := by rw [htl]; simp
        have hz_mem : acc.getLast?.getD 0 ∈ acc := by
          rw [List.getLast?_eq_some_getLast hacc_ne]; exact List.getLast_mem hacc_ne
        have hhead : acc.getD 0 0 = start := by rw [htl]; simp
        have hacc_head : acc.head? = some start := by rw [htl]; simp
        by_cases hlen : acc.length = (k.hfsOf (heOf e 0)).length
        · have hl : l = acc := by
            have hne : (acc.length != (k.hfsOf (heOf e 0)).length) = false := by simp [hlen]
            simp only [hne, Bool.false_eq_true, if_false] at h
            split at h
            · injection h with h; exact h.symm
            · cases h
          subst hl
          exact ⟨hchain, hacc_ne, by rw [hhead]; exact hclose⟩
        · have hne : (acc.length != (k.hfsOf (heOf e 0)).length) = true := by simp [hlen]
          simp only [hne, if_true] at h
          split at h
          · cases h
          · rename_i acc2 hwb
            split at h
            · injection h with h; subst h
              obtain ⟨pre, hpre⟩ := Fan.walkBwd_suffix k _ _ _ _ _ _ hwb
              have hz_l : acc.getLast?.getD 0 ∈ acc2 := by rw [hpre]; exact List.mem_append_right _ hz_mem
              have hlast_eq : acc2.getLast?.getD 0 = acc.getLast?.getD 0 := by
                rw [hpre, List.getLast?_append, List.getLast?_eq_some_getLast hacc_ne]; rfl
              rcases hclose with hb | ⟨x, hax, hxs⟩
              · -- open chain: the backward walk extends the chain to the front
                have hback : ∀ y ∈ acc2, k.cellOf (opp y) = none ∨ Fan.RingMember k (opp (heOf e 0)) (opp y) :=
                  fun y hy => (hmemb y hy).2
                have hc2 := walkBwd_chain k (heOf e 0) _ acc2 hback _ start acc hacc_head hchain hwb
                refine ⟨hc2, by rw [hpre]; simp [hacc_ne], Or.inl ?_⟩
                rw [hlast_eq]; exact hb
              · -- the forward walk closed a cycle that does not cover the list: the backward walk
                -- would store the last halfface a second time
                exfalso
                obtain ⟨c', hc', hzm, hxm, hxz, _, hor⟩ := Fan.adj_sound k _ _ x hax
                have hring : Fan.RingMember k (heOf e 0) (acc.getLast?.getD 0) := by
                  rcases (hmemb _ hz_l).1 with h1 | h1
                  · exact h1
                  · rw [h1.1] at hc'; cases hc'
                obtain ⟨hzhe, c, hzc, _, _, hcd, hcl, hep, hcons⟩ := hring.unpack
                have hcc : c' = c := by rw [hzc] at hc'; injection hc' with e; exact e.symm
                subst hcc
                have hxh : opp (heOf e 0) ∈ k.hfHes x := by
                  rcases hor with h1 | h1
                  · exact h1.2
                  · exact absurd hzhe h1.1
                have hxeq : opp start = x := by rw [← hxs, CellCheck.opp_opp]
                have hb : k.hfOnBoundaryOrDeleted (opp start) = false := by
                  rw [hxeq]; exact Fan.notBoundary_of_cell k x c' (hcons x hxm) hcd
                have hback : k.adjHalffaceInCell (opp start) (opp (heOf e 0)) = some (acc.getLast?.getD 0) := by
                  rw [hxeq]
                  exact Fan.adj_eq_some_of_closed k x (opp (heOf e 0)) c' _ (hcons x hxm) hcl hxm hxh hzm
                    (by rw [CellCheck.opp_opp]; exact hzhe) (Ne.symm hxz) (hep x hxm (Or.inr hxh)).1
                obtain ⟨pre2, hp2⟩ := Fan.walkBwd_first k _ _ _ start _ acc _ hb hback hwb
                rw [hp2] at hnd
                have := (List.nodup_append.mp hnd).2.1
                exact (List.nodup_cons.mp this).1 hz_mem
            · cases h

/-- **after `reorder e`, whenever it stores, the fan of edge `e` is in rotational order** (closed ring
    or open chain): the slot of halfedge `2e` holds a permutation `l` of the old slot in which every
    element with a successor is followed by its rotation successor, the last element is a boundary
    halfface or leads back to the first, and the slot of halfedge `2e+1` is the mirrored reverse
    (all evaluated in the new state).
    Partial with respect to C09: assumes that a list is stored (`reorderList_single_fan_stores`
    shows it for single fans); preservation by later mutators (`RotInv`) is not covered. -/
theorem reorder_fan_order_partial (k : Kernel) (e : Nat) (l : List Nat)
    (hok : Fan.FanOK k e) (h : k.reorderList e = some l)
    (h1 : heOf e 1 < k.incHfs.length) (hl : (k.hfsOf (heOf e 1)).length = (k.hfsOf (heOf e 0)).length) :
    (k.reorder e).hfsOf (heOf e 0) = l ∧ (k.reorder e).hfsOf (heOf e 1) = l.reverse.map opp ∧
    l.Perm (k.hfsOf (heOf e 0)) ∧
    (∀ i, i + 1 < l.length →
      (k.reorder e).sFanNext (heOf e 0) (l.getD i 0) = some (l.getD (i + 1) 0)) ∧
    ((k.reorder e).sFanNext (heOf e 0) (l.getD (l.length - 1) 0) = none ∨
     (k.reorder e).sFanNext (heOf e 0) (l.getD (l.length - 1) 0) = some (l.getD 0 0)) := by
  obtain ⟨hperm, hfan, hlast⟩ := reorderList_fan_order k e l hok h
  have hw := reorderWrite_slots k e l h1 (by rw [hl]; exact hperm.length_eq.symm)
  have hre : k.reorder e = k.reorderWrite e l := by unfold reorder; rw [h]
  have hframe : ∀ hf, (k.reorder e).sFanNext (heOf e 0) hf = k.sFanNext (heOf e 0) hf := by
    intro hf
    unfold sFanNext sAdj sCellOf sCellsOfHf liveCells cellAt hfHes faceAt cDeleted nC
    simp only [reorder_cells, reorder_faces, reorder_cDel]
  refine ⟨by rw [hre]; exact hw.1, by rw [hre]; exact hw.2.1, hperm, ?_, ?_⟩
  · intro i hi; rw [hframe]; exact hfan i hi
  · rw [hframe]; exact hlast
theorem chain_link (k : Kernel) (he : Nat) : ∀ (l : List Nat), Chain k he l → Fan.Link k he l := by
  intro l
  induction l with
  | nil => intro _; trivial
  | cons a t ih =>
    intro hc
    cases t with
    | nil => trivial
    | cons b r => exact ⟨hc.2.1, ih hc.2.2⟩

/-! ### the permutation-invariant single-fan predicate -/

/-- every two members of `L` are linked by the rotation, in one direction or the other -/
def ConnU (k : Kernel) (he : Nat) (L : List Nat) : Prop :=
  ∀ a ∈ L, ∀ b ∈ L, (∃ i, iterNext k he i a = some b) ∨ (∃ i, iterNext k he i b = some a)

/-- `Fan.SingleFan` with connectedness stated for every pair of members and without a step bound -/
def SingleFanU (k : Kernel) (e : Nat) : Prop :=
  FanOK k e ∧
  (∀ hf ∈ k.hfsOf (heOf e 0), ∀ y ∈ k.sFanNext (heOf e 0) hf, y ∈ k.hfsOf (heOf e 0)) ∧
  (∀ hf ∈ k.hfsOf (heOf e 0), ∀ y ∈ k.sFanNext (opp (heOf e 0)) (opp hf), opp y ∈ k.hfsOf (heOf e 0)) ∧
  ConnU k (heOf e 0) (k.hfsOf (heOf e 0))

theorem iterNext_add (k : Kernel) (he : Nat) (i j x : Nat) :
    iterNext k he (i + j) x = (iterNext k he i x).bind (iterNext k he j) := by
  induction j with
  | zero => simp [iterNext]
  | succ j ih =>
    rw [← Nat.add_assoc]
    simp only [iterNext, ih]
    cases iterNext k he i x <;> simp

theorem iterNext_succ_left (k : Kernel) (he : Nat) (i x : Nat) :
    iterNext k he (i + 1) x = (k.sFanNext he x).bind (iterNext k he i) := by
  rw [Nat.add_comm, iterNext_add]; simp [iterNext]

/-- the rotation is injective on well-formed fan members whose successors are members -/
theorem next_inj (k : Kernel) (he : Nat) (L : List Nat) (hfm : ∀ y ∈ L, FanMember k he y)
    (p q z : Nat) (hp : p ∈ L) (hq : q ∈ L) (h1 : k.sFanNext he p = some z) (h2 : k.sFanNext he q = some z) :
    p = q := by
  have hrp := (hfm p hp).ring_of_next h1
  have hrq := (hfm q hq).ring_of_next h2
  obtain ⟨x, hx, _⟩ := ring_adj k he p hrp
  obtain ⟨y, hy, _⟩ := ring_adj k he q hrq
  have e1 := sFanNext_of_adj k he p x hrp hx
  have e2 := sFanNext_of_adj k he q y hrq hy
  rw [h1] at e1; rw [h2] at e2
  have hxy : x = y := by
    have : opp x = opp y := by injection e1 with e1; injection e2 with e2; rw [← e1, ← e2]
    have := congrArg opp this
    rwa [CellCheck.opp_opp, CellCheck.opp_opp] at this
  subst hxy
  exact ring_inj k he p q x hrp hrq hx hy

/-- two walks that meet came from the same place: if `i ≤ j` steps from `a` resp. `b` reach the same
    halfface, then `b` reaches `a` in `j - i` steps -/
theorem iter_meet (k : Kernel) (he : Nat) (L : List Nat) (hfm : ∀ y ∈ L, FanMember k he y)
    (hcl : ∀ hf ∈ L, ∀ y, k.sFanNext he hf = some y → y ∈ L) :
    ∀ (i j a b z : Nat), a ∈ L → b ∈ L → i ≤ j → iterNext k he i a = some z → iterNext k he j b = some z →
      iterNext k he (j - i) b = some a := by
  intro i
  induction i with
  | zero =>
    intro j a b z _ _ _ h1 h2
    simp only [iterNext, Option.some.injEq] at h1
    subst h1; simpa using h2
  | succ i ih =>
    intro j a b z ha hb hij h1 h2
    obtain ⟨j', rfl⟩ : ∃ j', j = j' + 1 := ⟨j - 1, by omega⟩
    simp only [iterNext] at h1 h2
    cases h1a : iterNext k he i a with
    | none => rw [h1a] at h1; cases h1
    | some a' =>
      cases h2b : iterNext k he j' b with
      | none => rw [h2b] at h2; cases h2
      | some b' =>
        rw [h1a] at h1; rw [h2b] at h2
        simp only [Option.bind_some] at h1 h2
        have ha' := iter_mem k he L hcl i a a' ha h1a
        have hb' := iter_mem k he L hcl j' b b' hb h2b
        have := next_inj k he L hfm a' b' z ha' hb' h1 h2
        subst this
        have := ih j' a b a' ha hb (by omega) h1a h2b
        rw [show j' + 1 - (i + 1) = j' - i by omega]; exact this

/-- **E1's `SingleFan` implies the permutation-invariant form** -/
theorem singleFanU_of_singleFan (k : Kernel) (e : Nat) (h : SingleFan k e) : SingleFanU k e := by
  obtain ⟨hok, hcf, hcb, hconn⟩ := h
  refine ⟨hok, hcf, hcb, ?_⟩
  have hcl : ∀ hf ∈ k.hfsOf (heOf e 0), ∀ y, k.sFanNext (heOf e 0) hf = some y → y ∈ k.hfsOf (heOf e 0) :=
    fun hf hm y hy => hcf hf hm y (Option.mem_def.mpr hy)
  intro a ha b hb
  have comp : ∀ (i j x y z : Nat), iterNext k (heOf e 0) i x = some y → iterNext k (heOf e 0) j y = some z →
      iterNext k (heOf e 0) (i + j) x = some z := by
    intro i j x y z h1 h2; rw [iterNext_add, h1]; exact h2
  have split : ∀ (i j x y z : Nat), i ≤ j → iterNext k (heOf e 0) i x = some y → iterNext k (heOf e 0) j x = some z →
      iterNext k (heOf e 0) (j - i) y = some z := by
    intro i j x y z hij h1 h2
    have : j = i + (j - i) := by omega
    rw [this, iterNext_add, h1] at h2; exact h2
  rcases hconn a ha with ⟨i, _, hi⟩ | ⟨i, _, hi⟩ <;> rcases hconn b hb with ⟨j, _, hj⟩ | ⟨j, _, hj⟩
  · rcases Nat.le_total i j with hij | hij
    · exact Or.inl ⟨_, split i j _ _ _ hij hi hj⟩
    · exact Or.inr ⟨_, split j i _ _ _ hij hj hi⟩
  · exact Or.inr ⟨_, comp j i _ _ _ hj hi⟩
  · exact Or.inl ⟨_, comp i j _ _ _ hi hj⟩
  · rcases Nat.le_total i j with hij | hij
    · exact Or.inr ⟨_, iter_meet k _ _ hok.2 hcl i j a b _ ha hb hij hi hj⟩
    · exact Or.inl ⟨_, iter_meet k _ _ hok.2 hcl j i b a _ hb ha hij hj hi⟩

/-- `SingleFanU` at `e` reads the definitions, the cell flags, `incident_cell_per_hf_` and the cache slot of
    halfedge `2e` AS A SET -/
theorem SingleFanU.congr {k k' : Kernel} (h : SameDefs k k') (e : Nat)
    (hp : (k'.hfsOf (heOf e 0)).Perm (k.hfsOf (heOf e 0))) : SingleFanU k' e ↔ SingleFanU k e := by
  unfold SingleFanU FanOK ConnU
  simp only [hp.mem_iff, hp.nodup_iff, h.fanMember, h.sFanNext, h.iterNext]

/-- **`reorder` does not give up on a single fan**, closed ring or open chain: if edge `e` is a
    `SingleFanU` with at least two cached halffaces, `reorder_incident_halffaces(e)` stores a list
    (with fewer than two halffaces the function returns at once and there is nothing to order). -/
theorem reorderList_single_fan_stores (k : Kernel) (e : Nat) (hs : SingleFanU k e)
    (h2 : 2 ≤ (k.hfsOf (heOf e 0)).length) : ∃ l, k.reorderList e = some l := by
  obtain ⟨hok, hclf, hclb, hconn⟩ := hs
  obtain ⟨hnd, hfm⟩ := hok
  have hclf' : ∀ hf ∈ k.hfsOf (heOf e 0), ∀ y, k.sFanNext (heOf e 0) hf = some y → y ∈ k.hfsOf (heOf e 0) :=
    fun hf hm y hy => hclf hf hm y (Option.mem_def.mpr hy)
  have hringF : ∀ hf ∈ k.hfsOf (heOf e 0), k.hfOnBoundaryOrDeleted hf = false →
      Fan.RingMember k (heOf e 0) hf := fun hf hm hb => (hfm hf hm).ring_of_notBoundary hb
  have hclF : ∀ hf ∈ k.hfsOf (heOf e 0), ∀ x, k.adjHalffaceInCell hf (heOf e 0) = some x →
      opp x ∈ k.hfsOf (heOf e 0) := by
    intro hf hm x hx
    exact hclf' hf hm (opp x) (Fan.sFanNext_of_adj k _ hf x ((hfm hf hm).ring_of_adj hx) hx)
  have hringB' : ∀ hf ∈ k.hfsOf (heOf e 0), k.cellOf (opp hf) ≠ none →
      Fan.RingMember k (opp (heOf e 0)) (opp hf) := by
    intro hf hm hc
    rcases (hfm hf hm).2 with h0 | h0
    · exact absurd h0 hc
    · exact h0
  have hringB : ∀ hf ∈ k.hfsOf (heOf e 0), k.hfOnBoundaryOrDeleted (opp hf) = false →
      Fan.RingMember k (opp (heOf e 0)) (opp hf) := by
    intro hf hm hb
    apply hringB' hf hm
    intro h0; rw [Fan.boundary_of_cellOf_none k _ h0] at hb; cases hb
  have hclB : ∀ hf ∈ k.hfsOf (heOf e 0), ∀ a, k.adjHalffaceInCell (opp hf) (opp (heOf e 0)) = some a →
      a ∈ k.hfsOf (heOf e 0) := by
    intro hf hm a ha
    obtain ⟨c, hc, _⟩ := Fan.adj_sound k _ _ a ha
    have hr := hringB' hf hm (by rw [hc]; simp)
    have := hclb hf hm (opp a) (Option.mem_def.mpr (Fan.sFanNext_of_adj k _ _ a hr ha))
    rwa [CellCheck.opp_opp] at this
  cases hinc : k.hfsOf (heOf e 0) with
  | nil => rw [hinc] at h2; simp at h2
  | cons start rest =>
    have hstart : start ∈ k.hfsOf (heOf e 0) := by rw [hinc]; exact List.mem_cons_self ..
    have hhd : (k.hfsOf (heOf e 0)).headD 0 = start := by rw [hinc]; rfl
    obtain ⟨fwd, hw, hfn, hfs⟩ := Fan.walkFwd_stops k (heOf e 0) start (k.hfsOf (heOf e 0)) hringF hclF
      ((k.hfsOf (heOf e 0)).length + 1) start [] (by simp) (by simpa using hstart) (by simp) (by simp)
      (by exact trivial) (by simp)
    obtain ⟨hchain, ⟨tl, htl⟩, hclose⟩ :=
      walkFwd_chain k (heOf e 0) start _ _ start [] fwd (by exact trivial) hw
    have hfwd_ne : fwd ≠ [] := by rw [htl]; simp
    have hfwd_head : fwd.head? = some start := by rw [htl]; simp
    have hfwd_headD : fwd.headD 0 = start := by rw [htl]; simp
    have hstart_fwd : start ∈ fwd := by rw [htl]; simp
    have hlink := chain_link k (heOf e 0) fwd hchain
    -- a walked list that is closed under successors and predecessors is the whole fan
    have cover : ∀ R : List Nat, R.Nodup → (∀ y ∈ R, y ∈ k.hfsOf (heOf e 0)) → start ∈ R →
        (∀ z y, z ∈ R → k.sFanNext (heOf e 0) z = some y → y ∈ R) →
        (∀ p q, p ∈ k.hfsOf (heOf e 0) → k.sFanNext (heOf e 0) p = some q → q ∈ R → p ∈ R) →
        R.Perm (k.hfsOf (heOf e 0)) := by
      intro R hRn hRs hsR hsc hpc
      refine (List.perm_ext_iff_of_nodup hRn hnd).mpr (fun a => ⟨hRs a, fun ha => ?_⟩)
      rcases hconn start hstart a ha with ⟨i, hi⟩ | ⟨i, hi⟩
      · exact Fan.reach_fwd k _ R hsc i start a hsR hi
      · exact Fan.reach_bwd k _ _ R hclf' hpc i a start ha hi hsR
    have hn2 : ¬ (k.hfsOf (heOf e 0)).length < 2 := by omega
    have hhead : (k.hfsOf (heOf e 0)).head? = some start := by rw [hinc]; rfl
    -- storing a list that is a permutation
    have store_fwd : fwd.Perm (k.hfsOf (heOf e 0)) → ∃ l, k.reorderList e = some l := by
      intro hperm
      have hlen := hperm.length_eq
      have hnb : (fwd.length != (k.hfsOf (heOf e 0)).length) = false := by simp [hlen]
      have hip : fwd.isPerm (k.hfsOf (heOf e 0)) = true := List.isPerm_iff.mpr hperm
      refine ⟨fwd, ?_⟩
      unfold reorderList
      simp only [hn2, if_false, hhead, hw, hnb, Bool.false_eq_true]
      simp only [hlen, beq_self_eq_true, hip, Bool.and_self, if_true]
    rcases hclose with hb | ⟨x, hx, hxs⟩
    · -- the forward walk ended at a boundary halfface: the backward walk completes the chain
      obtain ⟨R, hwb, hRn, hRs, hRl, hRfirst, pre, hpre⟩ :=
        Fan.walkBwd_stops k (heOf e 0) (k.hfsOf (heOf e 0)) hringB hclB
          ((k.hfsOf (heOf e 0)).length + 1) start fwd hfn hfs hfwd_head hlink hb
          (by have : 1 ≤ fwd.length := List.length_pos_iff.mpr hfwd_ne
              omega)
      have hRlast : R.getLast?.getD 0 = fwd.getLast?.getD 0 := by
        rw [hpre, List.getLast?_append, List.getLast?_eq_some_getLast hfwd_ne]; rfl
      have hsR : start ∈ R := by rw [hpre]; exact List.mem_append_right _ hstart_fwd
      have hperm := cover R hRn hRs hsR
        (Fan.succ_closed k _ _ R hfm hRs hRl (Or.inl (by rw [hRlast]; exact hb)))
        (Fan.pred_closed k _ _ R hfm hRs hRl (Or.inl hRfirst))
      by_cases hlen : fwd.length = (k.hfsOf (heOf e 0)).length
      · have hpl : pre = [] := by
          have h1 := hperm.length_eq
          rw [hpre, List.length_append] at h1
          exact List.eq_nil_of_length_eq_zero (by omega)
        rw [hpl, List.nil_append] at hpre
        exact store_fwd (hpre ▸ hperm)
      · have hnb : (fwd.length != (k.hfsOf (heOf e 0)).length) = true := by simp [hlen]
        have hip : R.isPerm (k.hfsOf (heOf e 0)) = true := List.isPerm_iff.mpr hperm
        have hRlen := hperm.length_eq
        refine ⟨R, ?_⟩
        unfold reorderList
        simp only [hn2, if_false, hhead, hw, hnb, if_true, hwb]
        simp only [hRlen, beq_self_eq_true, hip, Bool.and_self, if_true]
    · -- the forward walk came back to its start: it is the whole ring
      have hlast : k.hfOnBoundaryOrDeleted (fwd.getLast?.getD 0) = true ∨
          ∃ x, k.adjHalffaceInCell (fwd.getLast?.getD 0) (heOf e 0) = some x ∧ opp x = fwd.headD 0 :=
        Or.inr ⟨x, hx, by rw [hfwd_headD]; exact hxs⟩
      exact store_fwd (cover fwd hfn hfs hstart_fwd
        (Fan.succ_closed k _ _ fwd hfm hfs hlink hlast)
        (Fan.pred_closed k _ _ fwd hfm hfs hlink (Or.inr ⟨x, hx, by rw [hfwd_headD]; exact hxs⟩)))

/-- **after `reorder e` a single fan is in rotational order** (closed ring or open chain, any valence
    ≥ 2).  For a `SingleFanU` edge with its two cache slots present and of equal length, the call
    stores a list `l`; afterwards the slot of halfedge `2e` is `l`, a permutation of the old slot in
    which every element with a successor in `l` is followed by its rotation successor `sFanNext`
    (hence is not a boundary halfface), the last element is a boundary halfface or leads back to
    the first, and the slot of halfedge `2e+1` is the mirrored reverse — all in the new state.
    Partial with respect to C09 only in that preservation of this order by later mutators
    (`RotInv` across histories) is not covered. -/
theorem reorder_single_fan_partial (k : Kernel) (e : Nat) (hs : SingleFanU k e)
    (h2 : 2 ≤ (k.hfsOf (heOf e 0)).length)
    (h1 : heOf e 1 < k.incHfs.length) (hl : (k.hfsOf (heOf e 1)).length = (k.hfsOf (heOf e 0)).length) :
    ∃ l, (k.reorder e).hfsOf (heOf e 0) = l ∧ (k.reorder e).hfsOf (heOf e 1) = l.reverse.map opp ∧
      l.Perm (k.hfsOf (heOf e 0)) ∧
      (∀ i, i + 1 < l.length →
        (k.reorder e).sFanNext (heOf e 0) (l.getD i 0) = some (l.getD (i + 1) 0)) ∧
      ((k.reorder e).sFanNext (heOf e 0) (l.getD (l.length - 1) 0) = none ∨
       (k.reorder e).sFanNext (heOf e 0) (l.getD (l.length - 1) 0) = some (l.getD 0 0)) := by
  obtain ⟨l, h⟩ := reorderList_single_fan_stores k e hs h2
  exact ⟨l, reorder_fan_order_partial k e l hs.1 h h1 hl⟩

/-! ### towards `RotInv`: `reorder` establishes the order at its edge and keeps it elsewhere -/

theorem reorder_sameDefs (k : Kernel) (e : Nat) : Fan.SameDefs k (k.reorder e) :=
  ⟨reorder_cells k e, reorder_faces k e, reorder_cDel k e, reorder_incCell k e⟩

theorem heOf_ne_of_ne {e e' : Nat} (hne : e ≠ e') (s s' : Nat) (hs : s < 2) (hs' : s' < 2) :
    heOf e s ≠ heOf e' s' := by unfold heOf; omega

/-- the slots of edge `e` are usable: both exist with equal length, and there are at least two
    halffaces (with fewer `reorder` returns at once) -/
def SlotsOK (k : Kernel) (e : Nat) : Prop :=
  heOf e 1 < k.incHfs.length ∧ (k.hfsOf (heOf e 1)).length = (k.hfsOf (heOf e 0)).length ∧
  2 ≤ (k.hfsOf (heOf e 0)).length

instance (k : Kernel) (e : Nat) : Decidable (SlotsOK k e) := by unfold SlotsOK; exact inferInstance

/-- **`reorder e` establishes the rotational order at `e`** when `e` is a single fan (closed or open) -/
theorem reorder_establishes_order (k : Kernel) (e : Nat) (hs : SingleFanU k e) (hok : SlotsOK k e) :
    Fan.FanOrdered (k.reorder e) e := by
  obtain ⟨l, h0, h1, _, hfan, hlast⟩ := reorder_single_fan_partial k e hs hok.2.2 hok.1 hok.2.1
  unfold Fan.FanOrdered
  rw [h0, h1]
  exact ⟨fun i hi => hfan i (by omega), hlast, rfl⟩

/-- `reorder e'` changes nothing the predicates at another edge `e` read -/
theorem reorder_elsewhere (k : Kernel) (e e' : Nat) (hne : e ≠ e') :
    (Fan.FanOrdered (k.reorder e') e ↔ Fan.FanOrdered k e) ∧
    (SingleFanU (k.reorder e') e ↔ SingleFanU k e) ∧ (SlotsOK (k.reorder e') e ↔ SlotsOK k e) := by
  have h0 : (k.reorder e').hfsOf (heOf e 0) = k.hfsOf (heOf e 0) :=
    reorder_other_slots k e' _ (heOf_ne_of_ne hne 0 0 (by omega) (by omega))
      (heOf_ne_of_ne hne 0 1 (by omega) (by omega))
  have h1 : (k.reorder e').hfsOf (heOf e 1) = k.hfsOf (heOf e 1) :=
    reorder_other_slots k e' _ (heOf_ne_of_ne hne 1 0 (by omega) (by omega))
      (heOf_ne_of_ne hne 1 1 (by omega) (by omega))
  refine ⟨(reorder_sameDefs k e').fanOrdered e h0 h1, SingleFanU.congr (reorder_sameDefs k e') e (h0 ▸ List.Perm.refl _), ?_⟩
  unfold SlotsOK
  rw [h0, h1, reorder_incHfs_length]

theorem foldl_reorder_keeps_order (es : List Nat) (e : Nat) (hne : e ∉ es) :
    ∀ (k : Kernel), Fan.FanOrdered k e → Fan.FanOrdered (es.foldl reorder k) e := by
  induction es with
  | nil => intro k h; exact h
  | cons e1 t ih =>
    intro k h
    simp only [List.foldl_cons]
    have hne1 : e ≠ e1 := fun h' => hne (h' ▸ List.mem_cons_self ..)
    exact ih (fun hm => hne (List.mem_cons_of_mem _ hm)) _ ((reorder_elsewhere k e e1 hne1).1.mpr h)

/-- **a sweep of `reorder` over pairwise different edges puts every single fan among them in
    rotational order** (this is the loop `add_cell`, `delete_face_core` and `delete_cell_core` run
    over the affected edges) -/
theorem foldl_reorder_orders (es : List Nat) (hnd : es.Nodup) :
    ∀ (k : Kernel) (e : Nat), e ∈ es → SingleFanU k e → SlotsOK k e →
      Fan.FanOrdered (es.foldl reorder k) e := by
  induction es with
  | nil => intro k e he; cases he
  | cons e1 t ih =>
    intro k e he hs hok
    simp only [List.foldl_cons]
    obtain ⟨hnot, hndt⟩ := List.nodup_cons.mp hnd
    by_cases h1 : e = e1
    · subst h1
      exact foldl_reorder_keeps_order t e hnot _ (reorder_establishes_order k e hs hok)
    · have het : e ∈ t := by
        rcases List.mem_cons.mp he with h | h
        · exact absurd h h1
        · exact h
      obtain ⟨_, hsf, hsl⟩ := reorder_elsewhere k e e1 h1
      exact ih hndt _ e het (hsf.mpr hs) (hsl.mpr hok)

/-! ### `reorder e` at its own edge: it permutes slot `2e` and keeps every slot length -/

theorem reorder_slot0_perm (k : Kernel) (e : Nat) :
    ((k.reorder e).hfsOf (heOf e 0)).Perm (k.hfsOf (heOf e 0)) := by
  unfold reorder
  cases hr : k.reorderList e with
  | none => exact List.Perm.refl _
  | some l =>
    have hp := reorderList_perm k e l hr
    simp only
    have hne : heOf e 1 ≠ heOf e 0 := by unfold heOf; omega
    unfold reorderWrite hfsOf
    simp only [ScanDel.getD_set, List.length_set]
    rw [if_neg (by intro h; exact hne h.1)]
    split
    · exact hp
    · rename_i hlt
      have : k.hfsOf (heOf e 0) = [] := ScanDel.getD_of_ge _ _ _ (by simp at hlt; omega)
      unfold hfsOf at this hp
      rw [this]

theorem reorder_slot_length (k : Kernel) (e y : Nat) :
    ((k.reorder e).hfsOf y).length = (k.hfsOf y).length := by
  unfold reorder
  cases hr : k.reorderList e with
  | none => rfl
  | some l =>
    have hp := (reorderList_perm k e l hr).length_eq
    simp only
    have hne : heOf e 0 ≠ heOf e 1 := by unfold heOf; omega
    unfold reorderWrite hfsOf at *
    simp only [ScanDel.getD_set, List.length_set]
    by_cases h1 : heOf e 1 = y ∧ heOf e 1 < k.incHfs.length
    · rw [if_pos h1, if_neg (by intro h; exact hne h.1)]
      obtain ⟨rfl, _⟩ := h1
      unfold overwritePrefix
      simp only [List.length_append, List.length_take, List.length_drop, List.length_map, List.length_reverse]
      omega
    · rw [if_neg h1]
      split
      · rename_i h0; obtain ⟨rfl, _⟩ := h0; exact hp
      · rfl

theorem reorder_slotsOK_same (k : Kernel) (e : Nat) : SlotsOK (k.reorder e) e ↔ SlotsOK k e := by
  unfold SlotsOK
  rw [reorder_slot_length, reorder_slot_length, reorder_incHfs_length]

theorem reorder_singleFanU_same (k : Kernel) (e : Nat) : SingleFanU (k.reorder e) e ↔ SingleFanU k e :=
  SingleFanU.congr (reorder_sameDefs k e) e (reorder_slot0_perm k e)

/-- **post-state form**: if after `reorder e` the edge is a single fan (with usable slots), it is in rotational order -/
theorem reorder_ordered_post (k : Kernel) (e : Nat) (hs : SingleFanU (k.reorder e) e) (hok : SlotsOK (k.reorder e) e) :
    FanOrdered (k.reorder e) e :=
  reorder_establishes_order k e ((reorder_singleFanU_same k e).mp hs) ((reorder_slotsOK_same k e).mp hok)

/-- a sweep of `reorder`, post-state form: an edge of the sweep that is a single fan AFTER the sweep is ordered -/
theorem foldl_reorder_ordered_post (es : List Nat) :
    ∀ (k : Kernel) (e : Nat), e ∈ es → SingleFanU (es.foldl reorder k) e → SlotsOK (es.foldl reorder k) e →
      FanOrdered (es.foldl reorder k) e := by
  induction es with
  | nil => intro k e he; cases he
  | cons e1 t ih =>
    intro k e he hs hok
    simp only [List.foldl_cons] at hs hok ⊢
    by_cases het : e ∈ t
    · exact ih _ e het hs hok
    · have h1 : e = e1 := by
        rcases List.mem_cons.mp he with h | h
        · exact h
        · exact absurd h het
      subst h1
      -- the rest of the sweep does not touch `e`
      have key : ∀ (t : List Nat) (k1 : Kernel), e ∉ t →
          (FanOrdered (t.foldl reorder k1) e ↔ FanOrdered k1 e) ∧
          (SingleFanU (t.foldl reorder k1) e ↔ SingleFanU k1 e) ∧ (SlotsOK (t.foldl reorder k1) e ↔ SlotsOK k1 e) := by
        intro t
        induction t with
        | nil => intro k1 _; exact ⟨Iff.rfl, Iff.rfl, Iff.rfl⟩
        | cons a t iht =>
          intro k1 hn
          simp only [List.foldl_cons]
          have hne : e ≠ a := fun h' => hn (h' ▸ List.mem_cons_self ..)
          obtain ⟨a1, a2, a3⟩ := reorder_elsewhere k1 e a hne
          obtain ⟨b1, b2, b3⟩ := iht (k1.reorder a) (fun hm => hn (List.mem_cons_of_mem _ hm))
          exact ⟨b1.trans a1, b2.trans a2, b3.trans a3⟩
      obtain ⟨c1, c2, c3⟩ := key t (k.reorder e) het
      exact c1.mpr (reorder_ordered_post k e (c2.mp hs) (c3.mp hok))

end Rot
end Kernel
end OVM

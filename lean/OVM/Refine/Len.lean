import OVM.Refine.Inv
import OVM.Refine.DeleteFrames
/-
  `LenInv` (one slot per entity in every flag array, enabled cache and property column) is
  preserved by every operation of the kernel — for every state, every argument, every deletion
  mode and every incidence subset; the only argument condition is that a deleted vertex handle is
  in range (`n_vertices_` is a stored counter, all other counts are vector sizes).
-/
namespace OVM
namespace Kernel

/-! ### columns -/
theorem colsLen_resize (cs : List Col) (n : Nat) : ColsLen (cs.map (·.resize n)) n := by
  intro c hc; simp only [List.mem_map] at hc; obtain ⟨c0, _, rfl⟩ := hc; simp [Col.resize]

theorem colsLen_erase (cs : List Col) (n h : Nat) (hc : ColsLen cs n) (hh : h < n) :
    ColsLen (cs.map (·.erase h)) (n - 1) := by
  intro c hm; simp only [List.mem_map] at hm; obtain ⟨c0, h0, rfl⟩ := hm
  simp [Col.erase, List.length_eraseIdx, hc c0 h0, hh]

theorem colsLen_erase_ge (cs : List Col) (n h : Nat) (hc : ColsLen cs n) (hh : n ≤ h) :
    ColsLen (cs.map (·.erase h)) n := by
  intro c hm; simp only [List.mem_map] at hm; obtain ⟨c0, h0, rfl⟩ := hm
  have := hc c0 h0
  simp [Col.erase, List.length_eraseIdx, this]; omega

theorem colsLen_erase_pair (cs : List Col) (n h : Nat) (hc : ColsLen cs (2 * n)) (hh : h < n) :
    ColsLen (cs.map (fun c => (c.erase (2 * h + 1)).erase (2 * h))) (2 * (n - 1)) := by
  intro c hm; simp only [List.mem_map] at hm; obtain ⟨c0, h0, rfl⟩ := hm
  have := hc c0 h0
  simp [Col.erase, List.length_eraseIdx, this]
  have h1 : 2 * h + 1 < 2 * n := by omega
  have h2 : 2 * h < 2 * n - 1 := by omega
  simp [h1, h2]; omega

theorem colsLen_erase_pair_ge (cs : List Col) (n h : Nat) (hc : ColsLen cs (2 * n)) (hh : n ≤ h) :
    ColsLen (cs.map (fun c => (c.erase (2 * h + 1)).erase (2 * h))) (2 * n) := by
  intro c hm; simp only [List.mem_map] at hm; obtain ⟨c0, h0, rfl⟩ := hm
  have := hc c0 h0
  simp [Col.erase, List.length_eraseIdx, this]
  have h1 : ¬ 2 * h + 1 < 2 * n := by omega
  have h2 : ¬ 2 * h < 2 * n := by omega
  simp [h1, h2]

theorem colsLen_swap (cs : List Col) (n a b : Nat) (hc : ColsLen cs n) : ColsLen (cs.map (·.swap a b)) n := by
  intro c hm; simp only [List.mem_map] at hm; obtain ⟨c0, h0, rfl⟩ := hm
  simp [Col.swap, hc c0 h0]

theorem colsLen_swap_pair (cs : List Col) (n a b : Nat) (hc : ColsLen cs n) :
    ColsLen (cs.map (fun c => (c.swap (2 * a) (2 * b)).swap (2 * a + 1) (2 * b + 1))) n := by
  intro c hm; simp only [List.mem_map] at hm; obtain ⟨c0, h0, rfl⟩ := hm
  simp [Col.swap, hc c0 h0]

end Kernel
end OVM

namespace OVM
namespace Kernel

/-! ### cache lengths under the construction cores -/
theorem addEdgeCore_outHes_length (k : Kernel) (a b : Nat) : (k.addEdgeCore a b).outHes.length = k.outHes.length := by
  unfold addEdgeCore; simp only []; split <;> split <;> simp
theorem addEdgeCore_incHfs_length (k : Kernel) (a b : Nat) (h : k.eBU = true) :
    (k.addEdgeCore a b).incHfs.length = 2 * (k.nE + 1) := by
  unfold addEdgeCore; simp only [h]; split <;> simp [nHE, nE]
theorem addEdgeCore_incCell (k : Kernel) (a b : Nat) : (k.addEdgeCore a b).incCell = k.incCell := by
  unfold addEdgeCore; simp only []; split <;> split <;> rfl
theorem addEdgeCore_flags (k : Kernel) (a b : Nat) :
    (k.addEdgeCore a b).vBU = k.vBU ∧ (k.addEdgeCore a b).eBU = k.eBU ∧ (k.addEdgeCore a b).fBU = k.fBU := by
  unfold addEdgeCore; simp only []; split <;> split <;> exact ⟨rfl, rfl, rfl⟩

theorem addFaceCore_outHes (k : Kernel) (hes : List Nat) : (k.addFaceCore hes).outHes = k.outHes := by
  unfold addFaceCore; simp only []; split <;> split <;> rfl
theorem addFaceCore_incHfs_length (k : Kernel) (hes : List Nat) : (k.addFaceCore hes).incHfs.length = k.incHfs.length := by
  unfold addFaceCore; simp only []
  have key : ∀ (f : Nat) (l : List (List Nat)), (hes.foldl (fun inc heh =>
      (inc.modify heh (· ++ [heOf f 0])).modify (opp heh) (· ++ [heOf f 1])) l).length = l.length := by
    intro f; induction hes with
    | nil => intro l; rfl
    | cons x t ih => intro l; simp only [List.foldl_cons]; rw [ih]; simp
  split <;> split <;> simp [key]
theorem addFaceCore_incCell_length (k : Kernel) (hes : List Nat) (h : k.fBU = true) :
    (k.addFaceCore hes).incCell.length = 2 * (k.nF + 1) := by
  unfold addFaceCore; simp only [h]; split <;> simp [nHF, nF]
theorem addFaceCore_flags (k : Kernel) (hes : List Nat) :
    (k.addFaceCore hes).vBU = k.vBU ∧ (k.addFaceCore hes).eBU = k.eBU ∧ (k.addFaceCore hes).fBU = k.fBU := by
  unfold addFaceCore; simp only []; split <;> split <;> exact ⟨rfl, rfl, rfl⟩

theorem addCellCore_outHes (k : Kernel) (hfs : List Nat) : (k.addCellCore hfs).outHes = k.outHes := by
  unfold addCellCore; simp only []; split <;> first | rfl | (split <;> simp)
theorem addCellCore_incHfs_length (k : Kernel) (hfs : List Nat) : (k.addCellCore hfs).incHfs.length = k.incHfs.length := by
  unfold addCellCore; simp only []; split <;> first | rfl | (split <;> simp)
theorem addCellCore_incCell_length (k : Kernel) (hfs : List Nat) : (k.addCellCore hfs).incCell.length = k.incCell.length := by
  unfold addCellCore; simp only []
  have key : ∀ (l : List (Option Nat)), (hfs.foldl (fun ic hf => ic.set hf (some k.nC)) l).length = l.length := by
    induction hfs with
    | nil => intro l; rfl
    | cons x t ih => intro l; simp only [List.foldl_cons]; rw [ih]; simp
  split
  · split <;> simp [key]
  · rfl
theorem addCellCore_flags (k : Kernel) (hfs : List Nat) :
    (k.addCellCore hfs).vBU = k.vBU ∧ (k.addCellCore hfs).eBU = k.eBU ∧ (k.addCellCore hfs).fBU = k.fBU := by
  unfold addCellCore; simp only []; split <;> first | exact ⟨rfl, rfl, rfl⟩ | (split <;> simp)

theorem lenInv_addVertex (k : Kernel) (h : LenInv k) : LenInv (k.addVertex).1 := by
  unfold addVertex
  exact {
    vDel := by simp [h.vDel]
    eDel := by simpa [nE] using h.eDel
    fDel := by simpa [nF] using h.fDel
    cDel := by simpa [nC] using h.cDel
    outHes := by intro hb; simp only at hb; simp [hb]
    incHfs := by simpa [nHE] using h.incHfs
    incCell := by simpa [nHF] using h.incCell
    pv := by simpa [resizeV] using colsLen_resize k.props.v (k.nV + 1)
    pe := by simpa [resizeV, nE] using h.pe
    phe := by simpa [resizeV, nHE] using h.phe
    pf := by simpa [resizeV, nF] using h.pf
    phf := by simpa [resizeV, nHF] using h.phf
    pc := by simpa [resizeV, nC] using h.pc }

theorem lenInv_addNVertices (k : Kernel) (n : Nat) (h : LenInv k) : LenInv (k.addNVertices n) := by
  unfold addNVertices
  exact {
    vDel := by simp
    eDel := by simpa [nE] using h.eDel
    fDel := by simpa [nF] using h.fDel
    cDel := by simpa [nC] using h.cDel
    outHes := by intro hb; simp only at hb; simp [hb]
    incHfs := by simpa [nHE] using h.incHfs
    incCell := by simpa [nHF] using h.incCell
    pv := by simpa [resizeV] using colsLen_resize k.props.v (k.nV + n)
    pe := by simpa [resizeV, nE] using h.pe
    phe := by simpa [resizeV, nHE] using h.phe
    pf := by simpa [resizeV, nF] using h.pf
    phf := by simpa [resizeV, nHF] using h.phf
    pc := by simpa [resizeV, nC] using h.pc }

theorem lenInv_addEdgeCore (k : Kernel) (a b : Nat) (h : LenInv k) : LenInv (k.addEdgeCore a b) := by
  have fl := addEdgeCore_flags k a b
  exact {
    vDel := by simpa using h.vDel
    eDel := by simp [nE, h.eDel]
    fDel := by simpa [nF] using h.fDel
    cDel := by simpa [nC] using h.cDel
    outHes := by intro hb; rw [fl.1] at hb; rw [addEdgeCore_outHes_length]; simpa using h.outHes hb
    incHfs := by intro hb; rw [fl.2.1] at hb; rw [addEdgeCore_incHfs_length k a b hb]; simp [nHE, nE]
    incCell := by intro hb; rw [fl.2.2] at hb; rw [addEdgeCore_incCell]; simpa [nHF] using h.incCell hb
    pv := by simpa [resizeE] using h.pv
    pe := by simpa [resizeE, nE] using colsLen_resize k.props.e (k.edges.length + 1)
    phe := by simpa [resizeE, nE, nHE] using colsLen_resize k.props.he (2 * (k.edges.length + 1))
    pf := by simpa [resizeE, nF] using h.pf
    phf := by simpa [resizeE, nHF] using h.phf
    pc := by simpa [resizeE, nC] using h.pc }

theorem lenInv_addEdge (k : Kernel) (a b : Nat) (d : Bool) (h : LenInv k) : LenInv (k.addEdge a b d).1 := by
  unfold addEdge; split
  · exact h
  · exact lenInv_addEdgeCore k a b h

theorem lenInv_addFaceCore (k : Kernel) (hes : List Nat) (h : LenInv k) : LenInv (k.addFaceCore hes) := by
  have fl := addFaceCore_flags k hes
  exact {
    vDel := by simpa using h.vDel
    eDel := by simpa [nE] using h.eDel
    fDel := by simp [nF, h.fDel]
    cDel := by simpa [nC] using h.cDel
    outHes := by intro hb; rw [fl.1] at hb; rw [addFaceCore_outHes]; simpa using h.outHes hb
    incHfs := by intro hb; rw [fl.2.1] at hb; rw [addFaceCore_incHfs_length]; simpa [nHE] using h.incHfs hb
    incCell := by intro hb; rw [fl.2.2] at hb; rw [addFaceCore_incCell_length k hes hb]; simp [nHF, nF]
    pv := by simpa [resizeF] using h.pv
    pe := by simpa [resizeF, nE] using h.pe
    phe := by simpa [resizeF, nHE] using h.phe
    pf := by simpa [resizeF, nF] using colsLen_resize k.props.f (k.faces.length + 1)
    phf := by simpa [resizeF, nF, nHF] using colsLen_resize k.props.hf (2 * (k.faces.length + 1))
    pc := by simpa [resizeF, nC] using h.pc }

theorem lenInv_addFace (k : Kernel) (hes : List Nat) (chk : Bool) (h : LenInv k) : LenInv (k.addFace hes chk).1 := by
  unfold addFace; split
  · exact lenInv_addFaceCore k hes h
  · exact h

theorem lenInv_addCellCore (k : Kernel) (hfs : List Nat) (h : LenInv k) : LenInv (k.addCellCore hfs) := by
  have fl := addCellCore_flags k hfs
  exact {
    vDel := by simpa using h.vDel
    eDel := by simpa [nE] using h.eDel
    fDel := by simpa [nF] using h.fDel
    cDel := by simp [nC, h.cDel]
    outHes := by intro hb; rw [fl.1] at hb; rw [addCellCore_outHes]; simpa using h.outHes hb
    incHfs := by intro hb; rw [fl.2.1] at hb; rw [addCellCore_incHfs_length]; simpa [nHE] using h.incHfs hb
    incCell := by intro hb; rw [fl.2.2] at hb; rw [addCellCore_incCell_length]; simpa [nHF] using h.incCell hb
    pv := by simpa [resizeC] using h.pv
    pe := by simpa [resizeC, nE] using h.pe
    phe := by simpa [resizeC, nHE] using h.phe
    pf := by simpa [resizeC, nF] using h.pf
    phf := by simpa [resizeC, nHF] using h.phf
    pc := by simpa [resizeC, nC] using colsLen_resize k.props.c (k.cells.length + 1) }

theorem lenInv_addCell (k : Kernel) (hfs : List Nat) (chk : Bool) (h : LenInv k) : LenInv (k.addCell hfs chk).1 := by
  unfold addCell; split
  · exact lenInv_addCellCore k hfs h
  · exact h

/-- `add_face(vertices)`: a fold of `add_edge` followed by `add_face` -/
theorem lenInv_addFaceV (k : Kernel) (vs : List Nat) (h : LenInv k) : LenInv (k.addFaceV vs).1 := by
  unfold addFaceV
  cases vs with
  | nil =>
    exact { h with }
  | cons v0 t =>
    simp only
    have key : ∀ (ps : List (Nat × Nat)) (st : Kernel × List Nat), LenInv st.1 →
        LenInv (ps.foldl (fun (st : Kernel × List Nat) (ab : Nat × Nat) =>
          ((st.1.addEdge ab.1 ab.2 false).1,
           st.2 ++ [heOf (st.1.addEdge ab.1 ab.2 false).2
             (if (((st.1.addEdge ab.1 ab.2 false).1).edgeAt (st.1.addEdge ab.1 ab.2 false).2).2 == ab.1 then 1 else 0)])) st).1 := by
      intro ps
      induction ps with
      | nil => intro st hs; exact hs
      | cons p ps ih => intro st hs; simp only [List.foldl_cons]; exact ih _ (lenInv_addEdge _ _ _ _ hs)
    exact lenInv_addFace _ _ _ (key _ (k, []) h)

/-! ### set_* -/
theorem length_foldl_modify2 (g2 : Nat → Nat) (f1 f2 : List Nat → List Nat) (xs : List Nat) (l : List (List Nat)) :
    (xs.foldl (fun inc h => (inc.modify h f1).modify (g2 h) f2) l).length = l.length := by
  induction xs generalizing l with
  | nil => rfl
  | cons x t ih => simp only [List.foldl_cons]; rw [ih]; simp

theorem length_foldl_set_opt (v : Option Nat) (xs : List Nat) (l : List (Option Nat)) :
    (xs.foldl (fun ic hf => ic.set hf v) l).length = l.length := by
  induction xs generalizing l with
  | nil => rfl
  | cons x t ih => simp only [List.foldl_cons]; rw [ih]; simp

theorem lenInv_setEdge (k : Kernel) (e a b : Nat) (h : LenInv k) : LenInv (k.setEdge e a b) := by
  unfold setEdge
  exact {
    vDel := by simpa using h.vDel
    eDel := by simpa [nE] using h.eDel
    fDel := by simpa [nF] using h.fDel
    cDel := by simpa [nC] using h.cDel
    outHes := by intro hb; simp only at hb; simp only [hb, if_true]; simpa using h.outHes hb
    incHfs := by simpa [nHE] using h.incHfs
    incCell := by simpa [nHF] using h.incCell
    pv := h.pv
    pe := by simpa [nE] using h.pe
    phe := by simpa [nHE] using h.phe
    pf := h.pf, phf := h.phf, pc := h.pc }

theorem lenInv_setFace (k : Kernel) (f : Nat) (hes : List Nat) (h : LenInv k) : LenInv (k.setFace f hes) := by
  unfold setFace
  exact {
    vDel := by simpa using h.vDel
    eDel := by simpa [nE] using h.eDel
    fDel := by simpa [nF] using h.fDel
    cDel := by simpa [nC] using h.cDel
    outHes := by simpa using h.outHes
    incHfs := by
      intro hb; simp only at hb
      simp only [hb, if_true, nHE]
      rw [length_foldl_modify2 opp, length_foldl_modify2 opp]
      exact h.incHfs hb
    incCell := by simpa [nHF] using h.incCell
    pv := h.pv, pe := h.pe, phe := h.phe
    pf := by simpa [nF] using h.pf
    phf := by simpa [nHF] using h.phf
    pc := h.pc }

theorem lenInv_setCell (k : Kernel) (c : Nat) (hfs : List Nat) (h : LenInv k) : LenInv (k.setCell c hfs) := by
  unfold setCell
  exact {
    vDel := by simpa using h.vDel
    eDel := by simpa [nE] using h.eDel
    fDel := by simpa [nF] using h.fDel
    cDel := by simpa [nC] using h.cDel
    outHes := by simpa using h.outHes
    incHfs := by simpa [nHE] using h.incHfs
    incCell := by
      intro hb; simp only at hb
      simp only [hb, if_true, nHF]
      rw [length_foldl_set_opt, length_foldl_set_opt]
      exact h.incCell hb
    pv := h.pv, pe := h.pe, phe := h.phe, pf := h.pf, phf := h.phf
    pc := by simpa [nC] using h.pc }

/-! ### index swaps -/
theorem length_foldl_modify_gen {α} (f : α → α) (xs : List Nat) (l : List α) :
    (xs.foldl (fun m i => m.modify i f) l).length = l.length := by
  induction xs generalizing l with
  | nil => rfl
  | cons x t ih => simp only [List.foldl_cons]; rw [ih]; simp

theorem length_foldl_swapCellEntry (a b : Nat) (xs : List Nat) (l : List (Option Nat)) :
    (xs.foldl (swapCellEntry a b) l).length = l.length := by
  induction xs generalizing l with
  | nil => rfl
  | cons x t ih =>
    simp only [List.foldl_cons]; rw [ih]
    unfold swapCellEntry; split
    · split <;> (try split) <;> simp
    · rfl

theorem lenInv_swapCell (k : Kernel) (a b : Nat) (h : LenInv k) : LenInv (k.swapCell a b) := by
  unfold swapCell; split
  · exact h
  · exact {
      vDel := by simpa using h.vDel
      eDel := by simpa [nE] using h.eDel
      fDel := by simpa [nF] using h.fDel
      cDel := by simp [nC, h.cDel]
      outHes := by simpa using h.outHes
      incHfs := by simpa [nHE] using h.incHfs
      incCell := by
        intro hb; simp only at hb
        simp only [hb, if_true, nHF, length_foldl_swapCellEntry]
        exact h.incCell hb
      pv := by simpa [swapCProps] using h.pv
      pe := by simpa [swapCProps, nE] using h.pe
      phe := by simpa [swapCProps, nHE] using h.phe
      pf := by simpa [swapCProps, nF] using h.pf
      phf := by simpa [swapCProps, nHF] using h.phf
      pc := by simpa [swapCProps, nC] using colsLen_swap k.props.c k.cells.length a b (by simpa [nC] using h.pc) }

theorem lenInv_swapFace (k : Kernel) (a b : Nat) (h : LenInv k) : LenInv (k.swapFace a b) := by
  unfold swapFace; split
  · exact h
  · exact {
      vDel := by simpa using h.vDel
      eDel := by simpa [nE] using h.eDel
      fDel := by simp [nF, h.fDel]
      cDel := by simp [nC, length_foldl_modify_gen, h.cDel]
      outHes := by simpa using h.outHes
      incHfs := by
        intro hb; simp only at hb
        simp only [hb, if_true, nHE, length_foldl_modify_gen]
        exact h.incHfs hb
      incCell := by
        intro hb; simp only at hb
        simp only [hb, if_true, nHF, length_swapAt]
        simpa [nHF] using h.incCell hb
      pv := by simpa [swapFProps] using h.pv
      pe := by simpa [swapFProps, nE] using h.pe
      phe := by simpa [swapFProps, nHE] using h.phe
      pf := by simpa [swapFProps, nF] using colsLen_swap k.props.f k.faces.length a b (by simpa [nF] using h.pf)
      phf := by simpa [swapFProps, nHF, nF] using colsLen_swap_pair k.props.hf (2 * k.faces.length) a b (by simpa [nHF, nF] using h.phf)
      pc := by simpa [swapFProps, nC, length_foldl_modify_gen] using h.pc }

theorem lenInv_swapEdge (k : Kernel) (a b : Nat) (h : LenInv k) : LenInv (k.swapEdge a b) := by
  unfold swapEdge; split
  · exact h
  · exact {
      vDel := by simpa using h.vDel
      eDel := by simp [nE, h.eDel]
      fDel := by simp [nF, length_foldl_modify_gen, h.fDel]
      cDel := by simpa [nC] using h.cDel
      outHes := by
        intro hb; simp only at hb
        simp only [hb, if_true, length_foldl_modify_gen]
        exact h.outHes hb
      incHfs := by
        intro hb; simp only at hb
        simp only [hb, if_true, nHE, length_swapAt]
        simpa [nHE] using h.incHfs hb
      incCell := by simpa [nHF, length_foldl_modify_gen] using h.incCell
      pv := by simpa [swapEProps] using h.pv
      pe := by simpa [swapEProps, nE] using colsLen_swap k.props.e k.edges.length a b (by simpa [nE] using h.pe)
      phe := by simpa [swapEProps, nHE, nE] using colsLen_swap_pair k.props.he (2 * k.edges.length) a b (by simpa [nHE, nE] using h.phe)
      pf := by simpa [swapEProps, nF, length_foldl_modify_gen] using h.pf
      phf := by simpa [swapEProps, nHF, length_foldl_modify_gen] using h.phf
      pc := by simpa [swapEProps, nC] using h.pc }

theorem lenInv_swapVertex (k : Kernel) (a b : Nat) (h : LenInv k) : LenInv (k.swapVertex a b) := by
  unfold swapVertex; split
  · exact h
  · have hedges : (if k.vBU = true then
        (dedupKeep (((k.outOf a) ++ (k.outOf b)).map (· / 2))).foldl (fun ed e => ed.modify e (relabelEdgeV a b)) k.edges
        else k.edges.map (relabelEdgeV a b)).length = k.edges.length := by
      split <;> simp [length_foldl_modify_gen]
    exact {
      vDel := by simp [h.vDel]
      eDel := by simp only [nE]; rw [hedges]; exact h.eDel
      fDel := by simpa [nF] using h.fDel
      cDel := by simpa [nC] using h.cDel
      outHes := by
        intro hb; simp only at hb
        simp only [hb, if_true, length_swapAt]
        exact h.outHes hb
      incHfs := by intro hb; simp only at hb; simp only [nHE]; rw [hedges]; exact h.incHfs hb
      incCell := by simpa [nHF] using h.incCell
      pv := by simpa [swapVProps] using colsLen_swap k.props.v k.nV a b h.pv
      pe := by simp only [swapVProps, nE]; rw [hedges]; exact h.pe
      phe := by simp only [swapVProps, nHE]; rw [hedges]; exact h.phe
      pf := by simpa [swapVProps, nF] using h.pf
      phf := by simpa [swapVProps, nHF] using h.phf
      pc := by simpa [swapVProps, nC] using h.pc }

/-! ### deletion stages -/
theorem lenInv_of_shape (k k' : Kernel) (h : LenInv k)
    (hnV : k'.nV = k.nV) (hE : k'.edges.length = k.edges.length) (hF : k'.faces.length = k.faces.length)
    (hC : k'.cells.length = k.cells.length) (hvd : k'.vDel.length = k.vDel.length) (hed : k'.eDel.length = k.eDel.length)
    (hfd : k'.fDel.length = k.fDel.length) (hcd : k'.cDel.length = k.cDel.length)
    (hvb : k'.vBU = k.vBU) (heb : k'.eBU = k.eBU) (hfb : k'.fBU = k.fBU)
    (ho : k'.outHes.length = k.outHes.length) (hi : k'.incHfs.length = k.incHfs.length)
    (hc : k'.incCell.length = k.incCell.length) (hp : k'.props = k.props) : LenInv k' :=
  { vDel := by rw [hvd, hnV]; exact h.vDel
    eDel := by simp only [nE]; rw [hed, hE]; exact h.eDel
    fDel := by simp only [nF]; rw [hfd, hF]; exact h.fDel
    cDel := by simp only [nC]; rw [hcd, hC]; exact h.cDel
    outHes := by intro hb; rw [hvb] at hb; rw [ho, hnV]; exact h.outHes hb
    incHfs := by intro hb; rw [heb] at hb; simp only [nHE]; rw [hi, hE]; exact h.incHfs hb
    incCell := by intro hb; rw [hfb] at hb; simp only [nHF]; rw [hc, hF]; exact h.incCell hb
    pv := by rw [hp, hnV]; exact h.pv
    pe := by rw [hp]; simp only [nE]; rw [hE]; exact h.pe
    phe := by rw [hp]; simp only [nHE]; rw [hE]; exact h.phe
    pf := by rw [hp]; simp only [nF]; rw [hF]; exact h.pf
    phf := by rw [hp]; simp only [nHF]; rw [hF]; exact h.phf
    pc := by rw [hp]; simp only [nC]; rw [hC]; exact h.pc }

theorem foldl_length_inv {α β} (g : List α → β → List α) (hg : ∀ l x, (g l x).length = l.length)
    (xs : List β) (l : List α) : (xs.foldl g l).length = l.length := by
  induction xs generalizing l with
  | nil => rfl
  | cons x t ih => simp only [List.foldl_cons]; rw [ih, hg]

theorem unlinkCell_incCell_length (k : Kernel) (h : Nat) : (k.unlinkCell h).incCell.length = k.incCell.length := by
  have key := foldl_length_inv (fun (ic : List (Option Nat)) hf => if ic.getD hf none == some h then ic.set hf none else ic)
    (by intro l x; show (if l.getD x none == some h then l.set x none else l).length = l.length; split <;> simp) (k.cellAt h) k.incCell
  unfold unlinkCell
  split
  · simp only []
    split
    · rw [foldl_reorder_incCell]; exact key
    · exact key
  · rfl
theorem unlinkCell_incHfs_length (k : Kernel) (h : Nat) : (k.unlinkCell h).incHfs.length = k.incHfs.length := by
  unfold unlinkCell; simp only []; split <;> first | rfl | (split <;> simp)

theorem lenInv_unlinkCell (k : Kernel) (h : Nat) (hi : LenInv k) : LenInv (k.unlinkCell h) :=
  lenInv_of_shape k _ hi (by simp) (by simp) (by simp) (by simp) (by simp) (by simp) (by simp) (by simp)
    (by simp) (by simp) (by simp) (by simp) (unlinkCell_incHfs_length k h) (unlinkCell_incCell_length k h) (by simp)

theorem lenInv_flagCell (k : Kernel) (h : Nat) (hi : LenInv k) : LenInv (k.flagCell h) :=
  lenInv_of_shape k _ hi (by simp) (by simp) (by simp) (by simp) (by simp) (by simp) (by simp) (by simp)
    (by simp) (by simp) (by simp) (by simp [flagCell]) (by simp [flagCell]) (by simp [flagCell]) (by simp)

theorem unlinkFaceStep_incHfs_length (k : Kernel) (h he : Nat) : (unlinkFaceStep h k he).incHfs.length = k.incHfs.length := by
  unfold unlinkFaceStep; simp only []; split <;> simp
theorem unlinkFace_incHfs_length (k : Kernel) (h : Nat) : (k.unlinkFace h).incHfs.length = k.incHfs.length := by
  unfold unlinkFace; split
  · exact foldl_frame (·.incHfs.length) (unlinkFaceStep h) (fun k x => unlinkFaceStep_incHfs_length k h x) _ k
  · rfl

theorem lenInv_unlinkFace (k : Kernel) (h : Nat) (hi : LenInv k) : LenInv (k.unlinkFace h) :=
  lenInv_of_shape k _ hi (by simp) (by simp) (by simp) (by simp) (by simp) (by simp) (by simp) (by simp)
    (by simp) (by simp) (by simp) (by simp) (unlinkFace_incHfs_length k h) (by simp) (by simp)

theorem lenInv_flagFace (k : Kernel) (h : Nat) (hi : LenInv k) : LenInv (k.flagFace h) :=
  lenInv_of_shape k _ hi (by simp) (by simp) (by simp) (by simp) (by simp) (by simp) (by simp) (by simp)
    (by simp) (by simp) (by simp) (by simp [flagFace]) (by simp [flagFace]) (by simp [flagFace]) (by simp)

theorem lenInv_unlinkEdge (k : Kernel) (h : Nat) (hi : LenInv k) : LenInv (k.unlinkEdge h) :=
  lenInv_of_shape k _ hi (by simp) (by simp) (by simp) (by simp) (by simp) (by simp) (by simp) (by simp)
    (by simp) (by simp) (by simp) (by unfold unlinkEdge; split <;> simp) (by simp) (by simp) (by simp)

theorem lenInv_flagEdge (k : Kernel) (h : Nat) (hi : LenInv k) : LenInv (k.flagEdge h) :=
  lenInv_of_shape k _ hi (by simp) (by simp) (by simp) (by simp) (by simp) (by simp) (by simp) (by simp)
    (by simp) (by simp) (by simp) (by simp [flagEdge]) (by simp [flagEdge]) (by simp [flagEdge]) (by simp)

theorem lenInv_flagVertex (k : Kernel) (h : Nat) (hi : LenInv k) : LenInv (k.flagVertex h) :=
  lenInv_of_shape k _ hi (by simp) (by simp) (by simp) (by simp) (by simp) (by simp) (by simp) (by simp)
    (by simp) (by simp) (by simp) (by simp [flagVertex]) (by simp [flagVertex]) (by simp [flagVertex]) (by simp)

theorem colsLen_erase_any (cs : List Col) (l : List α) (h : Nat) (hc : ColsLen cs l.length) :
    ColsLen (cs.map (·.erase h)) (l.eraseIdx h).length := by
  by_cases hh : h < l.length
  · rw [List.length_eraseIdx, if_pos hh]; exact colsLen_erase cs _ h hc hh
  · rw [List.length_eraseIdx, if_neg hh]; exact colsLen_erase_ge cs _ h hc (by omega)

theorem colsLen_erase_pair_any (cs : List Col) (l : List α) (h : Nat) (hc : ColsLen cs (2 * l.length)) :
    ColsLen (cs.map (fun c => (c.erase (2 * h + 1)).erase (2 * h))) (2 * (l.eraseIdx h).length) := by
  by_cases hh : h < l.length
  · rw [List.length_eraseIdx, if_pos hh]; exact colsLen_erase_pair cs _ h hc hh
  · rw [List.length_eraseIdx, if_neg hh]; exact colsLen_erase_pair_ge cs _ h hc (by omega)

theorem length_eraseIdx_eq {α β} (a : List α) (b : List β) (h : Nat) (hl : a.length = b.length) :
    (a.eraseIdx h).length = (b.eraseIdx h).length := by
  simp [List.length_eraseIdx, hl]

theorem length_erase_pair {α β} (a : List α) (b : List β) (h : Nat) (hl : a.length = 2 * b.length) :
    ((a.eraseIdx (2 * h + 1)).eraseIdx (2 * h)).length = 2 * (b.eraseIdx h).length := by
  simp only [List.length_eraseIdx, hl]
  by_cases hh : h < b.length
  · have h1 : 2 * h + 1 < 2 * b.length := by omega
    have h2 : 2 * h < 2 * b.length - 1 := by omega
    simp [hh, h1, h2]; omega
  · have h1 : ¬ 2 * h + 1 < 2 * b.length := by omega
    have h2 : ¬ 2 * h < 2 * b.length := by omega
    simp [hh, h1, h2]

theorem lenInv_eraseCell (k : Kernel) (h : Nat) (hi : LenInv k) : LenInv (k.eraseCell h) := by
  unfold eraseCell
  exact {
    vDel := by simpa using hi.vDel
    eDel := by simpa [nE] using hi.eDel
    fDel := by simpa [nF] using hi.fDel
    cDel := by simpa [nC] using length_eraseIdx_eq k.cDel k.cells h (by simpa [nC] using hi.cDel)
    outHes := by simpa using hi.outHes
    incHfs := by simpa [nHE] using hi.incHfs
    incCell := by
      intro hb; simp only at hb
      have := hi.incCell hb
      simp only [nHF] at this ⊢
      split <;> simp [this]
    pv := by simpa [cellDeleted] using hi.pv
    pe := by simpa [cellDeleted, nE] using hi.pe
    phe := by simpa [cellDeleted, nHE] using hi.phe
    pf := by simpa [cellDeleted, nF] using hi.pf
    phf := by simpa [cellDeleted, nHF] using hi.phf
    pc := by simpa [cellDeleted, nC] using colsLen_erase_any k.props.c k.cells h (by simpa [nC] using hi.pc) }

theorem lenInv_eraseFace (k : Kernel) (h : Nat) (hi : LenInv k) : LenInv (k.eraseFace h) := by
  unfold eraseFace
  have hcells : (if (!k.fast) = true then
      (if k.fBU = true then toSet ((k.incCell.drop (heOf h 0)).filterMap id) else k.liveCells).foldl
        (fun cl c => cl.modify c (fixHalfList h)) k.cells else k.cells).length = k.cells.length := by
    split <;> simp [length_foldl_modify_gen]
  exact {
    vDel := by simpa using hi.vDel
    eDel := by simpa [nE] using hi.eDel
    fDel := by simpa [nF] using length_eraseIdx_eq k.fDel k.faces h (by simpa [nF] using hi.fDel)
    cDel := by simp only [nC]; rw [hcells]; exact hi.cDel
    outHes := by simpa using hi.outHes
    incHfs := by
      intro hb; simp only at hb
      have := hi.incHfs hb
      simp only [nHE] at this ⊢
      split <;> simp [this]
    incCell := by
      intro hb; simp only at hb
      have := hi.incCell hb
      simp only [nHF, nF, hb, if_true] at this ⊢
      unfold heOf
      simpa using length_erase_pair k.incCell k.faces h this
    pv := by simpa [faceDeleted] using hi.pv
    pe := by simpa [faceDeleted, nE] using hi.pe
    phe := by simpa [faceDeleted, nHE] using hi.phe
    pf := by simpa [faceDeleted, nF] using colsLen_erase_any k.props.f k.faces h (by simpa [nF] using hi.pf)
    phf := by simpa [faceDeleted, nHF, nF] using colsLen_erase_pair_any k.props.hf k.faces h (by simpa [nHF, nF] using hi.phf)
    pc := by simp only [faceDeleted, nC]; rw [hcells]; exact hi.pc }

theorem lenInv_eraseEdge (k : Kernel) (h : Nat) (hi : LenInv k) : LenInv (k.eraseEdge h) := by
  unfold eraseEdge
  have hfaces : (if (!k.fast) = true then
      (if k.eBU = true then toSet (((k.incHfs.drop (heOf h 0)).flatten).map eOf) else k.liveFaces).foldl
        (fun fl f => fl.modify f (fixHalfList h)) k.faces else k.faces).length = k.faces.length := by
    split <;> simp [length_foldl_modify_gen]
  exact {
    vDel := by simpa using hi.vDel
    eDel := by simpa [nE] using length_eraseIdx_eq k.eDel k.edges h (by simpa [nE] using hi.eDel)
    fDel := by simp only [nF]; rw [hfaces]; exact hi.fDel
    cDel := by simpa [nC] using hi.cDel
    outHes := by
      intro hb; simp only at hb
      have := hi.outHes hb
      by_cases hf : k.fast = true <;> simp [this, hf, hb]
    incHfs := by
      intro hb; simp only at hb
      have := hi.incHfs hb
      simp only [nHE, nE, hb, if_true] at this ⊢
      unfold heOf
      simpa using length_erase_pair k.incHfs k.edges h this
    incCell := by intro hb; simp only at hb; simp only [nHF]; rw [hfaces]; exact hi.incCell hb
    pv := by simpa [edgeDeleted] using hi.pv
    pe := by simpa [edgeDeleted, nE] using colsLen_erase_any k.props.e k.edges h (by simpa [nE] using hi.pe)
    phe := by simpa [edgeDeleted, nHE, nE] using colsLen_erase_pair_any k.props.he k.edges h (by simpa [nHE, nE] using hi.phe)
    pf := by simp only [edgeDeleted, nF]; rw [hfaces]; exact hi.pf
    phf := by simp only [edgeDeleted, nHF]; rw [hfaces]; exact hi.phf
    pc := by simpa [edgeDeleted, nC] using hi.pc }

theorem lenInv_eraseVertex (k : Kernel) (h : Nat) (hi : LenInv k) (hh : h < k.nV) : LenInv (k.eraseVertex h) := by
  unfold eraseVertex
  have hedges : (if k.vBU = true then k.shiftVertsBU h
      else k.liveEdges.foldl (fun ed e => ed.modify e (fun p => (corr1 h p.1, corr1 h p.2))) k.edges).length = k.edges.length := by
    split
    · unfold shiftVertsBU
      apply foldl_length_inv
      intro l x
      exact foldl_length_inv _ (by intro l' y; simp) _ _
    · simp [length_foldl_modify_gen]
  exact {
    vDel := by simp [List.length_eraseIdx, hi.vDel, hh]
    eDel := by simp only [nE]; rw [hedges]; exact hi.eDel
    fDel := by simpa [nF] using hi.fDel
    cDel := by simpa [nC] using hi.cDel
    outHes := by
      intro hb; simp only at hb
      simp [hb, List.length_eraseIdx, hi.outHes hb, hh]
    incHfs := by intro hb; simp only at hb; simp only [nHE]; rw [hedges]; exact hi.incHfs hb
    incCell := by simpa [nHF] using hi.incCell
    pv := by simpa [vertexDeleted] using colsLen_erase k.props.v k.nV h hi.pv hh
    pe := by simp only [vertexDeleted, nE]; rw [hedges]; exact hi.pe
    phe := by simp only [vertexDeleted, nHE]; rw [hedges]; exact hi.phe
    pf := by simpa [vertexDeleted, nF] using hi.pf
    phf := by simpa [vertexDeleted, nHF] using hi.phf
    pc := by simpa [vertexDeleted, nC] using hi.pc }

/-! ### the four cores -/
theorem lenInv_deleteCellCore (k : Kernel) (h : Nat) (hi : LenInv k) : LenInv (k.deleteCellCore h) := by
  unfold deleteCellCore
  simp only []
  split
  · split
    · exact lenInv_flagCell _ _ (lenInv_unlinkCell _ _ (lenInv_swapCell _ _ _ hi))
    · exact lenInv_eraseCell _ _ (lenInv_unlinkCell _ _ (lenInv_swapCell _ _ _ hi))
  · split
    · exact lenInv_flagCell _ _ (lenInv_unlinkCell _ _ hi)
    · exact lenInv_eraseCell _ _ (lenInv_unlinkCell _ _ hi)

theorem lenInv_deleteFaceCore (k : Kernel) (h : Nat) (hi : LenInv k) : LenInv (k.deleteFaceCore h) := by
  unfold deleteFaceCore
  simp only []
  split
  · split
    · exact lenInv_flagFace _ _ (lenInv_unlinkFace _ _ (lenInv_swapFace _ _ _ hi))
    · exact lenInv_eraseFace _ _ (lenInv_unlinkFace _ _ (lenInv_swapFace _ _ _ hi))
  · split
    · exact lenInv_flagFace _ _ (lenInv_unlinkFace _ _ hi)
    · exact lenInv_eraseFace _ _ (lenInv_unlinkFace _ _ hi)

theorem lenInv_deleteEdgeCore (k : Kernel) (h : Nat) (hi : LenInv k) : LenInv (k.deleteEdgeCore h) := by
  unfold deleteEdgeCore
  simp only []
  split
  · split
    · exact lenInv_flagEdge _ _ (lenInv_unlinkEdge _ _ (lenInv_swapEdge _ _ _ hi))
    · exact lenInv_eraseEdge _ _ (lenInv_unlinkEdge _ _ (lenInv_swapEdge _ _ _ hi))
  · split
    · exact lenInv_flagEdge _ _ (lenInv_unlinkEdge _ _ hi)
    · exact lenInv_eraseEdge _ _ (lenInv_unlinkEdge _ _ hi)

theorem lenInv_deleteVertexCore (k : Kernel) (h : Nat) (hi : LenInv k) (hh : h < k.nV) :
    LenInv (k.deleteVertexCore h) := by
  unfold deleteVertexCore
  simp only []
  split
  · split
    · exact lenInv_flagVertex _ _ (lenInv_swapVertex _ _ _ hi)
    · exact lenInv_eraseVertex _ _ (lenInv_swapVertex _ _ _ hi) (by simp; omega)
  · split
    · exact lenInv_flagVertex _ _ hi
    · exact lenInv_eraseVertex _ _ hi hh

/-- the vertex count after `delete_vertex_core`: unchanged (deferred) or one less -/
theorem deleteVertexCore_nV (k : Kernel) (h : Nat) :
    (k.deleteVertexCore h).nV = if k.deferred then k.nV else k.nV - 1 := by
  unfold deleteVertexCore
  simp only []
  cases hd : k.deferred <;> cases hf : k.fast <;> simp [hd, hf]

theorem foldl_lenInv (core : Kernel → Nat → Kernel) (hc : ∀ k h, LenInv k → LenInv (core k h))
    (xs : List Nat) (k : Kernel) (hi : LenInv k) : LenInv (xs.foldl core k) := by
  induction xs generalizing k with
  | nil => exact hi
  | cons x t ih => simp only [List.foldl_cons]; exact ih _ (hc k x hi)

theorem foldl_nV (core : Kernel → Nat → Kernel) (hc : ∀ k h, (core k h).nV = k.nV)
    (xs : List Nat) (k : Kernel) : (xs.foldl core k).nV = k.nV := by
  induction xs generalizing k with
  | nil => rfl
  | cons x t ih => simp only [List.foldl_cons]; rw [ih, hc]

section nVframes
variable (k : Kernel) (h : Nat)
theorem deleteCellCore_nV : (k.deleteCellCore h).nV = k.nV := by unfold deleteCellCore; frame_tac
theorem deleteFaceCore_nV : (k.deleteFaceCore h).nV = k.nV := by unfold deleteFaceCore; frame_tac
theorem deleteEdgeCore_nV : (k.deleteEdgeCore h).nV = k.nV := by unfold deleteEdgeCore; frame_tac
end nVframes

theorem lenInv_deleteCell (k : Kernel) (c : Nat) (hi : LenInv k) : LenInv (k.deleteCell c) :=
  lenInv_deleteCellCore k c hi

theorem lenInv_deleteFace (k : Kernel) (f : Nat) (hi : LenInv k) : LenInv (k.deleteFace f) := by
  unfold deleteFace
  exact lenInv_deleteFaceCore _ _ (foldl_lenInv _ lenInv_deleteCellCore _ _ hi)

theorem lenInv_deleteEdge (k : Kernel) (e : Nat) (hi : LenInv k) : LenInv (k.deleteEdge e) := by
  unfold deleteEdge
  exact lenInv_deleteEdgeCore _ _ (foldl_lenInv _ lenInv_deleteFaceCore _ _ (foldl_lenInv _ lenInv_deleteCellCore _ _ hi))

theorem lenInv_deleteVertex (k : Kernel) (v : Nat) (hi : LenInv k) (hv : v < k.nV) : LenInv (k.deleteVertex v) := by
  unfold deleteVertex
  apply lenInv_deleteVertexCore
  · exact foldl_lenInv _ lenInv_deleteEdgeCore _ _ (foldl_lenInv _ lenInv_deleteFaceCore _ _ (foldl_lenInv _ lenInv_deleteCellCore _ _ hi))
  · rw [foldl_nV _ deleteEdgeCore_nV, foldl_nV _ deleteFaceCore_nV, foldl_nV _ deleteCellCore_nV]; exact hv

/-! ### garbage collection -/
theorem lenInv_congr_counters (k : Kernel) (a b c d : Nat) (df : Bool) (hi : LenInv k) :
    LenInv { k with nDelV := a, nDelE := b, nDelF := c, nDelC := d, deferred := df } :=
  lenInv_of_shape k _ hi rfl rfl rfl rfl rfl rfl rfl rfl rfl rfl rfl rfl rfl rfl rfl

theorem gcSweep_lenInv (isDel : Kernel → Nat → Bool) (unflag core : Kernel → Nat → Kernel)
    (hu : ∀ k i, LenInv k → LenInv (unflag k i)) (hc : ∀ k i, LenInv k → LenInv (core k i))
    (k : Kernel) (n : Nat) (hi : LenInv k) : LenInv (gcSweep k n isDel unflag core) := by
  unfold gcSweep
  generalize (List.range n).reverse = xs
  induction xs generalizing k with
  | nil => exact hi
  | cons x t ih =>
    simp only [List.foldl_cons]
    split
    · exact ih _ (hc _ _ (hu _ _ hi))
    · exact ih _ hi

theorem lenInv_unflagC (k : Kernel) (i : Nat) (hi : LenInv k) : LenInv { k with cDel := k.cDel.set i false } :=
  lenInv_of_shape k _ hi rfl rfl rfl rfl rfl rfl rfl (by simp) rfl rfl rfl rfl rfl rfl rfl
theorem lenInv_unflagF (k : Kernel) (i : Nat) (hi : LenInv k) : LenInv { k with fDel := k.fDel.set i false } :=
  lenInv_of_shape k _ hi rfl rfl rfl rfl rfl rfl (by simp) rfl rfl rfl rfl rfl rfl rfl rfl
theorem lenInv_unflagE (k : Kernel) (i : Nat) (hi : LenInv k) : LenInv { k with eDel := k.eDel.set i false } :=
  lenInv_of_shape k _ hi rfl rfl rfl rfl rfl (by simp) rfl rfl rfl rfl rfl rfl rfl rfl rfl
theorem lenInv_unflagV (k : Kernel) (i : Nat) (hi : LenInv k) : LenInv { k with vDel := k.vDel.set i false } :=
  lenInv_of_shape k _ hi rfl rfl rfl rfl (by simp) rfl rfl rfl rfl rfl rfl rfl rfl rfl rfl

theorem lenInv_withNDelC (k : Kernel) (n : Nat) (h : LenInv k) : LenInv { k with nDelC := n } :=
  lenInv_of_shape k _ h rfl rfl rfl rfl rfl rfl rfl rfl rfl rfl rfl rfl rfl rfl rfl
theorem lenInv_withNDelF (k : Kernel) (n : Nat) (h : LenInv k) : LenInv { k with nDelF := n } :=
  lenInv_of_shape k _ h rfl rfl rfl rfl rfl rfl rfl rfl rfl rfl rfl rfl rfl rfl rfl
theorem lenInv_withNDelE (k : Kernel) (n : Nat) (h : LenInv k) : LenInv { k with nDelE := n } :=
  lenInv_of_shape k _ h rfl rfl rfl rfl rfl rfl rfl rfl rfl rfl rfl rfl rfl rfl rfl
theorem lenInv_withNDelV (k : Kernel) (n : Nat) (h : LenInv k) : LenInv { k with nDelV := n } :=
  lenInv_of_shape k _ h rfl rfl rfl rfl rfl rfl rfl rfl rfl rfl rfl rfl rfl rfl rfl
theorem lenInv_withDeferred (k : Kernel) (b : Bool) (h : LenInv k) : LenInv { k with deferred := b } :=
  lenInv_of_shape k _ h rfl rfl rfl rfl rfl rfl rfl rfl rfl rfl rfl rfl rfl rfl rfl

theorem lenInv_gcCells (k : Kernel) (hi : LenInv k) : LenInv (gcCells k) := by
  unfold gcCells
  have := gcSweep_lenInv cDeleted (fun k i => { k with cDel := k.cDel.set i false }) deleteCellCore
    lenInv_unflagC lenInv_deleteCellCore k k.nC hi
  exact lenInv_withNDelC _ 0 this
theorem lenInv_gcFaces (k : Kernel) (hi : LenInv k) : LenInv (gcFaces k) := by
  unfold gcFaces
  have := gcSweep_lenInv fDeleted (fun k i => { k with fDel := k.fDel.set i false }) deleteFaceCore
    lenInv_unflagF lenInv_deleteFaceCore k k.nF hi
  exact lenInv_withNDelF _ 0 this
theorem lenInv_gcEdges (k : Kernel) (hi : LenInv k) : LenInv (gcEdges k) := by
  unfold gcEdges
  have := gcSweep_lenInv eDeleted (fun k i => { k with eDel := k.eDel.set i false }) deleteEdgeCore
    lenInv_unflagE lenInv_deleteEdgeCore k k.nE hi
  exact lenInv_withNDelE _ 0 this

/-- the vertex sweep hands only in-range handles to `delete_vertex_core`: the remaining indices
    are strictly below the current vertex count (descending processing order) -/
theorem gcSweepV_lenInv (k : Kernel) (xs : List Nat) (hi : LenInv k)
    (hs : xs.Pairwise (· > ·)) (hb : ∀ x ∈ xs, x < k.nV) :
    LenInv (xs.foldl (fun k i => if k.vDeleted i then deleteVertexCore { k with vDel := k.vDel.set i false } i else k) k) := by
  induction xs generalizing k with
  | nil => exact hi
  | cons x t ih =>
    simp only [List.foldl_cons]
    have hx : x < k.nV := hb x (by simp)
    have ht := (List.pairwise_cons.mp hs)
    split
    · apply ih
      · exact lenInv_deleteVertexCore _ _ (lenInv_unflagV k x hi) hx
      · exact ht.2
      · intro y hy
        have hyx : y < x := ht.1 y hy
        rw [deleteVertexCore_nV]
        split <;> simp <;> omega
    · exact ih k hi ht.2 (fun y hy => hb y (by simp [hy]))

theorem lenInv_gcVerts (k : Kernel) (hi : LenInv k) : LenInv (gcVerts k) := by
  unfold gcVerts gcSweep
  have hs : (List.range k.nV).reverse.Pairwise (· > ·) := by
    rw [List.pairwise_reverse]
    exact List.pairwise_lt_range
  have := gcSweepV_lenInv k (List.range k.nV).reverse hi hs (by intro x hx; simpa using hx)
  exact lenInv_withNDelV _ 0 this

theorem lenInv_collectGarbage (k : Kernel) (hi : LenInv k) : LenInv k.collectGarbage := by
  unfold collectGarbage
  split
  · exact hi
  · have h0 : LenInv { k with deferred := false } := lenInv_withDeferred k false hi
    have := lenInv_gcVerts _ (lenInv_gcEdges _ (lenInv_gcFaces _ (lenInv_gcCells _ h0)))
    exact lenInv_withDeferred _ true this

theorem lenInv_enableDeferred (k : Kernel) (b : Bool) (hi : LenInv k) : LenInv (k.enableDeferred b) := by
  unfold enableDeferred
  split
  · exact lenInv_withDeferred _ b (lenInv_collectGarbage k hi)
  · exact lenInv_withDeferred _ b hi

/-! ### incidence toggles, clear -/
theorem computeVBU_length (k : Kernel) : k.computeVBU.length = k.nV := by
  unfold computeVBU
  rw [foldl_length_inv]
  · simp
  · intro l x; simp

theorem computeEBU_length (k : Kernel) : k.computeEBU.length = k.nHE := by
  unfold computeEBU
  rw [foldl_length_inv]
  · simp
  · intro l f
    exact foldl_length_inv _ (by intro l' h; simp) _ _

theorem computeFBU_length (k : Kernel) : k.computeFBU.length = k.nHF := by
  unfold computeFBU
  rw [foldl_length_inv]
  · simp
  · intro l c
    exact foldl_length_inv _ (by intro l' hf; show (if l'.getD hf none == none then l'.set hf (some c) else l').length = l'.length; split <;> simp) _ _

theorem reorderAll_frame (k : Kernel) :
    (k.reorderAll).incHfs.length = k.incHfs.length ∧ (k.reorderAll).nV = k.nV ∧ (k.reorderAll).edges = k.edges ∧
    (k.reorderAll).faces = k.faces ∧ (k.reorderAll).cells = k.cells ∧ (k.reorderAll).vDel = k.vDel ∧
    (k.reorderAll).eDel = k.eDel ∧ (k.reorderAll).fDel = k.fDel ∧ (k.reorderAll).cDel = k.cDel ∧
    (k.reorderAll).vBU = k.vBU ∧ (k.reorderAll).eBU = k.eBU ∧ (k.reorderAll).fBU = k.fBU ∧
    (k.reorderAll).outHes = k.outHes ∧ (k.reorderAll).incCell = k.incCell ∧ (k.reorderAll).props = k.props := by
  unfold reorderAll; simp

theorem lenInv_reorderAll (k : Kernel) (hi : LenInv k) : LenInv k.reorderAll := by
  have f := reorderAll_frame k
  exact lenInv_of_shape k _ hi f.2.1 (by rw [f.2.2.1]) (by rw [f.2.2.2.1]) (by rw [f.2.2.2.2.1]) (by rw [f.2.2.2.2.2.1])
    (by rw [f.2.2.2.2.2.2.1]) (by rw [f.2.2.2.2.2.2.2.1]) (by rw [f.2.2.2.2.2.2.2.2.1]) f.2.2.2.2.2.2.2.2.2.1
    f.2.2.2.2.2.2.2.2.2.2.1 f.2.2.2.2.2.2.2.2.2.2.2.1 (by rw [f.2.2.2.2.2.2.2.2.2.2.2.2.1]) f.1
    (by rw [f.2.2.2.2.2.2.2.2.2.2.2.2.2.1]) f.2.2.2.2.2.2.2.2.2.2.2.2.2.2

theorem lenInv_withEBU (k : Kernel) (hi : LenInv k) (hl : k.incHfs.length = k.nHE) : LenInv { k with eBU := true } :=
  { vDel := hi.vDel, eDel := hi.eDel, fDel := hi.fDel, cDel := hi.cDel, outHes := hi.outHes
    incHfs := fun _ => hl, incCell := hi.incCell
    pv := hi.pv, pe := hi.pe, phe := hi.phe, pf := hi.pf, phf := hi.phf, pc := hi.pc }

theorem lenInv_enableVBU (k : Kernel) (b : Bool) (hi : LenInv k) : LenInv (k.enableVBU b) := by
  unfold enableVBU
  split
  · split
    · exact hi
    · exact { vDel := hi.vDel, eDel := hi.eDel, fDel := hi.fDel, cDel := hi.cDel
              outHes := fun _ => computeVBU_length k
              incHfs := hi.incHfs, incCell := hi.incCell
              pv := hi.pv, pe := hi.pe, phe := hi.phe, pf := hi.pf, phf := hi.phf, pc := hi.pc }
  · exact { vDel := hi.vDel, eDel := hi.eDel, fDel := hi.fDel, cDel := hi.cDel
            outHes := fun h => by simp at h
            incHfs := hi.incHfs, incCell := hi.incCell
            pv := hi.pv, pe := hi.pe, phe := hi.phe, pf := hi.pf, phf := hi.phf, pc := hi.pc }

/-- `LenInv` does not look at a cache whose kind is disabled -/
theorem lenInv_setIncHfs_off (k : Kernel) (l : List (List Nat)) (hi : LenInv k) (he : k.eBU = false) :
    LenInv { k with incHfs := l } :=
  { vDel := hi.vDel, eDel := hi.eDel, fDel := hi.fDel, cDel := hi.cDel, outHes := hi.outHes
    incHfs := fun h => by simp [he] at h
    incCell := hi.incCell
    pv := hi.pv, pe := hi.pe, phe := hi.phe, pf := hi.pf, phf := hi.phf, pc := hi.pc }

theorem lenInv_enableEBU (k : Kernel) (b : Bool) (hi : LenInv k) : LenInv (k.enableEBU b) := by
  unfold enableEBU
  split
  · split
    · exact hi
    · rename_i he
      have he' : k.eBU = false := by simpa using he
      have h1 : LenInv { k with incHfs := k.computeEBU } := lenInv_setIncHfs_off k _ hi he'
      split
      · apply lenInv_withEBU _ (lenInv_reorderAll _ h1)
        have f := reorderAll_frame { k with incHfs := k.computeEBU }
        rw [f.1]; simp only [nHE]; rw [f.2.2.1]; exact computeEBU_length k
      · exact lenInv_withEBU _ h1 (computeEBU_length k)
  · exact { vDel := hi.vDel, eDel := hi.eDel, fDel := hi.fDel, cDel := hi.cDel, outHes := hi.outHes
            incHfs := fun h => by simp at h
            incCell := hi.incCell
            pv := hi.pv, pe := hi.pe, phe := hi.phe, pf := hi.pf, phf := hi.phf, pc := hi.pc }

theorem lenInv_enableFBU (k : Kernel) (b : Bool) (hi : LenInv k) : LenInv (k.enableFBU b) := by
  unfold enableFBU
  split
  · split
    · exact hi
    · have h1 : LenInv { k with incCell := k.computeFBU, fBU := true } :=
        { vDel := hi.vDel, eDel := hi.eDel, fDel := hi.fDel, cDel := hi.cDel, outHes := hi.outHes
          incHfs := hi.incHfs, incCell := fun _ => computeFBU_length k
          pv := hi.pv, pe := hi.pe, phe := hi.phe, pf := hi.pf, phf := hi.phf, pc := hi.pc }
      split
      · exact lenInv_reorderAll _ h1
      · exact h1
  · exact { vDel := hi.vDel, eDel := hi.eDel, fDel := hi.fDel, cDel := hi.cDel, outHes := hi.outHes
            incHfs := hi.incHfs
            incCell := fun h => by simp at h
            pv := hi.pv, pe := hi.pe, phe := hi.phe, pf := hi.pf, phf := hi.phf, pc := hi.pc }

theorem lenInv_enableFast (k : Kernel) (b : Bool) (hi : LenInv k) : LenInv (k.enableFast b) :=
  lenInv_of_shape k _ hi rfl rfl rfl rfl rfl rfl rfl rfl rfl rfl rfl rfl rfl rfl rfl

theorem lenInv_clear (k : Kernel) (b : Bool) (_hi : LenInv k) : LenInv (k.clear b) := by
  unfold clear
  exact {
    vDel := rfl, eDel := rfl, fDel := rfl, cDel := rfl
    outHes := fun _ => rfl, incHfs := fun _ => rfl, incCell := fun _ => rfl
    pv := by simpa [resizeC, resizeF, resizeE, resizeV] using colsLen_resize k.props.v 0
    pe := by simpa [resizeC, resizeF, resizeE, resizeV, nE] using colsLen_resize k.props.e 0
    phe := by simpa [resizeC, resizeF, resizeE, resizeV, nHE] using colsLen_resize k.props.he (2 * 0)
    pf := by simpa [resizeC, resizeF, resizeE, resizeV, nF] using colsLen_resize k.props.f 0
    phf := by simpa [resizeC, resizeF, resizeE, resizeV, nHF] using colsLen_resize k.props.hf (2 * 0)
    pc := by simpa [resizeC, resizeF, resizeE, resizeV, nC] using colsLen_resize k.props.c 0 }

/-! ### every operation, every history -/

/-- the only argument condition `LenInv` needs: a vertex handed to `delete_vertex` is in range -/
def OpInRange (k : Kernel) : Op → Prop
  | .deleteVertex v => v < k.nV
  | _ => True

theorem lenInv_step (k : Kernel) (op : Op) (hi : LenInv k) (hr : OpInRange k op) : LenInv (k.step op).1 := by
  cases op with
  | addVertex => exact lenInv_addVertex k hi
  | addNVertices n => exact lenInv_addNVertices k n hi
  | addEdge a b d => exact lenInv_addEdge k a b d hi
  | addFaceHe c hes => exact lenInv_addFace k hes c hi
  | addFaceV vs => exact lenInv_addFaceV k vs hi
  | addCell c hfs => exact lenInv_addCell k hfs c hi
  | setEdge e a b => exact lenInv_setEdge k e a b hi
  | setFace f hes => exact lenInv_setFace k f hes hi
  | setCell c hfs => exact lenInv_setCell k c hfs hi
  | deleteVertex v => exact lenInv_deleteVertex k v hi hr
  | deleteEdge e => exact lenInv_deleteEdge k e hi
  | deleteFace f => exact lenInv_deleteFace k f hi
  | deleteCell c => exact lenInv_deleteCell k c hi
  | swapVertex a b => exact lenInv_swapVertex k a b hi
  | swapEdge a b => exact lenInv_swapEdge k a b hi
  | swapFace a b => exact lenInv_swapFace k a b hi
  | swapCell a b => exact lenInv_swapCell k a b hi
  | collectGarbage => exact lenInv_collectGarbage k hi
  | enableDeferred b => exact lenInv_enableDeferred k b hi
  | enableFast b => exact lenInv_enableFast k b hi
  | enableBU kind b =>
    simp only [step]
    split
    · exact lenInv_enableVBU k b hi
    · split
      · exact lenInv_enableEBU k b hi
      · exact lenInv_enableFBU k b hi
  | clear p => exact lenInv_clear k p hi

/-- a history whose `delete_vertex` arguments are in range at the time of the call -/
def HistoryInRange : Kernel → List Op → Prop
  | _, [] => True
  | k, op :: t => OpInRange k op ∧ HistoryInRange (k.step op).1 t

/-- **every reachable state has one slot per entity** in every flag array, enabled cache and
    property column — all modes, all incidence subsets, any arguments -/
theorem lenInv_run (k : Kernel) (ops : List Op) (hi : LenInv k) (hr : HistoryInRange k ops) : LenInv (k.run ops) := by
  induction ops generalizing k with
  | nil => exact hi
  | cons op t ih =>
    simp only [run, List.foldl_cons]
    exact ih _ (lenInv_step k op hi hr.1) hr.2

end Kernel
end OVM

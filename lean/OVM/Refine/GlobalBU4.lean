import OVM.Refine.GlobalBU3
/-
  C12, `collect_garbage`.  Inside `collect_garbage` flagged entities exist, and `SameDefs` does not compare their
  stored definitions; the proof is therefore relational: each step of a sweep (un-flag, immediate core) takes two
  `SameDefs` states to two `SameDefs` states.  A step is "exchange with the last slot" (fast mode; `same_swap*`,
  GlobalBU.lean) followed by "erase one slot and rename one level up" (`same_erase*` below, with the renaming `g`
  the identity in fast mode and `corr2` / `corr1` in index-shifting mode).  The unary invariants that make the
  observers applicable on each side are builder K3's (`gcStep*`, CacheFastGC.lean) and K4's (`gcInv_*`, CacheGC.lean).
-/
namespace OVM
namespace Kernel
namespace Global
open ScanDel

/-! ### erasing one slot, relationally -/

structure EraseC (a a' : Kernel) (h : Nat) : Prop where
  nV : a'.nV = a.nV
  edges : a'.edges = a.edges
  faces : a'.faces = a.faces
  cells : a'.cells = a.cells.eraseIdx h
  vDel : a'.vDel = a.vDel
  eDel : a'.eDel = a.eDel
  fDel : a'.fDel = a.fDel
  cDel : a'.cDel = a.cDel.eraseIdx h
  nDelV : a'.nDelV = a.nDelV
  nDelE : a'.nDelE = a.nDelE
  nDelF : a'.nDelF = a.nDelF
  nDelC : a'.nDelC = a.nDelC
  deferred : a'.deferred = a.deferred
  fast : a'.fast = a.fast
  props : a'.props = cellDeleted a.props h

theorem liveC_eraseIdx {a a' : Kernel} {h : Nat} (hc : a'.cells = a.cells.eraseIdx h) (hd : a'.cDel = a.cDel.eraseIdx h)
    (hh : h < a.cells.length) (c : Nat) : a'.liveC c = a.liveC (up h c) := by
  unfold Kernel.liveC Kernel.nC cDeleted
  rw [hc, hd, getD_eraseIdx, List.length_eraseIdx, if_pos hh]
  have : (c < a.cells.length - 1) = (up h c < a.cells.length) := by
    apply propext; unfold up; split <;> omega
  simp only [this]
theorem liveF_eraseIdx {a a' : Kernel} {h : Nat} (hc : a'.faces = a.faces.eraseIdx h) (hd : a'.fDel = a.fDel.eraseIdx h)
    (hh : h < a.faces.length) (c : Nat) : a'.liveF c = a.liveF (up h c) := by
  unfold Kernel.liveF Kernel.nF fDeleted
  rw [hc, hd, getD_eraseIdx, List.length_eraseIdx, if_pos hh]
  have : (c < a.faces.length - 1) = (up h c < a.faces.length) := by
    apply propext; unfold up; split <;> omega
  simp only [this]
theorem liveE_eraseIdx {a a' : Kernel} {h : Nat} (hc : a'.edges = a.edges.eraseIdx h) (hd : a'.eDel = a.eDel.eraseIdx h)
    (hh : h < a.edges.length) (c : Nat) : a'.liveE c = a.liveE (up h c) := by
  unfold Kernel.liveE Kernel.nE eDeleted
  rw [hc, hd, getD_eraseIdx, List.length_eraseIdx, if_pos hh]
  have : (c < a.edges.length - 1) = (up h c < a.edges.length) := by
    apply propext; unfold up; split <;> omega
  simp only [this]

theorem same_eraseC {a b a' b' : Kernel} {h : Nat} (s : SameDefs a b) (pa : EraseC a a' h) (pb : EraseC b b' h)
    (hh : h < a.cells.length) : SameDefs a' b' := by
  refine ⟨by rw [pa.nV, pb.nV, s.nV], by rw [pa.edges, pb.edges, s.nE], by rw [pa.faces, pb.faces, s.nF],
    by rw [pa.cells, pb.cells, List.length_eraseIdx, List.length_eraseIdx, s.nC],
    by rw [pa.vDel, pb.vDel, s.vDel], by rw [pa.eDel, pb.eDel, s.eDel], by rw [pa.fDel, pb.fDel, s.fDel],
    by rw [pa.cDel, pb.cDel, s.cDel], by rw [pa.nDelV, pb.nDelV, s.nDelV], by rw [pa.nDelE, pb.nDelE, s.nDelE],
    by rw [pa.nDelF, pb.nDelF, s.nDelF], by rw [pa.nDelC, pb.nDelC, s.nDelC], by rw [pa.deferred, pb.deferred, s.deferred],
    by rw [pa.fast, pb.fast, s.fast], by rw [pa.props, pb.props, s.props], ?_, ?_, ?_⟩
  · intro e hl
    rw [liveE_of_eq pa.edges pa.eDel] at hl
    rw [edgeAt_of_eq pa.edges, edgeAt_of_eq pb.edges]; exact s.edgeAt e hl
  · intro f hl
    rw [liveF_of_eq pa.faces pa.fDel] at hl
    rw [faceAt_of_eq pa.faces, faceAt_of_eq pb.faces]; exact s.faceAt f hl
  · intro c hl
    rw [liveC_eraseIdx pa.cells pa.cDel hh] at hl
    unfold cellAt; rw [pa.cells, pb.cells, getD_eraseIdx, getD_eraseIdx]
    exact s.cellAt _ hl

/-- erase face slot `h`; every live cell definition is renamed by `g` -/
structure EraseF (a a' : Kernel) (h : Nat) (g : List Nat → List Nat) : Prop where
  nV : a'.nV = a.nV
  edges : a'.edges = a.edges
  faces : a'.faces = a.faces.eraseIdx h
  nC : a'.cells.length = a.cells.length
  cellAt : ∀ c, a.liveC c = true → a'.cellAt c = g (a.cellAt c)
  vDel : a'.vDel = a.vDel
  eDel : a'.eDel = a.eDel
  fDel : a'.fDel = a.fDel.eraseIdx h
  cDel : a'.cDel = a.cDel
  nDelV : a'.nDelV = a.nDelV
  nDelE : a'.nDelE = a.nDelE
  nDelF : a'.nDelF = a.nDelF
  nDelC : a'.nDelC = a.nDelC
  deferred : a'.deferred = a.deferred
  fast : a'.fast = a.fast
  props : a'.props = faceDeleted a.props h

theorem same_eraseF {a b a' b' : Kernel} {h : Nat} {g : List Nat → List Nat} (s : SameDefs a b)
    (pa : EraseF a a' h g) (pb : EraseF b b' h g) (hh : h < a.faces.length) : SameDefs a' b' := by
  refine ⟨by rw [pa.nV, pb.nV, s.nV], by rw [pa.edges, pb.edges, s.nE],
    by rw [pa.faces, pb.faces, List.length_eraseIdx, List.length_eraseIdx, s.nF], by rw [pa.nC, pb.nC, s.nC],
    by rw [pa.vDel, pb.vDel, s.vDel], by rw [pa.eDel, pb.eDel, s.eDel], by rw [pa.fDel, pb.fDel, s.fDel],
    by rw [pa.cDel, pb.cDel, s.cDel], by rw [pa.nDelV, pb.nDelV, s.nDelV], by rw [pa.nDelE, pb.nDelE, s.nDelE],
    by rw [pa.nDelF, pb.nDelF, s.nDelF], by rw [pa.nDelC, pb.nDelC, s.nDelC], by rw [pa.deferred, pb.deferred, s.deferred],
    by rw [pa.fast, pb.fast, s.fast], by rw [pa.props, pb.props, s.props], ?_, ?_, ?_⟩
  · intro e hl
    rw [liveE_of_eq pa.edges pa.eDel] at hl
    rw [edgeAt_of_eq pa.edges, edgeAt_of_eq pb.edges]; exact s.edgeAt e hl
  · intro f hl
    rw [liveF_eraseIdx pa.faces pa.fDel hh] at hl
    unfold faceAt; rw [pa.faces, pb.faces, getD_eraseIdx, getD_eraseIdx]
    exact s.faceAt _ hl
  · intro c hl
    rw [liveC_of_len pa.nC pa.cDel] at hl
    rw [pa.cellAt c hl, pb.cellAt c (by rw [← s.liveC]; exact hl), s.cellAt c hl]

structure EraseE (a a' : Kernel) (h : Nat) (g : List Nat → List Nat) : Prop where
  nV : a'.nV = a.nV
  edges : a'.edges = a.edges.eraseIdx h
  nF : a'.faces.length = a.faces.length
  faceAt : ∀ f, a.liveF f = true → a'.faceAt f = g (a.faceAt f)
  cells : a'.cells = a.cells
  vDel : a'.vDel = a.vDel
  eDel : a'.eDel = a.eDel.eraseIdx h
  fDel : a'.fDel = a.fDel
  cDel : a'.cDel = a.cDel
  nDelV : a'.nDelV = a.nDelV
  nDelE : a'.nDelE = a.nDelE
  nDelF : a'.nDelF = a.nDelF
  nDelC : a'.nDelC = a.nDelC
  deferred : a'.deferred = a.deferred
  fast : a'.fast = a.fast
  props : a'.props = edgeDeleted a.props h

theorem same_eraseE {a b a' b' : Kernel} {h : Nat} {g : List Nat → List Nat} (s : SameDefs a b)
    (pa : EraseE a a' h g) (pb : EraseE b b' h g) (hh : h < a.edges.length) : SameDefs a' b' := by
  refine ⟨by rw [pa.nV, pb.nV, s.nV],
    by rw [pa.edges, pb.edges, List.length_eraseIdx, List.length_eraseIdx, s.nE], by rw [pa.nF, pb.nF, s.nF],
    by rw [pa.cells, pb.cells, s.nC],
    by rw [pa.vDel, pb.vDel, s.vDel], by rw [pa.eDel, pb.eDel, s.eDel], by rw [pa.fDel, pb.fDel, s.fDel],
    by rw [pa.cDel, pb.cDel, s.cDel], by rw [pa.nDelV, pb.nDelV, s.nDelV], by rw [pa.nDelE, pb.nDelE, s.nDelE],
    by rw [pa.nDelF, pb.nDelF, s.nDelF], by rw [pa.nDelC, pb.nDelC, s.nDelC], by rw [pa.deferred, pb.deferred, s.deferred],
    by rw [pa.fast, pb.fast, s.fast], by rw [pa.props, pb.props, s.props], ?_, ?_, ?_⟩
  · intro e hl
    rw [liveE_eraseIdx pa.edges pa.eDel hh] at hl
    unfold edgeAt; rw [pa.edges, pb.edges, getD_eraseIdx, getD_eraseIdx]
    exact s.edgeAt _ hl
  · intro f hl
    rw [liveF_of_len pa.nF pa.fDel] at hl
    rw [pa.faceAt f hl, pb.faceAt f (by rw [← s.liveF]; exact hl), s.faceAt f hl]
  · intro c hl
    rw [liveC_of_eq pa.cells pa.cDel] at hl
    rw [cellAt_of_eq pa.cells, cellAt_of_eq pb.cells]; exact s.cellAt c hl

structure EraseV (a a' : Kernel) (h : Nat) (g : Nat × Nat → Nat × Nat) : Prop where
  nV : a'.nV = a.nV - 1
  nE : a'.edges.length = a.edges.length
  edgeAt : ∀ e, a.liveE e = true → a'.edgeAt e = g (a.edgeAt e)
  faces : a'.faces = a.faces
  cells : a'.cells = a.cells
  vDel : a'.vDel = a.vDel.eraseIdx h
  eDel : a'.eDel = a.eDel
  fDel : a'.fDel = a.fDel
  cDel : a'.cDel = a.cDel
  nDelV : a'.nDelV = a.nDelV
  nDelE : a'.nDelE = a.nDelE
  nDelF : a'.nDelF = a.nDelF
  nDelC : a'.nDelC = a.nDelC
  deferred : a'.deferred = a.deferred
  fast : a'.fast = a.fast
  props : a'.props = vertexDeleted a.props h

theorem same_eraseV {a b a' b' : Kernel} {h : Nat} {g : Nat × Nat → Nat × Nat} (s : SameDefs a b)
    (pa : EraseV a a' h g) (pb : EraseV b b' h g) : SameDefs a' b' := by
  refine ⟨by rw [pa.nV, pb.nV, s.nV], by rw [pa.nE, pb.nE, s.nE], by rw [pa.faces, pb.faces, s.nF],
    by rw [pa.cells, pb.cells, s.nC],
    by rw [pa.vDel, pb.vDel, s.vDel], by rw [pa.eDel, pb.eDel, s.eDel], by rw [pa.fDel, pb.fDel, s.fDel],
    by rw [pa.cDel, pb.cDel, s.cDel], by rw [pa.nDelV, pb.nDelV, s.nDelV], by rw [pa.nDelE, pb.nDelE, s.nDelE],
    by rw [pa.nDelF, pb.nDelF, s.nDelF], by rw [pa.nDelC, pb.nDelC, s.nDelC], by rw [pa.deferred, pb.deferred, s.deferred],
    by rw [pa.fast, pb.fast, s.fast], by rw [pa.props, pb.props, s.props], ?_, ?_, ?_⟩
  · intro e hl
    rw [liveE_of_len pa.nE pa.eDel] at hl
    rw [pa.edgeAt e hl, pb.edgeAt e (by rw [← s.liveE]; exact hl), s.edgeAt e hl]
  · intro f hl
    rw [liveF_of_eq pa.faces pa.fDel] at hl
    rw [faceAt_of_eq pa.faces, faceAt_of_eq pb.faces]; exact s.faceAt f hl
  · intro c hl
    rw [liveC_of_eq pa.cells pa.cDel] at hl
    rw [cellAt_of_eq pa.cells, cellAt_of_eq pb.cells]; exact s.cellAt c hl

/-! ### a sweep of `collect_garbage`, two runs in lockstep -/

theorem pair_sweep (P : Nat → Kernel → Prop) (isDel : Kernel → Nat → Bool) (unflag core : Kernel → Nat → Kernel)
    (hP : ∀ m k, P (m + 1) k → P m (if isDel k m then core (unflag k m) m else k))
    (hR : ∀ m k1 k2, P (m + 1) k1 → P (m + 1) k2 → SameDefs k1 k2 →
      SameDefs (if isDel k1 m then core (unflag k1 m) m else k1) (if isDel k2 m then core (unflag k2 m) m else k2)) :
    ∀ n k1 k2, P n k1 → P n k2 → SameDefs k1 k2 →
      SameDefs (gcSweep k1 n isDel unflag core) (gcSweep k2 n isDel unflag core) := by
  intro n
  induction n with
  | zero => intro k1 k2 _ _ s; simpa [gcSweep] using s
  | succ n ih =>
    intro k1 k2 p1 p2 s
    have e : ∀ k, gcSweep k (n + 1) isDel unflag core =
        gcSweep (if isDel k n then core (unflag k n) n else k) n isDel unflag core := by
      intro k
      unfold gcSweep
      rw [List.range_succ, List.reverse_append]
      simp
    rw [e k1, e k2]
    exact ih _ _ (hP n k1 p1) (hP n k2 p2) (hR n k1 k2 p1 p2 s)

/-! ### fast mode: one flagged step of each sweep -/

theorem same_gcStepC {k1 k2 : Kernel} (s : SameDefs k1 k2) (i1 : FastGCInv k1) (i2 : FastGCInv k2) {m : Nat}
    (hm : m < k1.nC) : SameDefs (deleteCellCore (unflagC k1 m) m) (deleteCellCore (unflagC k2 m) m) := by
  have e0 : ∀ k : Kernel, FastGCInv k → m < k.nC → deleteCellCore (unflagC k m) m =
      ((unflagC (k.swapCell m (k.nC - 1)) (k.nC - 1)).unlinkCell (k.nC - 1)).eraseCell (k.nC - 1) ∧
      EraseC (k.swapCell m (k.nC - 1))
        (((unflagC (k.swapCell m (k.nC - 1)) (k.nC - 1)).unlinkCell (k.nC - 1)).eraseCell (k.nC - 1)) (k.nC - 1) := by
    intro k hi hm
    have hlC := hi.wf.len.cDel
    constructor
    · rw [deleteCellCore_fast_eq m (by simpa [unflagC] using hi.imm) (by simpa [unflagC] using hi.fast)]
      have : (unflagC k m).nC = k.nC := rfl
      rw [this, unflagC_swapCell k (by rw [hlC]; exact hm) (by rw [hlC]; omega)]
    · constructor <;> simp [unflagC, List.eraseIdx_set_eq]
  have hm2 : m < k2.nC := by unfold Kernel.nC at *; rw [← s.nC]; exact hm
  have hn : k2.nC = k1.nC := by unfold Kernel.nC; exact s.nC.symm
  obtain ⟨a1, a2⟩ := e0 k1 i1 hm
  obtain ⟨b1, b2⟩ := e0 k2 i2 hm2
  rw [a1, b1]
  rw [hn] at b2 ⊢
  refine same_eraseC (same_swapCell s i1.wf hm (by omega)) a2 b2 ?_
  rw [swapCell_cells_eq, length_swapAt]; unfold Kernel.nC at *; omega

theorem same_gcStepF {k1 k2 : Kernel} (s : SameDefs k1 k2) (i1 : FastGCInv k1) (i2 : FastGCInv k2) {m : Nat}
    (hm : m < k1.nF) : SameDefs (deleteFaceCore (unflagF k1 m) m) (deleteFaceCore (unflagF k2 m) m) := by
  have e0 : ∀ k : Kernel, FastGCInv k → m < k.nF → deleteFaceCore (unflagF k m) m =
      ((unflagF (k.swapFace m (k.nF - 1)) (k.nF - 1)).unlinkFace (k.nF - 1)).eraseFace (k.nF - 1) ∧
      EraseF (k.swapFace m (k.nF - 1))
        (((unflagF (k.swapFace m (k.nF - 1)) (k.nF - 1)).unlinkFace (k.nF - 1)).eraseFace (k.nF - 1)) (k.nF - 1) id := by
    intro k hi hm
    have hlF := hi.wf.len.fDel
    have hfast : ((unflagF (k.swapFace m (k.nF - 1)) (k.nF - 1)).unlinkFace (k.nF - 1)).fast = true := by
      simpa [unflagF] using hi.fast
    have hcells : (((unflagF (k.swapFace m (k.nF - 1)) (k.nF - 1)).unlinkFace (k.nF - 1)).eraseFace (k.nF - 1)).cells =
        (k.swapFace m (k.nF - 1)).cells := by rw [eraseFace_cells_fast _ _ hfast]; simp [unflagF]
    constructor
    · rw [deleteFaceCore_fast_eq m (by simpa [unflagF] using hi.imm) (by simpa [unflagF] using hi.fast)]
      have : (unflagF k m).nF = k.nF := rfl
      rw [this, unflagF_swapFace k (by rw [hlF]; exact hm) (by rw [hlF]; omega)]
    · refine ⟨?_, ?_, ?_, by rw [hcells], fun c _ => by unfold cellAt; rw [hcells]; rfl, ?_, ?_, ?_, ?_, ?_, ?_, ?_, ?_, ?_, ?_, ?_⟩ <;>
        simp [unflagF, List.eraseIdx_set_eq]
  have hm2 : m < k2.nF := by unfold Kernel.nF at *; rw [← s.nF]; exact hm
  have hn : k2.nF = k1.nF := by unfold Kernel.nF; exact s.nF.symm
  obtain ⟨a1, a2⟩ := e0 k1 i1 hm
  obtain ⟨b1, b2⟩ := e0 k2 i2 hm2
  rw [a1, b1]
  rw [hn] at b2 ⊢
  refine same_eraseF (same_swapFace s i1.wf i2.wf i1.one i2.one hm (by omega)) a2 b2 ?_
  rw [swapFace_faces_length]; unfold Kernel.nF at *; omega

theorem same_gcStepE {k1 k2 : Kernel} (s : SameDefs k1 k2) (i1 : FastGCInv k1) (i2 : FastGCInv k2) {m : Nat}
    (hm : m < k1.nE) : SameDefs (deleteEdgeCore (unflagE k1 m) m) (deleteEdgeCore (unflagE k2 m) m) := by
  have e0 : ∀ k : Kernel, FastGCInv k → m < k.nE → deleteEdgeCore (unflagE k m) m =
      ((unflagE (k.swapEdge m (k.nE - 1)) (k.nE - 1)).unlinkEdge (k.nE - 1)).eraseEdge (k.nE - 1) ∧
      EraseE (k.swapEdge m (k.nE - 1))
        (((unflagE (k.swapEdge m (k.nE - 1)) (k.nE - 1)).unlinkEdge (k.nE - 1)).eraseEdge (k.nE - 1)) (k.nE - 1) id := by
    intro k hi hm
    have hlE := hi.wf.len.eDel
    have hfast : ((unflagE (k.swapEdge m (k.nE - 1)) (k.nE - 1)).unlinkEdge (k.nE - 1)).fast = true := by
      simpa [unflagE] using hi.fast
    have hfaces : (((unflagE (k.swapEdge m (k.nE - 1)) (k.nE - 1)).unlinkEdge (k.nE - 1)).eraseEdge (k.nE - 1)).faces =
        (k.swapEdge m (k.nE - 1)).faces := by rw [eraseEdge_faces_fast _ _ hfast]; simp [unflagE]
    constructor
    · rw [deleteEdgeCore_fast_eq m (by simpa [unflagE] using hi.imm) (by simpa [unflagE] using hi.fast)]
      have : (unflagE k m).nE = k.nE := rfl
      rw [this, unflagE_swapEdge k (by rw [hlE]; exact hm) (by rw [hlE]; omega)]
    · refine ⟨?_, ?_, by rw [hfaces], fun c _ => by unfold faceAt; rw [hfaces]; rfl, ?_, ?_, ?_, ?_, ?_, ?_, ?_, ?_, ?_, ?_, ?_, ?_⟩ <;>
        simp [unflagE, List.eraseIdx_set_eq]
  have hm2 : m < k2.nE := by unfold Kernel.nE at *; rw [← s.nE]; exact hm
  have hn : k2.nE = k1.nE := by unfold Kernel.nE; exact s.nE.symm
  obtain ⟨a1, a2⟩ := e0 k1 i1 hm
  obtain ⟨b1, b2⟩ := e0 k2 i2 hm2
  rw [a1, b1]
  rw [hn] at b2 ⊢
  refine same_eraseE (same_swapEdge s i1.wf i2.wf hm (by omega)) a2 b2 ?_
  rw [swapEdge_edges_length]; unfold Kernel.nE at *; omega

theorem same_gcStepV {k1 k2 : Kernel} (s : SameDefs k1 k2) (i1 : FastGCInv k1) (i2 : FastGCInv k2) {m : Nat}
    (hm : m < k1.nV) (hdel : k1.vDeleted m = true) (hnfE : NoFlag k1.eDel) (hR1 : VRef k1) (hR2 : VRef k2) :
    SameDefs (deleteVertexCore (unflagV k1 m) m) (deleteVertexCore (unflagV k2 m) m) := by
  have e0 : ∀ k : Kernel, FastGCInv k → m < k.nV → k.vDeleted m = true → NoFlag k.eDel → VRef k →
      deleteVertexCore (unflagV k m) m = (unflagV (k.swapVertex m (k.nV - 1)) (k.nV - 1)).eraseVertex (k.nV - 1) ∧
      EraseV (k.swapVertex m (k.nV - 1)) ((unflagV (k.swapVertex m (k.nV - 1)) (k.nV - 1)).eraseVertex (k.nV - 1))
        (k.nV - 1) id := by
    intro k hi hm hdel hnf hR
    have hlV := hi.wf.len.vDel
    have hlast : k.nV - 1 < k.nV := by omega
    have hno0 : ∀ e ∈ k.edges, e.1 ≠ m ∧ e.2 ≠ m := by
      intro e he
      have := hR e he
      refine ⟨fun h => ?_, fun h => ?_⟩
      · have t := this.1; rw [h, hdel] at t; cases t
      · have t := this.2; rw [h, hdel] at t; cases t
    have hw1 := wf_swapVertex hm hlast hi.wf
    have hno1 := swapVertex_unused hm hlast hi.wf.cache.v (fun _ => hnf) hno0
    have hedges := eraseLastVertex_edges (k := unflagV (k.swapVertex m (k.nV - 1)) (k.nV - 1))
      (by simp [unflagV]; omega) (wf_unflagV _ hw1) (by simpa [unflagV] using hno1)
    have hnv : (unflagV (k.swapVertex m (k.nV - 1)) (k.nV - 1)).nV = k.nV := by simp [unflagV]
    rw [hnv] at hedges
    have hedges' : ((unflagV (k.swapVertex m (k.nV - 1)) (k.nV - 1)).eraseVertex (k.nV - 1)).edges =
        (k.swapVertex m (k.nV - 1)).edges := by rw [hedges]; rfl
    constructor
    · rw [deleteVertexCore_fast_eq m (by simpa [unflagV] using hi.imm) (by simpa [unflagV] using hi.fast)]
      have : (unflagV k m).nV = k.nV := rfl
      rw [this, unflagV_swapVertex k (by rw [hlV]; exact hm) (by rw [hlV]; omega)]
    · refine ⟨?_, by rw [hedges'], fun c _ => by unfold edgeAt; rw [hedges']; rfl, ?_, ?_, ?_, ?_, ?_, ?_, ?_, ?_, ?_, ?_, ?_, ?_, ?_⟩ <;>
        simp [unflagV, List.eraseIdx_set_eq]
  have hm2 : m < k2.nV := by rw [← s.nV]; exact hm
  have hdel2 : k2.vDeleted m = true := by unfold vDeleted at *; rw [← s.vDel]; exact hdel
  obtain ⟨a1, a2⟩ := e0 k1 i1 hm hdel hnfE hR1
  obtain ⟨b1, b2⟩ := e0 k2 i2 hm2 hdel2 (by rw [← s.eDel]; exact hnfE) hR2
  rw [a1, b1]
  rw [← s.nV] at b2 ⊢
  exact same_eraseV (same_swapVertex s i1.wf i2.wf hm (by omega)) a2 b2

/-! ### fast mode: the four sweeps and `collect_garbage` -/

def PC (m : Nat) (k : Kernel) : Prop :=
  FastGCInv k ∧ m ≤ k.nC ∧ (∀ j, m ≤ j → k.cDeleted j = false) ∧ UpC k ∧ UpF k ∧ UpE k
def PF (m : Nat) (k : Kernel) : Prop :=
  FastGCInv k ∧ m ≤ k.nF ∧ (∀ j, m ≤ j → k.fDeleted j = false) ∧ NoFlag k.cDel ∧ UpC k ∧ UpF k ∧ UpE k
def PE (m : Nat) (k : Kernel) : Prop :=
  FastGCInv k ∧ m ≤ k.nE ∧ (∀ j, m ≤ j → k.eDeleted j = false) ∧ NoFlag k.cDel ∧ NoFlag k.fDel ∧ UpF k ∧ UpE k
def PV (m : Nat) (k : Kernel) : Prop :=
  FastGCInv k ∧ m ≤ k.nV ∧ (∀ j, m ≤ j → k.vDeleted j = false) ∧ NoFlag k.cDel ∧ NoFlag k.fDel ∧ NoFlag k.eDel ∧ VRef k

theorem pc_step (m : Nat) (k : Kernel) (h : PC (m + 1) k) :
    PC m (if k.cDeleted m then deleteCellCore ({ k with cDel := k.cDel.set m false }) m else k) := by
  obtain ⟨h1, h2, h3, h4, h5, h6⟩ := h
  by_cases hd : k.cDeleted m = true
  · rw [if_pos hd]; exact gcStepC h1 (by omega) hd (fun j hj => h3 j (by omega)) h4 h5 h6
  · rw [if_neg hd]
    refine ⟨h1, by omega, ?_, h4, h5, h6⟩
    intro j hj
    by_cases e : j = m
    · subst e; simpa using hd
    · exact h3 j (by omega)

theorem pf_step (m : Nat) (k : Kernel) (h : PF (m + 1) k) :
    PF m (if k.fDeleted m then deleteFaceCore ({ k with fDel := k.fDel.set m false }) m else k) := by
  obtain ⟨h1, h2, h3, h4, h5, h6, h7⟩ := h
  by_cases hd : k.fDeleted m = true
  · rw [if_pos hd]; exact gcStepF h1 (by omega) hd (fun j hj => h3 j (by omega)) h4 h5 h6 h7
  · rw [if_neg hd]
    refine ⟨h1, by omega, ?_, h4, h5, h6, h7⟩
    intro j hj
    by_cases e : j = m
    · subst e; simpa using hd
    · exact h3 j (by omega)

theorem pe_step (m : Nat) (k : Kernel) (h : PE (m + 1) k) :
    PE m (if k.eDeleted m then deleteEdgeCore ({ k with eDel := k.eDel.set m false }) m else k) := by
  obtain ⟨h1, h2, h3, h4, h5, h6, h7⟩ := h
  by_cases hd : k.eDeleted m = true
  · rw [if_pos hd]; exact gcStepE h1 (by omega) hd (fun j hj => h3 j (by omega)) h4 h5 h6 h7
  · rw [if_neg hd]
    refine ⟨h1, by omega, ?_, h4, h5, h6, h7⟩
    intro j hj
    by_cases e : j = m
    · subst e; simpa using hd
    · exact h3 j (by omega)

theorem pv_step (m : Nat) (k : Kernel) (h : PV (m + 1) k) :
    PV m (if k.vDeleted m then deleteVertexCore ({ k with vDel := k.vDel.set m false }) m else k) := by
  obtain ⟨h1, h2, h3, h4, h5, h6, h7⟩ := h
  by_cases hd : k.vDeleted m = true
  · rw [if_pos hd]; exact gcStepV h1 (by omega) hd (fun j hj => h3 j (by omega)) h4 h5 h6 h7
  · rw [if_neg hd]
    refine ⟨h1, by omega, ?_, h4, h5, h6, h7⟩
    intro j hj
    by_cases e : j = m
    · subst e; simpa using hd
    · exact h3 j (by omega)

theorem same_gcCells_fast {k1 k2 : Kernel} (s : SameDefs k1 k2) (p1 : PC k1.nC k1) (p2 : PC k2.nC k2) :
    SameDefs (gcCells k1) (gcCells k2) := by
  have hn : k2.nC = k1.nC := by unfold Kernel.nC; exact s.nC.symm
  rw [hn] at p2
  have := pair_sweep PC cDeleted (fun k i => { k with cDel := k.cDel.set i false }) deleteCellCore pc_step
    (by
      intro m a b pa pb sab
      have hd : b.cDeleted m = a.cDeleted m := by unfold cDeleted; rw [sab.cDel]
      rw [hd]
      by_cases h : a.cDeleted m = true
      · rw [if_pos h, if_pos h]; exact same_gcStepC sab pa.1 pb.1 (by have := pa.2.1; omega)
      · rw [if_neg h, if_neg h]; exact sab) k1.nC k1 k2 p1 p2 s
  unfold gcCells
  rw [hn]
  exact { this with nDelC := rfl }

theorem same_gcFaces_fast {k1 k2 : Kernel} (s : SameDefs k1 k2) (p1 : PF k1.nF k1) (p2 : PF k2.nF k2) :
    SameDefs (gcFaces k1) (gcFaces k2) := by
  have hn : k2.nF = k1.nF := by unfold Kernel.nF; exact s.nF.symm
  rw [hn] at p2
  have := pair_sweep PF fDeleted (fun k i => { k with fDel := k.fDel.set i false }) deleteFaceCore pf_step
    (by
      intro m a b pa pb sab
      have hd : b.fDeleted m = a.fDeleted m := by unfold fDeleted; rw [sab.fDel]
      rw [hd]
      by_cases h : a.fDeleted m = true
      · rw [if_pos h, if_pos h]; exact same_gcStepF sab pa.1 pb.1 (by have := pa.2.1; omega)
      · rw [if_neg h, if_neg h]; exact sab) k1.nF k1 k2 p1 p2 s
  unfold gcFaces
  rw [hn]
  exact { this with nDelF := rfl }

theorem same_gcEdges_fast {k1 k2 : Kernel} (s : SameDefs k1 k2) (p1 : PE k1.nE k1) (p2 : PE k2.nE k2) :
    SameDefs (gcEdges k1) (gcEdges k2) := by
  have hn : k2.nE = k1.nE := by unfold Kernel.nE; exact s.nE.symm
  rw [hn] at p2
  have := pair_sweep PE eDeleted (fun k i => { k with eDel := k.eDel.set i false }) deleteEdgeCore pe_step
    (by
      intro m a b pa pb sab
      have hd : b.eDeleted m = a.eDeleted m := by unfold eDeleted; rw [sab.eDel]
      rw [hd]
      by_cases h : a.eDeleted m = true
      · rw [if_pos h, if_pos h]; exact same_gcStepE sab pa.1 pb.1 (by have := pa.2.1; omega)
      · rw [if_neg h, if_neg h]; exact sab) k1.nE k1 k2 p1 p2 s
  unfold gcEdges
  rw [hn]
  exact { this with nDelE := rfl }

theorem same_gcVerts_fast {k1 k2 : Kernel} (s : SameDefs k1 k2) (p1 : PV k1.nV k1) (p2 : PV k2.nV k2) :
    SameDefs (gcVerts k1) (gcVerts k2) := by
  have hn : k2.nV = k1.nV := s.nV.symm
  rw [hn] at p2
  have := pair_sweep PV vDeleted (fun k i => { k with vDel := k.vDel.set i false }) deleteVertexCore pv_step
    (by
      intro m a b pa pb sab
      have hd : b.vDeleted m = a.vDeleted m := by unfold vDeleted; rw [sab.vDel]
      rw [hd]
      by_cases h : a.vDeleted m = true
      · rw [if_pos h, if_pos h]
        exact same_gcStepV sab pa.1 pb.1 (by have := pa.2.1; omega) h pa.2.2.2.2.2.1 pa.2.2.2.2.2.2 pb.2.2.2.2.2.2
      · rw [if_neg h, if_neg h]; exact sab) k1.nV k1 k2 p1 p2 s
  unfold gcVerts
  rw [hn]
  exact { this with nDelV := rfl }

theorem getD_false_above {l : List Bool} {n : Nat} (hl : l.length = n) : ∀ j, n ≤ j → l.getD j false = false :=
  fun j hj => getD_of_ge _ _ _ (by rw [hl]; exact hj)

/-- the four sweeps in fast mode, two runs in lockstep -/
theorem same_gcAll_fast {k1 k2 : Kernel} (s : SameDefs k1 k2) (i1 : FastGCInv k1) (i2 : FastGCInv k2)
    (c1 : Closed k1) (c2 : Closed k2) :
    SameDefs (gcVerts (gcEdges (gcFaces (gcCells k1)))) (gcVerts (gcEdges (gcFaces (gcCells k2)))) := by
  obtain ⟨hC1, hF1, hE1⟩ := (closed_iff_up k1).mp c1
  obtain ⟨hC2, hF2, hE2⟩ := (closed_iff_up k2).mp c2
  have sC := same_gcCells_fast s ⟨i1, Nat.le_refl _, getD_false_above i1.wf.len.cDel, hC1, hF1, hE1⟩
    ⟨i2, Nat.le_refl _, getD_false_above i2.wf.len.cDel, hC2, hF2, hE2⟩
  obtain ⟨a1, a2, a3, a4, a5⟩ := gcCells_fast i1 hC1 hF1 hE1
  obtain ⟨b1, b2, b3, b4, b5⟩ := gcCells_fast i2 hC2 hF2 hE2
  generalize gcCells k1 = x1 at sC a1 a2 a3 a4 a5 ⊢
  generalize gcCells k2 = x2 at sC b1 b2 b3 b4 b5 ⊢
  have sF := same_gcFaces_fast sC ⟨a1, Nat.le_refl _, getD_false_above a1.wf.len.fDel, a2, a3, a4, a5⟩
    ⟨b1, Nat.le_refl _, getD_false_above b1.wf.len.fDel, b2, b3, b4, b5⟩
  obtain ⟨d1, d2, d3, d4, d5⟩ := gcFaces_fast a1 a2 a3 a4 a5
  obtain ⟨e1, e2, e3, e4, e5⟩ := gcFaces_fast b1 b2 b3 b4 b5
  generalize gcFaces x1 = y1 at sF d1 d2 d3 d4 d5 ⊢
  generalize gcFaces x2 = y2 at sF e1 e2 e3 e4 e5 ⊢
  have sE := same_gcEdges_fast sF ⟨d1, Nat.le_refl _, getD_false_above d1.wf.len.eDel, d2, d3, d4, d5⟩
    ⟨e1, Nat.le_refl _, getD_false_above e1.wf.len.eDel, e2, e3, e4, e5⟩
  obtain ⟨f1, f2, f3, f4, f5⟩ := gcEdges_fast d1 d2 d3 d4 d5
  obtain ⟨g1, g2, g3, g4, g5⟩ := gcEdges_fast e1 e2 e3 e4 e5
  generalize gcEdges y1 = z1 at sE f1 f2 f3 f4 f5 ⊢
  generalize gcEdges y2 = z2 at sE g1 g2 g3 g4 g5 ⊢
  have vref : ∀ z : Kernel, NoFlag z.eDel → UpE z → VRef z := by
    intro z hn hE e he
    obtain ⟨i, hil, rfl⟩ := k3_mem_getD (0, 0) he
    exact hE i hil (by unfold eDeleted; exact hn.getD i)
  exact same_gcVerts_fast sE ⟨f1, Nat.le_refl _, getD_false_above f1.wf.len.vDel, f2, f3, f4, vref z1 f4 f5⟩
    ⟨g1, Nat.le_refl _, getD_false_above g1.wf.len.vDel, g2, g3, g4, vref z2 g4 g5⟩

/-! ### index-shifting mode: the invariants of K4's sweeps as step functions, and the relational steps -/

def QC (m : Nat) (k : Kernel) : Prop := GCInv k ∧ m ≤ k.nC ∧ ∀ c, m ≤ c → c < k.nC → k.cDeleted c = false
def QF (m : Nat) (k : Kernel) : Prop :=
  GCInv k ∧ CellsLive k ∧ m ≤ k.nF ∧ ∀ c, m ≤ c → c < k.nF → k.fDeleted c = false
def QE (m : Nat) (k : Kernel) : Prop :=
  GCInv k ∧ CellsLive k ∧ FacesLive k ∧ m ≤ k.nE ∧ ∀ c, m ≤ c → c < k.nE → k.eDeleted c = false
def QV (m : Nat) (k : Kernel) : Prop :=
  GCInv k ∧ CellsLive k ∧ FacesLive k ∧ EdgesLive k ∧ m ≤ k.nV ∧ ∀ c, m ≤ c → c < k.nV → k.vDeleted c = false

theorem qc_step (m : Nat) (k : Kernel) (h : QC (m + 1) k) :
    QC m (if k.cDeleted m then deleteCellCore ({ k with cDel := k.cDel.set m false }) m else k) := by
  obtain ⟨hi, hm, hl⟩ := h
  by_cases hd : k.cDeleted m = true
  · simp only [hd, if_true]
    obtain ⟨k3, e3, heq⟩ := gcCellStep (h := m) hi.deferred hi.fast hi.wf hd
    rw [heq]
    have hi3 := GCInv.of_fanEq e3 hi
    have hm3 : m < k3.nC := by rw [fanEq_nC e3]; omega
    refine ⟨gcInv_eraseCell hi3 hm3 (by rw [fanEq_cDeleted e3]; exact hd), ?_, ?_⟩
    · rw [eraseCell_nC k3 m hm3, fanEq_nC e3]; omega
    · intro c h1 h2
      rw [eraseCell_nC k3 m hm3, fanEq_nC e3] at h2
      rw [eraseCell_cDeleted, fanEq_cDeleted e3]
      have : up m c = c + 1 := by unfold up; split <;> omega
      rw [this]; exact hl (c + 1) (by omega) (by omega)
  · simp only [hd, Bool.false_eq_true, if_false]
    refine ⟨hi, by omega, fun c h1 h2 => ?_⟩
    rcases Nat.eq_or_lt_of_le h1 with e | e
    · subst e; simpa using hd
    · exact hl c e h2

theorem qf_step (m : Nat) (k : Kernel) (h : QF (m + 1) k) :
    QF m (if k.fDeleted m then deleteFaceCore ({ k with fDel := k.fDel.set m false }) m else k) := by
  obtain ⟨hi, hc, hm, hl⟩ := h
  by_cases hd : k.fDeleted m = true
  · simp only [hd, if_true]
    obtain ⟨k3, e3, heq⟩ := gcFaceStep (h := m) hi.deferred hi.fast hi.wf hd
    rw [heq]
    have hi3 := GCInv.of_fanEq e3 hi
    have hm3 : m < k3.nF := by rw [fanEq_nF e3]; omega
    have hc3 : CellsLive k3 := cellsLive_of_eq (by rw [e3.cells]) e3.cDel hc
    have ok := eraseFaceOK_of_gc hi3 hm3 (by rw [fanEq_fDeleted e3]; exact hd) hc3
    refine ⟨gcInv_eraseFace hi3 ok, ?_, ?_, ?_⟩
    · exact cellsLive_of_eq (by rw [eraseFace_cells ok.fast hi3.wf ok.one ok.cellsLive ok.unref, List.length_map])
        (by simp) hc3
    · rw [eraseFace_nF k3 m hm3, fanEq_nF e3]; omega
    · intro c h1 h2
      rw [eraseFace_nF k3 m hm3, fanEq_nF e3] at h2
      rw [eraseFace_fDeleted, fanEq_fDeleted e3]
      have : up m c = c + 1 := by unfold up; split <;> omega
      rw [this]; exact hl (c + 1) (by omega) (by omega)
  · simp only [hd, Bool.false_eq_true, if_false]
    refine ⟨hi, hc, by omega, fun c h1 h2 => ?_⟩
    rcases Nat.eq_or_lt_of_le h1 with e | e
    · subst e; simpa using hd
    · exact hl c e h2

theorem qe_step (m : Nat) (k : Kernel) (h : QE (m + 1) k) :
    QE m (if k.eDeleted m then deleteEdgeCore ({ k with eDel := k.eDel.set m false }) m else k) := by
  obtain ⟨hi, hc, hfl, hm, hl⟩ := h
  by_cases hd : k.eDeleted m = true
  · simp only [hd, if_true]
    rw [gcEdgeStep (h := m) hi.deferred hi.fast hi.wf hd]
    have hm3 : m < k.nE := by omega
    have ok := eraseEdgeOK_of_gc hi hm3 hd hfl
    refine ⟨gcInv_eraseEdge hi ok, ?_, ?_, ?_, ?_⟩
    · exact cellsLive_of_eq (by simp) (by simp) hc
    · exact facesLive_of_eq (by rw [eraseEdge_faces hi.wf ok, List.length_map]) (by simp) hfl
    · rw [eraseEdge_nE k m hm3]; omega
    · intro c h1 h2
      rw [eraseEdge_nE k m hm3] at h2
      rw [eraseEdge_eDeleted]
      have : up m c = c + 1 := by unfold up; split <;> omega
      rw [this]; exact hl (c + 1) (by omega) (by omega)
  · simp only [hd, Bool.false_eq_true, if_false]
    refine ⟨hi, hc, hfl, by omega, fun c h1 h2 => ?_⟩
    rcases Nat.eq_or_lt_of_le h1 with e | e
    · subst e; simpa using hd
    · exact hl c e h2

theorem qv_step (m : Nat) (k : Kernel) (h : QV (m + 1) k) :
    QV m (if k.vDeleted m then deleteVertexCore ({ k with vDel := k.vDel.set m false }) m else k) := by
  obtain ⟨hi, hc, hfl, hel, hm, hl⟩ := h
  by_cases hd : k.vDeleted m = true
  · simp only [hd, if_true]
    rw [gcVertexStep (h := m) hi.deferred hi.fast]
    have hm3 : m < k.nV := by omega
    have ok := eraseVertexOK_of_gc hi hm3 hd hel
    refine ⟨gcInv_eraseVertex hi ok, ?_, ?_, ?_, ?_, ?_⟩
    · exact cellsLive_of_eq (by simp) (by simp) hc
    · exact facesLive_of_eq (by simp) (by simp) hfl
    · exact edgesLive_of_eq (by rw [eraseVertex_edges hi.wf ok, List.length_map]) (by simp) hel
    · rw [eraseVertex_nV]; omega
    · intro c h1 h2
      rw [eraseVertex_nV] at h2
      rw [eraseVertex_vDeleted]
      have : up m c = c + 1 := by unfold up; split <;> omega
      rw [this]; exact hl (c + 1) (by omega) (by omega)
  · simp only [hd, Bool.false_eq_true, if_false]
    refine ⟨hi, hc, hfl, hel, by omega, fun c h1 h2 => ?_⟩
    rcases Nat.eq_or_lt_of_le h1 with e | e
    · subst e; simpa using hd
    · exact hl c e h2

theorem eraseC_gcStep {k : Kernel} {m : Nat} (h : QC (m + 1) k) (hd : k.cDeleted m = true) :
    EraseC k (deleteCellCore ({ k with cDel := k.cDel.set m false }) m) m := by
  obtain ⟨hi, hm, _⟩ := h
  obtain ⟨k3, e3, heq⟩ := gcCellStep (h := m) hi.deferred hi.fast hi.wf hd
  have hdf : ({ k with cDel := k.cDel.set m false } : Kernel).deferred = false := hi.deferred
  refine ⟨?_, ?_, ?_, ?_, ?_, ?_, ?_, ?_, deleteCellCore_nDelV_imm _ m hdf, deleteCellCore_nDelE_imm _ m hdf,
    deleteCellCore_nDelF_imm _ m hdf, deleteCellCore_nDelC_imm _ m hdf, ?_, ?_, ?_⟩ <;> rw [heq] <;>
    simp [e3.nV, e3.edges, e3.faces, e3.cells, e3.vDel, e3.eDel, e3.fDel, e3.cDel, e3.deferred, e3.fast, e3.props]

theorem eraseF_gcStep {k : Kernel} {m : Nat} (h : QF (m + 1) k) (hd : k.fDeleted m = true) :
    EraseF k (deleteFaceCore ({ k with fDel := k.fDel.set m false }) m) m (·.map (corr2 (2 * m + 1))) := by
  obtain ⟨hi, hc, hm, _⟩ := h
  obtain ⟨k3, e3, heq⟩ := gcFaceStep (h := m) hi.deferred hi.fast hi.wf hd
  have hi3 := GCInv.of_fanEq e3 hi
  have hm3 : m < k3.nF := by rw [fanEq_nF e3]; omega
  have hc3 : CellsLive k3 := cellsLive_of_eq (by rw [e3.cells]) e3.cDel hc
  have ok := eraseFaceOK_of_gc hi3 hm3 (by rw [fanEq_fDeleted e3]; exact hd) hc3
  have hdf : ({ k with fDel := k.fDel.set m false } : Kernel).deferred = false := hi.deferred
  refine ⟨?_, ?_, ?_, ?_, ?_, ?_, ?_, ?_, ?_, deleteFaceCore_nDelV_imm _ m hdf, deleteFaceCore_nDelE_imm _ m hdf,
    deleteFaceCore_nDelF_imm _ m hdf, deleteFaceCore_nDelC_imm _ m hdf, ?_, ?_, ?_⟩
  · rw [heq]; simp [e3.nV]
  · rw [heq]; simp [e3.edges]
  · rw [heq]; simp [e3.faces]
  · rw [heq, eraseFace_cells ok.fast hi3.wf ok.one ok.cellsLive ok.unref, List.length_map, e3.cells]
  · intro c _
    rw [heq, eraseFace_cellAt hi3.wf ok c, cellAt_of_eq e3.cells]
  · rw [heq]; simp [e3.vDel]
  · rw [heq]; simp [e3.eDel]
  · rw [heq]; simp [e3.fDel]
  · rw [heq]; simp [e3.cDel]
  · rw [heq]; simp [e3.deferred]
  · rw [heq]; simp [e3.fast]
  · rw [heq]; simp [e3.props]

theorem eraseE_gcStep {k : Kernel} {m : Nat} (h : QE (m + 1) k) (hd : k.eDeleted m = true) :
    EraseE k (deleteEdgeCore ({ k with eDel := k.eDel.set m false }) m) m (·.map (corr2 (2 * m + 1))) := by
  obtain ⟨hi, hc, hfl, hm, _⟩ := h
  have ok := eraseEdgeOK_of_gc hi (by omega) hd hfl
  rw [gcEdgeStep (h := m) hi.deferred hi.fast hi.wf hd]
  refine ⟨?_, ?_, by rw [eraseEdge_faces hi.wf ok, List.length_map], fun f _ => eraseEdge_faceAt hi.wf ok f,
    ?_, ?_, ?_, ?_, ?_, ?_, ?_, ?_, ?_, ?_, ?_, ?_⟩ <;> simp

theorem eraseV_gcStep {k : Kernel} {m : Nat} (h : QV (m + 1) k) (hd : k.vDeleted m = true) :
    EraseV k (deleteVertexCore ({ k with vDel := k.vDel.set m false }) m) m (fun p => (corr1 m p.1, corr1 m p.2)) := by
  obtain ⟨hi, hc, hfl, hel, hm, _⟩ := h
  have ok := eraseVertexOK_of_gc hi (by omega) hd hel
  rw [gcVertexStep (h := m) hi.deferred hi.fast]
  refine ⟨?_, by rw [eraseVertex_edges hi.wf ok, List.length_map], fun e _ => eraseVertex_edgeAt hi.wf ok e,
    ?_, ?_, ?_, ?_, ?_, ?_, ?_, ?_, ?_, ?_, ?_, ?_, ?_⟩ <;> simp

theorem same_gcCells_shift {k1 k2 : Kernel} (s : SameDefs k1 k2) (p1 : QC k1.nC k1) (p2 : QC k2.nC k2) :
    SameDefs (gcCells k1) (gcCells k2) := by
  have hn : k2.nC = k1.nC := by unfold Kernel.nC; exact s.nC.symm
  rw [hn] at p2
  have := pair_sweep QC cDeleted (fun k i => { k with cDel := k.cDel.set i false }) deleteCellCore qc_step
    (by
      intro m a b pa pb sab
      have hd : b.cDeleted m = a.cDeleted m := by unfold cDeleted; rw [sab.cDel]
      by_cases h : a.cDeleted m = true
      · rw [hd, if_pos h, if_pos h]
        exact same_eraseC sab (eraseC_gcStep pa h) (eraseC_gcStep pb (by rw [hd]; exact h))
          (by have := pa.2.1; unfold Kernel.nC at this; omega)
      · rw [hd, if_neg h, if_neg h]; exact sab) k1.nC k1 k2 p1 p2 s
  unfold gcCells
  rw [hn]
  exact { this with nDelC := rfl }

theorem same_gcFaces_shift {k1 k2 : Kernel} (s : SameDefs k1 k2) (p1 : QF k1.nF k1) (p2 : QF k2.nF k2) :
    SameDefs (gcFaces k1) (gcFaces k2) := by
  have hn : k2.nF = k1.nF := by unfold Kernel.nF; exact s.nF.symm
  rw [hn] at p2
  have := pair_sweep QF fDeleted (fun k i => { k with fDel := k.fDel.set i false }) deleteFaceCore qf_step
    (by
      intro m a b pa pb sab
      have hd : b.fDeleted m = a.fDeleted m := by unfold fDeleted; rw [sab.fDel]
      by_cases h : a.fDeleted m = true
      · rw [hd, if_pos h, if_pos h]
        exact same_eraseF sab (eraseF_gcStep pa h) (eraseF_gcStep pb (by rw [hd]; exact h))
          (by have := pa.2.2.1; unfold Kernel.nF at this; omega)
      · rw [hd, if_neg h, if_neg h]; exact sab) k1.nF k1 k2 p1 p2 s
  unfold gcFaces
  rw [hn]
  exact { this with nDelF := rfl }

theorem same_gcEdges_shift {k1 k2 : Kernel} (s : SameDefs k1 k2) (p1 : QE k1.nE k1) (p2 : QE k2.nE k2) :
    SameDefs (gcEdges k1) (gcEdges k2) := by
  have hn : k2.nE = k1.nE := by unfold Kernel.nE; exact s.nE.symm
  rw [hn] at p2
  have := pair_sweep QE eDeleted (fun k i => { k with eDel := k.eDel.set i false }) deleteEdgeCore qe_step
    (by
      intro m a b pa pb sab
      have hd : b.eDeleted m = a.eDeleted m := by unfold eDeleted; rw [sab.eDel]
      by_cases h : a.eDeleted m = true
      · rw [hd, if_pos h, if_pos h]
        exact same_eraseE sab (eraseE_gcStep pa h) (eraseE_gcStep pb (by rw [hd]; exact h))
          (by have := pa.2.2.2.1; unfold Kernel.nE at this; omega)
      · rw [hd, if_neg h, if_neg h]; exact sab) k1.nE k1 k2 p1 p2 s
  unfold gcEdges
  rw [hn]
  exact { this with nDelE := rfl }

theorem same_gcVerts_shift {k1 k2 : Kernel} (s : SameDefs k1 k2) (p1 : QV k1.nV k1) (p2 : QV k2.nV k2) :
    SameDefs (gcVerts k1) (gcVerts k2) := by
  have hn : k2.nV = k1.nV := s.nV.symm
  rw [hn] at p2
  have := pair_sweep QV vDeleted (fun k i => { k with vDel := k.vDel.set i false }) deleteVertexCore qv_step
    (by
      intro m a b pa pb sab
      have hd : b.vDeleted m = a.vDeleted m := by unfold vDeleted; rw [sab.vDel]
      by_cases h : a.vDeleted m = true
      · rw [hd, if_pos h, if_pos h]
        exact same_eraseV sab (eraseV_gcStep pa h) (eraseV_gcStep pb (by rw [hd]; exact h))
      · rw [hd, if_neg h, if_neg h]; exact sab) k1.nV k1 k2 p1 p2 s
  unfold gcVerts
  rw [hn]
  exact { this with nDelV := rfl }

theorem gcInv_setNDel {k : Kernel} (hi : GCInv k) (a b c d : Nat) :
    GCInv { k with nDelV := a, nDelE := b, nDelF := c, nDelC := d } :=
  gcInv_congr (k := k) rfl rfl rfl rfl rfl rfl rfl rfl rfl rfl rfl rfl rfl rfl rfl rfl rfl hi

/-- the four sweeps in index-shifting mode, two runs in lockstep -/
theorem same_gcAll_shift {k1 k2 : Kernel} (s : SameDefs k1 k2) (i1 : GCInv k1) (i2 : GCInv k2) :
    SameDefs (gcVerts (gcEdges (gcFaces (gcCells k1)))) (gcVerts (gcEdges (gcFaces (gcCells k2)))) := by
  have sC := same_gcCells_shift s ⟨i1, Nat.le_refl _, fun c h1 h2 => by omega⟩ ⟨i2, Nat.le_refl _, fun c h1 h2 => by omega⟩
  have a := gcInv_sweepCells i1
  have b := gcInv_sweepCells i2
  have a1 : GCInv (gcCells k1) := gcInv_setNDel a.1 _ _ _ 0
  have b1 : GCInv (gcCells k2) := gcInv_setNDel b.1 _ _ _ 0
  have a2 : CellsLive (gcCells k1) := cellsLive_of_eq (k := gcSweep k1 k1.nC cDeleted _ deleteCellCore) rfl rfl a.2
  have b2 : CellsLive (gcCells k2) := cellsLive_of_eq (k := gcSweep k2 k2.nC cDeleted _ deleteCellCore) rfl rfl b.2
  generalize gcCells k1 = x1 at sC a1 a2 ⊢
  generalize gcCells k2 = x2 at sC b1 b2 ⊢
  clear a b
  have sF := same_gcFaces_shift sC ⟨a1, a2, Nat.le_refl _, fun c h1 h2 => by omega⟩ ⟨b1, b2, Nat.le_refl _, fun c h1 h2 => by omega⟩
  have a := gcInv_sweepFaces a1 a2
  have b := gcInv_sweepFaces b1 b2
  have d1 : GCInv (gcFaces x1) := gcInv_setNDel a.1 _ _ 0 _
  have e1 : GCInv (gcFaces x2) := gcInv_setNDel b.1 _ _ 0 _
  have d2 : CellsLive (gcFaces x1) := cellsLive_of_eq (k := gcSweep x1 x1.nF fDeleted _ deleteFaceCore) rfl rfl a.2.1
  have e2 : CellsLive (gcFaces x2) := cellsLive_of_eq (k := gcSweep x2 x2.nF fDeleted _ deleteFaceCore) rfl rfl b.2.1
  have d3 : FacesLive (gcFaces x1) := facesLive_of_eq (k := gcSweep x1 x1.nF fDeleted _ deleteFaceCore) rfl rfl a.2.2
  have e3 : FacesLive (gcFaces x2) := facesLive_of_eq (k := gcSweep x2 x2.nF fDeleted _ deleteFaceCore) rfl rfl b.2.2
  generalize gcFaces x1 = y1 at sF d1 d2 d3 ⊢
  generalize gcFaces x2 = y2 at sF e1 e2 e3 ⊢
  clear a b
  have sE := same_gcEdges_shift sF ⟨d1, d2, d3, Nat.le_refl _, fun c h1 h2 => by omega⟩
    ⟨e1, e2, e3, Nat.le_refl _, fun c h1 h2 => by omega⟩
  have a := gcInv_sweepEdges d1 d2 d3
  have b := gcInv_sweepEdges e1 e2 e3
  have f1 : GCInv (gcEdges y1) := gcInv_setNDel a.1 _ 0 _ _
  have g1 : GCInv (gcEdges y2) := gcInv_setNDel b.1 _ 0 _ _
  have f2 : CellsLive (gcEdges y1) := cellsLive_of_eq (k := gcSweep y1 y1.nE eDeleted _ deleteEdgeCore) rfl rfl a.2.1
  have g2 : CellsLive (gcEdges y2) := cellsLive_of_eq (k := gcSweep y2 y2.nE eDeleted _ deleteEdgeCore) rfl rfl b.2.1
  have f3 : FacesLive (gcEdges y1) := facesLive_of_eq (k := gcSweep y1 y1.nE eDeleted _ deleteEdgeCore) rfl rfl a.2.2.1
  have g3 : FacesLive (gcEdges y2) := facesLive_of_eq (k := gcSweep y2 y2.nE eDeleted _ deleteEdgeCore) rfl rfl b.2.2.1
  have f4 : EdgesLive (gcEdges y1) := edgesLive_of_eq (k := gcSweep y1 y1.nE eDeleted _ deleteEdgeCore) rfl rfl a.2.2.2
  have g4 : EdgesLive (gcEdges y2) := edgesLive_of_eq (k := gcSweep y2 y2.nE eDeleted _ deleteEdgeCore) rfl rfl b.2.2.2
  generalize gcEdges y1 = z1 at sE f1 f2 f3 f4 ⊢
  generalize gcEdges y2 = z2 at sE g1 g2 g3 g4 ⊢
  exact same_gcVerts_shift sE ⟨f1, f2, f3, f4, Nat.le_refl _, fun c h1 h2 => by omega⟩
    ⟨g1, g2, g3, g4, Nat.le_refl _, fun c h1 h2 => by omega⟩

/-! ### `collect_garbage` and the collecting mode switch -/

theorem collectGarbage_eq {k : Kernel} (hd : k.deferred = true) (hg : k.needsGC = true) :
    k.collectGarbage = { gcVerts (gcEdges (gcFaces (gcCells { k with deferred := false }))) with deferred := true } := by
  unfold collectGarbage; simp [hd, hg]

/-- **`collect_garbage` in any two bottom-up configurations** (both deletion styles) -/
theorem same_collectGarbage {k1 k2 : Kernel} (s : SameDefs k1 k2) (i1 : GInv k1) (i2 : GInv k2) :
    SameDefs k1.collectGarbage k2.collectGarbage := by
  by_cases h : k1.deferred = true ∧ k1.needsGC = true
  · have h2 : k2.deferred = true ∧ k2.needsGC = true := by rw [← s.deferred, ← s.needsGC]; exact h
    rw [collectGarbage_eq h.1 h.2, collectGarbage_eq h2.1 h2.2]
    have s0 := same_withDeferred s false
    have c1 : Closed ({ k1 with deferred := false } : Kernel) := closed_of_eq (k := k1) rfl rfl rfl rfl rfl rfl rfl rfl i1.closed
    have c2 : Closed ({ k2 with deferred := false } : Kernel) := closed_of_eq (k := k2) rfl rfl rfl rfl rfl rfl rfl rfl i2.closed
    have w1 := Kernel.wf_withDeferred (k := k1) false i1.wf
    have w2 := Kernel.wf_withDeferred (k := k2) false i2.wf
    by_cases hf : k1.fast = true
    · have hf2 : k2.fast = true := by rw [← s.fast]; exact hf
      exact same_withDeferred (same_gcAll_fast s0 ⟨rfl, hf, w1, i1.one⟩ ⟨rfl, hf2, w2, i2.one⟩ c1 c2) true
    · have hf' : k1.fast = false := by simpa using hf
      have hf2 : k2.fast = false := by rw [← s.fast]; exact hf'
      exact same_withDeferred (same_gcAll_shift s0 ⟨rfl, hf', w1, i1.one, c1⟩ ⟨rfl, hf2, w2, i2.one, c2⟩) true
  · rw [collectGarbage_id h, collectGarbage_id (by rw [← s.deferred, ← s.needsGC]; exact h)]
    exact s

theorem same_enableDeferred {k1 k2 : Kernel} (s : SameDefs k1 k2) (i1 : GInv k1) (i2 : GInv k2) (b : Bool) :
    SameDefs (k1.enableDeferred b) (k2.enableDeferred b) := by
  unfold enableDeferred
  simp only
  rw [← s.deferred]
  split
  · exact same_withDeferred (same_collectGarbage s i1 i2) b
  · exact same_withDeferred s b

/-! ### the whole vocabulary -/

/-- **bottom-up incidences are optional — one step, whole vocabulary, all four deletion modes**: two states satisfying
    the global invariant that agree on everything `SameDefs` compares (in any two bottom-up configurations) are
    taken by the same valid call to two states that again agree -/
theorem same_step {k1 k2 : Kernel} (s : SameDefs k1 k2) (i1 : GInv k1) (i2 : GInv k2) (op : Op)
    (hok : OpOK k1 op) : SameDefs (k1.step op).1 (k2.step op).1 := by
  by_cases hd : k1.deferred = true
  · cases op with
    | collectGarbage => exact same_collectGarbage s i1 i2
    | enableDeferred b => exact same_enableDeferred s i1 i2 b
    | deleteVertex v => exact same_step_partial s i1 i2 _ hok hd
    | deleteEdge v => exact same_step_partial s i1 i2 _ hok hd
    | deleteFace v => exact same_step_partial s i1 i2 _ hok hd
    | deleteCell v => exact same_step_partial s i1 i2 _ hok hd
    | _ => exact same_step_partial s i1 i2 _ hok trivial
  · have hd' : k1.deferred = false := by simpa using hd
    obtain ⟨dc, df, de, dv⟩ := same_delete_imm s i1 i2 hd'
    cases op with
    | collectGarbage => exact same_collectGarbage s i1 i2
    | enableDeferred b => exact same_enableDeferred s i1 i2 b
    | deleteVertex v => exact dv v hok
    | deleteEdge v => exact de v hok
    | deleteFace v => exact df v hok
    | deleteCell v => exact dc v hok
    | _ => exact same_step_partial s i1 i2 _ hok trivial

/-- **history version**: the same history of valid calls run in two bottom-up configurations -/
theorem same_run (ops : List Op) : ∀ {k1 k2 : Kernel}, SameDefs k1 k2 → GInv k1 → GInv k2 → HistoryOK k1 ops →
    SameDefs (k1.run ops) (k2.run ops) ∧ GInv (k1.run ops) ∧ GInv (k2.run ops) := by
  induction ops with
  | nil => intro k1 k2 s i1 i2 _; exact ⟨s, i1, i2⟩
  | cons op t ih =>
    intro k1 k2 s i1 i2 hr
    simp only [run, List.foldl_cons]
    exact ih (same_step s i1 i2 op hr.1) (ginv_step k1 op i1 hr.1) (ginv_step k2 op i2 (same_opOK s op hr.1)) hr.2

/-- two histories that differ only in bottom-up toggles inserted at arbitrary points: `ops1` and `ops2` are the same
    list of calls once the `enable_*_bottom_up_incidences` calls are removed -/
def stripBU (ops : List Op) : List Op := ops.filter (fun op => match op with | .enableBU _ _ => false | _ => true)

theorem isToggle_cases (op : Op) : (∃ kind b, op = .enableBU kind b) ∨ (∀ t, stripBU (op :: t) = op :: stripBU t) := by
  cases op <;> first | (right; intro t; rfl) | (left; exact ⟨_, _, rfl⟩)

theorem stripBU_toggle (kind : Nat) (b : Bool) (t : List Op) : stripBU (.enableBU kind b :: t) = stripBU t := rfl

/-- **bottom-up kinds toggled at arbitrary points**: two histories that are the same list of calls once the
    `enable_*_bottom_up_incidences` calls are removed, run from states that agree, end in states that agree -/
theorem same_run_toggles : ∀ (ops1 ops2 : List Op) {k1 k2 : Kernel}, SameDefs k1 k2 → GInv k1 → GInv k2 →
    HistoryOK k1 ops1 → stripBU ops1 = stripBU ops2 →
    SameDefs (k1.run ops1) (k2.run ops2) ∧ GInv (k1.run ops1) ∧ GInv (k2.run ops2) := by
  intro ops1
  induction ops1 with
  | nil =>
    intro ops2
    induction ops2 with
    | nil => intro k1 k2 s i1 i2 _ _; exact ⟨s, i1, i2⟩
    | cons op2 t2 ih2 =>
      intro k1 k2 s i1 i2 hr he
      rcases isToggle_cases op2 with ⟨kind, b, rfl⟩ | hn
      · simp only [run, List.foldl_cons]
        exact ih2 (same_toggle_left s.symm kind b).symm i1 (ginv_step k2 _ i2 trivial) hr (by rw [stripBU_toggle] at he; exact he)
      · rw [hn] at he; cases he
  | cons op1 t1 ih1 =>
    intro ops2 k1 k2 s i1 i2 hr he
    rcases isToggle_cases op1 with ⟨kind, b, rfl⟩ | hn1
    · simp only [run, List.foldl_cons]
      exact ih1 ops2 (same_toggle_left s kind b) (ginv_step k1 _ i1 trivial) i2 hr.2 (by rw [stripBU_toggle] at he; exact he)
    · induction ops2 generalizing k2 with
      | nil => rw [hn1] at he; cases he
      | cons op2 t2 ih2 =>
        rcases isToggle_cases op2 with ⟨kind, b, rfl⟩ | hn2
        · have := ih2 (k2 := (k2.step (.enableBU kind b)).1) (same_toggle_left s.symm kind b).symm
            (ginv_step k2 _ i2 trivial) (by rw [stripBU_toggle] at he; exact he)
          simpa only [run, List.foldl_cons] using this
        · rw [hn1, hn2] at he
          injection he with e1 e2
          subst e1
          simp only [run, List.foldl_cons]
          exact ih1 t2 (same_step s i1 i2 op1 hr.1) (ginv_step k1 op1 i1 hr.1)
            (ginv_step k2 op1 i2 (same_opOK s op1 hr.1)) hr.2 e2

end Global
end Kernel
end OVM

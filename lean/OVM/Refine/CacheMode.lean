import OVM.Refine.CacheReorder
/-
  `WF` under the mode switches of the kernel (TopologyKernel.hh:900-967, .cc:1794-1800) and `clear`
  (hh:860-890).  Enabling a cache recomputes it from the definitions, and the recomputed cache IS
  the scan (OVM/Refine/CacheCompute.lean), whatever the state was; disabling makes the clause
  vacuous.  `enable_edge/face_bottom_up_incidences` additionally run `reorder` over every live edge
  when both kinds are on, which only rearranges slots (OVM/Refine/CacheReorder.lean).
-/
namespace OVM
namespace Kernel

/-! ### vertex bottom-up incidences: no hypothesis -/
theorem wf_enableVBU (k : Kernel) (b : Bool) (h : WF k) : WF (k.enableVBU b) := by
  refine ⟨lenInv_enableVBU k b h.len, ?_, ?_⟩
  · unfold enableVBU; split
    · split
      · exact h.range
      · exact rangeInv_congr k _ (Nat.le_refl _) rfl rfl rfl h.range
    · exact rangeInv_congr k _ (Nat.le_refl _) rfl rfl rfl h.range
  · unfold enableVBU; split
    · split
      · exact h.cache
      · exact { v := fun _ => slotsV_computeVBU k true
                e := cacheInvE_congr k _ rfl rfl rfl rfl rfl h.cache.e
                f := cacheInvF_congr k _ rfl rfl rfl rfl rfl h.cache.f }
    · exact { v := fun hb => by simp at hb
              e := cacheInvE_congr k _ rfl rfl rfl rfl rfl h.cache.e
              f := cacheInvF_congr k _ rfl rfl rfl rfl rfl h.cache.f }

/-! ### edge bottom-up incidences -/

/-- the state `enable_edge_bottom_up_incidences(true)` hands to its `reorder` loop -/
def ebuPre (k : Kernel) : Kernel := { k with incHfs := k.computeEBU }

theorem cacheInv_withEBU (k : Kernel) (h : CacheInv k) (hs : SlotsE k) : CacheInv { k with eBU := true } :=
  { v := cacheInvV_congr k _ rfl rfl rfl rfl rfl h.v
    e := fun _ => hs
    f := cacheInvF_congr k _ rfl rfl rfl rfl rfl h.f }

theorem wf_enableEBU (k : Kernel) (b : Bool) (h : WF k) : WF (k.enableEBU b) := by
  refine ⟨lenInv_enableEBU k b h.len, ?_, ?_⟩
  · unfold enableEBU; split
    · split
      · exact h.range
      · split
        · exact rangeInv_congr k _ (by simp [reorderAll]) (by simp [reorderAll]) (by simp [reorderAll])
            (by simp [reorderAll]) h.range
        · exact rangeInv_congr k _ (Nat.le_refl _) rfl rfl rfl h.range
    · exact rangeInv_congr k _ (Nat.le_refl _) rfl rfl rfl h.range
  · unfold enableEBU; split
    · rename_i hb
      split
      · exact h.cache
      · rename_i he
        have he' : k.eBU = false := by simpa using he
        -- the recomputed cache, edge kind still flagged off
        have c1 : CacheInv k.ebuPre :=
          { v := cacheInvV_congr k _ rfl rfl rfl rfl rfl h.cache.v
            e := fun hb' => absurd (show k.eBU = true from hb') (by simp [he'])
            f := cacheInvF_congr k _ rfl rfl rfl rfl rfl h.cache.f }
        have s1 : SlotsE k.ebuPre := slotsE_computeEBU k
        split
        · rename_i hf
          have s2 : SlotsE k.ebuPre.reorderAll := slotsE_foldl_reorder _ _ s1
          have c2 : CacheInv k.ebuPre.reorderAll :=
            { v := cacheInvV_congr k.ebuPre _ (by simp [reorderAll]) (by simp [reorderAll]) (by simp [reorderAll])
                (by simp [reorderAll]) (by simp [reorderAll]) c1.v
              e := fun _ => s2
              f := cacheInvF_congr k.ebuPre _ (by simp [reorderAll]) (by simp [reorderAll]) (by simp [reorderAll])
                (by simp [reorderAll]) (by simp [reorderAll]) c1.f }
          exact cacheInv_withEBU _ c2 s2
        · exact cacheInv_withEBU _ c1 s1
    · exact { v := cacheInvV_congr k _ rfl rfl rfl rfl rfl h.cache.v
              e := fun hb => by simp at hb
              f := cacheInvF_congr k _ rfl rfl rfl rfl rfl h.cache.f }

/-! ### face bottom-up incidences -/

/-- the state `enable_face_bottom_up_incidences(true)` hands to its `reorder` loop -/
def fbuPre (k : Kernel) : Kernel := { k with incCell := k.computeFBU, fBU := true }

theorem wf_fbuPre (k : Kernel) (h : WF k) : WF k.fbuPre :=
  { len :=
      { vDel := h.len.vDel, eDel := h.len.eDel, fDel := h.len.fDel, cDel := h.len.cDel, outHes := h.len.outHes
        incHfs := h.len.incHfs, incCell := fun _ => computeFBU_length k
        pv := h.len.pv, pe := h.len.pe, phe := h.len.phe, pf := h.len.pf, phf := h.len.phf, pc := h.len.pc }
    range := rangeInv_congr k _ (Nat.le_refl _) rfl rfl rfl h.range
    cache :=
      { v := cacheInvV_congr k _ rfl rfl rfl rfl rfl h.cache.v
        e := cacheInvE_congr k _ rfl rfl rfl rfl rfl h.cache.e
        f := fun _ => slotsF_computeFBU k true } }

theorem wf_enableFBU (k : Kernel) (b : Bool) (h : WF k) : WF (k.enableFBU b) := by
  unfold enableFBU; split
  · rename_i hb
    split
    · exact h
    · rename_i hf
      have hf' : k.fBU = false := by simpa using hf
      split
      · rename_i he
        exact wf_foldl_reorder _ _ (wf_fbuPre k h)
      · exact wf_fbuPre k h
  · exact
      { len := by have := lenInv_enableFBU k false h.len; simpa [enableFBU] using this
        range := rangeInv_congr k _ (Nat.le_refl _) rfl rfl rfl h.range
        cache :=
          { v := cacheInvV_congr k _ rfl rfl rfl rfl rfl h.cache.v
            e := cacheInvE_congr k _ rfl rfl rfl rfl rfl h.cache.e
            f := fun hb => by simp at hb } }

/-! ### deletion-mode switches (the garbage-collecting transition is on the deletion side) -/

/-- `enable_deferred_deletion(b)` collects garbage when it switches deferred mode off with flagged
    entities pending (cc:1794-1800); every other call only stores the flag -/
def EnableDeferredNoGC (k : Kernel) (b : Bool) : Prop := ¬ (k.deferred = true ∧ b = false ∧ k.needsGC = true)

theorem wf_withDeferred (k : Kernel) (b : Bool) (h : WF k) : WF { k with deferred := b } :=
  { len := lenInv_withDeferred k b h.len
    range := rangeInv_congr k _ (Nat.le_refl _) rfl rfl rfl h.range
    cache :=
      { v := cacheInvV_congr k _ rfl rfl rfl rfl rfl h.cache.v
        e := cacheInvE_congr k _ rfl rfl rfl rfl rfl h.cache.e
        f := cacheInvF_congr k _ rfl rfl rfl rfl rfl h.cache.f } }

theorem wf_enableDeferred (k : Kernel) (b : Bool) (h : WF k) (hn : EnableDeferredNoGC k b) :
    WF (k.enableDeferred b) := by
  unfold enableDeferred
  simp only []
  split
  · rename_i hc
    have hg : k.collectGarbage = k := by
      unfold collectGarbage
      split
      · rfl
      · rename_i hx
        exfalso; apply hn
        simp only [Bool.and_eq_true, Bool.not_eq_true'] at hc
        simp only [Bool.or_eq_true, Bool.not_eq_true', not_or, Bool.not_eq_false] at hx
        exact ⟨hc.1, hc.2, hx.2⟩
    rw [hg]; exact wf_withDeferred k b h
  · exact wf_withDeferred k b h

theorem wf_enableFast (k : Kernel) (b : Bool) (h : WF k) : WF (k.enableFast b) :=
  { len := lenInv_enableFast k b h.len
    range := rangeInv_congr k _ (Nat.le_refl _) rfl rfl rfl h.range
    cache :=
      { v := cacheInvV_congr k _ rfl rfl rfl rfl rfl h.cache.v
        e := cacheInvE_congr k _ rfl rfl rfl rfl rfl h.cache.e
        f := cacheInvF_congr k _ rfl rfl rfl rfl rfl h.cache.f } }

/-! ### clear -/
theorem wf_clear (k : Kernel) (p : Bool) (h : WF k) : WF (k.clear p) :=
  { len := lenInv_clear k p h.len
    range := by constructor <;> intro x hx <;> simp [clear] at hx
    cache :=
      { v := fun _ => ⟨rfl, fun v hv => absurd hv (by simp [clear])⟩
        e := fun _ => ⟨rfl, fun v hv => absurd hv (by simp [clear, nHE])⟩
        f := fun _ => ⟨rfl, fun v hv => absurd hv (by simp [clear, nHF])⟩ } }

end Kernel
end OVM

import OVM.Refine.GlobalAdd
/-
  `GInv` is kept by the four `swap_*_indices` under `Global.OpOK` (both handles valid).  `WF`/`oneCell`:
  builders K2 (`wf_swapVertex`, `wf_swapCell`, OVM/Refine/CacheSwap.lean) and K3 (`wf_swapEdge`, `wf_swapFace`,
  OVM/Refine/CacheSwapEF.lean).  New here: `Closed` — the definitions of the LIVE entities one level up are
  relabelled consistently with the exchanged flags (for dead entities the cache-guided variants leave stale
  handles, which `Closed` does not look at) — and the flag bookkeeping (flags exchanged, counters untouched).
-/
namespace OVM
namespace Kernel
namespace Global
open ScanDel

theorem swapVertex_self (k : Kernel) (a : Nat) : k.swapVertex a a = k := by unfold swapVertex; simp
theorem swapEdge_self (k : Kernel) (a : Nat) : k.swapEdge a a = k := by unfold swapEdge; simp
theorem swapFace_self (k : Kernel) (a : Nat) : k.swapFace a a = k := by unfold swapFace; simp
theorem swapCell_self (k : Kernel) (a : Nat) : k.swapCell a a = k := by unfold swapCell; simp

theorem swapVertex_vDel_eq (k : Kernel) (a b : Nat) : (k.swapVertex a b).vDel = swapAt k.vDel a b := by
  unfold swapVertex; split
  · rename_i h; have : a = b := by simpa using h
    subst this; rw [swapAt_self]
  · rfl

theorem liveE_of_len {k k' : Kernel} (hc : k'.edges.length = k.edges.length) (hd : k'.eDel = k.eDel) (c : Nat) :
    k'.liveE c = k.liveE c := by unfold liveE nE eDeleted; rw [hc, hd]
theorem liveF_of_len {k k' : Kernel} (hc : k'.faces.length = k.faces.length) (hd : k'.fDel = k.fDel) (c : Nat) :
    k'.liveF c = k.liveF c := by unfold liveF nF fDeleted; rw [hc, hd]
theorem liveC_of_len {k k' : Kernel} (hc : k'.cells.length = k.cells.length) (hd : k'.cDel = k.cDel) (c : Nat) :
    k'.liveC c = k.liveC c := by unfold liveC nC cDeleted; rw [hc, hd]

/-! ### swap_vertex_indices -/

theorem ginv_swapVertex {k : Kernel} {a b : Nat} (ha : a < k.nV) (hb : b < k.nV) (hi : GInv k) :
    GInv (k.swapVertex a b) := by
  by_cases hab : a = b
  · subst hab; rw [swapVertex_self]; exact hi
  refine ⟨wf_swapVertex ha hb hi.wf, oneCell_swapVertex a b hi.one, ?_, ?_⟩
  · refine ⟨?_, ?_, ?_⟩
    · intro c hl x hx
      rw [liveC_of_eq (swapVertex_cells k a b) (swapVertex_cDel k a b)] at hl
      rw [cellAt_of_eq (swapVertex_cells k a b)] at hx
      have := hi.closed.f c hl x hx
      unfold fDeleted at *; rw [swapVertex_fDel]; exact this
    · intro f hl x hx
      rw [liveF_of_eq (swapVertex_faces k a b) (swapVertex_fDel k a b)] at hl
      rw [faceAt_of_eq (swapVertex_faces k a b)] at hx
      have := hi.closed.e f hl x hx
      unfold eDeleted at *; rw [swapVertex_eDel]; exact this
    · intro e hl
      rw [liveE_of_len (swapVertex_edges_length k a b) (swapVertex_eDel k a b)] at hl
      have helt : e < k.edges.length := by unfold liveE nE at hl; simp at hl; exact hl.1
      rw [swapVertex_edgeAt_live hab ha hb hi.wf.cache.v helt (fun _ => hl)]
      have hvd : ∀ p, (k.swapVertex a b).vDeleted (relabelId a b p) = k.vDeleted p := by
        intro p
        unfold vDeleted
        rw [swapVertex_vDel_eq, getD_swapAt _ _ _ _ _ (by rw [hi.wf.len.vDel]; exact ha) (by rw [hi.wf.len.vDel]; exact hb),
          relabelId_invol]
      unfold relabelEdgeV
      simp only [hvd]
      exact hi.closed.v e hl
  · exact flagInv_of_imp (k := k) (by simp) (by simp) (by simp) (by simp) (by simp)
      (fun h => by rw [swapVertex_cDel]; exact h) (fun h => by rw [swapVertex_fDel]; exact h)
      (fun h => by rw [swapVertex_eDel]; exact h) (fun h => by rw [swapVertex_vDel_eq]; exact h.swapAt a b) hi.flags

/-! ### swap_cell_indices -/

theorem ginv_swapCell {k : Kernel} {a b : Nat} (ha : a < k.nC) (hb : b < k.nC) (hi : GInv k) :
    GInv (k.swapCell a b) := by
  by_cases hab : a = b
  · subst hab; rw [swapCell_self]; exact hi
  refine ⟨wf_swapCell ha hb hi.wf hi.one, oneCell_swapCell ha hb hi.wf.len.cDel hi.one, ?_, ?_⟩
  · refine ⟨?_, ?_, ?_⟩
    · intro c hl x hx
      rw [swapCell_liveC hab ha hb hi.wf.len.cDel] at hl
      rw [swapCell_cellAt hab ha hb] at hx
      have := hi.closed.f _ hl x hx
      unfold fDeleted at *; rw [swapCell_fDel]; exact this
    · intro f hl x hx
      rw [liveF_of_eq (swapCell_faces k a b) (swapCell_fDel k a b)] at hl
      rw [faceAt_of_eq (swapCell_faces k a b)] at hx
      have := hi.closed.e f hl x hx
      unfold eDeleted at *; rw [swapCell_eDel]; exact this
    · intro e hl
      rw [liveE_of_eq (swapCell_edges k a b) (swapCell_eDel k a b)] at hl
      rw [edgeAt_of_eq (swapCell_edges k a b)]
      have := hi.closed.v e hl
      unfold vDeleted at *; rw [swapCell_vDel]; exact this
  · exact flagInv_of_imp (k := k) (by simp) (by simp) (by simp) (by simp) (by simp)
      (fun h => by rw [swapCell_cDel_eq]; exact h.swapAt a b) (fun h => by rw [swapCell_fDel]; exact h)
      (fun h => by rw [swapCell_eDel]; exact h) (fun h => by rw [swapCell_vDel]; exact h) hi.flags

/-! ### swap_edge_indices -/

theorem ginv_swapEdge {k : Kernel} {a b : Nat} (ha : a < k.nE) (hb : b < k.nE) (hi : GInv k) :
    GInv (k.swapEdge a b) := by
  by_cases hab : a = b
  · subst hab; rw [swapEdge_self]; exact hi
  refine ⟨wf_swapEdge ha hb hi.wf, oneCell_swapEdge a b hi.one, ?_, ?_⟩
  · refine ⟨?_, ?_, ?_⟩
    · intro c hl x hx
      rw [liveC_of_eq (swapEdge_cells k a b) (swapEdge_cDel k a b)] at hl
      rw [cellAt_of_eq (swapEdge_cells k a b)] at hx
      have := hi.closed.f c hl x hx
      unfold fDeleted at *; rw [swapEdge_fDel]; exact this
    · intro f hl x hx
      rw [liveF_of_len (swapEdge_faces_length k a b) (swapEdge_fDel k a b)] at hl
      rw [swapEdge_faceAt_live hab ha hb hi.wf.cache.e (fun _ => hl)] at hx
      obtain ⟨y, hy, rfl⟩ := List.mem_map.mp hx
      rw [swapEdge_eDeleted hab ha hb hi.wf.len.eDel]
      show k.eDeleted (relabelId a b (relabelHalf a b y / 2)) = false
      rw [k3_relabelHalf_div, relabelId_invol]
      exact hi.closed.e f hl y hy
    · intro e hl
      rw [swapEdge_liveE hab ha hb hi.wf.len.eDel] at hl
      rw [swapEdge_edgeAt hab ha hb]
      have := hi.closed.v _ hl
      unfold vDeleted at *; rw [swapEdge_vDel]; exact this
  · exact flagInv_of_imp (k := k) (by simp) (by simp) (by simp) (by simp) (by simp)
      (fun h => by rw [swapEdge_cDel]; exact h) (fun h => by rw [swapEdge_fDel]; exact h)
      (fun h => by rw [swapEdge_eDel_eq]; exact h.swapAt a b) (fun h => by rw [swapEdge_vDel]; exact h) hi.flags

/-! ### swap_face_indices -/

theorem ginv_swapFace {k : Kernel} {a b : Nat} (ha : a < k.nF) (hb : b < k.nF) (hi : GInv k) :
    GInv (k.swapFace a b) := by
  by_cases hab : a = b
  · subst hab; rw [swapFace_self]; exact hi
  refine ⟨wf_swapFace ha hb hi.wf hi.one, oneCell_swapFace ha hb hi.wf.cache.f hi.one, ?_, ?_⟩
  · refine ⟨?_, ?_, ?_⟩
    · intro c hl x hx
      rw [liveC_of_len (swapFace_cells_length k a b) (swapFace_cDel k a b)] at hl
      rw [swapFace_cellAt_live hab ha hb hi.wf.cache.f (fun _ => hi.one) (fun _ => hl)] at hx
      obtain ⟨y, hy, rfl⟩ := List.mem_map.mp hx
      rw [swapFace_fDeleted hab ha hb hi.wf.len.fDel]
      show k.fDeleted (relabelId a b (relabelHalf a b y / 2)) = false
      rw [k3_relabelHalf_div, relabelId_invol]
      exact hi.closed.f c hl y hy
    · intro f hl x hx
      rw [swapFace_liveF hab ha hb hi.wf.len.fDel] at hl
      rw [swapFace_faceAt hab ha hb] at hx
      have := hi.closed.e _ hl x hx
      unfold eDeleted at *; rw [swapFace_eDel]; exact this
    · intro e hl
      rw [liveE_of_eq (swapFace_edges k a b) (swapFace_eDel k a b)] at hl
      rw [edgeAt_of_eq (swapFace_edges k a b)]
      have := hi.closed.v e hl
      unfold vDeleted at *; rw [swapFace_vDel]; exact this
  · exact flagInv_of_imp (k := k) (by simp) (by simp) (by simp) (by simp) (by simp)
      (fun h => by rw [swapFace_cDel]; exact h) (fun h => by rw [swapFace_fDel_eq]; exact h.swapAt a b)
      (fun h => by rw [swapFace_eDel]; exact h) (fun h => by rw [swapFace_vDel]; exact h) hi.flags

end Global
end Kernel
end OVM

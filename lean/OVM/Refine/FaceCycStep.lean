import OVM.Tet.TetStable
import OVM.Hex.FaceSpec
import OVM.Refine.GlobalLoops2
/-
  `Global.FaceCyc` ("every live face is cyclically connected": the one hypothesis beyond `GInv` that vertex → cells and
  the `faceTouchesV` form of face → vertices need, OVM/Refine/GlobalLoops.lean) is carried through histories.

  * `stable_faceCyc : HexAll.Stable FaceCyc` — the ten atomic definition changes of the skeleton of OVM/Hex/Stable.lean
    (flags added, a cell / face / edge / vertex slot erased with renumbering, the four index swaps), by the renaming
    transport `cyc_map` (same proof shape as `TetSt.loop3_map` / `stable_tetQ`, OVM/Tet/TetStable.lean, whose halfedge
    lemmas are reused).  Hence every delete_*, swap_*, collect_garbage, mode switch in every deletion mode keeps it
    (`HexAll.stable_step`).
  * the creating / overwriting calls: `add_vertex`, `add_n_vertices`, `add_edge`, `add_cell`, `set_cell`, `clear` do not
    touch edge / face definitions; `add_face(vertices)` creates a closed loop (`HexAll.addFaceV_spec`); `add_face(halfedges)`
    with topology check only accepts one (`cyc_of_checked`); the UNCHECKED `add_face(halfedges)`, `set_face` and
    `set_edge` can break it and get a side condition (`CycOK`).
  * `faceCyc_step`, `faceCyc_run`, `faceCyc_reachable`; Boolean forms for `decide`.
-/
namespace OVM
namespace Kernel
namespace Global
open ScanDel HexAll

/-- the halfedges of `l` are cyclically connected: each ends where another starts and starts where another ends -/
def Cyc (k : Kernel) (l : List Nat) : Prop :=
  ∀ x ∈ l, (∃ y ∈ l, k.fromV y = k.toV x) ∧ (∃ z ∈ l, k.toV z = k.fromV x)

theorem faceCyc_iff (k : Kernel) : FaceCyc k ↔ ∀ f, k.liveF f = true → Cyc k (k.faceAt f) := Iff.rfl

/-- `Cyc` is invariant under a consistent renaming of halfedges (`σ`) and vertices (`τ`) -/
theorem cyc_map {k k' : Kernel} {l : List Nat} (σ τ : Nat → Nat)
    (hf : ∀ a ∈ l, k'.fromV (σ a) = τ (k.fromV a)) (ht : ∀ a ∈ l, k'.toV (σ a) = τ (k.toV a))
    (h : Cyc k l) : Cyc k' (l.map σ) := by
  intro x' hx'
  obtain ⟨x, hx, rfl⟩ := List.mem_map.mp hx'
  obtain ⟨⟨y, hy, e1⟩, ⟨z, hz, e2⟩⟩ := h x hx
  exact ⟨⟨σ y, List.mem_map_of_mem hy, by rw [hf y hy, ht x hx, e1]⟩,
    ⟨σ z, List.mem_map_of_mem hz, by rw [ht z hz, hf x hx, e2]⟩⟩

theorem cyc_congr {k k' : Kernel} {l : List Nat} (hh : ∀ a ∈ l, k'.halfedge a = k.halfedge a) (h : Cyc k l) : Cyc k' l := by
  have := cyc_map (k' := k') id id (fun a ha => by show (k'.halfedge a).1 = _; rw [hh a ha]; rfl)
    (fun a ha => by show (k'.halfedge a).2 = _; rw [hh a ha]; rfl) h
  rwa [List.map_id] at this

namespace CycSt
open TetSt

theorem mono {k k' : Kernel} (he : k'.edges = k.edges) (hf : k'.faces = k.faces)
    (hfd : ∀ x, k.fDeleted x = true → k'.fDeleted x = true) (hq : FaceCyc k) : FaceCyc k' := by
  intro f hl
  have := hq f (liveF_mono hf hfd hl)
  have e : k'.faceAt f = k.faceAt f := by unfold faceAt; rw [hf]
  rw [e]; exact cyc_congr (fun a _ => halfedge_of_edges he a) this

theorem eraseC {k k' : Kernel} (he : k'.edges = k.edges) (hf : k'.faces = k.faces) (hfd : k'.fDel = k.fDel)
    (hq : FaceCyc k) : FaceCyc k' := by
  intro f hl
  have hl0 : k.liveF f = true := by rw [← liveF_of_faces (by rw [hf]) hfd]; exact hl
  have e : k'.faceAt f = k.faceAt f := by unfold faceAt; rw [hf]
  rw [e]; exact cyc_congr (fun a _ => halfedge_of_edges he a) (hq f hl0)

theorem eraseF {k k' : Kernel} (h : Nat) (hh : h < k.nF) (he : k'.edges = k.edges)
    (hf : k'.faces = k.faces.eraseIdx h) (hfd : k'.fDel = k.fDel.eraseIdx h) (hq : FaceCyc k) : FaceCyc k' := by
  intro f hl
  have hl0 : k.liveF (up h f) = true := by
    unfold liveF nF fDeleted at *
    rw [hf, hfd, getD_eraseIdx, List.length_eraseIdx, if_pos hh] at hl
    simp only [Bool.and_eq_true, decide_eq_true_eq] at hl ⊢
    exact ⟨(up_lt h f _ hh).mpr hl.1, hl.2⟩
  have e : k'.faceAt f = k.faceAt (up h f) := by unfold faceAt; rw [hf, getD_eraseIdx]
  rw [e]; exact cyc_congr (fun a _ => halfedge_of_edges he a) (hq _ hl0)

theorem eraseE {k k' : Kernel} (h : Nat) (hun : UnrefE k h) (he : k'.edges = k.edges.eraseIdx h)
    (hf : k'.faces = k.faces.map (·.map (corr2 (2 * h + 1)))) (hfd : k'.fDel = k.fDel) (hq : FaceCyc k) : FaceCyc k' := by
  have hfa : ∀ f, k'.faceAt f = (k.faceAt f).map (corr2 (2 * h + 1)) := by
    intro f; unfold faceAt; rw [hf]; exact k4_getD_map_list _ _ _
  intro f hl
  have hl0 : k.liveF f = true := by rw [← liveF_of_faces (by rw [hf, List.length_map]) hfd]; exact hl
  rw [hfa]
  have hne : ∀ a ∈ k.faceAt f, eOf a ≠ h := fun a ha => hun _ (faceAt_mem_faces (liveF_lt hl0)) a ha
  exact cyc_map _ id (fun a ha => by unfold fromV; rw [halfedge_eraseE h he a (hne a ha)]; rfl)
    (fun a ha => by unfold toV; rw [halfedge_eraseE h he a (hne a ha)]; rfl) (hq f hl0)

theorem eraseV {k k' : Kernel} (h : Nat) (he : k'.edges = k.edges.map (fun p => (corr1 h p.1, corr1 h p.2)))
    (hf : k'.faces = k.faces) (hfd : k'.fDel = k.fDel) (hq : FaceCyc k) : FaceCyc k' := by
  have hfv : ∀ a, k'.fromV a = corr1 h (k.fromV a) := by intro a; unfold fromV; rw [halfedge_eraseV h he]
  have htv : ∀ a, k'.toV a = corr1 h (k.toV a) := by intro a; unfold toV; rw [halfedge_eraseV h he]
  intro f hl
  have hl0 : k.liveF f = true := by rw [← liveF_of_faces (by rw [hf]) hfd]; exact hl
  have e : k'.faceAt f = (k.faceAt f).map id := by unfold faceAt; rw [hf, List.map_id]
  rw [e]
  exact cyc_map id (corr1 h) (fun a _ => hfv a) (fun a _ => htv a) (hq f hl0)

theorem swapC {k : Kernel} (a b : Nat) (hq : FaceCyc k) : FaceCyc (k.swapCell a b) := by
  have hff : (k.swapCell a b).faces = k.faces := by unfold swapCell; split <;> rfl
  have hee : (k.swapCell a b).edges = k.edges := by unfold swapCell; split <;> rfl
  have hfd : (k.swapCell a b).fDel = k.fDel := by unfold swapCell; split <;> rfl
  exact eraseC hee hff hfd hq

theorem swapF {k : Kernel} (a b : Nat) (hw : WF k) (ha : a < k.nF) (hb : b < k.nF) (hq : FaceCyc k) :
    FaceCyc (k.swapFace a b) := by
  by_cases hab : a = b
  · subst hab; rw [Global.swapFace_self]; exact hq
  intro f hl
  rw [swapFace_liveF hab ha hb hw.len.fDel] at hl
  rw [swapFace_faceAt hab ha hb]
  exact cyc_congr (fun a _ => halfedge_of_edges (swapFace_edges k _ _) a) (hq _ hl)

theorem swapE {k : Kernel} (a b : Nat) (hw : WF k) (ha : a < k.nE) (hb : b < k.nE) (hq : FaceCyc k) :
    FaceCyc (k.swapEdge a b) := by
  by_cases hab : a = b
  · subst hab; rw [Global.swapEdge_self]; exact hq
  have hhe : ∀ y, (k.swapEdge a b).halfedge (relabelHalf a b y) = k.halfedge y := by
    intro y; rw [swapEdge_halfedge hab ha hb, k3_relabelHalf_invol]
  intro f hl
  have hl0 : k.liveF f = true := by
    rw [← liveF_of_faces (swapEdge_faces_length k a b) (swapEdge_fDel k a b)]; exact hl
  rw [swapEdge_faceAt_live hab ha hb hw.cache.e (fun _ => hl0)]
  exact cyc_map _ id (fun y _ => by unfold fromV; rw [hhe]; rfl) (fun y _ => by unfold toV; rw [hhe]; rfl) (hq f hl0)

theorem swapV {k : Kernel} (a b : Nat) (hw : WF k) (hcl : Closed k) (ha : a < k.nV) (hb : b < k.nV) (hq : FaceCyc k) :
    FaceCyc (k.swapVertex a b) := by
  by_cases hab : a = b
  · subst hab; rw [Global.swapVertex_self]; exact hq
  have hfaces : (k.swapVertex a b).faces = k.faces := swapVertex_faces k a b
  intro f hl
  have hl0 : k.liveF f = true := by
    rw [← liveF_of_faces (by rw [hfaces]) (swapVertex_fDel (k := k) (a := a) (b := b))]; exact hl
  have e : (k.swapVertex a b).faceAt f = (k.faceAt f).map id := by unfold faceAt; rw [hfaces, List.map_id]
  rw [e]
  exact cyc_map id (relabelId a b)
    (fun y hy => by show ((k.swapVertex a b).halfedge y).1 = _
                    rw [swapVertex_halfedge_live hab ha hb hw (liveE_of_face hw hcl hl0 hy)]; rfl)
    (fun y hy => by show ((k.swapVertex a b).halfedge y).2 = _
                    rw [swapVertex_halfedge_live hab ha hb hw (liveE_of_face hw hcl hl0 hy)]; rfl)
    (hq f hl0)

end CycSt

/-- **`FaceCyc` survives every atomic definition change** of the skeleton of OVM/Hex/Stable.lean, hence every deleting,
    swapping, collecting and mode-switching operation in every deletion mode (`HexAll.stable_step`) -/
theorem stable_faceCyc : HexAll.Stable FaceCyc where
  mono := fun _ he hf _ _ _ hfd _ hq => CycSt.mono he hf hfd hq
  eraseC := fun _ _ _ _ he hf _ _ _ hfd _ hq => CycSt.eraseC he hf hfd hq
  eraseF := fun h _ hh _ _ he hf _ _ _ hfd _ hq => CycSt.eraseF h hh he hf hfd hq
  eraseE := fun h _ _ hun _ he hf _ _ _ hfd _ hq => CycSt.eraseE h hun he hf hfd hq
  eraseV := fun h _ _ _ _ he hf _ _ _ hfd _ hq => CycSt.eraseV h he hf hfd hq
  swapC := fun a b _ _ _ _ _ hq => CycSt.swapC a b hq
  swapF := fun a b hw _ _ ha hb hq => CycSt.swapF a b hw ha hb hq
  swapE := fun a b hw _ _ ha hb hq => CycSt.swapE a b hw ha hb hq
  swapV := fun a b hw _ hcl ha hb hq => CycSt.swapV a b hw hcl ha hb hq

/-! ### the creating / overwriting operations -/

/-- same edge and face definitions, same face flags -/
theorem faceCyc_of_same {k k' : Kernel} (he : k'.edges = k.edges) (hf : k'.faces = k.faces) (hfd : k'.fDel = k.fDel)
    (hq : FaceCyc k) : FaceCyc k' := CycSt.eraseC he hf hfd hq

/-- edges and faces appended (`HexAll.Ext`): the old faces stay cyclic, the new ones have to be -/
theorem faceCyc_of_ext {k k' : Kernel} (hw : WF k) (x : HexAll.Ext k k') (hq : FaceCyc k)
    (hnew : ∀ f, k.nF ≤ f → k'.liveF f = true → Cyc k' (k'.faceAt f)) : FaceCyc k' := by
  intro f hl
  by_cases hlt : f < k.nF
  · have hl0 : k.liveF f = true := by
      unfold liveF at hl ⊢
      rw [x.fDel f hlt] at hl
      simp only [Bool.and_eq_true, decide_eq_true_eq] at hl ⊢
      exact ⟨hlt, hl.2⟩
    rw [x.faceAt hlt]
    refine cyc_congr (fun a ha => x.halfedge ?_) (hq f hl0)
    exact hw.range.faces _ (faceAt_mem_faces hlt) a ha
  · exact hnew f (by omega) hl

/-- what the caller has to respect, beyond `OpOK`, for the faces to stay cyclically connected: an UNCHECKED
    `add_face(halfedges)` and `set_face` are given a cyclically connected list, and `set_edge` is not applied to an
    edge of a live face.  (`add_face` with topology check and `add_face(vertices)` need nothing.) -/
def CycOK (k : Kernel) : Op → Prop
  | .addFaceHe chk hes => chk = true ∨ Cyc k hes
  | .setFace _ hes => Cyc k hes
  | .setEdge e _ _ => ∀ f, k.liveF f = true → ∀ x ∈ k.faceAt f, eOf x ≠ e
  | _ => True

theorem faceCyc_addFace {k : Kernel} (hw : WF k) {hes : List Nat} {chk : Bool} (hh : ∀ h ∈ hes, HeOk k h)
    (hc : chk = true ∨ Cyc k hes) (hq : FaceCyc k) : FaceCyc (k.addFace hes chk).1 := by
  unfold addFace
  split
  · rename_i hacc
    have hcyc : Cyc k hes := by
      rcases hc with rfl | hc
      · unfold addFaceAccepts at hacc
        simp only [Bool.not_true, Bool.false_or, beq_iff_eq] at hacc
        exact cyc_of_checked hacc
      · exact hc
    have e0 : (k.addFace hes false).1 = k.addFaceCore hes := by
      unfold addFace addFaceAccepts; simp
    have x : HexAll.Ext k (k.addFaceCore hes) := e0 ▸ HexAll.ext_addFace (k := k) hes
    apply faceCyc_of_ext hw x hq
    intro f hge hl
    have hf : f = k.nF := by
      have := liveF_lt hl
      unfold Kernel.nF at *; rw [addFaceCore_faces] at this; simp at this; omega
    have hfa : (k.addFaceCore hes).faceAt f = hes := by
      unfold faceAt; rw [addFaceCore_faces, hf]; unfold Kernel.nF
      simp [List.getD_eq_getElem?_getD]
    rw [hfa]
    exact cyc_congr (fun a ha => x.halfedge (hh a ha).1) hcyc
  · exact hq

theorem faceCyc_addFaceV {k : Kernel} (hw : WF k) {vs : List Nat} (hv : ∀ v ∈ vs, VOk k v) (hq : FaceCyc k) :
    FaceCyc (k.addFaceV vs).1 := by
  cases vs with
  | nil => exact faceCyc_of_same (k := k) rfl rfl rfl hq
  | cons v0 t =>
    obtain ⟨_, x, _, _, hnF, _, hlen, hruns⟩ := HexAll.addFaceV_spec hw v0 t (fun v hm => (hv v hm).1) []
      (fun _ _ _ _ ha => by cases ha)
    apply faceCyc_of_ext hw x hq
    intro f hge hl
    have hf : f = k.nF := by have := liveF_lt hl; omega
    subst hf
    apply cyc_of_closedLoop
    have hpos : 0 < (v0 :: t).length := by simp
    refine ⟨fun e => by rw [e] at hlen; simp at hlen, ?_⟩
    intro i hi
    rw [hlen] at hi ⊢
    have r1 := hruns i hi
    have r2 := hruns ((i + 1) % (v0 :: t).length) (Nat.mod_lt _ hpos)
    rw [r1.2.2.2, r2.2.2.1]

theorem faceCyc_setEdge {k : Kernel} {e a b : Nat} (hun : ∀ f, k.liveF f = true → ∀ x ∈ k.faceAt f, eOf x ≠ e)
    (hq : FaceCyc k) : FaceCyc (k.setEdge e a b) := by
  intro f hl
  have hl0 : k.liveF f = true := hl
  show Cyc (k.setEdge e a b) (k.faceAt f)
  refine cyc_congr (fun x hx => ?_) (hq f hl0)
  have hne := hun f hl0 x hx
  have : ¬ (e = eOf x ∧ e < k.edges.length) := fun h => hne h.1.symm
  have hea : (k.setEdge e a b).edgeAt (eOf x) = k.edgeAt (eOf x) := by
    unfold edgeAt; show (k.edges.set e (a, b)).getD (eOf x) (0, 0) = _
    rw [ScanDel.getD_set]; simp only [this, if_false]
  unfold halfedge; rw [hea]

theorem faceCyc_setFace {k : Kernel} {f : Nat} {hes : List Nat} (hc : Cyc k hes) (hq : FaceCyc k) :
    FaceCyc (k.setFace f hes) := by
  intro f' hl
  have hl0 : k.liveF f' = true := by
    unfold liveF nF fDeleted at hl ⊢
    simpa [setFace] using hl
  have hat : (k.setFace f hes).faceAt f' = if f = f' ∧ f < k.faces.length then hes else k.faceAt f' := by
    unfold faceAt; show (k.faces.set f hes).getD f' [] = _
    rw [ScanDel.getD_set]
  rw [hat]
  have hh : ∀ a, (k.setFace f hes).halfedge a = k.halfedge a := fun a => rfl
  split
  · exact cyc_congr (fun a _ => hh a) hc
  · exact cyc_congr (fun a _ => hh a) (hq f' hl0)

/-- **one valid call keeps every live face cyclically connected** — whole vocabulary, every deletion mode, every
    bottom-up configuration -/
theorem faceCyc_step (k : Kernel) (op : Op) (hi : GInv k) (hok : OpOK k op) (hc : CycOK k op) (hq : FaceCyc k) :
    FaceCyc (k.step op).1 := by
  cases op with
  | addVertex => exact faceCyc_of_same (k := k) rfl rfl rfl hq
  | addNVertices n => exact faceCyc_of_same (k := k) rfl rfl rfl hq
  | addEdge a b d =>
    apply faceCyc_of_ext hi.wf (HexAll.ext_addEdge k a b d) hq
    intro f hge hl
    have := liveF_lt hl
    unfold Kernel.nF at *
    rw [Kernel.addEdge_faces k a b d] at this
    omega
  | addFaceHe chk hes => exact faceCyc_addFace hi.wf hok hc hq
  | addFaceV vs => exact faceCyc_addFaceV hi.wf hok hq
  | addCell chk hfs =>
    show FaceCyc (k.addCell hfs chk).1
    unfold addCell
    split
    · exact faceCyc_of_same (addCellCore_edges k hfs) (addCellCore_faces k hfs) (addCellCore_fDel k hfs) hq
    · exact hq
  | setEdge e a b => exact faceCyc_setEdge hc hq
  | setFace f hes => exact faceCyc_setFace hc hq
  | setCell c hfs => exact faceCyc_of_same (k := k) rfl rfl rfl hq
  | clear p =>
    intro f hl
    have := liveF_lt hl
    simp [Kernel.step, clear, Kernel.nF] at this
  | deleteVertex v => exact stable_step stable_faceCyc k _ trivial hi hok hq
  | deleteEdge v => exact stable_step stable_faceCyc k _ trivial hi hok hq
  | deleteFace v => exact stable_step stable_faceCyc k _ trivial hi hok hq
  | deleteCell v => exact stable_step stable_faceCyc k _ trivial hi hok hq
  | swapVertex a b => exact stable_step stable_faceCyc k _ trivial hi hok hq
  | swapEdge a b => exact stable_step stable_faceCyc k _ trivial hi hok hq
  | swapFace a b => exact stable_step stable_faceCyc k _ trivial hi hok hq
  | swapCell a b => exact stable_step stable_faceCyc k _ trivial hi hok hq
  | collectGarbage => exact stable_step stable_faceCyc k _ trivial hi hok hq
  | enableDeferred b => exact stable_step stable_faceCyc k _ trivial hi hok hq
  | enableFast b => exact stable_step stable_faceCyc k _ trivial hi hok hq
  | enableBU kind b => exact stable_step stable_faceCyc k _ trivial hi hok hq

/-- a history along which `CycOK` holds at every call -/
def CycHistory : Kernel → List Op → Prop
  | _, [] => True
  | k, op :: t => CycOK k op ∧ CycHistory (k.step op).1 t

theorem faceCyc_run (k : Kernel) (ops : List Op) (hi : GInv k) (hq : FaceCyc k) (hr : HistoryOK k ops)
    (hc : CycHistory k ops) : FaceCyc (k.run ops) := by
  induction ops generalizing k with
  | nil => exact hq
  | cons op t ih =>
    simp only [Kernel.run, List.foldl_cons]
    exact ih _ (ginv_step k op hi hr.1) (faceCyc_step k op hi hr.1 hc.1 hq) hr.2 hc.2

theorem faceCyc_empty : FaceCyc ({} : Kernel) := by
  intro f hl; have := liveF_lt hl; simp [Kernel.nF] at this

/-- **every state reached from the empty mesh by valid calls that build faces through `add_face` with topology check
    or `add_face(vertices)` (or hand cyclically connected lists to the unchecked calls) and do not `set_edge` an edge of
    a live face has all live faces cyclically connected** -/
theorem faceCyc_reachable (ops : List Op) (hr : HistoryOK {} ops) (hc : CycHistory {} ops) : FaceCyc (run {} ops) :=
  faceCyc_run {} ops ginv_empty faceCyc_empty hr hc

/-! Boolean forms -/

def cycB (k : Kernel) (l : List Nat) : Bool :=
  l.all (fun x => l.any (fun y => k.fromV y == k.toV x) && l.any (fun z => k.toV z == k.fromV x))

theorem cyc_of_B {k : Kernel} {l : List Nat} (h : cycB k l = true) : Cyc k l := by
  intro x hx
  unfold cycB at h
  rw [List.all_eq_true] at h
  have := h x hx
  simp only [Bool.and_eq_true, List.any_eq_true, beq_iff_eq] at this
  exact this

def cycOKB (k : Kernel) : Op → Bool
  | .addFaceHe chk hes => chk || cycB k hes
  | .setFace _ hes => cycB k hes
  | .setEdge e _ _ => k.liveFaces.all (fun f => (k.faceAt f).all (fun x => eOf x != e))
  | _ => true

theorem cycOK_of_B (k : Kernel) (op : Op) (h : cycOKB k op = true) : CycOK k op := by
  cases op <;> simp only [cycOKB, CycOK] at h ⊢ <;> try trivial
  case addFaceHe chk hes =>
    simp only [Bool.or_eq_true] at h
    rcases h with h | h
    · exact Or.inl h
    · exact Or.inr (cyc_of_B h)
  case setFace f hes => exact cyc_of_B h
  case setEdge e a b =>
    intro f hl x hx
    rw [List.all_eq_true] at h
    have := h f ((mem_liveFaces k f).mpr hl)
    rw [List.all_eq_true] at this
    simpa using this x hx

def cycHistoryB : Kernel → List Op → Bool
  | _, [] => true
  | k, op :: t => cycOKB k op && cycHistoryB (k.step op).1 t

theorem cycHistory_of_B (k : Kernel) (ops : List Op) (h : cycHistoryB k ops = true) : CycHistory k ops := by
  induction ops generalizing k with
  | nil => trivial
  | cons op t ih =>
    simp only [cycHistoryB, Bool.and_eq_true] at h
    exact ⟨cycOK_of_B k op h.1, ih _ h.2⟩

end Global
end Kernel
end OVM

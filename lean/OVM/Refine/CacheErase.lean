import OVM.Refine.CacheEraseLemmas
/-
  The erase stages of `delete_*_core` in NON-fast mode (Kernel/Delete.lean `eraseCell/eraseFace/eraseEdge/
  eraseVertex`; TopologyKernel.cc:1407-1427, 1258-1337, 1090-1180, 961-1015): the slot is physically
  removed, and every stored handle and cache entry above it is shifted down.
  For each level: if `WF k`, the entity is flagged deleted (so the scans ignore it; the caches do not mention
  it), nothing of the level above is flagged, and no stored definition of the level above uses the entity
  (`EraseFaceOK/EraseEdgeOK/EraseVertexOK`), then `WF` holds after the erase (`wf_erase*_dead`), and so does
  C01's precondition `oneCell`.  The key facts are the scans under the shift map:
     `eraseFace_sHfsOfHe`, `eraseEdge_sOut` (old scan, renumbered), `eraseCell_sCellsOfHf`,
  and that the fix-up loops of the C++ (cache-guided or linear) renumber EVERY stored definition
     (`eraseFace_cells`, `eraseEdge_faces`, `eraseVertex_edges` / `shiftVertsBU_eq_map`).
  The wrappers for `delete_*_core` (`wf_delete*Core_shift`) and garbage collection are in CacheGC.lean, the closure
  versions `delete_cell/face/edge/vertex` in CacheImmediate.lean, `Closed` for deferred deletion in CacheClosed.lean,
  the step/history assembly in CacheAssembly.lean.
  Remarks on the hypotheses.  (1) "nothing of the level above is flagged": the fix-up loops visit only live users
  (`cells_begin()` skips deleted cells; the cache-guided variants see only linked = live users), so a flagged user
  would keep stale handles and `RangeInv` (which speaks about ALL stored definitions) would break; in the real code
  this state is unreachable (flags exist only in deferred mode; `collect_garbage` sweeps cells, faces, edges,
  vertices in this order).  (2) "no stored definition uses the entity" is stronger than `eraseFace`/`eraseEdge`
  need for `WF` alone (`fixHalfList` would drop the half-entities from the users, changing their shape); for
  `eraseVertex` it is necessary (cc:965-978 renames an endpoint `h` to `h-1`: TEST at the end of CacheGC.lean).
-/
namespace OVM
namespace Kernel
open ScanDel

/-! ## cells -/
section eraseCellObs
variable (k : Kernel) (h : Nat)

theorem eraseCell_cellAt (c : Nat) : (k.eraseCell h).cellAt c = k.cellAt (up h c) := by
  unfold cellAt; rw [eraseCell_cells, getD_eraseIdx]
theorem eraseCell_cDeleted (c : Nat) : (k.eraseCell h).cDeleted c = k.cDeleted (up h c) := by
  unfold cDeleted; rw [eraseCell_cDel, getD_eraseIdx]
theorem eraseCell_nC (hh : h < k.nC) : (k.eraseCell h).nC = k.nC - 1 := by
  unfold nC at *; rw [eraseCell_cells, List.length_eraseIdx, if_pos hh]

/-- the live cells after the erase, under their old handles -/
theorem eraseCell_liveCells (hh : h < k.nC) : (k.eraseCell h).liveCells.map (up h) = k.liveCells.filter (· != h) := by
  unfold liveCells
  rw [eraseCell_nC k h hh]
  have : (fun c => !(k.eraseCell h).cDeleted c) = (fun c => (fun j => !k.cDeleted j) (up h c)) := by
    funext c; rw [eraseCell_cDeleted]
  rw [this]
  exact filter_range_up k.nC h hh (fun j => !k.cDeleted j)

theorem eraseCell_sCellsOfHf (hh : h < k.nC) (x : Nat) :
    ((k.eraseCell h).sCellsOfHf x).map (up h) = (k.sCellsOfHf x).filter (· != h) := by
  unfold sCellsOfHf
  have : (fun c => ((k.eraseCell h).cellAt c).contains x) = (fun j => (k.cellAt j).contains x) ∘ up h := by
    funext c; simp only [Function.comp, eraseCell_cellAt]
  rw [this, ← List.filter_map, eraseCell_liveCells k h hh, List.filter_filter, List.filter_filter]
  apply List.filter_congr; intro a _; rw [Bool.and_comm]
end eraseCellObs

theorem not_mem_liveCells_of_dead {k : Kernel} {h : Nat} (hd : k.cDeleted h = true) : h ∉ k.liveCells := by
  intro hm; have := (mem_liveCells k h).mp hm
  unfold liveC at this; simp [hd] at this

/-- C01's precondition survives the erasure of a cell slot (any slot: fewer cells) -/
theorem oneCell_eraseCell {k : Kernel} {h : Nat} (hh : h < k.nC) (h1 : k.oneCell = true) :
    (k.eraseCell h).oneCell = true := by
  unfold oneCell at *
  simp only [List.all_eq_true, List.mem_range, decide_eq_true_eq] at *
  intro x hx
  have hx' : x < k.nHF := by unfold nHF at *; rwa [eraseCell_faces] at hx
  refine Nat.le_trans ?_ (h1 x hx')
  have e2 : (fun c => ((k.eraseCell h).cellAt c).count x) = (fun c => (k.cellAt c).count x) ∘ up h := by
    funext c; simp only [Function.comp, eraseCell_cellAt]
  rw [e2, ← List.map_map, eraseCell_liveCells k h hh]
  have := sum_map_filter_mono k.liveCells (fun c => (k.cellAt c).count x) (· != h) (fun _ => true) (fun _ _ _ => rfl)
  rwa [List.filter_eq_self.mpr (fun _ _ => rfl)] at this

/-- **erasing the slot of a dead (flagged, hence unlinked) cell and renumbering the cells above it keeps
    `WF`** — the non-fast branch of `delete_cell_core` after the unlink (cc:1407-1427).  `fast = false`:
    in fast mode the links are not renumbered (correct there only because the victim is the last cell). -/
theorem wf_eraseCell_dead {k : Kernel} {h : Nat} (hfast : k.fast = false) (hh : h < k.nC)
    (hd : k.cDeleted h = true) (hw : WF k) : WF (k.eraseCell h) := by
  refine ⟨lenInv_eraseCell _ _ hw.len, ?_, ⟨?_, ?_, ?_⟩⟩
  · constructor
    · simpa using hw.range.edges
    · have := hw.range.faces; unfold nHE at *; simpa using this
    · unfold nHF
      intro c hc
      simp only [eraseCell_cells, eraseCell_faces] at hc ⊢
      exact hw.range.cells c (List.mem_of_mem_eraseIdx hc)
  · exact cacheInvV_of_eq (by simp) (by simp) (by simp) (by simp) (by simp) hw.cache.v
  · exact cacheInvE_of_eq (by simp) (by simp) (by simp) (by simp) (by simp) hw.cache.e
  · intro hb
    have hb' : k.fBU = true := by simpa using hb
    obtain ⟨hl, hs⟩ := hw.cache.f hb'
    have hn : (k.eraseCell h).nHF = k.nHF := by unfold nHF; simp
    have hinc : (k.eraseCell h).incCell = k.incCell.map (·.map (corr1 h)) := by
      unfold eraseCell; simp [hfast, hb']
    refine ⟨by rw [hn, hinc, List.length_map]; exact hl, fun x hx => ?_⟩
    rw [hn] at hx
    have hco : (k.eraseCell h).cellOf x = (k.cellOf x).map (corr1 h) := by
      unfold cellOf; rw [hinc]; exact k4_getD_map_option _ _ _
    have hsc : ((k.eraseCell h).sCellOf x).map (up h) = k.sCellOf x := by
      unfold sCellOf
      rw [← List.head?_map, eraseCell_sCellsOfHf k h hh]
      rw [filter_ne_of_not_mem]
      intro hm
      unfold sCellsOfHf at hm
      exact not_mem_liveCells_of_dead hd (List.mem_filter.mp hm).1
    rw [hco, hs x hx, ← hsc, Option.map_map]
    cases (k.eraseCell h).sCellOf x with
    | none => rfl
    | some c => simp [corr1_up]

theorem eraseCell_flag_irrelevant (k : Kernel) (h : Nat) (b : Bool) :
    ({ k with cDel := k.cDel.set h b } : Kernel).eraseCell h = k.eraseCell h := by
  unfold eraseCell
  simp only [k4_eraseIdx_set_same]

/-! ## faces -/

theorem side_up2 (h x : Nat) : side (up2 h x) = side x := by unfold side up2; split <;> omega

theorem mem_map_corr2_iff (h x : Nat) (l : List Nat) (hl : ∀ a ∈ l, eOf a ≠ h) :
    x ∈ l.map (corr2 (2 * h + 1)) ↔ up2 h x ∈ l := by
  rw [List.mem_map]
  constructor
  · rintro ⟨a, ha, rfl⟩; rw [up2_corr2 h a (hl a ha)]; exact ha
  · intro hm; exact ⟨_, hm, corr2_up2 h x⟩

theorem count_map_corr2 (h x : Nat) (l : List Nat) (hl : ∀ a ∈ l, eOf a ≠ h) :
    (l.map (corr2 (2 * h + 1))).count x = l.count (up2 h x) := by
  have := k4_count_map_of_inj l (corr2 (2 * h + 1)) (up2 h x) (by
    intro a ha e
    have := congrArg (up2 h) e
    rwa [up2_corr2 h a (hl a ha), corr2_up2] at this)
  rwa [corr2_up2] at this

/-- a half-entity list that does not mention entity `h` is only renumbered by the C++ fix-up loop -/
theorem fixHalfList_eq_map (h : Nat) (l : List Nat) (hl : ∀ a ∈ l, eOf a ≠ h) :
    fixHalfList h l = l.map (corr2 (heOf h 1)) := by
  unfold fixHalfList
  have h1 : l.filter (· != heOf h 0) = l := by
    apply List.filter_eq_self.mpr; intro a ha
    have := hl a ha; unfold eOf heOf at *; simp; omega
  have h2 : l.filter (· != heOf h 1) = l := by
    apply List.filter_eq_self.mpr; intro a ha
    have := hl a ha; unfold eOf heOf at *; simp; omega
  rw [h1, h2]

theorem fixHalfList_low (h : Nat) (l : List Nat) (hl : ∀ a ∈ l, a < 2 * h) : fixHalfList h l = l := by
  rw [fixHalfList_eq_map h l (fun a ha => by have := hl a ha; unfold eOf; omega)]
  conv => rhs; rw [← List.map_id l]
  apply List.map_congr_left
  intro a ha; have := hl a ha; unfold corr2 heOf; simp; omega

theorem k4_mem_drop_of_getD {α} [DecidableEq α] (l : List α) (n x : Nat) (d a : α) (hn : n ≤ x) (hx : x < l.length)
    (ha : l.getD x d = a) : a ∈ l.drop n := by
  have : (l.drop n)[x - n]? = some a := by
    rw [List.getElem?_drop, show n + (x - n) = x by omega, ← ha, List.getD_eq_getElem?_getD,
      List.getElem?_eq_getElem hx]; rfl
  exact List.mem_of_getElem? this

/-- the cells after the fix-up loop of `delete_face_core` (cc:1258-1300): every cell renumbered, given
    that every cell is live, no halfface lies in two cells, and no cell uses the erased face -/
theorem eraseFace_cells {k : Kernel} {h : Nat} (hfast : k.fast = false) (hw : WF k) (h1 : k.oneCell = true)
    (hlive : ∀ c, c < k.nC → k.cDeleted c = false) (hun : ∀ c ∈ k.cells, ∀ a ∈ c, eOf a ≠ h) :
    (k.eraseFace h).cells = k.cells.map (·.map (corr2 (2 * h + 1))) := by
  have hL : ∀ L : List Nat, L.Nodup →
      (∀ i (hi : i < k.cells.length), i ∉ L → fixHalfList h k.cells[i] = k.cells[i]) →
      L.foldl (fun cl c => cl.modify c (fixHalfList h)) k.cells = k.cells.map (·.map (corr2 (2 * h + 1))) := by
    intro L hn hcov
    rw [k4_foldl_modify_eq_map (fixHalfList h) L hn k.cells hcov]
    apply List.map_congr_left
    intro c hc
    exact fixHalfList_eq_map h c (hun c hc)
  have hliveAll : ∀ i, i < k.cells.length → i ∈ k.liveCells := by
    intro i hi
    rw [mem_liveCells]; unfold liveC
    simp [show i < k.nC from hi, hlive i hi]
  unfold eraseFace
  simp only [hfast, Bool.not_false, if_true]
  split
  · rename_i hb
    apply hL _ (k4_toSet_nodup _)
    intro i hi hni
    apply fixHalfList_low
    intro a ha
    rcases Nat.lt_or_ge a (2 * h) with hlt | hge
    · exact hlt
    · exfalso
      apply hni
      rw [k4_mem_toSet, List.mem_filterMap]
      have hci : k.cellAt i = k.cells[i] := by
        unfold cellAt; rw [List.getD_eq_getElem?_getD, List.getElem?_eq_getElem hi]; rfl
      have hanHF : a < k.nHF := hw.range.cells _ (List.getElem_mem hi) a ha
      have hsc : k.sCellOf a = some i :=
        sCellOf_of_mem h1 hanHF ((mem_liveCells k i).mp (hliveAll i hi)) (by rw [hci]; exact ha)
      have hco : k.cellOf a = some i := by rw [(hw.cache.f hb).2 a hanHF]; exact hsc
      refine ⟨some i, ?_, rfl⟩
      exact k4_mem_drop_of_getD k.incCell (heOf h 0) a none (some i) hge (by rw [(hw.cache.f hb).1]; exact hanHF) hco
  · apply hL _ (liveCells_nodup k)
    intro i hi hni
    exact absurd (hliveAll i hi) hni

section eraseFaceObs
variable (k : Kernel) (h : Nat)
theorem eraseFace_faceAt (f : Nat) : (k.eraseFace h).faceAt f = k.faceAt (up h f) := by
  unfold faceAt; rw [eraseFace_faces, getD_eraseIdx]
theorem eraseFace_fDeleted (f : Nat) : (k.eraseFace h).fDeleted f = k.fDeleted (up h f) := by
  unfold fDeleted; rw [eraseFace_fDel, getD_eraseIdx]
theorem eraseFace_nF (hh : h < k.nF) : (k.eraseFace h).nF = k.nF - 1 := by
  unfold nF at *; rw [eraseFace_faces, List.length_eraseIdx, if_pos hh]
theorem eraseFace_nHF (hh : h < k.nF) : (k.eraseFace h).nHF = 2 * (k.nF - 1) := by
  have := eraseFace_nF k h hh; unfold nHF nF at *; rw [this]
theorem eraseFace_hfHes (x : Nat) : (k.eraseFace h).hfHes x = k.hfHes (up2 h x) := by
  unfold hfHes; simp only [eraseFace_faceAt, up2_eOf, side_up2]
theorem eraseFace_liveFaces (hh : h < k.nF) : (k.eraseFace h).liveFaces.map (up h) = k.liveFaces.filter (· != h) := by
  unfold liveFaces
  rw [eraseFace_nF k h hh]
  have : (fun c => !(k.eraseFace h).fDeleted c) = (fun c => (fun j => !k.fDeleted j) (up h c)) := by
    funext c; rw [eraseFace_fDeleted]
  rw [this]
  exact filter_range_up k.nF h hh (fun j => !k.fDeleted j)
theorem eraseFace_hfBlock (y f : Nat) :
    (k.eraseFace h).hfBlock y f = (k.hfBlock y (up h f)).map (corr2 (2 * h + 1)) := by
  unfold hfBlock
  simp only [eraseFace_hfHes, up2_even, up2_odd, List.map_append, List.map_replicate]
  rw [corr2_even h _ (up_ne h f), corr2_odd h _ (up_ne h f), corr1_up]
end eraseFaceObs

theorem not_mem_liveFaces_of_dead {k : Kernel} {h : Nat} (hd : k.fDeleted h = true) : h ∉ k.liveFaces := by
  intro hm; have := (mem_liveFaces k h).mp hm
  unfold liveF at this; simp [hd] at this

/-- the scan around a halfedge after erasing the slot of a dead face: the old scan, renumbered -/
theorem eraseFace_sHfsOfHe {k : Kernel} {h : Nat} (hh : h < k.nF) (hd : k.fDeleted h = true) (y : Nat) :
    (k.eraseFace h).sHfsOfHe y = (k.sHfsOfHe y).map (corr2 (2 * h + 1)) := by
  rw [sHfsOfHe_eq, sHfsOfHe_eq]
  have e1 : (k.eraseFace h).hfBlock y = (fun f => (fun g => (k.hfBlock y g).map (corr2 (2 * h + 1))) (up h f)) := by
    funext f; simp only [eraseFace_hfBlock]
  rw [e1, ← List.flatMap_map (up h) (fun g => (k.hfBlock y g).map (corr2 (2 * h + 1))),
    eraseFace_liveFaces k h hh, filter_ne_of_not_mem _ _ (not_mem_liveFaces_of_dead hd), List.map_flatMap]

/-- hypotheses of the face erase stage: non-fast mode, the face slot exists and is flagged, every cell is
    live, no halfface lies in two cells, no stored cell uses the face -/
structure EraseFaceOK (k : Kernel) (h : Nat) : Prop where
  fast : k.fast = false
  lt : h < k.nF
  dead : k.fDeleted h = true
  one : k.oneCell = true
  cellsLive : ∀ c, c < k.nC → k.cDeleted c = false
  unref : ∀ c ∈ k.cells, ∀ a ∈ c, eOf a ≠ h

theorem eraseFace_cellAt {k : Kernel} {h : Nat} (hw : WF k) (ok : EraseFaceOK k h) (c : Nat) :
    (k.eraseFace h).cellAt c = (k.cellAt c).map (corr2 (2 * h + 1)) := by
  unfold cellAt
  rw [eraseFace_cells ok.fast hw ok.one ok.cellsLive ok.unref]
  exact k4_getD_map_list _ _ _

theorem cellAt_unref {k : Kernel} {h : Nat} (hun : ∀ c ∈ k.cells, ∀ a ∈ c, eOf a ≠ h) (c : Nat) :
    ∀ a ∈ k.cellAt c, eOf a ≠ h := by
  intro a ha
  rcases Nat.lt_or_ge c k.nC with hc | hc
  · exact hun _ (cellAt_mem_cells hc) a ha
  · unfold cellAt at ha; rw [getD_of_ge _ _ _ hc] at ha; cases ha

theorem oneCell_eraseFace {k : Kernel} {h : Nat} (hw : WF k) (ok : EraseFaceOK k h) :
    (k.eraseFace h).oneCell = true := by
  have h1 := ok.one
  unfold oneCell at h1 ⊢
  simp only [List.all_eq_true, List.mem_range, decide_eq_true_eq] at h1 ⊢
  intro x hx
  rw [eraseFace_nHF k h ok.lt] at hx
  have hx' : up2 h x < k.nHF := by unfold nHF; exact (up2_lt h x _ ok.lt).mpr hx
  refine Nat.le_trans (Nat.le_of_eq ?_) (h1 _ hx')
  have hlc : (k.eraseFace h).liveCells = k.liveCells := by
    unfold liveCells nC cDeleted
    rw [eraseFace_cDel, eraseFace_cells ok.fast hw ok.one ok.cellsLive ok.unref, List.length_map]
  rw [hlc]
  congr 1
  apply List.map_congr_left
  intro c _
  rw [eraseFace_cellAt hw ok, count_map_corr2 h x _ (cellAt_unref ok.unref c)]

/-- **erasing the slot of a dead (flagged, hence unlinked) face and renumbering keeps `WF`** — the
    non-fast branch of `delete_face_core` after the unlink loop (cc:1258-1337) -/
theorem wf_eraseFace_dead {k : Kernel} {h : Nat} (hw : WF k) (ok : EraseFaceOK k h) : WF (k.eraseFace h) := by
  have hcells := eraseFace_cells ok.fast hw ok.one ok.cellsLive ok.unref
  have hnHF := eraseFace_nHF k h ok.lt
  refine ⟨lenInv_eraseFace _ _ hw.len, ?_, ⟨?_, ?_, ?_⟩⟩
  · constructor
    · simpa using hw.range.edges
    · intro f hf
      have : (k.eraseFace h).nHE = k.nHE := by unfold nHE; simp
      rw [this]
      rw [eraseFace_faces] at hf
      exact hw.range.faces f (List.mem_of_mem_eraseIdx hf)
    · intro c hc a ha
      rw [hcells] at hc
      obtain ⟨c0, hc0, rfl⟩ := List.mem_map.mp hc
      obtain ⟨a0, ha0, rfl⟩ := List.mem_map.mp ha
      rw [hnHF]
      exact corr2_lt h a0 k.nF ok.lt (ok.unref c0 hc0 a0 ha0) (hw.range.cells c0 hc0 a0 ha0)
  · exact cacheInvV_of_eq (by simp) (by simp) (by simp) (by simp) (by simp) hw.cache.v
  · intro hb
    have hb' : k.eBU = true := by simpa using hb
    obtain ⟨hl, hs⟩ := hw.cache.e hb'
    have hn : (k.eraseFace h).nHE = k.nHE := by unfold nHE; simp
    have hinc : (k.eraseFace h).incHfs = k.incHfs.map (·.map (corr2 (2 * h + 1))) := by
      unfold eraseFace; simp [ok.fast, hb', heOf]
    refine ⟨by rw [hn, hinc, List.length_map]; exact hl, fun y hy => ?_⟩
    rw [hn] at hy
    rw [eraseFace_sHfsOfHe ok.lt ok.dead]
    have : (k.eraseFace h).hfsOf y = (k.hfsOf y).map (corr2 (2 * h + 1)) := by
      unfold hfsOf; rw [hinc]; exact k4_getD_map_list _ _ _
    rw [this]
    exact (hs y hy).map _
  · intro hb
    have hb' : k.fBU = true := by simpa using hb
    obtain ⟨hl, hs⟩ := hw.cache.f hb'
    have hinc : (k.eraseFace h).incCell = (k.incCell.eraseIdx (2 * h + 1)).eraseIdx (2 * h) := by
      unfold eraseFace; simp [hb', heOf]
    refine ⟨by rw [hinc]; unfold nHF at hl ⊢; rw [eraseFace_faces]; exact length_erase_pair _ _ h hl, fun x hx => ?_⟩
    rw [hnHF] at hx
    have hx' : up2 h x < k.nHF := by unfold nHF; exact (up2_lt h x _ ok.lt).mpr hx
    have hco : (k.eraseFace h).cellOf x = k.cellOf (up2 h x) := by
      unfold cellOf; rw [hinc]; exact getD_eraseIdx2 _ _ _ _
    rw [hco, hs _ hx']
    unfold sCellOf sCellsOfHf
    have hlc : (k.eraseFace h).liveCells = k.liveCells := by
      unfold liveCells nC cDeleted
      rw [eraseFace_cDel, hcells, List.length_map]
    rw [hlc]
    congr 1
    apply List.filter_congr
    intro c _
    rw [eraseFace_cellAt hw ok]
    rw [Bool.eq_iff_iff]
    simp only [List.contains_iff_mem]
    exact (mem_map_corr2_iff h x _ (cellAt_unref ok.unref c)).symm

theorem eraseFace_flag_irrelevant (k : Kernel) (h : Nat) (b : Bool) :
    ({ k with fDel := k.fDel.set h b } : Kernel).eraseFace h = k.eraseFace h := by
  unfold eraseFace liveCells cDeleted nC
  simp only [k4_eraseIdx_set_same]

/-! ## edges -/

/-- hypotheses of the edge erase stage: non-fast mode, the edge slot exists and is flagged, every face is
    live, no stored face uses the edge -/
structure EraseEdgeOK (k : Kernel) (h : Nat) : Prop where
  fast : k.fast = false
  lt : h < k.nE
  dead : k.eDeleted h = true
  facesLive : ∀ f, f < k.nF → k.fDeleted f = false
  unref : ∀ f ∈ k.faces, ∀ a ∈ f, eOf a ≠ h

theorem faceAt_unref {k : Kernel} {h : Nat} (hun : ∀ f ∈ k.faces, ∀ a ∈ f, eOf a ≠ h) (f : Nat) :
    ∀ a ∈ k.faceAt f, eOf a ≠ h := by
  intro a ha
  rcases Nat.lt_or_ge f k.nF with hc | hc
  · exact hun _ (faceAt_mem_faces hc) a ha
  · unfold faceAt at ha; rw [getD_of_ge _ _ _ hc] at ha; cases ha

/-- the faces after the fix-up loop of `delete_edge_core` (cc:1090-1140): every face renumbered -/
theorem eraseEdge_faces {k : Kernel} {h : Nat} (hw : WF k) (ok : EraseEdgeOK k h) :
    (k.eraseEdge h).faces = k.faces.map (·.map (corr2 (2 * h + 1))) := by
  have hL : ∀ L : List Nat, L.Nodup →
      (∀ i (hi : i < k.faces.length), i ∉ L → fixHalfList h k.faces[i] = k.faces[i]) →
      L.foldl (fun cl c => cl.modify c (fixHalfList h)) k.faces = k.faces.map (·.map (corr2 (2 * h + 1))) := by
    intro L hn hcov
    rw [k4_foldl_modify_eq_map (fixHalfList h) L hn k.faces hcov]
    apply List.map_congr_left
    intro c hc
    exact fixHalfList_eq_map h c (ok.unref c hc)
  have hliveAll : ∀ i, i < k.faces.length → k.liveF i = true := by
    intro i hi
    unfold liveF
    simp [show i < k.nF from hi, ok.facesLive i hi]
  unfold eraseEdge
  simp only [ok.fast, Bool.not_false, if_true]
  split
  · rename_i hb
    apply hL _ (k4_toSet_nodup _)
    intro i hi hni
    apply fixHalfList_low
    intro a ha
    rcases Nat.lt_or_ge a (2 * h) with hlt | hge
    · exact hlt
    · exfalso
      apply hni
      rw [k4_mem_toSet, List.mem_map]
      have hci : k.faceAt i = k.faces[i] := by
        unfold faceAt; rw [List.getD_eq_getElem?_getD, List.getElem?_eq_getElem hi]; rfl
      have hanHE : a < k.nHE := hw.range.faces _ (List.getElem_mem hi) a ha
      have hmem : 2 * i ∈ k.hfsOf a := by
        apply ((hw.cache.e hb).2 a hanHE).mem_iff.mpr
        rw [mem_sHfsOfHe]
        refine ⟨by rw [show eOf (2 * i) = i by unfold eOf; omega]; exact hliveAll i hi, ?_⟩
        rw [hfHes_two_mul, hci]; exact ha
      refine ⟨2 * i, ?_, by unfold eOf; omega⟩
      rw [List.mem_flatten]
      exact ⟨k.hfsOf a, k4_mem_drop_of_getD k.incHfs (heOf h 0) a [] _ hge (by rw [(hw.cache.e hb).1]; exact hanHE) rfl, hmem⟩
  · apply hL _ (List.Pairwise.sublist List.filter_sublist List.nodup_range)
    intro i hi hni
    exact absurd ((mem_liveFaces k i).mpr (hliveAll i hi)) hni

section eraseEdgeObs
variable (k : Kernel) (h : Nat)
theorem eraseEdge_edgeAt (e : Nat) : (k.eraseEdge h).edgeAt e = k.edgeAt (up h e) := by
  unfold edgeAt; rw [eraseEdge_edges, getD_eraseIdx]
theorem eraseEdge_eDeleted (e : Nat) : (k.eraseEdge h).eDeleted e = k.eDeleted (up h e) := by
  unfold eDeleted; rw [eraseEdge_eDel, getD_eraseIdx]
theorem eraseEdge_nE (hh : h < k.nE) : (k.eraseEdge h).nE = k.nE - 1 := by
  unfold nE at *; rw [eraseEdge_edges, List.length_eraseIdx, if_pos hh]
theorem eraseEdge_nHE (hh : h < k.nE) : (k.eraseEdge h).nHE = 2 * (k.nE - 1) := by
  have := eraseEdge_nE k h hh; unfold nHE nE at *; rw [this]
theorem eraseEdge_fromV (x : Nat) : (k.eraseEdge h).fromV x = k.fromV (up2 h x) := by
  unfold fromV halfedge; simp only [eraseEdge_edgeAt, up2_eOf, side_up2]
theorem eraseEdge_liveEdges (hh : h < k.nE) : (k.eraseEdge h).liveEdges.map (up h) = k.liveEdges.filter (· != h) := by
  unfold liveEdges
  rw [eraseEdge_nE k h hh]
  have : (fun c => !(k.eraseEdge h).eDeleted c) = (fun c => (fun j => !k.eDeleted j) (up h c)) := by
    funext c; rw [eraseEdge_eDeleted]
  rw [this]
  exact filter_range_up k.nE h hh (fun j => !k.eDeleted j)
theorem eraseEdge_outBlock (v e : Nat) :
    (k.eraseEdge h).outBlock v e = (k.outBlock v (up h e)).map (corr2 (2 * h + 1)) := by
  unfold outBlock
  simp only [List.filter_cons, List.filter_nil, eraseEdge_fromV, up2_even, up2_odd]
  have e0 := corr2_even h _ (up_ne h e)
  have e1 := corr2_odd h _ (up_ne h e)
  rw [corr1_up] at e0 e1
  split <;> split <;> simp [e0, e1]
end eraseEdgeObs

theorem not_mem_liveEdges_of_dead {k : Kernel} {h : Nat} (hd : k.eDeleted h = true) : h ∉ k.liveEdges := by
  intro hm; have := (mem_liveEdges k h).mp hm
  unfold liveE at this; simp [hd] at this

theorem eraseEdge_sOut {k : Kernel} {h : Nat} (hh : h < k.nE) (hd : k.eDeleted h = true) (v : Nat) :
    (k.eraseEdge h).sOut v = (k.sOut v).map (corr2 (2 * h + 1)) := by
  rw [sOut_eq, sOut_eq]
  have e1 : (k.eraseEdge h).outBlock v = (fun f => (fun g => (k.outBlock v g).map (corr2 (2 * h + 1))) (up h f)) := by
    funext f; simp only [eraseEdge_outBlock]
  rw [e1, ← List.flatMap_map (up h) (fun g => (k.outBlock v g).map (corr2 (2 * h + 1))),
    eraseEdge_liveEdges k h hh, filter_ne_of_not_mem _ _ (not_mem_liveEdges_of_dead hd), List.map_flatMap]

theorem eraseEdge_faceAt {k : Kernel} {h : Nat} (hw : WF k) (ok : EraseEdgeOK k h) (f : Nat) :
    (k.eraseEdge h).faceAt f = (k.faceAt f).map (corr2 (2 * h + 1)) := by
  unfold faceAt; rw [eraseEdge_faces hw ok]; exact k4_getD_map_list _ _ _

theorem eraseEdge_hfBlock {k : Kernel} {h : Nat} (hw : WF k) (ok : EraseEdgeOK k h) (y f : Nat) :
    (k.eraseEdge h).hfBlock y f = k.hfBlock (up2 h y) f := by
  unfold hfBlock
  rw [hfHes_two_mul, hfHes_two_mul, hfHes_two_mul_succ, hfHes_two_mul_succ, eraseEdge_faceAt hw ok,
    count_oppFace, count_oppFace, count_map_corr2 h _ _ (faceAt_unref ok.unref f),
    count_map_corr2 h _ _ (faceAt_unref ok.unref f), up2_opp]

theorem oneCell_of_same {k k' : Kernel} (hf : k'.faces.length = k.faces.length) (hc : k'.cells = k.cells)
    (hd : k'.cDel = k.cDel) (h : k.oneCell = true) : k'.oneCell = true :=
  oneCell_of_sub hf hc (fun c hc' => by unfold cDeleted at *; rwa [hd] at hc') h

/-- **erasing the slot of a dead (flagged, hence unlinked) edge and renumbering keeps `WF`** — the
    non-fast branch of `delete_edge_core` after the unlink (cc:1090-1180) -/
theorem wf_eraseEdge_dead {k : Kernel} {h : Nat} (hw : WF k) (ok : EraseEdgeOK k h) : WF (k.eraseEdge h) := by
  have hfaces := eraseEdge_faces hw ok
  have hnHE := eraseEdge_nHE k h ok.lt
  refine ⟨lenInv_eraseEdge _ _ hw.len, ?_, ⟨?_, ?_, ?_⟩⟩
  · constructor
    · intro e he
      rw [eraseEdge_edges] at he
      simpa using hw.range.edges e (List.mem_of_mem_eraseIdx he)
    · intro c hc a ha
      rw [hfaces] at hc
      obtain ⟨c0, hc0, rfl⟩ := List.mem_map.mp hc
      obtain ⟨a0, ha0, rfl⟩ := List.mem_map.mp ha
      rw [hnHE]
      exact corr2_lt h a0 k.nE ok.lt (ok.unref c0 hc0 a0 ha0) (hw.range.faces c0 hc0 a0 ha0)
    · have : (k.eraseEdge h).nHF = k.nHF := by unfold nHF; rw [hfaces, List.length_map]
      rw [this, eraseEdge_cells]; exact hw.range.cells
  · intro hb
    have hb' : k.vBU = true := by simpa using hb
    obtain ⟨hl, hs⟩ := hw.cache.v hb'
    have hinc : (k.eraseEdge h).outHes = k.outHes.map (·.map (corr2 (2 * h + 1))) := by
      unfold eraseEdge; simp [ok.fast, hb', heOf]
    refine ⟨by rw [hinc, List.length_map]; simpa using hl, fun v hv => ?_⟩
    have hv' : v < k.nV := by simpa using hv
    rw [eraseEdge_sOut ok.lt ok.dead]
    have : (k.eraseEdge h).outOf v = (k.outOf v).map (corr2 (2 * h + 1)) := by
      unfold outOf; rw [hinc]; exact k4_getD_map_list _ _ _
    rw [this]
    exact (hs v hv').map _
  · intro hb
    have hb' : k.eBU = true := by simpa using hb
    obtain ⟨hl, hs⟩ := hw.cache.e hb'
    have hinc : (k.eraseEdge h).incHfs = (k.incHfs.eraseIdx (2 * h + 1)).eraseIdx (2 * h) := by
      unfold eraseEdge; simp [hb', heOf]
    refine ⟨by rw [hinc]; unfold nHE at hl ⊢; rw [eraseEdge_edges]; exact length_erase_pair _ _ h hl, fun y hy => ?_⟩
    rw [hnHE] at hy
    have hy' : up2 h y < k.nHE := by unfold nHE; exact (up2_lt h y _ ok.lt).mpr hy
    have hco : (k.eraseEdge h).hfsOf y = k.hfsOf (up2 h y) := by
      unfold hfsOf; rw [hinc]; exact getD_eraseIdx2 _ _ _ _
    rw [hco]
    refine (hs _ hy').trans (List.Perm.of_eq ?_)
    rw [sHfsOfHe_eq, sHfsOfHe_eq]
    have hlf : (k.eraseEdge h).liveFaces = k.liveFaces := by
      unfold liveFaces nF fDeleted; rw [eraseEdge_fDel, hfaces, List.length_map]
    rw [hlf]
    congr 1
    funext f
    exact (eraseEdge_hfBlock hw ok _ f).symm
  · exact cacheInvF_of_eq (by simp) (by simp) (by rw [hfaces, List.length_map]) (by simp) (by simp) hw.cache.f

theorem oneCell_eraseEdge {k : Kernel} {h : Nat} (hw : WF k) (ok : EraseEdgeOK k h) (h1 : k.oneCell = true) :
    (k.eraseEdge h).oneCell = true :=
  oneCell_of_same (by rw [eraseEdge_faces hw ok, List.length_map]) (by simp) (by simp) h1

theorem eraseEdge_flag_irrelevant (k : Kernel) (h : Nat) (b : Bool) :
    ({ k with eDel := k.eDel.set h b } : Kernel).eraseEdge h = k.eraseEdge h := by
  unfold eraseEdge liveFaces fDeleted nF
  simp only [k4_eraseIdx_set_same]

/-! ## vertices -/

/-- hypotheses of the vertex erase stage: the slot exists, every edge is live, no stored edge touches the
    vertex.  (No mode hypothesis: `delete_vertex_core` shifts the vertex handles of the edges in both
    modes, cc:961-1003; in fast mode the victim is the last vertex and the shift is the identity.) -/
structure EraseVertexOK (k : Kernel) (h : Nat) : Prop where
  lt : h < k.nV
  edgesLive : ∀ e, e < k.nE → k.eDeleted e = false
  unref : ∀ e ∈ k.edges, e.1 ≠ h ∧ e.2 ≠ h

/-- a fold of `modify · g` with an idempotent `g` over an arbitrary index list -/
theorem k4_foldl_modify_idem {α} (g : α → α) (hg : ∀ a, g (g a) = g a) (L : List Nat) (l : List α) (x : Nat) :
    (L.foldl (fun m i => m.modify i g) l)[x]? = if x ∈ L then l[x]?.map g else l[x]? := by
  induction L generalizing l with
  | nil => simp
  | cons a t ih =>
    simp only [List.foldl_cons]
    rw [ih, List.getElem?_modify]
    by_cases hxa : a = x
    · subst hxa
      by_cases hxt : a ∈ t
      · simp only [hxt, if_true, List.mem_cons, true_or]
        cases l[a]? with
        | none => rfl
        | some v => simp [hg]
      · simp [hxt]
    · have : x ≠ a := fun e => hxa e.symm
      simp [hxa, this]

theorem k4_foldl_modify_idem_eq_map {α} (g : α → α) (hg : ∀ a, g (g a) = g a) (L : List Nat) (l : List α)
    (hcov : ∀ i (hi : i < l.length), i ∉ L → g l[i] = l[i]) :
    L.foldl (fun m i => m.modify i g) l = l.map g := by
  apply List.ext_getElem?
  intro i
  rw [k4_foldl_modify_idem g hg, List.getElem?_map]
  split
  · rfl
  · rename_i hni
    cases hl : l[i]? with
    | none => rfl
    | some a =>
      have hi : i < l.length := by
        rcases Nat.lt_or_ge i l.length with h | h
        · exact h
        · rw [List.getElem?_eq_none h] at hl; cases hl
      have : l[i] = a := by rw [List.getElem?_eq_getElem hi] at hl; exact Option.some.inj hl
      simp only [Option.map_some]; rw [← this, hcov i hi hni]

/-- vertex relabelling after the sweep has passed the handles below `i` -/
def relV (h i p : Nat) : Nat := if h < p ∧ p < i then p - 1 else p
/-- one step of cc:965-978 on an edge -/
def stepV (i : Nat) (e : Nat × Nat) : Nat × Nat := (if e.1 == i then i - 1 else e.1, if e.2 == i then i - 1 else e.2)

theorem stepV_idem (i : Nat) (e : Nat × Nat) : stepV i (stepV i e) = stepV i e := by
  have key : ∀ a : Nat, (if (if a == i then i - 1 else a) == i then i - 1 else (if a == i then i - 1 else a)) =
      if a == i then i - 1 else a := by
    intro a
    by_cases h1 : a = i
    · simp [h1]
    · simp [h1]
  unfold stepV
  simp only [key]

theorem mem_outOf_of_from {k : Kernel} (hw : WF k) (hb : k.vBU = true) {e i : Nat} (hl : k.liveE e = true)
    (hi : i < k.nV) : ((k.edgeAt e).1 = i → 2 * e ∈ k.outOf i) ∧ ((k.edgeAt e).2 = i → 2 * e + 1 ∈ k.outOf i) := by
  have hp := (hw.cache.v hb).2 i hi
  constructor
  · intro h1
    apply hp.mem_iff.mpr
    rw [mem_sOut_iff]
    exact ⟨by rw [show eOf (2 * e) = e by unfold eOf; omega]; exact hl, by rw [fromV_even]; exact h1⟩
  · intro h1
    apply hp.mem_iff.mpr
    rw [mem_sOut_iff]
    exact ⟨by rw [show eOf (2 * e + 1) = e by unfold eOf; omega]; exact hl, by rw [fromV_odd']; exact h1⟩

theorem k4_edgeAt_mem {k : Kernel} {e : Nat} (he : e < k.nE) : k.edgeAt e ∈ k.edges := by
  unfold edgeAt nE at *
  rw [List.getD_eq_getElem?_getD, List.getElem?_eq_getElem he]; simp

theorem relV_id (h i q : Nat) (hi : i ≤ h + 1) : relV h i q = q := by
  unfold relV
  have : ¬ (h < q ∧ q < i) := by omega
  simp [this]

theorem relV_step (h i p : Nat) (hi : h < i) : (if relV h i p == i then i - 1 else relV h i p) = relV h (i + 1) p := by
  unfold relV
  by_cases h1 : p = i
  · subst h1
    have a1 : ¬ (h < p ∧ p < p) := by omega
    have a2 : h < p ∧ p < p + 1 := by omega
    simp [a2]
  · by_cases h2 : h < p ∧ p < i
    · have a2 : h < p ∧ p < i + 1 := by omega
      have a3 : p - 1 ≠ i := by omega
      simp [h2, a2, a3]
    · have a2 : ¬ (h < p ∧ p < i + 1) := by omega
      simp [h2, a2, h1]

/-- the cache-guided relabelling loop of `delete_vertex_core` (cc:965-978) renames exactly like the
    handle correction, provided every edge is live and none touches the erased vertex -/
theorem shiftVertsBU_eq_map {k : Kernel} {h : Nat} (hw : WF k) (hb : k.vBU = true) (ok : EraseVertexOK k h) :
    k.shiftVertsBU h = k.edges.map (fun p => (corr1 h p.1, corr1 h p.2)) := by
  have hliveAll : ∀ i, i < k.edges.length → k.liveE i = true := by
    intro i hi; unfold liveE; simp [show i < k.nE from hi, ok.edgesLive i hi]
  have hout : k.outOf h = [] := by
    have hp := (hw.cache.v hb).2 h ok.lt
    have : k.sOut h = [] := by
      rw [List.eq_nil_iff_forall_not_mem]
      intro x hx
      obtain ⟨hl, hf⟩ := (mem_sOut_iff k h x).mp hx
      have hlt : eOf x < k.nE := by unfold liveE at hl; simp at hl; exact hl.1
      have hm := ok.unref _ (k4_edgeAt_mem hlt)
      unfold fromV halfedge at hf
      split at hf
      · exact hm.1 hf
      · exact hm.2 hf
    rw [this] at hp; exact hp.eq_nil
  -- the state of the edge array after the sweep has handled the vertices `h, …, h+n-1`
  have key : ∀ n, n ≤ k.nV - h →
      ((List.range n).map (· + h)).foldl (fun ed i =>
        (k.outOf i).foldl (fun ed he =>
          ed.modify (eOf he) (fun e => (if e.1 == i then i - 1 else e.1, if e.2 == i then i - 1 else e.2))) ed) k.edges =
        k.edges.map (fun p => (relV h (h + n) p.1, relV h (h + n) p.2)) := by
    intro n
    induction n with
    | zero =>
      intro _
      simp only [List.range_zero, List.map_nil, List.foldl_nil, Nat.add_zero]
      conv => lhs; rw [← List.map_id k.edges]
      apply List.map_congr_left
      intro p _
      simp [relV_id h h _ (by omega)]
    | succ m ih =>
      intro hm
      rw [List.range_succ, List.map_append, List.foldl_append, ih (by omega)]
      simp only [List.map_cons, List.map_nil, List.foldl_cons, List.foldl_nil]
      by_cases hm0 : m = 0
      · subst hm0
        simp only [Nat.zero_add, hout, List.foldl_nil]
        apply List.map_congr_left
        intro p _
        rw [relV_id h (h + 0) _ (by omega), relV_id h (h + 0) _ (by omega), relV_id h (h + (0 + 1)) _ (by omega),
          relV_id h (h + (0 + 1)) _ (by omega)]
      · have hi : h < m + h := by omega
        have hfold : ∀ ed : List (Nat × Nat), (k.outOf (m + h)).foldl (fun ed he =>
            ed.modify (eOf he) (fun e => (if e.1 == m + h then m + h - 1 else e.1, if e.2 == m + h then m + h - 1 else e.2))) ed =
            ((k.outOf (m + h)).map eOf).foldl (fun ed j => ed.modify j (stepV (m + h))) ed := by
          intro ed; rw [List.foldl_map]; rfl
        rw [hfold, k4_foldl_modify_idem_eq_map (stepV (m + h)) (stepV_idem _)]
        · rw [List.map_map]
          apply List.map_congr_left
          intro p _
          simp only [Function.comp, stepV]
          rw [show h + m = m + h by omega, relV_step h (m + h) p.1 hi, relV_step h (m + h) p.2 hi,
            show h + (m + 1) = m + h + 1 by omega]
        · intro j hj hnj
          rw [List.length_map] at hj
          simp only [List.getElem_map]
          have hlj := hliveAll j hj
          have hmem := mem_outOf_of_from hw hb hlj (show m + h < k.nV by omega)
          have hej : k.edgeAt j = k.edges[j] := by
            unfold edgeAt; rw [List.getD_eq_getElem?_getD, List.getElem?_eq_getElem hj]; rfl
          rw [hej] at hmem
          have h1 : (k.edges[j]).1 ≠ m + h := fun e => hnj (List.mem_map.mpr ⟨2 * j, hmem.1 e, by unfold eOf; omega⟩)
          have h2 : (k.edges[j]).2 ≠ m + h := fun e => hnj (List.mem_map.mpr ⟨2 * j + 1, hmem.2 e, by unfold eOf; omega⟩)
          have r1 : relV h (h + m) (k.edges[j]).1 ≠ m + h := by unfold relV; split <;> omega
          have r2 : relV h (h + m) (k.edges[j]).2 ≠ m + h := by unfold relV; split <;> omega
          simp [stepV, r1, r2]
  unfold shiftVertsBU
  rw [key (k.nV - h) (Nat.le_refl _)]
  apply List.map_congr_left
  intro p hp
  have := hw.range.edges p hp
  have e1 : ∀ q, q < k.nV → relV h (h + (k.nV - h)) q = corr1 h q := by
    intro q hq; unfold relV corr1
    have := ok.lt
    by_cases a : q > h
    · have : h < q ∧ q < h + (k.nV - h) := by omega
      simp [a, this]
    · have : ¬ (h < q ∧ q < h + (k.nV - h)) := by omega
      simp [a]
  rw [e1 _ this.1, e1 _ this.2]

theorem k4_flatMap_congr {α β} {l : List α} {f g : α → List β} (h : ∀ x ∈ l, f x = g x) :
    l.flatMap f = l.flatMap g := by
  induction l with
  | nil => rfl
  | cons a t ih =>
    simp only [List.flatMap_cons]
    rw [h a (by simp), ih (fun x hx => h x (by simp [hx]))]

/-- the edges after `delete_vertex_core`'s relabelling (either variant) -/
theorem eraseVertex_edges {k : Kernel} {h : Nat} (hw : WF k) (ok : EraseVertexOK k h) :
    (k.eraseVertex h).edges = k.edges.map (fun p => (corr1 h p.1, corr1 h p.2)) := by
  unfold eraseVertex
  simp only
  split
  · rename_i hb; exact shiftVertsBU_eq_map hw hb ok
  · apply k4_foldl_modify_eq_map _ _ (List.Pairwise.sublist List.filter_sublist List.nodup_range)
    intro i hi hni
    exfalso; apply hni
    simp [show i < k.nE from hi, ok.edgesLive i hi]

theorem eraseVertex_edgeAt {k : Kernel} {h : Nat} (hw : WF k) (ok : EraseVertexOK k h) (e : Nat) :
    (k.eraseVertex h).edgeAt e = (corr1 h (k.edgeAt e).1, corr1 h (k.edgeAt e).2) := by
  unfold edgeAt
  rw [eraseVertex_edges hw ok]
  simp only [List.getD_eq_getElem?_getD, List.getElem?_map]
  cases k.edges[e]? with
  | none => simp [corr1]
  | some p => rfl

theorem eraseVertex_fromV {k : Kernel} {h : Nat} (hw : WF k) (ok : EraseVertexOK k h) (x : Nat) :
    (k.eraseVertex h).fromV x = corr1 h (k.fromV x) := by
  unfold fromV halfedge
  simp only [eraseVertex_edgeAt hw ok]
  split <;> rfl

/-- **erasing a vertex slot that no stored edge touches, and renumbering, keeps `WF`** — the erase stage
    of `delete_vertex_core` (cc:961-1015), both the cache-guided and the linear-scan relabelling.  The
    vertex's own deleted flag plays no role (no scan reads it). -/
theorem wf_eraseVertex {k : Kernel} {h : Nat} (hw : WF k) (ok : EraseVertexOK k h) : WF (k.eraseVertex h) := by
  have hedges := eraseVertex_edges hw ok
  have hnE : (k.eraseVertex h).edges.length = k.edges.length := by rw [hedges, List.length_map]
  refine ⟨lenInv_eraseVertex _ _ hw.len ok.lt, ?_, ⟨?_, ?_, ?_⟩⟩
  · constructor
    · intro e he
      rw [hedges] at he
      obtain ⟨p, hp, rfl⟩ := List.mem_map.mp he
      have hr := hw.range.edges p hp
      have hu := ok.unref p hp
      rw [eraseVertex_nV]
      exact ⟨corr1_lt h _ _ ok.lt hu.1 hr.1, corr1_lt h _ _ ok.lt hu.2 hr.2⟩
    · unfold nHE; rw [hnE, eraseVertex_faces]; exact hw.range.faces
    · unfold nHF; rw [eraseVertex_faces, eraseVertex_cells]; exact hw.range.cells
  · intro hb
    have hb' : k.vBU = true := by simpa using hb
    obtain ⟨hl, hs⟩ := hw.cache.v hb'
    have hinc : (k.eraseVertex h).outHes = k.outHes.eraseIdx h := by
      unfold eraseVertex; simp [hb']
    refine ⟨by rw [hinc, eraseVertex_nV, List.length_eraseIdx, hl, if_pos ok.lt], fun v hv => ?_⟩
    rw [eraseVertex_nV] at hv
    have hv' : up h v < k.nV := (up_lt h v _ ok.lt).mpr hv
    have hco : (k.eraseVertex h).outOf v = k.outOf (up h v) := by
      unfold outOf; rw [hinc]; exact getD_eraseIdx _ _ _ _
    rw [hco]
    refine (hs _ hv').trans (List.Perm.of_eq ?_)
    rw [sOut_eq, sOut_eq]
    have hle : (k.eraseVertex h).liveEdges = k.liveEdges := by
      unfold liveEdges nE eDeleted; rw [hnE, eraseVertex_eDel]
    rw [hle]
    apply k4_flatMap_congr
    intro e he
    have hlt : e < k.nE := by have := (mem_liveEdges k e).mp he; unfold liveE at this; simp at this; exact this.1
    have hu := ok.unref _ (k4_edgeAt_mem hlt)
    unfold outBlock
    apply List.filter_congr
    intro x hx
    simp only [List.mem_cons, List.not_mem_nil, or_false] at hx
    rw [eraseVertex_fromV hw ok]
    have hne : k.fromV x ≠ h := by
      rcases hx with rfl | rfl
      · rw [fromV_even]; exact hu.1
      · rw [fromV_odd']; exact hu.2
    rw [Bool.eq_iff_iff]
    simp only [beq_iff_eq]
    constructor
    · intro e1; rw [e1, corr1_up]
    · intro e1; rw [← e1, up_corr1 h _ hne]
  · exact cacheInvE_of_eq (by simp) (by simp) hnE (by simp) (by simp) hw.cache.e
  · exact cacheInvF_of_eq (by simp) (by simp) (by simp) (by simp) (by simp) hw.cache.f

theorem oneCell_eraseVertex {k : Kernel} {h : Nat} (h1 : k.oneCell = true) : (k.eraseVertex h).oneCell = true :=
  oneCell_of_same (by simp) (by simp) (by simp) h1

theorem eraseVertex_flag_irrelevant (k : Kernel) (h : Nat) (b : Bool) :
    ({ k with vDel := k.vDel.set h b } : Kernel).eraseVertex h = k.eraseVertex h := by
  unfold eraseVertex shiftVertsBU liveEdges eDeleted nE outOf
  simp only [k4_eraseIdx_set_same]

end Kernel
end OVM

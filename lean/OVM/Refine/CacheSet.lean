import OVM.Refine.CacheSwap
import OVM.Refine.CacheAddCell
/-
  `set_edge` / `set_face` / `set_cell` (TopologyKernel.cc:508-605 in the current tree; model
  `Kernel.setEdge/setFace/setCell`, Kernel/Add.lean) keep `WF = LenInv ∧ RangeInv ∧ CacheInv`.

  What each function does to its cache: remove the half-entities of the entity from the slots
  named by the OLD definition, push them into the slots named by the NEW definition, then store
  the new definition.  Hypotheses of the three theorems, and why they cannot be dropped:

  * range (`e < nE`, `a b < nV`, `∀ h ∈ hes, h < nHE`, `∀ h ∈ hfs, h < nHF`): the C++ indexes its
    vectors with these handles unchecked (only the two vertices of `set_edge` are asserted,
    cc:510-511); they are also what `RangeInv` of the result says.
  * liveness (`eDeleted e = false`, …): the caches are compared with scans over the NOT-deleted
    entities only, and `set_*` pushes the half-entities into the caches without looking at the
    deleted flag (cc:508-605 has no such check; only the *vertices* of `set_edge` are asserted not
    deleted).  On a deferred-deleted entity the cache would list half-entities of a deleted entity:
    TESTs `setEdge_deleted_breaks`, `setFace_deleted_breaks`, `setCell_deleted_breaks` below.
  * `oneCell` before and after `set_cell`: `incident_cell_per_hf_` has room for one cell per
    halfface.  The old halffaces are cleared unconditionally (wrong if another live cell also uses
    one: TEST `setCell_shared_before_breaks`), the new ones overwritten unconditionally (wrong if
    another live cell already owns one: TEST `setCell_shared_after_breaks`).
  * `set_face` / `set_cell` do not re-order the fans (cc:574 "TODO: Reorder incident half-faces").
    Irrelevant here: `CacheInvE` is a `List.Perm` statement (the order is C09's subject).

  Proof shape (V and E caches): the remove part leaves `filter (eOf · != e)` of the old slot
  (every occurrence of a half-entity of `e` sits in a slot the loop visits, by the invariant), the
  add part appends the contribution of the new definition; on the scan side the live entities
  split into `e` and the rest (`k4s_replace_perm`), and the blocks of the rest do not change.
-/
namespace OVM
namespace Kernel
open ScanDel

/-! ### generic list facts -/
theorem k4s_perm_filter_ne {l : List Nat} (hn : l.Nodup) {e : Nat} (he : e ∈ l) :
    l.Perm (l.filter (· != e) ++ [e]) := by
  induction l with
  | nil => cases he
  | cons a t ih =>
    have hnd := List.nodup_cons.mp hn
    by_cases hae : a = e
    · subst hae
      have h1 : (a :: t).filter (· != a) = t := by
        rw [List.filter_cons]
        simp only [bne_self_eq_false, Bool.false_eq_true, if_false]
        apply List.filter_eq_self.mpr
        intro x hx
        have : x ≠ a := fun h => hnd.1 (h ▸ hx)
        simp [this]
      rw [h1]
      exact (List.perm_append_singleton a t).symm
    · have het : e ∈ t := by
        rcases List.mem_cons.mp he with h | h
        · exact absurd h.symm hae
        · exact h
      have h1 : (a :: t).filter (· != e) = a :: t.filter (· != e) := by
        rw [List.filter_cons]; simp [hae]
      rw [h1]
      exact List.Perm.cons a (ih hnd.2 het)

/-- replacing the contribution of one (listed once) entity `e`: the other blocks stay, the block
    of `e` is exchanged -/
theorem k4s_replace_perm {l : List Nat} (hn : l.Nodup) {e : Nat} (he : e ∈ l) (F G : Nat → List Nat)
    (hFG : ∀ x ∈ l, x ≠ e → F x = G x) :
    (l.flatMap F).Perm ((l.filter (· != e)).flatMap G ++ F e) := by
  have h1 := (k4s_perm_filter_ne hn he).flatMap_right F
  rw [List.flatMap_append] at h1
  have h2 : (l.filter (· != e)).flatMap F = (l.filter (· != e)).flatMap G := by
    apply flatMap_congr'
    intro x hx
    have := List.mem_filter.mp hx
    exact hFG x this.1 (by simpa using this.2)
  rw [h2] at h1
  simpa using h1

theorem k4s_liveEdges_nodup (k : Kernel) : k.liveEdges.Nodup := by
  unfold liveEdges; exact List.Pairwise.sublist List.filter_sublist List.nodup_range
theorem k4s_liveFaces_nodup (k : Kernel) : k.liveFaces.Nodup := by
  unfold liveFaces; exact List.Pairwise.sublist List.filter_sublist List.nodup_range

/-! ### set_edge -/
theorem cacheInvV_setEdge {k : Kernel} {e a b : Nat} (he : e < k.nE) (hlive : k.eDeleted e = false)
    (hw : WF k) : CacheInvV (k.setEdge e a b) := by
  intro hb0
  have hvb : k.vBU = true := hb0
  have hV1 : CacheInvV ((k.unlinkEdge e).flagEdge e) := cacheInvV_unlinkFlagEdge e hw.len.eDel hw.cache.v
  obtain ⟨hlen1, hperm1⟩ := hV1 (by simpa using hvb)
  have hout : (k.setEdge e a b).outHes =
      ((((k.unlinkEdge e).flagEdge e).outHes.modify a (· ++ [heOf e 0])).modify b (· ++ [heOf e 1])) := by
    unfold setEdge unlinkEdge
    simp only [hvb, if_true, flagEdge_outHes]
  have hlen1' : ((k.unlinkEdge e).flagEdge e).outHes.length = k.nV := by simpa using hlen1
  refine ⟨by show _ = k.nV; rw [hout]; simpa using hlen1', fun v hv => ?_⟩
  have hv' : v < k.nV := hv
  have hc : (k.setEdge e a b).outOf v = ((k.unlinkEdge e).flagEdge e).outOf v ++ (k.setEdge e a b).outC v e := by
    unfold outOf
    rw [hout, getD_modify2 _ _ _ _ _ _ (by rw [hlen1']; exact hv')]
    have hea : (k.setEdge e a b).edgeAt e = (a, b) := by
      unfold edgeAt setEdge
      simp only []
      rw [ScanDel.getD_set, if_pos ⟨rfl, he⟩]
    unfold outC
    rw [hea, heOf_zero_eq, heOf_one_eq]
  rw [hc]
  -- the scans
  have hmem : e ∈ k.liveEdges := by
    rw [mem_liveEdges]; unfold liveE; simp [he, hlive]
  have hl' : (k.setEdge e a b).liveEdges = k.liveEdges := by
    unfold liveEdges eDeleted nE setEdge; simp
  have hl1 : ((k.unlinkEdge e).flagEdge e).liveEdges = k.liveEdges.filter (· != e) := by
    unfold liveEdges eDeleted nE
    simp only [flagEdge_edges, unlinkEdge_edges, flagEdge_eDel, unlinkEdge_eDel]
    exact liveEdges_flag k e hw.len.eDel
  have hoc1 : ((k.unlinkEdge e).flagEdge e).outC v = k.outC v := by
    funext x; unfold outC edgeAt; simp
  have hs := k4s_replace_perm (k4s_liveEdges_nodup k) hmem ((k.setEdge e a b).outC v) (k.outC v) (by
    intro x _ hx
    unfold outC edgeAt setEdge
    simp only [List.getD_eq_getElem?_getD, List.getElem?_set]
    have : ¬ e = x := fun h => hx h.symm
    simp only [this, if_false])
  rw [sOut_flat, hl']
  refine List.Perm.trans ?_ hs.symm
  refine List.Perm.append_right _ ?_
  have := hperm1 v (by simpa using hv')
  rw [sOut_flat, hl1, hoc1] at this
  exact this

theorem rangeInv_setEdge {k : Kernel} {e a b : Nat} (ha : a < k.nV) (hb : b < k.nV) (hr : RangeInv k) :
    RangeInv (k.setEdge e a b) := by
  constructor
  · intro x hx
    have hx' : x ∈ k.edges.set e (a, b) := hx
    rcases List.mem_or_eq_of_mem_set hx' with h | h
    · exact hr.edges x h
    · subst h; exact ⟨ha, hb⟩
  · intro f hf h hh
    have : (k.setEdge e a b).nHE = k.nHE := by unfold nHE setEdge; simp
    rw [this]; exact hr.faces f hf h hh
  · exact hr.cells

theorem oneCell_setEdge (k : Kernel) (e a b : Nat) : (k.setEdge e a b).oneCell = k.oneCell := rfl

/-- **`set_edge` keeps the well-formedness invariant** on a live, existing edge with existing
    end vertices (cc:510-511 asserts the vertex range; `Edge& e = edge(_eh)`, cc:513, is an unchecked
    access, so `e < nE` is the caller's obligation in the C++ as well). -/
theorem wf_setEdge {k : Kernel} {e a b : Nat} (he : e < k.nE) (hlive : k.eDeleted e = false)
    (ha : a < k.nV) (hb : b < k.nV) (hw : WF k) : WF (k.setEdge e a b) :=
  ⟨lenInv_setEdge k e a b hw.len, rangeInv_setEdge ha hb hw.range,
   ⟨cacheInvV_setEdge he hlive hw,
    cacheInvE_of_eq (k := k) rfl rfl (by unfold setEdge; simp) rfl rfl hw.cache.e,
    cacheInvF_of_eq (k := k) rfl rfl rfl rfl rfl hw.cache.f⟩⟩

/-! ### set_face -/
/-- the remove loop of `set_face` (cc:554-566), seen at slot `y` -/
theorem k4s_unlinkLoop_getD (f : Nat) (l : List Nat) (inc : List (List Nat)) (y : Nat) :
    (l.foldl (fun inc h => (inc.modify h (removeAll · (heOf f 0))).modify (opp h) (removeAll · (heOf f 1))) inc).getD y [] =
      (inc.getD y []).filter (fun x => l.all (fun he => unlinkQ f he y x)) := by
  induction l generalizing inc with
  | nil =>
    simp only [List.foldl_nil, List.all_nil]
    exact (List.filter_eq_self.mpr (fun _ _ => rfl)).symm
  | cons a t ih =>
    simp only [List.foldl_cons, List.all_cons]
    rw [ih]
    have : ((inc.modify a (removeAll · (heOf f 0))).modify (opp a) (removeAll · (heOf f 1))).getD y [] =
        (inc.getD y []).filter (unlinkQ f a y) := unlinkInc_getD f a inc y
    rw [this, List.filter_filter]
    apply List.filter_congr
    intro x _
    rw [Bool.and_comm]

theorem k4s_hfC_eOf (hes : List Nat) (f y : Nat) : ∀ x ∈ hfC hes f y, eOf x = f := by
  intro x hx
  unfold hfC at hx
  simp only [List.mem_append, List.mem_replicate] at hx
  unfold eOf; rcases hx with h | h <;> omega

theorem cacheInvE_setFace {k : Kernel} {f : Nat} {hes : List Nat} (hf : f < k.nF) (hlive : k.fDeleted f = false)
    (hw : WF k) : CacheInvE (k.setFace f hes) := by
  intro hb0
  have heb : k.eBU = true := hb0
  obtain ⟨hlen, hperm⟩ := hw.cache.e heb
  have hinc : (k.setFace f hes).incHfs = faceLoop f hes ((k.faceAt f).foldl (fun inc h =>
      (inc.modify h (removeAll · (heOf f 0))).modify (opp h) (removeAll · (heOf f 1))) k.incHfs) := by
    unfold setFace faceLoop
    simp only [heb, if_true]
  have hRlen : ((k.faceAt f).foldl (fun inc h =>
      (inc.modify h (removeAll · (heOf f 0))).modify (opp h) (removeAll · (heOf f 1))) k.incHfs).length = k.nHE := by
    rw [length_foldl_modify2 opp]; exact hlen
  refine ⟨by show _ = k.nHE; rw [hinc, faceLoop_length]; exact hRlen, fun y hy => ?_⟩
  have hy' : y < k.nHE := hy
  -- the cache slot
  have hrem : ∀ x ∈ k.hfsOf y, (k.faceAt f).all (fun he => unlinkQ f he y x) = (eOf x != f) := by
    intro x hx
    by_cases hxe : eOf x = f
    · have hr : (eOf x != f) = false := by simp [hxe]
      rw [hr]
      have hyx : y ∈ k.hfHes x := ((mem_sHfsOfHe k y x).mp ((hperm y hy').mem_iff.mp hx)).2
      have hcase : x = 2 * f ∨ x = 2 * f + 1 := by unfold eOf at hxe; omega
      rw [List.all_eq_false]
      rcases hcase with e | e
      · subst e
        rw [hfHes_two_mul] at hyx
        exact ⟨y, hyx, by simp [unlinkQ]⟩
      · subst e
        rw [hfHes_two_mul_succ] at hyx
        unfold oppFace at hyx
        simp only [List.mem_map, List.mem_reverse] at hyx
        obtain ⟨he, hhe, rfl⟩ := hyx
        exact ⟨he, hhe, by simp [unlinkQ]⟩
    · have hr : (eOf x != f) = true := by simp [hxe]
      rw [hr, List.all_eq_true]
      intro he _
      exact unlinkQ_off f he y x hxe
  have hc : (k.setFace f hes).hfsOf y = (k.hfsOf y).filter (fun x => eOf x != f) ++
      hes.flatMap (fun h => (if h == y then [2 * f] else []) ++ (if opp h == y then [2 * f + 1] else [])) := by
    unfold hfsOf
    rw [hinc, faceLoop_getD _ _ _ _ (by rw [hRlen]; exact hy'), k4s_unlinkLoop_getD]
    congr 1
    exact List.filter_congr hrem
  rw [hc]
  -- the scan
  have hmem : f ∈ k.liveFaces := by
    rw [mem_liveFaces]; unfold liveF; simp [hf, hlive]
  have hl' : (k.setFace f hes).liveFaces = k.liveFaces := by
    unfold liveFaces fDeleted nF setFace; simp
  have hfa : (k.setFace f hes).faceAt f = hes := by
    unfold faceAt setFace
    simp only []
    rw [ScanDel.getD_set, if_pos ⟨rfl, hf⟩]
  have hs := k4s_replace_perm (k4s_liveFaces_nodup k) hmem (fun f' => hfC ((k.setFace f hes).faceAt f') f' y)
    (fun f' => hfC (k.faceAt f') f' y) (by
      intro x _ hx
      have : (k.setFace f hes).faceAt x = k.faceAt x := by
        unfold faceAt setFace
        simp only []
        rw [ScanDel.getD_set, if_neg (fun h => hx h.1.symm)]
      simp only [this])
  simp only [hfa] at hs
  rw [sHfsOfHe_flat, hl']
  refine List.Perm.trans ?_ hs.symm
  refine List.Perm.append ?_ (faceLoop_perm f hes y)
  have h1 := (hperm y hy').filter (fun x => eOf x != f)
  rw [sHfsOfHe_flat] at h1
  rw [filter_flatMap_key k.liveFaces (fun f' => hfC (k.faceAt f') f' y) eOf (· != f)
    (fun a => k4s_hfC_eOf (k.faceAt a) a y)] at h1
  exact h1

theorem rangeInv_setFace {k : Kernel} {f : Nat} {hes : List Nat} (hr : ∀ h ∈ hes, h < k.nHE) (hR : RangeInv k) :
    RangeInv (k.setFace f hes) := by
  constructor
  · exact hR.edges
  · intro x hx
    have hx' : x ∈ k.faces.set f hes := hx
    rcases List.mem_or_eq_of_mem_set hx' with h | h
    · exact hR.faces x h
    · subst h; exact hr
  · intro c hc h hh
    have : (k.setFace f hes).nHF = k.nHF := by unfold nHF setFace; simp
    rw [this]; exact hR.cells c hc h hh

theorem oneCell_setFace (k : Kernel) (f : Nat) (hes : List Nat) : (k.setFace f hes).oneCell = k.oneCell := by
  unfold oneCell nHF liveCells nC cDeleted cellAt setFace; simp

/-- **`set_face` keeps the well-formedness invariant** on a live, existing face whose new
    halfedges exist (`incident_hfs_per_he_[*he_it]` is an unchecked access, cc:570-571). -/
theorem wf_setFace {k : Kernel} {f : Nat} {hes : List Nat} (hf : f < k.nF) (hlive : k.fDeleted f = false)
    (hr : ∀ h ∈ hes, h < k.nHE) (hw : WF k) : WF (k.setFace f hes) :=
  ⟨lenInv_setFace k f hes hw.len, rangeInv_setFace hr hw.range,
   ⟨cacheInvV_of_eq (k := k) rfl rfl rfl rfl rfl hw.cache.v,
    cacheInvE_setFace hf hlive hw,
    cacheInvF_of_eq (k := k) rfl rfl (by unfold setFace; simp) rfl rfl hw.cache.f⟩⟩

/-! ### set_cell -/
/-- a loop of unconditional writes of one value (both loops of `set_cell`, cc:590-601) -/
theorem k4s_setLoop_getD (v : Option Nat) (hfs : List Nat) (ic : List (Option Nat)) (x : Nat) :
    (hfs.foldl (fun ic hf => ic.set hf v) ic).getD x none =
      if x ∈ hfs ∧ x < ic.length then v else ic.getD x none := by
  induction hfs generalizing ic with
  | nil => simp only [List.foldl_nil, List.not_mem_nil, false_and, if_false]
  | cons a t ih =>
    simp only [List.foldl_cons]
    rw [ih, ScanDel.getD_set, List.length_set]
    by_cases hxl : x < ic.length
    · by_cases hxt : x ∈ t
      · rw [if_pos ⟨hxt, hxl⟩, if_pos ⟨List.mem_cons_of_mem _ hxt, hxl⟩]
      · by_cases hax : a = x
        · subst hax
          rw [if_neg (fun h => hxt h.1), if_pos ⟨rfl, hxl⟩, if_pos ⟨List.mem_cons_self, hxl⟩]
        · have h3 : ¬ (x ∈ a :: t ∧ x < ic.length) := by
            intro h
            rcases List.mem_cons.mp h.1 with e | e
            · exact hax e.symm
            · exact hxt e
          rw [if_neg (fun h => hxt h.1), if_neg (fun h => hax h.1), if_neg h3]
    · have h2 : ¬ (a = x ∧ a < ic.length) := fun h => hxl (h.1 ▸ h.2)
      have h3 : ¬ (x ∈ a :: t ∧ x < ic.length) := fun h => hxl h.2
      rw [if_neg (fun h => hxl h.2), if_neg h2, if_neg h3]

theorem cacheInvF_setCell {k : Kernel} {c : Nat} {hfs : List Nat} (hc : c < k.nC) (hlive : k.cDeleted c = false)
    (hw : WF k) (h1 : k.oneCell = true) (h1' : (k.setCell c hfs).oneCell = true) :
    CacheInvF (k.setCell c hfs) := by
  intro hb0
  have hfb : k.fBU = true := hb0
  have hF := hw.cache.f
  obtain ⟨hlen, hslots⟩ := hF hfb
  have hinc : (k.setCell c hfs).incCell =
      hfs.foldl (fun ic hf => ic.set hf (some c)) ((k.cellAt c).foldl (fun ic hf => ic.set hf none) k.incCell) := by
    unfold setCell; simp only [hfb, if_true]
  refine ⟨by show _ = k.nHF; rw [hinc, length_foldl_set_opt, length_foldl_set_opt]; exact hlen, fun x hx => ?_⟩
  have hx' : x < k.nHF := hx
  have hxl : x < k.incCell.length := by rw [hlen]; exact hx'
  -- the definitions and the liveness after the update
  have hca : (k.setCell c hfs).cellAt c = hfs := by
    unfold cellAt setCell
    simp only []
    rw [ScanDel.getD_set, if_pos ⟨rfl, hc⟩]
  have hca' : ∀ c', c' ≠ c → (k.setCell c hfs).cellAt c' = k.cellAt c' := by
    intro c' hne
    unfold cellAt setCell
    simp only []
    rw [ScanDel.getD_set, if_neg (fun h => hne h.1.symm)]
  have hlv : ∀ c', (k.setCell c hfs).liveC c' = k.liveC c' := by
    intro c'; unfold liveC nC cDeleted setCell; simp
  have hlc : k.liveC c = true := by unfold liveC; simp [hc, hlive]
  -- the cache slot
  have hco : (k.setCell c hfs).cellOf x =
      if x ∈ hfs then some c else if x ∈ k.cellAt c then none else k.cellOf x := by
    unfold cellOf
    rw [hinc, k4s_setLoop_getD, k4s_setLoop_getD, length_foldl_set_opt]
    by_cases a1 : x ∈ hfs
    · rw [if_pos ⟨a1, hxl⟩, if_pos a1]
    · rw [if_neg (fun h => a1 h.1), if_neg a1]
      by_cases a2 : x ∈ k.cellAt c
      · rw [if_pos ⟨a2, hxl⟩, if_pos a2]
      · rw [if_neg (fun h => a2 h.1), if_neg a2]
  rw [hco]
  by_cases a1 : x ∈ hfs
  · rw [if_pos a1]
    symm
    exact sCellOf_of_mem h1' hx (by rw [hlv]; exact hlc) (by rw [hca]; exact a1)
  · rw [if_neg a1]
    by_cases a2 : x ∈ k.cellAt c
    · rw [if_pos a2]
      symm
      rw [sCellOf_none_iff]
      intro c' hl' hm
      rw [hlv] at hl'
      by_cases hcc : c' = c
      · subst hcc; rw [hca] at hm; exact a1 hm
      · rw [hca' c' hcc] at hm
        exact hcc (oneCell_unique h1 hx' hl' hlc hm a2)
    · rw [if_neg a2, hslots x hx']
      cases hs : k.sCellOf x with
      | none =>
        symm
        rw [sCellOf_none_iff]
        intro c' hl' hm
        rw [hlv] at hl'
        by_cases hcc : c' = c
        · subst hcc; rw [hca] at hm; exact a1 hm
        · rw [hca' c' hcc] at hm
          exact (sCellOf_none_iff k x).mp hs c' hl' hm
      | some c0 =>
        obtain ⟨hl0, hm0⟩ := sCellOf_some hs
        have hne : c0 ≠ c := fun h => a2 (h ▸ hm0)
        symm
        exact sCellOf_of_mem h1' hx (by rw [hlv]; exact hl0) (by rw [hca' c0 hne]; exact hm0)

theorem rangeInv_setCell {k : Kernel} {c : Nat} {hfs : List Nat} (hr : ∀ h ∈ hfs, h < k.nHF) (hR : RangeInv k) :
    RangeInv (k.setCell c hfs) := by
  constructor
  · exact hR.edges
  · exact hR.faces
  · intro x hx
    have hx' : x ∈ k.cells.set c hfs := hx
    rcases List.mem_or_eq_of_mem_set hx' with h | h
    · exact hR.cells x h
    · subst h; exact hr

/-- **`set_cell` keeps the well-formedness invariant** on a live, existing cell whose new
    halffaces exist, if no halfface is shared by two live cells before and after. -/
theorem wf_setCell {k : Kernel} {c : Nat} {hfs : List Nat} (hc : c < k.nC) (hlive : k.cDeleted c = false)
    (hr : ∀ h ∈ hfs, h < k.nHF) (hw : WF k) (h1 : k.oneCell = true)
    (h1' : (k.setCell c hfs).oneCell = true) : WF (k.setCell c hfs) :=
  ⟨lenInv_setCell k c hfs hw.len, rangeInv_setCell hr hw.range,
   ⟨cacheInvV_of_eq (k := k) rfl rfl rfl rfl rfl hw.cache.v,
    cacheInvE_of_eq (k := k) rfl rfl rfl rfl rfl hw.cache.e,
    cacheInvF_setCell hc hlive hw h1 h1'⟩⟩

/-! ### non-vacuity: the three theorems apply to the tetrahedron state `tetK` -/
example : WF (tetK.setEdge 0 1 0) :=
  wf_setEdge (by decide) (by decide) (by decide) (by decide) wf_tetK
example : WF (tetK.setFace 0 [2, 4, 0]) :=
  wf_setFace (by decide) (by decide) (by decide) wf_tetK
example : WF (tetK.setCell 0 [3, 1, 7, 5]) :=
  wf_setCell (by decide) (by decide) (by decide) wf_tetK (by decide) (by decide)
/-- the definition really changes (the theorems are not about the identity) -/
example : (tetK.setEdge 0 1 0).edgeAt 0 = (1, 0) ∧ (tetK.setEdge 0 1 0).outOf 1 = [2, 9, 0] ∧
    (tetK.setFace 0 [2, 4, 0]).faceAt 0 = [2, 4, 0] ∧ (tetK.setCell 0 [3, 1, 7, 5]).cellAt 0 = [3, 1, 7, 5] := by
  decide

/-! ### TESTS (`decide` on samples): the hypotheses cannot be dropped.
  Each line: a state on which the executable invariant `cacheInvB` (Spec/Incidence.lean) holds,
  one `set_*` call violating exactly one hypothesis, `cacheInvB` fails afterwards. -/

/-- TEST.  liveness, `set_edge`: deferred `delete_edge(0)` on the tetrahedron (keeps `WF`:
    `defInv_deleteEdge`), then `set_edge(0, 0, 1)` with the SAME vertices: halfedges 0 and 1 are
    pushed back into `outgoing_hes_per_vertex_` although edge 0 is still flagged deleted. -/
theorem setEdge_deleted_breaks :
    (tetK.deleteEdge 0).cacheInvB = true ∧ (tetK.deleteEdge 0).eDeleted 0 = true ∧
      ((tetK.deleteEdge 0).setEdge 0 0 1).cacheInvB = false := by decide

/-- TEST.  liveness, `set_face`: same with deferred `delete_face(0)` and `set_face(0, {0,2,4})`. -/
theorem setFace_deleted_breaks :
    (tetK.deleteFace 0).cacheInvB = true ∧ (tetK.deleteFace 0).fDeleted 0 = true ∧
      ((tetK.deleteFace 0).setFace 0 [0, 2, 4]).cacheInvB = false := by decide

/-- TEST.  liveness, `set_cell`: same with deferred `delete_cell(0)` and `set_cell(0, {1,3,5,7})`. -/
theorem setCell_deleted_breaks :
    (tetK.deleteCell 0).cacheInvB = true ∧ (tetK.deleteCell 0).cDeleted 0 = true ∧
      ((tetK.deleteCell 0).setCell 0 [1, 3, 5, 7]).cacheInvB = false := by decide

/-- the tetrahedron with a second cell on the four opposite halffaces (`oneCell` holds) -/
def tetTwo : Kernel :=
  { tetK with
    cells := [[1, 3, 5, 7], [0, 2, 4, 6]], cDel := [false, false],
    incCell := [some 1, some 0, some 1, some 0, some 1, some 0, some 1, some 0] }

/-- TEST.  `oneCell` AFTER `set_cell`: cell 1 takes halfface 1, which cell 0 owns: the slot is
    overwritten with cell 1 while the scan still finds cell 0 first. -/
theorem setCell_shared_after_breaks :
    tetTwo.cacheInvB = true ∧ tetTwo.oneCell = true ∧ (tetTwo.setCell 1 [1, 2, 4, 6]).oneCell = false ∧
      (tetTwo.setCell 1 [1, 2, 4, 6]).cacheInvB = false := by decide

/-- two live cells sharing halfface 1 (`oneCell` fails; the cache holds the lower cell, as the scan does) -/
def tetShared : Kernel :=
  { tetK with
    cells := [[1, 3, 5, 7], [1, 2, 4, 6]], cDel := [false, false],
    incCell := [none, some 0, some 1, some 0, some 1, some 0, some 1, some 0] }

/-- TEST.  `oneCell` BEFORE `set_cell`: cell 1 gives halfface 1 up; its slot is cleared although
    live cell 0 still contains it (afterwards `oneCell` holds, so the other hypothesis is met). -/
theorem setCell_shared_before_breaks :
    tetShared.cacheInvB = true ∧ tetShared.oneCell = false ∧ (tetShared.setCell 1 [0, 2, 4, 6]).oneCell = true ∧
      (tetShared.setCell 1 [0, 2, 4, 6]).cacheInvB = false := by decide

end Kernel
end OVM

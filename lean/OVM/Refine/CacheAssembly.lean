import OVM.Refine.CacheStep
import OVM.Refine.CacheSet
import OVM.Refine.CacheClosed
import OVM.Refine.CacheImmediate
/-
  Assembly: one step of the driver vocabulary (`Kernel.step`, OVM/Kernel/Step.lean) keeps
  `SInv = WF ∧ oneCell` under an explicit per-operation side condition `OpOK` (`sinv_step_partial`), and so does
  every `HistoryOK` history (`sinv_run_partial`).  Uses: construction / mode switches — builder K1
  (CacheStep.lean, CacheMode.lean); deferred deletion, `swap_vertex/cell_indices`, fast immediate `delete_cell` —
  builder K2 (CacheDelete.lean, CacheSwap.lean); `set_*`, index-shifting immediate `delete_cell`,
  `collect_garbage`, index-shifting immediate `delete_face/edge/vertex` — this builder (CacheSet.lean, CacheErase.lean,
  CacheGC.lean, CacheImmediate.lean).
  What is NOT covered is listed at `sinv_step_partial`.
-/
namespace OVM
namespace Kernel
open ScanDel

/-- the invariant of the assembly: the cache invariant and C01's precondition -/
structure SInv (k : Kernel) : Prop where
  wf : WF k
  one : k.oneCell = true

/-- condition for an immediate `delete_face/edge/vertex` in this assembly: index-shifting mode and nothing
    flagged (in immediate mode flags never arise: `enable_deferred_deletion(false)` collects them first) -/
def ImmLive (k : Kernel) : Prop := k.fast = false ∧ CellsLive k ∧ FacesLive k ∧ EdgesLive k

/-- side conditions of one operation: arguments in range; the entity not deleted where the C++ links it
    unconditionally (`set_*`); C01's `oneCell` after the operations that can break it (`add_face`/`add_cell`/
    `set_cell`: "halffaces free and pairwise distinct"); on the deletion side the mode and, for
    `collect_garbage`, closure-consistent flags.  `False` = not covered by this assembly. -/
def OpOK (k : Kernel) : Op → Prop
  | .addVertex => True
  | .addNVertices _ => True
  | .addEdge a b _ => a < k.nV ∧ b < k.nV
  | .addFaceHe chk hes => (∀ h ∈ hes, h < k.nHE) ∧ (k.addFace hes chk).1.oneCell = true
  | .addFaceV vs => (∀ v ∈ vs, v < k.nV) ∧ (k.addFaceV vs).1.oneCell = true
  | .addCell chk hfs => (∀ hf ∈ hfs, hf < k.nHF) ∧ (k.addCell hfs chk).1.oneCell = true
  | .setEdge e a b => e < k.nE ∧ k.eDeleted e = false ∧ a < k.nV ∧ b < k.nV
  | .setFace f hes => f < k.nF ∧ k.fDeleted f = false ∧ ∀ h ∈ hes, h < k.nHE
  | .setCell c hfs => c < k.nC ∧ k.cDeleted c = false ∧ (∀ h ∈ hfs, h < k.nHF) ∧ (k.setCell c hfs).oneCell = true
  | .deleteVertex v => k.deferred = true ∨ (ImmLive k ∧ v < k.nV)
  | .deleteEdge e => k.deferred = true ∨ (ImmLive k ∧ e < k.nE)
  | .deleteFace f => k.deferred = true ∨ (ImmLive k ∧ f < k.nF)
  | .deleteCell c => k.deferred = true ∨ c < k.nC
  | .swapVertex a b => a < k.nV ∧ b < k.nV
  | .swapEdge _ _ => False
  | .swapFace _ _ => False
  | .swapCell a b => a < k.nC ∧ b < k.nC
  | .collectGarbage => k.deferred = false ∨ k.needsGC = false ∨ (k.fast = false ∧ Closed k)
  | .enableDeferred b => EnableDeferredNoGC k b ∨ (k.fast = false ∧ Closed k)
  | .enableFast _ => True
  | .enableBU _ _ => True
  | .clear _ => True

theorem oneCell_enableVBU (k : Kernel) (b : Bool) : (k.enableVBU b).oneCell = k.oneCell := by
  unfold enableVBU; split
  · split <;> rfl
  · rfl
theorem oneCell_enableEBU (k : Kernel) (b : Bool) : (k.enableEBU b).oneCell = k.oneCell := by
  unfold enableEBU; split
  · split
    · rfl
    · split
      · have f := reorderAll_frame ({ k with incHfs := k.computeEBU })
        exact oneCell_congr _ _ (by show (Kernel.reorderAll _).faces.length = _; rw [f.2.2.2.1])
          (by show (Kernel.reorderAll _).cells = _; rw [f.2.2.2.2.1]) (by show (Kernel.reorderAll _).cDel = _; rw [f.2.2.2.2.2.2.2.2.1])
      · rfl
  · rfl
theorem oneCell_enableFBU (k : Kernel) (b : Bool) : (k.enableFBU b).oneCell = k.oneCell := by
  unfold enableFBU; split
  · split
    · rfl
    · split
      · have f := reorderAll_frame ({ k with incCell := k.computeFBU, fBU := true })
        exact oneCell_congr _ _ (by rw [f.2.2.2.1]) (by rw [f.2.2.2.2.1]) (by rw [f.2.2.2.2.2.2.2.2.1])
      · rfl
  · rfl

theorem oneCell_clear (k : Kernel) (p : Bool) : (k.clear p).oneCell = true := by
  unfold oneCell clear nHF; simp

theorem oneCell_addEdge (k : Kernel) (a b : Nat) (d : Bool) : (k.addEdge a b d).1.oneCell = k.oneCell := by
  unfold addEdge; split
  · rfl
  · exact oneCell_congr _ _ (by simp) (by simp) (by simp)

theorem oneCell_deleteCellCore_fast {k : Kernel} {h : Nat} (hd : k.deferred = false) (hf : k.fast = true)
    (hh : h < k.nC) (hw : WF k) (h1 : k.oneCell = true) : (k.deleteCellCore h).oneCell = true := by
  rw [deleteCellCore_fast_eq h hd hf]
  have hlast : k.nC - 1 < k.nC := by omega
  have h11 := oneCell_swapCell hh hlast hw.len.cDel h1
  have hn : (k.swapCell h (k.nC - 1)).nC = k.nC := by unfold nC swapCell; split <;> simp
  have h12 : ((k.swapCell h (k.nC - 1)).unlinkCell (k.nC - 1)).oneCell = true :=
    oneCell_of_same (by simp) (by simp) (by simp) h11
  exact oneCell_eraseCell (by unfold nC at *; simp only [unlinkCell_cells]; omega) h12

/-- **one operation of the driver vocabulary keeps `WF ∧ oneCell`** under `OpOK`.
    `_partial` — not covered (`OpOK = False` or excluded by the mode condition): `swap_edge_indices`,
    `swap_face_indices` (builder K3, OVM/Refine/CacheSwapEF.lean); immediate (`deferred = false`)
    `delete_face/edge/vertex` in FAST mode (K3: OVM/Refine/CacheFastDelete.lean, CacheFastClosure.lean) — in
    index-shifting mode they are covered under `ImmLive` (nothing flagged; `Shift.immInv_delete*`,
    OVM/Refine/CacheImmediate.lean); `collect_garbage` (and the collecting `enable_deferred_deletion(false)`) in
    fast mode. -/
theorem sinv_step_partial (k : Kernel) (op : Op) (hi : SInv k) (hok : OpOK k op) : SInv (k.step op).1 := by
  cases op with
  | addVertex => exact ⟨wf_addVertex k hi.wf, (oneCell_congr k (k.addVertex).1 rfl rfl rfl).trans hi.one⟩
  | addNVertices n => exact ⟨wf_addNVertices k n hi.wf, (oneCell_congr k (k.addNVertices n) rfl rfl rfl).trans hi.one⟩
  | addEdge a b d => exact ⟨wf_addEdge k a b d hok.1 hok.2 hi.wf, (oneCell_addEdge k a b d).trans hi.one⟩
  | addFaceHe c hes => exact ⟨wf_addFace k hes c hok.1 hi.wf, hok.2⟩
  | addFaceV vs => exact ⟨wf_addFaceV k vs hok.1 hi.wf, hok.2⟩
  | addCell c hfs => exact ⟨wf_addCell_of_oneCell k hfs c hok.1 hok.2 hi.wf, hok.2⟩
  | setEdge e a b => exact ⟨wf_setEdge hok.1 hok.2.1 hok.2.2.1 hok.2.2.2 hi.wf, (oneCell_setEdge k e a b).trans hi.one⟩
  | setFace f hes => exact ⟨wf_setFace hok.1 hok.2.1 hok.2.2 hi.wf, (oneCell_setFace k f hes).trans hi.one⟩
  | setCell c hfs => exact ⟨wf_setCell hok.1 hok.2.1 hok.2.2.1 hi.wf hi.one hok.2.2.2, hok.2.2.2⟩
  | deleteVertex v =>
    by_cases hd : k.deferred = true
    · have := defInv_deleteVertex v ⟨hd, hi.wf, hi.one⟩; exact ⟨this.2.1, this.2.2⟩
    · have h : ImmLive k ∧ v < k.nV := by rcases hok with h | h; exact absurd h hd; exact h
      have := Shift.immInv_deleteVertex ⟨by simpa using hd, h.1.1, hi.wf, hi.one, h.1.2.1, h.1.2.2.1, h.1.2.2.2⟩ h.2
      exact ⟨this.wf, this.one⟩
  | deleteEdge v =>
    by_cases hd : k.deferred = true
    · have := defInv_deleteEdge v ⟨hd, hi.wf, hi.one⟩; exact ⟨this.2.1, this.2.2⟩
    · have h : ImmLive k ∧ v < k.nE := by rcases hok with h | h; exact absurd h hd; exact h
      have := Shift.immInv_deleteEdge ⟨by simpa using hd, h.1.1, hi.wf, hi.one, h.1.2.1, h.1.2.2.1, h.1.2.2.2⟩ h.2
      exact ⟨this.wf, this.one⟩
  | deleteFace v =>
    by_cases hd : k.deferred = true
    · have := defInv_deleteFace v ⟨hd, hi.wf, hi.one⟩; exact ⟨this.2.1, this.2.2⟩
    · have h : ImmLive k ∧ v < k.nF := by rcases hok with h | h; exact absurd h hd; exact h
      have := Shift.immInv_deleteFace ⟨by simpa using hd, h.1.1, hi.wf, hi.one, h.1.2.1, h.1.2.2.1, h.1.2.2.2⟩ h.2
      exact ⟨this.wf, this.one⟩
  | deleteCell c =>
    by_cases hd : k.deferred = true
    · have := defInv_deleteCell c ⟨hd, hi.wf, hi.one⟩; exact ⟨this.2.1, this.2.2⟩
    · have hd' : k.deferred = false := by simpa using hd
      have hc : c < k.nC := by rcases hok with h | h; exact absurd h hd; exact h
      by_cases hf : k.fast = true
      · exact ⟨wf_deleteCellCore_fast c hd' hf hc hi.wf hi.one, oneCell_deleteCellCore_fast hd' hf hc hi.wf hi.one⟩
      · have := wf_deleteCellCore_shift hd' (by simpa using hf) hc hi.wf hi.one
        exact ⟨this.1, this.2⟩
  | swapVertex a b =>
    exact ⟨wf_swapVertex hok.1 hok.2 hi.wf,
      oneCell_of_same (k := k) (k' := k.swapVertex a b) (by rw [swapVertex_faces]) (swapVertex_cells k a b) (swapVertex_cDel k a b) hi.one⟩
  | swapEdge _ _ => exact absurd hok (by simp [OpOK])
  | swapFace _ _ => exact absurd hok (by simp [OpOK])
  | swapCell a b => exact ⟨wf_swapCell hok.1 hok.2 hi.wf hi.one, oneCell_swapCell hok.1 hok.2 hi.wf.len.cDel hi.one⟩
  | collectGarbage =>
    show SInv k.collectGarbage
    rcases hok with h | h | h
    · have : k.collectGarbage = k := by unfold collectGarbage; simp [h]
      rw [this]; exact hi
    · have : k.collectGarbage = k := by unfold collectGarbage; simp [h]
      rw [this]; exact hi
    · have := wf_collectGarbage h.1 hi.wf hi.one h.2
      exact ⟨this.1, this.2.1⟩
  | enableDeferred b =>
    show SInv (k.enableDeferred b)
    by_cases hn : EnableDeferredNoGC k b
    · refine ⟨wf_enableDeferred k b hi.wf hn, ?_⟩
      unfold enableDeferred
      simp only []
      split
      · rename_i hc
        have hg : k.collectGarbage = k := by
          unfold collectGarbage
          split
          · rfl
          · rename_i hx
            exfalso; apply hn
            simp only [Bool.and_eq_true, Bool.not_eq_true'] at hc
            simp only [Bool.or_eq_true, Bool.not_eq_true', not_or, Bool.not_eq_false] at hx
            exact ⟨hc.1, hc.2, hx.2⟩
        rw [hg]; exact hi.one
      · exact hi.one
    · have h : k.fast = false ∧ Closed k := by rcases hok with h | h; exact absurd h hn; exact h
      have g := wf_collectGarbage h.1 hi.wf hi.one h.2
      unfold EnableDeferredNoGC at hn
      have hn' : k.deferred = true ∧ b = false ∧ k.needsGC = true := Classical.not_not.mp hn
      have : k.enableDeferred b = { k.collectGarbage with deferred := b } := by
        unfold enableDeferred; simp [hn'.1, hn'.2.1]
      rw [this]
      exact ⟨wf_withDeferred _ b g.1, g.2.1⟩
  | enableFast b => exact ⟨wf_enableFast k b hi.wf, hi.one⟩
  | enableBU kind b =>
    simp only [step]
    split
    · exact ⟨wf_enableVBU k b hi.wf, (oneCell_enableVBU k b).trans hi.one⟩
    · split
      · exact ⟨wf_enableEBU k b hi.wf, (oneCell_enableEBU k b).trans hi.one⟩
      · exact ⟨wf_enableFBU k b hi.wf, (oneCell_enableFBU k b).trans hi.one⟩
  | clear p => exact ⟨wf_clear k p hi.wf, oneCell_clear k p⟩

/-- a history whose every operation satisfies `OpOK` at the time of its call -/
def HistoryOK : Kernel → List Op → Prop
  | _, [] => True
  | k, op :: t => OpOK k op ∧ HistoryOK (k.step op).1 t

/-- **history version**: `WF ∧ oneCell` after every `HistoryOK` history -/
theorem sinv_run_partial (k : Kernel) (ops : List Op) (hi : SInv k) (hr : HistoryOK k ops) : SInv (k.run ops) := by
  induction ops generalizing k with
  | nil => exact hi
  | cons op t ih =>
    simp only [run, List.foldl_cons]
    exact ih _ (sinv_step_partial k op hi hr.1) hr.2

set_option maxRecDepth 8000 in
/-- non-vacuity: a mixed history on the tetrahedron (deferred mode) satisfies `HistoryOK`; the theorem gives
    `WF ∧ oneCell` at the end, and the executable invariant agrees (cross-check) -/
example :
    let ops : List Op := [.swapVertex 0 3, .setEdge 1 2 1, .enableFast false, .deleteFace 1, .swapCell 0 0,
                          .addVertex, .enableBU 0 false]
    SInv tetK ∧ HistoryOK tetK ops ∧ SInv (tetK.run ops) ∧ (tetK.run ops).cacheInvB = true := by
  have h0 : SInv tetK := ⟨wf_tetK, by decide⟩
  have hh : HistoryOK tetK [.swapVertex 0 3, .setEdge 1 2 1, .enableFast false, .deleteFace 1, .swapCell 0 0,
      .addVertex, .enableBU 0 false] :=
    ⟨⟨by decide, by decide⟩, ⟨by decide, by decide, by decide, by decide⟩, trivial, (Or.inl (by decide)),
     ⟨by decide, by decide⟩, trivial, trivial, trivial⟩
  exact ⟨h0, hh, sinv_run_partial _ _ h0 hh, by decide⟩

end Kernel
end OVM

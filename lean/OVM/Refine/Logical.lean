import OVM.Refine.GlobalBU4
/-
  C02 / C04 — the *logical mesh* of a state, up to renumbering.

  The logical mesh of `k` is what the public API shows of the not-deleted entities: the live vertices, the live
  edges with their two end vertices, the live faces with their halfedge cycles, the live cells with their halfface
  lists, and the value every property column holds at the slot of a live entity (half-entity columns: at the two
  slots `2x`, `2x+1` of a live parent).  Handles are not part of it: two states have the same logical mesh when there
  is a renumbering `ρ = (ρv, ρe, ρf, ρc)` of the slots — a bijection between the live slots of every kind — through
  which every definition and every column value of the first state is read off the second
  (`half ρ h = 2·ρ(h/2) + h%2` renames half-entities with their parent, keeping the side).

  `LogMinus k k' ρ S`  :  the logical mesh of `k'` is the logical mesh of `k` MINUS the entities in `S`, renumbered by `ρ`
  `LogIso k k' ρ`      :  the same with `S = ∅` — equal logical meshes.

  This is the Prop-level counterpart of the judge's executable oracle (`Judge.named`, `Named.minus`,
  lean/Judge/Check.lean): there entities are named by the tokens of identity columns, which every operation
  transports like any other column (C03, `values_follow_tokens_history`); here the naming is the slot bijection
  itself, and ALL columns (identity columns included) are carried by the same `ρ` (`KindOK.cols`).

  The file is pure bookkeeping: composition (`LogMinus.comp`), change of the removed set on not-live slots
  (`LogMinus.congrS`), and the three kinds of elementary steps all deletion modes are made of:
    * flag one slot                       (`of_flag*`,  ρ = id)
    * erase one slot, rename one level up (`of_erase*`, ρ = `corr1 h` on the kind; from K4/G1's `Global.Erase*`)
    * exchange two slots                  (`of_swap*`,  ρ = `relabelId a b`; from K3's `swap*_eq_spec_live`).
-/
namespace OVM
namespace Kernel
namespace Logical
open ScanDel

/-! ### survivors of one kind, bijections between survivors and live slots -/

/-- `x` is a live slot (of a kind with `n` slots and flags `del`) that is not removed by `S` -/
def Surv (n : Nat) (del : List Bool) (S : Nat → Prop) (x : Nat) : Prop :=
  x < n ∧ del.getD x false = false ∧ ¬ S x

/-- the empty set of removed slots -/
def none : Nat → Prop := fun _ => False

theorem Surv.congr {n : Nat} {del : List Bool} {S S' : Nat → Prop}
    (h : ∀ x, x < n → del.getD x false = false → (S x ↔ S' x)) (x : Nat) : Surv n del S x ↔ Surv n del S' x := by
  unfold Surv
  constructor
  · rintro ⟨a, b, c⟩; exact ⟨a, b, fun s => c ((h x a b).mpr s)⟩
  · rintro ⟨a, b, c⟩; exact ⟨a, b, fun s => c ((h x a b).mp s)⟩

/-- a property column read through `ρ` on the slots satisfying `P` -/
def ColFollows (P : Nat → Prop) (ρ : Nat → Nat) (c c' : Col) : Prop :=
  c'.key = c.key ∧ c'.dflt = c.dflt ∧ ∀ x, P x → c'.vals[ρ x]? = c.vals[x]?

/-- all columns of a tracker, position by position -/
def ColsFollow (P : Nat → Prop) (ρ : Nat → Nat) : List Col → List Col → Prop
  | [], [] => True
  | c :: cs, c' :: cs' => ColFollows P ρ c c' ∧ ColsFollow P ρ cs cs'
  | _, _ => False

theorem ColsFollow.map {P : Nat → Prop} {ρ : Nat → Nat} (g : Col → Col) (cs : List Col)
    (h : ∀ c, c ∈ cs → ColFollows P ρ c (g c)) : ColsFollow P ρ cs (cs.map g) := by
  induction cs with
  | nil => exact True.intro
  | cons c t ih =>
    exact ⟨h c (by simp), ih (fun c' hc' => h c' (by simp [hc']))⟩

theorem ColsFollow.refl (P : Nat → Prop) (cs : List Col) : ColsFollow P id cs cs := by
  have := ColsFollow.map (P := P) (ρ := id) id cs (fun c _ => ⟨rfl, rfl, fun _ _ => rfl⟩)
  simpa using this

theorem ColsFollow.mono {P Q : Nat → Prop} {ρ : Nat → Nat} {cs cs' : List Col} (h : ColsFollow P ρ cs cs')
    (hq : ∀ x, Q x → P x) : ColsFollow Q ρ cs cs' := by
  induction cs generalizing cs' with
  | nil => cases cs' with
    | nil => exact True.intro
    | cons _ _ => exact h.elim
  | cons c t ih => cases cs' with
    | nil => exact h.elim
    | cons c' t' => exact ⟨⟨h.1.1, h.1.2.1, fun x hx => h.1.2.2 x (hq x hx)⟩, ih h.2⟩

theorem ColsFollow.comp {P P' Q : Nat → Prop} {ρ ρ' : Nat → Nat} {cs cs' cs'' : List Col}
    (h : ColsFollow P ρ cs cs') (h' : ColsFollow P' ρ' cs' cs'') (hq : ∀ x, Q x → P x ∧ P' (ρ x)) :
    ColsFollow Q (ρ' ∘ ρ) cs cs'' := by
  induction cs generalizing cs' cs'' with
  | nil =>
    cases cs' with
    | nil => cases cs'' with
      | nil => exact True.intro
      | cons _ _ => exact h'.elim
    | cons _ _ => exact h.elim
  | cons c t ih =>
    cases cs' with
    | nil => exact h.elim
    | cons c' t' =>
      cases cs'' with
      | nil => exact h'.elim
      | cons c'' t'' =>
        refine ⟨⟨h'.1.1.trans h.1.1, h'.1.2.1.trans h.1.2.1, fun x hx => ?_⟩, ih h.2 h'.2⟩
        obtain ⟨p1, p2⟩ := hq x hx
        exact (h'.1.2.2 _ p2).trans (h.1.2.2 x p1)

/-- one entity kind: `ρ` maps the survivors bijectively onto the live slots of the target, and every column of the
    kind is read through `ρ` at the survivors -/
structure KindOK (n : Nat) (del : List Bool) (S : Nat → Prop) (n' : Nat) (del' : List Bool) (ρ : Nat → Nat)
    (cs cs' : List Col) : Prop where
  into : ∀ x, Surv n del S x → ρ x < n' ∧ del'.getD (ρ x) false = false
  inj : ∀ x y, Surv n del S x → Surv n del S y → ρ x = ρ y → x = y
  onto : ∀ y, y < n' → del'.getD y false = false → ∃ x, Surv n del S x ∧ ρ x = y
  cols : ColsFollow (Surv n del S) ρ cs cs'

theorem KindOK.id_of_eq {n n' : Nat} {del del' : List Bool} {cs cs' : List Col} (hn : n' = n) (hd : del' = del)
    (hc : cs' = cs) : KindOK n del none n' del' id cs cs' := by
  subst hn hd hc
  exact ⟨fun x h => ⟨h.1, h.2.1⟩, fun _ _ _ _ e => e, fun y h1 h2 => ⟨y, ⟨h1, h2, fun f => f⟩, rfl⟩, ColsFollow.refl _ _⟩

theorem KindOK.congrS {n n' : Nat} {del del' : List Bool} {S S' : Nat → Prop} {ρ : Nat → Nat} {cs cs' : List Col}
    (k : KindOK n del S n' del' ρ cs cs') (h : ∀ x, x < n → del.getD x false = false → (S x ↔ S' x)) :
    KindOK n del S' n' del' ρ cs cs' := by
  have e := Surv.congr h
  refine ⟨fun x hx => k.into x ((e x).mpr hx), fun x y hx hy => k.inj x y ((e x).mpr hx) ((e y).mpr hy), ?_,
    k.cols.mono (fun x hx => (e x).mpr hx)⟩
  intro y h1 h2
  obtain ⟨x, hx, hxy⟩ := k.onto y h1 h2
  exact ⟨x, (e x).mp hx, hxy⟩

/-- removed by the first step, or sent by it onto something the second step removes -/
def compS (S : Nat → Prop) (ρ : Nat → Nat) (S' : Nat → Prop) : Nat → Prop := fun x => S x ∨ S' (ρ x)

theorem surv_comp {n n' : Nat} {del del' : List Bool} {S S' : Nat → Prop} {ρ : Nat → Nat}
    (into : ∀ x, Surv n del S x → ρ x < n' ∧ del'.getD (ρ x) false = false) (x : Nat) :
    Surv n del (compS S ρ S') x ↔ (Surv n del S x ∧ Surv n' del' S' (ρ x)) := by
  unfold Surv compS
  constructor
  · rintro ⟨a, b, c⟩
    have hs : Surv n del S x := ⟨a, b, fun s => c (Or.inl s)⟩
    exact ⟨hs, (into x hs).1, (into x hs).2, fun s => c (Or.inr s)⟩
  · rintro ⟨⟨a, b, c⟩, _, _, d⟩
    exact ⟨a, b, fun s => s.elim c d⟩

theorem KindOK.comp {n n' n'' : Nat} {del del' del'' : List Bool} {S S' : Nat → Prop} {ρ ρ' : Nat → Nat}
    {cs cs' cs'' : List Col} (k : KindOK n del S n' del' ρ cs cs') (k' : KindOK n' del' S' n'' del'' ρ' cs' cs'') :
    KindOK n del (compS S ρ S') n'' del'' (ρ' ∘ ρ) cs cs'' := by
  have e := surv_comp (S' := S') k.into
  refine ⟨?_, ?_, ?_, k.cols.comp k'.cols (fun x hx => (e x).mp hx)⟩
  · intro x hx
    exact k'.into _ ((e x).mp hx).2
  · intro x y hx hy hxy
    obtain ⟨x1, x2⟩ := (e x).mp hx
    obtain ⟨y1, y2⟩ := (e y).mp hy
    exact k.inj x y x1 y1 (k'.inj _ _ x2 y2 hxy)
  · intro z h1 h2
    obtain ⟨y, hy, hyz⟩ := k'.onto z h1 h2
    obtain ⟨x, hx, hxy⟩ := k.onto y hy.1 hy.2.1
    exact ⟨x, (e x).mpr ⟨hx, by rw [hxy]; exact hy⟩, by simp [hxy, hyz]⟩

/-! ### half-entities follow their parent -/

/-- rename a half-entity with its parent, keeping the side -/
def half (ρ : Nat → Nat) (h : Nat) : Nat := 2 * ρ (h / 2) + h % 2

theorem half_id : half id = id := by funext h; unfold half; simp; omega
theorem half_comp (ρ ρ' : Nat → Nat) : half (ρ' ∘ ρ) = half ρ' ∘ half ρ := by
  funext h
  unfold half
  simp only [Function.comp]
  have h1 : (2 * ρ (h / 2) + h % 2) / 2 = ρ (h / 2) := by omega
  have h2 : (2 * ρ (h / 2) + h % 2) % 2 = h % 2 := by omega
  rw [h1, h2]
theorem half_div (ρ : Nat → Nat) (h : Nat) : half ρ h / 2 = ρ (h / 2) := by unfold half; omega
theorem half_mod (ρ : Nat → Nat) (h : Nat) : half ρ h % 2 = h % 2 := by unfold half; omega
theorem half_even (ρ : Nat → Nat) (x : Nat) : half ρ (2 * x) = 2 * ρ x := by
  unfold half; rw [show 2 * x / 2 = x by omega]; omega
theorem half_odd (ρ : Nat → Nat) (x : Nat) : half ρ (2 * x + 1) = 2 * ρ x + 1 := by
  unfold half; rw [show (2 * x + 1) / 2 = x by omega]; omega

theorem half_corr1 (h y : Nat) (hy : y / 2 ≠ h) : half (corr1 h) y = corr2 (2 * h + 1) y := by
  unfold half corr1 corr2
  rcases Nat.lt_or_gt_of_ne hy with hlt | hgt
  · have h1 : ¬ y / 2 > h := by omega
    have h2 : ¬ y > 2 * h + 1 := by omega
    simp only [h1, h2, if_false]; omega
  · have h2 : y > 2 * h + 1 := by omega
    simp only [hgt, h2, if_true]; omega

theorem half_relabelId (a b y : Nat) : half (relabelId a b) y = relabelHalf a b y := by
  unfold half relabelId relabelHalf
  by_cases h1 : y / 2 = a
  · simp [h1]
  · by_cases h2 : y / 2 = b
    · have h3 : ¬ b = a := fun e => h1 (h2.trans e)
      simp [h2, h3]
    · simp [h1, h2]; omega

/-- the half-entity columns of a kind: read through `half ρ` at both slots of a surviving parent -/
def HalfOK (n : Nat) (del : List Bool) (S : Nat → Prop) (ρ : Nat → Nat) (cs cs' : List Col) : Prop :=
  ColsFollow (fun y => Surv n del S (y / 2)) (half ρ) cs cs'

theorem HalfOK.id_of_eq {n : Nat} {del : List Bool} {S : Nat → Prop} {cs cs' : List Col} (hc : cs' = cs) :
    HalfOK n del S id cs cs' := by
  subst hc; unfold HalfOK; rw [half_id]; exact ColsFollow.refl _ _

theorem HalfOK.congrS {n : Nat} {del : List Bool} {S S' : Nat → Prop} {ρ : Nat → Nat} {cs cs' : List Col}
    (k : HalfOK n del S ρ cs cs') (h : ∀ x, x < n → del.getD x false = false → (S x ↔ S' x)) :
    HalfOK n del S' ρ cs cs' :=
  ColsFollow.mono k (fun y hy => (Surv.congr h (y / 2)).mpr hy)

theorem HalfOK.comp {n n' : Nat} {del del' : List Bool} {S S' : Nat → Prop} {ρ ρ' : Nat → Nat} {cs cs' cs'' : List Col}
    (into : ∀ x, Surv n del S x → ρ x < n' ∧ del'.getD (ρ x) false = false)
    (k : HalfOK n del S ρ cs cs') (k' : HalfOK n' del' S' ρ' cs' cs'') :
    HalfOK n del (compS S ρ S') (ρ' ∘ ρ) cs cs'' := by
  unfold HalfOK at *
  rw [half_comp]
  refine ColsFollow.comp k k' (fun y hy => ?_)
  have := (surv_comp (S' := S') into (y / 2)).mp hy
  exact ⟨this.1, by rw [half_div]; exact this.2⟩

/-! ### the logical mesh relation -/

/-- a renumbering of the four kinds of slots -/
structure Ren where
  v : Nat → Nat
  e : Nat → Nat
  f : Nat → Nat
  c : Nat → Nat

/-- a set of removed entities -/
structure Rem where
  v : Nat → Prop
  e : Nat → Prop
  f : Nat → Prop
  c : Nat → Prop

def Ren.id : Ren := ⟨_root_.id, _root_.id, _root_.id, _root_.id⟩
def Ren.comp (ρ' ρ : Ren) : Ren := ⟨ρ'.v ∘ ρ.v, ρ'.e ∘ ρ.e, ρ'.f ∘ ρ.f, ρ'.c ∘ ρ.c⟩
def Rem.none : Rem := ⟨Logical.none, Logical.none, Logical.none, Logical.none⟩
def Rem.comp (S : Rem) (ρ : Ren) (S' : Rem) : Rem :=
  ⟨compS S.v ρ.v S'.v, compS S.e ρ.e S'.e, compS S.f ρ.f S'.f, compS S.c ρ.c S'.c⟩

/-- survivors of `k` with respect to `S`, per kind -/
def SurvV (k : Kernel) (S : Rem) : Nat → Prop := Surv k.nV k.vDel S.v
def SurvE (k : Kernel) (S : Rem) : Nat → Prop := Surv k.edges.length k.eDel S.e
def SurvF (k : Kernel) (S : Rem) : Nat → Prop := Surv k.faces.length k.fDel S.f
def SurvC (k : Kernel) (S : Rem) : Nat → Prop := Surv k.cells.length k.cDel S.c

/-- **the logical mesh of `k'` is the logical mesh of `k` minus `S`, renumbered by `ρ`**: per kind, `ρ` is a bijection
    from the live slots of `k` outside `S` onto the live slots of `k'` that carries every property column; the
    definition of every survivor, read in `k'` at its new slot, is its old definition renamed by `ρ`; the mesh
    properties (`props.m`, one slot, no entity) are untouched. -/
structure LogMinus (k k' : Kernel) (ρ : Ren) (S : Rem) : Prop where
  v : KindOK k.nV k.vDel S.v k'.nV k'.vDel ρ.v k.props.v k'.props.v
  e : KindOK k.edges.length k.eDel S.e k'.edges.length k'.eDel ρ.e k.props.e k'.props.e
  f : KindOK k.faces.length k.fDel S.f k'.faces.length k'.fDel ρ.f k.props.f k'.props.f
  c : KindOK k.cells.length k.cDel S.c k'.cells.length k'.cDel ρ.c k.props.c k'.props.c
  he : HalfOK k.edges.length k.eDel S.e ρ.e k.props.he k'.props.he
  hf : HalfOK k.faces.length k.fDel S.f ρ.f k.props.hf k'.props.hf
  edge : ∀ x, SurvE k S x → k'.edgeAt (ρ.e x) = (ρ.v (k.edgeAt x).1, ρ.v (k.edgeAt x).2)
  face : ∀ x, SurvF k S x → k'.faceAt (ρ.f x) = (k.faceAt x).map (half ρ.e)
  cell : ∀ x, SurvC k S x → k'.cellAt (ρ.c x) = (k.cellAt x).map (half ρ.f)
  m : k'.props.m = k.props.m

/-- equal logical meshes, up to the renumbering `ρ` -/
def LogIso (k k' : Kernel) (ρ : Ren) : Prop := LogMinus k k' ρ Rem.none

theorem LogMinus.congrS {k k' : Kernel} {ρ : Ren} {S S' : Rem} (h : LogMinus k k' ρ S)
    (hv : ∀ x, x < k.nV → k.vDel.getD x false = false → (S.v x ↔ S'.v x))
    (he : ∀ x, x < k.edges.length → k.eDel.getD x false = false → (S.e x ↔ S'.e x))
    (hf : ∀ x, x < k.faces.length → k.fDel.getD x false = false → (S.f x ↔ S'.f x))
    (hc : ∀ x, x < k.cells.length → k.cDel.getD x false = false → (S.c x ↔ S'.c x)) : LogMinus k k' ρ S' :=
  ⟨h.v.congrS hv, h.e.congrS he, h.f.congrS hf, h.c.congrS hc, h.he.congrS he, h.hf.congrS hf,
   fun x hx => h.edge x ((Surv.congr he x).mpr hx), fun x hx => h.face x ((Surv.congr hf x).mpr hx),
   fun x hx => h.cell x ((Surv.congr hc x).mpr hx), h.m⟩

/-- **composition**: two steps in a row remove what the first removes plus what the first sends onto something the
    second removes, and renumber by the composite -/
theorem LogMinus.comp {k k' k'' : Kernel} {ρ ρ' : Ren} {S S' : Rem} (h : LogMinus k k' ρ S) (h' : LogMinus k' k'' ρ' S') :
    LogMinus k k'' (ρ'.comp ρ) (S.comp ρ S') := by
  refine ⟨h.v.comp h'.v, h.e.comp h'.e, h.f.comp h'.f, h.c.comp h'.c, HalfOK.comp h.e.into h.he h'.he,
    HalfOK.comp h.f.into h.hf h'.hf, ?_, ?_, ?_, h'.m.trans h.m⟩
  · intro x hx
    obtain ⟨x1, x2⟩ := (surv_comp (S' := S'.e) h.e.into x).mp hx
    show k''.edgeAt (ρ'.e (ρ.e x)) = _
    rw [h'.edge _ x2, h.edge x x1]; rfl
  · intro x hx
    obtain ⟨x1, x2⟩ := (surv_comp (S' := S'.f) h.f.into x).mp hx
    show k''.faceAt (ρ'.f (ρ.f x)) = (k.faceAt x).map (half (ρ'.e ∘ ρ.e))
    rw [h'.face _ x2, h.face x x1, List.map_map, half_comp]
  · intro x hx
    obtain ⟨x1, x2⟩ := (surv_comp (S' := S'.c) h.c.into x).mp hx
    show k''.cellAt (ρ'.c (ρ.c x)) = (k.cellAt x).map (half (ρ'.f ∘ ρ.f))
    rw [h'.cell _ x2, h.cell x x1, List.map_map, half_comp]

theorem LogIso.refl_of_eq {k k' : Kernel} (hnV : k'.nV = k.nV) (he : k'.edges = k.edges) (hf : k'.faces = k.faces)
    (hc : k'.cells = k.cells) (hvd : k'.vDel = k.vDel) (hed : k'.eDel = k.eDel) (hfd : k'.fDel = k.fDel)
    (hcd : k'.cDel = k.cDel) (hp : k'.props = k.props) : LogIso k k' Ren.id := by
  refine ⟨KindOK.id_of_eq hnV hvd (by rw [hp]), KindOK.id_of_eq (by rw [he]) hed (by rw [hp]),
    KindOK.id_of_eq (by rw [hf]) hfd (by rw [hp]), KindOK.id_of_eq (by rw [hc]) hcd (by rw [hp]),
    HalfOK.id_of_eq (by rw [hp]), HalfOK.id_of_eq (by rw [hp]), ?_, ?_, ?_, by rw [hp]⟩
  · intro x _; unfold edgeAt; rw [he]; rfl
  · intro x _; unfold faceAt; rw [hf]; show _ = List.map (half id) _; rw [half_id]; simp [Ren.id]
  · intro x _; unfold cellAt; rw [hc]; show _ = List.map (half id) _; rw [half_id]; simp [Ren.id]

theorem LogIso.refl (k : Kernel) : LogIso k k Ren.id := LogIso.refl_of_eq rfl rfl rfl rfl rfl rfl rfl rfl rfl

/-- composing with an isomorphism on the right keeps the removed set (on live slots) -/
theorem LogMinus.comp_iso {k k' k'' : Kernel} {ρ ρ' : Ren} {S : Rem} (h : LogMinus k k' ρ S) (h' : LogIso k' k'' ρ') :
    LogMinus k k'' (ρ'.comp ρ) S :=
  (h.comp h').congrS (fun _ _ _ => ⟨fun s => s.elim _root_.id False.elim, Or.inl⟩)
    (fun _ _ _ => ⟨fun s => s.elim _root_.id False.elim, Or.inl⟩)
    (fun _ _ _ => ⟨fun s => s.elim _root_.id False.elim, Or.inl⟩)
    (fun _ _ _ => ⟨fun s => s.elim _root_.id False.elim, Or.inl⟩)

end Logical
end Kernel
end OVM

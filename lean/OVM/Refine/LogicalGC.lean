import OVM.Refine.LogicalDelete
/-
  C04 — `collect_garbage` keeps the logical mesh (`LogIso`, OVM/Refine/Logical.lean), in both deletion styles:
  every step of every sweep (un-flag, immediate core) erases a slot that is NOT part of the logical mesh — index
  shifting: `Global.erase*_gcStep` (K4/G1); swap-with-last: exchange with the last slot (`of_swap*`, K3's
  `swap*_eq_spec_live`: flagged entities one level up may keep stale names, they are not part of the logical mesh)
  and pop it.  The unary sweep invariants are G1's `QC..QV` (shifting, from K4) and `PC..PV` (fast, from K3).
  Then: deferred deletion followed by `collect_garbage` and the same deletion performed immediately give the same
  logical mesh (`LogMinus.iso_of_same`: two images of the same mesh minus the same set are isomorphic).
-/
namespace OVM
namespace Kernel
namespace Logical
open ScanDel Global

/-! ### a sweep -/

theorem log_sweep (P : Nat → Kernel → Prop) (isDel : Kernel → Nat → Bool) (unflag core : Kernel → Nat → Kernel)
    (hP : ∀ m k, P (m + 1) k → P m (if isDel k m then core (unflag k m) m else k))
    (hR : ∀ m k, P (m + 1) k → isDel k m = true → ∃ ρ, LogIso k (core (unflag k m) m) ρ) :
    ∀ n k, P n k → ∃ ρ, LogIso k (gcSweep k n isDel unflag core) ρ := by
  intro n
  induction n with
  | zero => intro k _; exact ⟨Ren.id, by simpa [gcSweep] using LogIso.refl k⟩
  | succ n ih =>
    intro k p
    have e : gcSweep k (n + 1) isDel unflag core =
        gcSweep (if isDel k n then core (unflag k n) n else k) n isDel unflag core := by
      unfold gcSweep
      rw [List.range_succ, List.reverse_append]
      simp
    rw [e]
    obtain ⟨ρ2, h2⟩ := ih _ (hP n k p)
    by_cases hd : isDel k n = true
    · obtain ⟨ρ1, h1⟩ := hR n k p hd
      rw [if_pos hd] at h2 ⊢
      exact ⟨ρ2.comp ρ1, LogMinus.comp_iso h1 h2⟩
    · rw [if_neg hd] at h2 ⊢
      exact ⟨ρ2, h2⟩

/-- the target of a logical-mesh relation may be replaced by a state with the same data -/
theorem LogMinus.congr_right {k k' k'' : Kernel} {ρ : Ren} {S : Rem} (h : LogMinus k k' ρ S)
    (hnV : k''.nV = k'.nV) (he : k''.edges = k'.edges) (hf : k''.faces = k'.faces)
    (hc : k''.cells = k'.cells) (hvd : k''.vDel = k'.vDel) (hed : k''.eDel = k'.eDel) (hfd : k''.fDel = k'.fDel)
    (hcd : k''.cDel = k'.cDel) (hp : k''.props = k'.props) : LogMinus k k'' ρ S :=
  (h.comp_iso (LogIso.refl_of_eq hnV he hf hc hvd hed hfd hcd hp)).cast rfl

theorem LogMinus.congr_left {k0 k k' : Kernel} {ρ : Ren} {S : Rem} (h : LogMinus k k' ρ S)
    (hnV : k.nV = k0.nV) (he : k.edges = k0.edges) (hf : k.faces = k0.faces)
    (hc : k.cells = k0.cells) (hvd : k.vDel = k0.vDel) (hed : k.eDel = k0.eDel) (hfd : k.fDel = k0.fDel)
    (hcd : k.cDel = k0.cDel) (hp : k.props = k0.props) : LogMinus k0 k' ρ S := by
  have h0 : LogIso k0 k Ren.id := LogIso.refl_of_eq hnV he hf hc hvd hed hfd hcd hp
  refine ((h0.comp h).cast rfl).congrS (fun _ _ _ => ?_) (fun _ _ _ => ?_) (fun _ _ _ => ?_) (fun _ _ _ => ?_) <;>
    simp [Rem.comp, compS, Rem.none, none, Ren.id]

/-- a flagged slot is not a live one -/
theorem not_live_flagged {del : List Bool} {m : Nat} (hd : del.getD m false = true) :
    ∀ x, x < n → del.getD x false = false → ((x = m) ↔ none x) := by
  intro x _ hx
  constructor
  · intro e; subst e; rw [hd] at hx; cases hx
  · intro f; exact f.elim

/-! ### index-shifting mode -/

theorem gcStep_logC_shift {k : Kernel} {m : Nat} (h : QC (m + 1) k) (hd : k.cDeleted m = true) :
    ∃ ρ, LogIso k (deleteCellCore ({ k with cDel := k.cDel.set m false }) m) ρ := by
  have hm : m < k.cells.length := by have := h.2.1; unfold Kernel.nC at this; omega
  exact ⟨_, (of_eraseC (ρc := corr1 m) (eraseC_gcStep h hd) hm (fun _ _ _ => rfl)).congrS (fun _ _ _ => Iff.rfl)
    (fun _ _ _ => Iff.rfl) (fun _ _ _ => Iff.rfl) (not_live_flagged hd)⟩

theorem gcStep_logF_shift {k : Kernel} {m : Nat} (h : QF (m + 1) k) (hd : k.fDeleted m = true) :
    ∃ ρ, LogIso k (deleteFaceCore ({ k with fDel := k.fDel.set m false }) m) ρ := by
  have hm : m < k.faces.length := by have := h.2.2.1; unfold Kernel.nF at this; omega
  have hun := unref_of_closed_f h.1.closed h.2.1 hd
  exact ⟨_, (of_eraseF (ρf := corr1 m) (eraseF_gcStep h hd) hm (fun _ _ _ => rfl)
    (fun c _ => List.map_congr_left (fun a ha => (half_corr1 m a (cellAt_unref hun c a ha)).symm))).congrS
    (fun _ _ _ => Iff.rfl) (fun _ _ _ => Iff.rfl) (not_live_flagged hd) (fun _ _ _ => Iff.rfl)⟩

theorem gcStep_logE_shift {k : Kernel} {m : Nat} (h : QE (m + 1) k) (hd : k.eDeleted m = true) :
    ∃ ρ, LogIso k (deleteEdgeCore ({ k with eDel := k.eDel.set m false }) m) ρ := by
  have hm : m < k.edges.length := by have := h.2.2.2.1; unfold Kernel.nE at this; omega
  have hun := unref_of_closed_e h.1.closed h.2.2.1 hd
  exact ⟨_, (of_eraseE (ρe := corr1 m) (eraseE_gcStep h hd) hm (fun _ _ _ => rfl)
    (fun c _ => List.map_congr_left (fun a ha => (half_corr1 m a (faceAt_unref hun c a ha)).symm))).congrS
    (fun _ _ _ => Iff.rfl) (not_live_flagged hd) (fun _ _ _ => Iff.rfl) (fun _ _ _ => Iff.rfl)⟩

theorem gcStep_logV_shift {k : Kernel} {m : Nat} (h : QV (m + 1) k) (hd : k.vDeleted m = true) :
    ∃ ρ, LogIso k (deleteVertexCore ({ k with vDel := k.vDel.set m false }) m) ρ := by
  have hm : m < k.nV := by have := h.2.2.2.2.1; omega
  exact ⟨_, (of_eraseV (ρv := corr1 m) (eraseV_gcStep h hd) hm (fun _ _ _ => rfl) (fun _ _ => rfl)).congrS
    (not_live_flagged hd) (fun _ _ _ => Iff.rfl) (fun _ _ _ => Iff.rfl) (fun _ _ _ => Iff.rfl)⟩

theorem gcCells_log_shift {k : Kernel} (p : QC k.nC k) : ∃ ρ, LogIso k (gcCells k) ρ := by
  obtain ⟨ρ, h⟩ := log_sweep QC cDeleted (fun k i => { k with cDel := k.cDel.set i false }) deleteCellCore qc_step
    (fun m k p hd => gcStep_logC_shift p hd) k.nC k p
  exact ⟨ρ, h.congr_right rfl rfl rfl rfl rfl rfl rfl rfl rfl⟩
theorem gcFaces_log_shift {k : Kernel} (p : QF k.nF k) : ∃ ρ, LogIso k (gcFaces k) ρ := by
  obtain ⟨ρ, h⟩ := log_sweep QF fDeleted (fun k i => { k with fDel := k.fDel.set i false }) deleteFaceCore qf_step
    (fun m k p hd => gcStep_logF_shift p hd) k.nF k p
  exact ⟨ρ, h.congr_right rfl rfl rfl rfl rfl rfl rfl rfl rfl⟩
theorem gcEdges_log_shift {k : Kernel} (p : QE k.nE k) : ∃ ρ, LogIso k (gcEdges k) ρ := by
  obtain ⟨ρ, h⟩ := log_sweep QE eDeleted (fun k i => { k with eDel := k.eDel.set i false }) deleteEdgeCore qe_step
    (fun m k p hd => gcStep_logE_shift p hd) k.nE k p
  exact ⟨ρ, h.congr_right rfl rfl rfl rfl rfl rfl rfl rfl rfl⟩
theorem gcVerts_log_shift {k : Kernel} (p : QV k.nV k) : ∃ ρ, LogIso k (gcVerts k) ρ := by
  obtain ⟨ρ, h⟩ := log_sweep QV vDeleted (fun k i => { k with vDel := k.vDel.set i false }) deleteVertexCore qv_step
    (fun m k p hd => gcStep_logV_shift p hd) k.nV k p
  exact ⟨ρ, h.congr_right rfl rfl rfl rfl rfl rfl rfl rfl rfl⟩

/-- the four sweeps, index-shifting mode -/
theorem gcAll_log_shift {k : Kernel} (i1 : GCInv k) : ∃ ρ, LogIso k (gcVerts (gcEdges (gcFaces (gcCells k)))) ρ := by
  obtain ⟨r1, s1⟩ := gcCells_log_shift (k := k) ⟨i1, Nat.le_refl _, fun c h1 h2 => by omega⟩
  have a := gcInv_sweepCells i1
  have a1 : GCInv (gcCells k) := gcInv_setNDel a.1 _ _ _ 0
  have a2 : CellsLive (gcCells k) := cellsLive_of_eq (k := gcSweep k k.nC cDeleted _ deleteCellCore) rfl rfl a.2
  generalize gcCells k = x1 at s1 a1 a2 ⊢
  clear a
  obtain ⟨r2, s2⟩ := gcFaces_log_shift (k := x1) ⟨a1, a2, Nat.le_refl _, fun c h1 h2 => by omega⟩
  have a := gcInv_sweepFaces a1 a2
  have d1 : GCInv (gcFaces x1) := gcInv_setNDel a.1 _ _ 0 _
  have d2 : CellsLive (gcFaces x1) := cellsLive_of_eq (k := gcSweep x1 x1.nF fDeleted _ deleteFaceCore) rfl rfl a.2.1
  have d3 : FacesLive (gcFaces x1) := facesLive_of_eq (k := gcSweep x1 x1.nF fDeleted _ deleteFaceCore) rfl rfl a.2.2
  generalize gcFaces x1 = y1 at s2 d1 d2 d3 ⊢
  clear a
  obtain ⟨r3, s3⟩ := gcEdges_log_shift (k := y1) ⟨d1, d2, d3, Nat.le_refl _, fun c h1 h2 => by omega⟩
  have a := gcInv_sweepEdges d1 d2 d3
  have f1 : GCInv (gcEdges y1) := gcInv_setNDel a.1 _ 0 _ _
  have f2 : CellsLive (gcEdges y1) := cellsLive_of_eq (k := gcSweep y1 y1.nE eDeleted _ deleteEdgeCore) rfl rfl a.2.1
  have f3 : FacesLive (gcEdges y1) := facesLive_of_eq (k := gcSweep y1 y1.nE eDeleted _ deleteEdgeCore) rfl rfl a.2.2.1
  have f4 : EdgesLive (gcEdges y1) := edgesLive_of_eq (k := gcSweep y1 y1.nE eDeleted _ deleteEdgeCore) rfl rfl a.2.2.2
  generalize gcEdges y1 = z1 at s3 f1 f2 f3 f4 ⊢
  obtain ⟨r4, s4⟩ := gcVerts_log_shift (k := z1) ⟨f1, f2, f3, f4, Nat.le_refl _, fun c h1 h2 => by omega⟩
  exact ⟨_, LogMinus.comp_iso (LogMinus.comp_iso (LogMinus.comp_iso s1 s2) s3) s4⟩


/-! ### swap-with-last mode: one flagged step = exchange with the last slot, pop it (the facts inside G1's `same_gcStep*`) -/

theorem gcStepC_parts {k : Kernel} {m : Nat} (hi : FastGCInv k) (hm : m < k.nC) :
    EraseC (k.swapCell m (k.nC - 1)) (deleteCellCore (unflagC k m) m) (k.nC - 1) := by
  have hlC := hi.wf.len.cDel
  have e1 : deleteCellCore (unflagC k m) m =
      ((unflagC (k.swapCell m (k.nC - 1)) (k.nC - 1)).unlinkCell (k.nC - 1)).eraseCell (k.nC - 1) := by
    rw [deleteCellCore_fast_eq m (by simpa [unflagC] using hi.imm) (by simpa [unflagC] using hi.fast)]
    have : (unflagC k m).nC = k.nC := rfl
    rw [this, unflagC_swapCell k (by rw [hlC]; exact hm) (by rw [hlC]; omega)]
  rw [e1]
  constructor <;> simp [unflagC, List.eraseIdx_set_eq]

theorem gcStepF_parts {k : Kernel} {m : Nat} (hi : FastGCInv k) (hm : m < k.nF) :
    EraseF (k.swapFace m (k.nF - 1)) (deleteFaceCore (unflagF k m) m) (k.nF - 1) id := by
  have hlF := hi.wf.len.fDel
  have hfast : ((unflagF (k.swapFace m (k.nF - 1)) (k.nF - 1)).unlinkFace (k.nF - 1)).fast = true := by
    simpa [unflagF] using hi.fast
  have hcells : (((unflagF (k.swapFace m (k.nF - 1)) (k.nF - 1)).unlinkFace (k.nF - 1)).eraseFace (k.nF - 1)).cells =
      (k.swapFace m (k.nF - 1)).cells := by rw [eraseFace_cells_fast _ _ hfast]; simp [unflagF]
  have e1 : deleteFaceCore (unflagF k m) m =
      ((unflagF (k.swapFace m (k.nF - 1)) (k.nF - 1)).unlinkFace (k.nF - 1)).eraseFace (k.nF - 1) := by
    rw [deleteFaceCore_fast_eq m (by simpa [unflagF] using hi.imm) (by simpa [unflagF] using hi.fast)]
    have : (unflagF k m).nF = k.nF := rfl
    rw [this, unflagF_swapFace k (by rw [hlF]; exact hm) (by rw [hlF]; omega)]
  rw [e1]
  refine ⟨?_, ?_, ?_, by rw [hcells], fun c _ => by unfold cellAt; rw [hcells]; rfl, ?_, ?_, ?_, ?_, ?_, ?_, ?_, ?_, ?_, ?_, ?_⟩ <;>
    simp [unflagF, List.eraseIdx_set_eq]

theorem gcStepE_parts {k : Kernel} {m : Nat} (hi : FastGCInv k) (hm : m < k.nE) :
    EraseE (k.swapEdge m (k.nE - 1)) (deleteEdgeCore (unflagE k m) m) (k.nE - 1) id := by
  have hlE := hi.wf.len.eDel
  have hfast : ((unflagE (k.swapEdge m (k.nE - 1)) (k.nE - 1)).unlinkEdge (k.nE - 1)).fast = true := by
    simpa [unflagE] using hi.fast
  have hfaces : (((unflagE (k.swapEdge m (k.nE - 1)) (k.nE - 1)).unlinkEdge (k.nE - 1)).eraseEdge (k.nE - 1)).faces =
      (k.swapEdge m (k.nE - 1)).faces := by rw [eraseEdge_faces_fast _ _ hfast]; simp [unflagE]
  have e1 : deleteEdgeCore (unflagE k m) m =
      ((unflagE (k.swapEdge m (k.nE - 1)) (k.nE - 1)).unlinkEdge (k.nE - 1)).eraseEdge (k.nE - 1) := by
    rw [deleteEdgeCore_fast_eq m (by simpa [unflagE] using hi.imm) (by simpa [unflagE] using hi.fast)]
    have : (unflagE k m).nE = k.nE := rfl
    rw [this, unflagE_swapEdge k (by rw [hlE]; exact hm) (by rw [hlE]; omega)]
  rw [e1]
  refine ⟨?_, ?_, by rw [hfaces], fun c _ => by unfold faceAt; rw [hfaces]; rfl, ?_, ?_, ?_, ?_, ?_, ?_, ?_, ?_, ?_, ?_, ?_, ?_⟩ <;>
    simp [unflagE, List.eraseIdx_set_eq]

theorem gcStepV_parts {k : Kernel} {m : Nat} (hi : FastGCInv k) (hm : m < k.nV) (hdel : k.vDeleted m = true)
    (hnf : NoFlag k.eDel) (hR : VRef k) :
    EraseV (k.swapVertex m (k.nV - 1)) (deleteVertexCore (unflagV k m) m) (k.nV - 1) id := by
  have hlV := hi.wf.len.vDel
  have hlast : k.nV - 1 < k.nV := by omega
  have hno0 : ∀ e ∈ k.edges, e.1 ≠ m ∧ e.2 ≠ m := by
    intro e he
    have := hR e he
    refine ⟨fun h => ?_, fun h => ?_⟩
    · have t := this.1; rw [h, hdel] at t; cases t
    · have t := this.2; rw [h, hdel] at t; cases t
  have hw1 := wf_swapVertex hm hlast hi.wf
  have hno1 := swapVertex_unused hm hlast hi.wf.cache.v (fun _ => hnf) hno0
  have hedges := eraseLastVertex_edges (k := unflagV (k.swapVertex m (k.nV - 1)) (k.nV - 1))
    (by simp [unflagV]; omega) (wf_unflagV _ hw1) (by simpa [unflagV] using hno1)
  have hnv : (unflagV (k.swapVertex m (k.nV - 1)) (k.nV - 1)).nV = k.nV := by simp [unflagV]
  rw [hnv] at hedges
  have hedges' : ((unflagV (k.swapVertex m (k.nV - 1)) (k.nV - 1)).eraseVertex (k.nV - 1)).edges =
      (k.swapVertex m (k.nV - 1)).edges := by rw [hedges]; rfl
  have e1 : deleteVertexCore (unflagV k m) m = (unflagV (k.swapVertex m (k.nV - 1)) (k.nV - 1)).eraseVertex (k.nV - 1) := by
    rw [deleteVertexCore_fast_eq m (by simpa [unflagV] using hi.imm) (by simpa [unflagV] using hi.fast)]
    have : (unflagV k m).nV = k.nV := rfl
    rw [this, unflagV_swapVertex k (by rw [hlV]; exact hm) (by rw [hlV]; omega)]
  rw [e1]
  refine ⟨?_, by rw [hedges'], fun c _ => by unfold edgeAt; rw [hedges']; rfl, ?_, ?_, ?_, ?_, ?_, ?_, ?_, ?_, ?_, ?_, ?_, ?_, ?_⟩ <;>
    simp [unflagV, List.eraseIdx_set_eq]

theorem gcStep_logC_fast {k : Kernel} {m : Nat} (h : PC (m + 1) k) (hd : k.cDeleted m = true) :
    ∃ ρ, LogIso k (deleteCellCore ({ k with cDel := k.cDel.set m false }) m) ρ := by
  obtain ⟨hi, hm, _⟩ := h
  have hm' : m < k.nC := by omega
  have hl : k.nC - 1 < k.nC := by omega
  have s1 := swapC' hm' hl hi.wf
  have hlen : (k.swapCell m (k.nC - 1)).cells.length = k.nC := by rw [swapCell_cells_eq, length_swapAt]; rfl
  have s2 := of_eraseC (ρc := id) (gcStepC_parts hi hm') (by rw [hlen]; exact hl) (by rw [hlen]; exact pop_rho k.nC)
  refine ⟨_, (s1.comp s2).congrS (fun _ _ _ => by simp [Rem.comp, compS, Rem.none, none])
    (fun _ _ _ => by simp [Rem.comp, compS, Rem.none, none]) (fun _ _ _ => by simp [Rem.comp, compS, Rem.none, none])
    (fun z hz1 hz2 => ?_)⟩
  simp only [Rem.comp, compS, Rem.none]
  rw [fast_S hm' z hz1]
  exact not_live_flagged (n := k.cells.length) hd z hz1 hz2

theorem gcStep_logF_fast {k : Kernel} {m : Nat} (h : PF (m + 1) k) (hd : k.fDeleted m = true) :
    ∃ ρ, LogIso k (deleteFaceCore ({ k with fDel := k.fDel.set m false }) m) ρ := by
  obtain ⟨hi, hm, _⟩ := h
  have hm' : m < k.nF := by omega
  have hl : k.nF - 1 < k.nF := by omega
  have s1 := swapF' hm' hl hi.wf hi.one
  have hlen : (k.swapFace m (k.nF - 1)).faces.length = k.nF := swapFace_faces_length k m (k.nF - 1)
  have s2 := of_eraseF (ρf := id) (gcStepF_parts hi hm') (by rw [hlen]; exact hl) (by rw [hlen]; exact pop_rho k.nF)
    (fun c _ => by rw [half_id]; simp)
  refine ⟨_, (s1.comp s2).congrS (fun _ _ _ => by simp [Rem.comp, compS, Rem.none, none])
    (fun _ _ _ => by simp [Rem.comp, compS, Rem.none, none]) (fun z hz1 hz2 => ?_)
    (fun _ _ _ => by simp [Rem.comp, compS, Rem.none, none])⟩
  simp only [Rem.comp, compS, Rem.none]
  rw [fast_S hm' z hz1]
  exact not_live_flagged (n := k.faces.length) hd z hz1 hz2

theorem gcStep_logE_fast {k : Kernel} {m : Nat} (h : PE (m + 1) k) (hd : k.eDeleted m = true) :
    ∃ ρ, LogIso k (deleteEdgeCore ({ k with eDel := k.eDel.set m false }) m) ρ := by
  obtain ⟨hi, hm, _⟩ := h
  have hm' : m < k.nE := by omega
  have hl : k.nE - 1 < k.nE := by omega
  have s1 := swapE' hm' hl hi.wf
  have hlen : (k.swapEdge m (k.nE - 1)).edges.length = k.nE := swapEdge_edges_length k m (k.nE - 1)
  have s2 := of_eraseE (ρe := id) (gcStepE_parts hi hm') (by rw [hlen]; exact hl) (by rw [hlen]; exact pop_rho k.nE)
    (fun c _ => by rw [half_id]; simp)
  refine ⟨_, (s1.comp s2).congrS (fun _ _ _ => by simp [Rem.comp, compS, Rem.none, none])
    (fun z hz1 hz2 => ?_) (fun _ _ _ => by simp [Rem.comp, compS, Rem.none, none])
    (fun _ _ _ => by simp [Rem.comp, compS, Rem.none, none])⟩
  simp only [Rem.comp, compS, Rem.none]
  rw [fast_S hm' z hz1]
  exact not_live_flagged (n := k.edges.length) hd z hz1 hz2

theorem gcStep_logV_fast {k : Kernel} {m : Nat} (h : PV (m + 1) k) (hd : k.vDeleted m = true) :
    ∃ ρ, LogIso k (deleteVertexCore ({ k with vDel := k.vDel.set m false }) m) ρ := by
  obtain ⟨hi, hm, _, _, _, hnfE, hR⟩ := h
  have hm' : m < k.nV := by omega
  have hl : k.nV - 1 < k.nV := by omega
  have s1 := swapV' hm' hl hi.wf
  have hlen : (k.swapVertex m (k.nV - 1)).nV = k.nV := swapVertex_nV k m (k.nV - 1)
  have s2 := of_eraseV (ρv := id) (gcStepV_parts hi hm' hd hnfE hR) (by rw [hlen]; exact hl) (by rw [hlen]; exact pop_rho k.nV)
    (fun c _ => rfl)
  refine ⟨_, (s1.comp s2).congrS (fun z hz1 hz2 => ?_) (fun _ _ _ => by simp [Rem.comp, compS, Rem.none, none])
    (fun _ _ _ => by simp [Rem.comp, compS, Rem.none, none]) (fun _ _ _ => by simp [Rem.comp, compS, Rem.none, none])⟩
  simp only [Rem.comp, compS, Rem.none]
  rw [fast_S hm' z hz1]
  exact not_live_flagged (n := k.nV) hd z hz1 hz2

theorem gcCells_log_fast {k : Kernel} (p : PC k.nC k) : ∃ ρ, LogIso k (gcCells k) ρ := by
  obtain ⟨ρ, h⟩ := log_sweep PC cDeleted (fun k i => { k with cDel := k.cDel.set i false }) deleteCellCore pc_step
    (fun m k p hd => gcStep_logC_fast p hd) k.nC k p
  exact ⟨_, h.congr_right rfl rfl rfl rfl rfl rfl rfl rfl rfl⟩
theorem gcFaces_log_fast {k : Kernel} (p : PF k.nF k) : ∃ ρ, LogIso k (gcFaces k) ρ := by
  obtain ⟨ρ, h⟩ := log_sweep PF fDeleted (fun k i => { k with fDel := k.fDel.set i false }) deleteFaceCore pf_step
    (fun m k p hd => gcStep_logF_fast p hd) k.nF k p
  exact ⟨_, h.congr_right rfl rfl rfl rfl rfl rfl rfl rfl rfl⟩
theorem gcEdges_log_fast {k : Kernel} (p : PE k.nE k) : ∃ ρ, LogIso k (gcEdges k) ρ := by
  obtain ⟨ρ, h⟩ := log_sweep PE eDeleted (fun k i => { k with eDel := k.eDel.set i false }) deleteEdgeCore pe_step
    (fun m k p hd => gcStep_logE_fast p hd) k.nE k p
  exact ⟨_, h.congr_right rfl rfl rfl rfl rfl rfl rfl rfl rfl⟩
theorem gcVerts_log_fast {k : Kernel} (p : PV k.nV k) : ∃ ρ, LogIso k (gcVerts k) ρ := by
  obtain ⟨ρ, h⟩ := log_sweep PV vDeleted (fun k i => { k with vDel := k.vDel.set i false }) deleteVertexCore pv_step
    (fun m k p hd => gcStep_logV_fast p hd) k.nV k p
  exact ⟨_, h.congr_right rfl rfl rfl rfl rfl rfl rfl rfl rfl⟩

/-- the four sweeps, swap-with-last mode -/
theorem gcAll_log_fast {k : Kernel} (i1 : FastGCInv k) (c1 : Closed k) :
    ∃ ρ, LogIso k (gcVerts (gcEdges (gcFaces (gcCells k)))) ρ := by
  obtain ⟨hC1, hF1, hE1⟩ := (closed_iff_up k).mp c1
  obtain ⟨r1, s1⟩ := gcCells_log_fast (k := k) ⟨i1, Nat.le_refl _, getD_false_above i1.wf.len.cDel, hC1, hF1, hE1⟩
  obtain ⟨a1, a2, a3, a4, a5⟩ := gcCells_fast i1 hC1 hF1 hE1
  generalize gcCells k = x1 at s1 a1 a2 a3 a4 a5 ⊢
  obtain ⟨r2, s2⟩ := gcFaces_log_fast (k := x1) ⟨a1, Nat.le_refl _, getD_false_above a1.wf.len.fDel, a2, a3, a4, a5⟩
  obtain ⟨d1, d2, d3, d4, d5⟩ := gcFaces_fast a1 a2 a3 a4 a5
  generalize gcFaces x1 = y1 at s2 d1 d2 d3 d4 d5 ⊢
  obtain ⟨r3, s3⟩ := gcEdges_log_fast (k := y1) ⟨d1, Nat.le_refl _, getD_false_above d1.wf.len.eDel, d2, d3, d4, d5⟩
  obtain ⟨f1, f2, f3, f4, f5⟩ := gcEdges_fast d1 d2 d3 d4 d5
  generalize gcEdges y1 = z1 at s3 f1 f2 f3 f4 f5 ⊢
  have vref : VRef z1 := by
    intro e he
    obtain ⟨i, hil, rfl⟩ := k3_mem_getD (0, 0) he
    exact f5 i hil (by unfold eDeleted; exact f4.getD i)
  obtain ⟨r4, s4⟩ := gcVerts_log_fast (k := z1) ⟨f1, Nat.le_refl _, getD_false_above f1.wf.len.vDel, f2, f3, f4, vref⟩
  exact ⟨_, LogMinus.comp_iso (LogMinus.comp_iso (LogMinus.comp_iso s1 s2) s3) s4⟩

/-! ### `collect_garbage` -/

/-- **`collect_garbage` keeps the logical mesh**, both deletion styles, every bottom-up configuration -/
theorem collectGarbage_log {k : Kernel} (hi : GInv k) : ∃ ρ, LogIso k k.collectGarbage ρ := by
  by_cases h : k.deferred = true ∧ k.needsGC = true
  · rw [Global.collectGarbage_eq h.1 h.2]
    have c1 : Closed ({ k with deferred := false } : Kernel) := closed_of_eq (k := k) rfl rfl rfl rfl rfl rfl rfl rfl hi.closed
    have w1 := Kernel.wf_withDeferred (k := k) false hi.wf
    have key : ∃ ρ, LogIso ({ k with deferred := false } : Kernel)
        (gcVerts (gcEdges (gcFaces (gcCells ({ k with deferred := false } : Kernel))))) ρ := by
      by_cases hf : k.fast = true
      · exact gcAll_log_fast ⟨rfl, hf, w1, hi.one⟩ c1
      · exact gcAll_log_shift ⟨rfl, by simpa using hf, w1, hi.one, c1⟩
    obtain ⟨ρ, s⟩ := key
    generalize gcVerts (gcEdges (gcFaces (gcCells ({ k with deferred := false } : Kernel)))) = g at s ⊢
    exact ⟨ρ, (s.congr_left (k0 := k) rfl rfl rfl rfl rfl rfl rfl rfl rfl).congr_right rfl rfl rfl rfl rfl rfl rfl rfl rfl⟩
  · rw [collectGarbage_id h]; exact ⟨Ren.id, LogIso.refl k⟩

/-! ### two images of the same mesh minus the same set -/

theorem KindOK.exists_inv {n n' : Nat} {del del' : List Bool} {S : Nat → Prop} {ρ : Nat → Nat} {cs cs' : List Col}
    (h : KindOK n del S n' del' ρ cs cs') :
    ∃ inv : Nat → Nat, (∀ y, y < n' → del'.getD y false = false → Surv n del S (inv y) ∧ ρ (inv y) = y) ∧
      (∀ x, Surv n del S x → inv (ρ x) = x) := by
  classical
  refine ⟨fun y => if hy : ∃ x, Surv n del S x ∧ ρ x = y then Classical.choose hy else 0, ?_, ?_⟩
  · intro y h1 h2
    have hy := h.onto y h1 h2
    simp only [hy, dite_true]
    exact Classical.choose_spec hy
  · intro x hx
    have hy : ∃ x', Surv n del S x' ∧ ρ x' = ρ x := ⟨x, hx, rfl⟩
    simp only [hy, dite_true]
    have := Classical.choose_spec hy
    exact h.inj _ _ this.1 hx this.2

theorem ColsFollow.of_same {P Q : Nat → Prop} {ρ1 ρ2 inv : Nat → Nat} {cs cs1 cs2 : List Col}
    (h1 : ColsFollow P ρ1 cs cs1) (h2 : ColsFollow P ρ2 cs cs2) (hq : ∀ y, Q y → P (inv y) ∧ ρ1 (inv y) = y) :
    ColsFollow Q (ρ2 ∘ inv) cs1 cs2 := by
  induction cs generalizing cs1 cs2 with
  | nil =>
    cases cs1 with
    | nil => cases cs2 with
      | nil => exact True.intro
      | cons _ _ => exact h2.elim
    | cons _ _ => exact h1.elim
  | cons c t ih =>
    cases cs1 with
    | nil => exact h1.elim
    | cons c1 t1 =>
      cases cs2 with
      | nil => exact h2.elim
      | cons c2 t2 =>
        refine ⟨⟨h2.1.1.trans h1.1.1.symm, h2.1.2.1.trans h1.1.2.1.symm, fun y hy => ?_⟩, ih h1.2 h2.2⟩
        obtain ⟨p1, p2⟩ := hq y hy
        have a := h1.1.2.2 _ p1
        have b := h2.1.2.2 _ p1
        rw [p2] at a
        exact b.trans a.symm

theorem KindOK.of_same {n n1 n2 : Nat} {del del1 del2 : List Bool} {S : Nat → Prop} {ρ1 ρ2 inv : Nat → Nat}
    {cs cs1 cs2 : List Col} (h1 : KindOK n del S n1 del1 ρ1 cs cs1) (h2 : KindOK n del S n2 del2 ρ2 cs cs2)
    (i1 : ∀ y, y < n1 → del1.getD y false = false → Surv n del S (inv y) ∧ ρ1 (inv y) = y)
    (i2 : ∀ x, Surv n del S x → inv (ρ1 x) = x) : KindOK n1 del1 none n2 del2 (ρ2 ∘ inv) cs1 cs2 := by
  refine ⟨?_, ?_, ?_, ColsFollow.of_same h1.cols h2.cols (fun y hy => i1 y hy.1 hy.2.1)⟩
  · intro y hy
    exact h2.into _ (i1 y hy.1 hy.2.1).1
  · intro y y' hy hy' e
    obtain ⟨a1, a2⟩ := i1 y hy.1 hy.2.1
    obtain ⟨b1, b2⟩ := i1 y' hy'.1 hy'.2.1
    have := h2.inj _ _ a1 b1 e
    rw [← a2, ← b2, this]
  · intro z hz1 hz2
    obtain ⟨x, hx, hxz⟩ := h2.onto z hz1 hz2
    have hy := h1.into x hx
    exact ⟨ρ1 x, ⟨hy.1, hy.2, fun f => f⟩, by show ρ2 (inv (ρ1 x)) = z; rw [i2 x hx, hxz]⟩

theorem HalfOK.of_same {n n1 : Nat} {del del1 : List Bool} {S : Nat → Prop} {ρ1 ρ2 inv : Nat → Nat}
    {cs cs1 cs2 : List Col} (h1 : HalfOK n del S ρ1 cs cs1) (h2 : HalfOK n del S ρ2 cs cs2)
    (i1 : ∀ y, y < n1 → del1.getD y false = false → Surv n del S (inv y) ∧ ρ1 (inv y) = y) :
    HalfOK n1 del1 none (ρ2 ∘ inv) cs1 cs2 := by
  unfold HalfOK at *
  rw [half_comp]
  refine ColsFollow.of_same h1 h2 (fun y hy => ?_)
  obtain ⟨a1, a2⟩ := i1 (y / 2) hy.1 hy.2.1
  refine ⟨by rw [half_div]; exact a1, ?_⟩
  unfold half
  have e1 : (2 * inv (y / 2) + y % 2) / 2 = inv (y / 2) := by omega
  have e2 : (2 * inv (y / 2) + y % 2) % 2 = y % 2 := by omega
  rw [e1, e2, a2]; omega

/-- **two images of the same logical mesh minus the same set are isomorphic** (when the survivors only refer to
    survivors, `RefsSurvive`: then both renumberings are inverted on everything a definition mentions) -/
theorem LogMinus.iso_of_same {k a b : Kernel} {ρ1 ρ2 : Ren} {S : Rem} (h1 : LogMinus k a ρ1 S) (h2 : LogMinus k b ρ2 S)
    (hr : RefsSurvive k S) : ∃ ρ, LogIso a b ρ := by
  obtain ⟨iv, v1, v2⟩ := h1.v.exists_inv
  obtain ⟨ie, e1, e2⟩ := h1.e.exists_inv
  obtain ⟨jf, f1, f2⟩ := h1.f.exists_inv
  obtain ⟨ic, c1, c2⟩ := h1.c.exists_inv
  refine ⟨⟨ρ2.v ∘ iv, ρ2.e ∘ ie, ρ2.f ∘ jf, ρ2.c ∘ ic⟩, KindOK.of_same (ρ2 := ρ2.v) (inv := iv) h1.v h2.v v1 v2,
    KindOK.of_same (ρ2 := ρ2.e) (inv := ie) h1.e h2.e e1 e2, KindOK.of_same (ρ2 := ρ2.f) (inv := jf) h1.f h2.f f1 f2,
    KindOK.of_same (ρ2 := ρ2.c) (inv := ic) h1.c h2.c c1 c2, HalfOK.of_same (ρ2 := ρ2.e) (inv := ie) h1.he h2.he e1,
    HalfOK.of_same (ρ2 := ρ2.f) (inv := jf) h1.hf h2.hf f1, ?_, ?_, ?_, h2.m.trans h1.m.symm⟩
  · intro y hy
    obtain ⟨x1, x2⟩ := e1 y hy.1 hy.2.1
    have hs := hr.e _ x1
    show b.edgeAt (ρ2.e (ie y)) = (ρ2.v (iv (a.edgeAt y).1), ρ2.v (iv (a.edgeAt y).2))
    have ha := h1.edge _ x1
    rw [x2] at ha
    rw [h2.edge _ x1, ha]
    show _ = (ρ2.v (iv (ρ1.v _)), ρ2.v (iv (ρ1.v _)))
    rw [v2 _ hs.1, v2 _ hs.2]
  · intro y hy
    obtain ⟨x1, x2⟩ := f1 y hy.1 hy.2.1
    have hs := hr.f _ x1
    show b.faceAt (ρ2.f (jf y)) = (a.faceAt y).map (half (ρ2.e ∘ ie))
    have ha := h1.face _ x1
    rw [x2] at ha
    rw [h2.face _ x1, ha, List.map_map]
    apply List.map_congr_left
    intro t ht
    show half ρ2.e t = half (ρ2.e ∘ ie) (half ρ1.e t)
    unfold half
    have q1 : (2 * ρ1.e (t / 2) + t % 2) / 2 = ρ1.e (t / 2) := by omega
    have q2 : (2 * ρ1.e (t / 2) + t % 2) % 2 = t % 2 := by omega
    simp only [Function.comp]
    rw [q1, q2, e2 _ (hs t ht)]
  · intro y hy
    obtain ⟨x1, x2⟩ := c1 y hy.1 hy.2.1
    have hs := hr.c _ x1
    show b.cellAt (ρ2.c (ic y)) = (a.cellAt y).map (half (ρ2.f ∘ jf))
    have ha := h1.cell _ x1
    rw [x2] at ha
    rw [h2.cell _ x1, ha, List.map_map]
    apply List.map_congr_left
    intro t ht
    show half ρ2.f t = half (ρ2.f ∘ jf) (half ρ1.f t)
    unfold half
    have q1 : (2 * ρ1.f (t / 2) + t % 2) / 2 = ρ1.f (t / 2) := by omega
    have q2 : (2 * ρ1.f (t / 2) + t % 2) % 2 = t % 2 := by omega
    simp only [Function.comp]
    rw [q1, q2, f2 _ (hs t ht)]

/-! ### deferred deletion + `collect_garbage` = immediate deletion -/

/-- the state `k` switched to immediate deletion (nothing pending) satisfies the invariant -/
theorem ginv_immediate {k : Kernel} (hi : GInv k) (hn : k.needsGC = false) : GInv ({ k with deferred := false } : Kernel) := by
  obtain ⟨n1, n2, n3, n4⟩ := hi.noFlag_of_noGC hn
  exact ginv_withDeferred_of_noFlag false hi.wf hi.one n1 n2 n3 n4

/-- generic form: a deletion `del` with closure set `clo` -/
theorem defer_gc_eq_imm {k : Kernel} (del : Kernel → Kernel) (S : Rem)
    (hdef : LogMinus k (del k) Ren.id S) (hg : GInv (del k))
    (himm : ∃ ρ, LogMinus ({ k with deferred := false } : Kernel) (del ({ k with deferred := false } : Kernel)) ρ S)
    (hr : RefsSurvive k S) :
    ∃ ρ, LogIso (del k).collectGarbage (del ({ k with deferred := false } : Kernel)) ρ := by
  obtain ⟨ρg, h2⟩ := collectGarbage_log hg
  obtain ⟨ρi, h3⟩ := himm
  exact LogMinus.iso_of_same (hdef.comp_iso h2) (h3.congr_left (k0 := k) rfl rfl rfl rfl rfl rfl rfl rfl rfl) hr

theorem liveV_lt {k : Kernel} {v : Nat} (h : k.liveV v = true) : v < k.nV := by
  unfold liveV at h; simp at h; exact h.1

/-- **deferred `delete_*` followed by `collect_garbage` gives the same logical mesh as the same `delete_*` performed
    immediately**, from a deferred-mode state with nothing pending, in both deletion styles (`fast` on / off: both
    sides use the style of `k`) and every bottom-up configuration -/
theorem deferred_gc_eq_immediate {k : Kernel} (hi : GInv k) (hd : k.deferred = true) (hn : k.needsGC = false) :
    (∀ c, c < k.nC → ∃ ρ, LogIso (k.deleteCell c).collectGarbage (({ k with deferred := false } : Kernel).deleteCell c) ρ) ∧
    (∀ f, f < k.nF → ∃ ρ, LogIso (k.deleteFace f).collectGarbage (({ k with deferred := false } : Kernel).deleteFace f) ρ) ∧
    (∀ e, e < k.nE → ∃ ρ, LogIso (k.deleteEdge e).collectGarbage (({ k with deferred := false } : Kernel).deleteEdge e) ρ) ∧
    (∀ v, v < k.nV → ∃ ρ, LogIso (k.deleteVertex v).collectGarbage (({ k with deferred := false } : Kernel).deleteVertex v) ρ) := by
  have gI := ginv_immediate hi hn
  obtain ⟨n1, n2, n3, n4⟩ := hi.noFlag_of_noGC hn
  refine ⟨fun c hc => ?_, fun f hf => ?_, fun e he => ?_, fun v hv => ?_⟩
  · obtain ⟨ρ, _, s⟩ := deleteCell_logical gI (c := c) hc
    exact defer_gc_eq_imm (fun k => k.deleteCell c) (cloC c) (deleteCell_def hi.wf hd hc) (ginv_deleteCell hc hi)
      ⟨ρ, s⟩ (refs_cloC hi.wf hi.closed c)
  · have hl : k.liveF f = true := by unfold liveF fDeleted; rw [n2.getD f]; simp [hf]
    obtain ⟨ρ, _, s⟩ := deleteFace_logical gI (f := f) hl
    exact defer_gc_eq_imm (fun k => k.deleteFace f) (cloF k f) (deleteFace_def hi.wf hi.one hd hl) (ginv_deleteFace hf hi)
      ⟨ρ, s⟩ (refs_cloF hi.wf hi.closed f)
  · have hl : k.liveE e = true := by unfold liveE eDeleted; rw [n3.getD e]; simp [he]
    obtain ⟨ρ, _, s⟩ := deleteEdge_logical gI (e := e) hl
    exact defer_gc_eq_imm (fun k => k.deleteEdge e) (cloE k e) (deleteEdge_def hi.wf hi.one hd hl) (ginv_deleteEdge he hi)
      ⟨ρ, s⟩ (refs_cloE hi.wf hi.closed e)
  · obtain ⟨ρ, _, s⟩ := deleteVertex_logical gI (v := v) hv
    exact defer_gc_eq_imm (fun k => k.deleteVertex v) (cloV k v) (deleteVertex_def hi.wf hi.one hd hv) (ginv_deleteVertex hv hi)
      ⟨ρ, s⟩ (refs_cloV hi.wf hi.closed v)
end Logical
end Kernel
end OVM

import OVM.Refine.RotInvGCFast
/-
  RotInv, part 11 (builder R1): `collect_garbage` in index-shifting mode (`fast = false`).  One flagged step =
  un-flag + unlink + erase of the flagged slot (OVM/Refine/RotInvGC.lean).  The invariant `GCInv` of the stepped
  states and the sweep induction are K4's (OVM/Refine/CacheGC.lean); the sweep proofs below repeat K4's with the
  rotational-order invariant added to the induction hypothesis.
-/
namespace OVM
namespace Kernel
namespace Rot
open Fan CellCheck ScanDel

theorem not_fast {k : Kernel} (h : k.fast = false) {α : Prop} (hf : k.fast = true) : α := by
  rw [h] at hf; cases hf

/-! ### one flagged step of each sweep -/
theorem rotStepC_shift {k : Kernel} {m : Nat} (hi : GCInv k) (hm : m < k.nC) (hd : k.cDeleted m = true)
    (hr : RotInv k) : RotInv (deleteCellCore (unflagC k m) m) := by
  obtain ⟨k3, e3, heq⟩ := gcCellStep (h := m) hi.deferred hi.fast hi.wf hd
  have hi3 := GCInv.of_fanEq e3 hi
  have hm3 : m < k3.nC := by rw [fanEq_nC e3]; exact hm
  have gB := gcInv_eraseCell hi3 hm3 (by rw [fanEq_cDeleted e3]; exact hd)
  have e0 : deleteCellCore (unflagC k m) m = ((unflagC k m).unlinkCell m).eraseCell m :=
    deleteCellCore_shift_eq (k := unflagC k m) m hi.deferred hi.fast
  have heq' : deleteCellCore (unflagC k m) m = k3.eraseCell m := heq
  have hwB : WF (((unflagC k m).unlinkCell m).eraseCell m) := by rw [← e0, heq']; exact gB.wf
  have hcB : Closed (((unflagC k m).unlinkCell m).eraseCell m) := by rw [← e0, heq']; exact gB.closed
  rw [e0]
  exact rotInv_popDeadCell hd (fun hf => not_fast hi.fast hf) hi.wf hwB hcB hr

theorem rotStepF_shift {k : Kernel} {m : Nat} (hi : GCInv k) (hc : CellsLive k) (hm : m < k.nF)
    (hd : k.fDeleted m = true) (hr : RotInv k) : RotInv (deleteFaceCore (unflagF k m) m) := by
  obtain ⟨k3, e3, heq⟩ := gcFaceStep (h := m) hi.deferred hi.fast hi.wf hd
  have hi3 := GCInv.of_fanEq e3 hi
  have hm3 : m < k3.nF := by rw [fanEq_nF e3]; exact hm
  have hc3 : CellsLive k3 := cellsLive_of_eq (by rw [e3.cells]) e3.cDel hc
  have ok := eraseFaceOK_of_gc hi3 hm3 (by rw [fanEq_fDeleted e3]; exact hd) hc3
  have gB := gcInv_eraseFace hi3 ok
  have e0 : deleteFaceCore (unflagF k m) m = ((unflagF k m).unlinkFace m).eraseFace m :=
    deleteFaceCore_shift_eq (k := unflagF k m) m hi.deferred hi.fast
  have heq' : deleteFaceCore (unflagF k m) m = k3.eraseFace m := heq
  have hwB : WF (((unflagF k m).unlinkFace m).eraseFace m) := by rw [← e0, heq']; exact gB.wf
  have hcB : Closed (((unflagF k m).unlinkFace m).eraseFace m) := by rw [← e0, heq']; exact gB.closed
  rw [e0]
  exact rotInv_popDeadFace hm hd (fun hf => not_fast hi.fast hf) hi.wf hi.one hc
    (unref_of_closed_f hi.closed hc hd) hwB hcB hr

theorem rotStepE_shift {k : Kernel} {m : Nat} (hi : GCInv k) (hfl : FacesLive k) (hm : m < k.nE)
    (hd : k.eDeleted m = true) (hr : RotInv k) : RotInv (deleteEdgeCore (unflagE k m) m) := by
  have ok := eraseEdgeOK_of_gc hi hm hd hfl
  have gB := gcInv_eraseEdge hi ok
  have heq : deleteEdgeCore (unflagE k m) m = k.eraseEdge m := gcEdgeStep (h := m) hi.deferred hi.fast hi.wf hd
  rw [heq]
  exact rotInv_eraseEdge_dead hm hd (fun hf => not_fast hi.fast hf) hi.wf hfl (unref_of_closed_e hi.closed hfl hd)
    gB.wf gB.closed hr

theorem rotStepV_shift {k : Kernel} {m : Nat} (hi : GCInv k) (hr : RotInv k) :
    RotInv (deleteVertexCore (unflagV k m) m) := by
  have heq : deleteVertexCore (unflagV k m) m = k.eraseVertex m := gcVertexStep (h := m) hi.deferred hi.fast
  rw [heq]; exact rotInv_eraseVertex m hr

/-! ### the four sweeps (K4's proofs with `RotInv` added) -/

theorem rotInv_sweepCells {k : Kernel} (hi : GCInv k) (hr : RotInv k) :
    RotInv (gcSweep k k.nC cDeleted (fun k i => { k with cDel := k.cDel.set i false }) deleteCellCore) := by
  have := gcSweep_induct (fun k m => (GCInv k ∧ m ≤ k.nC ∧ ∀ c, m ≤ c → c < k.nC → k.cDeleted c = false) ∧ RotInv k)
    cDeleted (fun k i => { k with cDel := k.cDel.set i false }) deleteCellCore ?_ k.nC k
    ⟨⟨hi, Nat.le_refl _, fun c h1 h2 => by omega⟩, hr⟩
  · exact this.2
  · intro k m ⟨⟨hi, hm, hl⟩, hr⟩
    by_cases hd : k.cDeleted m = true
    · simp only [hd, if_true]
      refine ⟨?_, rotStepC_shift hi (by omega) hd hr⟩
      obtain ⟨k3, e3, heq⟩ := gcCellStep (h := m) hi.deferred hi.fast hi.wf hd
      rw [heq]
      have hi3 := GCInv.of_fanEq e3 hi
      have hm3 : m < k3.nC := by rw [fanEq_nC e3]; omega
      refine ⟨gcInv_eraseCell hi3 hm3 (by rw [fanEq_cDeleted e3]; exact hd), ?_, ?_⟩
      · rw [eraseCell_nC k3 m hm3, fanEq_nC e3]; omega
      · intro c h1 h2
        rw [eraseCell_nC k3 m hm3, fanEq_nC e3] at h2
        rw [eraseCell_cDeleted, fanEq_cDeleted e3]
        have : up m c = c + 1 := by unfold up; split <;> omega
        rw [this]; exact hl (c + 1) (by omega) (by omega)
    · simp only [hd, Bool.false_eq_true, if_false]
      refine ⟨⟨hi, by omega, fun c h1 h2 => ?_⟩, hr⟩
      rcases Nat.eq_or_lt_of_le h1 with e | e
      · subst e; simpa using hd
      · exact hl c e h2

theorem rotInv_sweepFaces {k : Kernel} (hi : GCInv k) (hc : CellsLive k) (hr : RotInv k) :
    RotInv (gcSweep k k.nF fDeleted (fun k i => { k with fDel := k.fDel.set i false }) deleteFaceCore) := by
  have := gcSweep_induct (fun k m => (GCInv k ∧ CellsLive k ∧ m ≤ k.nF ∧ ∀ c, m ≤ c → c < k.nF → k.fDeleted c = false) ∧
      RotInv k)
    fDeleted (fun k i => { k with fDel := k.fDel.set i false }) deleteFaceCore ?_ k.nF k
    ⟨⟨hi, hc, Nat.le_refl _, fun c h1 h2 => by omega⟩, hr⟩
  · exact this.2
  · intro k m ⟨⟨hi, hc, hm, hl⟩, hr⟩
    by_cases hd : k.fDeleted m = true
    · simp only [hd, if_true]
      refine ⟨?_, rotStepF_shift hi hc (by omega) hd hr⟩
      obtain ⟨k3, e3, heq⟩ := gcFaceStep (h := m) hi.deferred hi.fast hi.wf hd
      rw [heq]
      have hi3 := GCInv.of_fanEq e3 hi
      have hm3 : m < k3.nF := by rw [fanEq_nF e3]; omega
      have hc3 : CellsLive k3 := cellsLive_of_eq (by rw [e3.cells]) e3.cDel hc
      have ok := eraseFaceOK_of_gc hi3 hm3 (by rw [fanEq_fDeleted e3]; exact hd) hc3
      refine ⟨gcInv_eraseFace hi3 ok, ?_, ?_, ?_⟩
      · exact cellsLive_of_eq (by rw [eraseFace_cells ok.fast hi3.wf ok.one ok.cellsLive ok.unref, List.length_map])
          (by simp) hc3
      · rw [eraseFace_nF k3 m hm3, fanEq_nF e3]; omega
      · intro c h1 h2
        rw [eraseFace_nF k3 m hm3, fanEq_nF e3] at h2
        rw [eraseFace_fDeleted, fanEq_fDeleted e3]
        have : up m c = c + 1 := by unfold up; split <;> omega
        rw [this]; exact hl (c + 1) (by omega) (by omega)
    · simp only [hd, Bool.false_eq_true, if_false]
      refine ⟨⟨hi, hc, by omega, fun c h1 h2 => ?_⟩, hr⟩
      rcases Nat.eq_or_lt_of_le h1 with e | e
      · subst e; simpa using hd
      · exact hl c e h2

theorem rotInv_sweepEdges {k : Kernel} (hi : GCInv k) (hc : CellsLive k) (hfl : FacesLive k) (hr : RotInv k) :
    RotInv (gcSweep k k.nE eDeleted (fun k i => { k with eDel := k.eDel.set i false }) deleteEdgeCore) := by
  have := gcSweep_induct (fun k m => (GCInv k ∧ CellsLive k ∧ FacesLive k ∧ m ≤ k.nE ∧
      ∀ c, m ≤ c → c < k.nE → k.eDeleted c = false) ∧ RotInv k)
    eDeleted (fun k i => { k with eDel := k.eDel.set i false }) deleteEdgeCore ?_ k.nE k
    ⟨⟨hi, hc, hfl, Nat.le_refl _, fun c h1 h2 => by omega⟩, hr⟩
  · exact this.2
  · intro k m ⟨⟨hi, hc, hfl, hm, hl⟩, hr⟩
    by_cases hd : k.eDeleted m = true
    · simp only [hd, if_true]
      refine ⟨?_, rotStepE_shift hi hfl (by omega) hd hr⟩
      rw [gcEdgeStep (h := m) hi.deferred hi.fast hi.wf hd]
      have hm3 : m < k.nE := by omega
      have ok := eraseEdgeOK_of_gc hi hm3 hd hfl
      refine ⟨gcInv_eraseEdge hi ok, ?_, ?_, ?_, ?_⟩
      · exact cellsLive_of_eq (by simp) (by simp) hc
      · exact facesLive_of_eq (by rw [eraseEdge_faces hi.wf ok, List.length_map]) (by simp) hfl
      · rw [eraseEdge_nE k m hm3]; omega
      · intro c h1 h2
        rw [eraseEdge_nE k m hm3] at h2
        rw [eraseEdge_eDeleted]
        have : up m c = c + 1 := by unfold up; split <;> omega
        rw [this]; exact hl (c + 1) (by omega) (by omega)
    · simp only [hd, Bool.false_eq_true, if_false]
      refine ⟨⟨hi, hc, hfl, by omega, fun c h1 h2 => ?_⟩, hr⟩
      rcases Nat.eq_or_lt_of_le h1 with e | e
      · subst e; simpa using hd
      · exact hl c e h2

theorem rotInv_sweepVerts {k : Kernel} (hi : GCInv k) (hc : CellsLive k) (hfl : FacesLive k) (hel : EdgesLive k)
    (hr : RotInv k) :
    RotInv (gcSweep k k.nV vDeleted (fun k i => { k with vDel := k.vDel.set i false }) deleteVertexCore) := by
  have := gcSweep_induct (fun k m => (GCInv k ∧ CellsLive k ∧ FacesLive k ∧ EdgesLive k ∧ m ≤ k.nV ∧
      ∀ c, m ≤ c → c < k.nV → k.vDeleted c = false) ∧ RotInv k)
    vDeleted (fun k i => { k with vDel := k.vDel.set i false }) deleteVertexCore ?_ k.nV k
    ⟨⟨hi, hc, hfl, hel, Nat.le_refl _, fun c h1 h2 => by omega⟩, hr⟩
  · exact this.2
  · intro k m ⟨⟨hi, hc, hfl, hel, hm, hl⟩, hr⟩
    by_cases hd : k.vDeleted m = true
    · simp only [hd, if_true]
      refine ⟨?_, rotStepV_shift hi hr⟩
      rw [gcVertexStep (h := m) hi.deferred hi.fast]
      have hm3 : m < k.nV := by omega
      have ok := eraseVertexOK_of_gc hi hm3 hd hel
      refine ⟨gcInv_eraseVertex hi ok, ?_, ?_, ?_, ?_, ?_⟩
      · exact cellsLive_of_eq (by simp) (by simp) hc
      · exact facesLive_of_eq (by simp) (by simp) hfl
      · exact edgesLive_of_eq (by rw [eraseVertex_edges hi.wf ok, List.length_map]) (by simp) hel
      · rw [eraseVertex_nV]; omega
      · intro c h1 h2
        rw [eraseVertex_nV] at h2
        rw [eraseVertex_vDeleted]
        have : up m c = c + 1 := by unfold up; split <;> omega
        rw [this]; exact hl (c + 1) (by omega) (by omega)
    · simp only [hd, Bool.false_eq_true, if_false]
      refine ⟨⟨hi, hc, hfl, hel, by omega, fun c h1 h2 => ?_⟩, hr⟩
      rcases Nat.eq_or_lt_of_le h1 with e | e
      · subst e; simpa using hd
      · exact hl c e h2

/-- **`collect_garbage` in index-shifting mode keeps the invariant** -/
theorem rotInv_collectGarbage_shift {k : Kernel} (hf : k.fast = false) (hw : WF k) (h1 : k.oneCell = true)
    (hc : Closed k) (hr : RotInv k) : RotInv k.collectGarbage := by
  by_cases hrun : k.deferred = true ∧ k.needsGC = true
  · obtain ⟨hd, hg⟩ := hrun
    have hcg : k.collectGarbage =
        { gcVerts (gcEdges (gcFaces (gcCells { k with deferred := false }))) with deferred := true } := by
      unfold collectGarbage; simp [hd, hg]
    rw [hcg]
    apply rotInv_withDeferred true
    have hk0 : GCInv ({ k with deferred := false } : Kernel) :=
      ⟨rfl, hf, wf_of_fans_perm (k := k) (k' := { k with deferred := false }) rfl rfl rfl rfl rfl rfl rfl rfl rfl rfl rfl
          rfl rfl rfl rfl (fun _ => List.Perm.refl _) hw,
       oneCell_of_same (k := k) (k' := { k with deferred := false }) rfl rfl rfl h1,
       closed_of_eq (k := k) (k' := { k with deferred := false }) rfl rfl rfl rfl rfl rfl rfl rfl hc⟩
    have r0 : RotInv ({ k with deferred := false } : Kernel) := rotInv_withDeferred false hr
    generalize ({ k with deferred := false } : Kernel) = k0 at hk0 r0
    have s1 := gcInv_sweepCells hk0
    have i1 : GCInv (gcCells k0) := gcInv_congr (k := gcSweep k0 k0.nC cDeleted _ deleteCellCore) (k' := gcCells k0)
      rfl rfl rfl rfl rfl rfl rfl rfl rfl rfl rfl rfl rfl rfl rfl rfl rfl s1.1
    have c1 : CellsLive (gcCells k0) :=
      cellsLive_of_eq (k := gcSweep k0 k0.nC cDeleted _ deleteCellCore) (k' := gcCells k0) rfl rfl s1.2
    have r1 : RotInv (gcCells k0) := by unfold gcCells; exact rotInv_withNDel _ _ _ 0 (rotInv_sweepCells hk0 r0)
    generalize gcCells k0 = k1 at i1 c1 r1
    have s2 := gcInv_sweepFaces i1 c1
    have i2 : GCInv (gcFaces k1) := gcInv_congr (k := gcSweep k1 k1.nF fDeleted _ deleteFaceCore) (k' := gcFaces k1)
      rfl rfl rfl rfl rfl rfl rfl rfl rfl rfl rfl rfl rfl rfl rfl rfl rfl s2.1
    have c2 : CellsLive (gcFaces k1) :=
      cellsLive_of_eq (k := gcSweep k1 k1.nF fDeleted _ deleteFaceCore) (k' := gcFaces k1) rfl rfl s2.2.1
    have f2 : FacesLive (gcFaces k1) :=
      facesLive_of_eq (k := gcSweep k1 k1.nF fDeleted _ deleteFaceCore) (k' := gcFaces k1) rfl rfl s2.2.2
    have r2 : RotInv (gcFaces k1) := by unfold gcFaces; exact rotInv_withNDel _ _ 0 _ (rotInv_sweepFaces i1 c1 r1)
    generalize gcFaces k1 = k2 at i2 c2 f2 r2
    have s3 := gcInv_sweepEdges i2 c2 f2
    have i3 : GCInv (gcEdges k2) := gcInv_congr (k := gcSweep k2 k2.nE eDeleted _ deleteEdgeCore) (k' := gcEdges k2)
      rfl rfl rfl rfl rfl rfl rfl rfl rfl rfl rfl rfl rfl rfl rfl rfl rfl s3.1
    have c3 : CellsLive (gcEdges k2) :=
      cellsLive_of_eq (k := gcSweep k2 k2.nE eDeleted _ deleteEdgeCore) (k' := gcEdges k2) rfl rfl s3.2.1
    have f3 : FacesLive (gcEdges k2) :=
      facesLive_of_eq (k := gcSweep k2 k2.nE eDeleted _ deleteEdgeCore) (k' := gcEdges k2) rfl rfl s3.2.2.1
    have e3 : EdgesLive (gcEdges k2) :=
      edgesLive_of_eq (k := gcSweep k2 k2.nE eDeleted _ deleteEdgeCore) (k' := gcEdges k2) rfl rfl s3.2.2.2
    have r3 : RotInv (gcEdges k2) := by unfold gcEdges; exact rotInv_withNDel _ 0 _ _ (rotInv_sweepEdges i2 c2 f2 r2)
    generalize gcEdges k2 = k3 at i3 c3 f3 e3 r3
    unfold gcVerts
    exact rotInv_withNDel 0 _ _ _ (rotInv_sweepVerts i3 c3 f3 e3 r3)
  · rw [Global.collectGarbage_id hrun]; exact hr

/-- **`collect_garbage` keeps the invariant** (both modes), on top of the global invariant -/
theorem rotInv_collectGarbage {k : Kernel} (hg : Global.GInv k) (hr : RotInv k) : RotInv k.collectGarbage := by
  by_cases hf : k.fast = true
  · obtain ⟨hC, hF, hE⟩ := (Global.closed_iff_up k).mp hg.closed
    exact rotInv_collectGarbage_fast hf hg.wf hg.one hC hF hE hr
  · exact rotInv_collectGarbage_shift (by simpa using hf) hg.wf hg.one hg.closed hr

end Rot
end Kernel
end OVM

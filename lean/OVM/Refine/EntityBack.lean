import OVM.Iter.Lemmas
/-
  `operator--` of the six entity iterators (VertexIter.cc:19-29, EdgeIter.cc, HalfEdgeIter.cc:21-31, FaceIter.cc,
  HalfFaceIter.cc, CellIter.cc — the same loop in each):  `--i; while (i >= 0 && is_deleted(i)) --i;  if (i < 0) invalid`.
  `skipBwdP p i` is the slot reached from position `i` (`none` = fell below 0).  Proved for every predicate and every
  count: stepping back from where `operator++` landed returns to where it started (also when `operator++` ran off the
  end — the handle comes back, the `valid` flag does not: as for the circulators, `operator--` never sets it, F10).
  Tie to the code: the driver evaluates "stepping backward undoes stepping forward" on every iterator it runs
  (`backok` field of the `ite_*` lines, Judge/Iters.lean); this file is the model-side proof of that clause.
-/
namespace OVM

/-- the slot `operator--` reaches from position `i`: the largest `j < i` satisfying `p` -/
def skipBwdP (p : Nat → Bool) : Nat → Option Nat
  | 0 => none
  | i + 1 => if p i then some i else skipBwdP p i

/-- between a start and the slot the forward skip loop stops at, nothing satisfies `p` -/
theorem skipFwdP_gap (p : Nat → Bool) (n : Nat) : ∀ (d s : Nat), n - s = d → ∀ j, s ≤ j → j < skipFwdP p n s → p j = false := by
  intro d
  induction d with
  | zero =>
    intro s hs j hj hlt
    rw [skipFwdP_unfold] at hlt
    have : ¬ s < n := by omega
    simp only [this, if_false] at hlt
    omega
  | succ d ih =>
    intro s hs j hj hlt
    have hsn : s < n := by omega
    rw [skipFwdP_unfold] at hlt
    simp only [hsn, if_true] at hlt
    by_cases hp : p s = true
    · simp only [hp, if_true] at hlt; omega
    · have hp' : p s = false := by simpa using hp
      simp only [hp', Bool.false_eq_true, if_false] at hlt
      by_cases e : j = s
      · rw [e]; exact hp'
      · exact ih (s + 1) (by omega) j (by omega) hlt

/-- stepping back over a stretch without `p` down to a slot with `p` -/
theorem skipBwdP_to (p : Nat → Bool) (a : Nat) (ha : p a = true) :
    ∀ (g b : Nat), b = a + 1 + g → (∀ j, a + 1 ≤ j → j < b → p j = false) → skipBwdP p b = some a := by
  intro g
  induction g with
  | zero => intro b hb _; subst hb; simp [skipBwdP, ha]
  | succ g ih =>
    intro b hb hgap
    obtain ⟨b', rfl⟩ : ∃ b', b = b' + 1 := ⟨b - 1, by omega⟩
    have : p b' = false := hgap b' (by omega) (by omega)
    simp only [skipBwdP, this, Bool.false_eq_true, if_false]
    exact ih b' (by omega) (fun j h1 h2 => hgap j h1 (by omega))

/-- **`--(++it) == it` for the entity iterators**: from a slot `a` satisfying `p` (a valid iterator), `operator++`
    moves to `skipFwdP p n (a+1)` (possibly `n` = end); `operator--` from there comes back to `a` -/
theorem entity_back_undoes_forward (p : Nat → Bool) (n a : Nat) (ha : p a = true) :
    skipBwdP p (skipFwdP p n (a + 1)) = some a := by
  have hle := le_skipFwdP p n (a + 1)
  exact skipBwdP_to p a ha (skipFwdP p n (a + 1) - (a + 1)) _ (by omega)
    (fun j h1 h2 => skipFwdP_gap p n _ (a + 1) rfl j h1 h2)

/-- decrementing the end iterator (position `n`) gives the last slot satisfying `p`; with none, it falls below 0 -/
theorem entity_prev_of_end (p : Nat → Bool) (n : Nat) :
    (∀ a, skipBwdP p n = some a → a < n ∧ p a = true ∧ ∀ j, a < j → j < n → p j = false) ∧
    (skipBwdP p n = none → ∀ j, j < n → p j = false) := by
  induction n with
  | zero => exact ⟨fun a h => by simp [skipBwdP] at h, fun _ j hj => by omega⟩
  | succ n ih =>
    by_cases hp : p n = true
    · simp only [skipBwdP, hp, if_true]
      exact ⟨fun a h => by cases h; exact ⟨by omega, hp, fun j h1 h2 => by omega⟩, fun h => by cases h⟩
    · have hp' : p n = false := by simpa using hp
      simp only [skipBwdP, hp', Bool.false_eq_true, if_false]
      refine ⟨fun a h => ?_, fun h j hj => ?_⟩
      · obtain ⟨h1, h2, h3⟩ := ih.1 a h
        refine ⟨by omega, h2, fun j hj1 hj2 => ?_⟩
        by_cases e : j = n
        · rw [e]; exact hp'
        · exact h3 j hj1 (by omega)
      · by_cases e : j = n
        · rw [e]; exact hp'
        · exact ih.2 h j (by omega)

example : skipFwdP (liveFlag [true, false, true, true, false, true]) 6 2 = 4 ∧
    skipBwdP (liveFlag [true, false, true, true, false, true]) 4 = some 1 ∧
    skipBwdP (liveFlag [true, false, true, true, false, true]) 1 = none := by decide

end OVM

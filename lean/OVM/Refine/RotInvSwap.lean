import OVM.Refine.RotInvToggle
/-
  RotInv, part 4 (builder R1): the four index swaps.  `swap_X_indices` is the relabeling "exchange the two names
  everywhere" (K3: OVM/Refine/CacheSwapSpec.lean) on everything live; the fan predicates are invariant under a
  renaming (`EmbAt`, OVM/Refine/RotInvEmb.lean), with the renaming `relabelId a b` of cells, `relabelHalf a b` of
  halffaces resp. halfedges.  Vertices are not read by the fan predicates at all.
-/
namespace OVM
namespace Kernel
namespace Rot
open Fan CellCheck ScanDel

theorem relabelId_inj (a b : Nat) : ∀ x y, relabelId a b x = relabelId a b y → x = y := by
  intro x y h
  have := congrArg (relabelId a b) h
  rwa [relabelId_invol, relabelId_invol] at this

theorem relabelHalf_inj (a b : Nat) : ∀ x y, relabelHalf a b x = relabelHalf a b y → x = y := by
  intro x y h
  have := congrArg (relabelHalf a b) h
  rwa [k3_relabelHalf_invol, k3_relabelHalf_invol] at this

theorem relabelHalf_heOf0 (a b e : Nat) : relabelHalf a b (heOf (relabelId a b e) 0) = heOf e 0 := by
  unfold heOf; rw [Nat.add_zero, Nat.add_zero, k3_relabelHalf_even, relabelId_invol]
theorem relabelHalf_heOf1 (a b e : Nat) : relabelHalf a b (heOf (relabelId a b e) 1) = heOf e 1 := by
  unfold heOf; rw [k3_relabelHalf_odd, relabelId_invol]

/-- the scan follows the cache when both states have exact face caches -/
theorem sCellOf_of_cf {A B : Kernel} {ιF ιC : Nat → Nat} (hA : ∀ x, A.cellOf x = A.sCellOf x)
    (hB : ∀ x, B.cellOf x = B.sCellOf x) {x : Nat} (h : B.cellOf (ιF x) = (A.cellOf x).map ιC) :
    B.sCellOf (ιF x) = (A.sCellOf x).map ιC := by
  rw [← hA, ← hB]; exact h

/-! ### cells -/
theorem rotInv_swapCell {k : Kernel} {a b : Nat} (ha : a < k.nC) (hb : b < k.nC) (hw : WF k) (hc : Closed k)
    (hwB : WF (k.swapCell a b)) (hi : RotInv k) : RotInv (k.swapCell a b) := by
  by_cases hab : a = b
  · have : k.swapCell a b = k := by unfold swapCell; simp [hab]
    rw [this]; exact hi
  · apply rotInv_transfer (A := k) ?_ ?_ hi
    · intro h1 h2; exact ⟨by simpa using h1, by simpa using h2⟩
    · intro hbe hbf e _
      have hbe' : k.eBU = true := by simpa using hbe
      have hbf' : k.fBU = true := by simpa using hbf
      have hcellOf : ∀ x, (k.swapCell a b).cellOf x = (k.cellOf x).map (relabelId a b) := by
        intro x
        rw [swapCell_eq_spec hab hw]
        unfold cellOf relabelCellSpec
        simp only [hbf', if_true]
        exact k3_getD_map _ _ _ rfl x
      refine ⟨id, id, relabelId a b, fun x => k.liveF (eOf x) = true, e, ?_⟩
      exact {
        injE := fun _ _ h => h
        injF := fun _ _ h => h
        injC := relabelId_inj a b
        oppE := fun _ => rfl
        oppF := fun _ => rfl
        mates := fun x c _ hcx y hy => mates_live hw hc hcx y hy
        hes := fun x _ => by
          rw [List.map_id]; unfold hfHes faceAt; rw [swapCell_faces]; rfl
        cells := fun x c _ _ => by
          rw [List.map_id, swapCell_cellAt hab ha hb, relabelId_invol]
        cellOf := fun x _ => hcellOf x
        sCellOf := fun x _ => sCellOf_of_cf (ιF := id) (cf_of_wf hw hbf') (cf_of_wf hwB hbf) (hcellOf x)
        he0 := rfl
        slot0 := by rw [List.map_id]; unfold hfsOf; rw [swapCell_incHfs]
        slot1 := by rw [List.map_id]; unfold hfsOf; rw [swapCell_incHfs]
        memS := fun x hx => by
          have := (mem_slot hw hbe' hx).1
          exact ⟨this, by rw [liveF_opp]; exact this⟩ }

/-! ### faces -/
theorem rotInv_swapFace {k : Kernel} {a b : Nat} (ha : a < k.nF) (hb : b < k.nF) (hw : WF k) (h1 : k.oneCell = true)
    (hc : Closed k) (hwB : WF (k.swapFace a b)) (hi : RotInv k) : RotInv (k.swapFace a b) := by
  by_cases hab : a = b
  · have : k.swapFace a b = k := by unfold swapFace; simp [hab]
    rw [this]; exact hi
  · apply rotInv_transfer (A := k) ?_ ?_ hi
    · intro h1 h2; exact ⟨by simpa using h1, by simpa using h2⟩
    · intro hbe hbf e _
      have hbe' : k.eBU = true := by simpa using hbe
      have hbf' : k.fBU = true := by simpa using hbf
      obtain ⟨e1, _, e3⟩ := swapFace_eq_spec_live ha hb hab hw (fun _ => h1)
      have hlenC : k.incCell.length = k.nHF := hw.len.incCell hbf'
      have hcellOf : ∀ x, (k.swapFace a b).cellOf (relabelHalf a b x) = (k.cellOf x).map id := by
        intro x
        rw [Option.map_id, id]
        unfold cellOf
        rw [e1]
        show (relabelFaceSpec k a b).incCell.getD _ _ = _
        unfold relabelFaceSpec
        simp only [hbf', if_true]
        rw [k3_getD_swapAt2 _ _ _ _ _ (by rw [hlenC]; unfold nHF nF at *; omega) (by rw [hlenC]; unfold nHF nF at *; omega),
          k3_relabelHalf_invol]
      have hslot : ∀ y, (k.swapFace a b).hfsOf y = (k.hfsOf y).map (relabelHalf a b) := by
        intro y
        unfold hfsOf
        rw [swapFace_incHfs_eq hab hw hbe']
        exact k3_getD_map _ _ _ rfl y
      refine ⟨id, relabelHalf a b, id, fun x => k.liveF (eOf x) = true, e, ?_⟩
      exact {
        injE := fun _ _ h => h
        injF := relabelHalf_inj a b
        injC := fun _ _ h => h
        oppE := fun _ => rfl
        oppF := k3_relabelHalf_opp a b
        mates := fun x c _ hcx y hy => mates_live hw hc hcx y hy
        hes := fun x _ => by rw [List.map_id, swapFace_hfHes hab ha hb, k3_relabelHalf_invol]
        cells := fun x c _ hcx => by
          rw [id, e3 c (fun _ => (Kernel.sCellOf_some hcx).1)]
          unfold relabelFaceSpec cellAt
          exact k3_getD_map _ _ _ rfl c
        cellOf := fun x _ => hcellOf x
        sCellOf := fun x _ => sCellOf_of_cf (cf_of_wf hw hbf') (cf_of_wf hwB hbf) (hcellOf x)
        he0 := rfl
        slot0 := hslot _
        slot1 := hslot _
        memS := fun x hx => by
          have := (mem_slot hw hbe' hx).1
          exact ⟨this, by rw [liveF_opp]; exact this⟩ }

/-! ### edges -/
theorem rotInv_swapEdge {k : Kernel} {a b : Nat} (ha : a < k.nE) (hb : b < k.nE) (hw : WF k)
    (hc : Closed k) (hwB : WF (k.swapEdge a b)) (hi : RotInv k) : RotInv (k.swapEdge a b) := by
  by_cases hab : a = b
  · have : k.swapEdge a b = k := by unfold swapEdge; simp [hab]
    rw [this]; exact hi
  · apply rotInv_transfer (A := k) ?_ ?_ hi
    · intro h1 h2; exact ⟨by simpa using h1, by simpa using h2⟩
    · intro hbe hbf e _
      have hbe' : k.eBU = true := by simpa using hbe
      have hbf' : k.fBU = true := by simpa using hbf
      obtain ⟨e1, _, e3⟩ := swapEdge_eq_spec_live ha hb hab hw
      have hlenE : k.incHfs.length = k.nHE := hw.len.incHfs hbe'
      have hcellOf : ∀ x, (k.swapEdge a b).cellOf x = (k.cellOf x).map id := by
        intro x; rw [Option.map_id, id]; unfold cellOf; rw [swapEdge_incCell]
      have hslot : ∀ y, (k.swapEdge a b).hfsOf (relabelHalf a b y) = k.hfsOf y := by
        intro y
        unfold hfsOf
        rw [e1]
        show (relabelEdgeSpec k a b).incHfs.getD _ _ = _
        unfold relabelEdgeSpec
        simp only [hbe', if_true]
        rw [k3_getD_swapAt2 _ _ _ _ _ (by rw [hlenE]; unfold nHE nE at *; omega) (by rw [hlenE]; unfold nHE nE at *; omega),
          k3_relabelHalf_invol]
      refine ⟨relabelHalf a b, id, id, fun x => k.liveF (eOf x) = true, relabelId a b e, ?_⟩
      exact {
        injE := relabelHalf_inj a b
        injF := fun _ _ h => h
        injC := fun _ _ h => h
        oppE := k3_relabelHalf_opp a b
        oppF := fun _ => rfl
        mates := fun x c _ hcx y hy => mates_live hw hc hcx y hy
        hes := fun x hx => by
          have hf := e3 (eOf x) (fun _ => hx)
          have hf' : (relabelEdgeSpec k a b).faceAt (eOf x) = (k.faceAt (eOf x)).map (relabelHalf a b) := by
            unfold relabelEdgeSpec faceAt; exact k3_getD_map _ _ _ rfl _
          show (k.swapEdge a b).hfHes x = _
          unfold hfHes
          rw [hf, hf']
          split
          · rfl
          · exact k3_oppFace_map_relabelHalf a b _
        cells := fun x c _ _ => by rw [List.map_id, id]; unfold cellAt; rw [swapEdge_cells]
        cellOf := fun x _ => hcellOf x
        sCellOf := fun x _ => sCellOf_of_cf (ιF := id) (cf_of_wf hw hbf') (cf_of_wf hwB hbf) (hcellOf x)
        he0 := relabelHalf_heOf0 a b e
        slot0 := by rw [List.map_id, ← relabelHalf_heOf0 a b e]; exact hslot _
        slot1 := by rw [List.map_id, ← relabelHalf_heOf1 a b e]; exact hslot _
        memS := fun x hx => by
          have := (mem_slot hw hbe' hx).1
          exact ⟨this, by rw [liveF_opp]; exact this⟩ }

/-! ### vertices -/
theorem rotInv_swapVertex {k : Kernel} (a b : Nat) (hi : RotInv k) : RotInv (k.swapVertex a b) := by
  apply rotInv_of_same (A := k) _ _ _ hi
  · intro h1 h2; exact ⟨by simpa using h1, by simpa using h2⟩
  · unfold swapVertex; split <;> exact ⟨rfl, rfl, rfl, rfl⟩
  · intro y; unfold swapVertex; split <;> rfl

end Rot
end Kernel
end OVM

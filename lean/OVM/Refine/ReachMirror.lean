import OVM.Refine.ReachLookups
/-
  C08 on reachable states: the two halffaces of a live face are exact mirror images.

  `FaceLoop` (every live face is a closed loop, OVM/Refine/FaceLoopStep.lean) holds after every history of valid calls
  that respects `LoopOK`; `addFaceV_loop` there is the kernel-level statement that `add_face(v0 … v_{n-1})` creates a
  closed loop whose halfedges run v0→v1→…→v0.  This file adds the consequences for a live halfface `hf` and its
  opposite:
  * `map_toV_eq_rotate` — in a closed loop the targets are the sources rotated by one;
  * `hfVerts_opp_of_loop` — `get_halfface_vertices(opposite hf)` is the REVERSE cycle of `get_halfface_vertices(hf)`:
    `v0 v1 … v_{n-1}` ↦ `v0 v_{n-1} … v1` (`= ((hfVerts hf).rotateLeft 1).reverse`);
  * `nextHe_opp` / `prevHe_opp` — on the opposite side next and prev are the mirrored prev and next:
    `next (opp he) (opp hf) = opp (prev he hf)`, for a halfface without a repeated halfedge;
  * `toV_eq_fromV_next` — `next_halfedge_in_halfface` steps along the loop: it starts where the given halfedge ends;
  * `cyc_of_loop` — a closed loop is cyclically connected (the hypothesis `Global.FaceCyc` of vertex → cells, C05).
  Proof-only file.
-/
namespace OVM
namespace Kernel
namespace Global
open ScanDel Lookup

/-- a closed loop is cyclically connected: each halfedge ends where another starts and starts where another ends
    (the body of `Global.FaceCyc` / `Global.Cyc`, OVM/Refine/GlobalLoops.lean, FaceCycStep.lean) -/
theorem cyc_of_loop {k : Kernel} {hes : List Nat} (hc : Loop k hes) :
    ∀ x ∈ hes, (∃ y ∈ hes, k.fromV y = k.toV x) ∧ (∃ z ∈ hes, k.toV z = k.fromV x) := by
  obtain ⟨hne, hcl⟩ := hc
  intro x hx
  obtain ⟨i, hi, rfl⟩ := List.getElem_of_mem hx
  have hpos : 0 < hes.length := by omega
  have hxi : hes[i] = hes.getD i 0 := by rw [List.getD_eq_getElem?_getD, List.getElem?_eq_getElem hi]; rfl
  constructor
  · refine ⟨hes.getD ((i + 1) % hes.length) 0, LoopSt.getD_mem0 (Nat.mod_lt _ hpos), ?_⟩
    rw [hxi]; exact (hcl i hi).symm
  · refine ⟨hes.getD ((i + hes.length - 1) % hes.length) 0, LoopSt.getD_mem0 (Nat.mod_lt _ hpos), ?_⟩
    have := hcl ((i + hes.length - 1) % hes.length) (Nat.mod_lt _ hpos)
    rw [this, hxi]
    congr 2
    by_cases h0 : i = 0
    · subst h0
      rw [Nat.zero_add, Nat.mod_eq_of_lt (by omega : hes.length - 1 < hes.length),
        show hes.length - 1 + 1 = hes.length by omega, Nat.mod_self]
    · have e1 : (i + hes.length - 1) % hes.length = i - 1 := by
        rw [show i + hes.length - 1 = (i - 1) + hes.length by omega, Nat.add_mod_right, Nat.mod_eq_of_lt (by omega)]
      rw [e1, show i - 1 + 1 = i by omega, Nat.mod_eq_of_lt hi]

/-- the converse fails: cyclically connected (the unordered body of `FaceCyc`) does not give a closed loop — the halfedges
    `0→1, 2→0, 1→2` in this order.  So `Lookup.HfCyclic` cannot be derived from `Global.FaceCyc`, only from `FaceLoop`;
    `LoopOK` asks of the unchecked calls a closed loop where `CycOK` asks a cyclically connected list -/
example :
    let k : Kernel := { nV := 3, edges := [(0, 1), (1, 2), (2, 0)], faces := [[0, 4, 2]] }
    (∀ x ∈ k.faceAt 0, (∃ y ∈ k.faceAt 0, k.fromV y = k.toV x) ∧ (∃ z ∈ k.faceAt 0, k.toV z = k.fromV x)) ∧
    loopB k (k.faceAt 0) = false ∧ Lookup.hfCyclicB k 0 = false := by decide

/-- in a closed loop the list of targets is the list of sources rotated by one -/
theorem map_toV_eq_rotate {k : Kernel} {hes : List Nat} (hc : Loop k hes) :
    hes.map k.toV = (hes.map k.fromV).rotateLeft 1 := by
  obtain ⟨hne, hcl⟩ := hc
  have hpos : 0 < hes.length := List.length_pos_iff.mpr hne
  by_cases h1 : hes.length = 1
  · match hes, h1, hcl with
    | [a], _, hcl =>
      have := hcl 0 (by simp)
      simp at this
      simp [List.rotateLeft, this]
  · have hl : 1 < (hes.map k.fromV).length := by rw [List.length_map]; omega
    apply List.ext_getElem?
    intro j
    by_cases hj : j < hes.length
    · rw [getElem?_rotateLeft _ 1 j hl (by rw [List.length_map]; exact hj), List.length_map, List.getElem?_map,
        List.getElem?_map, List.getElem?_eq_getElem hj, Nat.add_comm 1 j]
      have hj1 : (j + 1) % hes.length < hes.length := Nat.mod_lt _ hpos
      rw [List.getElem?_eq_getElem hj1]
      have := hcl j hj
      rw [List.getD_eq_getElem?_getD, List.getD_eq_getElem?_getD, List.getElem?_eq_getElem hj,
        List.getElem?_eq_getElem hj1] at this
      simpa using this
    · rw [List.getElem?_eq_none (by rw [List.length_map]; omega),
        List.getElem?_eq_none (by rw [length_rotateLeft', List.length_map]; omega)]

/-- **the vertex circulator of the opposite halfface runs the reverse cycle**: for a halfface that is a closed loop
    with vertices `v0 v1 … v_{n-1}`, `get_halfface_vertices(opposite_halfface(hf))` is `v0 v_{n-1} … v1` -/
theorem hfVerts_opp_of_loop {k : Kernel} {hf : Nat} (hc : Loop k (k.hfHes hf)) :
    k.hfVerts (opp hf) = ((k.hfVerts hf).rotateLeft 1).reverse := by
  have e : k.hfHes (opp hf) = oppFace (k.hfHes hf) := by
    show k.hfHes (opp hf) = oppFace (k.hfHes hf)
    unfold hfHes eOf side opp
    rw [xor_one_div, xor_one_mod]
    by_cases hh : hf % 2 = 0
    · have : ¬ (1 - hf % 2 = 0) := by omega
      simp [hh]
    · have : 1 - hf % 2 = 0 := by omega
      have inv : ∀ l : List Nat, oppFace (oppFace l) = l := by
        intro l; unfold oppFace
        simp [List.map_reverse, Function.comp_def, opp, xor_one_xor_one]
      simp [hh, this, inv]
  unfold hfVerts
  rw [e, ← map_toV_eq_rotate hc]
  unfold oppFace
  rw [List.map_map, ← List.map_reverse]
  exact List.map_congr_left (fun a _ => Lookup.fromV_opp k a)

/-- the opposite halfface lists the opposite halfedges in reverse order (`Props.C08.hfHes_opp`) -/
theorem hfHes_opp' (k : Kernel) (hf : Nat) : k.hfHes (opp hf) = oppFace (k.hfHes hf) := by
  unfold hfHes eOf side opp
  rw [xor_one_div, xor_one_mod]
  by_cases hh : hf % 2 = 0
  · have : ¬ (1 - hf % 2 = 0) := by omega
    simp [hh]
  · have : 1 - hf % 2 = 0 := by omega
    have inv : ∀ l : List Nat, oppFace (oppFace l) = l := by
      intro l; unfold oppFace
      simp [List.map_reverse, Function.comp_def, opp, xor_one_xor_one]
    simp [hh, this, inv]

theorem nodup_oppFace {l : List Nat} (h : l.Nodup) : (oppFace l).Nodup := by
  unfold oppFace List.Nodup
  rw [List.pairwise_map, List.pairwise_reverse]
  unfold List.Nodup at h
  exact h.imp (fun {a b} hab e => hab (by
    have := congrArg opp e
    rw [ScanDel.opp_opp, ScanDel.opp_opp] at this
    exact this.symm))

theorem getElem?_oppFace (l : List Nat) (j : Nat) (hj : j < l.length) :
    (oppFace l)[j]? = (l[l.length - 1 - j]?).map opp := by
  unfold oppFace
  rw [List.getElem?_map, List.getElem?_reverse hj]

/-- position form of next / prev (`Props.C08.next_prev_positions`) -/
theorem nextHe_pos (k : Kernel) (hf i : Nat) (hn : (k.hfHes hf).Nodup) (hi : i < (k.hfHes hf).length) :
    k.nextHe ((k.hfHes hf)[i]) hf = (k.hfHes hf)[(i + 1) % (k.hfHes hf).length]? ∧
    k.prevHe ((k.hfHes hf)[i]) hf = (k.hfHes hf)[(i + (k.hfHes hf).length - 1) % (k.hfHes hf).length]? := by
  have hpos : 0 < (k.hfHes hf).length := by omega
  rw [nextHe_at k hf i hn hi, prevHe_at k hf i hn hi,
    List.getElem?_eq_getElem (Nat.mod_lt _ hpos), List.getElem?_eq_getElem (Nat.mod_lt _ hpos)]
  exact ⟨rfl, rfl⟩

/-- **on the opposite side next and prev are the mirrored prev and next**: for a halfface without a repeated halfedge
    and every halfedge `he` of it, `next(opp he, opp hf) = opp(prev(he, hf))` and `prev(opp he, opp hf) = opp(next(he, hf))` -/
theorem nextHe_opp {k : Kernel} {hf he : Nat} (hn : (k.hfHes hf).Nodup) (hm : he ∈ k.hfHes hf) :
    k.nextHe (opp he) (opp hf) = (k.prevHe he hf).map opp ∧ k.prevHe (opp he) (opp hf) = (k.nextHe he hf).map opp := by
  obtain ⟨i, hi, rfl⟩ := List.getElem_of_mem hm
  have e := hfHes_opp' k hf
  have hlen : (k.hfHes (opp hf)).length = (k.hfHes hf).length := by rw [e]; simp [oppFace]
  have hn' : (k.hfHes (opp hf)).Nodup := by rw [e]; exact nodup_oppFace hn
  generalize hl : k.hfHes hf = l at *
  generalize hl' : k.hfHes (opp hf) = l' at *
  have hpos : 0 < l.length := by omega
  have hp : l.length - 1 - i < l'.length := by omega
  have hget : ∀ j, j < l.length → l'[j]? = (l[l.length - 1 - j]?).map opp := by
    intro j hj; rw [e]; exact getElem?_oppFace l j hj
  have hpe : l'[l.length - 1 - i]'hp = opp (l[i]) := by
    have := hget (l.length - 1 - i) (by omega)
    rw [List.getElem?_eq_getElem hp, show l.length - 1 - (l.length - 1 - i) = i by omega,
      List.getElem?_eq_getElem hi] at this
    simpa using this
  have h1 := nextHe_pos k (opp hf) (l.length - 1 - i) (by rw [hl']; exact hn') (by rw [hl']; exact hp)
  have h2 := nextHe_pos k hf i (by rw [hl]; exact hn) (by rw [hl]; exact hi)
  simp only [hl, hl'] at h1 h2
  rw [hpe] at h1
  rw [h1.1, h1.2, h2.1, h2.2, hlen]
  have hm1 : (l.length - 1 - i + 1) % l.length < l.length := Nat.mod_lt _ hpos
  have hm2 : (l.length - 1 - i + l.length - 1) % l.length < l.length := Nat.mod_lt _ hpos
  constructor
  · rw [hget _ hm1]
    congr 2
    by_cases h0 : i = 0
    · subst h0
      rw [show l.length - 1 - 0 + 1 = l.length by omega, Nat.mod_self, Nat.zero_add,
        Nat.mod_eq_of_lt (by omega : l.length - 1 < l.length)]
      omega
    · rw [Nat.mod_eq_of_lt (by omega : l.length - 1 - i + 1 < l.length),
        show i + l.length - 1 = (i - 1) + l.length by omega, Nat.add_mod_right, Nat.mod_eq_of_lt (by omega)]
      omega
  · rw [hget _ hm2]
    congr 2
    by_cases h0 : i + 1 = l.length
    · have : l.length - 1 - i = 0 := by omega
      rw [this, Nat.zero_add, Nat.mod_eq_of_lt (by omega : l.length - 1 < l.length), h0, Nat.mod_self]
      omega
    · rw [show l.length - 1 - i + l.length - 1 = (l.length - 1 - i - 1) + l.length by omega, Nat.add_mod_right,
        Nat.mod_eq_of_lt (by omega), Nat.mod_eq_of_lt (by omega : i + 1 < l.length)]
      omega

/-- `next_halfedge_in_halfface` steps along the loop: the next halfedge starts where the given one ends, the previous
    one ends where it starts -/
theorem toV_eq_fromV_next {k : Kernel} {hf he : Nat} (hc : Loop k (k.hfHes hf)) (hn : (k.hfHes hf).Nodup)
    (hm : he ∈ k.hfHes hf) :
    (∃ nx, k.nextHe he hf = some nx ∧ nx ∈ k.hfHes hf ∧ k.fromV nx = k.toV he) ∧
    (∃ pv, k.prevHe he hf = some pv ∧ pv ∈ k.hfHes hf ∧ k.toV pv = k.fromV he) := by
  obtain ⟨i, hi, rfl⟩ := List.getElem_of_mem hm
  have hpos : 0 < (k.hfHes hf).length := by omega
  have hcy := hfCyclic_of_loop hc
  constructor
  · exact ⟨_, nextHe_at k hf i hn hi, List.getElem_mem _, (hcy i hi).symm⟩
  · refine ⟨_, prevHe_at k hf i hn hi, List.getElem_mem _, ?_⟩
    have hlt : (i + (k.hfHes hf).length - 1) % (k.hfHes hf).length < (k.hfHes hf).length := Nat.mod_lt _ hpos
    rw [hcy _ hlt]
    congr 1
    have : ((i + (k.hfHes hf).length - 1) % (k.hfHes hf).length + 1) % (k.hfHes hf).length = i := by
      by_cases h0 : i = 0
      · subst h0
        rw [Nat.zero_add, Nat.mod_eq_of_lt (by omega : (k.hfHes hf).length - 1 < (k.hfHes hf).length),
          show (k.hfHes hf).length - 1 + 1 = (k.hfHes hf).length by omega, Nat.mod_self]
      · rw [show i + (k.hfHes hf).length - 1 = (i - 1) + (k.hfHes hf).length by omega, Nat.add_mod_right,
          Nat.mod_eq_of_lt (by omega : i - 1 < (k.hfHes hf).length), show i - 1 + 1 = i by omega, Nat.mod_eq_of_lt hi]
    simp only [this]

end Global
end Kernel
end OVM

import OVM.Refine.CacheAssembly
import OVM.Refine.CacheFastGC
import OVM.Refine.CacheSwapSpec
/-
  ONE invariant for the whole driver vocabulary (`Kernel.step`, OVM/Kernel/Step.lean), every deletion
  mode (deferred × fast) and every bottom-up configuration:

      GInv k  :=  WF k ∧ oneCell k ∧ Closed k ∧ FlagInv k

  * `WF` (OVM/Refine/Range.lean) — lengths, ranges, and every enabled cache = the scan (`CacheInv`, C01).
  * `oneCell` (OVM/Spec/Incidence.lean) — C01's stated precondition.
  * `Closed` (builder K4, OVM/Refine/CacheGC.lean) — nothing live uses something flagged.  Builder K3's
    `UpC ∧ UpF ∧ UpE` (OVM/Refine/CacheFastGC.lean) is the SAME fact (`closed_iff_up`), so one of the two
    is kept and both `collect_garbage` theorems (`collected_collectGarbage`, `collectGarbage_fast`) apply.
  * `FlagInv` — the deletion flags agree with the bookkeeping that decides whether `collect_garbage` runs:
    a kind whose pending counter is 0, and every kind when deferred deletion is off, has no flagged entity.
    (`enable_deferred_deletion(false)` collects only if `needs_garbage_collection()`, i.e. some counter is
    positive, cc:1824-1830 / 756-760; without this clause the immediate-mode state after the switch could
    still hold flags.)

  `OpOK k op` are the argument conditions of each call.  This file: definitions, the Boolean form
  `opOKB` with soundness, `closed_iff_up`, and the small transfer lemmas the per-operation files use.
-/
namespace OVM
namespace Kernel
namespace Global
open ScanDel

/-! ### the invariant -/

/-- flags vs. the bookkeeping of `collect_garbage` -/
structure FlagInv (k : Kernel) : Prop where
  c : (k.deferred = false ∨ k.nDelC = 0) → NoFlag k.cDel
  f : (k.deferred = false ∨ k.nDelF = 0) → NoFlag k.fDel
  e : (k.deferred = false ∨ k.nDelE = 0) → NoFlag k.eDel
  v : (k.deferred = false ∨ k.nDelV = 0) → NoFlag k.vDel

/-- the global invariant -/
structure GInv (k : Kernel) : Prop where
  wf : WF k
  one : k.oneCell = true
  closed : Closed k
  flags : FlagInv k

/-! ### K3's upward closure and K4's `Closed` are the same fact -/

theorem closed_iff_up (k : Kernel) : Closed k ↔ (UpC k ∧ UpF k ∧ UpE k) := by
  constructor
  · intro h
    refine ⟨?_, ?_, ?_⟩
    · intro c hc hd x hx
      exact h.f c (by unfold liveC; simp [hc, hd]) x hx
    · intro f hf hd x hx
      exact h.e f (by unfold liveF; simp [hf, hd]) x hx
    · intro e he hd
      exact h.v e (by unfold liveE; simp [he, hd])
  · intro ⟨hC, hF, hE⟩
    refine ⟨?_, ?_, ?_⟩
    · intro c hl a ha
      unfold liveC at hl; simp at hl
      exact hC c hl.1 hl.2 a ha
    · intro f hl a ha
      unfold liveF at hl; simp at hl
      exact hF f hl.1 hl.2 a ha
    · intro e hl
      unfold liveE at hl; simp at hl
      exact hE e hl.1 hl.2

/-! ### transfer lemmas -/

theorem cellsLive_of_noFlag {k : Kernel} (h : NoFlag k.cDel) : CellsLive k := fun c _ => h.getD c
theorem facesLive_of_noFlag {k : Kernel} (h : NoFlag k.fDel) : FacesLive k := fun c _ => h.getD c
theorem edgesLive_of_noFlag {k : Kernel} (h : NoFlag k.eDel) : EdgesLive k := fun c _ => h.getD c
theorem vertsLive_of_noFlag {k : Kernel} (h : NoFlag k.vDel) : VertsLive k := fun c _ => h.getD c

theorem noFlag_of_live {l : List Bool} {n : Nat} (hl : l.length = n) (h : ∀ c, c < n → l.getD c false = false) :
    NoFlag l := by
  apply noFlag_of_getD
  intro j
  by_cases hj : j < n
  · exact h j hj
  · exact getD_of_ge _ _ _ (by omega)

theorem noFlag_nil : NoFlag [] := fun _ h => by cases h

theorem noFlag_snoc {l : List Bool} (h : NoFlag l) : NoFlag (l ++ [false]) := by
  intro b hb
  rcases List.mem_append.mp hb with hb | hb
  · exact h b hb
  · simpa using hb

theorem noFlag_resize {l : List Bool} (h : NoFlag l) (n : Nat) : NoFlag (resizeL l n false) := by
  intro b hb
  unfold resizeL at hb
  rcases List.mem_append.mp hb with hb | hb
  · exact h b (List.mem_of_mem_take hb)
  · exact (List.mem_replicate.mp hb).2

/-- with no flag of any kind the state is closure-consistent and the bookkeeping clause holds -/
theorem closed_of_noFlag {k : Kernel} (hr : RangeInv k) (hf : NoFlag k.fDel) (he : NoFlag k.eDel) (hv : NoFlag k.vDel) :
    Closed k :=
  closed_of_allLive (facesLive_of_noFlag hf) (edgesLive_of_noFlag he) (vertsLive_of_noFlag hv) hr

theorem flagInv_of_noFlag {k : Kernel} (hc : NoFlag k.cDel) (hf : NoFlag k.fDel) (he : NoFlag k.eDel) (hv : NoFlag k.vDel) :
    FlagInv k := ⟨fun _ => hc, fun _ => hf, fun _ => he, fun _ => hv⟩

/-- assembling the invariant of a state without flags -/
theorem ginv_of_noFlag {k : Kernel} (hw : WF k) (h1 : k.oneCell = true) (hc : NoFlag k.cDel) (hf : NoFlag k.fDel)
    (he : NoFlag k.eDel) (hv : NoFlag k.vDel) : GInv k :=
  ⟨hw, h1, closed_of_noFlag hw.range hf he hv, flagInv_of_noFlag hc hf he hv⟩

/-- **immediate mode: no entity is flagged** -/
theorem GInv.noFlag_of_immediate {k : Kernel} (hi : GInv k) (hd : k.deferred = false) :
    NoFlag k.cDel ∧ NoFlag k.fDel ∧ NoFlag k.eDel ∧ NoFlag k.vDel :=
  ⟨hi.flags.c (Or.inl hd), hi.flags.f (Or.inl hd), hi.flags.e (Or.inl hd), hi.flags.v (Or.inl hd)⟩

/-- nothing pending ⇒ no entity is flagged -/
theorem GInv.noFlag_of_noGC {k : Kernel} (hi : GInv k) (hn : k.needsGC = false) :
    NoFlag k.cDel ∧ NoFlag k.fDel ∧ NoFlag k.eDel ∧ NoFlag k.vDel := by
  unfold needsGC at hn
  simp only [Bool.or_eq_false_iff, decide_eq_false_iff_not, Nat.not_lt, Nat.le_zero_eq] at hn
  exact ⟨hi.flags.c (Or.inr hn.2), hi.flags.f (Or.inr hn.1.2), hi.flags.e (Or.inr hn.1.1.2), hi.flags.v (Or.inr hn.1.1.1)⟩

/-- the bookkeeping clause only reads the mode, the counters and the flag arrays -/
theorem flagInv_of_imp {k k' : Kernel} (hd : k'.deferred = k.deferred)
    (nc : k'.nDelC = k.nDelC) (nf : k'.nDelF = k.nDelF) (ne : k'.nDelE = k.nDelE) (nv : k'.nDelV = k.nDelV)
    (fc : NoFlag k.cDel → NoFlag k'.cDel) (ff : NoFlag k.fDel → NoFlag k'.fDel)
    (fe : NoFlag k.eDel → NoFlag k'.eDel) (fv : NoFlag k.vDel → NoFlag k'.vDel) (h : FlagInv k) : FlagInv k' :=
  ⟨fun p => fc (h.c (by rw [hd, nc] at p; exact p)), fun p => ff (h.f (by rw [hd, nf] at p; exact p)),
   fun p => fe (h.e (by rw [hd, ne] at p; exact p)), fun p => fv (h.v (by rw [hd, nv] at p; exact p))⟩

theorem flagInv_of_eq {k k' : Kernel} (hd : k'.deferred = k.deferred)
    (nc : k'.nDelC = k.nDelC) (nf : k'.nDelF = k.nDelF) (ne : k'.nDelE = k.nDelE) (nv : k'.nDelV = k.nDelV)
    (fc : k'.cDel = k.cDel) (ff : k'.fDel = k.fDel) (fe : k'.eDel = k.eDel) (fv : k'.vDel = k.vDel)
    (h : FlagInv k) : FlagInv k' :=
  flagInv_of_imp hd nc nf ne nv (fun x => fc ▸ x) (fun x => ff ▸ x) (fun x => fe ▸ x) (fun x => fv ▸ x) h

/-- `Closed` read through observers: it is enough that the new state's live entities, their
    definitions and the flags one level down are those of the old state -/
theorem closed_of_obs {k k' : Kernel}
    (lc : ∀ c, k'.liveC c = true → k.liveC c = true ∧ k'.cellAt c = k.cellAt c)
    (lf : ∀ f, k'.liveF f = true → k.liveF f = true ∧ k'.faceAt f = k.faceAt f)
    (le : ∀ e, k'.liveE e = true → k.liveE e = true ∧ k'.edgeAt e = k.edgeAt e)
    (df : ∀ x, k.fDeleted x = false → k'.fDeleted x = false)
    (de : ∀ x, k.eDeleted x = false → k'.eDeleted x = false)
    (dv : ∀ x, k.vDeleted x = false → k'.vDeleted x = false) (h : Closed k) : Closed k' := by
  refine ⟨?_, ?_, ?_⟩
  · intro c hl a ha
    obtain ⟨h1, h2⟩ := lc c hl
    exact df _ (h.f c h1 a (h2 ▸ ha))
  · intro f hl a ha
    obtain ⟨h1, h2⟩ := lf f hl
    exact de _ (h.e f h1 a (h2 ▸ ha))
  · intro e hl
    obtain ⟨h1, h2⟩ := le e hl
    rw [h2]
    exact ⟨dv _ (h.v e h1).1, dv _ (h.v e h1).2⟩

/-! ### the argument conditions of one call -/

/-- a vertex / halfedge / halfface handle that may be used to build something on top of it:
    in range and not flagged deleted -/
def VOk (k : Kernel) (v : Nat) : Prop := v < k.nV ∧ k.vDeleted v = false
def HeOk (k : Kernel) (h : Nat) : Prop := h < k.nHE ∧ k.eDeleted (eOf h) = false
def HfOk (k : Kernel) (hf : Nat) : Prop := hf < k.nHF ∧ k.fDeleted (eOf hf) = false

/-- **valid arguments.**  Every clause is a precondition the C++ asserts or documents
    (src/OpenVolumeMesh/Core/TopologyKernel.cc, line numbers of the current tree), or — the three marked
    (†) — is forced by the property itself and has a recorded witness.  No clause mentions the deletion mode or
    the bottom-up configuration.

    * `add_edge`: both vertices valid and not deleted — asserted cc:121-122.
    * `add_face(halfedges)`: every halfedge valid and not deleted — asserted cc:183.
    * `add_face(vertices)`: every vertex valid and not deleted — asserted cc:247.
    * `add_cell`: every halfface valid and not deleted — asserted cc:393; halffaces not used by a live cell —
      C01's stated precondition ("meshes in which no halfface is used by two live cells"; cc:466 overwrites
      `incident_cell_per_hf_` otherwise); pairwise distinct — "a halfface may only appear once in a cell!",
      asserted cc:2280.
    * `set_edge`: edge valid (`edge(_eh)` asserts `is_valid`, cc:1837), new vertices valid and not deleted —
      asserted cc:510-511.  (†) edge not deleted: not asserted; on a deferred-deleted edge the cache would list
      halfedges of a deleted edge — witness `setEdge_deleted_breaks` (OVM/Refine/CacheSet.lean).
    * `set_face` / `set_cell`: entity valid (`face(_fh)` / `cell(_ch)`, cc:1846 / 1855).  (†) entity not
      deleted — witnesses `setFace_deleted_breaks`, `setCell_deleted_breaks` (CacheSet.lean).  (†) new
      halfedges / halffaces valid and not deleted, new halffaces distinct and used by no OTHER live cell:
      `set_*` is `add_*` in place, and the same reasons apply (cc:183, 393, 2280; witnesses
      `setCell_shared_after_breaks`, CacheSet.lean).
      Why "not deleted" is a genuine precondition of everything that builds on an entity: under NDEBUG
      `add_cell` on a flagged face followed by `collect_garbage` leaves a live cell with a dangling halfface
      (model + C++ witness at the end of OVM/Refine/CacheFastGC.lean, `tetK.deleteFaceCore 0`), and
      likewise `add_edge` on a flagged vertex (K4's note at `Closed`, OVM/Refine/CacheGC.lean).
    * `delete_*`: handle valid — `delete_*_core` asserts cc:952, 1058, 1223, 1378.  (The C++ additionally
      asserts `!is_deleted`, cc:623/675/718/749; the theorem does not need it.)
    * `swap_*_indices`: both handles valid — asserted cc:1450-1451, 1481-1482, 1622-1623, 1760-1761.
    * `collect_garbage`, `enable_*`, `clear`, `add_vertex`, `add_n_vertices`: no precondition. -/
def OpOK (k : Kernel) : Op → Prop
  | .addVertex => True
  | .addNVertices _ => True
  | .addEdge a b _ => VOk k a ∧ VOk k b
  | .addFaceHe _ hes => ∀ h ∈ hes, HeOk k h
  | .addFaceV vs => ∀ v ∈ vs, VOk k v
  | .addCell _ hfs => (∀ hf ∈ hfs, HfOk k hf ∧ k.sCellOf hf = none) ∧ hfs.Nodup
  | .setEdge e a b => (e < k.nE ∧ k.eDeleted e = false) ∧ VOk k a ∧ VOk k b
  | .setFace f hes => (f < k.nF ∧ k.fDeleted f = false) ∧ ∀ h ∈ hes, HeOk k h
  | .setCell c hfs => (c < k.nC ∧ k.cDeleted c = false) ∧
      (∀ hf ∈ hfs, HfOk k hf ∧ ∀ c' ∈ k.sCellsOfHf hf, c' = c) ∧ hfs.Nodup
  | .deleteVertex v => v < k.nV
  | .deleteEdge e => e < k.nE
  | .deleteFace f => f < k.nF
  | .deleteCell c => c < k.nC
  | .swapVertex a b => a < k.nV ∧ b < k.nV
  | .swapEdge a b => a < k.nE ∧ b < k.nE
  | .swapFace a b => a < k.nF ∧ b < k.nF
  | .swapCell a b => a < k.nC ∧ b < k.nC
  | .collectGarbage => True
  | .enableDeferred _ => True
  | .enableFast _ => True
  | .enableBU _ _ => True
  | .clear _ => True

/-- a history whose every call has valid arguments at the time it is made -/
def HistoryOK : Kernel → List Op → Prop
  | _, [] => True
  | k, op :: t => OpOK k op ∧ HistoryOK (k.step op).1 t

/-! ### Boolean forms (for `decide` on concrete histories) -/

def vOkB (k : Kernel) (v : Nat) : Bool := decide (v < k.nV) && !k.vDeleted v
def heOkB (k : Kernel) (h : Nat) : Bool := decide (h < k.nHE) && !k.eDeleted (eOf h)
def hfOkB (k : Kernel) (hf : Nat) : Bool := decide (hf < k.nHF) && !k.fDeleted (eOf hf)

theorem vOk_of_B {k : Kernel} {v : Nat} (h : vOkB k v = true) : VOk k v := by
  unfold vOkB at h; simpa [VOk] using h
theorem heOk_of_B {k : Kernel} {v : Nat} (h : heOkB k v = true) : HeOk k v := by
  unfold heOkB at h; simpa [HeOk] using h
theorem hfOk_of_B {k : Kernel} {v : Nat} (h : hfOkB k v = true) : HfOk k v := by
  unfold hfOkB at h; simpa [HfOk] using h

def opOKB (k : Kernel) : Op → Bool
  | .addVertex => true
  | .addNVertices _ => true
  | .addEdge a b _ => vOkB k a && vOkB k b
  | .addFaceHe _ hes => hes.all (heOkB k)
  | .addFaceV vs => vs.all (vOkB k)
  | .addCell _ hfs => hfs.all (fun hf => hfOkB k hf && (k.sCellOf hf).isNone) && decide hfs.Nodup
  | .setEdge e a b => (decide (e < k.nE) && !k.eDeleted e) && vOkB k a && vOkB k b
  | .setFace f hes => (decide (f < k.nF) && !k.fDeleted f) && hes.all (heOkB k)
  | .setCell c hfs => (decide (c < k.nC) && !k.cDeleted c) &&
      hfs.all (fun hf => hfOkB k hf && (k.sCellsOfHf hf).all (· == c)) && decide hfs.Nodup
  | .deleteVertex v => decide (v < k.nV)
  | .deleteEdge e => decide (e < k.nE)
  | .deleteFace f => decide (f < k.nF)
  | .deleteCell c => decide (c < k.nC)
  | .swapVertex a b => decide (a < k.nV) && decide (b < k.nV)
  | .swapEdge a b => decide (a < k.nE) && decide (b < k.nE)
  | .swapFace a b => decide (a < k.nF) && decide (b < k.nF)
  | .swapCell a b => decide (a < k.nC) && decide (b < k.nC)
  | .collectGarbage => true
  | .enableDeferred _ => true
  | .enableFast _ => true
  | .enableBU _ _ => true
  | .clear _ => true

theorem opOK_of_B (k : Kernel) (op : Op) (h : opOKB k op = true) : OpOK k op := by
  cases op <;> simp only [opOKB, OpOK, Bool.and_eq_true, List.all_eq_true, decide_eq_true_eq] at h ⊢ <;>
    try (first | trivial | exact h)
  case addEdge a b d => exact ⟨vOk_of_B h.1, vOk_of_B h.2⟩
  case addFaceHe c hes => exact fun x hx => heOk_of_B (h x hx)
  case addFaceV vs => exact fun x hx => vOk_of_B (h x hx)
  case addCell c hfs =>
    refine ⟨fun x hx => ⟨hfOk_of_B (h.1 x hx).1, ?_⟩, h.2⟩
    have := (h.1 x hx).2
    simpa using this
  case setEdge e a b =>
    exact ⟨⟨h.1.1.1, by simpa using h.1.1.2⟩, vOk_of_B h.1.2, vOk_of_B h.2⟩
  case setFace f hes =>
    exact ⟨⟨h.1.1, by simpa using h.1.2⟩, fun x hx => heOk_of_B (h.2 x hx)⟩
  case setCell c hfs =>
    refine ⟨⟨h.1.1.1, by simpa using h.1.1.2⟩, fun x hx => ⟨hfOk_of_B (h.1.2 x hx).1, ?_⟩, h.2⟩
    intro c' hc'
    have := (h.1.2 x hx).2 c' hc'
    simpa using this

def historyOKB : Kernel → List Op → Bool
  | _, [] => true
  | k, op :: t => opOKB k op && historyOKB (k.step op).1 t

theorem historyOK_of_B (k : Kernel) (ops : List Op) (h : historyOKB k ops = true) : HistoryOK k ops := by
  induction ops generalizing k with
  | nil => trivial
  | cons op t ih =>
    simp only [historyOKB, Bool.and_eq_true] at h
    exact ⟨opOK_of_B k op h.1, ih _ h.2⟩

theorem ginv_empty : GInv ({} : Kernel) :=
  ginv_of_noFlag wf_empty (by decide) noFlag_nil noFlag_nil noFlag_nil noFlag_nil

end Global
end Kernel
end OVM

import OVM.Refine.GlobalLoops2
import OVM.Iter.Lemmas
/-
  C05, the link between the circulator machine and the mesh: on every state satisfying `Global.GInv` the list `L`
  that each circulator constructor builds (OVM/Kernel/Query.lean; class table: DESIGN.md Appendix E) is the
  incident set of the centre as computed by brute force from the stored definitions of the not-deleted entities
  (OVM/Spec/Incidence.lean, plus `sVCout`, `sCE`, `sCV`, `sBHFHF` defined here), contains only live entities, and is
  duplicate-free for the classes whose relation is a set.

  Per class (`circ_<class>`):                          form            duplicate-free      extra hypotheses
    voh  VertexOHalfEdge        Perm sOut                              yes
    vih  VertexIHalfEdge        Perm sIn                               yes
    ve   VertexEdge             Perm sVE     (one entry per outgoing halfedge: a loop edge (v,v) twice;
                                              duplicate-free when no live loop edge sits at v)
    vv   VertexVertex           Perm sVV     (one entry per outgoing halfedge: parallel edges repeat the neighbour)
    vhf  VertexHalfFace         = sVHF                                 yes
    vf   VertexFace             = sVF                                  yes
    vc   VertexCell             = sVCout; = sVC under `FaceCyc`        yes                 (FaceCyc only for `sVC`)
    hehf HalfEdgeHalfFace       Perm sHfsOfHe (once per occurrence of the halfedge in the halfface)
    hef  HalfEdgeFace           = sHEF                                 yes
    hec  HalfEdgeCell           Perm sHEC                              yes                 oneCell
    ehf  EdgeHalfFace           Perm sEHF    (both halffaces, once per occurrence of the edge in the face)
    ef   EdgeFace               = sEF                                  yes
    ec   EdgeCell               Perm sHEC (2e)                         yes                 oneCell
    cc   CellCell               = sCC                                  yes                 oneCell
    hfhe/hfv/hfe, fhe/fv/fe     the stored definition / its image (order and multiplicity of the definition)
    chf  CellHalfFace           = cellAt                               yes (oneCell)
    cf   CellFace               = map face_handle cellAt  (a cell using both sides of a face lists it twice)
    che  CellHalfEdge           = flatMap hfHes cellAt    (duplicates by design)
    ce   CellEdge               = sCE                                  yes
    cv   CellVertex             = sCV                                  yes
    bhfhf BoundaryHalfFaceHalfFace  Perm sBHFHF (per halfedge of the centre, in order)
  The tetrahedral / hexahedral circulators are not `TopologyKernel` lists; see OVM/Refine/CircTetHex.lean.
-/
namespace OVM
namespace Kernel
namespace Global
open ScanDel

/-! ### small facts -/

theorem liveE_lt {k : Kernel} {e : Nat} (h : k.liveE e = true) : e < k.nE := by
  unfold Kernel.liveE at h; simp at h; exact h.1

theorem liveE_he_lt {k : Kernel} {h : Nat} (hl : k.liveE (eOf h) = true) : h < k.nHE := by
  have := liveE_lt hl; unfold Kernel.nHE Kernel.nE eOf at *; omega

theorem liveF_hf_lt {k : Kernel} {h : Nat} (hl : k.liveF (eOf h) = true) : h < k.nHF := by
  have := liveF_lt hl; unfold Kernel.nHF Kernel.nF eOf at *; omega

theorem sOut_nodup (k : Kernel) (v : Nat) : (k.sOut v).Nodup := by
  unfold sOut liveHes; exact (List.nodup_range.filter _).filter _

theorem sIn_nodup (k : Kernel) (v : Nat) : (k.sIn v).Nodup := by
  unfold sIn liveHes; exact (List.nodup_range.filter _).filter _

theorem mem_sIn_iff (k : Kernel) (v x : Nat) : x ∈ k.sIn v ↔ k.liveE (eOf x) = true ∧ k.toV x = v := by
  unfold sIn liveHes
  simp only [List.mem_filter, List.mem_range, beq_iff_eq]
  constructor
  · rintro ⟨⟨_, h1⟩, h2⟩; exact ⟨h1, h2⟩
  · rintro ⟨h1, h2⟩; exact ⟨⟨liveE_he_lt h1, h1⟩, h2⟩

theorem nodup_map_opp {l : List Nat} (h : l.Nodup) : (l.map opp).Nodup := by
  unfold List.Nodup at *
  refine List.Pairwise.map _ ?_ h
  intro a b hab e
  apply hab
  have := congrArg opp e
  rwa [opp_opp, opp_opp] at this

/-- vertices of a live edge are live -/
theorem liveV_of_edge {k : Kernel} (hw : WF k) (hc : Closed k) {e : Nat} (hl : k.liveE e = true) :
    k.liveV (k.edgeAt e).1 = true ∧ k.liveV (k.edgeAt e).2 = true := by
  have hr := hw.range.edges _ (edgeAt_mem k e (liveE_lt hl))
  have hd := hc.v e hl
  unfold Kernel.liveV
  simp [hr.1, hr.2, hd.1, hd.2]

theorem liveV_fromV {k : Kernel} (hw : WF k) (hc : Closed k) {h : Nat} (hl : k.liveE (eOf h) = true) :
    k.liveV (k.fromV h) = true ∧ k.liveV (k.toV h) = true := by
  have := liveV_of_edge hw hc hl
  unfold Kernel.fromV Kernel.toV Kernel.halfedge
  simp only []
  split
  · exact this
  · exact ⟨this.2, this.1⟩

/-! ### vertex-centred circulators -/

/-- VertexOHalfEdgeIter -/
theorem circ_voh {k : Kernel} (hw : WF k) (hv : k.vBU = true) {v : Nat} (hlt : v < k.nV) :
    (k.qVOH v).Perm (k.sOut v) ∧ (k.qVOH v).Nodup ∧ ∀ x ∈ k.qVOH v, k.liveE (eOf x) = true := by
  have hp := Props.C01.outgoing_halfedges_exact k hw.cache hv v hlt
  exact ⟨hp, hp.nodup_iff.mpr (sOut_nodup k v), fun x hx => (mem_sOut (hp.mem_iff.mp hx)).2⟩

/-- VertexIHalfEdgeIter -/
theorem circ_vih {k : Kernel} (hw : WF k) (hv : k.vBU = true) {v : Nat} (hlt : v < k.nV) :
    (k.qVIH v).Perm (k.sIn v) ∧ (k.qVIH v).Nodup ∧ ∀ x ∈ k.qVIH v, k.liveE (eOf x) = true := by
  have hp := Props.C01.incoming_halfedges_exact k hw.cache hv v hlt
  have hn : (k.qVIH v).Nodup := hp.nodup_iff.mpr (nodup_map_opp (sOut_nodup k v))
  have hm : ∀ x, x ∈ k.qVIH v ↔ x ∈ k.sIn v := by
    intro x
    rw [hp.mem_iff, mem_sIn_iff, List.mem_map]
    constructor
    · rintro ⟨h, hh, rfl⟩
      obtain ⟨h1, h2⟩ := mem_sOut hh
      exact ⟨by rw [eOf_opp]; exact h2, by rw [Lookup.toV_opp]; exact h1⟩
    · rintro ⟨h1, h2⟩
      exact ⟨opp x, (mem_sOut_iff k v _).mpr ⟨by rw [eOf_opp]; exact h1, by rw [Lookup.fromV_opp]; exact h2⟩, opp_opp x⟩
  exact ⟨(List.perm_ext_iff_of_nodup hn (sIn_nodup k v)).mpr hm, hn, fun x hx => ((mem_sIn_iff k v x).mp ((hm x).mp hx)).1⟩

/-- VertexEdgeIter: one entry per outgoing halfedge (a loop edge `(v, v)` is listed twice) -/
theorem circ_ve {k : Kernel} (hw : WF k) (hv : k.vBU = true) {v : Nat} (hlt : v < k.nV) :
    (k.qVE v).Perm (k.sVE v) ∧ (∀ x ∈ k.qVE v, k.liveE x = true) ∧
    ((∀ h ∈ k.sOut v, k.toV h ≠ v) → (k.qVE v).Nodup) := by
  have hp := Props.C01.vertex_edges_exact k hw.cache hv v hlt
  refine ⟨hp.trans (CellCheck.sortL_perm _).symm, ?_, ?_⟩
  · intro x hx
    obtain ⟨h, hh, rfl⟩ := List.mem_map.mp (hp.mem_iff.mp hx)
    exact (mem_sOut hh).2
  · intro hnl
    rw [hp.nodup_iff]
    have hnd := sOut_nodup k v
    unfold List.Nodup at *
    have : (k.sOut v).Pairwise (fun a b => a ≠ b ∧ a ∈ k.sOut v ∧ b ∈ k.sOut v) := by
      rw [List.pairwise_iff_forall_sublist] at hnd ⊢
      intro a b hs
      have hsub := hs.subset
      exact ⟨hnd hs, hsub (by simp), hsub (by simp)⟩
    refine List.Pairwise.map _ ?_ this
    rintro a b ⟨hab, ha, hb⟩ e
    rcases same_edge_cases e with r | r
    · exact hab r
    · apply hnl b hb
      have := (mem_sOut ha).1
      rw [r, Lookup.fromV_opp] at this
      exact this

/-- VertexVertexIter: one entry per outgoing halfedge (parallel edges list the neighbour repeatedly) -/
theorem circ_vv {k : Kernel} (hw : WF k) (hc : Closed k) (hv : k.vBU = true) {v : Nat} (hlt : v < k.nV) :
    (k.qVV v).Perm (k.sVV v) ∧ (∀ x ∈ k.qVV v, k.liveV x = true) := by
  have hp := Props.C01.vertex_vertices_exact k hw.cache hv v hlt
  refine ⟨hp.trans (CellCheck.sortL_perm _).symm, ?_⟩
  intro x hx
  obtain ⟨h, hh, rfl⟩ := List.mem_map.mp (hp.mem_iff.mp hx)
  exact (liveV_fromV hw hc (mem_sOut hh).2).2

/-- VertexFaceIter -/
theorem circ_vf {k : Kernel} (hw : WF k) (hc : Closed k) (hv : k.vBU = true) (he : k.eBU = true) (hb : k.fBU = true)
    {v : Nat} (hlt : v < k.nV) :
    k.qVF v = k.sVF v ∧ (k.qVF v).Nodup ∧ ∀ x ∈ k.qVF v, k.liveF x = true := by
  have e := qVF_exact hw hc hv he hb hlt
  refine ⟨e, ?_, ?_⟩
  · unfold qVF; split <;> first | exact sortUniq_nodup _ | exact List.nodup_nil
  · intro x hx
    rw [e] at hx; unfold sVF at hx
    exact (mem_liveFaces k x).mp (List.mem_filter.mp hx).1

/-- VertexHalfFaceIter -/
theorem circ_vhf {k : Kernel} (hw : WF k) (hc : Closed k) (hv : k.vBU = true) (he : k.eBU = true)
    {v : Nat} (hlt : v < k.nV) :
    k.qVHF v = k.sVHF v ∧ (k.qVHF v).Nodup ∧ ∀ x ∈ k.qVHF v, k.liveF (eOf x) = true := by
  have e := qVHF_exact hw hc hv he hlt
  refine ⟨e, sortUniq_nodup _, ?_⟩
  intro x hx
  rw [e] at hx; unfold sVHF sVF at hx
  obtain ⟨f, hf, hxf⟩ := List.mem_flatMap.mp hx
  have hl := (mem_liveFaces k f).mp (List.mem_filter.mp hf).1
  have : eOf x = f := by
    simp only [List.mem_cons, List.mem_nil_iff, or_false] at hxf
    unfold eOf; omega
  rw [this]; exact hl


/-! ### vertex → cells -/

/-- the live cells with a live halfface one of whose halfedges STARTS at `v` (what
    `outgoing halfedges → halffaces → incident cell` can reach) -/
def _root_.OVM.Kernel.sVCout (k : Kernel) (v : Nat) : List Nat :=
  k.liveCells.filter (fun c => (k.cellAt c).any (fun hf => k.liveF (eOf hf) && (k.hfHes hf).any (fun h => k.fromV h == v)))

/-- a halfedge of a halfface of a live face is live -/
theorem liveE_of_hfHes {k : Kernel} (hw : WF k) (hc : Closed k) {hf h : Nat} (hl : k.liveF (eOf hf) = true)
    (hm : h ∈ k.hfHes hf) : k.liveE (eOf h) = true := by
  rcases (mem_hfHes_iff k hf h).mp hm with ⟨_, m⟩ | ⟨_, m⟩
  · exact liveE_of_face hw hc hl m
  · have := liveE_of_face hw hc hl m; rwa [eOf_opp] at this

/-- VertexCellIter without any hypothesis on the shape of faces -/
theorem qVC_out {k : Kernel} (hw : WF k) (h1 : k.oneCell = true) (hc : Closed k)
    (hv : k.vBU = true) (he : k.eBU = true) (hb : k.fBU = true) {v : Nat} (hlt : v < k.nV) : k.qVC v = k.sVCout v := by
  unfold qVC sVCout fullBU
  simp only [hv, he, hb, Bool.and_self, if_true]
  apply sortUniq_eq_of_mem ((liveCells_pairwise k).filter _)
  intro c
  rw [List.mem_filterMap, List.mem_filter, mem_liveCells, List.any_eq_true]
  have hperm := (hw.cache.v hv).2 v hlt
  constructor
  · rintro ⟨hf, hm, hco⟩
    rw [List.mem_flatMap] at hm
    obtain ⟨h, hh, hhf⟩ := hm
    have hs := hperm.mem_iff.mp hh
    obtain ⟨hfrom, hle⟩ := mem_sOut hs
    obtain ⟨hlf, hmem⟩ := (mem_hfsOf_iff hw he (liveE_he_lt hle) hf).mp hhf
    obtain ⟨hl, hin⟩ := (cellOf_eq_some_iff hw h1 hb (liveF_hf_lt hlf) c).mp hco
    refine ⟨hl, hf, hin, ?_⟩
    simp only [Bool.and_eq_true, List.any_eq_true, beq_iff_eq]
    exact ⟨hlf, h, hmem, hfrom⟩
  · rintro ⟨hl, hf, hin, hp⟩
    simp only [Bool.and_eq_true, List.any_eq_true, beq_iff_eq] at hp
    obtain ⟨hlf, h, hmem, hfrom⟩ := hp
    have hle := liveE_of_hfHes hw hc hlf hmem
    have hs : h ∈ k.sOut v := (mem_sOut_iff k v h).mpr ⟨hle, hfrom⟩
    have hx : hf < k.nHF := hw.range.cells _ (cellAt_mem_cells (liveC_lt hl)) hf hin
    exact ⟨hf, List.mem_flatMap.mpr ⟨h, hperm.mem_iff.mpr hs, (mem_hfsOf_iff hw he (liveE_he_lt hle) hf).mpr ⟨hlf, hmem⟩⟩,
      (cellOf_eq_some_iff hw h1 hb hx c).mpr ⟨hl, hin⟩⟩

theorem sVC_nodup (k : Kernel) (v : Nat) : (k.sVC v).Nodup := by
  unfold sVC; exact (liveCells_nodup k).filter _

/-- VertexCellIter -/
theorem circ_vc {k : Kernel} (hw : WF k) (h1 : k.oneCell = true) (hc : Closed k)
    (hv : k.vBU = true) (he : k.eBU = true) (hb : k.fBU = true) {v : Nat} (hlt : v < k.nV) :
    k.qVC v = k.sVCout v ∧ (FaceCyc k → k.qVC v = k.sVC v) ∧ (k.qVC v).Nodup ∧ ∀ x ∈ k.qVC v, k.liveC x = true := by
  have e := qVC_out hw h1 hc hv he hb hlt
  refine ⟨e, fun hy => qVC_exact hw h1 hc hy hv he hb hlt, ?_, ?_⟩
  · rw [e]; unfold sVCout; exact (liveCells_nodup k).filter _
  · intro x hx
    rw [e] at hx; unfold sVCout at hx
    exact (mem_liveCells k x).mp (List.mem_filter.mp hx).1

/-! ### halfedge- and edge-centred circulators -/

/-- HalfEdgeHalfFaceIter: a halfface is listed once per occurrence of the halfedge in it -/
theorem circ_hehf {k : Kernel} (hw : WF k) (he : k.eBU = true) {h : Nat} (hh : h < k.nHE) :
    (k.qHEHF h).Perm (k.sHfsOfHe h) ∧ (∀ x ∈ k.qHEHF h, k.liveF (eOf x) = true) :=
  ⟨Props.C01.halfedge_halffaces_exact k hw.cache he h hh,
   (Props.C01.deleted_never_reported k hw.cache).2.1 he h hh⟩

theorem sEF_nodup (k : Kernel) (e : Nat) : (k.sEF e).Nodup := by
  unfold sEF; exact (List.nodup_range.filter _).filter _

/-- HalfEdgeFaceIter -/
theorem circ_hef {k : Kernel} (hw : WF k) (he : k.eBU = true) {h : Nat} (hh : h < k.nHE) :
    k.qHEF h = k.sHEF h ∧ (k.qHEF h).Nodup ∧ (∀ x ∈ k.qHEF h, k.liveF x = true) := by
  have e := qHEF_exact hw he hh
  refine ⟨e, sortUniq_nodup _, ?_⟩
  intro x hx
  rw [e] at hx; unfold sHEF sEF at hx
  exact (mem_liveFaces k x).mp (List.mem_filter.mp hx).1

/-- EdgeFaceIter -/
theorem circ_ef {k : Kernel} (hw : WF k) (he : k.eBU = true) {e : Nat} (hlt : e < k.nE) :
    k.qEF e = k.sEF e ∧ (k.qEF e).Nodup ∧ (∀ x ∈ k.qEF e, k.liveF x = true) := by
  have e' := qEF_exact hw he hlt
  refine ⟨e', sortUniq_nodup _, ?_⟩
  intro x hx
  rw [e'] at hx; unfold sEF at hx
  exact (mem_liveFaces k x).mp (List.mem_filter.mp hx).1

/-- HalfEdgeCellIter -/
theorem circ_hec {k : Kernel} (hw : WF k) (h1 : k.oneCell = true) (he : k.eBU = true) (hb : k.fBU = true)
    {h : Nat} (hh : h < k.nHE) :
    (k.qHEC h).Perm (k.sHEC h) ∧ (k.qHEC h).Nodup ∧ (∀ x ∈ k.qHEC h, k.liveC x = true) := by
  obtain ⟨hp, hn⟩ := qHEC_exact hw h1 he hb hh
  refine ⟨hp, hn, ?_⟩
  intro x hx
  have := hp.mem_iff.mp hx
  unfold sHEC at this
  exact (mem_liveCells k x).mp (List.mem_filter.mp this).1

/-- EdgeCellIter -/
theorem circ_ec {k : Kernel} (hw : WF k) (h1 : k.oneCell = true) (he : k.eBU = true) (hb : k.fBU = true)
    {e : Nat} (hlt : e < k.nE) :
    (k.qEC e).Perm (k.sHEC (heOf e 0)) ∧ (k.qEC e).Nodup ∧ (∀ x ∈ k.qEC e, k.liveC x = true) := by
  unfold qEC
  exact circ_hec hw h1 he hb (by unfold heOf Kernel.nHE Kernel.nE at *; omega)

/-- CellCellIter -/
theorem circ_cc {k : Kernel} (hw : WF k) (h1 : k.oneCell = true) (hb : k.fBU = true) {c : Nat} (hc : c < k.nC) :
    k.qCC c = k.sCC c ∧ (k.qCC c).Nodup ∧ (∀ x ∈ k.qCC c, k.liveC x = true) := by
  have e := qCC_exact hw h1 hb hc
  refine ⟨e, ?_, ?_⟩
  · rw [e]; unfold sCC; exact (liveCells_nodup k).filter _
  · intro x hx
    rw [e] at hx; unfold sCC at hx
    exact (mem_liveCells k x).mp (List.mem_filter.mp hx).1

/-! ### edge → halffaces (with multiplicity) -/

theorem flatten_replicate_perm {α} {a b : List α} (h : a.Perm b) : ∀ n, (List.replicate n a).flatten.Perm (List.replicate n b).flatten
  | 0 => by simp
  | n + 1 => by
    simp only [List.replicate_succ, List.flatten_cons]
    exact h.append (flatten_replicate_perm h n)

theorem perm_flatMap_left {α β} (l : List α) (f g : α → List β) (h : ∀ a ∈ l, (f a).Perm (g a)) :
    (l.flatMap f).Perm (l.flatMap g) := by
  induction l with
  | nil => simp
  | cons a t ih =>
    simp only [List.flatMap_cons]
    exact (h a (by simp)).append (ih (fun x hx => h x (List.mem_cons_of_mem _ hx)))

theorem flatMap_replicate {α β} (n : Nat) (x : α) (P : α → List β) :
    (List.replicate n x).flatMap P = (List.replicate n (P x)).flatten := by
  induction n with
  | zero => rfl
  | succ n ih => simp [List.replicate_succ, ih]

theorem flatten_replicate_add {α} (a b : Nat) (l : List α) :
    (List.replicate (a + b) l).flatten = (List.replicate a l).flatten ++ (List.replicate b l).flatten := by
  rw [← List.replicate_append_replicate, List.flatten_append]

theorem count_oppFace (l : List Nat) (x : Nat) : (oppFace l).count x = l.count (opp x) := by
  unfold oppFace
  rw [List.count_eq_countP, List.countP_map, List.countP_reverse, List.count_eq_countP]
  apply List.countP_congr
  intro a _
  simp only [Function.comp, beq_iff_eq]
  constructor
  · intro e; rw [← e, opp_opp]
  · intro e; rw [e, opp_opp]

theorem countP_edge (l : List Nat) (e : Nat) :
    l.countP (fun h => eOf h == e) = l.count (2 * e) + l.count (2 * e + 1) := by
  induction l with
  | nil => rfl
  | cons a t ih =>
    rw [List.countP_cons, List.count_cons, List.count_cons, ih]
    by_cases h0 : a = 2 * e
    · subst h0
      have : eOf (2 * e) = e := by unfold eOf; omega
      simp [this]; omega
    · by_cases h1 : a = 2 * e + 1
      · subst h1
        have : eOf (2 * e + 1) = e := by unfold eOf; omega
        simp [this]; omega
      · have : ¬ eOf a = e := by unfold eOf; omega
        simp [this, h0, h1]

/-- EdgeHalfFaceIter: both halffaces of a face, once per occurrence of the edge in the face -/
theorem circ_ehf {k : Kernel} (hw : WF k) (he : k.eBU = true) {e : Nat} (hlt : e < k.nE) :
    (k.qEHF e).Perm (k.sEHF e) ∧ (∀ x ∈ k.qEHF e, k.liveF (eOf x) = true) := by
  have hh : heOf e 0 < k.nHE := by unfold heOf Kernel.nHE Kernel.nE at *; omega
  have hp := Props.C01.halfedge_halffaces_exact k hw.cache he _ hh
  have hlive := (Props.C01.deleted_never_reported k hw.cache).2.1 he _ hh
  constructor
  · unfold qEHF sEHF
    refine ((hp.flatMap_right _).trans ?_).trans (CellCheck.sortL_perm _).symm
    unfold sHfsOfHe
    rw [liveHfs_eq, List.flatMap_assoc, List.flatMap_assoc]
    apply perm_flatMap_left
    intro f _
    simp only [List.flatMap_cons, List.flatMap_nil, List.append_nil, hfHes_two_mul, hfHes_two_mul_succ]
    rw [flatMap_replicate, flatMap_replicate, count_oppFace, countP_edge, flatten_replicate_add]
    have e0 : heOf e 0 = 2 * e := by unfold heOf; omega
    have e1 : opp (heOf e 0) = 2 * e + 1 := by rw [e0, opp_two_mul]
    rw [e0] at *
    rw [show opp (2 * e) = 2 * e + 1 from opp_two_mul e]
    refine List.Perm.append (by rw [opp_two_mul]) ?_
    apply flatten_replicate_perm
    rw [opp_two_mul_succ]
    exact List.Perm.swap _ _ _
  · intro x hx
    unfold qEHF at hx
    obtain ⟨hf, hm, hxm⟩ := List.mem_flatMap.mp hx
    have := hlive hf hm
    simp only [List.mem_cons, List.mem_nil_iff, or_false] at hxm
    rcases hxm with rfl | rfl
    · exact this
    · rw [eOf_opp]; exact this


/-! ### top-down circulators: the list IS the stored definition (or its image) -/

/-- the halffaces of a live cell are live -/
theorem liveF_of_cell {k : Kernel} (hw : WF k) (hc : Closed k) {c x : Nat} (hl : k.liveC c = true)
    (hx : x ∈ k.cellAt c) : k.liveF (eOf x) = true := by
  have hd := hc.f c hl x hx
  have := hw.range.cells _ (cellAt_mem_cells (liveC_lt hl)) x hx
  unfold Kernel.liveF; rw [hd]
  have : eOf x < k.nF := by unfold Kernel.nHF Kernel.nF eOf at *; omega
  simp [this]

/-- an edge occurs in a face iff it occurs in either of its halffaces -/
theorem mem_map_eOf_hfHes (k : Kernel) (hf e : Nat) :
    e ∈ (k.hfHes hf).map eOf ↔ k.faceHasEdge (eOf hf) e = true := by
  unfold faceHasEdge
  rw [List.any_eq_true, List.mem_map]
  constructor
  · rintro ⟨h, hm, rfl⟩
    rcases (mem_hfHes_iff k hf h).mp hm with ⟨_, m⟩ | ⟨_, m⟩
    · exact ⟨h, m, by simp⟩
    · exact ⟨opp h, m, by simp [eOf_opp]⟩
  · rintro ⟨h, hm, he⟩
    have he' : eOf h = e := by simpa using he
    rcases half_cases hf with r | r
    · exact ⟨h, (mem_hfHes_iff k hf h).mpr (Or.inl ⟨r, hm⟩), he'⟩
    · exact ⟨opp h, (mem_hfHes_iff k hf _).mpr (Or.inr ⟨r, by rw [opp_opp]; exact hm⟩), by rw [eOf_opp]; exact he'⟩

/-- under `FaceCyc`, the start vertices of either halfface of a live face are exactly the vertices the face touches -/
theorem mem_map_fromV_hfHes {k : Kernel} (hw : WF k) (hc : Closed k) (hy : FaceCyc k) {hf : Nat}
    (hl : k.liveF (eOf hf) = true) (v : Nat) :
    v ∈ (k.hfHes hf).map k.fromV ↔ k.faceTouchesV (eOf hf) v = true := by
  rw [touches_iff_out hw hc hy hl v, List.mem_map]
  constructor
  · rintro ⟨h, hm, rfl⟩
    exact ⟨h, (mem_sOut_iff k _ h).mpr ⟨liveE_of_hfHes hw hc hl hm, rfl⟩, hm⟩
  · rintro ⟨h, hs, hm⟩
    exact ⟨h, hm, (mem_sOut hs).1⟩

/-- HalfFaceHalfEdgeIter, HalfFaceVertexIter, HalfFaceEdgeIter (centre: a halfface of a live face).
    Lists in the order of the stored definition, one entry per stored halfedge. -/
theorem circ_hf {k : Kernel} (hw : WF k) (hc : Closed k) {hf : Nat} (hl : k.liveF (eOf hf) = true) :
    (k.qHFHE hf = k.hfHes hf ∧ ∀ x ∈ k.qHFHE hf, k.liveE (eOf x) = true) ∧
    (k.qHFV hf = (k.hfHes hf).map k.fromV ∧ (∀ x ∈ k.qHFV hf, k.liveV x = true) ∧
      (FaceCyc k → ∀ v, v ∈ k.qHFV hf ↔ k.faceTouchesV (eOf hf) v = true)) ∧
    (k.qHFE hf = (k.hfHes hf).map eOf ∧ (∀ x ∈ k.qHFE hf, k.liveE x = true) ∧
      (∀ e, e ∈ k.qHFE hf ↔ k.faceHasEdge (eOf hf) e = true)) := by
  refine ⟨⟨rfl, fun x hx => liveE_of_hfHes hw hc hl hx⟩, ⟨rfl, ?_, fun hy v => mem_map_fromV_hfHes hw hc hy hl v⟩,
    ⟨rfl, ?_, fun e => mem_map_eOf_hfHes k hf e⟩⟩
  · intro x hx
    obtain ⟨h, hm, rfl⟩ := List.mem_map.mp hx
    exact (liveV_fromV hw hc (liveE_of_hfHes hw hc hl hm)).1
  · intro x hx
    obtain ⟨h, hm, rfl⟩ := List.mem_map.mp hx
    exact liveE_of_hfHes hw hc hl hm

theorem eOf_heOf0 (f : Nat) : eOf (heOf f 0) = f := by unfold heOf eOf; omega
theorem hfHes_heOf0 (k : Kernel) (f : Nat) : k.hfHes (heOf f 0) = k.faceAt f := by
  have : heOf f 0 = 2 * f := by unfold heOf; omega
  rw [this, hfHes_two_mul]

/-- FaceHalfEdgeIter, FaceVertexIter, FaceEdgeIter (centre: a live face) -/
theorem circ_f {k : Kernel} (hw : WF k) (hc : Closed k) {f : Nat} (hl : k.liveF f = true) :
    (k.qFHE f = k.faceAt f ∧ ∀ x ∈ k.qFHE f, k.liveE (eOf x) = true) ∧
    (k.qFV f = (k.faceAt f).map k.fromV ∧ (∀ x ∈ k.qFV f, k.liveV x = true) ∧
      (FaceCyc k → ∀ v, v ∈ k.qFV f ↔ k.faceTouchesV f v = true)) ∧
    (k.qFE f = (k.faceAt f).map eOf ∧ (∀ x ∈ k.qFE f, k.liveE x = true) ∧
      (∀ e, e ∈ k.qFE f ↔ k.faceHasEdge f e = true)) := by
  have hl' : k.liveF (eOf (heOf f 0)) = true := by rw [eOf_heOf0]; exact hl
  obtain ⟨⟨_, a2⟩, ⟨_, b2, b3⟩, ⟨_, c2, c3⟩⟩ := circ_hf hw hc hl'
  have e1 : k.qFV f = (k.faceAt f).map k.fromV := by unfold qFV qHFV; rw [hfHes_heOf0]
  have e2 : k.qHFE (heOf f 0) = k.qFE f := by unfold qHFE qFE; rw [hfHes_heOf0]
  refine ⟨⟨rfl, ?_⟩, ⟨e1, b2, ?_⟩, ⟨rfl, ?_, ?_⟩⟩
  · intro x hx; exact a2 x (by unfold qHFHE; rw [hfHes_heOf0]; exact hx)
  · intro hy v; have := b3 hy v; rwa [eOf_heOf0] at this
  · intro x hx; exact c2 x (by rw [e2]; exact hx)
  · intro e; have := c3 e; rwa [eOf_heOf0, e2] at this

/-! ### cell-centred circulators -/

/-- brute force: the live edges used by a halfface of the cell -/
def _root_.OVM.Kernel.sCE (k : Kernel) (c : Nat) : List Nat :=
  k.liveEdges.filter (fun e => (k.cellAt c).any (fun hf => k.faceHasEdge (eOf hf) e))
/-- brute force: the live vertices at which a halfedge of a face of the cell starts (under `FaceCyc`: which a face
    of the cell touches) -/
def _root_.OVM.Kernel.sCV (k : Kernel) (c : Nat) : List Nat :=
  k.liveVerts.filter (fun v => (k.cellAt c).any (fun hf => (k.faceAt (eOf hf)).any (fun h => k.fromV h == v)))

theorem liveEdges_pairwise (k : Kernel) : k.liveEdges.Pairwise (· < ·) := List.pairwise_lt_range.filter _
theorem liveVerts_pairwise (k : Kernel) : k.liveVerts.Pairwise (· < ·) := List.pairwise_lt_range.filter _
theorem mem_liveVerts (k : Kernel) (v : Nat) : v ∈ k.liveVerts ↔ k.liveV v = true := by
  unfold liveVerts Kernel.liveV; simp

/-- the halffaces of a live cell are pairwise distinct (C01's precondition `oneCell`) -/
theorem cellAt_nodup {k : Kernel} (hw : WF k) (h1 : k.oneCell = true) {c : Nat} (hl : k.liveC c = true) :
    (k.cellAt c).Nodup := by
  rw [List.nodup_iff_count]
  intro x
  by_cases hx : x ∈ k.cellAt c
  · have hlt : x < k.nHF := hw.range.cells _ (cellAt_mem_cells (liveC_lt hl)) x hx
    unfold oneCell at h1
    rw [List.all_eq_true] at h1
    have := h1 x (List.mem_range.mpr hlt)
    have h2 := le_sum_map (l := k.liveCells) (g := fun c => (k.cellAt c).count x) ((mem_liveCells k c).mpr hl)
    simp only [decide_eq_true_eq] at this
    omega
  · rw [List.count_eq_zero_of_not_mem hx]; omega

/-- CellHalfFaceIter, CellFaceIter, CellHalfEdgeIter (centre: a live cell) -/
theorem circ_c_views {k : Kernel} (hw : WF k) (h1 : k.oneCell = true) (hc : Closed k) {c : Nat} (hl : k.liveC c = true) :
    (k.qCHF c = k.cellAt c ∧ (k.qCHF c).Nodup ∧ ∀ x ∈ k.qCHF c, k.liveF (eOf x) = true) ∧
    (k.qCF c = (k.cellAt c).map eOf ∧ (∀ x ∈ k.qCF c, k.liveF x = true) ∧ (∀ f, f ∈ k.qCF c ↔ k.cellHasFace c f = true)) ∧
    (k.qCHE c = (k.cellAt c).flatMap k.hfHes ∧ ∀ x ∈ k.qCHE c, k.liveE (eOf x) = true) := by
  refine ⟨⟨rfl, cellAt_nodup hw h1 hl, fun x hx => liveF_of_cell hw hc hl hx⟩, ⟨rfl, ?_, ?_⟩, ⟨rfl, ?_⟩⟩
  · intro x hx
    obtain ⟨h, hm, rfl⟩ := List.mem_map.mp hx
    exact liveF_of_cell hw hc hl hm
  · intro f
    unfold qCF cellHasFace
    rw [List.mem_map, List.any_eq_true]
    constructor
    · rintro ⟨h, hm, rfl⟩; exact ⟨h, hm, by simp⟩
    · rintro ⟨h, hm, e⟩; exact ⟨h, hm, by simpa using e⟩
  · intro x hx
    obtain ⟨hf, hm, hxm⟩ := List.mem_flatMap.mp hx
    exact liveE_of_hfHes hw hc (liveF_of_cell hw hc hl hm) hxm

/-- CellEdgeIter -/
theorem circ_ce {k : Kernel} (hw : WF k) (hc : Closed k) {c : Nat} (hl : k.liveC c = true) :
    k.qCE c = k.sCE c ∧ (k.qCE c).Nodup ∧ ∀ x ∈ k.qCE c, k.liveE x = true := by
  have e : k.qCE c = k.sCE c := by
    unfold qCE sCE qCHE
    apply sortUniq_eq_of_mem ((liveEdges_pairwise k).filter _)
    intro e
    rw [List.mem_filter, mem_liveEdges, List.any_eq_true, List.mem_map]
    constructor
    · rintro ⟨h, hm, rfl⟩
      obtain ⟨hf, hfm, hh⟩ := List.mem_flatMap.mp hm
      exact ⟨liveE_of_hfHes hw hc (liveF_of_cell hw hc hl hfm) hh, hf, hfm,
        (mem_map_eOf_hfHes k hf _).mp (List.mem_map.mpr ⟨h, hh, rfl⟩)⟩
    · rintro ⟨_, hf, hfm, hp⟩
      obtain ⟨h, hh, rfl⟩ := List.mem_map.mp ((mem_map_eOf_hfHes k hf e).mpr hp)
      exact ⟨h, List.mem_flatMap.mpr ⟨hf, hfm, hh⟩, rfl⟩
  refine ⟨e, sortUniq_nodup _, ?_⟩
  intro x hx
  rw [e] at hx; unfold sCE at hx
  exact (mem_liveEdges k x).mp (List.mem_filter.mp hx).1

/-- CellVertexIter -/
theorem circ_cv {k : Kernel} (hw : WF k) (hc : Closed k) {c : Nat} (hl : k.liveC c = true) :
    k.qCV c = k.sCV c ∧ (k.qCV c).Nodup ∧ (∀ x ∈ k.qCV c, k.liveV x = true) ∧
    (FaceCyc k → ∀ v, v ∈ k.qCV c ↔ (k.liveV v = true ∧ ∃ hf ∈ k.cellAt c, k.faceTouchesV (eOf hf) v = true)) := by
  have e : k.qCV c = k.sCV c := by
    unfold qCV sCV
    apply sortUniq_eq_of_mem ((liveVerts_pairwise k).filter _)
    intro v
    rw [List.mem_filter, mem_liveVerts, List.any_eq_true, List.mem_flatMap]
    constructor
    · rintro ⟨hf, hfm, hv⟩
      unfold qFV qHFV at hv
      rw [hfHes_heOf0] at hv
      obtain ⟨h, hh, rfl⟩ := List.mem_map.mp hv
      have hlf := liveF_of_cell hw hc hl hfm
      refine ⟨(liveV_fromV hw hc (liveE_of_face hw hc hlf hh)).1, hf, hfm, ?_⟩
      rw [List.any_eq_true]; exact ⟨h, hh, by simp⟩
    · rintro ⟨_, hf, hfm, hp⟩
      rw [List.any_eq_true] at hp
      obtain ⟨h, hh, e⟩ := hp
      refine ⟨hf, hfm, ?_⟩
      unfold qFV qHFV
      rw [hfHes_heOf0]
      exact List.mem_map.mpr ⟨h, hh, by simpa using e⟩
  have hlive : ∀ x ∈ k.qCV c, k.liveV x = true := by
    intro x hx
    rw [e] at hx; unfold sCV at hx
    exact (mem_liveVerts k x).mp (List.mem_filter.mp hx).1
  refine ⟨e, sortUniq_nodup _, hlive, ?_⟩
  intro hy v
  rw [e]; unfold sCV
  rw [List.mem_filter, mem_liveVerts, List.any_eq_true]
  constructor
  · rintro ⟨h0, hf, hfm, hp⟩
    refine ⟨h0, hf, hfm, ?_⟩
    have hlf := liveF_of_cell hw hc hl hfm
    have hlf' : k.liveF (eOf (2 * eOf hf)) = true := by rw [show eOf (2 * eOf hf) = eOf hf by unfold eOf; omega]; exact hlf
    have := (mem_map_fromV_hfHes hw hc hy hlf' v).mp (by
      rw [hfHes_two_mul, List.mem_map]
      rw [List.any_eq_true] at hp
      obtain ⟨h, hh, e⟩ := hp
      exact ⟨h, hh, by simpa using e⟩)
    rwa [show eOf (2 * eOf hf) = eOf hf by unfold eOf; omega] at this
  · rintro ⟨h0, hf, hfm, hp⟩
    refine ⟨h0, hf, hfm, ?_⟩
    have hlf := liveF_of_cell hw hc hl hfm
    have hlf' : k.liveF (eOf (2 * eOf hf)) = true := by rw [show eOf (2 * eOf hf) = eOf hf by unfold eOf; omega]; exact hlf
    have := (mem_map_fromV_hfHes hw hc hy hlf' v).mpr (by
      rw [show eOf (2 * eOf hf) = eOf hf by unfold eOf; omega]; exact hp)
    rw [hfHes_two_mul, List.mem_map] at this
    obtain ⟨h, hh, e⟩ := this
    rw [List.any_eq_true]; exact ⟨h, hh, by simp [e]⟩

/-! ### BoundaryHalfFaceHalfFaceIter -/

/-- brute force: for every halfedge of the halfface, in order, the live halffaces around its opposite that lie in no
    live cell (each as often as they contain that opposite halfedge) -/
def _root_.OVM.Kernel.sBHFHF (k : Kernel) (hf : Nat) : List Nat :=
  (k.hfHes hf).flatMap (fun he => (k.sHfsOfHe (opp he)).filter k.sBoundaryHF)

/-- BoundaryHalfFaceHalfFaceIter (centre: a halfface of a live face; the C++ additionally expects a boundary
    halfface, which the list does not depend on) -/
theorem circ_bhfhf {k : Kernel} (hw : WF k) (hc : Closed k) (he : k.eBU = true) (hb : k.fBU = true) {hf : Nat}
    (hl : k.liveF (eOf hf) = true) :
    (k.qBHFHF hf).Perm (k.sBHFHF hf) ∧ ∀ x ∈ k.qBHFHF hf, k.liveF (eOf x) = true ∧ k.sBoundaryHF x = true := by
  have hlt : ∀ h ∈ k.hfHes hf, opp h < k.nHE := fun h hm => by
    have := liveE_of_hfHes hw hc hl hm
    rw [← eOf_opp] at this
    exact liveE_he_lt this
  have hq : ∀ h ∈ k.hfHes hf, (k.qHEHF (opp h)).filter k.qBoundaryHF = (k.qHEHF (opp h)).filter k.sBoundaryHF := by
    intro h hm
    apply filter_congr'
    intro x hx
    have := (Props.C01.deleted_never_reported k hw.cache).2.1 he _ (hlt h hm) x hx
    exact Props.C01.is_boundary_halfface_exact k hw.cache hb x (liveF_hf_lt this)
  constructor
  · unfold qBHFHF sBHFHF
    simp only [hb, if_true]
    apply perm_flatMap_left
    intro h hm
    rw [hq h hm]
    exact (Props.C01.halfedge_halffaces_exact k hw.cache he _ (hlt h hm)).filter _
  · intro x hx
    unfold qBHFHF at hx
    simp only [hb, if_true] at hx
    obtain ⟨h, hm, hxm⟩ := List.mem_flatMap.mp hx
    rw [hq h hm] at hxm
    obtain ⟨h1, h2⟩ := List.mem_filter.mp hxm
    exact ⟨(Props.C01.deleted_never_reported k hw.cache).2.1 he _ (hlt h hm) x h1, h2⟩

end Global
end Kernel
end OVM

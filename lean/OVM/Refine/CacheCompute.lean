import OVM.Refine.ScanLemmas
import OVM.Refine.Len
/-
  Recomputing a bottom-up cache from the definitions (`compute_*_bottom_up_incidences`,
  TopologyKernel.cc:2292-2376) yields exactly the brute-force scan — for EVERY state, no invariant
  or range hypothesis needed.  `Slots*` are the three clauses of `CacheInv` without their guards.
-/
namespace OVM
namespace Kernel

/-! ### the cache clauses without their `*_BU` guards -/
def SlotsV (k : Kernel) : Prop := k.outHes.length = k.nV ∧ ∀ v, v < k.nV → (k.outOf v).Perm (k.sOut v)
def SlotsE (k : Kernel) : Prop := k.incHfs.length = k.nHE ∧ ∀ h, h < k.nHE → (k.hfsOf h).Perm (k.sHfsOfHe h)
def SlotsF (k : Kernel) : Prop := k.incCell.length = k.nHF ∧ ∀ hf, hf < k.nHF → k.cellOf hf = k.sCellOf hf

theorem cacheInvV_iff (k : Kernel) : CacheInvV k ↔ (k.vBU = true → SlotsV k) := Iff.rfl
theorem cacheInvE_iff (k : Kernel) : CacheInvE k ↔ (k.eBU = true → SlotsE k) := Iff.rfl
theorem cacheInvF_iff (k : Kernel) : CacheInvF k ↔ (k.fBU = true → SlotsF k) := Iff.rfl

/-! ### recomputation = scan (for every state; no invariant needed) -/
theorem computeVBU_getD (k : Kernel) (v : Nat) (hv : v < k.nV) : k.computeVBU.getD v [] = k.sOut v := by
  have key : ∀ (es : List Nat) (o : List (List Nat)), v < o.length →
      (es.foldl (fun o e => (o.modify (k.edgeAt e).1 (· ++ [heOf e 0])).modify (k.edgeAt e).2 (· ++ [heOf e 1])) o).getD v [] =
        o.getD v [] ++ es.flatMap (k.outC v) := by
    intro es
    induction es with
    | nil => intro o _; simp
    | cons e t ih =>
      intro o ho
      simp only [List.foldl_cons, List.flatMap_cons]
      rw [ih _ (by simpa using ho), getD_modify2 _ _ _ _ _ _ ho, heOf_zero_eq, heOf_one_eq, List.append_assoc]
      rfl
  unfold computeVBU
  rw [key _ _ (by simpa using hv), sOut_flat]
  simp [List.getD_eq_getElem?_getD, List.getElem?_replicate, hv]

theorem slotsV_computeVBU (k : Kernel) (b : Bool) : SlotsV { k with outHes := k.computeVBU, vBU := b } := by
  refine ⟨computeVBU_length k, fun v hv => ?_⟩
  show (k.computeVBU.getD v []).Perm _
  rw [computeVBU_getD k v hv, sOut_congr k { k with outHes := k.computeVBU, vBU := b } rfl rfl v]

theorem computeEBU_getD (k : Kernel) (v : Nat) (hv : v < k.nHE) : (k.computeEBU.getD v []).Perm (k.sHfsOfHe v) := by
  have key : ∀ (fs : List Nat) (o : List (List Nat)), v < o.length →
      (fs.foldl (fun inc f => faceLoop f (k.faceAt f) inc) o).getD v [] =
        o.getD v [] ++ fs.flatMap (fun f => (k.faceAt f).flatMap
          (fun h => (if h == v then [2 * f] else []) ++ (if opp h == v then [2 * f + 1] else []))) := by
    intro fs
    induction fs with
    | nil => intro o _; simp
    | cons f t ih =>
      intro o ho
      simp only [List.foldl_cons, List.flatMap_cons]
      rw [ih _ (by rw [faceLoop_length]; exact ho), faceLoop_getD _ _ _ _ ho, List.append_assoc]
  have hc : k.computeEBU = k.liveFaces.foldl (fun inc f => faceLoop f (k.faceAt f) inc) (List.replicate k.nHE []) := rfl
  rw [hc, key _ _ (by simpa using hv), sHfsOfHe_flat]
  have : (List.replicate k.nHE ([] : List Nat)).getD v [] = [] := by
    simp [List.getD_eq_getElem?_getD, List.getElem?_replicate, hv]
  rw [this, List.nil_append]
  exact perm_flatMap_congr _ _ _ (fun f _ => faceLoop_perm f _ v)

theorem slotsE_computeEBU (k : Kernel) : SlotsE { k with incHfs := k.computeEBU } := by
  refine ⟨computeEBU_length k, fun v hv => ?_⟩
  show (k.computeEBU.getD v []).Perm _
  rw [sHfsOfHe_congr k { k with incHfs := k.computeEBU } rfl rfl v]
  exact computeEBU_getD k v hv

theorem cellStep_getD (ic : List (Option Nat)) (x v c : Nat) (hv : v < ic.length) :
    (if ic.getD x none == none then ic.set x (some c) else ic).getD v none =
      if x = v ∧ ic.getD v none = none then some c else ic.getD v none := by
  by_cases hx : x = v
  · subst hx
    by_cases hg : ic.getD x none = none
    · have h1 : (ic.getD x none == none) = true := by rw [hg]; rfl
      rw [if_pos h1, getD_set _ _ _ _ _ hv, if_pos rfl, if_pos ⟨rfl, hg⟩]
    · have h1 : ¬ (ic.getD x none == none) = true := by
        intro h; exact hg (by simpa using h)
      rw [if_neg h1, if_neg (show ¬ (x = x ∧ ic.getD x none = none) from fun h => hg h.2)]
  · rw [if_neg (show ¬ (x = v ∧ ic.getD v none = none) from fun h => hx h.1)]
    split
    · rw [getD_set _ _ _ _ _ hv, if_neg hx]
    · rfl

theorem cellLoop_getD (c : Nat) (hfs : List Nat) (ic : List (Option Nat)) (v : Nat) (hv : v < ic.length) :
    (hfs.foldl (fun ic hf => if ic.getD hf none == none then ic.set hf (some c) else ic) ic).getD v none =
      (match ic.getD v none with | some y => some y | none => if v ∈ hfs then some c else none) ∧
    (hfs.foldl (fun ic hf => if ic.getD hf none == none then ic.set hf (some c) else ic) ic).length = ic.length := by
  induction hfs generalizing ic with
  | nil => refine ⟨?_, rfl⟩; show ic.getD v none = _; cases ic.getD v none <;> simp
  | cons x t ih =>
    simp only [List.foldl_cons]
    have hlen : (if ic.getD x none == none then ic.set x (some c) else ic).length = ic.length := by split <;> simp
    obtain ⟨h1, h2⟩ := ih (if ic.getD x none == none then ic.set x (some c) else ic) (by rw [hlen]; exact hv)
    refine ⟨?_, by rw [h2, hlen]⟩
    rw [h1, cellStep_getD _ _ _ _ hv]
    cases hg : ic.getD v none with
    | some y => simp
    | none =>
      by_cases hx : x = v
      · simp [hx]
      · simp [hx, Ne.symm hx]

theorem computeFBU_getD (k : Kernel) (v : Nat) (hv : v < k.nHF) : k.computeFBU.getD v none = k.sCellOf v := by
  have key : ∀ (cs : List Nat) (ic : List (Option Nat)), v < ic.length →
      (cs.foldl (fun ic c => (k.cellAt c).foldl (fun ic hf => if ic.getD hf none == none then ic.set hf (some c) else ic) ic) ic).getD v none =
        (match ic.getD v none with | some y => some y | none => (cs.filter (fun c => (k.cellAt c).contains v)).head?) := by
    intro cs
    induction cs with
    | nil => intro ic _; show ic.getD v none = _; cases ic.getD v none <;> simp
    | cons c t ih =>
      intro ic hic
      simp only [List.foldl_cons]
      obtain ⟨h1, h2⟩ := cellLoop_getD c (k.cellAt c) ic v hic
      rw [ih _ (by rw [h2]; exact hic), h1]
      cases hg : ic.getD v none with
      | some y => simp
      | none =>
        by_cases hm : v ∈ k.cellAt c
        · simp [hm, List.filter_cons]
        · simp [hm, List.filter_cons]
  unfold computeFBU
  rw [key _ _ (by simpa using hv)]
  have : (List.replicate k.nHF (none : Option Nat)).getD v none = none := by
    simp [List.getD_eq_getElem?_getD, hv]
  rw [this]
  rfl

theorem slotsF_computeFBU (k : Kernel) (b : Bool) : SlotsF { k with incCell := k.computeFBU, fBU := b } := by
  refine ⟨computeFBU_length k, fun v hv => ?_⟩
  show k.computeFBU.getD v none = _
  rw [computeFBU_getD k v hv, sCellOf_congr k { k with incCell := k.computeFBU, fBU := b } rfl rfl v]

end Kernel
end OVM

import OVM.Refine.RotInvOps
/-
  RotInv, part 3 (builder R1): switching the bottom-up incidences.  Enabling the edge or the face kind (while the
  other one is on) recomputes the cache and then runs `reorder` over ALL live edges (`reorderAll`,
  TopologyKernel.hh:922-967): every single-fan edge is ordered afterwards, whatever the order was.
  Disabling either kind leaves nothing to state; the vertex kind is irrelevant.
-/
namespace OVM
namespace Kernel
namespace Rot
open Fan CellCheck ScanDel

/-- an edge with a cached halfface is a live edge -/
theorem edge_live_of_slot {k : Kernel} (hw : WF k) (hc : Closed k) (hb : k.eBU = true) {e : Nat}
    (hne : k.hfsOf (heOf e 0) ≠ []) : e ∈ k.liveEdges := by
  rw [mem_liveEdges]
  have hlt := slot_lt hw hb hne
  obtain ⟨x, hx⟩ := List.exists_mem_of_ne_nil _ hne
  obtain ⟨hl, hhe⟩ := mem_slot hw hb hx
  obtain ⟨h', hh', he'⟩ := he_in_face hhe
  have := hc.e _ hl h' hh'
  have e1 : eOf (heOf e 0) = e := by unfold eOf heOf; omega
  rw [he', e1] at this
  unfold liveE nHE nE heOf at *
  simp only [Bool.and_eq_true, decide_eq_true_eq, Bool.not_eq_true']
  exact ⟨by omega, this⟩

/-- a state that agrees with the result of `reorderAll` on what the fans read, and is well-formed, satisfies the
    invariant — whatever held before -/
theorem rotInv_of_reorderAll {K B : Kernel} (hd : SameDefs K.reorderAll B)
    (hs : ∀ y, B.hfsOf y = K.reorderAll.hfsOf y) (hlen : B.incHfs.length = K.reorderAll.incHfs.length)
    (hedges : B.liveEdges = K.liveEdges) (hw : WF B) (hc : Closed B) : RotInv B := by
  intro hbe _ e hsf h2
  have hne : B.hfsOf (heOf e 0) ≠ [] := by intro h0; rw [h0] at h2; simp at h2
  have hm := edge_live_of_slot hw hc hbe hne
  rw [hedges] at hm
  have hok := slotsOK_of_wf hw hbe e h2
  have hok' : SlotsOK K.reorderAll e := by
    unfold SlotsOK at *; rw [hs, hs, hlen] at hok; exact hok
  have hsf' : SingleFanU K.reorderAll e := (SingleFanU.congr hd e (by rw [hs])).mp hsf
  exact (hd.fanOrdered e (hs _) (hs _)).mpr (foldl_reorder_ordered_post _ K e hm hsf' hok')

theorem liveEdges_reorderAll (K : Kernel) : K.reorderAll.liveEdges = K.liveEdges := by
  unfold liveEdges eDeleted nE reorderAll; simp

theorem rotInv_enableEBU {k : Kernel} (b : Bool) (hw : WF (k.enableEBU b)) (hc : Closed (k.enableEBU b))
    (hi : RotInv k) : RotInv (k.enableEBU b) := by
  cases b with
  | false => exact rotInv_off (Or.inl (by unfold enableEBU; simp))
  | true =>
    by_cases he : k.eBU = true
    · have : k.enableEBU true = k := by unfold enableEBU; simp [he]
      rw [this]; exact hi
    · by_cases hf : k.fBU = true
      · have heq : k.enableEBU true = { ({ k with incHfs := k.computeEBU } : Kernel).reorderAll with eBU := true } := by
          unfold enableEBU; simp [he, hf]
        rw [heq] at hw hc ⊢
        exact rotInv_of_reorderAll (K := { k with incHfs := k.computeEBU }) ⟨rfl, rfl, rfl, rfl⟩ (fun _ => rfl) rfl
          (liveEdges_reorderAll { k with incHfs := k.computeEBU }) hw hc
      · apply rotInv_off; right
        unfold enableEBU; simp [he, hf]

theorem rotInv_enableFBU {k : Kernel} (b : Bool) (hw : WF (k.enableFBU b)) (hc : Closed (k.enableFBU b))
    (hi : RotInv k) : RotInv (k.enableFBU b) := by
  cases b with
  | false => exact rotInv_off (Or.inr (by unfold enableFBU; simp))
  | true =>
    by_cases hf : k.fBU = true
    · have : k.enableFBU true = k := by unfold enableFBU; simp [hf]
      rw [this]; exact hi
    · by_cases he : k.eBU = true
      · have heq : k.enableFBU true = ({ k with incCell := k.computeFBU, fBU := true } : Kernel).reorderAll := by
          unfold enableFBU; simp [he, hf]
        rw [heq] at hw hc ⊢
        exact rotInv_of_reorderAll (K := { k with incCell := k.computeFBU, fBU := true }) ⟨rfl, rfl, rfl, rfl⟩
          (fun _ => rfl) rfl (liveEdges_reorderAll _) hw hc
      · apply rotInv_off; left
        unfold enableFBU; simp [he, hf]

theorem rotInv_enableVBU {k : Kernel} (b : Bool) (hi : RotInv k) : RotInv (k.enableVBU b) := by
  apply rotInv_of_same (A := k) _ _ _ hi
  · unfold enableVBU; intro h1 h2; (repeat' split at h1) <;> (repeat' split at h2) <;> exact ⟨h1, h2⟩
  · unfold enableVBU; (repeat' split) <;> exact ⟨rfl, rfl, rfl, rfl⟩
  · intro y; unfold enableVBU; (repeat' split) <;> rfl

end Rot
end Kernel
end OVM

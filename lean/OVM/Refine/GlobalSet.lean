import OVM.Refine.GlobalAdd
/-
  `GInv` is kept by `set_edge`, `set_face`, `set_cell` under `Global.OpOK`.  `WF` is builder K4's
  (OVM/Refine/CacheSet.lean); new here: `oneCell` after `set_cell` from the stated precondition (the new
  halffaces are pairwise distinct and used by no other live cell), `Closed`, and the flag bookkeeping
  (`set_*` touch neither flags nor counters).
-/
namespace OVM
namespace Kernel
namespace Global
open ScanDel

/-! ### set_edge -/

theorem ginv_setEdge {k : Kernel} {e a b : Nat} (he : e < k.nE) (hlive : k.eDeleted e = false)
    (ha : VOk k a) (hb : VOk k b) (hi : GInv k) : GInv (k.setEdge e a b) := by
  refine ⟨wf_setEdge he hlive ha.1 hb.1 hi.wf, (oneCell_setEdge k e a b).trans hi.one, ?_,
    flagInv_of_eq (k := k) rfl rfl rfl rfl rfl rfl rfl rfl rfl hi.flags⟩
  refine ⟨fun c hl x hx => hi.closed.f c hl x hx, fun f hl x hx => hi.closed.e f hl x hx, ?_⟩
  intro e' hle
  have hl' : k.liveE e' = true := by
    unfold liveE nE eDeleted at hle ⊢
    simpa [setEdge] using hle
  have hat : (k.setEdge e a b).edgeAt e' = if e = e' ∧ e < k.edges.length then (a, b) else k.edgeAt e' := by
    unfold edgeAt; show (k.edges.set e (a, b)).getD e' (0, 0) = _
    rw [ScanDel.getD_set]
  show k.vDeleted ((k.setEdge e a b).edgeAt e').1 = false ∧ k.vDeleted ((k.setEdge e a b).edgeAt e').2 = false
  rw [hat]
  split
  · exact ⟨ha.2, hb.2⟩
  · exact hi.closed.v e' hl'

/-! ### set_face -/

theorem ginv_setFace {k : Kernel} {f : Nat} {hes : List Nat} (hf : f < k.nF) (hlive : k.fDeleted f = false)
    (hh : ∀ h ∈ hes, HeOk k h) (hi : GInv k) : GInv (k.setFace f hes) := by
  refine ⟨wf_setFace hf hlive (fun h hm => (hh h hm).1) hi.wf, (oneCell_setFace k f hes).trans hi.one, ?_,
    flagInv_of_eq (k := k) rfl rfl rfl rfl rfl rfl rfl rfl rfl hi.flags⟩
  refine ⟨fun c hl x hx => hi.closed.f c hl x hx, ?_, fun e hl => hi.closed.v e hl⟩
  intro f' hlf x hx
  have hl' : k.liveF f' = true := by
    unfold liveF nF fDeleted at hlf ⊢
    simpa [setFace] using hlf
  have hat : (k.setFace f hes).faceAt f' = if f = f' ∧ f < k.faces.length then hes else k.faceAt f' := by
    unfold faceAt; show (k.faces.set f hes).getD f' [] = _
    rw [ScanDel.getD_set]
  show k.eDeleted (eOf x) = false
  rw [hat] at hx
  split at hx
  · exact (hh x hx).2
  · exact hi.closed.e f' hl' x hx

/-! ### set_cell -/

theorem sum_map_le {α} (l : List α) (g g' : α → Nat) (h : ∀ x ∈ l, g' x ≤ g x) : (l.map g').sum ≤ (l.map g).sum := by
  induction l with
  | nil => exact Nat.le_refl _
  | cons a t ih =>
    simp only [List.map_cons, List.sum_cons]
    have := h a (List.mem_cons_self)
    have := ih (fun c hc => h c (List.mem_cons_of_mem _ hc))
    omega

theorem sum_map_single (l : List Nat) (g : Nat → Nat) (c : Nat) (hn : l.Nodup)
    (hz : ∀ x ∈ l, x ≠ c → g x = 0) : (l.map g).sum ≤ g c := by
  induction l with
  | nil => exact Nat.zero_le _
  | cons a t ih =>
    simp only [List.map_cons, List.sum_cons]
    rw [List.nodup_cons] at hn
    by_cases hac : a = c
    · subst hac
      rw [sum_map_zero t g (fun x hx => hz x (List.mem_cons_of_mem _ hx) (fun e => hn.1 (e ▸ hx)))]
      exact Nat.le_refl _
    · rw [hz a (List.mem_cons_self) hac, Nat.zero_add]
      exact ih hn.2 (fun x hx => hz x (List.mem_cons_of_mem _ hx))

/-- `set_cell` onto pairwise distinct halffaces that no OTHER live cell uses keeps C01's precondition -/
theorem oneCell_setCell {k : Kernel} {c : Nat} {hfs : List Nat} (hc : c < k.cells.length)
    (hfree : ∀ x ∈ hfs, ∀ c' ∈ k.sCellsOfHf x, c' = c) (hn : hfs.Nodup) (h1 : k.oneCell = true) :
    (k.setCell c hfs).oneCell = true := by
  have hlive : (k.setCell c hfs).liveCells = k.liveCells := by
    unfold liveCells nC cDeleted setCell; simp
  have hat : ∀ c', (k.setCell c hfs).cellAt c' = if c = c' ∧ c < k.cells.length then hfs else k.cellAt c' := by
    intro c'; unfold cellAt; show (k.cells.set c hfs).getD c' [] = _
    rw [ScanDel.getD_set]
  unfold oneCell at h1 ⊢
  simp only [List.all_eq_true, List.mem_range, decide_eq_true_eq] at h1 ⊢
  intro x hx
  have hx' : x < k.nHF := by unfold nHF setCell at hx; exact hx
  rw [hlive]
  by_cases hm : x ∈ hfs
  · refine Nat.le_trans (sum_map_single k.liveCells _ c (liveCells_nodup k) ?_) ?_
    · intro c' hc' hne
      rw [hat, if_neg (fun h => hne h.1.symm), List.count_eq_zero]
      intro hmem
      exact hne (hfree x hm c' (by unfold sCellsOfHf; simp [hc', hmem]))
    · rw [hat]; split
      · rw [hn.count, if_pos hm]; exact Nat.le_refl _
      · rename_i hne; exact absurd ⟨rfl, hc⟩ hne
  · refine Nat.le_trans (sum_map_le _ (fun c' => (k.cellAt c').count x) _ ?_) (h1 x hx')
    intro c' _
    rw [hat]; split
    · rw [List.count_eq_zero.mpr hm]; exact Nat.zero_le _
    · exact Nat.le_refl _


theorem ginv_setCell {k : Kernel} {c : Nat} {hfs : List Nat} (hc : c < k.nC) (hlive : k.cDeleted c = false)
    (hh : ∀ hf ∈ hfs, HfOk k hf ∧ ∀ c' ∈ k.sCellsOfHf hf, c' = c) (hn : hfs.Nodup) (hi : GInv k) :
    GInv (k.setCell c hfs) := by
  have h1' := oneCell_setCell (k := k) hc (fun x hx => (hh x hx).2) hn hi.one
  refine ⟨wf_setCell hc hlive (fun h hm => (hh h hm).1.1) hi.wf hi.one h1', h1', ?_,
    flagInv_of_eq (k := k) rfl rfl rfl rfl rfl rfl rfl rfl rfl hi.flags⟩
  refine ⟨?_, fun f hl x hx => hi.closed.e f hl x hx, fun e hl => hi.closed.v e hl⟩
  intro c' hlc x hx
  have hl' : k.liveC c' = true := by
    unfold liveC nC cDeleted at hlc ⊢
    simpa [setCell] using hlc
  have hat : (k.setCell c hfs).cellAt c' = if c = c' ∧ c < k.cells.length then hfs else k.cellAt c' := by
    unfold cellAt; show (k.cells.set c hfs).getD c' [] = _
    rw [ScanDel.getD_set]
  show k.fDeleted (eOf x) = false
  rw [hat] at hx
  split at hx
  · exact (hh x hx).1.2
  · exact hi.closed.f c' hl' x hx

end Global
end Kernel
end OVM

import OVM.Refine.GlobalBU2
/-
  C12, immediate deletions.  `dOf k` is the part of a state that `SameDefs` reads (everything but the three caches,
  the three enable flags and the ghost flag).  In immediate mode nothing is flagged, so `SameDefs k1 k2` is
  `dOf k1 = dOf k2` (`dOf_eq_of_same`).  Each immediate `delete_*_core` is an explicit function of `dOf` alone —
  `dOf (k.deleteFaceCore h) = (dOf k).delFaceS h` etc. — under the invariant and the side condition of the stage
  (builders K4 `imm_*Core`, OVM/Refine/CacheImmediate.lean, for index shifting; K3 `swap*_eq_spec`,
  OVM/Refine/CacheSwapSpec.lean, for swap-with-last), hence so are the closure loops, and two runs from states with
  equal `dOf` end in states with equal `dOf`, whatever caches guided them.
-/
namespace OVM
namespace Kernel
namespace Global
open ScanDel

/-- what `SameDefs` compares, as data -/
structure D where
  nV : Nat
  edges : List (Nat × Nat)
  faces : List (List Nat)
  cells : List (List Nat)
  vDel : List Bool
  eDel : List Bool
  fDel : List Bool
  cDel : List Bool
  nDelV : Nat
  nDelE : Nat
  nDelF : Nat
  nDelC : Nat
  deferred : Bool
  fast : Bool
  props : Props

def dOf (k : Kernel) : D :=
  ⟨k.nV, k.edges, k.faces, k.cells, k.vDel, k.eDel, k.fDel, k.cDel, k.nDelV, k.nDelE, k.nDelF, k.nDelC, k.deferred,
   k.fast, k.props⟩

theorem same_of_dOf {k1 k2 : Kernel} (h : dOf k1 = dOf k2) : SameDefs k1 k2 := by
  unfold dOf at h
  simp only [D.mk.injEq] at h
  obtain ⟨h1, h2, h3, h4, h5, h6, h7, h8, h9, h10, h11, h12, h13, h14, h15⟩ := h
  exact same_of_frame (SameDefs.refl k1) (Frame.refl k1)
    ⟨h1.symm, h2.symm, h3.symm, h4.symm, h5.symm, h6.symm, h7.symm, h8.symm, h9.symm, h10.symm, h11.symm, h12.symm,
     h13.symm, h14.symm, h15.symm⟩

/-- with no flagged cell, face or edge, `SameDefs` is equality of everything it reads -/
theorem dOf_eq_of_same {k1 k2 : Kernel} (s : SameDefs k1 k2) (nc : NoFlag k1.cDel) (nf : NoFlag k1.fDel)
    (ne : NoFlag k1.eDel) : dOf k1 = dOf k2 := by
  obtain ⟨e1, e2, e3⟩ := s.defs_eq nc nf ne
  unfold dOf
  rw [s.nV, e1, e2, e3, s.vDel, s.eDel, s.fDel, s.cDel, s.nDelV, s.nDelE, s.nDelF, s.nDelC, s.deferred, s.fast, s.props]

/-! ### index-shifting mode: the four stages as functions of `D` -/

def D.delCellS (d : D) (h : Nat) : D :=
  { d with cells := d.cells.eraseIdx h, cDel := d.cDel.eraseIdx h, props := cellDeleted d.props h }
def D.delFaceS (d : D) (h : Nat) : D :=
  { d with cells := d.cells.map (·.map (corr2 (2 * h + 1))), faces := d.faces.eraseIdx h, fDel := d.fDel.eraseIdx h,
           props := faceDeleted d.props h }
def D.delEdgeS (d : D) (h : Nat) : D :=
  { d with faces := d.faces.map (·.map (corr2 (2 * h + 1))), edges := d.edges.eraseIdx h, eDel := d.eDel.eraseIdx h,
           props := edgeDeleted d.props h }
def D.delVertS (d : D) (h : Nat) : D :=
  { d with edges := d.edges.map (fun p => (corr1 h p.1, corr1 h p.2)), nV := d.nV - 1, vDel := d.vDel.eraseIdx h,
           props := vertexDeleted d.props h }

theorem dOf_cellCoreS {k : Kernel} (hi : Shift.ImmInv k) (h : Nat) : dOf (k.deleteCellCore h) = (dOf k).delCellS h := by
  rw [deleteCellCore_shift_eq h hi.deferred hi.fast]
  unfold dOf D.delCellS
  simp

theorem dOf_faceCoreS {k : Kernel} {h : Nat} (hi : Shift.ImmInv k) (hh : h < k.nF)
    (hun : ∀ c ∈ k.cells, ∀ a ∈ c, eOf a ≠ h) : dOf (k.deleteFaceCore h) = (dOf k).delFaceS h := by
  obtain ⟨_, hcells, _, _, _⟩ := Shift.imm_faceCore hi hh hun
  have heq := deleteFaceCore_shift_eq (k := k) h hi.deferred hi.fast
  unfold dOf D.delFaceS
  simp only [D.mk.injEq]
  refine ⟨?_, ?_, ?_, hcells, ?_, ?_, ?_, ?_, ?_, ?_, ?_, ?_, ?_, ?_, ?_⟩ <;> rw [heq] <;> simp

theorem dOf_edgeCoreS {k : Kernel} {h : Nat} (hi : Shift.ImmInv k) (hh : h < k.nE)
    (hun : ∀ c ∈ k.faces, ∀ a ∈ c, eOf a ≠ h) : dOf (k.deleteEdgeCore h) = (dOf k).delEdgeS h := by
  obtain ⟨_, hfaces, _, _⟩ := Shift.imm_edgeCore hi hh hun
  have heq := deleteEdgeCore_shift_eq (k := k) h hi.deferred hi.fast
  unfold dOf D.delEdgeS
  simp only [D.mk.injEq]
  refine ⟨?_, ?_, hfaces, ?_, ?_, ?_, ?_, ?_, ?_, ?_, ?_, ?_, ?_, ?_, ?_⟩ <;> rw [heq] <;> simp

theorem dOf_vertexCoreS {k : Kernel} {h : Nat} (hi : Shift.ImmInv k) (hh : h < k.nV)
    (hun : ∀ e ∈ k.edges, e.1 ≠ h ∧ e.2 ≠ h) : dOf (k.deleteVertexCore h) = (dOf k).delVertS h := by
  have heq := deleteVertexCore_shift_eq (k := k) h hi.deferred hi.fast
  have hedges := eraseVertex_edges hi.wf ⟨hh, hi.edges, hun⟩
  unfold dOf D.delVertS
  simp only [D.mk.injEq]
  refine ⟨?_, by rw [heq]; exact hedges, ?_, ?_, ?_, ?_, ?_, ?_, ?_, ?_, ?_, ?_, ?_, ?_, ?_⟩ <;> rw [heq] <;> simp

/-! ### the closure loops (index shifting) -/

theorem foldCells_dS (L : List Nat) (hd : Shift.Desc L) : ∀ k : Kernel, Shift.ImmInv k → (∀ x ∈ L, x < k.nC) →
    dOf (L.foldl deleteCellCore k) = L.foldl D.delCellS (dOf k) := by
  induction L with
  | nil => intro k _ _; rfl
  | cons x t ih =>
    intro k hi hlt
    have hx : x < k.nC := hlt x (by simp)
    have htx : ∀ y ∈ t, y < x := fun y hy => List.rel_of_pairwise_cons hd hy
    simp only [List.foldl_cons]
    rw [ih (List.Pairwise.of_cons hd) _ (Shift.immInv_deleteCellCore hi hx)
      (fun y hy => by rw [Shift.imm_cellCore_nC hi hx]; have := htx y hy; omega), dOf_cellCoreS hi]

theorem foldFaces_dS (L : List Nat) (hd : Shift.Desc L) : ∀ k : Kernel, Shift.ImmInv k → (∀ x ∈ L, x < k.nF) →
    (∀ c ∈ k.cells, ∀ a ∈ c, eOf a ∉ L) →
    dOf (L.foldl deleteFaceCore k) = L.foldl D.delFaceS (dOf k) := by
  induction L with
  | nil => intro k _ _ _; rfl
  | cons x t ih =>
    intro k hi hlt hun
    have hx : x < k.nF := hlt x (by simp)
    have htx : ∀ y ∈ t, y < x := fun y hy => List.rel_of_pairwise_cons hd hy
    have hunx : ∀ c ∈ k.cells, ∀ a ∈ c, eOf a ≠ x := fun c hc a ha e => hun c hc a ha (by rw [e]; simp)
    obtain ⟨hi1, hcells, hfaces, _, _⟩ := Shift.imm_faceCore hi hx hunx
    have hn1 : (k.deleteFaceCore x).nF = k.nF - 1 := by unfold Kernel.nF at *; rw [hfaces, List.length_eraseIdx, if_pos hx]
    simp only [List.foldl_cons]
    rw [ih (List.Pairwise.of_cons hd) _ hi1 (fun y hy => by rw [hn1]; have := htx y hy; omega)
      (by
        intro c1 hc1 a1 ha1
        rw [hcells] at hc1
        obtain ⟨c0, hc0, rfl⟩ := List.mem_map.mp hc1
        obtain ⟨a0, ha0, rfl⟩ := List.mem_map.mp ha1
        rw [eOf_corr2 x a0 (hunx c0 hc0 a0 ha0)]
        exact Shift.k4c_corr1_not_mem htx (fun hm => hun c0 hc0 a0 ha0 (List.mem_cons_of_mem _ hm))),
      dOf_faceCoreS hi hx hunx]

theorem foldEdges_dS (L : List Nat) (hd : Shift.Desc L) : ∀ k : Kernel, Shift.ImmInv k → (∀ x ∈ L, x < k.nE) →
    (∀ c ∈ k.faces, ∀ a ∈ c, eOf a ∉ L) →
    dOf (L.foldl deleteEdgeCore k) = L.foldl D.delEdgeS (dOf k) := by
  induction L with
  | nil => intro k _ _ _; rfl
  | cons x t ih =>
    intro k hi hlt hun
    have hx : x < k.nE := hlt x (by simp)
    have htx : ∀ y ∈ t, y < x := fun y hy => List.rel_of_pairwise_cons hd hy
    have hunx : ∀ c ∈ k.faces, ∀ a ∈ c, eOf a ≠ x := fun c hc a ha e => hun c hc a ha (by rw [e]; simp)
    obtain ⟨hi1, hfaces, hedges, _⟩ := Shift.imm_edgeCore hi hx hunx
    have hn1 : (k.deleteEdgeCore x).nE = k.nE - 1 := by unfold Kernel.nE at *; rw [hedges, List.length_eraseIdx, if_pos hx]
    simp only [List.foldl_cons]
    rw [ih (List.Pairwise.of_cons hd) _ hi1 (fun y hy => by rw [hn1]; have := htx y hy; omega)
      (by
        intro c1 hc1 a1 ha1
        rw [hfaces] at hc1
        obtain ⟨c0, hc0, rfl⟩ := List.mem_map.mp hc1
        obtain ⟨a0, ha0, rfl⟩ := List.mem_map.mp ha1
        rw [eOf_corr2 x a0 (hunx c0 hc0 a0 ha0)]
        exact Shift.k4c_corr1_not_mem htx (fun hm => hun c0 hc0 a0 ha0 (List.mem_cons_of_mem _ hm))),
      dOf_edgeCoreS hi hx hunx]

/-- the four immediate index-shifting deletions as functions of `dOf` and the closure lists -/
theorem dOf_deleteFaceS {k : Kernel} {f : Nat} (hi : Shift.ImmInv k) (hf : f < k.nF) :
    dOf (k.deleteFace f) = ((k.incidentCells [f]).reverse.foldl D.delCellS (dOf k)).delFaceS f := by
  unfold deleteFace
  obtain ⟨a1, a2, _, _, a5⟩ := Shift.imm_cellsGone hi [f]
  simp only []
  rw [dOf_faceCoreS a1 (by unfold Kernel.nF at *; rw [a2]; exact hf) (fun c hc a ha e => a5 c hc a ha (by rw [e]; simp)),
    foldCells_dS _ (Shift.desc_incidentCells k [f]) k hi (fun x hx => Shift.incidentCells_lt hi.wf (List.mem_reverse.mp hx))]

theorem dOf_facesStageS {k : Kernel} (hi : Shift.ImmInv k) (es : List Nat) :
    dOf ((k.incidentFaces es).reverse.foldl deleteFaceCore
      ((k.incidentCells (k.incidentFaces es)).reverse.foldl deleteCellCore k)) =
    (k.incidentFaces es).reverse.foldl D.delFaceS
      ((k.incidentCells (k.incidentFaces es)).reverse.foldl D.delCellS (dOf k)) := by
  obtain ⟨a1, a2, _, _, a5⟩ := Shift.imm_cellsGone hi (k.incidentFaces es)
  rw [foldFaces_dS _ (Shift.desc_incidentFaces k es) _ a1
    (fun x hx => by unfold Kernel.nF; rw [a2]; exact Shift.incidentFaces_lt hi.wf (List.mem_reverse.mp hx))
    (fun c hc a ha hm => a5 c hc a ha (List.mem_reverse.mp hm)),
    foldCells_dS _ (Shift.desc_incidentCells k _) k hi (fun x hx => Shift.incidentCells_lt hi.wf (List.mem_reverse.mp hx))]

theorem dOf_deleteEdgeS {k : Kernel} {e : Nat} (hi : Shift.ImmInv k) (he : e < k.nE) :
    dOf (k.deleteEdge e) = ((k.incidentFaces [e]).reverse.foldl D.delFaceS
      ((k.incidentCells (k.incidentFaces [e])).reverse.foldl D.delCellS (dOf k))).delEdgeS e := by
  unfold deleteEdge
  obtain ⟨a1, a2, _, a5⟩ := Shift.imm_facesGone hi [e]
  simp only []
  rw [dOf_edgeCoreS a1 (by unfold Kernel.nE at *; rw [a2]; exact he) (fun c hc a ha e1 => a5 c hc a ha (by rw [e1]; simp)),
    dOf_facesStageS hi]

theorem dOf_deleteVertexS {k : Kernel} {v : Nat} (hi : Shift.ImmInv k) (hv : v < k.nV) :
    dOf (k.deleteVertex v) = ((k.incidentEdges [v]).reverse.foldl D.delEdgeS
      ((k.incidentFaces (k.incidentEdges [v])).reverse.foldl D.delFaceS
        ((k.incidentCells (k.incidentFaces (k.incidentEdges [v]))).reverse.foldl D.delCellS (dOf k)))).delVertS v := by
  unfold deleteVertex
  obtain ⟨a1, a2, a4, a5⟩ := Shift.imm_facesGone hi (k.incidentEdges [v])
  have hD := dOf_facesStageS hi (k.incidentEdges [v])
  simp only []
  generalize (k.incidentFaces (k.incidentEdges [v])).reverse.foldl deleteFaceCore
      ((k.incidentCells (k.incidentFaces (k.incidentEdges [v]))).reverse.foldl deleteCellCore k) = k2 at a1 a2 a4 a5 hD
  obtain ⟨b1, b4, b5⟩ := Shift.immInv_foldEdges _ (Shift.desc_incidentEdges k [v]) k2 a1
    (fun x hx => by unfold Kernel.nE; rw [a2]; exact Shift.incidentEdges_lt hi.wf (List.mem_reverse.mp hx))
    (fun c hc a ha hm => a5 c hc a ha (List.mem_reverse.mp hm))
  have hE := foldEdges_dS _ (Shift.desc_incidentEdges k [v]) k2 a1
    (fun x hx => by unfold Kernel.nE; rw [a2]; exact Shift.incidentEdges_lt hi.wf (List.mem_reverse.mp hx))
    (fun c hc a ha hm => a5 c hc a ha (List.mem_reverse.mp hm))
  rw [dOf_vertexCoreS b1 (by rw [b4, a4]; exact hv) ?_, hE, hD]
  intro p hp
  obtain ⟨j', hj', rfl⟩ := Shift.k4c_edges_index hp
  obtain ⟨j, hj, hjL, e⟩ := b5 j' hj'
  rw [e]
  have hea : k2.edgeAt j = k.edgeAt j := by unfold edgeAt; rw [a2]
  have hj0 : j < k.nE := by unfold Kernel.nE at *; rw [← a2]; exact hj
  rw [hea]
  constructor
  · intro e1
    exact hjL (List.mem_reverse.mpr (Shift.incidentEdges_complete hi.wf hi.edges hj0 (by simp) (Or.inl e1)))
  · intro e1
    exact hjL (List.mem_reverse.mpr (Shift.incidentEdges_complete hi.wf hi.edges hj0 (by simp) (Or.inr e1)))

/-! ### swap-with-last mode: swaps and pops as functions of `D` -/

def D.swapCellD (d : D) (a b : Nat) : D :=
  if a == b then d else { d with cells := swapAt d.cells a b, cDel := swapAt d.cDel a b, props := swapCProps d.props a b }
def D.swapFaceD (d : D) (a b : Nat) : D :=
  if a == b then d else
    { d with cells := d.cells.map (·.map (relabelHalf a b)), faces := swapAt d.faces a b, fDel := swapAt d.fDel a b,
             props := swapFProps d.props a b }
def D.swapEdgeD (d : D) (a b : Nat) : D :=
  if a == b then d else
    { d with faces := d.faces.map (·.map (relabelHalf a b)), edges := swapAt d.edges a b, eDel := swapAt d.eDel a b,
             props := swapEProps d.props a b }
def D.swapVertD (d : D) (a b : Nat) : D :=
  if a == b then d else
    { d with edges := d.edges.map (relabelEdgeV a b), vDel := swapAt d.vDel a b, props := swapVProps d.props a b }

def D.popCell (d : D) (l : Nat) : D :=
  { d with cells := d.cells.eraseIdx l, cDel := d.cDel.eraseIdx l, props := cellDeleted d.props l }
def D.popFace (d : D) (l : Nat) : D :=
  { d with faces := d.faces.eraseIdx l, fDel := d.fDel.eraseIdx l, props := faceDeleted d.props l }
def D.popEdge (d : D) (l : Nat) : D :=
  { d with edges := d.edges.eraseIdx l, eDel := d.eDel.eraseIdx l, props := edgeDeleted d.props l }
def D.popVert (d : D) (l : Nat) : D :=
  { d with nV := d.nV - 1, vDel := d.vDel.eraseIdx l, props := vertexDeleted d.props l }

def D.delCellF (d : D) (h : Nat) : D := (d.swapCellD h (d.cells.length - 1)).popCell (d.cells.length - 1)
def D.delFaceF (d : D) (h : Nat) : D := (d.swapFaceD h (d.faces.length - 1)).popFace (d.faces.length - 1)
def D.delEdgeF (d : D) (h : Nat) : D := (d.swapEdgeD h (d.edges.length - 1)).popEdge (d.edges.length - 1)
def D.delVertF (d : D) (h : Nat) : D := (d.swapVertD h (d.nV - 1)).popVert (d.nV - 1)

theorem dOf_swapCell (k : Kernel) (a b : Nat) : dOf (k.swapCell a b) = (dOf k).swapCellD a b := by
  unfold swapCell D.swapCellD; split <;> rfl

theorem dOf_swapFace {k : Kernel} (hi : ImmInv k) {a b : Nat} (ha : a < k.nF) (hb : b < k.nF) :
    dOf (k.swapFace a b) = (dOf k).swapFaceD a b := by
  by_cases hab : a = b
  · subst hab; rw [swapFace_self]; unfold D.swapFaceD; simp
  · rw [swapFace_eq_spec ha hb hab hi.wf (fun _ => hi.one) (fun _ => hi.nfC)]
    unfold D.swapFaceD relabelFaceSpec dOf; simp [hab]

theorem dOf_swapEdge {k : Kernel} (hi : ImmInv k) {a b : Nat} (ha : a < k.nE) (hb : b < k.nE) :
    dOf (k.swapEdge a b) = (dOf k).swapEdgeD a b := by
  by_cases hab : a = b
  · subst hab; rw [swapEdge_self]; unfold D.swapEdgeD; simp
  · rw [swapEdge_eq_spec ha hb hab hi.wf (fun _ => hi.nfF)]
    unfold D.swapEdgeD relabelEdgeSpec dOf; simp [hab]

theorem dOf_swapVertex {k : Kernel} (hi : ImmInv k) {a b : Nat} (ha : a < k.nV) (hb : b < k.nV) :
    dOf (k.swapVertex a b) = (dOf k).swapVertD a b := by
  by_cases hab : a = b
  · subst hab; rw [swapVertex_self]; unfold D.swapVertD; simp
  · rw [swapVertex_eq_spec ha hb hab hi.wf (fun _ => hi.nfE)]
    unfold D.swapVertD relabelVertexSpec dOf; simp [hab]

theorem dOf_cellCoreF {k : Kernel} (hi : ImmInv k) (h : Nat) : dOf (k.deleteCellCore h) = (dOf k).delCellF h := by
  rw [deleteCellCore_fast_eq h hi.imm hi.fast]
  unfold D.delCellF
  rw [show (dOf k).cells.length - 1 = k.nC - 1 from rfl, ← dOf_swapCell]
  unfold dOf D.popCell
  simp

theorem dOf_faceCoreF {k : Kernel} (hi : ImmInv k) {h : Nat} (hh : h < k.nF) :
    dOf (k.deleteFaceCore h) = (dOf k).delFaceF h := by
  rw [deleteFaceCore_fast_eq h hi.imm hi.fast]
  unfold D.delFaceF
  rw [show (dOf k).faces.length - 1 = k.nF - 1 from rfl, ← dOf_swapFace hi hh (by omega)]
  have hfast : ((k.swapFace h (k.nF - 1)).unlinkFace (k.nF - 1)).fast = true := by simpa using hi.fast
  unfold dOf D.popFace
  simp only [D.mk.injEq]
  refine ⟨?_, ?_, ?_, by rw [eraseFace_cells_fast _ _ hfast]; simp, ?_, ?_, ?_, ?_, ?_, ?_, ?_, ?_, ?_, ?_, ?_⟩ <;> simp

theorem dOf_edgeCoreF {k : Kernel} (hi : ImmInv k) {h : Nat} (hh : h < k.nE) :
    dOf (k.deleteEdgeCore h) = (dOf k).delEdgeF h := by
  rw [deleteEdgeCore_fast_eq h hi.imm hi.fast]
  unfold D.delEdgeF
  rw [show (dOf k).edges.length - 1 = k.nE - 1 from rfl, ← dOf_swapEdge hi hh (by omega)]
  have hfast : ((k.swapEdge h (k.nE - 1)).unlinkEdge (k.nE - 1)).fast = true := by simpa using hi.fast
  unfold dOf D.popEdge
  simp only [D.mk.injEq]
  refine ⟨?_, ?_, by rw [eraseEdge_faces_fast _ _ hfast]; simp, ?_, ?_, ?_, ?_, ?_, ?_, ?_, ?_, ?_, ?_, ?_, ?_⟩ <;> simp

theorem dOf_vertexCoreF {k : Kernel} (hi : ImmInv k) {h : Nat} (hh : h < k.nV)
    (hno : ∀ e ∈ k.edges, e.1 ≠ h ∧ e.2 ≠ h) : dOf (k.deleteVertexCore h) = (dOf k).delVertF h := by
  rw [deleteVertexCore_fast_eq h hi.imm hi.fast]
  unfold D.delVertF
  rw [show (dOf k).nV - 1 = k.nV - 1 from rfl, ← dOf_swapVertex hi hh (by omega)]
  have hlast : k.nV - 1 < k.nV := by omega
  have hw1 := wf_swapVertex hh hlast hi.wf
  have hno1 := swapVertex_unused hh hlast hi.wf.cache.v (fun _ => hi.nfE) hno
  have hedges := eraseLastVertex_edges (k := k.swapVertex h (k.nV - 1)) (by simp; omega) hw1 (by simpa using hno1)
  rw [swapVertex_nV] at hedges
  unfold dOf D.popVert
  simp only [D.mk.injEq]
  refine ⟨?_, hedges, ?_, ?_, ?_, ?_, ?_, ?_, ?_, ?_, ?_, ?_, ?_, ?_, ?_⟩ <;> simp

/-! ### the closure loops (swap-with-last) -/

theorem foldCells_dF : ∀ (L : List Nat) (k : Kernel), ImmInv k → L.Pairwise (· > ·) → (∀ c ∈ L, c < k.nC) →
    dOf (L.foldl deleteCellCore k) = L.foldl D.delCellF (dOf k) := by
  intro L
  induction L with
  | nil => intro k _ _ _; rfl
  | cons h t ih =>
    intro k hi hp hlt
    simp only [List.foldl_cons]
    have hh : h < k.nC := hlt h (by simp)
    obtain ⟨s1, s2, _⟩ := immInv_deleteCellCore hi hh
    rw [ih _ s1 (List.pairwise_cons.mp hp).2 (by rw [s2]; exact k3_lt_of_desc hp hh), dOf_cellCoreF hi]

theorem foldFaces_dF : ∀ (L : List Nat) (k : Kernel), ImmInv k → L.Pairwise (· > ·) → (∀ f ∈ L, f < k.nF) →
    (∀ c ∈ k.cells, ∀ x ∈ c, x / 2 ∉ L) →
    dOf (L.foldl deleteFaceCore k) = L.foldl D.delFaceF (dOf k) := by
  intro L
  induction L with
  | nil => intro k _ _ _ _; rfl
  | cons h t ih =>
    intro k hi hp hlt hno
    simp only [List.foldl_cons]
    have hh : h < k.nF := hlt h (by simp)
    have hc := List.pairwise_cons.mp hp
    obtain ⟨s1, s2, _, s4, _, _⟩ := immInv_deleteFaceCore hi hh (fun c hc x hx e => hno c hc x hx (by rw [e]; simp))
    rw [ih _ s1 hc.2 (by rw [s2]; exact k3_lt_of_desc hp hh)
      (by
        intro c hcm x hx hxt
        obtain ⟨c0, hc0, rfl⟩ := s4 c hcm
        rw [k3_mem_map_relabelHalf] at hx
        have h1 := hno c0 hc0 _ hx
        rw [k3_relabelHalf_div] at h1
        have hg := hc.1 _ hxt
        rw [k3_relabelId_off (by omega) (by omega)] at h1
        exact h1 (List.mem_cons_of_mem _ hxt)), dOf_faceCoreF hi hh]

theorem foldEdges_dF : ∀ (L : List Nat) (k : Kernel), ImmInv k → L.Pairwise (· > ·) → (∀ e ∈ L, e < k.nE) →
    (∀ f ∈ k.faces, ∀ x ∈ f, x / 2 ∉ L) →
    dOf (L.foldl deleteEdgeCore k) = L.foldl D.delEdgeF (dOf k) := by
  intro L
  induction L with
  | nil => intro k _ _ _ _; rfl
  | cons h t ih =>
    intro k hi hp hlt hno
    simp only [List.foldl_cons]
    have hh : h < k.nE := hlt h (by simp)
    have hc := List.pairwise_cons.mp hp
    obtain ⟨s1, s2, _, s4, _⟩ := immInv_deleteEdgeCore hi hh (fun c hc x hx e => hno c hc x hx (by rw [e]; simp))
    rw [ih _ s1 hc.2 (by rw [s2]; exact k3_lt_of_desc hp hh)
      (by
        intro c hcm x hx hxt
        obtain ⟨c0, hc0, rfl⟩ := s4 c hcm
        rw [k3_mem_map_relabelHalf] at hx
        have h1 := hno c0 hc0 _ hx
        rw [k3_relabelHalf_div] at h1
        have hg := hc.1 _ hxt
        rw [k3_relabelId_off (by omega) (by omega)] at h1
        exact h1 (List.mem_cons_of_mem _ hxt)), dOf_edgeCoreF hi hh]

theorem dOf_deleteFaceF {k : Kernel} (hi : ImmInv k) {f : Nat} (hf : f < k.nF) :
    dOf (k.deleteFace f) = ((k.incidentCells [f]).reverse.foldl D.delCellF (dOf k)).delFaceF f := by
  unfold deleteFace
  obtain ⟨c1, c2⟩ := incidentCells_spec hi [f]
  obtain ⟨r1, r2, r3, _, _⟩ := cellStage (fun c => ∃ x ∈ c, x / 2 ∈ [f]) (k.incidentCells [f]).reverse k hi
    (incidentCells_desc k _) (by simpa using c1) (by intro i hil hq; simpa using c2 i hil hq)
  simp only []
  rw [dOf_faceCoreF r1 (by unfold Kernel.nF at *; rw [r3]; exact hf),
    foldCells_dF _ k hi (incidentCells_desc k _) (by simpa using c1)]

theorem dOf_deleteEdgeF {k : Kernel} (hi : ImmInv k) {e : Nat} (he : e < k.nE) :
    dOf (k.deleteEdge e) = ((k.incidentFaces [e]).reverse.foldl D.delFaceF
      ((k.incidentCells (k.incidentFaces [e])).reverse.foldl D.delCellF (dOf k))).delEdgeF e := by
  unfold deleteEdge
  obtain ⟨f1, f2⟩ := incidentFaces_spec hi [e] (by simpa using he)
  obtain ⟨c1, c2⟩ := incidentCells_spec hi (k.incidentFaces [e])
  obtain ⟨r1, r2, r3, r4, _⟩ := cellStage (fun c => ∃ x ∈ c, x / 2 ∈ k.incidentFaces [e])
    (k.incidentCells (k.incidentFaces [e])).reverse k hi
    (incidentCells_desc k _) (by simpa using c1) (by intro i hil hq; simpa using c2 i hil hq)
  have hD1 := foldCells_dF _ k hi (incidentCells_desc k (k.incidentFaces [e])) (by simpa using c1)
  have hrange : ∀ f ∈ (k.incidentFaces [e]).reverse, f < ((k.incidentCells (k.incidentFaces [e])).reverse.foldl deleteCellCore k).nF := by
    unfold Kernel.nF at *; rw [r3]; simpa using f1
  have hnoc : ∀ c ∈ ((k.incidentCells (k.incidentFaces [e])).reverse.foldl deleteCellCore k).cells, ∀ x ∈ c,
      x / 2 ∉ (k.incidentFaces [e]).reverse := by
    intro c hc x hx hm; exact r2 c hc ⟨x, hx, by simpa using hm⟩
  obtain ⟨s1, s2, s3, _⟩ := faceStage (fun f => ∃ x ∈ f, x / 2 ∈ [e]) (k.incidentFaces [e]).reverse _ r1
    (incidentFaces_desc k _) hrange hnoc
    (by
      intro i hil hq
      unfold Kernel.nF faceAt at *
      rw [r3] at hil hq
      simpa using f2 i hil hq)
  have hD2 := foldFaces_dF _ _ r1 (incidentFaces_desc k [e]) hrange hnoc
  simp only []
  rw [dOf_edgeCoreF s1 (by unfold Kernel.nE at *; rw [s3, r4]; exact he), hD2, hD1]

theorem dOf_deleteVertexF {k : Kernel} (hi : ImmInv k) {v : Nat} (hv : v < k.nV) :
    dOf (k.deleteVertex v) = ((k.incidentEdges [v]).reverse.foldl D.delEdgeF
      ((k.incidentFaces (k.incidentEdges [v])).reverse.foldl D.delFaceF
        ((k.incidentCells (k.incidentFaces (k.incidentEdges [v]))).reverse.foldl D.delCellF (dOf k)))).delVertF v := by
  unfold deleteVertex
  simp only []
  obtain ⟨e1, e2⟩ := incidentEdges_spec hi hv
  obtain ⟨f1, f2⟩ := incidentFaces_spec hi (k.incidentEdges [v]) e1
  obtain ⟨c1, c2⟩ := incidentCells_spec hi (k.incidentFaces (k.incidentEdges [v]))
  obtain ⟨r1, r2, r3, r4, r5⟩ := cellStage (fun c => ∃ x ∈ c, x / 2 ∈ k.incidentFaces (k.incidentEdges [v]))
    (k.incidentCells (k.incidentFaces (k.incidentEdges [v]))).reverse k hi
    (incidentCells_desc k _) (by simpa using c1) (by intro i hil hq; simpa using c2 i hil hq)
  have hD1 := foldCells_dF _ k hi (incidentCells_desc k (k.incidentFaces (k.incidentEdges [v]))) (by simpa using c1)
  generalize (k.incidentCells (k.incidentFaces (k.incidentEdges [v]))).reverse.foldl deleteCellCore k = k1 at r1 r2 r3 r4 r5 hD1 ⊢
  have hrange : ∀ f ∈ (k.incidentFaces (k.incidentEdges [v])).reverse, f < k1.nF := by
    unfold Kernel.nF at *; rw [r3]; simpa using f1
  have hnoc : ∀ c ∈ k1.cells, ∀ x ∈ c, x / 2 ∉ (k.incidentFaces (k.incidentEdges [v])).reverse := by
    intro c hc x hx hm; exact r2 c hc ⟨x, hx, by simpa using hm⟩
  obtain ⟨s1, s2, s3, s4⟩ := faceStage (fun f => ∃ x ∈ f, x / 2 ∈ k.incidentEdges [v])
    (k.incidentFaces (k.incidentEdges [v])).reverse _ r1 (incidentFaces_desc k _) hrange hnoc
    (by
      intro i hil hq
      unfold Kernel.nF faceAt at *
      rw [r3] at hil hq
      simpa using f2 i hil hq)
  have hD2 := foldFaces_dF _ _ r1 (incidentFaces_desc k (k.incidentEdges [v])) hrange hnoc
  generalize (k.incidentFaces (k.incidentEdges [v])).reverse.foldl deleteFaceCore k1 = k2 at s1 s2 s3 s4 hD2 ⊢
  have hrange2 : ∀ e ∈ (k.incidentEdges [v]).reverse, e < k2.nE := by
    unfold Kernel.nE at *; rw [s3, r4]; simpa using e1
  have hnof : ∀ f ∈ k2.faces, ∀ x ∈ f, x / 2 ∉ (k.incidentEdges [v]).reverse := by
    intro f hf x hx hm; exact s2 f hf ⟨x, hx, by simpa using hm⟩
  obtain ⟨t1, t2, t3⟩ := edgeStage (fun e => e.1 = v ∨ e.2 = v) (k.incidentEdges [v]).reverse _ s1
    (incidentEdges_desc k _) hrange2 hnof
    (by
      intro i hil hq
      unfold Kernel.nE edgeAt at *
      rw [s3, r4] at hil hq
      simpa using e2 i hil hq)
  have hD3 := foldEdges_dF _ _ s1 (incidentEdges_desc k [v]) hrange2 hnof
  rw [dOf_vertexCoreF t1 (by rw [t3, s4, r5]; exact hv)
    (fun e he => ⟨fun h => t2 e he (Or.inl h), fun h => t2 e he (Or.inr h)⟩), hD3, hD2, hD1]

/-! ### immediate deletion in any two bottom-up configurations -/

/-- the closure lists of two `GInv` states with the same `dOf` -/
theorem lists_eq {k1 k2 : Kernel} (s : SameDefs k1 k2) (i1 : GInv k1) (i2 : GInv k2) :
    (∀ fs, k1.incidentCells fs = k2.incidentCells fs) ∧ (∀ es, k1.incidentFaces es = k2.incidentFaces es) ∧
    (∀ vs, k1.incidentEdges vs = k2.incidentEdges vs) :=
  ⟨fun fs => same_incidentCells s i1 i2 fs, fun es => same_incidentFaces s i1.wf i2.wf es,
   fun vs => same_incidentEdges s i1.wf i2.wf vs⟩

theorem same_delete_imm {k1 k2 : Kernel} (s : SameDefs k1 k2) (i1 : GInv k1) (i2 : GInv k2)
    (hd : k1.deferred = false) :
    (∀ c, c < k1.nC → SameDefs (k1.deleteCell c) (k2.deleteCell c)) ∧
    (∀ f, f < k1.nF → SameDefs (k1.deleteFace f) (k2.deleteFace f)) ∧
    (∀ e, e < k1.nE → SameDefs (k1.deleteEdge e) (k2.deleteEdge e)) ∧
    (∀ v, v < k1.nV → SameDefs (k1.deleteVertex v) (k2.deleteVertex v)) := by
  have hd2 : k2.deferred = false := by rw [← s.deferred]; exact hd
  obtain ⟨n1, n2, n3, _⟩ := i1.noFlag_of_immediate hd
  have hD := dOf_eq_of_same s n1 n2 n3
  obtain ⟨lc, lf, le⟩ := lists_eq s i1 i2
  have hnC : k2.nC = k1.nC := by unfold Kernel.nC; exact s.nC.symm
  have hnF : k2.nF = k1.nF := by unfold Kernel.nF; exact s.nF.symm
  have hnE : k2.nE = k1.nE := by unfold Kernel.nE; exact s.nE.symm
  by_cases hf : k1.fast = true
  · have hf2 : k2.fast = true := by rw [← s.fast]; exact hf
    have m1 := immInv_of_ginv i1 hd hf
    have m2 := immInv_of_ginv i2 hd2 hf2
    refine ⟨fun c _ => ?_, fun f hlt => ?_, fun e hlt => ?_, fun v hlt => ?_⟩
    · apply same_of_dOf; unfold deleteCell; rw [dOf_cellCoreF m1, dOf_cellCoreF m2, hD]
    · apply same_of_dOf; rw [dOf_deleteFaceF m1 hlt, dOf_deleteFaceF m2 (by rw [hnF]; exact hlt), hD, lc]
    · apply same_of_dOf; rw [dOf_deleteEdgeF m1 hlt, dOf_deleteEdgeF m2 (by rw [hnE]; exact hlt), hD, lf, lc]
    · apply same_of_dOf
      rw [dOf_deleteVertexF m1 hlt, dOf_deleteVertexF m2 (by rw [← s.nV]; exact hlt), hD, le, lf, lc]
  · have hf' : k1.fast = false := by simpa using hf
    have hf2 : k2.fast = false := by rw [← s.fast]; exact hf'
    have m1 := shiftImmInv_of_ginv i1 hd hf'
    have m2 := shiftImmInv_of_ginv i2 hd2 hf2
    refine ⟨fun c _ => ?_, fun f hlt => ?_, fun e hlt => ?_, fun v hlt => ?_⟩
    · apply same_of_dOf; unfold deleteCell; rw [dOf_cellCoreS m1, dOf_cellCoreS m2, hD]
    · apply same_of_dOf; rw [dOf_deleteFaceS m1 hlt, dOf_deleteFaceS m2 (by rw [hnF]; exact hlt), hD, lc]
    · apply same_of_dOf; rw [dOf_deleteEdgeS m1 hlt, dOf_deleteEdgeS m2 (by rw [hnE]; exact hlt), hD, lf, lc]
    · apply same_of_dOf
      rw [dOf_deleteVertexS m1 hlt, dOf_deleteVertexS m2 (by rw [← s.nV]; exact hlt), hD, le, lf, lc]

end Global
end Kernel
end OVM
